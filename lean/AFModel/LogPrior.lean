import AFModel.Fitness

/-!
# LogPrior — the log-prior terms a posterior-space search adds (C04)

Mirrors `Prior.log_prior_from_value` per prior family
(`autofit/mapper/prior/{uniform,log_uniform,log_gaussian}.py`, `autofit/messages/normal.py` reached
through `Prior.__getattr__`) and `AbstractPriorModel.log_prior_list_from_vector`
(`map(f, prior_tuples_ordered_by_id, vector)`): the k-th prior *in parameter order* is paired with the
k-th vector entry; parameter order is computed from the composition tree (`uniqueIds`, C01).
The expressions are what the code computes (they are not log-densities: DESIGN A.6).
-/

namespace AF

inductive LpKind | uniform | logUniform | gaussian | logGaussian | other
  deriving DecidableEq, Repr, Inhabited

/-- what `log_prior_from_value` reads from a prior -/
structure PriorD (V : Type) where
  kind : LpKind
  mean : V
  sigma : V

/-- arithmetic of the log-prior expressions -/
structure LpOps (V : Type) where
  zero : V
  one : V
  two : V
  negInf : V
  nan : V
  sub : V → V → V
  mul : V → V → V
  div : V → V → V
  /-- `x ** 2.0` -/
  sq : V → V
  /-- `np.log` -/
  log : V → V
  /-- `value <= 0` -/
  le0 : V → Bool

/-- `(x - mean) ** 2.0 / (2 * sigma ** 2.0)` (`NormalMessage.log_prior_from_value`) -/
def normalTerm {V} (lo : LpOps V) (mean sigma x : V) : V :=
  lo.div (lo.sq (lo.sub x mean)) (lo.mul lo.two (lo.sq sigma))

/-- `prior.log_prior_from_value(value)` -/
def logPriorOf {V} (lo : LpOps V) (p : PriorD V) (x : V) : V :=
  match p.kind with
  | .uniform => lo.zero
  | .logUniform => lo.div lo.one x
  | .gaussian => normalTerm lo p.mean p.sigma x
  | .logGaussian =>
      if lo.le0 x then lo.negInf
      else lo.sub (normalTerm lo p.mean p.sigma (lo.log x)) (lo.log x)
  | .other => lo.nan

/-- the description of the prior with a given id (a prior the table does not know is `other`) -/
def descOf {V} (lo : LpOps V) (tbl : List (Nat × PriorD V)) (id : Nat) : PriorD V :=
  match tbl.find? (fun e => e.1 == id) with
  | some e => e.2
  | none => { kind := .other, mean := lo.zero, sigma := lo.one }

/-- `model.log_prior_list_from_vector(vector)`: one term per parameter, in parameter order (the order
of `uniqueIds`, which is the order of `model.paths`); Python's `map` stops at the shorter argument -/
def logPriorList {V} (lo : LpOps V) (tbl : List (Nat × PriorD V)) (t : Node V) (v : List V) : List V :=
  (argsOfVector t v).map (fun a => logPriorOf lo (descOf lo tbl a.1) a.2)

/-- `sum(model.log_prior_list_from_vector(vector))` -/
def logPriorSum {V} (fo : FomOps V) (lo : LpOps V) (tbl : List (Nat × PriorD V)) (t : Node V) (v : List V) : V :=
  pySum fo (logPriorList lo tbl t v)

/-- Python `float` instance (`**` and `np.log` through libm) -/
def floatLp : LpOps Float where
  zero := 0.0
  one := 1.0
  two := 2
  negInf := -(1.0 / 0.0)
  nan := 0.0 / 0.0
  sub := fun a b => a - b
  mul := fun a b => a * b
  div := fun a b => a / b
  sq := fun a => Float.pow a 2.0
  log := Float.log
  le0 := fun a => a ≤ 0

def LpKind.ofString : String → LpKind
  | "Uniform" => .uniform
  | "LogUniform" => .logUniform
  | "Gaussian" => .gaussian
  | "LogGaussian" => .logGaussian
  | _ => .other

end AF
