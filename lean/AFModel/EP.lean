/-!
# EP — expectation-propagation bookkeeping (C18)

Mirrors, in natural-parameter space,

* `EPMeanField.factor_approximation / mean_field / project_mean_field`
  (`autofit/graphical/expectation_propagation/ep_mean_field.py`),
* `MeanField.prod / update_factor_mean_field / update_invalid` (`autofit/graphical/mean_field.py`),
* `AbstractDeclarativeFactor.prior_counts / message_dict / graph / mean_field_approximation`
  (`autofit/graphical/declarative/abstract.py`, `collection.py`, `factor/hierarchical.py`),
* `DynamicUpdater.delta` (`expectation_propagation/optimiser.py`),
* `FactorHistory.latest_result`, `EPResult.latest_results / latest_for` (`history.py`, `result.py`).

A message is its natural-parameter vector `η : G`; product / quotient / real power of messages are
`+`, `-`, `r • η` (that these are what `*`, `/`, `**` of messages do is C17's subject). `G` is any
`EtaSpace` (a ℚ-module); the driver runs `G := Rat × Rat` (all univariate families of the library
have two natural parameters). A mean field is a partial map variable → message (`Option`: the
Python dict has that key or not); an absent message is skipped by `MeanField.prod`
(`other.get(key, 1.0)`), i.e. contributes the neutral element.

Core Lean only.
-/

namespace AF.EP

/-- what the bookkeeping needs of natural-parameter space: a module over the rationals -/
class EtaSpace (G : Type) extends Add G, Sub G, Zero G where
  smul : Rat → G → G
  add_comm : ∀ a b : G, a + b = b + a
  add_assoc : ∀ a b c : G, a + b + c = a + (b + c)
  add_zero : ∀ a : G, a + 0 = a
  sub_add_cancel : ∀ a b : G, a - b + b = a
  one_smul : ∀ a : G, smul 1 a = a
  zero_smul : ∀ a : G, smul 0 a = 0
  add_smul : ∀ (r s : Rat) (a : G), smul (r + s) a = smul r a + smul s a
  smul_add : ∀ (r : Rat) (a b : G), smul r (a + b) = smul r a + smul r b
  mul_smul : ∀ (r s : Rat) (a : G), smul (r * s) a = smul r (smul s a)

infixr:73 " • " => EtaSpace.smul

instance : EtaSpace Rat where
  smul r a := r * a
  add_comm := by intros; grind
  add_assoc := by intros; grind
  add_zero := by intros; grind
  sub_add_cancel := by intros; grind
  one_smul := by intros; grind
  zero_smul := by intros; grind
  add_smul := by intros; grind
  smul_add := by intros; grind
  mul_smul := by intros; grind

instance {G H : Type} [EtaSpace G] [EtaSpace H] : EtaSpace (G × H) where
  add a b := (a.1 + b.1, a.2 + b.2)
  sub a b := (a.1 - b.1, a.2 - b.2)
  zero := (0, 0)
  smul r a := (r • a.1, r • a.2)
  add_comm a b := by
    show (a.1 + b.1, a.2 + b.2) = (b.1 + a.1, b.2 + a.2)
    rw [EtaSpace.add_comm a.1, EtaSpace.add_comm a.2]
  add_assoc a b c := by
    show (a.1 + b.1 + c.1, a.2 + b.2 + c.2) = (a.1 + (b.1 + c.1), a.2 + (b.2 + c.2))
    rw [EtaSpace.add_assoc, EtaSpace.add_assoc]
  add_zero a := by
    show (a.1 + 0, a.2 + 0) = a
    rw [EtaSpace.add_zero, EtaSpace.add_zero]
  sub_add_cancel a b := by
    show (a.1 - b.1 + b.1, a.2 - b.2 + b.2) = a
    rw [EtaSpace.sub_add_cancel, EtaSpace.sub_add_cancel]
  one_smul a := by
    show ((1 : Rat) • a.1, (1 : Rat) • a.2) = a
    rw [EtaSpace.one_smul, EtaSpace.one_smul]
  zero_smul a := by
    show ((0 : Rat) • a.1, (0 : Rat) • a.2) = (0, 0)
    rw [EtaSpace.zero_smul, EtaSpace.zero_smul]
  add_smul r s a := by
    show ((r + s) • a.1, (r + s) • a.2) = (r • a.1 + s • a.1, r • a.2 + s • a.2)
    rw [EtaSpace.add_smul, EtaSpace.add_smul]
  smul_add r a b := by
    show (r • (a.1 + b.1), r • (a.2 + b.2)) = (r • a.1 + r • b.1, r • a.2 + r • b.2)
    rw [EtaSpace.smul_add, EtaSpace.smul_add]
  mul_smul r s a := by
    show ((r * s) • a.1, (r * s) • a.2) = (r • s • a.1, r • s • a.2)
    rw [EtaSpace.mul_smul, EtaSpace.mul_smul]

variable {G : Type}

/-! ## mean-field state -/

/-- one mean field: the dict variable → message -/
abbrev Field (G : Type) := List (Nat × G)

def lookup (q : Field G) (v : Nat) : Option G :=
  match q with
  | [] => none
  | (k, x) :: rest => if k == v then some x else lookup rest v

/-- `factor_mean_field`: the dict factor → mean field; replacing a factor's entry puts the new one in
front (the first entry of a factor is the current one) -/
abbrev State (G : Type) := List (Nat × Field G)

/-- the message factor `f` holds for `v` (`none`: that mean field has no such key) -/
def State.get (s : State G) (f v : Nat) : Option G :=
  match s with
  | [] => none
  | (g, fld) :: rest => if g == f then lookup fld v else State.get rest f v

/-- an absent message is skipped by `MeanField.prod`: neutral element -/
def val [EtaSpace G] : Option G → G
  | some x => x
  | none => 0

/-- product (sum of natural parameters) of the messages the factors `fs` hold for `v` -/
def total [EtaSpace G] (s : State G) (v : Nat) : List Nat → G
  | [] => 0
  | g :: rest => val (s.get g v) + total s v rest

/-- the other factors (`factor_mean_field.pop(factor)`) -/
def others (fs : List Nat) (f : Nat) : List Nat := fs.filter (fun g => g != f)

/-- does any factor of `fs` hold a message for `v` (is the product a message, `is_message`)? -/
def present (s : State G) (v : Nat) (fs : List Nat) : Bool := fs.any (fun g => (s.get g v).isSome)

/-- cavity distribution of factor `f` for `v`: product over the *other* factors -/
def cavity [EtaSpace G] (fs : List Nat) (s : State G) (f v : Nat) : G := total s v (others fs f)

/-- `EPMeanField.mean_field[v]`: product over all factors -/
def global [EtaSpace G] (fs : List Nat) (s : State G) (v : Nat) : G := total s v fs

/-- `FactorApproximation` as returned by `EPMeanField.factor_approximation(f)` -/
structure Approx (G : Type) where
  f : Nat
  /-- `cavity_dist`: keys = variables of `f` that some other factor holds -/
  cavity : Nat → Option G
  /-- `factor_dist` -/
  old : Nat → Option G
  /-- `model_dist = factor_dist.prod(cavity_dist)` -/
  model : Nat → Option G

def cavityOpt [EtaSpace G] (fs : List Nat) (s : State G) (f v : Nat) : Option G :=
  if (s.get f v).isSome && present s v (others fs f) then some (cavity fs s f v) else none

def modelOpt [EtaSpace G] (fs : List Nat) (s : State G) (f v : Nat) : Option G :=
  (s.get f v).map (fun m => m + val (cavityOpt fs s f v))

def approx [EtaSpace G] (fs : List Nat) (s : State G) (f : Nat) : Approx G :=
  { f := f, cavity := cavityOpt fs s f, old := s.get f, model := modelOpt fs s f }

def globalOpt [EtaSpace G] (fs : List Nat) (s : State G) (v : Nat) : Option G :=
  if present s v fs then some (global fs s v) else none

/-! ## one projection: `EPMeanField.project_mean_field(new_dist, factor_approx, delta)` -/

/-- damping handed to `project_mean_field` -/
inductive Delta where
  /-- a float: `delta < 1` takes the damped branch, anything else the full update -/
  | scalar (d : Rat)
  /-- a `MeanField` of floats (what `DynamicUpdater` passes): always the damped formula, per variable -/
  | perVar (d : Nat → Rat)

/-- the exponent used for `v`: `none` = the branch `self / cavity_dist` -/
def Delta.at : Delta → Nat → Option Rat
  | .scalar d, _ => if d < 1 then some d else none
  | .perVar d, v => some (d v)

/-- the new message of the factor for one variable before the validity check:
`q / cavity` or `(q ** δ * old ** (1 - δ)) / cavity ** δ` -/
def candidate [EtaSpace G] (a : Approx G) (δ : Option Rat) (v : Nat) (qv : G) : G :=
  match δ with
  | none => qv - val (a.cavity v)
  | some d => (d • qv + (1 - d) • val (a.old v)) - d • val (a.cavity v)

/-- `update_invalid`: a message outside the family's natural-parameter domain is replaced by the
factor's previous message for that variable -/
def newMsg [EtaSpace G] (valid : G → Bool) (a : Approx G) (δ : Delta) (v : Nat) (qv : G) : G :=
  let c := candidate a (δ.at v) v qv
  if valid c then c else
    match a.old v with
    | some o => o
    | none => c

/-- the factor's new mean field: keys are those of the new model distribution -/
def newField [EtaSpace G] (valid : G → Bool) (a : Approx G) (q : Field G) (δ : Delta) : Field G :=
  q.map (fun (v, qv) => (v, newMsg valid a δ v qv))

/-- every candidate is a proper message (otherwise the status becomes `BAD_PROJECTION`, success false) -/
def allValid [EtaSpace G] (valid : G → Bool) (a : Approx G) (q : List (Nat × G)) (δ : Delta) : Bool :=
  q.all (fun (v, qv) => valid (candidate a (δ.at v) v qv))

/-- `project_mean_field`: only the entry of `factor_approx.factor` is replaced -/
def project [EtaSpace G] (valid : G → Bool) (s : State G) (a : Approx G) (q : Field G)
    (δ : Delta) : State G :=
  (a.f, newField valid a q δ) :: s

/-! ## sequences of updates -/

/-- one factor update as `EPOptimiser.run` performs it: approximation, (scripted) factor fit `q`
with its status, projection with damping. `age = 0`: the approximation is taken from the current
state; `age = k`: from the state `k` updates earlier (`ParallelEPOptimiser` projects approximations
that were all taken before the round started). -/
structure Op (G : Type) where
  f : Nat
  age : Nat := 0
  q : List (Nat × G)
  /-- `ApproxUpdater.delta(factor, model_approx)`: may depend on the current approximation -/
  delta : State G → Delta
  success : Bool := true
  tag : Nat := 0

/-- what one update leaves behind -/
structure StepOut (G : Type) where
  approx : Approx G
  state : State G
  /-- `status.success` after the projection -/
  success : Bool
  /-- `flag = BAD_PROJECTION` -/
  bad : Bool

def step [EtaSpace G] (fs : List Nat) (valid : G → Bool) (stack : List (State G)) (cur : State G)
    (op : Op G) : StepOut G :=
  let src := match op.age with
    | 0 => cur
    | k + 1 => stack.getD k cur
  let a := approx fs src op.f
  let δ := op.delta cur
  let ok := allValid valid a op.q δ
  { approx := a, state := project valid cur a op.q δ, success := op.success && ok, bad := !ok }

/-- `stack`: earlier states, newest first (not including `cur`) -/
def run [EtaSpace G] (fs : List Nat) (valid : G → Bool) :
    List (State G) → State G → List (Op G) → List (StepOut G)
  | _, _, [] => []
  | stack, cur, op :: rest =>
    let o := step fs valid stack cur op
    o :: run fs valid (cur :: stack) o.state rest

/-- the state after a sequence of fresh updates -/
def runState [EtaSpace G] (fs : List Nat) (valid : G → Bool) : State G → List (Op G) → State G
  | s, [] => s
  | s, op :: rest => runState fs valid (project valid s (approx fs s op.f) op.q (op.delta s)) rest

/-! ## `DynamicUpdater.delta` -/

/-- `variable_message_count[v]` -/
def msgCount (fs : List Nat) (s : State G) (v : Nat) : Nat :=
  (fs.filter (fun g => (s.get g v).isSome)).length

def minList : List Nat → Nat
  | [] => 0
  | [x] => x
  | x :: rest => min x (minList rest)

/-- `delta * (min_count / count_v)` for every variable of the graph -/
def dynamicDelta (fs : List Nat) (vars : List Nat) (s : State G) (d : Rat) : Nat → Rat :=
  let m := minList (vars.map (msgCount fs s))
  fun v => d * ((m : Rat) / (msgCount fs s v : Rat))

/-! ## the declarative graph and its initial messages -/

/-- first-occurrence de-duplication (`set` / dict keys of priors) -/
def dedup : List Nat → List Nat
  | [] => []
  | x :: rest => x :: (dedup rest).filter (fun y => y != x)

/-- a `FactorGraphModel`: for every model factor (analysis factors, and one per drawn variable of a
hierarchical factor) the list `factor.prior_model.priors` — one prior id *per place* — and whether
prior factors are included -/
structure Decl where
  places : List (List Nat)
  ipf : Bool

structure Cfg where
  /-- `prior_counts` counts a prior once per factor (repaired) instead of once per place -/
  countPerFactor : Bool := true
  /-- `latest_result` is the last successful entry (repaired) instead of the first -/
  latestIsLast : Bool := true

def Decl.priors (d : Decl) : List Nat := dedup d.places.flatten

def Decl.nModel (d : Decl) : Nat := d.places.length

/-- factors of the graph: model factors `0 … n-1`, then one prior factor per unique prior -/
def Decl.factors (d : Decl) : List Nat :=
  List.range (d.nModel + (if d.ipf then d.priors.length else 0))

/-- variables of factor `f` -/
def Decl.scope (d : Decl) (f : Nat) : List Nat :=
  if f < d.nModel then dedup (d.places.getD f [])
  else if d.ipf then (d.priors[f - d.nModel]?).toList else []

/-- `prior_counts` -/
def Decl.count (cfg : Cfg) (d : Decl) (v : Nat) : Nat :=
  (if cfg.countPerFactor then (d.places.filter (fun ps => ps.contains v)).length
   else d.places.flatten.count v) + (if d.ipf then 1 else 0)

/-- `message_dict[v]`: `prior.message ** (1 / (count - 1))` if `count > 1` else `prior.message` -/
def initMsg [EtaSpace G] (cnt : Nat) (p : G) : G :=
  if cnt > 1 then (1 / ((cnt - 1 : Nat) : Rat)) • p else p

/-- `EPMeanField.from_approx_dists(graph, message_dict)` for any graph given by scopes -/
def initState [EtaSpace G] (fs : List Nat) (scope : Nat → List Nat) (cnt : Nat → Nat)
    (prior : Nat → G) : State G :=
  fs.map (fun f => (f, (scope f).map (fun v => (v, initMsg (cnt v) (prior v)))))

/-- `FactorGraphModel(...).mean_field_approximation()` -/
def Decl.init [EtaSpace G] (cfg : Cfg) (d : Decl) (prior : Nat → G) : State G :=
  initState d.factors d.scope (d.count cfg) prior

/-- number of factors of `fs` whose scope contains `v` -/
def holders (fs : List Nat) (scope : Nat → List Nat) (v : Nat) : Nat :=
  (fs.filter (fun g => (scope g).contains v)).length

/-! ## history accessors -/

/-- `FactorHistory.latest_result` over the entries `(bool(status), status.result)` -/
def latest {R : Type} (cfg : Cfg) (h : List (Bool × R)) : Option R :=
  let ok := (h.filter (fun e => e.1)).map (fun e => e.2)
  if cfg.latestIsLast then ok.getLast? else ok.head?

/-- `EPResult.latest_results`: one entry per model factor, in `model_factors` order -/
def latestResults {R : Type} (cfg : Cfg) (hist : Nat → List (Bool × R)) (nModel : Nat) :
    List (Option R) :=
  (List.range nModel).map (fun f => latest cfg (hist f))

/-- the per-factor histories `EPOptimiser.run` accumulates: entry `(success, tag)` per update -/
def histOf (outs : List (StepOut G)) (ops : List (Op G)) (f : Nat) : List (Bool × Nat) :=
  ((outs.zip ops).filter (fun p => p.2.f == f)).map (fun p => (p.1.success, p.2.tag))

end AF.EP
