/-!
# Prior — unit interval ↔ physical value (property C02)

Executable model of `Prior.value_for`, `Prior.unit_value_for`, `Prior.random` for the four prior
families of `autofit/mapper/prior/{uniform,log_uniform,gaussian,log_gaussian}.py`, written the way the
code computes them: a base normal message (`autofit/messages/normal.py`) followed by the transform
stack of `TransformedMessage` (`composed_transform.py`, `transform.py`), then the limit gate
`Prior.assert_within_limits` (`abstract.py`), then – uniform only – the rounding of
`UniformPrior.value_for`.

The number type `K` and the special functions are parameters: the driver runs the definitions below
with `K := Float` (`AFModel/PriorFloat.lean`), the theorems of `AFProofs/C02.lean` are about the very
same definitions over an arbitrary linearly ordered field with special functions satisfying exactly the
laws used (`AFProofs/Lemmas/Prior.lean`).
-/

namespace AF.Prior

inductive Kind where
  | uniform | logUniform | gaussian | logGaussian
  deriving DecidableEq, Repr, Inhabited

/-- Special functions (and rounding) used by the transform stacks. -/
structure Special (K : Type) where
  /-- standard normal CDF (`scipy.special.ndtr`) -/
  phi : K → K
  /-- standard normal quantile (`ndtri`; `sqrt 2 * erfinv (2u-1)` in `NormalMessage.value_for`) -/
  phiInv : K → K
  exp : K → K
  log : K → K
  /-- `10 ** x` -/
  pow10 : K → K
  log10 : K → K
  /-- clamp epsilon of `transform.ndtri` (1e-14) -/
  eps : K
  /-- Python `round(float, n)` -/
  round : Nat → K → K
  /-- `round(numpy.float64, 14)` – the rounding of the unrepaired `UniformPrior.value_for` -/
  roundLegacy : K → K

structure Params (K : Type) where
  kind : Kind
  lower : K
  upper : K
  mean : K
  sigma : K

/-- finding flags (DESIGN §0): `repaired = true` is the behaviour after `fixes/C02-uniform-rounding.patch`
(exact rounding at a width-relative number of places, then clamped into the limits); `false` is the
behaviour of the pinned commit (numpy rounding to 14 places after the gate, not clamped). -/
structure Cfg where
  repaired : Bool := true
  deriving Repr, DecidableEq

/-- one entry of `TransformedMessage.transforms` -/
inductive Tr (K : Type) where
  /-- `LinearShiftTransform(shift, scale)` -/
  | shift (shift scale : K)
  /-- `phi_transform = FunctionTransform(ndtri, ndtr, …)` -/
  | phi
  /-- `log_transform = FunctionTransform(np.log, np.exp, …)` -/
  | log
  /-- `log_10_transform = FunctionTransform(np.log10, 10**x, …)` -/
  | log10

/-- what `Prior.value_for` does: returns a value or raises `PriorLimitException` -/
inductive Outcome (K : Type) where
  | ok (v : K)
  | limit
  deriving Repr, DecidableEq, Inhabited

section
variable {K : Type} [Add K] [Sub K] [Mul K] [Div K] [LE K] [LT K] [DecidableLE K] [DecidableLT K]
  [OfNat K 0] [OfNat K 1] [OfNat K 10]

/-- `transform.ndtri`: arguments within `eps` outside the unit interval are moved inside -/
def clampUnit (S : Special K) (x : K) : K :=
  if x ≤ 0 ∧ 0 - S.eps ≤ x then S.eps
  else if 1 ≤ x ∧ x ≤ 1 + S.eps then 1 - S.eps
  else x

/-- `inv_transform`: from the base message's space towards the prior's space -/
def Tr.inv (S : Special K) : Tr K → K → K
  | .shift s c, x => x * c + s
  | .phi, x => S.phi x
  | .log, x => S.exp x
  | .log10, x => S.pow10 x

/-- `transform`: from the prior's space towards the base message's space -/
def Tr.fwd (S : Special K) : Tr K → K → K
  | .shift s c, x => (x - s) / c
  | .phi, x => S.phiInv (clampUnit S x)
  | .log, x => S.log x
  | .log10, x => S.log10 x

/-- the transform stack each prior class builds in its constructor -/
def transforms (S : Special K) (p : Params K) : List (Tr K) :=
  match p.kind with
  | .uniform => [.phi, .shift p.lower (p.upper - p.lower)]
  | .logUniform => [.phi, .shift (S.log10 p.lower) (S.log10 (p.upper / p.lower)), .log10]
  | .gaussian => []
  | .logGaussian => [.log]

/-- `NormalMessage.value_for` of the base message (`NormalMessage(0,1)` for the uniform families) -/
def baseValue (S : Special K) (p : Params K) (u : K) : K :=
  match p.kind with
  | .uniform | .logUniform => S.phiInv u
  | .gaussian | .logGaussian => p.mean + p.sigma * S.phiInv u

/-- `NormalMessage.cdf` of the base message -/
def baseCdf (S : Special K) (p : Params K) (z : K) : K :=
  match p.kind with
  | .uniform | .logUniform => S.phi z
  | .gaussian | .logGaussian => S.phi ((z - p.mean) / p.sigma)

/-- `TransformedMessage._inverse_transform`: transforms applied left to right -/
def invAll (S : Special K) (ts : List (Tr K)) (x : K) : K :=
  ts.foldl (fun x t => t.inv S x) x

/-- `TransformedMessage._transform`: transforms applied right to left -/
def fwdAll (S : Special K) (ts : List (Tr K)) (x : K) : K :=
  ts.foldr (fun t x => t.fwd S x) x

/-- `prior.message.value_for(unit)` -/
def rawValueFor (S : Special K) (p : Params K) (u : K) : K :=
  invAll S (transforms S p) (baseValue S p u)

/-- `Prior.unit_value_for(physical) = message.cdf(physical)` -/
def unitValueFor (S : Special K) (p : Params K) (x : K) : K :=
  baseCdf S p (fwdAll S (transforms S p) x)

/-- `lower_limit <= value <= upper_limit` -/
def inLimits (L U v : K) : Bool := decide (L ≤ v) && decide (v ≤ U)

/-- `Prior.value_for`: `assert_within_limits` unless limits are ignored -/
def gate (ignore : Bool) (L U raw : K) : Outcome K :=
  if ignore || inLimits L U raw then .ok raw else .limit

/-- Python `max(v, L)` then `min(·, U)` -/
def clamp (L U v : K) : K :=
  let a := if L > v then L else v
  if U < a then U else a

def decimalPlacesGo (w : K) (places : Nat) : Nat → Nat
  | 0 => places
  | fuel + 1 => if w < 1 ∧ places < 323 then decimalPlacesGo (w * 10) (places + 1) fuel else places

/-- `UniformPrior._decimal_places`: 14 for widths ≥ 1, one more per factor 10 below -/
def decimalPlaces (w : K) : Nat := decimalPlacesGo w 14 309

/-- what `UniformPrior.value_for` does to the gated value -/
def uniformPost (S : Special K) (cfg : Cfg) (ignore : Bool) (L U v : K) : K :=
  if cfg.repaired then
    let r := S.round (decimalPlaces (U - L)) v
    if ignore then r else clamp L U r
  else S.roundLegacy v

/-- the part of `value_for` after `message.value_for`: gate, then the class specific post-processing -/
def finish (S : Special K) (cfg : Cfg) (ignore : Bool) (p : Params K) (raw : K) : Outcome K :=
  match gate ignore p.lower p.upper raw with
  | .limit => .limit
  | .ok v =>
    match p.kind with
    | .uniform => .ok (uniformPost S cfg ignore p.lower p.upper v)
    | _ => .ok v

/-- `prior.value_for(unit, ignore_prior_limits)` -/
def valueFor (S : Special K) (cfg : Cfg) (ignore : Bool) (p : Params K) (u : K) : Outcome K :=
  finish S cfg ignore p (rawValueFor S p u)

/-- the unit value `Prior.random` maps: `random.uniform(max(lo, a), min(hi, b)) = x + (y - x) * r`
for the generator's `r = random.random()`, `a, b` the unit limits -/
def randomUnit (lo hi a b r : K) : K :=
  let x := if a > lo then a else lo
  let y := if b < hi then b else hi
  x + (y - x) * r

/-- `prior.random(lower_limit = lo, upper_limit = hi)` with `r` the generator's next `random()` -/
def randomDraw (S : Special K) (cfg : Cfg) (p : Params K) (lo hi r : K) : Outcome K :=
  valueFor S cfg false p
    (randomUnit lo hi (unitValueFor S p p.lower) (unitValueFor S p p.upper) r)

end

end AF.Prior
