/-!
# Comp — executable model of a PyAutoFit model composition

Mirrors (hand-written, tied to the code by the correspondence harness `harness/c01.py` …):

* `autofit.mapper.model.path_instances_of_class` for `Prior`            → `walk`
* `AbstractPriorModel.path_priors_tuples` (stable sort by id)           → `pathPriors`
* `unique_prior_tuples` / `prior_tuples_ordered_by_id` / `prior_count`  → `uniqueIds`, `count`
* `unique_prior_paths` (last place of each prior, id order)             → `uniquePaths`
* `instance_from_vector` → `argsOfVector`; `_instance_for_arguments` of
  `Model`, `Collection`, `TuplePrior`, `Array`, compound/modified priors → `inst`

The value type `V` is a parameter (the driver uses `Float`; the theorems are for every `V`).
No imports: core Lean only.
-/

namespace AF

/-- binary arithmetic of `CompoundPrior` subclasses -/
inductive BinOp | add | sub | mul | div | floordiv | mod | pow
  deriving Repr, DecidableEq, Inhabited

/-- unary arithmetic of `ModifiedPrior` subclasses -/
inductive UnOp | neg | abs | log | log10
  deriving Repr, DecidableEq, Inhabited

/-- arithmetic on values, a parameter of the model -/
structure Ops (V : Type) where
  bin : BinOp → V → V → V
  un  : UnOp → V → V
  /-- order in which `TuplePrior` members are placed in the tuple (the code sorts member names
  by `(prefix, position)`; the concrete order used by the driver is `AF.posLe`) -/
  nameLe : String → String → Bool
  /-- comparison of values (`<`, `<=` of Python floats: false when an operand is NaN) -/
  lt : V → V → Bool
  le : V → V → Bool

abbrev Path := List String

/-- A model composition. `attrs` is always the *public* `__dict__` of the Python object in
insertion order (private keys, `id`, `cls`, `item_number` removed by the extractor). -/
inductive Node (V : Type) where
  | prior  (id : Nat)
  | const  (v : V)
  | opaque (tag : String)
  /-- `af.Model(cls)`; `ctor` = constructor argument names of `cls` -/
  | model  (cls : String) (ctor : List String) (attrs : List (String × Node V))
  /-- `af.Collection` -/
  | coll   (attrs : List (String × Node V))
  /-- `TuplePrior`: members are priors / constants -/
  | tuple  (attrs : List (String × Node V))
  /-- `CompoundPrior`: `attrs` is what the walk sees, `l`/`r` (`_left`/`_right`) what is evaluated -/
  | arith  (op : BinOp) (attrs : List (String × Node V)) (l r : Node V)
  /-- `ModifiedPrior` -/
  | modif  (op : UnOp) (attrs : List (String × Node V)) (x : Node V)
  /-- `af.Array`: entries `prior_i_j` in index order -/
  | array  (shape : List Nat) (attrs : List (String × Node V))
  deriving Inhabited

/-- An instance built from a composition -/
inductive Inst (V : Type) where
  | num     (v : V)
  | opaque  (tag : String)
  | obj     (cls : String) (attrs : List (String × Inst V))
  /-- a Python tuple; member names are kept so that places can be addressed by name -/
  | tup     (members : List (String × Inst V))
  | arr     (shape : List Nat) (entries : List (Inst V))
  /-- a prior without a value (the code raises `KeyError`) -/
  | missing
  /-- the model object itself placed in the instance (non-`Model` component on a
      non-constructor attribute) -/
  | raw
  deriving Inhabited

/-! ## walk: every place of every prior, in the order `path_instances_of_class` visits them -/

mutual
def walk {V} : Node V → List (Path × Nat)
  | .prior id => [([], id)]
  | .const _ => []
  | .opaque _ => []
  | .model _ _ attrs => walkAttrs attrs
  | .coll attrs => walkAttrs attrs
  | .tuple attrs => walkAttrs attrs
  | .arith _ attrs _ _ => walkAttrs attrs
  | .modif _ attrs _ => walkAttrs attrs
  | .array _ attrs => walkAttrs attrs
def walkAttrs {V} : List (String × Node V) → List (Path × Nat)
  | [] => []
  | (k, n) :: rest => (walk n).map (fun (p, i) => (k :: p, i)) ++ walkAttrs rest
end

/-! ## ordering by id -/

/-- insert into a strictly sorted list keeping it strictly sorted (no duplicates) -/
def insertUniq (a : Nat) : List Nat → List Nat
  | [] => [a]
  | b :: bs => if a < b then a :: b :: bs else if a = b then b :: bs else b :: insertUniq a bs

/-- distinct ids in increasing order = ids of `prior_tuples_ordered_by_id` -/
def sortDedup (l : List Nat) : List Nat := l.foldr insertUniq []

def uniqueIds {V} (t : Node V) : List Nat := sortDedup ((walk t).map (·.2))

/-- `prior_count` -/
def count {V} (t : Node V) : Nat := (uniqueIds t).length

/-- insertion sort that is stable: fold from the right so that equal keys keep their order -/
def sortById {α} (l : List (α × Nat)) : List (α × Nat) :=
  l.foldr (fun x acc => insertByIdFront x acc) []
where
  /-- insert *before* equal keys (we fold from the right, so earlier elements arrive later) -/
  insertByIdFront (x : α × Nat) : List (α × Nat) → List (α × Nat)
    | [] => [x]
    | y :: ys => if x.2 ≤ y.2 then x :: y :: ys else y :: insertByIdFront x ys

/-- `path_priors_tuples` -/
def pathPriors {V} (t : Node V) : List (Path × Nat) := sortById (walk t)

/-- `paths` -/
def paths {V} (t : Node V) : List Path := (pathPriors t).map (·.1)

/-- last place of an id in walk order (Python: dict comprehension keeps the last) -/
def lastPlace (w : List (Path × Nat)) (id : Nat) : Option Path :=
  (w.reverse.find? (·.2 == id)).map (·.1)

/-- `unique_prior_paths` -/
def uniquePaths {V} (t : Node V) : List Path :=
  (uniqueIds t).filterMap (lastPlace (pathPriors t))

/-- all places of an id, walk order -/
def placesOf (w : List (Path × Nat)) (id : Nat) : List Path :=
  (w.filter (·.2 == id)).map (·.1)

/-! ## arguments -/

/-- the dict `{prior ↦ value}` built by `instance_from_vector` -/
def argsOfVector {V} (t : Node V) (v : List V) : List (Nat × V) := (uniqueIds t).zip v

def lookupArg {V} (args : List (Nat × V)) (id : Nat) : Option V :=
  (args.find? (·.1 == id)).map (·.2)

/-! ## instance construction -/

/-- insert by member name, stable — `sorted(..., key=_position_key)` of `TuplePrior.value_for_arguments` -/
def insertByName {α} (le : String → String → Bool) (x : String × α) : List (String × α) → List (String × α)
  | [] => [x]
  | y :: ys => if le x.1 y.1 then x :: y :: ys else y :: insertByName le x ys

def sortByName {α} (le : String → String → Bool) (l : List (String × α)) : List (String × α) :=
  l.foldr (insertByName le) []

def Inst.isNum {V} : Inst V → Bool
  | .num _ => true
  | _ => false

def Inst.getNum {V} [Inhabited V] : Inst V → V
  | .num v => v
  | _ => default

def isPriorNode {V} : Node V → Bool
  | .prior _ => true
  | _ => false

def isConstNode {V} : Node V → Bool
  | .const _ => true
  | _ => false

/-- the value of a free parameter (`arguments[prior]`; `KeyError` when absent) -/
def valOf {V} (args : List (Nat × V)) (id : Nat) : Inst V :=
  match lookupArg args id with
  | some v => .num v
  | none => .missing

mutual
/-- `instance_for_arguments` (assertions are C03's concern and are not evaluated here) -/
def instW {V} [Inhabited V] (ops : Ops V) (ρ : Nat → Inst V) : Node V → Inst V
  | .prior id => ρ id
  | .const v => .num v
  | .opaque tag => .opaque tag
  | .model cls ctor attrs =>
      .obj cls (instModelAttrs ops ρ ctor attrs)
  | .coll attrs => .obj "" (instCollAttrs ops ρ attrs)
  | .tuple attrs =>
      -- `sorted(prior_tuples + instance_tuples, key=name)`; names are dict keys, hence distinct
      .tup (sortByName ops.nameLe (instTupleAttrs ops ρ attrs))
  | .arith op _ l r =>
      match instW ops ρ l, instW ops ρ r with
      | .num a, .num b => .num (ops.bin op a b)
      | _, _ => .missing
  | .modif op _ x =>
      match instW ops ρ x with
      | .num a => .num (ops.un op a)
      | _ => .missing
  | .array shape attrs => .arr shape (instArrayEntries ops ρ attrs)
/-- `Model._instance_for_arguments`: constructor arguments are instantiated and passed to the
class; non-constructor attributes that are plain values are set on the result. A prior, model or
tuple on a non-constructor attribute is passed to the constructor as an unexpected keyword
(`TypeError` for the classes modelled here): `.missing`. -/
def instModelAttrs {V} [Inhabited V] (ops : Ops V) (ρ : Nat → Inst V) (ctor : List String) :
    List (String × Node V) → List (String × Inst V)
  | [] => []
  | (k, n) :: rest =>
      if ctor.contains k then
        (k, instW ops ρ n) :: instModelAttrs ops ρ ctor rest
      else
        match n with
        | .const v => (k, .num v) :: instModelAttrs ops ρ ctor rest
        | .opaque tag => (k, .opaque tag) :: instModelAttrs ops ρ ctor rest
        | _ => (k, .missing) :: instModelAttrs ops ρ ctor rest
/-- `Collection._instance_for_arguments` -/
def instCollAttrs {V} [Inhabited V] (ops : Ops V) (ρ : Nat → Inst V) :
    List (String × Node V) → List (String × Inst V)
  | [] => []
  | (k, n) :: rest =>
      match n with
      | .tuple _ => (k, .raw) :: instCollAttrs ops ρ rest
      | _ => (k, instW ops ρ n) :: instCollAttrs ops ρ rest
/-- members of a `TuplePrior`: priors and float constants (anything else is ignored) -/
def instTupleAttrs {V} [Inhabited V] (ops : Ops V) (ρ : Nat → Inst V) :
    List (String × Node V) → List (String × Inst V)
  | [] => []
  | (k, n) :: rest =>
      match n with
      | .prior _ => (k, instW ops ρ n) :: instTupleAttrs ops ρ rest
      | .const v => (k, .num v) :: instTupleAttrs ops ρ rest
      | _ => instTupleAttrs ops ρ rest
/-- `Array._instance_for_arguments`: every entry in index order -/
def instArrayEntries {V} [Inhabited V] (ops : Ops V) (ρ : Nat → Inst V) :
    List (String × Node V) → List (Inst V)
  | [] => []
  | (_, n) :: rest =>
      match n with
      | .opaque _ => instArrayEntries ops ρ rest
      | _ => instW ops ρ n :: instArrayEntries ops ρ rest
end

/-- instance for an argument dictionary -/
def inst {V} [Inhabited V] (ops : Ops V) (args : List (Nat × V)) (t : Node V) : Inst V :=
  instW ops (valOf args) t

/-- `instance_from_vector` without the gates (C03 adds them) -/
def instFromVector {V} [Inhabited V] (ops : Ops V) (t : Node V) (v : List V) : Inst V :=
  inst ops (argsOfVector t v) t

/-! ## addressing places inside an instance -/

def lookupAttr {α} : List (String × α) → String → Option α
  | [], _ => none
  | (k, v) :: rest, s => if k = s then some v else lookupAttr rest s

/-- follow a path of names through objects and (named) tuple members -/
def Inst.at {V} : Inst V → Path → Option (Inst V)
  | i, [] => some i
  | .obj _ attrs, k :: p => match lookupAttr attrs k with
      | some c => c.at p
      | none => none
  | .tup ms, k :: p => match lookupAttr ms k with
      | some c => c.at p
      | none => none
  | _, _ :: _ => none

/-! ## node navigation (`object_for_path`) and the by-path route -/

def Node.attrs {V} : Node V → List (String × Node V)
  | .model _ _ a => a
  | .coll a => a
  | .tuple a => a
  | .arith _ a _ _ => a
  | .modif _ a _ => a
  | .array _ a => a
  | _ => []

def Node.at {V} : Node V → Path → Option (Node V)
  | n, [] => some n
  | n, k :: p => match lookupAttr n.attrs k with
      | some c => c.at p
      | none => none

/-- `instance_from_path_arguments`: each path resolved to its prior; later entries win -/
def argsOfPaths {V} (t : Node V) (pa : List (Path × V)) : List (Nat × V) :=
  (pa.reverse.filterMap (fun (p, v) => match t.at p with
      | some (.prior id) => some (id, v)
      | _ => none))

end AF
