import AFModel.NameKey

/-!
# Build — `af.Model(cls, **kwargs)` from the class signature

Mirrors `Model.__init__`, `_convert_value`, `make_prior`, `make_tuple_prior`
(autofit/mapper/prior_model/prior_model.py), `AbstractPriorModel.from_object` and
`Collection.__init__` / `append` / `add_dict_items` (collection.py) as far as they decide *which
attributes a composed model holds, under which names, in which order, with which prior ids*.

* a `ClassSig` lists the constructor arguments (`inspect.getfullargspec(cls).args` without `self`:
  `*args`, `**kwargs` and keyword-only arguments are not constructor arguments of a model) with the
  kind of default that `Model.__init__` dispatches on (`ArgD`);
* prior ids come from one counter (`Prior._ids`): every function threads the next free id;
* the result is a `Node` of `Comp.lean`, so that everything proved and tied for compositions
  (`walk`, `paths`, `count`, `instFromVector` …) applies to what `mkModel` builds.

Assumed about the classes (checked by the harness' signature reader, harness/c01_build.py): no
argument named `x_y` after a tuple argument `x` (`Model.__setattr__` would file it inside the tuple),
no argument called `settings`, configuration exists for every float argument.
No Mathlib.
-/

namespace AF

/-- what `Model.__init__` does for a constructor argument that is not given as a keyword -/
inductive ArgD where
  /-- float default / no default / `float` annotation: `make_prior(arg)` – one new prior -/
  | cfg
  /-- tuple default of length `n`, or `Tuple[...]` annotation with `n` entries: `make_tuple_prior` -/
  | tup (n : Nat)
  /-- annotated with a class (no default): `Model(annotation)` -/
  | sub (cls : String) (args : List (String × ArgD))
  /-- string default: no attribute on the model; the class default (`tag`) reaches the instance -/
  | str (tag : String)
  /-- `Optional[...]` annotation: `None` -/
  | opt
  deriving Inhabited

structure ClassSig where
  name : String
  args : List (String × ArgD)
  deriving Inhabited

/-- a keyword value given to `Model(cls, **kwargs)` / an item given to `Collection(...)` -/
inductive Ov (V : Type) where
  /-- an object that is stored as it is (prior, float, model, arithmetic, None, str …) -/
  | node (n : Node V)
  /-- a Python `int`/`bool`: `_convert_value` makes it a float (`v`); `from_object` keeps it (`tag`) -/
  | int (v : V) (tag : String)
  /-- a class: `Model(cls)` -/
  | cls (name : String) (args : List (String × ArgD))
  /-- a list: `Collection(list)` (items named `"0"`, `"1"`, …) -/
  | list (items : List (Ov V))
  /-- a dict: `Collection(dict)` -/
  | dict (items : List (String × Ov V))
  deriving Inhabited

/-- `make_tuple_prior(name, k)`: members `name_0 … name_{k-1}`, created in that order -/
def mkTuple {V} (name : String) (k n : Nat) : Node V :=
  .tuple ((List.range k).map (fun i => (memberName name i, Node.prior (n + i))))

/-- constructor arguments without a model attribute: the class default reaches the instance
(held at the end of `attrs`, the convention of `Comp.lean` / the extractor) -/
def strDefaults {V} (args : List (String × ArgD)) (attrs : List (String × Node V)) :
    List (String × Node V) :=
  args.filterMap (fun (a, d) => match d with
    | .str tag => if (lookupAttr attrs a).isSome then none else some (a, Node.opaque tag)
    | _ => none)

mutual
/-- `Model(cls)` without keywords -/
def mkSub {V} (cls : String) (args : List (String × ArgD)) (n : Nat) : Node V × Nat :=
  let r := mkDefaults args n
  (.model cls (args.map (·.1)) (r.1 ++ strDefaults args r.1), r.2)
/-- one argument that is not a string default -/
def mkDefault1 {V} (a : String) : ArgD → Nat → Node V × Nat
  | .cfg, n => (.prior n, n + 1)
  | .tup k, n => (mkTuple a k n, n + k)
  | .sub c as, n => mkSub c as n
  | .str tag, n => (.opaque tag, n)   -- not reached (string defaults are skipped by the callers)
  | .opt, n => (.opaque "None", n)
/-- the loop over the constructor arguments, no keywords -/
def mkDefaults {V} : List (String × ArgD) → Nat → List (String × Node V) × Nat
  | [], n => ([], n)
  | (a, d) :: rest, n =>
    match d with
    | .str _ => mkDefaults rest n
    | .cfg =>
      let r := mkDefaults rest (n + 1)
      ((a, .prior n) :: r.1, r.2)
    | .tup k =>
      let r := mkDefaults rest (n + k)
      ((a, mkTuple a k n) :: r.1, r.2)
    | .sub c as =>
      let x := mkSub c as n
      let r := mkDefaults rest x.2
      ((a, x.1) :: r.1, r.2)
    | .opt =>
      let r := mkDefaults rest n
      ((a, .opaque "None") :: r.1, r.2)
end

mutual
/-- `AbstractPriorModel.from_object`: what a collection stores for an item -/
def convItem {V} : Ov V → Nat → Node V × Nat
  | .node x, n => (x, n)
  | .int _ tag, n => (.opaque tag, n)
  | .cls c as, n => mkSub c as n
  | .list items, n =>
    let r := convList items 0 n
    (.coll r.1, r.2)
  | .dict items, n =>
    let r := convDict items n
    (.coll r.1, r.2)
/-- `Collection(list)`: `append` names the i-th item `str(i)` -/
def convList {V} : List (Ov V) → Nat → Nat → List (String × Node V) × Nat
  | [], _, n => ([], n)
  | o :: rest, i, n =>
    let x := convItem o n
    let r := convList rest (i + 1) x.2
    ((indexName i, x.1) :: r.1, r.2)
/-- `Collection(dict)` -/
def convDict {V} : List (String × Ov V) → Nat → List (String × Node V) × Nat
  | [], n => ([], n)
  | (k, o) :: rest, n =>
    let x := convItem o n
    let r := convDict rest x.2
    ((k, x.1) :: r.1, r.2)
end

/-- a keyword naming a constructor argument: list/dict → `Collection`, else `_convert_value` -/
def convCtor {V} : Ov V → Nat → Node V × Nat
  | .node x, n => (x, n)
  | .int v _, n => (.const v, n)
  | .cls c as, n => mkSub c as n
  | .list items, n => convItem (.list items) n
  | .dict items, n => convItem (.dict items) n

/-- a keyword that names no constructor argument: `_convert_value` only -/
def convExtra {V} : Ov V → Nat → Node V × Nat
  | .node x, n => (x, n)
  | .int v _, n => (.const v, n)
  | .cls c as, n => mkSub c as n
  | .list _, n => (.opaque "py:list", n)
  | .dict _, n => (.opaque "py:dict", n)

/-- the loop over the constructor arguments of `Model.__init__` -/
def mkArgs {V} (kw : List (String × Ov V)) : List (String × ArgD) → Nat → List (String × Node V) × Nat
  | [], n => ([], n)
  | (a, d) :: rest, n =>
    match d with
    | .str _ => mkArgs kw rest n
    | _ =>
      let x := match lookupAttr kw a with
        | some o => convCtor o n
        | none => mkDefault1 a d n
      let r := mkArgs kw rest x.2
      ((a, x.1) :: r.1, r.2)

/-- `key.split("_")[0]` when the key holds an underscore -/
def tuplePrefix (key : String) : Option String :=
  if key.toList.contains '_' then some (String.ofList (key.toList.takeWhile (· != '_'))) else none

/-- the members of the tuple prior that `Model.__setattr__` / `__getattr__` redirect `key` to -/
def redirectTarget {V} (attrs : List (String × Node V)) (key : String) : Option (List (String × Node V)) :=
  match tuplePrefix key with
  | some p => match lookupAttr attrs p with
    | some (.tuple ms) => some ms
    | _ => none
  | none => none

/-- `hasattr(model, key)` for names that are not attributes of the `Model` class itself -/
def hasAttr {V} (attrs : List (String × Node V)) (key : String) : Bool :=
  (lookupAttr attrs key).isSome ||
    (match redirectTarget attrs key with
     | some ms => (lookupAttr ms key).isSome
     | none => false)

def appendToTuple {V} (p key : String) (x : Node V) : List (String × Node V) → List (String × Node V)
  | [] => []
  | (k, v) :: rest =>
    if k = p then
      match v with
      | .tuple ms => (k, .tuple (ms ++ [(key, x)])) :: rest
      | _ => (k, v) :: rest
    else (k, v) :: appendToTuple p key x rest

/-- `setattr(model, key, x)` for a name the model does not have yet -/
def setNew {V} (attrs : List (String × Node V)) (key : String) (x : Node V) : List (String × Node V) :=
  match redirectTarget attrs key, tuplePrefix key with
  | some _, some p => appendToTuple p key x attrs
  | _, _ => attrs ++ [(key, x)]

/-- the closing loop of `Model.__init__`: keywords the model has no attribute for yet -/
def addExtras {V} : List (String × Ov V) → List (String × Node V) → Nat → List (String × Node V) × Nat
  | [], attrs, n => (attrs, n)
  | (k, o) :: rest, attrs, n =>
    if hasAttr attrs k then addExtras rest attrs n
    else
      let x := convExtra o n
      addExtras rest (setNew attrs k x.1) x.2

/-- **`af.Model(cls, **kw)`** with the prior counter at `n`: the composed model and the counter after -/
def mkModel {V} (sig : ClassSig) (kw : List (String × Ov V)) (n : Nat) : Node V × Nat :=
  let r := mkArgs kw sig.args n
  let e := addExtras kw r.1 r.2
  (.model sig.name (sig.args.map (·.1)) (e.1 ++ strDefaults sig.args e.1), e.2)

/-- **`af.Collection(items)`** (list / dict / keywords) with the prior counter at `n` -/
def mkCollection {V} (items : Ov V) (n : Nat) : Node V × Nat := convItem items n

end AF
