/-!
# `Migrate` — model of `autofit.database.open_database` / `Migrator.migrate` (property C19)

Mirrors what the code *does*:

* `Schema`   : tables (creation order) with their columns (column order), names only;
* `applyStmt`: SQLite's behaviour on the four statement shapes the migration steps use
  (`ALTER TABLE … ADD [COLUMN]`, `CREATE TABLE`, `ALTER TABLE … RENAME COLUMN`, `ALTER TABLE … DROP COLUMN`);
  `none` = `OperationalError`, which `Migrator.migrate` swallows;
* `Rev`      : the `revision` table (`SessionWrapper`): absent, empty, or one row holding `NULL`/an id;
* `Db`       : the stdlib sqlite driver's transaction behaviour as observed through SQLAlchemy: a DDL
  statement runs inside the open transaction if there is one and is durable at once otherwise; a DML
  statement (`INSERT`/`UPDATE`) opens a transaction; `commit` makes the transaction durable, `close` drops it;
* `getSteps` : `Migrator.get_steps` (first revision whose id matches, then `latest - revision` which filters
  by *step id*; `None`/unknown ⇒ every step);
* `migrate`, `openDatabase`, `session`, `runHistory`.

`Cfg` carries the three repairs of fix `C19-stamp-commit-and-cover-orm` as flags; `Cfg.fixed` is the behaviour
of the repaired code, `Cfg.pinned` the behaviour of the pinned commit (kept for the refutation theorems and so
that a regression is still predicted by the model).
Core Lean only.
-/

namespace AF.Migrate

abbrev Schema := List (String × List String)

inductive Stmt where
  | addColumn (t c : String)
  | createTable (t : String) (cols : List String)
  | renameColumn (t a b : String)
  | dropColumn (t c : String)
  deriving DecidableEq, Repr, Inhabited

structure Step where
  id : String
  stmts : List Stmt
  deriving DecidableEq, Repr, Inhabited

/-- the step list and the ids of its revisions: `revIds[i]` is the id of the revision made of the first
`i+1` steps (`Migrator.revisions`). Both are *extracted from the code* (md5 is not modelled). -/
structure Table where
  steps : List Step
  revIds : List String
  deriving Repr, Inhabited

structure Table.WF (tbl : Table) : Prop where
  len : tbl.revIds.length = tbl.steps.length
  stepIds : (tbl.steps.map (·.id)).Nodup
  revs : tbl.revIds.Nodup

instance (tbl : Table) : Decidable tbl.WF :=
  if h : tbl.revIds.length = tbl.steps.length ∧ (tbl.steps.map (·.id)).Nodup ∧ tbl.revIds.Nodup then
    isTrue ⟨h.1, h.2.1, h.2.2⟩
  else isFalse (fun w => h ⟨w.len, w.stepIds, w.revs⟩)

/-! ## SQLite on schemas -/

def colsOf (s : Schema) (t : String) : Option (List String) :=
  match s with
  | [] => none
  | (n, cs) :: rest => if n = t then some cs else colsOf rest t

def hasCol (s : Schema) (t c : String) : Bool :=
  match colsOf s t with
  | some cs => decide (c ∈ cs)
  | none => false

/-- rewrite the columns of (the first) table `t` -/
def mapTable (s : Schema) (t : String) (f : List String → List String) : Schema :=
  match s with
  | [] => []
  | (n, cs) :: rest => if n = t then (n, f cs) :: rest else (n, cs) :: mapTable rest t f

def renameIn (a b : String) (cs : List String) : List String :=
  cs.map fun c => if c = a then b else c

/-- one statement; `none` is an `OperationalError` (duplicate column / table, missing table / column) -/
def applyStmt (s : Schema) : Stmt → Option Schema
  | .addColumn t c =>
    match colsOf s t with
    | some cs => if c ∈ cs then none else some (mapTable s t (· ++ [c]))
    | none => none
  | .createTable t cols =>
    match colsOf s t with
    | some _ => none
    | none => some (s ++ [(t, cols)])
  | .renameColumn t a b =>
    match colsOf s t with
    | some cs => if a ∈ cs ∧ b ∉ cs then some (mapTable s t (renameIn a b)) else none
    | none => none
  | .dropColumn t c =>
    match colsOf s t with
    | some cs => if c ∈ cs ∧ 1 < cs.length then some (mapTable s t (·.filter (· ≠ c))) else none
    | none => none

abbrev Log := List (Stmt × Bool)

/-- the loop of `Migrator.migrate`: every statement is attempted, errors are swallowed -/
def runStmts (s : Schema) : List Stmt → Schema × Log
  | [] => (s, [])
  | st :: rest =>
    match applyStmt s st with
    | some s' => let r := runStmts s' rest; (r.1, (st, true) :: r.2)
    | none => let r := runStmts s rest; (r.1, (st, false) :: r.2)

def stmtsOf (steps : List Step) : List Stmt := steps.flatMap (·.stmts)

/-! ## the revision table and the transaction behaviour -/

inductive Rev where
  | noTable
  | empty
  | row (id : Option String)
  deriving DecidableEq, Repr, Inhabited

structure Store where
  schema : Schema
  rev : Rev
  deriving DecidableEq, Repr, Inhabited

/-- `committed` is what the file holds; `pending` the session's open transaction, if any -/
structure Db where
  committed : Store
  pending : Option Store
  deriving DecidableEq, Repr, Inhabited

def Db.work (db : Db) : Store := db.pending.getD db.committed

/-- DDL: inside the open transaction if there is one, otherwise durable at once -/
def Db.ddl (db : Db) (f : Store → Store) : Db :=
  match db.pending with
  | some p => { db with pending := some (f p) }
  | none => { db with committed := f db.committed }

/-- DML opens a transaction -/
def Db.dml (db : Db) (f : Store → Store) : Db :=
  { db with pending := some (f db.work) }

def Db.commit (db : Db) : Db :=
  match db.pending with
  | some p => { committed := p, pending := none }
  | none => db

def Db.close (db : Db) : Store := db.committed

structure Cfg where
  /-- `Migrator.migrate` commits after stamping -/
  migrateCommits : Bool
  /-- the `revision_id` setter inserts a row when the `UPDATE` touched none -/
  stampUpsert : Bool
  /-- `open_database` stamps a database it has just created -/
  createStamps : Bool
  deriving DecidableEq, Repr, Inhabited

def Cfg.fixed : Cfg := ⟨true, true, true⟩
def Cfg.pinned : Cfg := ⟨false, false, false⟩

/-- `SessionWrapper._init_revision_table`: `CREATE TABLE revision` (DDL) then `INSERT … (null)` (DML) -/
def initRevisionTable (db : Db) : Db :=
  (db.ddl fun w => { w with rev := .empty }).dml fun w => { w with rev := .row none }

/-- `SessionWrapper.revision_id` (getter, with `needs_revision_table`) -/
def readRevision (db : Db) : Db × Option String :=
  match db.work.rev with
  | .noTable => (initRevisionTable db, none)
  | .empty => (db, none)
  | .row r => (db, r)

def setRow (upsert : Bool) (id : String) (w : Store) : Store :=
  match w.rev with
  | .row _ => { w with rev := .row (some id) }
  | .empty => if upsert then { w with rev := .row (some id) } else w
  | .noTable => w

/-- `SessionWrapper.revision_id` (setter, with `needs_revision_table`): `UPDATE revision SET …`, preceded by
the creation of the table when it does not exist -/
def writeRevision (cfg : Cfg) (db : Db) (id : String) : Db :=
  match db.work.rev with
  | .noTable => (initRevisionTable db).dml (setRow cfg.stampUpsert id)
  | _ => db.dml (setRow cfg.stampUpsert id)

def latestId (tbl : Table) : String := tbl.revIds.getLast?.getD ""

/-- position of the first revision whose id is `rid` (the loop over `Migrator.revisions`) -/
def revIndex : List String → String → Option Nat
  | [], _ => none
  | r :: rs, rid => if r = rid then some 0 else (revIndex rs rid).map (· + 1)

/-- `Migrator.get_steps` -/
def getSteps (tbl : Table) : Option String → List Step
  | none => tbl.steps
  | some rid =>
    match revIndex tbl.revIds rid with
    | some i =>
      let have_ := (tbl.steps.take (i + 1)).map (·.id)
      tbl.steps.filter fun s => s.id ∉ have_
    | none => tbl.steps

/-- `Migrator.migrate` -/
def migrate (cfg : Cfg) (tbl : Table) (db : Db) : Db × Log :=
  let (db1, rid) := readRevision db
  let todo := getSteps tbl rid
  if todo.isEmpty then (db1, [])
  else
    let r := runStmts db1.work.schema (stmtsOf todo)
    let db2 := db1.ddl fun w => { w with schema := r.1 }
    let db3 := writeRevision cfg db2 (latestId tbl)
    (if cfg.migrateCommits then db3.commit else db3, r.2)

/-- `open_database(filename)`: `none` = the file does not exist (`create_all` of the mapped schema `orm`) -/
def openDatabase (cfg : Cfg) (tbl : Table) (orm : Schema) : Option Store → Db × Log
  | some s => migrate cfg tbl { committed := s, pending := none }
  | none =>
    let db : Db := { committed := { schema := orm, rev := .noTable }, pending := none }
    (if cfg.createStamps then (writeRevision cfg db (latestId tbl)).commit else db, [])

/-- one use of the file: `open_database`, optionally the caller's `session.commit()`, `session.close()` -/
def session (cfg : Cfg) (tbl : Table) (orm : Schema) (file : Option Store) (commit : Bool) : Store × Log :=
  let r := openDatabase cfg tbl orm file
  ((if commit then r.1.commit else r.1).close, r.2)

/-- consecutive uses of the same file; one entry (durable content, statements attempted) per use -/
def runHistory (cfg : Cfg) (tbl : Table) (orm : Schema) (file : Option Store) : List Bool → List (Store × Log)
  | [] => []
  | c :: rest =>
    let r := session cfg tbl orm file c
    r :: runHistory cfg tbl orm (some r.1) rest

/-- an open that is interrupted (the process dies) when `j` statements of the migration loop have been
executed: what the file holds afterwards (an open transaction is rolled back) -/
def interrupted (tbl : Table) (s : Store) (j : Nat) : Store × Log :=
  let (db1, rid) := readRevision { committed := s, pending := none }
  let r := runStmts db1.work.schema ((stmtsOf (getSteps tbl rid)).take j)
  ((db1.ddl fun w => { w with schema := r.1 }).close, r.2)

/-- `n` further opens of an existing file (without caller commit) -/
def reopen (cfg : Cfg) (tbl : Table) (orm : Schema) (s : Store) : Nat → Store
  | 0 => s
  | n + 1 => reopen cfg tbl orm (session cfg tbl orm (some s) false).1 n

/-! ## what the mapped classes need -/

/-- every mapped table/column exists -/
def covers (s orm : Schema) : Bool :=
  orm.all fun (t, cs) => cs.all fun c => hasCol s t c

def schemaAfter (s : Schema) (steps : List Step) : Schema := (runStmts s (stmtsOf steps)).1

def succeeded (l : Log) : List Stmt := (l.filter (·.2)).map (·.1)

/-- does the statement take the column `(t, c)` away (rename it to something else, or drop it)? -/
def Stmt.removes (t c : String) : Stmt → Bool
  | .renameColumn t' a _ => t' = t ∧ a = c
  | .dropColumn t' c' => t' = t ∧ c' = c
  | _ => false

/-- columns the step list renames away or drops: none of them may survive a migration -/
def staleCols (steps : List Step) : List (String × String) :=
  (stmtsOf steps).filterMap fun
    | .renameColumn t a _ => some (t, a)
    | .dropColumn t c => some (t, c)
    | _ => none

def noStale (s : Schema) (steps : List Step) : Bool :=
  (staleCols steps).all fun (t, c) => !hasCol s t c

/-- the mapped schema is there and nothing stale is left -/
def isCurrent (s orm : Schema) (steps : List Step) : Bool := covers s orm && noStale s steps

end AF.Migrate
