import AFModel.Comp
import AFModel.Fitness

/-!
# SamplesConv — from a sampler's internal arrays to the reported `Sample`s (C05)

Mirrors (hand-written; tied to the code by `harness/c05.py`):

* `Sample.from_lists` (`autofit/non_linear/samples/sample.py`)                     → `fromLists`, `kwargsOf`
* `Samples.max_log_likelihood_sample` (`samples/samples.py`)                       → `maxSample`
* `SamplesInterface.max_log_likelihood` / `instance` (`samples/interface.py`)      → `paramsForPaths`, `bestInstance`
* `AbstractDynesty.samples_via_internal_from`                                      → `dynestyConv`
* `Emcee.samples_via_internal_from` + `emcee.Backend.get_value` slicing            → `emceeConv`
* `AbstractPySwarms.samples_via_internal_from`                                     → `pyswarmsConv`
* `AbstractBFGS.samples_via_internal_from` (both branches)                         → `bfgsConv`, `bfgsHistConv`
* `Drawer.samples_from`                                                            → `drawerConv`
* the pairing loop of `AbstractInitializer.samples_from_model`                     → `initBatch`, `initRun`

The samplers themselves are black boxes: their array contracts are *hypotheses* of the theorems
(`AFProofs/C05.lean`). The value type is a parameter; the driver uses `Float`.
-/

namespace AF.Samples

/-- arithmetic used by the conversions -/
structure SOps (V : Type) where
  add : V → V → V
  sub : V → V → V
  /-- `-0.5 * x` -/
  negHalf : V → V
  exp : V → V
  zero : V
  one : V
  /-- Python `a < b` (false when an operand is NaN) -/
  lt : V → V → Bool
  le : V → V → Bool

/-- `autofit.non_linear.samples.sample.Sample`; `params` are the values of `kwargs` in the order of
`model.unique_prior_paths` (= prior id order) -/
structure Sample (V : Type) where
  params : List V
  ll : V
  lp : V
  w : V
  deriving Repr, DecidableEq, Inhabited

/-- `Sample.log_posterior` -/
def Sample.post {V} (o : SOps V) (s : Sample V) : V := o.add s.ll s.lp

/-- `Sample.from_lists`: a four-way `zip` (stops at the shortest list) -/
def fromLists {V} : List (List V) → List V → List V → List V → List (Sample V)
  | p :: ps, l :: ls, q :: qs, w :: ws => ⟨p, l, q, w⟩ :: fromLists ps ls qs ws
  | _, _, _, _ => []

/-- `[lp - prior for lp, prior in zip(log_posterior_list, log_prior_list)]` -/
def subZip {V} (o : SOps V) (posts priors : List V) : List V := List.zipWith o.sub posts priors

/-- `len(log_likelihood_list) * [1.0]` -/
def ones {V} (o : SOps V) (n : Nat) : List V := List.replicate n o.one

/-! ## best fit -/

/-- one iteration of the loop in `Samples.max_log_likelihood_sample` -/
def maxStep {V} (o : SOps V) (best : Option (Sample V)) (s : Sample V) : Option (Sample V) :=
  match best with
  | none => some s
  | some b => if o.lt b.ll s.ll then some s else some b

/-- `Samples.max_log_likelihood_sample` (`None` for an empty list) -/
def maxSample {V} (o : SOps V) (ss : List (Sample V)) : Option (Sample V) := ss.foldl (maxStep o) none

/-- `result.log_likelihood` -/
def bestLL {V} (o : SOps V) (ss : List (Sample V)) : Option V := (maxSample o ss).map (·.ll)

/-- the `kwargs` of a sample: `{path: value for path, value in zip(model.unique_prior_paths, params)}` -/
def kwargsOf {K V} (keys : List K) (params : List V) : List (K × V) := keys.zip params

/-- dictionary lookup -/
def kwGet {K V} [DecidableEq K] (kw : List (K × V)) (k : K) : Option V :=
  (kw.find? (fun e => e.1 = k)).map (·.2)

/-- the value of the first key of `group` present in `kw` (inner loop of
`Sample.parameter_lists_for_paths`) -/
def firstFound {K V} [DecidableEq K] (kw : List (K × V)) : List K → Option V
  | [] => none
  | k :: ks => match kwGet kw k with
    | some v => some v
    | none => firstFound kw ks

/-- `Sample.parameter_lists_for_paths(model.all_paths)`; `none` = `KeyError` -/
def paramsForPaths {K V} [DecidableEq K] (kw : List (K × V)) : List (List K) → Option (List V)
  | [] => some []
  | g :: gs => match firstFound kw g, paramsForPaths kw gs with
    | some v, some vs => some (v :: vs)
    | _, _ => none

/-- `model.all_paths`: for every prior in id order, all of its places -/
def allPaths {V} (t : Node V) : List (List Path) :=
  (uniqueIds t).map (placesOf (pathPriors t))

/-- the vector handed to `instance_from_vector` by `samples.max_log_likelihood()` for a sample -/
def vectorOfSample {V} (t : Node V) (s : Sample V) : Option (List V) :=
  paramsForPaths (kwargsOf (uniquePaths t) s.params) (allPaths t)

/-- `result.instance` = `samples_summary.instance` -/
def bestInstance {V} [Inhabited V] (ops : Ops V) (o : SOps V) (t : Node V) (ss : List (Sample V)) :
    Option (Inst V) :=
  match maxSample o ss with
  | none => none
  | some b => (vectorOfSample t b).map (instFromVector ops t)

/-- decidable guard of `best_instance`: the keys of a sample address every parameter exactly once -/
def keysOK {V} (t : Node V) : Bool :=
  let keys := uniquePaths t
  let groups := allPaths t
  keys.length == groups.length
    && (List.range keys.length).all (fun i =>
      (List.range keys.length).all (fun j =>
        match keys[j]?, groups[i]? with
        | some k, some g => if i == j then g.contains k else !(g.contains k)
        | _, _ => false))

/-! ## nested samplers (dynesty) -/

/-- `AbstractDynesty.samples_via_internal_from`: rows `results.samples`, likelihoods `results.logl`,
weights `exp(results.logwt - results.logz[-1])`; an empty `logz` is an `IndexError` (`none`) -/
def dynestyConv {V} (o : SOps V) (prior : List V → V) (samples : List (List V)) (logl logwt logz : List V) :
    Option (List (Sample V)) :=
  match logz.getLast? with
  | none => none
  | some z => some (fromLists samples logl (samples.map prior) (logwt.map (fun x => o.exp (o.sub x z))))

/-! ## ensemble MCMC (emcee) -/

def everyNthAux {α} (k : Nat) : Nat → List α → List α
  | _, [] => []
  | 0, x :: xs => x :: everyNthAux k (k - 1) xs
  | c + 1, _ :: xs => everyNthAux k c xs

/-- Python `l[start::step]` for `step ≥ 1` -/
def pySliceStep {α} (start step : Nat) (l : List α) : List α := everyNthAux step 0 (l.drop start)

/-- `emcee.Backend.get_value(discard=, thin=)`: `v[discard + thin - 1 : iteration : thin]` over steps -/
def thinSteps {α} (discard thin : Nat) (steps : List α) : List α :=
  pySliceStep (discard + thin - 1) thin steps

/-- Python `l[-n-1:-1]` -/
def tailWindow {α} (n : Nat) (l : List α) : List α := (l.take (l.length - 1)).drop (l.length - 1 - n)

structure Cfg where
  /-- repaired behaviour: the log-probabilities are taken with the same `discard`/`thin` as the chain.
  `false` = pinned commit: `get_log_prob(flat=True)[-n-1:-1]` -/
  emceeSameSlice : Bool := true

/-- `Emcee.samples_via_internal_from`; `chain` is steps × walkers × parameters, `logp` steps × walkers;
`flat=True` is a row-major reshape = concatenation of the steps -/
def emceeConv {V} (cfg : Cfg) (o : SOps V) (prior : List V → V) (chain : List (List (List V)))
    (logp : List (List V)) (discard thin : Nat) : List (Sample V) :=
  let params := (thinSteps discard thin chain).flatten
  let lps := params.map prior
  let posts := if cfg.emceeSameSlice then (thinSteps discard thin logp).flatten
               else tailWindow params.length logp.flatten
  let lls := subZip o posts lps
  fromLists params lls lps (ones o lls.length)

/-! ## particle swarms (pyswarms) -/

/-- `AbstractPySwarms.samples_via_internal_from` as written: rows = particle 0 of every iteration,
posteriors = `-0.5 * cost_history` (best cost so far), priors = those of the *flattened* list of all
particles of all iterations (zipped from its start) -/
def pyswarmsConv {V} (o : SOps V) (prior : List V → V) (pos : List (List (List V))) (cost : List V) :
    List (Sample V) :=
  let all := pos.flatten
  let first := pos.filterMap List.head?
  let posts := cost.map o.negHalf
  let lps := all.map prior
  let lls := subZip o posts lps
  fromLists first lls lps (ones o lls.length)

/-! ## BFGS / L-BFGS -/

/-- default branch: one sample at the final point, `log_posterior_list = -0.5 * fitness(x)` -/
def bfgsConv {V} (o : SOps V) (prior : List V → V) (x : List V) (logPost : V) : List (Sample V) :=
  let lps := [prior x]
  let lls := subZip o [logPost] lps
  fromLists [x] lls lps (ones o lls.length)

/-- `visualize=True` branch: the `Fitness` history -/
def bfgsHistConv {V} (o : SOps V) (prior : List V → V) (hist : List (List V)) (lls : List V) : List (Sample V) :=
  fromLists hist lls (hist.map prior) (ones o lls.length)

/-- the value BFGS stores: `-0.5 * fitness(x)` with the `Fitness` of C04 in the configuration BFGS uses
(posterior, chi-squared) -/
def bfgsLogPost {V} (o : SOps V) (fo : FomOps V) (g : List V → Except GateErr (Inst V)) (lp : List V → List V)
    (resample : V) (x : List V) (out : Outcome V) : Option V :=
  match (fitnessCall fo { fomIsLL := false, convertChi := true, storeHistory := false, resample := resample }
      g lp {} x out).1 with
  | .value f => some (o.negHalf f)
  | .raises => none

/-! ## Drawer and the initializer -/

/-- `Drawer.samples_from`: posteriors as returned by the initializer -/
def drawerConv {V} (o : SOps V) (prior : List V → V) (params : List (List V)) (posts : List V) : List (Sample V) :=
  let lps := params.map prior
  let lls := subZip o posts lps
  fromLists params lls lps (ones o lls.length)

/-- one batch of `AbstractInitializer.samples_from_model`. `figs[j]` = what `figure_of_metric` returns for
input `j` (`none` = rejected); the pool yields the results in the order `order` (indices into the batch) and
the loop zips them with the inputs *positionally*, skipping `None` -/
def initBatch {V} (inputs : List (List V)) (figs : List (Option V)) (order : List Nat) : List (List V × V) :=
  ((order.map (fun j => (figs[j]?).join)).zip inputs).filterMap (fun (f, inp) => f.map (fun x => (inp, x)))

/-- the accepted points of several batches, in order -/
def initRun {V} : List (List (List V) × List (Option V) × List Nat) → List (List V × V)
  | [] => []
  | (inputs, figs, order) :: rest => initBatch inputs figs order ++ initRun rest

end AF.Samples
