import AFModel.ParEval

/-!
# ParFair — fairness of schedules and the termination variant of `SneakyPool.map` (C14)

A schedule is a list of actor choices (`0` = caller, `k+1` = worker `k`).  A *fair round* is a stretch of the
schedule in which every one of the `P + 1` actors gets at least one turn; `fairRounds P evs` counts (greedily,
from the left) how many complete fair rounds the schedule `evs` contains.  Nothing else is assumed about the
schedule: inside a round the actors may come in any order and any multiplicity.

`MapSt.phi` is the termination variant of one `map` call: `P * mu + dist` where `mu` counts the queue
interactions still to happen (`ParEval.MapSt.mu`) and `dist` is the number of *empty* result queues the
caller's polling cursor still has to pass before it stands at a non-empty one.  Every step of every actor leaves
`phi` unchanged or decreases it; the step of an *enabled* actor strictly decreases it (proved in
`AFProofs/Lemmas/ParEvalFair.lean`).  `mapRoundBound P n = 4 * n * P + 1` fair rounds therefore suffice.

Core Lean only.
-/

namespace AF.ParEval

/-- actors of the current round that have not had a turn yet → number of complete fair rounds in `evs` -/
def fairScan (P : Nat) : List Nat → List Nat → Nat
  | _, [] => 0
  | missing, e :: rest =>
    if (missing.filter (· != e)).isEmpty then fairScan P (List.range (P + 1)) rest + 1
    else fairScan P (missing.filter (· != e)) rest

/-- number of complete fair rounds (every actor `0..P` at least once) the schedule contains -/
def fairRounds (P : Nat) (evs : List Nat) : Nat := fairScan P (List.range (P + 1)) evs

/-- the caller would find something on this worker's result queue -/
def Worker.ready {α : Type} (w : Worker α) : Bool := !w.resQ.isEmpty

/-- index of the first worker with a non-empty result queue; `0` if there is none -/
def firstReady {α : Type} : List (Worker α) → Nat
  | [] => 0
  | w :: t => if w.ready then 0 else if t.any Worker.ready then firstReady t + 1 else 0

/-- the workers in the order the caller's polling visits them from now on -/
def MapSt.rot {α : Type} (s : MapSt α) : List (Worker α) := s.ws.drop s.cursor ++ s.ws.take s.cursor

/-- empty result queues the polling cursor passes before it reaches a non-empty one -/
def MapSt.dist {α : Type} (s : MapSt α) : Nat := firstReady s.rot

/-- termination variant of one `map` call -/
def MapSt.phi {α : Type} (s : MapSt α) : Nat := s.ws.length * s.mu + s.dist

/-- fair rounds after which a `map` call over `n` inputs on `P` workers has collected its batch -/
def mapRoundBound (P n : Nat) : Nat := 4 * n * P + 1

/-- one `map` call along exactly the given schedule (no continuation) -/
def mapExact {α : Type} (ws : List (Worker α)) (js : List (Res α)) (sched : List Nat) : MapSt α :=
  (initMap ws js).run sched

end AF.ParEval
