import AFModel.Generated.C11

/-!
# SearchSig — can a search's persisted settings be read back? (C11, last sentence)

`files/search.json` is `to_dict(search)`: `{"type": "instance", "class_path": …, "arguments": {key: …}}`
where the keys are `autoconf.dictable.get_arguments(type(search))` (the constructor's named
parameters, plus those of the base classes when it takes `**kwargs`) joined with
`__identifier_fields__`, restricted to the attributes the instance carries. Reading it back is
`cls(**arguments)`: Python binds every key to a named parameter or to `**kwargs`, each constructor
calls the next one with some keywords given explicitly and (usually) `**kwargs` passed on.
That call fails with `TypeError` when a key reaches a constructor that neither names it nor takes
`**kwargs` (*unexpected keyword*), when a keyword given explicitly is also among the `**kwargs`
passed on (*multiple values* — the pinned `Drawer`), or when a parameter without default gets no value.

`call` is that binding process over a chain of constructor signatures; the chains of the library's
search classes are regenerated from the source (`AFModel/Generated/C11.lean`, constructor ASTs).
-/

namespace AF.SearchSig
open AF.Generated.C11

inductive Outcome where
  | ok
  /-- `cls.__init__() got an unexpected keyword argument key` -/
  | unexpected (cls key : String)
  /-- `cls.__init__() got multiple values for keyword argument key` -/
  | multiple (cls key : String)
  /-- `cls.__init__() missing 1 required positional argument: key` -/
  | missing (cls key : String)
  deriving Repr, DecidableEq

def clsOf : List Sig → String
  | [] => "object"
  | s :: _ => s.cls

/-- the keys a constructor does not name (they go to `**kwargs`) -/
def extras (s : Sig) (keys : List String) : List String :=
  keys.filter fun k => !s.params.contains k

/-- what is left of `**kwargs` when it is passed on -/
def forwarded (s : Sig) (keys : List String) : List String :=
  if s.forwards then (extras s keys).filter fun k => !s.dropped.contains k else []

/-- `cls(**keys)` through the chain of constructors (outermost first; `[]` = `object.__init__`) -/
def call : List Sig → List String → Outcome
  | [], [] => .ok
  | [], k :: _ => .unexpected "object" k
  | s :: rest, keys =>
    match (if s.varkw then none else (extras s keys).head?) with
    | some k => .unexpected s.cls k
    | none =>
      match s.required.find? (fun r => !keys.contains r) with
      | some r => .missing s.cls r
      | none =>
        match (forwarded s keys).find? (fun k => s.explicit.contains k) with
        | some k => .multiple (clsOf rest) k
        | none => call rest (s.explicit ++ forwarded s keys)

/-- `autoconf.dictable.get_arguments` along the chain: own parameters, and the bases' when the
constructor takes `**kwargs` -/
def getArguments : List Sig → List String
  | [] => []
  | s :: rest => s.params ++ (if s.varkw then getArguments rest else [])

/-- the keys of `to_dict(search)["arguments"]` -/
def keysOf (r : SearchSig) : List String :=
  ((getArguments r.chain ++ r.idf).eraseDups).filter fun k => !r.absent.contains k

/-- reading `search.json` back: `from_dict(to_dict(search))` is `cls(**arguments)` -/
def readBack (r : SearchSig) : Outcome := call r.chain (keysOf r)

/-- a chain that accepts *every* set of keys: each constructor has no parameter without default,
takes `**kwargs`, gives explicitly only keywords it names itself or pops from `**kwargs` (so none can
also be among the `**kwargs` it passes on), and either passes `**kwargs` on to a chain of the same kind or calls the
next constructor with its explicit keywords alone, which that one accepts -/
def absorbing : List Sig → Bool
  | [] => false
  | s :: rest =>
    s.required.isEmpty && s.varkw && s.explicit.all (fun k => s.params.contains k || s.dropped.contains k) &&
      (if s.forwards then absorbing rest else call rest s.explicit == .ok)

/-- the pinned `Drawer`: `number_of_cores=1` given explicitly, not a named parameter, `**kwargs`
passed on unchanged -/
def pinnedDrawer : SearchSig :=
  { cls := "Drawer"
    chain := [
      ⟨"Drawer", ["name", "path_prefix", "unique_tag", "initializer", "iterations_per_update", "session"], [], true,
        ["name", "path_prefix", "unique_tag", "initializer", "iterations_per_update", "number_of_cores", "session"], true, []⟩,
      ⟨"NonLinearSearch", ["name", "path_prefix", "unique_tag", "initializer", "iterations_per_update", "number_of_cores",
        "session", "paths"], [], true, [], false, []⟩,
      ⟨"AbstractFactorOptimiser", ["initial_values", "inplace"], [], false, [], false, []⟩]
    idf := ["total_draws"]
    candidates := []
    absent := ["session"] }

end AF.SearchSig
