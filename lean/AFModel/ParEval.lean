/-!
# ParEval — the two hand-written process pools of PyAutoFit as scheduler-driven state machines (C14)

* `SneakyPool.map` (autofit/non_linear/parallel/sneaky.py): every worker has its own job queue and its
  own result queue; job `i` goes to worker `i % P`; the caller polls the result queues round-robin, takes
  at most one item per visit, files it under the oldest unanswered position handed to that worker, and
  when every job is answered replays the positions in input order (yield value / raise at the first
  failure).  Repaired behaviour; the *arrival* order, which the pinned commit yielded, is kept as the
  ghost field `arrivals` (`legacyOutput`).
* `Process.run_jobs` (autofit/non_linear/parallel/process.py): one shared job queue followed by one stop
  token per worker, a result queue per worker, the caller drains each result queue in turn and yields
  items as they arrive (callers key them by job number).  `Cfg` switches on the two behaviours of the
  pinned commit (an exception result counted twice; workers leaving on `empty()`).

A *schedule* is a list of actor choices (`0` = caller, `k+1` = worker `k`); one step = one interaction
with a queue.  A step of an actor that cannot move (blocked `get`, finished) leaves the state unchanged.
What evaluating an input returns is abstracted to its outcome `Res α` (`ok v` / `err tag`): a job *is*
the outcome the serial evaluation of its input has.  Core Lean only.
-/

namespace AF.ParEval

/-- outcome of evaluating one input: a value, or an exception (identified by a tag) -/
inductive Res (α : Type) where
  | ok (v : α)
  | err (tag : α)
  deriving Repr, DecidableEq, Inhabited

def Res.isErr {α : Type} : Res α → Bool
  | .err _ => true
  | .ok _ => false

/-- a job: `id` is its position in the batch (identity of the input; workers never put it on a result
queue), `res` what performing it produces -/
structure Job (α : Type) where
  id : Nat
  res : Res α
  deriving Repr, DecidableEq

/-- what a caller of a (generator) map observes: the values yielded, then possibly an exception -/
structure Out (α : Type) where
  yielded : List α
  raised : Option α
  deriving Repr, DecidableEq

/-- **Specification**: evaluating the inputs one after another — values up to the first failure, which is
raised. -/
def serial {α : Type} : List (Res α) → Out α
  | [] => ⟨[], none⟩
  | .ok v :: rest => ⟨v :: (serial rest).yielded, (serial rest).raised⟩
  | .err t :: _ => ⟨[], some t⟩

/-! ## SneakyPool.map -/

structure Worker (α : Type) where
  /-- its own job queue -/
  jobQ : List (Job α) := []
  /-- job performed, result not yet put -/
  hold : Option (Res α) := none
  /-- its result queue -/
  resQ : List (Res α) := []
  /-- caller's bookkeeping (`positions[number]`): positions handed to this worker, not yet answered -/
  pending : List Nat := []
  /-- log: ids of the jobs this worker performed during the current batch -/
  performed : List Nat := []
  deriving Repr

/-- one interaction of a worker: put the result it holds, else take the next job and perform it, else
blocked -/
def Worker.step {α : Type} (w : Worker α) : Worker α :=
  match w.hold with
  | some r => { w with hold := none, resQ := w.resQ ++ [r] }
  | none =>
    match w.jobQ with
    | j :: rest => { w with jobQ := rest, hold := some j.res, performed := w.performed ++ [j.id] }
    | [] => w

/-- everything in flight at a worker, oldest first -/
def Worker.pipe {α : Type} (w : Worker α) : List (Res α) :=
  w.resQ ++ (w.hold.toList ++ w.jobQ.map (·.res))

structure MapSt (α : Type) where
  ws : List (Worker α)
  /-- inputs not yet submitted -/
  todo : List (Res α)
  /-- position of the next input to submit -/
  next : Nat
  /-- `results`: one slot per position -/
  slots : List (Option (Res α))
  count : Nat
  target : Nat
  /-- worker the caller visits next -/
  cursor : Nat
  /-- ghost: items in the order the caller took them (what the pinned commit yielded) -/
  arrivals : List (Res α)
  /-- ghost: ids of the jobs in the order they were performed, over all workers -/
  evalOrder : List Nat := []
  deriving Repr

/-- the job a worker's next interaction performs, if that interaction is a `take` -/
def Worker.evaluates {α : Type} (w : Worker α) : List Nat :=
  match w.hold, w.jobQ with
  | none, j :: _ => [j.id]
  | _, _ => []

def MapSt.workerStep {α : Type} (s : MapSt α) (k : Nat) : MapSt α :=
  match s.ws[k]? with
  | some w => { s with ws := s.ws.set k w.step, evalOrder := s.evalOrder ++ w.evaluates }
  | none => s

/-- the caller hands the next input to worker `next % P` and notes the position -/
def MapSt.submit {α : Type} (s : MapSt α) (r : Res α) (rest : List (Res α)) : MapSt α :=
  let k := s.next % s.ws.length
  match s.ws[k]? with
  | some w =>
    { s with todo := rest, next := s.next + 1,
             ws := s.ws.set k { w with jobQ := w.jobQ ++ [⟨s.next, r⟩], pending := w.pending ++ [s.next] } }
  | none => { s with todo := rest, next := s.next + 1 }

/-- the caller visits worker `cursor`: takes at most one item and files it under the oldest pending
position of that worker -/
def MapSt.poll {α : Type} (s : MapSt α) : MapSt α :=
  let c := s.cursor
  let nc := if c + 1 < s.ws.length then c + 1 else 0
  match s.ws[c]? with
  | some w =>
    match w.resQ, w.pending with
    | r :: rq, i :: pd =>
      { s with cursor := nc, ws := s.ws.set c { w with resQ := rq, pending := pd },
               slots := s.slots.set i (some r), count := s.count + 1, arrivals := s.arrivals ++ [r] }
    | _, _ => { s with cursor := nc }
  | none => { s with cursor := nc }

def MapSt.mainStep {α : Type} (s : MapSt α) : MapSt α :=
  match s.todo with
  | r :: rest => s.submit r rest
  | [] => if s.count < s.target then s.poll else s

/-- schedule entry `0` = caller, `k+1` = worker `k` -/
def MapSt.step {α : Type} (s : MapSt α) : Nat → MapSt α
  | 0 => s.mainStep
  | k + 1 => s.workerStep k

def MapSt.run {α : Type} (s : MapSt α) (evs : List Nat) : MapSt α := evs.foldl MapSt.step s

/-- the caller has left the collection loop -/
def MapSt.finished {α : Type} (s : MapSt α) : Bool := s.todo.isEmpty && decide (s.target ≤ s.count)

/-- replay of the slots in input order: yield values, raise at the first failure -/
def emit {α : Type} : List (Option (Res α)) → Out α
  | [] => ⟨[], none⟩
  | some (.ok v) :: rest => ⟨v :: (emit rest).yielded, (emit rest).raised⟩
  | some (.err t) :: _ => ⟨[], some t⟩
  | none :: _ => ⟨[], none⟩

def MapSt.output {α : Type} (s : MapSt α) : Out α := emit s.slots

def okVal {α : Type} : Res α → Option α
  | .ok v => some v
  | .err _ => none

def errTag {α : Type} : Res α → Option α
  | .err t => some t
  | .ok _ => none

/-- what the pinned commit produced: values in arrival order, the last exception seen raised at the end -/
def MapSt.legacyOutput {α : Type} (s : MapSt α) : Out α :=
  ⟨s.arrivals.filterMap okVal, (s.arrivals.filterMap errTag).getLast?⟩

/-- number of items anywhere in the queues / in flight (must be 0 between batches) -/
def leftover {α : Type} (ws : List (Worker α)) : Nat := (ws.map (fun w => w.pipe.length)).sum

/-- remaining queue interactions of the items at a worker: queued job 3 (take, put, collect), held result 2,
queued result 1 -/
def Worker.weight {α : Type} (w : Worker α) : Nat :=
  3 * w.jobQ.length + (2 * w.hold.toList.length + w.resQ.length)

def wsum {α : Type} (ws : List (Worker α)) : Nat := (ws.map Worker.weight).sum

/-- work left: queue interactions still to happen before the batch is collected (4 per unsubmitted input) -/
def MapSt.mu {α : Type} (s : MapSt α) : Nat := 4 * s.todo.length + wsum s.ws

/-- a new `map` call on an existing pool -/
def initMap {α : Type} (ws : List (Worker α)) (js : List (Res α)) : MapSt α :=
  { ws := ws.map (fun w => { w with pending := [], performed := [] }),
    todo := js, next := 0, slots := List.replicate js.length none,
    count := 0, target := js.length, cursor := 0, arrivals := [] }

def newPool {α : Type} (P : Nat) : List (Worker α) := List.replicate P {}

/-- one fair round: every actor is served once -/
def rrRound (P : Nat) : List Nat := List.range (P + 1)

/-- continue round-robin until the caller has finished (bounded by `fuel` rounds) -/
def MapSt.runToEnd {α : Type} : Nat → MapSt α → MapSt α
  | 0, s => s
  | f + 1, s => if s.finished then s else MapSt.runToEnd f (s.run (rrRound s.ws.length))

/-- one `map` call: the given schedule, then round-robin -/
def mapBatch {α : Type} (ws : List (Worker α)) (js : List (Res α)) (sched : List Nat) (fuel : Nat) : MapSt α :=
  ((initMap ws js).run sched).runToEnd fuel

/-- successive `map` calls on the same pool; the final state of every call -/
def runBatches {α : Type} (fuel : Nat) : List (Worker α) → List (List (Res α) × List Nat) → List (MapSt α)
  | _, [] => []
  | ws, (js, sched) :: rest =>
    let s := mapBatch ws js sched fuel
    s :: runBatches fuel s.ws rest

/-! ## Process.run_jobs -/

structure Cfg where
  /-- pinned commit: an exception result adds 2 to the count of processed jobs -/
  countTwice : Bool := false
  /-- pinned commit: a worker leaves as soon as `job_queue.empty()` says so (no stop tokens) -/
  pollEmpty : Bool := false
  deriving Repr, DecidableEq

inductive Phase where
  | idle | committed | dead
  deriving Repr, DecidableEq

inductive QItem (α : Type) where
  | job (j : Job α)
  | stop
  deriving Repr

structure RWorker (α : Type) where
  phase : Phase := .idle
  hold : Option (Res α) := none
  resQ : List (Res α) := []
  deriving Repr

def RWorker.pipe {α : Type} (w : RWorker α) : List (Res α) := w.resQ ++ w.hold.toList

structure RunSt (α : Type) where
  cfg : Cfg
  /-- the shared job queue -/
  jobQ : List (QItem α)
  ws : List (RWorker α)
  /-- worker whose result queue the caller is draining -/
  cursor : Nat
  count : Nat
  total : Nat
  yielded : List (Res α)
  /-- log: ids of performed jobs, in the order they were taken from the shared queue -/
  performed : List Nat
  done : Bool
  deriving Repr

/-- a schedule entry for `run_jobs`: the actor, and whether an `empty()` it performs reports a stale `True` -/
structure Ev where
  actor : Nat
  stale : Bool := false
  deriving Repr, DecidableEq

/-- blocking `get` on the shared queue -/
def RunSt.take {α : Type} (s : RunSt α) (k : Nat) (w : RWorker α) : RunSt α :=
  match s.jobQ with
  | [] => s
  | .stop :: rest => { s with jobQ := rest, ws := s.ws.set k { w with phase := .dead } }
  | .job j :: rest =>
    { s with jobQ := rest, performed := s.performed ++ [j.id],
             ws := s.ws.set k { w with phase := .idle, hold := some j.res } }

def RunSt.workerStep {α : Type} (s : RunSt α) (k : Nat) (stale : Bool) : RunSt α :=
  match s.ws[k]? with
  | none => s
  | some w =>
    match w.hold with
    | some r => { s with ws := s.ws.set k { w with hold := none, resQ := w.resQ ++ [r] } }
    | none =>
      match w.phase with
      | .dead => s
      | .committed => s.take k w
      | .idle =>
        if s.cfg.pollEmpty then
          if stale || s.jobQ.isEmpty then { s with ws := s.ws.set k { w with phase := .dead } }
          else { s with ws := s.ws.set k { w with phase := .committed } }
        else s.take k w

/-- end of one pass over the workers: the `while process_count < total` test -/
def RunSt.endOfPass {α : Type} (s : RunSt α) : RunSt α :=
  if s.count < s.total then { s with cursor := 0 } else { s with done := true }

/-- the caller leaves worker `cursor` for the next one (or ends the pass) -/
def RunSt.advance {α : Type} (s : RunSt α) : RunSt α :=
  if s.cursor + 1 < s.ws.length then { s with cursor := s.cursor + 1 } else s.endOfPass

def RunSt.mainStep {α : Type} (s : RunSt α) (stale : Bool) : RunSt α :=
  if s.done then s
  else
    match s.ws[s.cursor]? with
    | some w =>
      match w.resQ with
      | r :: rq =>
        if stale then s.advance
        else
          { s with ws := s.ws.set s.cursor { w with resQ := rq }, yielded := s.yielded ++ [r],
                   count := s.count + (if r.isErr && s.cfg.countTwice then 2 else 1) }
      | [] => s.advance
    | none => s.advance

def RunSt.step {α : Type} (s : RunSt α) (e : Ev) : RunSt α :=
  match e.actor with
  | 0 => s.mainStep e.stale
  | k + 1 => s.workerStep k e.stale

def RunSt.run {α : Type} (s : RunSt α) (evs : List Ev) : RunSt α := evs.foldl RunSt.step s

def enumFrom {α : Type} : Nat → List (Res α) → List (Job α)
  | _, [] => []
  | n, r :: rs => ⟨n, r⟩ :: enumFrom (n + 1) rs

/-- `run_jobs(jobs, P + 1)`: all jobs (then the stop tokens) are on the shared queue before the workers
start -/
def initRun {α : Type} (cfg : Cfg) (P : Nat) (js : List (Res α)) : RunSt α :=
  { cfg := cfg,
    jobQ := (enumFrom 0 js).map QItem.job ++ (if cfg.pollEmpty then [] else List.replicate P QItem.stop),
    ws := List.replicate P {}, cursor := 0, count := 0, total := js.length,
    yielded := [], performed := [], done := js.isEmpty }

def rrEvents (P : Nat) : List Ev := (List.range (P + 1)).map (fun a => { actor := a })

def RunSt.runToEnd {α : Type} : Nat → RunSt α → RunSt α
  | 0, s => s
  | f + 1, s => if s.done then s else RunSt.runToEnd f (s.run (rrEvents s.ws.length))

def runJobs {α : Type} (cfg : Cfg) (P : Nat) (js : List (Res α)) (sched : List Ev) (fuel : Nat) : RunSt α :=
  ((initRun cfg P js).run sched).runToEnd fuel

/-- `AssertionError` at the end iff an exception result was seen -/
def RunSt.raised {α : Type} (s : RunSt α) : Bool := s.yielded.any Res.isErr

def jobsOf {α : Type} : List (QItem α) → List (Job α)
  | [] => []
  | .job j :: rest => j :: jobsOf rest
  | .stop :: rest => jobsOf rest

def rpipes {α : Type} : List (RWorker α) → List (Res α)
  | [] => []
  | w :: ws => w.pipe ++ rpipes ws

def RWorker.weight {α : Type} (w : RWorker α) : Nat := 2 * w.hold.toList.length + w.resQ.length

/-- work left in a `run_jobs` call -/
def RunSt.mu {α : Type} (s : RunSt α) : Nat := 3 * (jobsOf s.jobQ).length + (s.ws.map RWorker.weight).sum

end AF.ParEval
