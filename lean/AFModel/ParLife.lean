import AFModel.ParEval

/-!
# ParLife — start-up and shutdown of the process pools (C14)

`SneakyPool.__init__` starts `P` processes; each runs `SneakyProcess.run`: `while True: job = job_queue.get();
if job is StopCommand: break; …put(result)`.  A started pool is `ParEval.newPool P`: every worker parked at a
blocking `get` on its empty job queue.  `SneakyPool.__del__` puts one `StopCommand` on the job queue of every
process (in process order) and then joins each with a timeout (no queue operation).  A worker that takes a
`StopCommand` leaves its loop; whatever is behind it on the queue is never looked at.

`DelSt` is the pool from the moment `__del__` starts: `LWorker` = a `ParEval.Worker` plus the number of
`StopCommand`s queued behind its jobs and whether its `run()` is still executing.  Schedule entries as in
`ParEval`: `0` = the caller (inside `__del__`), `k+1` = worker `k`.

`Process.run_jobs` puts one stop token per worker on the *shared* queue behind the jobs (`ParEval.initRun`);
`liveWorkers` / `stopTokens` are the two sides of its shutdown invariant.  Core Lean only.
-/

namespace AF.ParEval

structure LWorker (α : Type) where
  w : Worker α := {}
  /-- `StopCommand`s on its job queue (behind the jobs: nothing is submitted once `__del__` runs) -/
  stops : Nat := 0
  /-- `run()` has not returned -/
  alive : Bool := true
  deriving Repr

/-- one interaction of a worker process: put the held result, else take the next job, else take a
`StopCommand` and leave, else blocked in `get`; nothing once it has left -/
def LWorker.step {α : Type} (l : LWorker α) : LWorker α :=
  if l.alive then
    match l.w.hold, l.w.jobQ with
    | none, [] => if 0 < l.stops then { l with stops := l.stops - 1, alive := false } else l
    | _, _ => { l with w := l.w.step }
  else l

structure DelSt (α : Type) where
  ws : List (LWorker α)
  /-- processes that have been sent their `StopCommand` -/
  sent : Nat
  deriving Repr

/-- `__del__`: the next `job_queue.put(StopCommand)`; afterwards the joins, which touch no queue -/
def DelSt.callerStep {α : Type} (s : DelSt α) : DelSt α :=
  match s.ws[s.sent]? with
  | some l => { ws := s.ws.set s.sent { l with stops := l.stops + 1 }, sent := s.sent + 1 }
  | none => s

def DelSt.workerStep {α : Type} (s : DelSt α) (k : Nat) : DelSt α :=
  match s.ws[k]? with
  | some l => { s with ws := s.ws.set k l.step }
  | none => s

def DelSt.step {α : Type} (s : DelSt α) : Nat → DelSt α
  | 0 => s.callerStep
  | k + 1 => s.workerStep k

def DelSt.run {α : Type} (s : DelSt α) (evs : List Nat) : DelSt α := evs.foldl DelSt.step s

/-- `__del__` is entered: every process of the pool is still running -/
def initDel {α : Type} (ws : List (Worker α)) : DelSt α := { ws := ws.map (fun w => { w := w }), sent := 0 }

/-- processes still running -/
def DelSt.aliveCount {α : Type} (s : DelSt α) : Nat := (s.ws.filter (·.alive)).length

/-- everything on any queue of the pool or held by a worker: results, jobs, `StopCommand`s -/
def DelSt.queued {α : Type} (s : DelSt α) : Nat := (s.ws.map (fun l => l.w.pipe.length + l.stops)).sum

/-- results on result queues or held (what could be attributed to a later reader) -/
def DelSt.results {α : Type} (s : DelSt α) : Nat :=
  (s.ws.map (fun l => l.w.resQ.length + l.w.hold.toList.length)).sum

/-- the pool is gone: no process runs and no queue holds anything -/
def DelSt.down {α : Type} (s : DelSt α) : Bool := s.aliveCount == 0 && s.queued == 0

/-- rounds in which every worker, then the caller, is served -/
def DelSt.rounds {α : Type} : Nat → DelSt α → DelSt α
  | 0, s => s
  | f + 1, s => DelSt.rounds f (s.run (List.range (s.ws.length + 1)))

/-- a whole pool session: start, successive `map` calls, then `__del__` along `delSched` (exactly) -/
def poolSession {α : Type} (P fuel : Nat) (bs : List (List (Res α) × List Nat)) (delSched : List Nat) : DelSt α :=
  let ws := match (runBatches fuel (newPool P) bs).getLast? with
    | some s => s.ws
    | none => newPool P
  (initDel ws).run delSched

/-! ## `Process.run_jobs`: stop tokens on the shared queue -/

def stopTokens {α : Type} : List (QItem α) → Nat
  | [] => 0
  | .stop :: rest => stopTokens rest + 1
  | .job _ :: rest => stopTokens rest

def RWorker.live {α : Type} (w : RWorker α) : Nat := if w.phase = .dead then 0 else 1

/-- worker processes whose `run()` has not returned -/
def liveWorkers {α : Type} (ws : List (RWorker α)) : Nat := (ws.map RWorker.live).sum

end AF.ParEval
