import AFModel.Passing

/-!
# PassRoutes — the way of the inferred vector through a result (C12)

`Result.model`, `model_absolute`, `model_relative`, `model_bounded` do not hand the search's vector to
`mapper_from_prior_means` / `mapper_from_uniform_floats` directly: the vector is stored in a `Sample`
as a dictionary keyed by *path* (`Sample.from_lists`: `unique_prior_paths`, the last place of each
parameter) and read back, parameter by parameter, through `model.all_paths` (all places of each
parameter, id order) taking the first place that has a value (`Sample.parameter_lists_for_paths`).
-/

namespace AF

/-- `Sample.from_lists`: `{path: value}` over `model.unique_prior_paths` -/
def kwargsOfVector {V V'} (t : Node V') (v : List V) : List (Path × V) := (uniquePaths t).zip v

/-- `model.all_paths`: for every parameter (id order) all its places (order of `path_priors_tuples`) -/
def allPaths {V'} (t : Node V') : List (List Path) := (uniqueIds t).map (placesOf (pathPriors t))

/-- `kwargs[path]` -/
def lookupPath {V} (kw : List (Path × V)) (p : Path) : Option V := (kw.find? (·.1 == p)).map (·.2)

/-- `Sample.parameter_lists_for_paths`: per parameter the value of the first of its places that has
one (`none`: the code raises `KeyError`) -/
def vectorOfKwargs {V} (kw : List (Path × V)) (groups : List (List Path)) : List (Option V) :=
  groups.map (fun g => g.findSome? (lookupPath kw))

/-- `prior_means` / `max_log_likelihood(as_instance=False)` of a summary built from the vector -/
def resultVector {V V'} (t : Node V') (v : List V) : List (Option V) :=
  vectorOfKwargs (kwargsOfVector t v) (allPaths t)

/-- every key is a place of its own parameter and of no other (decidable; evaluated by the driver on
every composition) -/
def keysOwnGroups (keys : List Path) (groups : List (List Path)) : Bool :=
  keys.length == groups.length &&
  (List.range keys.length).all (fun i => (List.range groups.length).all (fun j =>
    match keys[i]?, groups[j]? with
    | some k, some g => if i = j then g.contains k else !g.contains k
    | _, _ => true))

end AF
