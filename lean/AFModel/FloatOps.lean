import AFModel.Comp
import AFModel.Fitness
import AFModel.Passing

/-! `Float` instance of the arithmetic used by compound priors (Python `float` semantics).
`//` and `%` follow CPython's `float_divmod`; `fmod` is computed as `x - y*trunc(x/y)`
(exact whenever the quotient is small, which is what the generator produces). -/

namespace AF

def ftrunc (x : Float) : Float := if x < 0 then x.ceil else x.floor

/-- `|x| = m * 2^e` exactly, for finite `x` -/
def ratParts (x : Float) : Option (Nat × Int) :=
  let bits := x.toBits.toNat
  let ex : Nat := (bits / 2 ^ 52) % 2048
  let frac : Nat := bits % 2 ^ 52
  if ex == 2047 then none
  else if ex == 0 then some (frac, -1074)
  else some (frac + 2 ^ 52, (ex : Int) - 1075)

/-- exact C `fmod` for finite operands, computed on the integer mantissas -/
def ffmod (x y : Float) : Float :=
  match ratParts x, ratParts y with
  | some (m1, e1), some (m2, e2) =>
      if m2 == 0 then x - y * ftrunc (x / y)   -- NaN as in C
      else
        let e := min e1 e2
        let a := m1 * 2 ^ (e1 - e).toNat
        let b := m2 * 2 ^ (e2 - e).toNat
        let r := a % b
        let mag := (Float.ofNat r).scaleB e
        if x < 0 || (x == 0 && 1 / x < 0) then -mag else mag
  | _, _ => if x.isFinite && y.isInf then x else x - y * ftrunc (x / y)

def pyDivmod (vx wx : Float) : Float × Float :=
  let mod := ffmod vx wx
  let div := (vx - mod) / wx
  let (mod, div) :=
    if mod != 0 then
      if (wx < 0) != (mod < 0) then (mod + wx, div - 1.0) else (mod, div)
    else (if wx < 0 then -0.0 else 0.0, div)
  let fl :=
    if div != 0 then
      let f := div.floor
      if div - f > 0.5 then f + 1.0 else f
    else (if (vx / wx) < 0 then -0.0 else 0.0)
  (fl, mod)

/-- `_position_key` of `autofit/mapper/prior/tuple_prior.py`: `name.rpartition("_")`, numeric
position when the suffix is all digits -/
def posKey (s : String) : String × Int × String :=
  let parts := s.splitOn "_"
  let suffix := parts.getLast?.getD ""
  let pfx := "_".intercalate parts.dropLast
  if suffix ≠ "" ∧ suffix.all Char.isDigit then (pfx, (suffix.toNat?.getD 0 : Nat), s) else (s, -1, s)

/-- Python tuple comparison of two keys -/
def posLe (a b : String) : Bool :=
  let ka := posKey a
  let kb := posKey b
  if ka.1 < kb.1 then true
  else if ka.1 = kb.1 then
    (if ka.2.1 < kb.2.1 then true else if ka.2.1 = kb.2.1 then decide (ka.2.2 ≤ kb.2.2) else false)
  else false

def floatOps : Ops Float where
  nameLe := posLe
  lt := fun a b => a < b
  le := fun a b => a ≤ b
  bin := fun op a b => match op with
    | .add => a + b
    | .sub => a - b
    | .mul => a * b
    | .div => a / b
    | .floordiv => (pyDivmod a b).1
    | .mod => (pyDivmod a b).2
    | .pow => Float.pow a b
  un := fun op a => match op with
    | .neg => -a
    | .abs => a.abs
    | .log => a.log
    | .log10 => a.log10

end AF

namespace AF

def floatFom : FomOps Float where
  add := fun a b => a + b
  mulNeg2 := fun a => a * (-2.0)
  zero := 0.0
  isNaN := fun a => a.isNaN

/-- `Prior.log_prior_from_value` per prior family, with the code's float expressions -/
def logPriorFloat (kind : String) (mean sigma : Float) (value : Float) : Float :=
  match kind with
  | "Uniform" => 0.0
  | "LogUniform" => 1.0 / value
  | "Gaussian" => (Float.pow (value - mean) 2.0) / (2 * Float.pow sigma 2.0)
  | "LogGaussian" =>
      if value ≤ 0 then -(1.0 / 0.0)
      else (Float.pow (value.log - mean) 2.0) / (2 * Float.pow sigma 2.0) - value.log
  | _ => 0.0 / 0.0

end AF

namespace AF

def floatPass : PassOps Float where
  add := (· + ·)
  sub := (· - ·)
  mul := (· * ·)
  half := fun x => x / 2
  abs := Float.abs
  -- Python's max(a, b) returns a unless b > a; min(a, b) returns a unless b < a
  max := fun a b => if b > a then b else a
  min := fun a b => if b < a then b else a
  negInf := -(1.0 / 0.0)
  posInf := 1.0 / 0.0

end AF
