import AFModel.Grid
import AFModel.Persist

/-!
# GridComp — the composition a grid-search cell is fitted with (C16, "all other parameters keep their priors")

`GridSearch.job_for_analysis_grid_priors_and_values`:
`model.mapper_from_partial_prior_arguments({grid_prior_i: UniformPrior(cell limits_i)})` rebuilds the same
tree of components, constants and tuples (`AFModel/Comp.lean`) in which every place of grid prior `i` holds
the new prior made for dimension `i` of this cell and every other place holds the prior it held before (the
same object, hence the same id). On the composition model that is `renameIds` (C08's `AFModel/Persist.lean`)
along `cellSigma`.

The ids of the new priors (`fresh`, one per grid dimension, drawn from the global prior counter by
`make_arguments`) are larger than every id of the model: parameters are ordered by id, so in a cell's model
the grid parameters are the *last* parameters of a vector, whatever their position in the original model.
Core Lean only.
-/

namespace AF.Grid
open AF

/-- id of the prior a cell's model holds where the original model holds prior `id`: the new prior of
dimension `i` for the `i`-th grid prior, the prior itself otherwise -/
def cellSigma (gridIds fresh : List Nat) (id : Nat) : Nat :=
  match gridIds.idxOf? id with
  | some i => fresh.getD i id
  | none => id

/-- the model of one cell -/
def cellComp {V} (t : Node V) (gridIds fresh : List Nat) : Node V :=
  renameIds (cellSigma gridIds fresh) t

/-- ids `make_arguments` draws for job `k` of a search over `d` grid priors when `base` is the first id it
draws and nothing else creates priors in between (pinned commit: `make_jobs` builds all jobs in a row) -/
def freshIds (base d k : Nat) : List Nat := (List.range d).map fun i => base + k * d + i

end AF.Grid
