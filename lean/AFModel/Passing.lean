import AFModel.Persist

/-!
# Passing — new model from a result (C12)

Mirrors `AbstractPriorModel.mapper_from_prior_means` / `mapper_from_uniform_floats` /
`with_limits` / `mapper_from_partial_prior_arguments`: the priors in parameter order
(`prior_tuples_ordered_by_id`) are zipped with the inferred values, a new prior is derived for each,
and the tree is rebuilt substituting priors by identity (`gaussian_prior_model_for_arguments`).

The tree keeps its shape; prior identities are kept (`means`, `uniform`, `replacing`) or replaced by
fresh ids in the old order (`with_limits`): `renameIds σ`, with C08's theorems. What is new here is
the *descriptor* each parameter receives.
-/

namespace AF

structure PassOps (V : Type) where
  add : V → V → V
  sub : V → V → V
  mul : V → V → V
  half : V → V
  abs : V → V
  max : V → V → V
  min : V → V → V
  negInf : V
  posInf : V

/-- prior descriptor -/
structure PD (V : Type) where
  kind : String
  lo : V
  hi : V
  mean : V
  sigma : V
  deriving Inhabited

/-- configuration resolved for one parameter: width modifier (relative or absolute, value) and the
optional `gaussian_limits` -/
structure PCfg (V : Type) where
  relative : Bool
  value : V
  glimits : Option (V × V)

inductive PassMode (V : Type) where
  /-- `mapper_from_prior_means(means, a, r, no_limits)` -/
  | means (a r : Option V) (noLimits : Bool)
  /-- `mapper_from_uniform_floats(floats, b)` -/
  | uniform (b : V)
  /-- `with_limits(limits)` : the "inferred value" is the pair of new limits -/
  | withLimits

/-- width of the new Gaussian prior -/
def passWidth {V} (po : PassOps V) (a r : Option V) (cfg : PCfg V) (mean : V) : V :=
  match a, r with
  | some a, _ => a
  | none, some r => po.abs (po.mul r mean)
  | none, none => if cfg.relative then po.abs (po.mul cfg.value mean) else cfg.value

/-- the prior derived for one parameter from the value inferred for it (`x`; `y` is the second
number of a limit pair) -/
def derive {V} (po : PassOps V) (mode : PassMode V) (old : PD V) (cfg : PCfg V) (x y : V) : PD V :=
  match mode with
  | .means a r noLimits =>
      let lims : V × V :=
        if noLimits then (po.negInf, po.posInf)
        else match cfg.glimits with
          | some l => l
          | none => (old.lo, old.hi)
      { kind := "Gaussian", lo := lims.1, hi := lims.2, mean := x, sigma := passWidth po a r cfg x }
  | .uniform b => { kind := "Uniform", lo := po.sub x b, hi := po.add x b, mean := old.mean, sigma := old.sigma }
  | .withLimits =>
      if old.kind == "Gaussian" then
        -- `GaussianPrior.with_limits` is a classmethod: centred between the limits, unbounded
        { kind := "Gaussian", lo := po.negInf, hi := po.posInf, mean := po.half (po.add x y), sigma := po.sub y x }
      else { old with lo := po.max x old.lo, hi := po.min y old.hi }

/-- the argument dictionary `{old prior ↦ new prior}`: parameters in id order zipped with the
inferred values -/
def passArgs {V} (po : PassOps V) (mode : PassMode V) (t : Node V') (olds : List (PD V)) (cfgs : List (PCfg V))
    (xs : List (V × V)) : List (Nat × PD V) :=
  (uniqueIds t).zip ((olds.zip (cfgs.zip xs)).map (fun (o, c, x) => derive po mode o c x.1 x.2))

/-- fresh ids handed out in iteration (= old id) order by `with_limits` -/
def freshSigma {V'} (t : Node V') (base : Nat) (i : Nat) : Nat :=
  match indexOf? (uniqueIds t) i with
  | some k => base + k
  | none => base + (uniqueIds t).length + i

end AF
