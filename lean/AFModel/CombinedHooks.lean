import AFModel.Combined

/-!
# CombinedHooks — the hooks a `CombinedAnalysis` forwards to the analyses it holds (C15, model growth)

The table `AF.Combined.Generated.hooks` (`AFModel/Generated/C15.lean`) is REGENERATED from the
repository's source by `harness/tables_c15.py` before every build; this file holds the types of its
rows and the meaning of a row (`hookCalls`): which analyses a call of the hook on the combined
analysis reaches, with which output folder and which of the zipped further arguments.

Mirrors `CombinedAnalysis._for_each_analysis` (`zip(enumerate(self.analyses), *args)`, child paths
`analyses/analysis_{i}`), the loops over `self.analyses` (`make_result`: the parent's paths) and
`self.analyses[0]` (`*_combined`). Core Lean only.
-/

namespace AF.Combined

/-- how `CombinedAnalysis` treats a hook (read off the syntax tree of its override) -/
inductive Route where
  /-- forwarded to every analysis held: with child paths `analyses/analysis_i` (`childPaths`) or the
  parent's paths; through `AnalysisPool.map` when a pool exists (`pooled`); further arguments zipped
  with the analyses (`zipped`) -/
  | eachChild (childPaths pooled zipped : Bool)
  /-- `self.analyses[0]` only -/
  | firstChild
  /-- not overridden: no analysis held is reached -/
  | inherited
  /-- overridden in a way the translator does not recognise -/
  | other
  deriving Repr, DecidableEq, Inhabited

structure Hook where
  name : String
  /-- the hook is given `paths` (it may write output) -/
  takesPaths : Bool
  /-- a once-for-all-analyses variant (`*_combined` / takes `analyses`) -/
  shared : Bool
  /-- a `should_*` question (answers, writes nothing) -/
  question : Bool
  route : Route
  deriving Repr, DecidableEq, Inhabited

/-- one call received by an analysis held: its position, the number of the child folder it is given
(`none`: the parent's own paths), and which of the zipped arguments (`none`: no zipped argument) -/
structure HookCall where
  child : Nat
  folder : Option Nat
  arg : Option Nat
  deriving Repr, DecidableEq, Inhabited

/-- the calls a serial (`_analysis_pool is None`) call of the hook makes, in order; `n` analyses
held, `m` items in the zipped argument -/
def hookCalls (r : Route) (n m : Nat) : List HookCall :=
  match r with
  | .eachChild cp _ z =>
    (List.range (if z then min n m else n)).map (fun i =>
      { child := i, folder := if cp then some i else none, arg := if z then some i else none })
  | .firstChild => if n = 0 then [] else [{ child := 0, folder := none, arg := none }]
  | .inherited => []
  | .other => []

/-- an output hook: takes `paths`, is not a once-for-all variant and not a `should_*` question -/
def Hook.isOutput (h : Hook) : Bool := h.takesPaths && !h.shared && !h.question

def Route.reachesAll : Route → Bool
  | .eachChild _ _ _ => true
  | _ => false

end AF.Combined
