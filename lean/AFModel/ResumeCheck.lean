import AFModel.Fitness

/-!
# ResumeCheck — `Fitness.check_log_likelihood` (C04)

Run by `Fitness.__init__` when `paths` is given, *before* the history lists are created: on a
resume the stored maximum-likelihood sample is evaluated again and `SearchException` is raised when
`np.isclose(old, new)` is false. It returns nothing and touches no attribute a call reads.
-/

namespace AF

/-- arithmetic of `np.isclose(a, b)` (`rtol = 1e-5`, `atol = 1e-8`, `equal_nan = False`) -/
structure CloseOps (V : Type) where
  rtol : V
  atol : V
  add : V → V → V
  sub : V → V → V
  mul : V → V → V
  abs : V → V
  le : V → V → Bool
  eq : V → V → Bool
  isFinite : V → Bool

/-- `np.isclose(a, b)`: `|a - b| <= atol + rtol * |b|` for finite operands, equality otherwise
(equal infinities are close, NaN is close to nothing) -/
def isClose {V} (co : CloseOps V) (a b : V) : Bool :=
  if co.isFinite a && co.isFinite b then co.le (co.abs (co.sub a b)) (co.add co.atol (co.mul co.rtol (co.abs b)))
  else co.eq a b

/-- what `paths.load_samples_summary()` offers -/
inductive Stored (V : Type) where
  | noSummary                                   -- FileNotFoundError: not a resume
  | noSample                                    -- summary without `max_log_likelihood_sample`
  | sample (llOld : V) (params : List V)
  deriving Inhabited

inductive CheckResult where
  | passes            -- returns (the object is built)
  | searchException   -- "Figure of merit sanity check failed"
  | escapes           -- another exception leaves `__init__` (vector rejected by the model, likelihood raises)
  deriving DecidableEq, Repr, Inhabited

/-- `Fitness.check_log_likelihood`; `o` is the outcome of the likelihood on the stored sample -/
def checkLL {V} (co : CloseOps V) (testMode cfgOn : Bool) (s : Stored V)
    (g : List V → Except GateErr (Inst V)) (o : Outcome V) : CheckResult :=
  if testMode then .passes
  else if !cfgOn then .passes
  else match s with
    | .noSummary => .passes
    | .noSample => .passes
    | .sample llOld params =>
      match g params with
      | .error _ => .escapes
      | .ok _ =>
        match o with
        | .fin llNew => if isClose co llOld llNew then .passes else .searchException
        | .nan => .searchException
        | .raisesFit => .escapes
        | .raisesOther => .escapes

/-- was the likelihood evaluated by the check? -/
def checkEvaluates {V} (testMode cfgOn : Bool) (s : Stored V) (g : List V → Except GateErr (Inst V)) : Bool :=
  !testMode && cfgOn && (match s with
    | .sample _ params => (match g params with | .ok _ => true | .error _ => false)
    | _ => false)

/-- `Fitness(model, analysis, paths, ...)` followed by a sequence of calls: `none` when the
constructor raises, otherwise what the calls return and the histories -/
def constructAndRun {V} (fo : FomOps V) (co : CloseOps V) (cfg : FitCfg V) (g : List V → Except GateErr (Inst V))
    (lp : List V → List V) (paths : Option (Bool × Bool × Stored V × Outcome V))
    (calls : List (List V × Outcome V)) : Except CheckResult (List (CallResult V) × FitSt V) :=
  match paths with
  | none => .ok (runCalls fo cfg g lp {} calls)
  | some (testMode, cfgOn, s, o) =>
    match checkLL co testMode cfgOn s g o with
    | .passes => .ok (runCalls fo cfg g lp {} calls)
    | r => .error r

def floatClose : CloseOps Float where
  rtol := 1.0e-5
  atol := 1.0e-8
  add := (· + ·)
  sub := (· - ·)
  mul := (· * ·)
  abs := Float.abs
  le := fun a b => a ≤ b
  eq := fun a b => a == b
  isFinite := Float.isFinite

end AF
