import AFModel.SamplesConv

/-!
# SamplesMore — further conversions, weights and the transformations applied to a sample list (C05)

Mirrors (hand-written; tied to the code by `harness/c05_more.py`):

* `Nautilus.samples_via_internal_from` (`search/nest/nautilus/search.py`)          → `nautilusConv`
* `UltraNest.samples_via_internal_from` (`search/nest/ultranest/search.py`)        → `ultranestConv`
* `Zeus.samples_via_internal_from` (`search/mcmc/zeus/search.py`)                  → `zeusConv`
* `sum(samples.weight_list)`                                                       → `weightSum`
* `Samples.samples_above_weight_threshold_from` (`samples/samples.py`)             → `aboveThreshold`
* `Samples.max_log_likelihood_sample` / `max_log_posterior_index` (`np.argmax`)    → `pickFirst`, `maxLLIdx`, `maxPostIdx`
* `Samples.minimise`                                                               → `minimise`
* `Sample.with_paths` / `Sample.without_paths` / `Samples.with_paths` / `without_paths`
                                                                                   → `withPathsK`, `withoutPathsK`

nautilus, ultranest and zeus are not installed where the check runs: the objects their conversions read
(`sampler.posterior()`, `results["weighted_samples"]`, `sampler.get_chain / get_log_prob`) are stand-ins
carrying generated arrays; what the real samplers guarantee about them is a hypothesis of the theorems.
-/

namespace AF.Samples

/-! ## nested samplers: Nautilus, UltraNest -/

/-- `parameters, log_weights, log_likelihoods = search_internal.posterior()`; weights `np.exp(log_weights)` -/
def nautilusConv {V} (o : SOps V) (prior : List V → V) (points : List (List V)) (logw logl : List V) :
    List (Sample V) :=
  fromLists points logl (points.map prior) (logw.map o.exp)

/-- `results["weighted_samples"]`: `points`, `logl`, `weights` are handed on as they are -/
def ultranestConv {V} (prior : List V → V) (points : List (List V)) (logl weights : List V) : List (Sample V) :=
  fromLists points logl (points.map prior) weights

/-! ## ensemble slice sampling: Zeus -/

structure ZCfg where
  /-- repaired behaviour (`fixes/C05-zeus-log-prob-same-slice.patch`): the log-probabilities are taken with the
  same `discard`/`thin` as the chain. `false` = pinned commit: `get_log_prob(flat=True)`, the whole un-thinned
  array, zipped from its start -/
  zeusSameSlice : Bool := true

/-- zeus `samples.chain[discard::thin]` over steps -/
def zeusSlice {α} (discard thin : Nat) (steps : List α) : List α := pySliceStep discard thin steps

/-- `Zeus.samples_via_internal_from`; `chain` is steps × walkers × parameters, `logp` steps × walkers; `flatP` /
`flatL` are the sampler's `flat=True` reshapes of the two arrays (the driver runs step-major and walker-major) -/
def zeusConv {V} (cfg : ZCfg) (o : SOps V) (prior : List V → V)
    (flatP : List (List (List V)) → List (List V)) (flatL : List (List V) → List V)
    (chain : List (List (List V))) (logp : List (List V)) (discard thin : Nat) : List (Sample V) :=
  let params := flatP (zeusSlice discard thin chain)
  let lps := params.map prior
  let posts := if cfg.zeusSameSlice then flatL (zeusSlice discard thin logp) else flatL logp
  let lls := subZip o posts lps
  fromLists params lls lps (ones o lls.length)

/-- column `j` of a steps × walkers array -/
def column {α} (j : Nat) (m : List (List α)) : List α := m.filterMap (fun row => row[j]?)

/-- walker-major (`order='F'`) flattening of a steps × walkers array with `w` walkers -/
def walkerMajor {α} (w : Nat) (m : List (List α)) : List α := (List.range w).flatMap (fun j => column j m)

/-! ## weights -/

/-- `sum(samples.weight_list)` -/
def weightSum {V} (o : SOps V) (ss : List (Sample V)) : V := ss.foldl (fun acc s => o.add acc s.w) o.zero

/-- `Samples.samples_above_weight_threshold_from(weight_threshold)`: `sample.weight > weight_threshold` -/
def aboveThreshold {V} (o : SOps V) (thr : V) (ss : List (Sample V)) : List (Sample V) :=
  ss.filter (fun s => o.lt thr s.w)

/-! ## arg-max loops -/

/-- one iteration of a "keep the first best" loop: `better b x` = the new element replaces the incumbent -/
def pickStep {α} (better : α → α → Bool) (best : Option α) (x : α) : Option α :=
  match best with
  | none => some x
  | some b => if better b x then some x else some b

def pickFirst {α} (better : α → α → Bool) (l : List α) : Option α := l.foldl (pickStep better) none

/-- `np.argmax` on doubles: a NaN is a maximum (the first one wins), otherwise the first largest entry -/
def npBetter {V} (o : SOps V) (nan : V → Bool) (b x : V) : Bool := !nan b && (nan x || o.lt b x)

/-- the sample `max_log_likelihood_sample` returns, with its position in the list -/
def maxLLIdx {V} (o : SOps V) (ss : List (Sample V)) : Option (Sample V × Nat) :=
  pickFirst (fun b s => o.lt b.1.ll s.1.ll) ss.zipIdx

/-- `sample_list[np.argmax(log_posterior_list)]` with its position -/
def maxPostIdx {V} (o : SOps V) (nan : V → Bool) (ss : List (Sample V)) : Option (Sample V × Nat) :=
  pickFirst (fun b s => npBetter o nan (b.1.post o) (s.1.post o)) ss.zipIdx

/-- `Samples.minimise`: `list({max_log_likelihood_sample, max_log_posterior_sample})` — a set of *objects*
(one element when both are the same entry of the list); the order of a two-element result is that of a Python
set of objects, i.e. unspecified: the model answers likelihood-first, the comparison is order-free.
`none` = the `ValueError` of `np.argmax([])` -/
def minimise {V} (o : SOps V) (nan : V → Bool) (ss : List (Sample V)) : Option (List (Sample V × Nat)) :=
  match maxLLIdx o ss, maxPostIdx o nan ss with
  | some a, some b => if a.2 = b.2 then some [a] else some [a, b]
  | _, _ => none

/-! ## samples keyed by path: `with_paths` / `without_paths` -/

/-- a `Sample` as stored: `kwargs` in insertion order -/
structure KSample (K V : Type) where
  kwargs : List (K × V)
  ll : V
  lp : V
  w : V
  deriving Repr, DecidableEq, Inhabited

/-- the stored form of a converted sample (`Sample.from_lists`: keys = `model.unique_prior_paths`) -/
def toK {K V} (keys : List K) (s : Sample V) : KSample K V := ⟨kwargsOf keys s.params, s.ll, s.lp, s.w⟩

/-- `all(first == second for first, second in zip(key, path))` (`zip` stops at the shorter one: a key that is
a proper prefix of the path matches as well) -/
def zipAllEq {A} [DecidableEq A] : List A → List A → Bool
  | a :: as, b :: bs => decide (a = b) && zipAllEq as bs
  | _, _ => true

def pathMatch {A} [DecidableEq A] (paths : List (List A)) (key : List A) : Bool := paths.any (zipAllEq key)

/-- `Sample.with_paths` -/
def withPathsK {A V} [DecidableEq A] (paths : List (List A)) (s : KSample (List A) V) : KSample (List A) V :=
  { s with kwargs := s.kwargs.filter (fun e => pathMatch paths e.1) }

/-- `Sample.without_paths` -/
def withoutPathsK {A V} [DecidableEq A] (paths : List (List A)) (s : KSample (List A) V) : KSample (List A) V :=
  { s with kwargs := s.kwargs.filter (fun e => !pathMatch paths e.1) }

/-- `max_log_likelihood_sample` of a keyed list -/
def maxSampleK {K V} (o : SOps V) (ss : List (KSample K V)) : Option (KSample K V) :=
  pickFirst (fun b s => o.lt b.ll s.ll) ss

end AF.Samples
