/-!
# Freeze — caching of model queries while frozen (C13)

Mirrors `autofit/mapper/model.py`: `frozen_cache`, `assert_not_frozen`, `AbstractModel.freeze /
unfreeze`, and the copy semantics of `__getstate__` (caches are not copied).

Nodes are the prior-model objects of one or several live models, numbered by identity. The topology
is data: `sub n` = the nodes `freeze/unfreeze` reach from `n` (n itself and everything below it
through direct model attributes), `anc n` = the nodes that reach `n` (its ancestors; a component
shared by two parents has both). `version n` counts the modifications made at or below `n`: what a
query on `n` answers is a function of the composition below `n`, i.e. of `version n`.
-/

namespace AF

structure Topo where
  sub : Nat → List Nat
  anc : Nat → List Nat

structure FState where
  frozen : Nat → Bool
  /-- version of the subtree the cached answers were computed from -/
  cache : Nat → Option Nat
  version : Nat → Nat

inductive FOp where
  /-- any cached query (`prior_count`, `paths`, `priors`, `instance_from_vector`, `info` …) -/
  | query (n : Nat)
  | freeze (n : Nat)
  | unfreeze (n : Nat)
  /-- assignment of a parameter or component on node `n` (also `append`, `remove`, `__setitem__`) -/
  | modify (n : Nat)
  /-- an operation that raises without changing the composition -/
  | failing (n : Nat)
  deriving Repr, Inhabited

inductive FOut where
  /-- the query was answered from the composition at this version -/
  | answered (version : Nat)
  | rejected
  | done
  deriving Repr, Inhabited, DecidableEq

def FState.init : FState := { frozen := fun _ => false, cache := fun _ => none, version := fun _ => 0 }

def fstep (T : Topo) (s : FState) : FOp → FState × FOut
  | .query n =>
      if s.frozen n then
        match s.cache n with
        | some v => (s, .answered v)
        | none => ({ s with cache := fun k => if k = n then some (s.version n) else s.cache k },
                   .answered (s.version n))
      else (s, .answered (s.version n))
  | .freeze n =>
      ({ s with frozen := fun k => if k ∈ T.sub n then true else s.frozen k }, .done)
  | .unfreeze n =>
      ({ s with frozen := fun k => if k ∈ T.sub n then false else s.frozen k,
                cache := fun k => if k ∈ T.sub n then none else s.cache k }, .done)
  | .modify n =>
      if s.frozen n then (s, .rejected)
      else ({ s with version := fun k => if k = n ∨ k ∈ T.anc n then s.version k + 1 else s.version k },
            .done)
  | .failing _ => (s, .done)

def frun (T : Topo) : FState → List FOp → FState × List FOut
  | s, [] => (s, [])
  | s, op :: rest =>
    let (s', o) := fstep T s op
    let (s'', os) := frun T s' rest
    (s'', o :: os)

/-- is this unfreeze one that keeps every frozen node's subtree frozen? (no node outside `sub n`
that is frozen reaches into `sub n`) -/
def unfreezeSafe (T : Topo) (s : FState) (n : Nat) : Bool :=
  (T.sub n).all (fun d => (T.anc d).all (fun a => a ∈ T.sub n || !s.frozen a))

end AF
