/-!
# Freeze — caching of model queries while frozen (C13)

Mirrors `autofit/mapper/model.py`: `frozen_cache`, `assert_not_frozen`, `AbstractModel.freeze /
unfreeze`, and the copy semantics of `__getstate__` (caches are not copied).

Nodes are the prior-model objects of one or several live models, numbered by identity. The topology
is data: `sub n` = the nodes `freeze/unfreeze` reach from `n` (n itself and everything below it
through direct model attributes), `anc n` = the nodes that reach `n` (its ancestors; a component
shared by two parents has both). `version n` counts the modifications made at or below `n`: what a
query on `n` answers is a function of the composition below `n`, i.e. of `version n`.
-/

namespace AF

structure Topo where
  sub : Nat → List Nat
  anc : Nat → List Nat

/-- one node's `_frozen_cache`: a dictionary from the key `(function name, self, *args, **kwargs)` — here a
number `q` standing for the cached function together with its arguments — to the stored answer, an
answer being identified by the function/arguments it was computed for and the version of the subtree
it was computed from. Python `dict` semantics: first entry with an equal key. -/
abbrev FCache := List (Nat × (Nat × Nat))

def FCache.lookup (c : FCache) (q : Nat) : Option (Nat × Nat) := (c.find? (·.1 == q)).map (·.2)

structure FState where
  frozen : Nat → Bool
  /-- per node: key ↦ (function/arguments the stored answer was computed for, version of the subtree) -/
  cache : Nat → FCache
  version : Nat → Nat

inductive FOp where
  /-- a cached query (`prior_count`, `paths`, `priors`, `instance_from_vector`, `info` …) on node `n`;
  `q` stands for the function together with its arguments (the cache key without `self`) -/
  | query (n : Nat) (q : Nat)
  | freeze (n : Nat)
  | unfreeze (n : Nat)
  /-- assignment of a parameter or component on node `n` (also `append`, `remove`, `__setitem__`) -/
  | modify (n : Nat)
  /-- an operation that raises without changing the composition -/
  | failing (n : Nat)
  deriving Repr, Inhabited

inductive FOut where
  /-- the query was answered with the answer of function/arguments `q` computed from the composition
  at this version -/
  | answered (q : Nat) (version : Nat)
  | rejected
  | done
  deriving Repr, Inhabited, DecidableEq

def FState.init : FState := { frozen := fun _ => false, cache := fun _ => [], version := fun _ => 0 }

def fstep (T : Topo) (s : FState) : FOp → FState × FOut
  | .query n q =>
      if s.frozen n then
        match (s.cache n).lookup q with
        | some (q', v) => (s, .answered q' v)
        | none => ({ s with cache := fun k => if k = n then s.cache n ++ [(q, (q, s.version n))] else s.cache k },
                   .answered q (s.version n))
      else (s, .answered q (s.version n))
  | .freeze n =>
      ({ s with frozen := fun k => if k ∈ T.sub n then true else s.frozen k }, .done)
  | .unfreeze n =>
      ({ s with frozen := fun k => if k ∈ T.sub n then false else s.frozen k,
                cache := fun k => if k ∈ T.sub n then [] else s.cache k }, .done)
  | .modify n =>
      if s.frozen n then (s, .rejected)
      else ({ s with version := fun k => if k = n ∨ k ∈ T.anc n then s.version k + 1 else s.version k },
            .done)
  | .failing _ => (s, .done)

def frun (T : Topo) : FState → List FOp → FState × List FOut
  | s, [] => (s, [])
  | s, op :: rest =>
    let (s', o) := fstep T s op
    let (s'', os) := frun T s' rest
    (s'', o :: os)

/-- is this unfreeze one that keeps every frozen node's subtree frozen? (no node outside `sub n`
that is frozen reaches into `sub n`) -/
def unfreezeSafe (T : Topo) (s : FState) (n : Nat) : Bool :=
  (T.sub n).all (fun d => (T.anc d).all (fun a => a ∈ T.sub n || !s.frozen a))

end AF
