import AFModel.GateComp

/-!
# GateRoute — the routes to an instance and their flags (C03)

| route | real API | length | limits | root assertions | assertions below |
|---|---|---|---|---|---|
| `vector`        | `instance_from_vector(v, ignore_prior_limits)`            | yes | unless ignoring | unless ignoring | unless ignoring |
| `unitVector`    | `instance_from_unit_vector(u, ignore_prior_limits)`       | yes | unless ignoring (inside `Prior.value_for`) | unless ignoring | unless ignoring |
| `medians`       | `instance_from_prior_medians(ignore_prior_limits)`        | –   | as `unitVector` | | |
| `random`        | `random_instance(ignore_prior_limits)`                    | –   | as `unitVector` (`Prior.random` → `value_for`) | | |
| `arguments`     | `instance_for_arguments(arguments, ignore_assertions)`    | –   | never | unless ignoring | unless ignoring |
| `pathArguments` | `instance_from_path_arguments` / `instance_from_prior_name_arguments` | – | never | **never** (calls `_instance_for_arguments` directly) | unless ignoring |

For the unit routes the vector handed to the model is the list of physical values `Prior.value_for`
maps the unit values to (C02's subject); for the argument routes it is the values in parameter order.
-/

namespace AF

inductive Route | vector | unitVector | medians | random | arguments | pathArguments
  deriving Repr, DecidableEq, Inhabited

/-- does the route compare the values with the limits, given the caller's flag? -/
def Route.checksLimits : Route → Bool → Bool
  | .arguments, _ | .pathArguments, _ => false
  | _, ignore => !ignore

/-- does the route run `check_assertions` on the root itself? -/
def Route.checksRoot : Route → Bool
  | .pathArguments => false
  | _ => true

/-- the recursion trees without the assertions of their root nodes (what `_instance_for_arguments`
called directly on the root visits) -/
def rootless {V} : List (ATree V) → List (ATree V)
  | [] => []
  | .node _ cs :: rest => .node [] cs :: rootless rest

def gateRoute {V} [Inhabited V] (ops : Ops V) (r : Route) (c : ANode V) (lims : List (V × V))
    (v : List V) (ignore : Bool) : Except GateErr (Inst V) :=
  if v.length ≠ count c.erase then .error .length
  else if r.checksLimits ignore && !limitsOk ops lims v then .error .priorLimit
  else if !ignore && !(checkTrees ops (valOf (argsOfVector c.erase v))
      (if r.checksRoot then c.trees else rootless c.trees)) then .error .fit
  else .ok (instFromVector ops c.erase v)

/-! ## how comparison operators build assertion objects, operands being objects or Python numbers

`x op y` with `x` an object (prior / expression) calls `ArithmeticMixin.__op__`; with `x` a Python
number and `y` an object Python calls the reflected method of `y` (`3.0 < p` is `p.__gt__(3.0)`),
which builds the same `lower`/`greater` pair; two numbers compare to a Python `bool`.
`(x op₁ y) op₂ z` calls `ComparisonAssertion.__op₂__`; `k op₂ (x op₁ y)` with `k` a number calls the
reflected method of the assertion. A third link would be applied to a `CompoundAssertion`, which has
no comparison methods: the supported fragment is one or two links. -/

inductive Opnd (V : Type) where
  /-- a prior, a compound or modified prior -/
  | obj (n : Node V)
  /-- a Python `float` -/
  | num (x : V)
  deriving Inhabited

def Opnd.node {V} : Opnd V → Node V
  | .obj n => n
  | .num x => .const x

def Opnd.isObj {V} : Opnd V → Bool
  | .obj _ => true
  | .num _ => false

def CmpOp.flip : CmpOp → CmpOp
  | .lt => .gt | .le => .ge | .gt => .lt | .ge => .le

/-- Python's comparison of two numbers -/
def cmpNum {V} (ops : Ops V) (a : V) (op : CmpOp) (b : V) : Bool :=
  match op with
  | .lt => ops.lt a b | .le => ops.le a b | .gt => ops.lt b a | .ge => ops.le b a

/-- `x op y` -/
def cmpOpnd {V} (ops : Ops V) (x : Opnd V) (op : CmpOp) (y : Opnd V) : Asrt V :=
  match x, y with
  | .num a, .num b => .lit (cmpNum ops a op b)
  | .obj n, _ => buildCmp n op y.node
  -- reflected: `y.__flip op__(x)`
  | .num a, .obj n => buildCmp n op.flip (.const a)

/-- `(assertion) op z` — `ComparisonAssertion.__lt__/__le__/__gt__/__ge__`; the operand the second
link continues from is an object or a number as it was given to the first link -/
def chainOpnd {V} (ops : Ops V) (x : Opnd V) (op₁ : CmpOp) (y : Opnd V) (op₂ : CmpOp) (z : Opnd V) : Asrt V :=
  match cmpOpnd ops x op₁ y with
  | .cmp s l g =>
      -- `_right` is `greater`, `_left` is `lower`; which of `x`, `y` that is depends on the direction
      let lowerO := if op₁.ascending then x else y
      let greaterO := if op₁.ascending then y else x
      .and (.cmp s l g) (if op₂.ascending then cmpOpnd ops greaterO op₂ z else cmpOpnd ops lowerO op₂ z)
  | a => a

/-- `k op₁ (x op₂ y)` with `k` a number: the reflected method of the assertion, `(x op₂ y) flip(op₁) k` -/
def reflOpnd {V} (ops : Ops V) (k : V) (op₁ : CmpOp) (x : Opnd V) (op₂ : CmpOp) (y : Opnd V) : Asrt V :=
  chainOpnd ops x op₂ y op₁.flip (.num k)

end AF
