import AFModel.Gate

/-!
# Fitness — the figure of merit handed to a search (C04)

Mirrors `autofit/non_linear/fitness.py: Fitness.__call__` and
`FitnessPySwarms.__call__` (`search/mle/pyswarms/search/abstract.py`).
The user's likelihood is a parameter: its outcome for the call (`Outcome`).
-/

namespace AF

/-- arithmetic used to assemble a figure of merit -/
structure FomOps (V : Type) where
  add : V → V → V
  /-- `x * -2.0` -/
  mulNeg2 : V → V
  zero : V
  isNaN : V → Bool

/-- what the user's `log_likelihood_function` does on the instance -/
inductive Outcome (V : Type) where
  | fin (x : V)        -- returns a number that is not NaN
  | nan                -- returns NaN
  | raisesFit          -- raises `FitException`
  | raisesOther        -- raises anything else
  deriving Inhabited

structure FitCfg (V : Type) where
  fomIsLL : Bool
  convertChi : Bool
  storeHistory : Bool
  resample : V

structure FitSt (V : Type) where
  params : List (List V) := []
  lls : List V := []

inductive CallResult (V : Type) where
  | value (x : V)
  | raises
  deriving Inhabited

/-- Python's `sum(log_prior_list)`: left fold from 0 -/
def pySum {V} (fo : FomOps V) (l : List V) : V := l.foldl fo.add fo.zero

/-- one call `fitness(parameters)`.
`g` = `model.instance_from_vector` (C03's `gate` partially applied), `lp` = `log_prior_list_from_vector`. -/
def fitnessCall {V} (fo : FomOps V) (cfg : FitCfg V) (g : List V → Except GateErr (Inst V))
    (lp : List V → List V) (st : FitSt V) (v : List V) (o : Outcome V) : CallResult V × FitSt V :=
  match g v with
  | .error .length => (.raises, st)                       -- AssertionError is not a FitException
  | .error _ => (.value cfg.resample, st)                  -- PriorLimitException / FitException
  | .ok _ =>
    match o with
    | .raisesOther => (.raises, st)
    | .raisesFit => (.value cfg.resample, st)
    | .nan => (.value cfg.resample, st)
    | .fin ll =>
      let fom := if cfg.fomIsLL then ll else fo.add ll (pySum fo (lp v))
      let st' : FitSt V := if cfg.storeHistory then { params := st.params ++ [v], lls := st.lls ++ [ll] } else st
      (.value (if cfg.convertChi then fo.mulNeg2 fom else fom), st')

/-- a sequence of calls on one `Fitness` object -/
def runCalls {V} (fo : FomOps V) (cfg : FitCfg V) (g : List V → Except GateErr (Inst V))
    (lp : List V → List V) : FitSt V → List (List V × Outcome V) → List (CallResult V) × FitSt V
  | st, [] => ([], st)
  | st, (v, o) :: rest =>
    let (r, st') := fitnessCall fo cfg g lp st v o
    let (rs, st'') := runCalls fo cfg g lp st' rest
    (r :: rs, st'')

/-- did this call evaluate successfully (instance built, likelihood finite or ±inf, not NaN)? -/
def succeeded {V} (g : List V → Except GateErr (Inst V)) (c : List V × Outcome V) : Bool :=
  match g c.1, c.2 with
  | .ok _, .fin _ => true
  | _, _ => false

def llOf {V} [Inhabited V] (c : List V × Outcome V) : V :=
  match c.2 with
  | .fin x => x
  | _ => default

/-- `FitnessPySwarms.__call__` for one particle: always posterior, always `* -2`,
failure / NaN ⇒ `-2 * resample` -/
def pyswarmsParticle {V} (fo : FomOps V) (cfg : FitCfg V) (g : List V → Except GateErr (Inst V))
    (lp : List V → List V) (v : List V) (o : Outcome V) : CallResult V :=
  match g v with
  | .error .length => .raises
  | .error _ => .value (fo.mulNeg2 cfg.resample)
  | .ok _ =>
    match o with
    | .raisesOther => .raises
    | .raisesFit => .value (fo.mulNeg2 cfg.resample)
    | .nan => .value (fo.mulNeg2 cfg.resample)
    | .fin ll =>
      let fom := fo.mulNeg2 (fo.add ll (pySum fo (lp v)))
      if fo.isNaN fom then .value (fo.mulNeg2 cfg.resample) else .value fom

def pyswarmsBatch {V} (fo : FomOps V) (cfg : FitCfg V) (g : List V → Except GateErr (Inst V))
    (lp : List V → List V) (ps : List (List V × Outcome V)) : List (CallResult V) :=
  ps.map (fun c => pyswarmsParticle fo cfg g lp c.1 c.2)

end AF
