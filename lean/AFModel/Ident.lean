/-!
# Ident — the token list behind a fit identifier (C07)

Mirrors `autofit/mapper/identifier.py: Identifier._add_value_to_hash_list`. The identifier is
`md5(".".join(hash_list))`; the model produces the `hash_list` (md5 is outside Lean: identifiers
are compared as pre-image token lists).

`PyVal` is a dumb reflection of the Python object graph produced by `harness/c07.py`
(class name, whether it is a `ModelObject`, `__identifier_fields__` values, constructor argument
names, `__exclude_identifier_fields__`, `__dict__` items); *which* of these enter the identifier is
decided here, as in the code. Floats carry their 1e-8-quantised value as a token `F:<bits>`.
-/

namespace AF

inductive PyVal where
  /-- a class object: its class path -/
  | cls (path : String)
  /-- any object with a `__dict__` -/
  | obj (clsName : String) (isModelObject : Bool) (idFields : Option (List (String × PyVal)))
        (ctorArgs : List String) (exclude : Option (List String)) (dict : List (String × PyVal))
  | dict (items : List (String × PyVal))
  /-- a float (IEEE bits) -/
  | float (bits : UInt64)
  | str (s : String)
  | int (i : Int)
  | bool (b : Bool)
  /-- `None`, and anything that is neither of the above nor iterable: contributes nothing -/
  | none
  | iter (items : List PyVal)
  deriving Inhabited

/-- Python's `round(x)` for a float: nearest integer, ties to even -/
def roundHalfEven (x : Float) : Float :=
  let f := x.floor
  let d := x - f
  if d < 0.5 then f
  else if d > 0.5 then f + 1
  else if (f / 2).floor * 2 == f then f else f + 1

/-- `RESOLUTION * round(value / RESOLUTION)` with `RESOLUTION = 1e-8` -/
def quantize (x : Float) : Float :=
  let r := roundHalfEven (x / 1e-8)
  -- `round` returns a Python int: a zero has no sign
  1e-8 * (if r == 0 then 0.0 else r)

def hexDigits (n : Nat) : Nat → List Char → List Char
  | 0, acc => acc
  | k + 1, acc =>
    let d := n % 16
    hexDigits (n / 16) k ((if d < 10 then Char.ofNat (48 + d) else Char.ofNat (87 + d)) :: acc)

/-- the token of a float: its 1e-8 class representative, written as the bits of that double
(the code writes `str(...)` of the same double; the harness compares `float(token)` bit-exactly) -/
def floatToken (bits : UInt64) : String :=
  let q := quantize (Float.ofBits bits)
  if q.isNaN then "F:nan" else "F:" ++ String.ofList (hexDigits q.toBits.toNat 16 [])

/-- keys that never enter the identifier -/
def skipKey (k : String) : Bool := k.startsWith "_" || k == "id" || k == "paths"

/-- which `__dict__` entries of an object without `__identifier_fields__` enter: all of them for a
`ModelObject`; otherwise the constructor-argument attributes minus excluded ones -/
def keepField (isModelObject : Bool) (ctorArgs : List String) (exclude : Option (List String))
    (k : String) : Bool :=
  if isModelObject then true
  else ctorArgs.contains k && (match exclude with
    | some ex => !ex.contains k
    | none => true)

mutual
def tokens : PyVal → List String
  | .cls path => [path]
  | .obj clsName mo idf ctor ex d =>
      clsName :: (match idf with
        | some fs => tokensFields (fun _ => true) fs
        | none => tokensFields (keepField mo ctor ex) d)
  | .dict items => tokensFields (fun _ => true) items
  | .float b => [floatToken b]
  | .str s => [s]
  | .int i => [toString i]
  | .bool b => [if b then "True" else "False"]
  | .none => []
  | .iter items => tokensList items
/-- the `dict` branch: for each kept key that is not private / `id` / `paths`: the key, then the value -/
def tokensFields (keep : String → Bool) : List (String × PyVal) → List String
  | [] => []
  | (k, v) :: rest =>
      (if keep k && !skipKey k then k :: tokens v else []) ++ tokensFields keep rest
def tokensList : List PyVal → List String
  | [] => []
  | v :: rest => tokens v ++ tokensList rest
end

/-- `".".join(hash_list)` -/
def joinTokens (l : List String) : String := ".".intercalate l

end AF
