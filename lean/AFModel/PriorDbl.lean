import AFModel.Prior

/-!
# Doubles as data: the gate / rounding / clamp layer of `Prior.value_for` inside the logic (property C02)

`Float` comparisons and arithmetic are opaque to the logic (only closed terms can be evaluated), so no
for-all statement about `finish floatSpecial …` can be proved. This file models a double as *data*
(`Dbl`: sign and the 63 magnitude bits) with the IEEE-754 order defined on it, and the part of
`UniformPrior.value_for` / `Prior.value_for` that needs no floating-point arithmetic - the limit gate
(`<=`), CPython's `round(x, n)` (exact integer arithmetic) and the `min(max(…))` clamp - as total functions
on that data. `AFModel/PriorFloat.lean` defines the `Float` rounding `pyRound` *through* `pyRoundD`, the
driver runs `finishD` next to `finish` on every gated value and the harness compares both with the real code
bit for bit.

* `Dbl.exact` : the exact value of a finite double in units of `2^-1074` (an integer).
* `Dbl` order : `a ≤ b` iff neither is NaN and `key a ≤ key b` (`key` = signed magnitude bits; `-0 = +0`);
  `AFProofs/Lemmas/PriorDbl.lean` proves it is the order of the exact values.
* `nearestBits num den` : magnitude bits of the double nearest to `num / den` (ties to even, overflow to
  infinity).
* `pyRoundD n x` : CPython `round(x, n)`: the exact value is rounded half-even to `n` decimals and the
  decimal is converted to the nearest double.
-/

namespace AF.Prior

/-- `num / den` rounded to the nearest integer, ties to even (`den > 0`) -/
def divRoundHalfEven (num den : Nat) : Nat :=
  let q := num / den
  let r := num % den
  if 2 * r > den ∨ (2 * r = den ∧ q % 2 = 1) then q + 1 else q

/-- a double as data: sign bit and the 63 bits of exponent and fraction -/
structure Dbl where
  neg : Bool
  mag : Nat
  deriving DecidableEq, Repr, Inhabited

/-- magnitude bits of `inf` -/
def infMag : Nat := 2047 * 2 ^ 52

namespace Dbl

def isNaN (x : Dbl) : Bool := decide (infMag < x.mag)

def isFinite (x : Dbl) : Bool := decide (x.mag < infMag)

/-- order-preserving integer code of a non-NaN double -/
def key (x : Dbl) : Int := if x.neg then -(x.mag : Int) else (x.mag : Int)

/-- IEEE `<=`: false when either side is NaN, `-0 <= +0 <= -0` -/
instance : LE Dbl := ⟨fun a b => a.isNaN = false ∧ b.isNaN = false ∧ a.key ≤ b.key⟩

/-- IEEE `<` -/
instance : LT Dbl := ⟨fun a b => a.isNaN = false ∧ b.isNaN = false ∧ a.key < b.key⟩

instance : DecidableLE Dbl := fun a b =>
  inferInstanceAs (Decidable (a.isNaN = false ∧ b.isNaN = false ∧ a.key ≤ b.key))

instance : DecidableLT Dbl := fun a b =>
  inferInstanceAs (Decidable (a.isNaN = false ∧ b.isNaN = false ∧ a.key < b.key))

/-- `|x| * 2^1074` for the magnitude bits of a finite double: `frac` for subnormals,
`(2^52 + frac) * 2^(biased exponent - 1)` for normals -/
def magVal (mag : Nat) : Nat :=
  let ex := mag / 2 ^ 52
  let frac := mag % 2 ^ 52
  if ex = 0 then frac else (frac + 2 ^ 52) * 2 ^ (ex - 1)

/-- exact value of a finite double, in units of `2^-1074` -/
def exact (x : Dbl) : Int := if x.neg then -(magVal x.mag : Int) else (magVal x.mag : Int)

def ofBits (b : Nat) : Dbl := ⟨decide (2 ^ 63 ≤ b % 2 ^ 64), b % 2 ^ 63⟩

def toBits (x : Dbl) : Nat := if x.neg then 2 ^ 63 + x.mag else x.mag

def ofFloat (x : Float) : Dbl := ofBits x.toBits.toNat

def toFloat (x : Dbl) : Float := Float.ofBits x.toBits.toUInt64

end Dbl

/-- magnitude bits of the double nearest to `num / den` (ties to even; `inf` on overflow).
With `N = num * 2^1074` the quotient `N / den` is the value in units of the smallest subnormal; `s` is the
biased exponent minus one (0 in the subnormal range), `q` the 53-bit significand; a significand that
rounds up to `2^53` lands on the first number of the next binade by the same formula. -/
def nearestBits (num den : Nat) : Nat :=
  if den = 0 then 0
  else
    let N := num * 2 ^ 1074
    let s := (N / den).log2 - 52
    let q := divRoundHalfEven N (den * 2 ^ s)
    let b := s * 2 ^ 52 + q
    if b < infMag then b else infMag

/-- magnitude bits of CPython `round(x, n)` from those of `x` -/
def roundMag (n : Nat) (mag : Nat) : Nat :=
  if infMag ≤ mag then mag
  else
    let k := divRoundHalfEven (Dbl.magVal mag * 10 ^ n) (2 ^ 1074)
    nearestBits k (10 ^ n)

/-- CPython `round(x, n)` for a double (`0 ≤ n`; infinities and NaN are returned unchanged) -/
def pyRoundD (n : Nat) (x : Dbl) : Dbl := ⟨x.neg, roundMag n x.mag⟩

/-- what the repaired `UniformPrior.value_for` does to the gated value, `places = _decimal_places` -/
def uniformPostD (ignore : Bool) (places : Nat) (L U v : Dbl) : Dbl :=
  let r := pyRoundD places v
  if ignore then r else clamp L U r

/-- the part of `value_for` after `message.value_for` on doubles as data: the limit gate, then - uniform
prior only - rounding and clamp (the same `gate` and `clamp` as `finish`, at the number type `Dbl`) -/
def finishD (uniform : Bool) (ignore : Bool) (places : Nat) (L U raw : Dbl) : Outcome Dbl :=
  match gate ignore L U raw with
  | .limit => .limit
  | .ok v => if uniform then .ok (uniformPostD ignore places L U v) else .ok v

end AF.Prior
