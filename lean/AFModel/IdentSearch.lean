import AFModel.Ident
import AFModel.IdentComp
import AFModel.Generated.C07

/-!
# IdentSearch — which settings identify a search (C07)

The table `Generated.C07.searchTable` is regenerated from the repository source on every run
(`harness/tables_c07.py`): for every search class its `__identifier_fields__` and its other settings.
`searchVal row σ` is the reflection of a search object of that class whose settings are `σ`; the driver
computes `tokens (searchVal row σ)` for every generated search and the harness compares it with
`Identifier(search).hash_list`. `priorFieldNames` ties the hand-written prior kinds of `IdentComp.lean` to
the generated `priorTable`. Core Lean only.
-/

namespace AF
open AF.Generated.C07

/-- a search object: class name, identifier fields read with `getattr`, the rest in its `__dict__` -/
def searchVal (row : SearchRow) (σ : String → PyVal) : PyVal :=
  .obj row.name false (some (row.idf.map (fun f => (f, σ f)))) row.others none (row.others.map (fun f => (f, σ f)))

def lookupRow (name : String) : Option SearchRow := searchTable.find? (fun r => r.name == name)

/-- settings given as a list; an absent setting is `None` -/
def settingsOf (l : List (String × PyVal)) (f : String) : PyVal :=
  match l.find? (fun kv => kv.1 == f) with
  | some kv => kv.2
  | none => .none

/-- the names of the identifier fields the composition model gives a prior kind -/
def priorFieldNames (k : PriorKind) : List String := (priorIdFields k 0 0 0 0).map (·.1)

def allKinds : List PriorKind := [.uniform, .logUniform, .gaussian, .logGaussian]

end AF
