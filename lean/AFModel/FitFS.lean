/-!
# FitFS — the on-disk life of one fit (C06)

What `NonLinearSearch.fit` does to the files that decide how the *next* call of `fit` behaves.

* State: for every relevant file of the output folder whether it is absent, a partially written file
  or complete (`full g`, `g` naming the content: the sampling round that produced it), plus the status
  of `<identifier>.zip` (absent, truncated, or complete with the folder content it archived).
* `run cfg st n fs` is the list of file-system steps one call of `fit` performs from state `fs` (the
  sampler needing `n` intermediate updates) and how the call ends: a result, or an exception.
* A crash is a prefix of that list; a crash inside a non-atomic write leaves the file partial
  (`crashStates`).  A history is a sequence of runs, each optionally killed at some point (`exec`).

`Cfg` holds one flag per repair made to the library; `false` is the behaviour of the pinned commit.

Mirrors `NonLinearSearch.fit / pre_fit_output / start_resume_fit / result_via_completed_fit /
post_fit_output / perform_update`, `AbstractPaths.restore / _zip`, `tools.util.zip_directory`,
`DirectoryPaths.save_json / save_search_internal / completed / samples`, `Timer.start / update`,
`Fitness.check_log_likelihood`, and the checkpoint handling of `Drawer`, `AbstractBFGS`, `AbstractDynesty`.
-/

namespace AF.FitFS

/-- status of one file; `g` names the content -/
inductive St where
  | absent
  | torn
  | full (g : Nat)
  deriving DecidableEq, Repr, Inhabited

def St.isFull : St → Bool
  | .full _ => true
  | _ => false

/-- the files of the output folder that some later call of `fit` reads -/
inductive File where
  | marker    -- `.completed`
  | summary   -- `files/samples_summary.json`
  | info      -- `files/samples_info.json`
  | samples   -- `files/samples.csv`
  | internal  -- `files/search_internal/search_internal.dill`
  | save      -- `files/search_internal/savestate.save` (dynesty checkpoint)
  | start     -- `files/search_internal/.start_time`
  | time      -- `files/search_internal/.time`
  deriving DecidableEq, Repr, Inhabited

def allFiles : List File :=
  [.marker, .summary, .info, .samples, .internal, .save, .start, .time]

abbrev Folder := File → St

def Folder.empty : Folder := fun _ => .absent

def Folder.set (fo : Folder) (f : File) (s : St) : Folder :=
  fun f' => if f' = f then s else fo f'

inductive Zip where
  | absent
  | torn
  | full (content : Folder)

structure FS where
  folder : Folder
  zip : Zip
  /-- number of sampling rounds so far; names new contents -/
  clock : Nat

def FS.init : FS := ⟨Folder.empty, .absent, 0⟩

inductive Search where
  | drawer | lbfgs | dynesty
  deriving DecidableEq, Repr, Inhabited

/-- output settings and what the search is -/
structure Settings where
  removeFiles : Bool      -- general.yaml output.remove_files
  samplesCsv : Bool       -- general.yaml output.samples_to_csv
  keepInternal : Bool     -- output.yaml search_internal
  search : Search
  /-- the number the search maximises is the log likelihood itself for this model
      (nested samplers; `Drawer` when all log priors are 0; never for BFGS, which minimises −2·posterior) -/
  fomIsLikelihood : Bool
  deriving DecidableEq, Repr

/-- repairs: `true` = repaired behaviour, `false` = pinned commit -/
structure Cfg where
  zipAtomic : Bool          -- archive built beside its name and moved into place
  restoreValidates : Bool   -- archive opened before the folder is deleted
  atomicWrites : Bool       -- summary / info / search internal / timer files replaced atomically
  fomCheckSound : Bool      -- resume sanity check recomputes a log likelihood
  lbfgsResumes : Bool       -- BFGS reads the keys its checkpoint has
  deriving DecidableEq, Repr

def Cfg.repaired : Cfg := ⟨true, true, true, true, true⟩
def Cfg.pinned : Cfg := ⟨false, false, false, false, false⟩

inductive Step where
  /-- write file `f` with content `s`; `atomic` = through a temporary file and `os.replace` -/
  | put (f : File) (s : St) (atomic : Bool)
  | remove (f : File)
  /-- `<id>.zip` opened for writing in place -/
  | zipOpen
  /-- `<id>.zip` is complete and holds the folder as it is now (close of the in-place write /
  `os.replace` of the temporary archive; nothing else touches the folder while it is archived) -/
  | zipClose
  | zipRemove
  /-- likelihood evaluations of one sampling round -/
  | sample
  /-- directory operations and files no later `fit` reads -/
  | other (tag : String)

def apply (fs : FS) : Step → FS
  | .put f s _ => { fs with folder := fs.folder.set f s }
  | .remove f => { fs with folder := fs.folder.set f .absent }
  | .zipOpen => { fs with zip := .torn }
  | .zipClose => { fs with zip := .full fs.folder }
  | .zipRemove => { fs with zip := .absent }
  | .sample => { fs with clock := fs.clock + 1 }
  | .other _ => fs

def applyAll (fs : FS) : List Step → FS
  | [] => fs
  | s :: l => applyAll (apply fs s) l

/-- the state left by a kill inside step `s` (`none`: the step is one system call) -/
def crashIn (fs : FS) : Step → Option FS
  | .put f _ false => some { fs with folder := fs.folder.set f .torn }
  | _ => none

/-- every state a kill during the execution of `l` from `fs` can leave (first = `fs`, last = all done) -/
def crashStates (fs : FS) : List Step → List FS
  | [] => [fs]
  | s :: l => fs :: ((crashIn fs s).toList ++ crashStates (apply fs s) l)

/-! ### what a call returns -/

/-- the persisted result: content of the summary, and of samples table + its info if both exist -/
structure View where
  summary : Nat
  samples : Option (Nat × Nat)
  deriving DecidableEq, Repr

inductive Err where
  | badZip | jsonDecode | valueError | fomMismatch | keyError | unpickle | notFound | badTable
  deriving DecidableEq, Repr

inductive Outcome where
  | ok (r : View)
  | raises (e : Err)
  deriving DecidableEq, Repr

structure Run where
  steps : List Step
  outcome : Outcome

/-- `load_samples_summary` then `paths.samples` (missing table or info: samples are `None`) -/
def readResult (fo : Folder) : Except Err View :=
  match fo .summary with
  | .absent => .error .notFound
  | .torn => .error .jsonDecode
  | .full g =>
    match fo .samples with
    | .absent => .ok ⟨g, none⟩
    | .torn => .error .badTable
    | .full s =>
      match fo .info with
      | .absent => .ok ⟨g, none⟩
      | .torn => .error .jsonDecode
      | .full i => .ok ⟨g, some (s, i)⟩

/-- the result a folder holds if it is marked complete -/
def folderResult (fo : Folder) : Option View :=
  if fo .marker = .absent then none
  else match readResult fo with
    | .ok r => some r
    | .error _ => none

/-- the completed result reachable through `restore`: the archive's if there is one -/
def completedResult (fs : FS) : Option View :=
  match fs.zip with
  | .full c => folderResult c
  | .absent => folderResult fs.folder
  | .torn => none

/-! ### the invariant -/

/-- a folder from which `fit` can continue: no half-written file among those a resumed or completed
fit reads, and a marker only on top of a complete summary -/
def goodFolder (st : Settings) (fo : Folder) : Bool :=
  fo .summary != .torn && fo .info != .torn && fo .internal != .torn &&
  fo .save != .torn && fo .start != .torn && fo .time != .torn &&
  (fo .samples != .torn || (st.samplesCsv && fo .marker == .absent)) &&
  (fo .marker == .absent || (fo .summary).isFull)

/-- crash-safe states: a complete archive of a good folder (whatever the folder beside it looks
like), or no archive and a good folder -/
def safe (st : Settings) (fs : FS) : Bool :=
  match fs.zip with
  | .full c => goodFolder st c
  | .absent => goodFolder st fs.folder
  | .torn => false

/-- the repairs the crash-safety theorems need for a given search -/
def Cfg.sound (cfg : Cfg) (st : Settings) : Bool :=
  cfg.zipAtomic && cfg.atomicWrites && (cfg.fomCheckSound || st.fomIsLikelihood) &&
  (cfg.lbfgsResumes || st.search != .lbfgs)

/-! ### phases of `fit` -/

/-- removal of a list of files (removing an absent file changes nothing: the driver marks it `noop`) -/
def rmList (l : List File) : List Step := l.map Step.remove

/-- `shutil.rmtree(output_path)` -/
def rmFolder : List Step := rmList allFiles ++ [.other "rmdir"]

def extractList (c : Folder) : List File → List Step
  | [] => []
  | f :: l => (if c f = .absent then [] else [Step.put f (c f) false]) ++ extractList c l

/-- `ZipFile.extractall` -/
def extract (c : Folder) : List Step := .other "mkdir" :: extractList c allFiles

/-- `paths.restore()` -/
def restore (cfg : Cfg) (fs : FS) : List Step × Option Err :=
  match fs.zip with
  | .absent => ([], none)
  | .torn =>
    if cfg.restoreValidates then ([], some .badZip) else (rmFolder, some .badZip)
  | .full c => (rmFolder ++ extract c ++ [.zipRemove], none)

/-- `Timer.start` -/
def timerStart (cfg : Cfg) (fo : Folder) : List Step × Option Err :=
  match fo .start with
  | .torn => ([], some .valueError)
  | .full _ => ([], none)
  | .absent => ([.put .start (.full 0) cfg.atomicWrites], none)

/-- `Fitness.check_log_likelihood` (runs in the constructor of `Fitness`) -/
def likelihoodCheck (cfg : Cfg) (st : Settings) (fo : Folder) : Option Err :=
  match fo .summary with
  | .torn => some .jsonDecode
  | .absent => none
  | .full _ => if cfg.fomCheckSound || st.fomIsLikelihood then none else some .fomMismatch

/-- what the search does with the checkpoint it finds -/
def checkpoint (cfg : Cfg) (st : Settings) (fo : Folder) : Option Err :=
  match st.search with
  | .drawer => none
  | .lbfgs =>
    match fo .internal with
    | .absent => none
    | .torn => some .unpickle
    | .full _ => if cfg.lbfgsResumes then none else some .keyError
  | .dynesty =>
    match fo .save with
    | .absent => none
    | .torn => some .unpickle
    | .full _ => none

def ckptFile : Search → File
  | .dynesty => .save
  | _ => .internal

def ckptAtomic (cfg : Cfg) : Search → Bool
  | .dynesty => true
  | _ => cfg.atomicWrites

/-- one sampling round followed by its checkpoint -/
def round (cfg : Cfg) (st : Settings) (g : Nat) : List Step :=
  [.sample, .put (ckptFile st.search) (.full g) (ckptAtomic cfg st.search)]

/-- the files `perform_update` writes before the text summaries -/
def updateFiles (cfg : Cfg) (st : Settings) (g : Nat) : List Step :=
  [.put .time (.full g) cfg.atomicWrites, .put .summary (.full g) cfg.atomicWrites] ++
  (if st.samplesCsv then [.put .info (.full g) cfg.atomicWrites, .put .samples (.full g) false] else [])

/-- `perform_update` -/
def update (cfg : Cfg) (st : Settings) (g : Nat) : List Step :=
  updateFiles cfg st g ++ [.other "results"]

/-- `k` rounds each followed by an intermediate update -/
def during (cfg : Cfg) (st : Settings) (g : Nat) : Nat → List Step
  | 0 => []
  | k + 1 => round cfg st g ++ update cfg st g ++ during cfg st (g + 1) k

def rounds (st : Settings) (n : Nat) : Nat :=
  match st.search with
  | .drawer => 0
  | _ => n

/-- `_fit` + final `perform_update` + `paths.completed()` -/
def sampling (cfg : Cfg) (st : Settings) (n : Nat) (g0 : Nat) : List Step :=
  let k := rounds st n
  during cfg st g0 k ++ round cfg st (g0 + k) ++
  (if st.search = .dynesty then [Step.remove .save] else []) ++
  update cfg st (g0 + k) ++ [.put .marker (.full 0) true]

/-- `post_fit_output`: search internal removed or saved, archive written, folder removed -/
def zipIt (cfg : Cfg) (st : Settings) : List Step :=
  (if cfg.zipAtomic then [.other "zip.tmp", .zipClose] else [.zipOpen, .zipClose]) ++
  (if st.removeFiles then rmFolder else [])

def postFit (cfg : Cfg) (st : Settings) (fo : Folder) : List Step × Option Err :=
  if st.keepInternal then
    match fo .internal with
    | .torn => ([], some .unpickle)
    | _ =>
      -- the object is dumped again (loaded from the file if it is not in memory; `None` if there is none)
      (Step.put .internal (.full 0) cfg.atomicWrites :: zipIt cfg st, none)
  else
    (rmList [.internal, .save, .start, .time] ++ [.other "rmdir-internal"] ++ zipIt cfg st, none)

def finish (cfg : Cfg) (st : Settings) (before : List Step) (fo : Folder) : Run :=
  match readResult fo with
  | .error e => ⟨before, .raises e⟩
  | .ok r =>
    match postFit cfg st fo with
    | (s, some e) => ⟨before ++ s, .raises e⟩
    | (s, none) => ⟨before ++ s, .ok r⟩

/-- `result_via_completed_fit` + `post_fit_output` -/
def completedPath (cfg : Cfg) (st : Settings) (fs : FS) : Run :=
  finish cfg st [] fs.folder

/-- `pre_fit_output` + `start_resume_fit` + `post_fit_output` -/
def resumePath (cfg : Cfg) (st : Settings) (n : Nat) (fs : FS) : Run :=
  let fo := fs.folder
  let pre : List Step := [.other "prefit"]
  match timerStart cfg fo with
  | (s, some e) => ⟨pre ++ s, .raises e⟩
  | (sT, none) =>
    match likelihoodCheck cfg st fo with
    | some e => ⟨pre ++ sT, .raises e⟩
    | none =>
      match checkpoint cfg st fo with
      | some e => ⟨pre ++ sT, .raises e⟩
      | none =>
        let g0 := fs.clock + 1
        if st.search = .drawer ∧ fo .time = .torn then
          -- `Drawer` reads the previous `.time` and formats it in `save_summary`
          ⟨pre ++ sT ++ round cfg st g0 ++ updateFiles cfg st g0, .raises .valueError⟩
        else
          let steps := pre ++ sT ++ sampling cfg st n g0
          finish cfg st steps (applyAll fs steps).folder

/-- one call of `search.fit` -/
def run (cfg : Cfg) (st : Settings) (n : Nat) (fs : FS) : Run :=
  match restore cfg fs with
  | (s, some e) => ⟨s, .raises e⟩
  | (s, none) =>
    let fs1 := applyAll fs s
    let r := if fs1.folder .marker = .absent then resumePath cfg st n fs1 else completedPath cfg st fs1
    ⟨s ++ r.steps, r.outcome⟩

def Run.final (r : Run) (fs : FS) : FS := applyAll fs r.steps

def sampled (l : List Step) : Bool :=
  l.any fun s => match s with
    | .sample => true
    | _ => false

/-! ### histories -/

/-- one call of `fit` with `n` intermediate updates; `kill = some k`: the process dies in the `k`-th
crash state of the call (beyond the last: it finishes) -/
structure Event where
  n : Nat
  kill : Option Nat

def stepEvent (cfg : Cfg) (st : Settings) (fs : FS) (e : Event) : FS :=
  let r := run cfg st e.n fs
  match e.kill with
  | none => r.final fs
  | some k => ((crashStates fs r.steps)[k]?).getD (r.final fs)

def exec (cfg : Cfg) (st : Settings) (fs : FS) : List Event → FS
  | [] => fs
  | e :: h => exec cfg st (stepEvent cfg st fs e) h

end AF.FitFS
