/-!
# Interp — executable model of `autofit.interpolator` (property C20)

Mirrors (hand-written, tied to the code by the correspondence harness `harness/c20.py`):

* `autofit.mapper.model.path_instances_of_class(obj, float)`            → `floatPaths`
* `ModelInstance.object_for_path` / `InterpolatorPath.get_value`        → `getPath`
* `ModelObject.replacing_for_path` (deep copy, then `setattr`/`[]=`)    → `setPath`
* `AbstractInterpolator._value_map` (a `dict`: the last instance with an abscissa wins),
  `sorted(value_map)`                                                   → `pairs`, `lookupLast`, `sortedKeys`
* `AbstractInterpolator.__getitem__`                                    → `getitem`
* `LinearInterpolator._interpolate` (`scipy.stats.linregress`, least squares over all points)
                                                                         → `lsq` (closed form, exact over `Rat`)
* `SplineInterpolator._interpolate` is a *parameter* `f` of `getitem` (the driver receives
  scipy's values as a finite table, `tableF`): only the plumbing is modelled.

Numbers are exact rationals (`Rat`): every finite double is one, so data movement is exact and the
least-squares statements are statements about the real-number value the float code approximates.
Core Lean only.
-/

namespace AF.Interp

/-- one step of a path: attribute name (`getattr`) or list index (`[]`) -/
inductive Key where
  | s (name : String)
  | i (idx : Nat)
  deriving DecidableEq, Repr, Inhabited

abbrev IPath := List Key

/-- An instance tree as the interpolator sees it. `attrs` is the public `__dict__` in insertion
order (keys starting with `_`, and the `None` id of a `ModelInstance`, removed by the extractor). -/
inductive Val where
  /-- a Python `float` (incl. `numpy.float64`) -/
  | num (v : Rat)
  /-- a Python `int`: not a `float` for the walk, but usable as abscissa -/
  | int (n : Int)
  /-- `str`, `None`, `bool`, `ndarray` …: carried, never entered -/
  | opaque (tag : String)
  /-- object with string attribute names: `ModelInstance` built from a `dict`, or a user class -/
  | obj (cls : String) (attrs : List (String × Val))
  /-- Python `list` attribute: entered by index -/
  | list (items : List Val)
  /-- Python `tuple`: the walk does not enter it -/
  | tup (items : List Val)
  /-- Python `dict` attribute: the walk enters it by key, but `getattr` cannot follow the path -/
  | dict (attrs : List (String × Val))
  /-- `ModelInstance` built from a `list` (integer keys in `__dict__`): the walk aborts on the
  first integer key (`key.startswith` raises `AttributeError`, which is swallowed) -/
  | ilist (items : List Val)
  deriving Inhabited, Repr

inductive Err where
  /-- `AttributeError`/`TypeError`/`IndexError`/`KeyError` while following a path -/
  | path
  /-- the regression / spline cannot be computed (fewer than two distinct abscissae) -/
  | degenerate
  /-- a value that should be a number is not -/
  | notNumber
  /-- empty series -/
  | empty
  deriving DecidableEq, Repr, Inhabited

/-- finding flags (DESIGN §0): `setsVariable = true` is the repaired behaviour
(`fixes/C20-interpolation-variable-assigned.patch`), `false` the pinned commit, where the result of
the final `replacing_for_path` is discarded -/
structure Cfg where
  setsVariable : Bool := true
  deriving Repr, Inhabited

/-! ## paths -/

def lookupAttr : List (String × Val) → String → Option Val
  | [], _ => none
  | (k, x) :: rest, name => if k = name then some x else lookupAttr rest name

/-- replace the value of the first attribute called `name` (the path is known to exist) -/
def setAttr : List (String × Val) → String → Val → List (String × Val)
  | [], _, _ => []
  | (k, x) :: rest, name, c => if k = name then (k, c) :: rest else (k, x) :: setAttr rest name c

/-- `getattr(x, name)` / `x[idx]` as used along paths produced by the walk -/
def child : Val → Key → Option Val
  | .obj _ attrs, .s name => lookupAttr attrs name
  | .list items, .i n => items[n]?
  | _, _ => none

def setChild : Val → Key → Val → Option Val
  | .obj cls attrs, .s name, c =>
      if (lookupAttr attrs name).isSome then some (.obj cls (setAttr attrs name c)) else none
  | .list items, .i n, c => if n < items.length then some (.list (items.set n c)) else none
  | _, _, _ => none

/-- `object_for_path` -/
def getPath (x : Val) : IPath → Option Val
  | [] => some x
  | k :: ks => match child x k with
    | some c => getPath c ks
    | none => none

/-- `replacing_for_path` on a copy (pure functional update) -/
def setPath (x : Val) : IPath → Val → Option Val
  | [], c => some c
  | k :: ks, c => match child x k with
    | some ch => match setPath ch ks c with
      | some ch' => setChild x k ch'
      | none => none
    | none => none

/-! ## the walk `path_instances_of_class(·, float)` -/

mutual
def floatPaths : Val → List IPath
  | .num _ => [[]]
  | .int _ => []
  | .opaque _ => []
  | .obj _ attrs => floatPathsAttrs attrs
  | .dict attrs => floatPathsAttrs attrs
  | .list items => floatPathsItems 0 items
  | .tup _ => []
  | .ilist _ => []
def floatPathsAttrs : List (String × Val) → List IPath
  | [] => []
  | (k, x) :: rest => (floatPaths x).map (Key.s k :: ·) ++ floatPathsAttrs rest
def floatPathsItems (i : Nat) : List Val → List IPath
  | [] => []
  | x :: rest => (floatPaths x).map (Key.i i :: ·) ++ floatPathsItems (i + 1) rest
end

/-! ## value map -/

/-- the number at a place (`float` or `int`) -/
def numOf : Option Val → Except Err Rat
  | some (.num v) => .ok v
  | some (.int n) => .ok (n : Rat)
  | some _ => .error .notNumber
  | none => .error .path

/-- `path.get_value(instance)` -/
def tOf (tp : IPath) (inst : Val) : Except Err Rat := numOf (getPath inst tp)

/-- `(t(instance), instance)` in the order supplied -/
def pairs (tp : IPath) : List Val → Except Err (List (Rat × Val))
  | [] => .ok []
  | i :: rest => match tOf tp i, pairs tp rest with
    | .ok t, .ok ps => .ok ((t, i) :: ps)
    | .error e, _ => .error e
    | _, .error e => .error e

/-- `value_map[k]`: the dict comprehension keeps the *last* instance with key `k` -/
def lookupLast (k : Rat) : List (Rat × Val) → Option Val
  | [] => none
  | (k', i) :: rest => match lookupLast k rest with
    | some j => some j
    | none => if k' = k then some i else none

/-- insert into a strictly increasing list, dropping duplicates -/
def insertKey (a : Rat) : List Rat → List Rat
  | [] => [a]
  | b :: bs => if a < b then a :: b :: bs else if a = b then b :: bs else b :: insertKey a bs

/-- `sorted(value_map)`: the distinct abscissae in increasing order -/
def sortedKeys (l : List Rat) : List Rat := l.foldr insertKey []

/-! ## least squares (`LinearInterpolator._interpolate`) -/

def sum : List Rat → Rat
  | [] => 0
  | a :: l => a + sum l

def dot : List Rat → List Rat → Rat
  | a :: l, b :: m => a * b + dot l m
  | _, _ => 0

/-- `n·Σx² − (Σx)²` — zero iff all abscissae coincide -/
def denom (xs : List Rat) : Rat := (xs.length : Rat) * dot xs xs - sum xs * sum xs

def slope (xs ys : List Rat) : Rat :=
  ((xs.length : Rat) * dot xs ys - sum xs * sum ys) / denom xs

def intercept (xs ys : List Rat) : Rat := (sum ys - slope xs ys * sum xs) / (xs.length : Rat)

/-- value at `v` of the least-squares line through `(xs, ys)` -/
def lsq (xs ys : List Rat) (v : Rat) : Except Err Rat :=
  if denom xs = 0 then .error .degenerate else .ok (slope xs ys * v + intercept xs ys)

/-- an `_interpolate` given by a finite table keyed on the ordinates (used for the spline, whose
values come from scipy) -/
def tableF (table : List (List Rat × Rat)) (_xs ys : List Rat) (_v : Rat) : Except Err Rat :=
  match table.find? (fun e => e.1 = ys) with
  | some e => .ok e.2
  | none => .error .degenerate

/-! ## `__getitem__` -/

/-- `[value_map[x].object_for_path(p) for x in xs]` -/
def seriesAt (ps : List (Rat × Val)) (p : IPath) : List Rat → Except Err (List Rat)
  | [] => .ok []
  | x :: xs => match lookupLast x ps with
    | none => .error .path
    | some inst => match numOf (getPath inst p), seriesAt ps p xs with
      | .ok y, .ok ys => .ok (y :: ys)
      | .error e, _ => .error e
      | _, .error e => .error e

/-- the interpolated value of every float path of the template -/
def interpValues (f : List Rat → List Rat → Rat → Except Err Rat) (ps : List (Rat × Val))
    (xs : List Rat) (v : Rat) : List IPath → Except Err (List (IPath × Rat))
  | [] => .ok []
  | p :: rest => match seriesAt ps p xs with
    | .error e => .error e
    | .ok ys => match f xs ys v, interpValues f ps xs v rest with
      | .ok r, .ok out => .ok ((p, r) :: out)
      | .error e, _ => .error e
      | _, .error e => .error e

/-- `new = new.replacing_for_path(path, value)` for every entry, in order -/
def applyAll (x : Val) : List (IPath × Rat) → Except Err Val
  | [] => .ok x
  | (p, r) :: rest => match setPath x p (.num r) with
    | some x' => applyAll x' rest
    | none => .error .path

/-- `AbstractInterpolator.__getitem__(path == v)` with `_interpolate = f` -/
def getitem (cfg : Cfg) (f : List Rat → List Rat → Rat → Except Err Rat)
    (insts : List Val) (tp : IPath) (v : Rat) : Except Err Val :=
  match pairs tp insts with
  | .error e => .error e
  | .ok ps =>
    match lookupLast v ps with
    | some i => .ok i
    | none =>
      match insts with
      | [] => .error .empty
      | tmpl :: _ =>
        match interpValues f ps (sortedKeys (ps.map (·.1))) v (floatPaths tmpl) with
        | .error e => .error e
        | .ok vals =>
          match applyAll tmpl vals with
          | .error e => .error e
          | .ok new =>
            if cfg.setsVariable then
              match setPath new tp (.num v) with
              | some r => .ok r
              | none => .error .path
            else .ok new

/-- the ordinates `_interpolate` is called with, for every float path of the template whose series
can be formed (used by the driver to ask scipy for the spline values that make up `tableF`) -/
def plan (insts : List Val) (tp : IPath) : Except Err (List Rat × List (IPath × List Rat)) :=
  match pairs tp insts, insts with
  | .error e, _ => .error e
  | .ok _, [] => .error .empty
  | .ok ps, tmpl :: _ =>
    let xs := sortedKeys (ps.map (·.1))
    .ok (xs, (floatPaths tmpl).filterMap (fun p => match seriesAt ps p xs with
      | .ok ys => some (p, ys)
      | .error _ => none))

/-- observers used by the concrete witnesses only: a walker that enters *every* container (as a
reader of the property would), and the number at a place of a result -/
def childAny : Val → Key → Option Val
  | .obj _ attrs, .s name => lookupAttr attrs name
  | .dict attrs, .s name => lookupAttr attrs name
  | .list items, .i n => items[n]?
  | .tup items, .i n => items[n]?
  | .ilist items, .i n => items[n]?
  | _, _ => none

def getAny (x : Val) : IPath → Option Val
  | [] => some x
  | k :: ks => match childAny x k with
    | some c => getAny c ks
    | none => none

def valueAtAny (r : Except Err Val) (p : IPath) : Option Rat :=
  match r with
  | .ok x => (numOf (getAny x p)).toOption
  | .error _ => none

/-- the number at a place of a result, following `getattr`/indexing only -/
def valueAt (r : Except Err Val) (p : IPath) : Option Rat :=
  match r with
  | .ok x => (numOf (getPath x p)).toOption
  | .error _ => none

end AF.Interp
