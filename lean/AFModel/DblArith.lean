import AFModel.PriorDbl

/-!
# IEEE-754 double arithmetic on doubles as data (property C02)

`+ − × ÷` of binary64 in round-to-nearest-even, computed exactly on the integers: the exact result of
the operation on the exact values (`Dbl.exact`, units of `2^-1074`) is a fraction, `nearestBits` converts
it to the nearest double. With these the shift/scale arithmetic of the transform stacks is inside the logic:

* `argD u        = 1 - 2.0 * (1.0 - u)`              – the argument `NormalMessage.value_for` hands to `erfinv`
* `rawGaussianD  = mean + (sigma * sqrt(2) * inv)`   – `NormalMessage.value_for` after `erfinv`
* `rawUniformD   = t * (U - L) + L`                  – `LinearShiftTransform.inv_transform` after `ndtr`

(the special functions `erfinv`, `ndtr` themselves stay parameters). The driver runs them on every request
that carries `"arith"` rows and the harness compares with Python's float arithmetic bit for bit.
-/

namespace AF.Prior

namespace Dbl

/-- the quiet NaN `0x7FF8000000000000` -/
def nan : Dbl := ⟨false, infMag + 2 ^ 51⟩

def isInf (x : Dbl) : Bool := decide (x.mag = infMag)

/-- the double nearest to `n / den` (`den > 0`), sign of `n`; a negative `n` that rounds to zero gives `-0` -/
def ofRat (n : Int) (den : Nat) : Dbl := ⟨decide (n < 0), nearestBits n.natAbs den⟩

def neg' (a : Dbl) : Dbl := ⟨!a.neg, a.mag⟩

/-- IEEE `a * b` -/
def mul (a b : Dbl) : Dbl :=
  if a.isNaN || b.isNaN then nan
  else if (a.isInf && decide (b.mag = 0)) || (b.isInf && decide (a.mag = 0)) then nan
  else if a.isInf || b.isInf then ⟨a.neg != b.neg, infMag⟩
  else ⟨a.neg != b.neg, nearestBits (magVal a.mag * magVal b.mag) (2 ^ 1074 * 2 ^ 1074)⟩

/-- IEEE `a + b` (an exact zero sum is `+0` unless both operands are negative zeros / negative) -/
def add (a b : Dbl) : Dbl :=
  if a.isNaN || b.isNaN then nan
  else if a.isInf then (if b.isInf && (a.neg != b.neg) then nan else a)
  else if b.isInf then b
  else
    let n := a.exact + b.exact
    if n = 0 then ⟨a.neg && b.neg, 0⟩ else ofRat n (2 ^ 1074)

/-- IEEE `a - b` = `a + (-b)` -/
def sub (a b : Dbl) : Dbl := add a (neg' b)

/-- IEEE `a / b` -/
def div (a b : Dbl) : Dbl :=
  if a.isNaN || b.isNaN then nan
  else if a.isInf && b.isInf then nan
  else if decide (a.mag = 0) && decide (b.mag = 0) then nan
  else if a.isInf || decide (b.mag = 0) then ⟨a.neg != b.neg, infMag⟩
  else if b.isInf then ⟨a.neg != b.neg, 0⟩
  else ⟨a.neg != b.neg, nearestBits (magVal a.mag) (magVal b.mag)⟩

def one : Dbl := ⟨false, 1023 * 2 ^ 52⟩
def two : Dbl := ⟨false, 1024 * 2 ^ 52⟩
def zero : Dbl := ⟨false, 0⟩
/-- `numpy.sqrt(2)` = `0x3FF6A09E667F3BCD` -/
def sqrt2 : Dbl := ⟨false, 0x3FF6A09E667F3BCD⟩

end Dbl

instance : Add Dbl := ⟨Dbl.add⟩
instance : Sub Dbl := ⟨Dbl.sub⟩
instance : Mul Dbl := ⟨Dbl.mul⟩
instance : Div Dbl := ⟨Dbl.div⟩

/-- the unit value `Prior.random` maps, on doubles as data: the generic `randomUnit`
(`max(lo, a) + (min(hi, b) - max(lo, a)) * r`, Python's `random.uniform`) at the number type `Dbl` -/
def randomUnitD (lo hi a b r : Dbl) : Dbl := randomUnit lo hi a b r

/-- `1 - 2.0 * (1.0 - unit)`: what `NormalMessage.value_for` passes to `erfinv` -/
def argD (u : Dbl) : Dbl := Dbl.sub Dbl.one (Dbl.mul Dbl.two (Dbl.sub Dbl.one u))

/-- `mean + (sigma * np.sqrt(2) * inv)`: `NormalMessage.value_for` given `inv = erfinv(argD unit)` -/
def rawGaussianD (mean sigma inv : Dbl) : Dbl :=
  Dbl.add mean (Dbl.mul (Dbl.mul sigma Dbl.sqrt2) inv)

/-- `t * scale + shift` with `scale = U - L`, `shift = L`: `LinearShiftTransform.inv_transform` of the
uniform prior given `t = ndtr(z)` -/
def rawUniformD (t L U : Dbl) : Dbl := Dbl.add (Dbl.mul t (Dbl.sub U L)) L

end AF.Prior
