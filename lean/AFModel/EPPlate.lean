import AFModel.EP

/-!
# EPPlate — array-valued messages, plates and batches of expectation propagation (C18)

Mirrors

* array-valued messages (one message object holding an `ndarray` of parameters per variable): the
  natural parameters of a variable over plates are a function index → natural parameters, and
  product / quotient / power act element by element (`instEtaSpacePi`: the bookkeeping theorems of
  `AF.EP` are stated over any `EtaSpace`, arrays are an instance);
* `MeanField.update_invalid` → `AbstractMessage.update_invalid` on arrays: `np.where(valid, new, previous)`
  element by element (`newMsgArr`), `is_valid` = all elements (`allValidArr`);
* `Variable.make_indexes` / `Plate.make_index_seq` / `np.ix_` (`axesOf`, `flatIdx`), `MeanField.subset`
  (`subsetState`), `MeanField.merge` / `update_array` (`mergeArr`, `mergeState`);
* `EPMeanField.subset` (`rescaleOf`), `EPMeanFieldSubset.factor_approximation` (`subApprox`),
  `EPMeanFieldSubset.project_mean_field` (`subProjectWith`), `EPMeanField.merge`
  (`autofit/graphical/expectation_propagation/ep_mean_field.py`, `autofit/graphical/mean_field.py`,
  `autofit/mapper/variable.py`);
* the `log_norm` a factor's mean field carries through a projection (`LogNorm`).

Arrays are flattened row-major: `Nat → G`, entries beyond the size are never read.

Core Lean only.
-/

namespace AF.EP

variable {G : Type}

/-! ## arrays of natural parameters form a natural-parameter space (element-wise module) -/

instance instEtaSpacePi {I : Type} [EtaSpace G] : EtaSpace (I → G) where
  add a b := fun i => a i + b i
  sub a b := fun i => a i - b i
  zero := fun _ => 0
  smul r a := fun i => r • a i
  add_comm a b := funext fun i => EtaSpace.add_comm (a i) (b i)
  add_assoc a b c := funext fun i => EtaSpace.add_assoc (a i) (b i) (c i)
  add_zero a := funext fun i => EtaSpace.add_zero (a i)
  sub_add_cancel a b := funext fun i => EtaSpace.sub_add_cancel (a i) (b i)
  one_smul a := funext fun i => EtaSpace.one_smul (a i)
  zero_smul a := funext fun i => EtaSpace.zero_smul (a i)
  add_smul r s a := funext fun i => EtaSpace.add_smul r s (a i)
  smul_add r a b := funext fun i => EtaSpace.smul_add r (a i) (b i)
  mul_smul r s a := funext fun i => EtaSpace.mul_smul r s (a i)

/-- element `i` of every message of a mean field -/
def sliceField {I : Type} (i : I) (q : Field (I → G)) : Field G := q.map (fun p => (p.1, p.2 i))

/-- element `i` of every message of every factor -/
def sliceState {I : Type} (i : I) (s : State (I → G)) : State G :=
  s.map (fun p => (p.1, sliceField i p.2))

def sliceApprox {I : Type} (i : I) (a : Approx (I → G)) : Approx G :=
  { f := a.f
    cavity := fun v => (a.cavity v).map (fun x => x i)
    old := fun v => (a.old v).map (fun x => x i)
    model := fun v => (a.model v).map (fun x => x i) }

/-! ## projection of array-valued messages -/

/-- the factor's new array-valued message for `v`: the candidate (`q / cavity`, or the damped
formula), with every improper *element* replaced by that element of the previous message
(`np.where(valid, p, p_safe)` in `AbstractMessage.update_invalid`) -/
def newMsgArr {I : Type} [EtaSpace G] (valid : G → Bool) (a : Approx (I → G)) (δ : Delta) (v : Nat)
    (qv : I → G) : I → G :=
  let c := candidate a (δ.at v) v qv
  match a.old v with
  | some o => fun i => if valid (c i) then c i else o i
  | none => c

def newFieldArr {I : Type} [EtaSpace G] (valid : G → Bool) (a : Approx (I → G)) (q : Field (I → G))
    (δ : Delta) : Field (I → G) :=
  q.map (fun p => (p.1, newMsgArr valid a δ p.1 p.2))

/-- `project_mean_field` on array-valued messages -/
def projectArr {I : Type} [EtaSpace G] (valid : G → Bool) (s : State (I → G)) (a : Approx (I → G))
    (q : Field (I → G)) (δ : Delta) : State (I → G) :=
  (a.f, newFieldArr valid a q δ) :: s

/-- `factor_dist.is_valid`: every element of every candidate is proper -/
def allValidArr [EtaSpace G] (valid : G → Bool) (size : Nat → Nat) (a : Approx (Nat → G))
    (q : Field (Nat → G)) (δ : Delta) : Bool :=
  q.all (fun p => (List.range (size p.1)).all (fun i => valid (candidate a (δ.at p.1) p.1 p.2 i)))

/-! ## plate indexing -/

/-- one axis of an indexed array: the positions picked on it (`Plate.make_index_seq`) and its size -/
structure Axis where
  seq : List Nat
  full : Nat

def prodL : List Nat → Nat
  | [] => 1
  | x :: rest => x * prodL rest

def subSize (axes : List Axis) : Nat := prodL (axes.map (fun ax => ax.seq.length))

def fullSize (axes : List Axis) : Nat := prodL (axes.map (fun ax => ax.full))

/-- `np.ix_(*seqs)` on a row-major array: flat position in the full array of flat position `k` of the
selected sub-array -/
def flatIdx : List Axis → Nat → Nat
  | [], _ => 0
  | ax :: rest, k => ax.seq.getD (k / subSize rest) 0 * fullSize rest + flatIdx rest (k % subSize rest)

/-- plates of the variables and plate sizes -/
structure Plates where
  dims : Nat → List Nat
  psize : Nat → Nat

/-- `plates_index`: plate → selected positions -/
abbrev PIndex := List (Nat × List Nat)

def Plates.size (P : Plates) (v : Nat) : Nat := prodL ((P.dims v).map P.psize)

/-- `Variable.make_indexes`: `none` is the index `()` (no plate of the variable is selected: the whole
message) -/
def axesOf (P : Plates) (ix : PIndex) (v : Nat) : Option (List Axis) :=
  if (P.dims v).any (fun p => (lookup ix p).isSome) then
    some ((P.dims v).map (fun p =>
      { seq := (lookup ix p).getD (List.range (P.psize p)), full := P.psize p }))
  else none

/-- `message[index]` -/
def subArr (ax : Option (List Axis)) (m : Nat → G) : Nat → G :=
  match ax with
  | none => m
  | some axes => fun k => m (flatIdx axes k)

/-- the last position of the selection that lands on `i` (numpy assignment: the last one wins) -/
def posOf (axes : List Axis) (i : Nat) : Option Nat :=
  (List.range (subSize axes)).reverse.find? (fun k => flatIdx axes k == i)

/-- `update_array(old, index, new)`: a copy of `old` with the selected positions overwritten -/
def mergeArr (ax : Option (List Axis)) (old new : Nat → G) : Nat → G :=
  match ax with
  | none => new
  | some axes => fun i =>
    match posOf axes i with
    | some k => new k
    | none => old i

/-- number of elements of the selected sub-array of `v` -/
def subLen (P : Plates) (ix : PIndex) (v : Nat) : Nat :=
  match axesOf P ix v with
  | none => P.size v
  | some axes => subSize axes

/-- `MeanField.subset(plates_index=…)` -/
def subsetField (P : Plates) (ix : PIndex) (q : Field (Nat → G)) : Field (Nat → G) :=
  q.map (fun p => (p.1, subArr (axesOf P ix p.1) p.2))

/-- the factor mean fields of `EPMeanField.subset(plates_index)` -/
def subsetState (P : Plates) (ix : PIndex) (s : State (Nat → G)) : State (Nat → G) :=
  s.map (fun p => (p.1, subsetField P ix p.2))

/-- the mean field factor `f` currently holds -/
def State.field (s : State G) (f : Nat) : Field G :=
  match s with
  | [] => []
  | (g, fld) :: rest => if g == f then fld else State.field rest f

/-- `MeanField.merge(index, new)`: the keys of `new` are overwritten at the selected positions -/
def mergeField (P : Plates) (ix : PIndex) (old new : Field (Nat → G)) : Field (Nat → G) :=
  new.map (fun p => (p.1,
    match lookup old p.1 with
    | some o => mergeArr (axesOf P ix p.1) o p.2
    | none => p.2)) ++ old

/-- `EPMeanField.merge(index, subset_approx)` -/
def mergeState (P : Plates) (ix : PIndex) (fs : List Nat) (s sub : State (Nat → G)) :
    State (Nat → G) :=
  fs.map (fun f => (f, mergeField P ix (s.field f) (sub.field f)))

/-- number of selected positions of plate `p` -/
def subCount (P : Plates) (ix : PIndex) (p : Nat) : Nat :=
  match lookup ix p with
  | some l => l.length
  | none => P.psize p

/-- `factor_mean_field_rescale[factor][v]` of `EPMeanField.subset`: `scale_factor *
mean_field[v].size / message.size` with `scale_factor = subset_size / mean_field_size` over the
plates of the factor's mean field (variables `vars`) -/
def rescaleOf (P : Plates) (ix : PIndex) (vars : List Nat) (v : Nat) : Rat :=
  let ps := dedup ((vars.map P.dims).flatten)
  let sf : Rat := ((prodL (ps.map (subCount P ix)) : Nat) : Rat) / ((prodL (ps.map P.psize) : Nat) : Rat)
  sf * ((P.size v : Nat) : Rat) / ((subLen P ix v : Nat) : Rat)

/-! ## approximations and projections of a batch (`EPMeanFieldSubset`) -/

/-- `EPMeanFieldSubset.factor_approximation(f)`: for a variable whose `scale` is below one the factor
is fitted against the share `factor_dist ** scale` of its message; the rest of the message joins the
cavity -/
def subApprox [EtaSpace G] (fs : List Nat) (s : State G) (scale : Nat → Rat) (f : Nat) : Approx G :=
  { f := f
    cavity := fun v =>
      match s.get f v with
      | none => none
      | some m =>
        if scale v < 1 then (cavityOpt fs s f v).map (fun c => c + (1 - scale v) • m)
        else cavityOpt fs s f v
    old := fun v => (s.get f v).map (fun m => if scale v < 1 then scale v • m else m)
    model := modelOpt fs s f }

/-- `last_factor_dist.rescale({v: 1 - scale})`: exponent 0 gives the float `1.0` (no message) -/
def subCav [EtaSpace G] (s : State G) (scale : Nat → Rat) (f v : Nat) : Option G :=
  match s.get f v with
  | none => none
  | some m => if 1 - scale v == 0 then none else some ((1 - scale v) • m)

/-- `mean_field * other`: keys of the left operand, absent messages of `other` are skipped -/
def mulField [EtaSpace G] (q : Field G) (c : Nat → Option G) : Field G :=
  q.map (fun p => (p.1, p.2 + val (c p.1)))

/-- the approximation handed to `update_factor_mean_field` in the damped branch: the previous
message is `factor_approx.factor_dist * subset_cavity_dist` -/
def withRest [EtaSpace G] (a : Approx G) (sc : Nat → Option G) : Approx G :=
  { a with old := fun v => (a.old v).map (fun o => o + val (sc v)) }

/-- `EPMeanFieldSubset.project_mean_field(q, a, delta)` for a float `delta`; `nf` is
`update_factor_mean_field` (`newField valid` for scalars, `newFieldArr valid` for arrays) -/
def subProjectWith [EtaSpace G] (nf : Approx G → Field G → Delta → Field G) (s : State G)
    (scale : Nat → Rat) (a : Approx G) (q : Field G) (d : Rat) : State G :=
  let sc := subCav s scale a.f
  if d < 1 then (a.f, nf (withRest a sc) (mulField q sc) (.scalar d)) :: s
  else (a.f, mulField (nf a q (.scalar d)) sc) :: s

def subProject [EtaSpace G] (valid : G → Bool) (s : State G) (scale : Nat → Rat) (a : Approx G)
    (q : Field G) (d : Rat) : State G :=
  subProjectWith (newField valid) s scale a q d

def subProjectArr {I : Type} [EtaSpace G] (valid : G → Bool) (s : State (I → G)) (scale : Nat → Rat)
    (a : Approx (I → G)) (q : Field (I → G)) (d : Rat) : State (I → G) :=
  subProjectWith (newFieldArr valid) s scale a q d

/-- is every element of every candidate of the batch projection proper -/
def subAllValidArr [EtaSpace G] (valid : G → Bool) (size : Nat → Nat) (s : State (Nat → G))
    (scale : Nat → Rat) (a : Approx (Nat → G)) (q : Field (Nat → G)) (d : Rat) : Bool :=
  let sc := subCav s scale a.f
  if d < 1 then allValidArr valid size (withRest a sc) (mulField q sc) (.scalar d)
  else allValidArr valid size a q (.scalar d)

/-! ## `log_norm` of the factor mean fields -/

/-- `MeanField.log_norm` of the mean field a projection stores for the factor. `MeanField.__truediv__`,
`__pow__`, `update_invalid` hand their `log_norm` to the constructor's second positional parameter
(`plates`), `prod` and `rescale` do not pass one: whatever `log_norm` the newly fitted distribution
carries, the stored factor mean field has `log_norm = 0.0`. -/
def projectedLogNorm (_qLogNorm : Rat) : Rat := 0

/-- `factor_evidence` after a sequence of updates starting from `from_approx_dists` (all zero): the
`log_norm` of every factor's stored mean field -/
def logNormsAfter (fs : List Nat) (updates : List (Nat × Rat)) : List (Nat × Rat) :=
  fs.map (fun f => (f, match (updates.filter (fun u => u.1 == f)).getLast? with
    | some u => projectedLogNorm u.2
    | none => 0))

/-- `EPMeanField.log_evidence` from the factors' `log_norm`s and the variables' evidences
(`variable_evidence`, a function of the messages: C17's subject, data here):
`Σ_f (log_norm_f − Σ_{v ∈ f} Z_v) + Σ_v Z_v` -/
def sumR : List Rat → Rat
  | [] => 0
  | x :: rest => x + sumR rest

def logEvidence (fs : List Nat) (scope : Nat → List Nat) (vars : List Nat) (logNorm : Nat → Rat)
    (z : Nat → Rat) : Rat :=
  sumR (fs.map (fun f => logNorm f - sumR ((scope f).map z))) + sumR (vars.map z)

end AF.EP
