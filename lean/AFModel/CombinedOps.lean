import AFModel.Combined

/-!
# CombinedOps — operand structure of summed analyses (C15, model growth)

Mirrors (hand-written, tied to the code by `harness/c15.py`, request key `fexpr`):

* `CombinedAnalysis.with_free_parameters` applied at ANY position of an expression over `+`
  (`FExpr.free`), `FreeParameterAnalysis.__add__` / `_with_analyses`, `CombinedAnalysis.__add__`
  with a `FreeParameterAnalysis` as right operand                                  → `plusF`, `buildF`
* the pinned behaviour (`freeSurvivesAdd = false`): `type(self)(*self.analyses, other)` without the
  keyword `free_parameters` ⇒ `TypeError` for `f + c`, `c + f`; `(c + d) + f` builds a plain
  `CombinedAnalysis` (the free parameters are lost)                                → `plusF` (flag off)
* which bracketings keep the written order                                         → `inOrder`, `normalize`

Core Lean only.
-/

namespace AF.Combined

/-! ## 1. when is `combined.analyses` the list as written -/

def Expr.isLeaf {α : Type} : Expr α → Bool
  | .leaf _ => true
  | .add _ _ => false

/-- no single analysis is the left operand of a sum whose right operand is itself a sum
(`a + (b + c)` is the one shape `Analysis.__add__` hands over to the right operand) -/
def inOrder {α : Type} : Expr α → Bool
  | .leaf _ => true
  | .add l r => inOrder l && inOrder r && (!l.isLeaf || r.isLeaf)

/-- the expression with every such `a + (…)` turned round into `(…) + a` -/
def normalize {α : Type} : Expr α → Expr α
  | .leaf a => .leaf a
  | .add l r =>
    if l.isLeaf && !r.isLeaf then .add (normalize r) (normalize l) else .add (normalize l) (normalize r)

/-! ## 2. `with_free_parameters` at any position -/

/-- an expression over `+` and `.with_free_parameters(*args)`; `φ` is what a free parameter
argument is (a prior, or a component given by its place) -/
inductive FExpr (α φ : Type) where
  | leaf (a : α)
  | add (l r : FExpr α φ)
  | free (args : List φ) (e : FExpr α φ)
  deriving Repr, Inhabited

/-- the expression without the free parameter declarations -/
def FExpr.erase {α φ : Type} : FExpr α φ → Expr α
  | .leaf a => .leaf a
  | .add l r => .add l.erase r.erase
  | .free _ e => e.erase

/-- finding flag (DESIGN §0): `true` = repaired behaviour (fixes/C15-free-parameters-survive-add.patch) -/
structure OpsCfg where
  /-- a `FreeParameterAnalysis` used as an operand of `+` gives a `FreeParameterAnalysis` with the
  free parameters of both operands -/
  freeSurvivesAdd : Bool := true
  deriving Repr, Inhabited

/-- what an expression evaluates to: the analyses held, and `free_parameters` (ids, in the order of
the list the code keeps) when the object is a `FreeParameterAnalysis` -/
structure BuiltF (α : Type) where
  b : Built α
  free : Option (List Nat) := none
  deriving Repr, Inhabited

/-- free parameters of `x + y` (repaired): those of both operands, left operand first -/
def mergeFree : Option (List Nat) → Option (List Nat) → Option (List Nat)
  | none, none => none
  | some F, none => some F
  | none, some G => some G
  | some F, some G => some (F ++ G)

/-- `x + y` -/
def plusF {α : Type} (cfg : OpsCfg) (x y : BuiltF α) : Except String (BuiltF α) :=
  if cfg.freeSurvivesAdd then
    .ok { b := plus x.b y.b, free := mergeFree x.free y.free }
  else
    match x.free, y.free, x.b with
    -- `type(self)(*self.analyses, …)` with `type(self) = FreeParameterAnalysis`
    | some _, _, _ => .error "TypeError"
    -- `Analysis.__add__`: `other + self`
    | none, some _, .single _ => .error "TypeError"
    -- `CombinedAnalysis.__add__`: `type(self)(*self.analyses, *other.analyses)`: a plain sum
    | none, some _, .comb _ => .ok { b := plus x.b y.b, free := none }
    | none, none, _ => .ok { b := plus x.b y.b, free := none }

/-- `x.with_free_parameters(*args)`: only a combined analysis has the method
(`Analysis.__getattr__` raises `AttributeError`); earlier declarations are replaced -/
def withFree {α : Type} (F : List Nat) (x : BuiltF α) : Except String (BuiltF α) :=
  match x.b with
  | .single _ => .error "AttributeError"
  | .comb as => .ok { b := .comb as, free := some F }

/-- evaluation of an expression; `expand` is `FreeParameterAnalysis.__init__`'s reading of the
arguments (`freeIds model`) -/
def buildF {α φ : Type} (cfg : OpsCfg) (expand : List φ → List Nat) : FExpr α φ → Except String (BuiltF α)
  | .leaf a => .ok { b := .single a }
  | .add l r =>
    match buildF cfg expand l, buildF cfg expand r with
    | .ok x, .ok y => plusF cfg x y
    | .error e, _ => .error e
    | .ok _, .error e => .error e
  | .free args e =>
    match buildF cfg expand e with
    | .ok x => withFree (expand args) x
    | .error e => .error e

/-- the declarations in force: those not beneath a later `with_free_parameters`, left to right -/
def FExpr.live {α φ : Type} : FExpr α φ → List (List φ)
  | .leaf _ => []
  | .add l r => l.live ++ r.live
  | .free args _ => [args]

/-- `with_free_parameters` is only ever called on a sum -/
def FExpr.wellFormed {α φ : Type} : FExpr α φ → Bool
  | .leaf _ => true
  | .add l r => l.wellFormed && r.wellFormed
  | .free _ e => e.wellFormed && !e.erase.isLeaf

/-- the free parameters the resulting analysis must have: none (a plain sum) when nothing is
declared, otherwise every declaration in force -/
def declaredFree {α φ : Type} (expand : List φ → List Nat) (e : FExpr α φ) : Option (List Nat) :=
  if e.live.isEmpty then none else some (e.live.map expand).flatten

end AF.Combined
