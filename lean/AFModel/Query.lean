/-!
# `Query` — executable model of the database query compiler (property C10)

Mirrors `autofit/database/query/*` and the slicing / ordering of `Aggregator`:

* `Obj`   – a stored best-fit instance: the rows `Object.from_object` writes into the tables
            `object` (every row; `class_path`, `name`, `parent_id`), `value`, `string_value`, `none`
* `Q`     – the query objects the user-level operators build (`NamedQuery`, `ValueCondition`,
            `StringValueCondition`, `NoneCondition`, `TypeCondition`, `AttributeQuery`/`InfoQuery`,
            `InvertedQuery`, `And`, `Or`)
* `sem`   – the relational meaning of the SQL these objects print
            (`instance_id / o.id [NOT] IN (SELECT parent_id FROM object o JOIN … WHERE o.name = n AND …)`),
            stated on a row together with its children rows
* `Row`, `rsem`, `repCheck`, `rowsQueryFits` – the same meaning over an id-keyed object table (the real
            table contents read back by the harness) and the decidable check that the table stores an object
* `mkJ`   – `AbstractJunction.__new__/_match_conditions`: flatten same-type junctions, merge named
            queries with the same name, collapse a single condition
* `compile` – the operators `==,<,…`, `&`, `|`, `~` applied to a user-level predicate `Pred`
* `evalDirect` – the predicate evaluated directly on the stored Python objects (the specification)
* `orderBy`, `sliceWindow`, `Window.apply` – `Aggregator.order_by`, `__getitem__(slice)`, offset/limit

Numbers are a parameter `α` (the driver uses IEEE doubles, as bit patterns, compared with `Float`).
Core Lean only.
-/

namespace AF.Query

/-- finding flags: `true` = repaired behaviour, `false` = behaviour of the pinned commit -/
structure Cfg where
  /-- `_match_conditions` does not merge negated named queries (pinned: merges them, losing the NOT) -/
  junctionKeepsNot : Bool := true
  /-- `Aggregator.__getitem__` computes offset/limit like `slice.indices` (pinned: wrong limit) -/
  sliceWindow : Bool := true
  deriving Repr, DecidableEq, Inhabited

inductive Cmp where
  | eq | lt | le | gt | ge
  deriving DecidableEq, Repr, Inhabited

/-- how a stored number compares with a query constant: `cmp op stored constant` -/
structure NumOps (α : Type) where
  cmp : Cmp → α → α → Bool

def cmpStr : Cmp → String → String → Bool
  | .eq, a, b => a == b
  | .lt, a, b => decide (a < b)
  | .le, a, b => !decide (b < a)
  | .gt, a, b => decide (b < a)
  | .ge, a, b => !decide (a < b)

/-! ## stored objects -/

/-- one stored object with its children rows (`name`, child) -/
inductive Obj (α : Type) where
  | num (x : α)
  | str (s : String)
  | nul
  | node (cls : String) (kids : List (String × Obj α))
  deriving Inhabited

def Obj.kids {α} : Obj α → List (String × Obj α)
  | .node _ ks => ks
  | _ => []

/-- `getattr`: the child stored under `name` -/
def Obj.get {α} (o : Obj α) (n : String) : Option (Obj α) := o.kids.lookup n

def Obj.follow {α} : Obj α → List String → Option (Obj α)
  | o, [] => some o
  | o, n :: ns => match o.get n with
    | some k => k.follow ns
    | Option.none => Option.none

def nodupNames : List String → Bool
  | [] => true
  | n :: ns => !ns.contains n && nodupNames ns

mutual
/-- attribute names are unique under every parent (they come from a `__dict__`) -/
def Obj.WF {α} : Obj α → Bool
  | .node _ ks => nodupNames (ks.map (·.1)) && WFKids ks
  | _ => true
def WFKids {α} : List (String × Obj α) → Bool
  | [] => true
  | (_, o) :: r => o.WF && WFKids r
end

/-- the tables besides `object` a condition joins -/
structure Tables where
  value : Bool := false
  string : Bool := false
  nul : Bool := false
  deriving DecidableEq, Repr, Inhabited

def Tables.union (a b : Tables) : Tables :=
  ⟨a.value || b.value, a.string || b.string, a.nul || b.nul⟩

def Tables.unionAll (l : List Tables) : Tables :=
  ⟨l.any (·.value), l.any (·.string), l.any (·.nul)⟩

/-- the row of this object survives the inner joins `object JOIN t ON o.id = t.id` for every `t` -/
def Obj.inTables {α} (t : Tables) : Obj α → Bool
  | .num _ => !t.string && !t.nul
  | .str _ => !t.value && !t.nul
  | .nul => !t.value && !t.string
  | .node _ _ => !t.value && !t.string && !t.nul

/-! ## fits -/

inductive AVal (α : Type) where
  | null
  | str (s : String)
  | bool (b : Bool)
  | num (x : α)
  deriving Inhabited

structure Fit (α : Type) where
  id : String
  inst : Obj α
  /-- columns of the `fit` table: id, name, unique_tag, path_prefix, is_complete, is_grid_search, max_log_likelihood -/
  attrs : List (String × AVal α)
  /-- rows of the `info` table for this fit -/
  info : List (String × String)
  deriving Inhabited

def Fit.attr {α} (f : Fit α) (a : String) : AVal α := (f.attrs.lookup a).getD .null

def infixOf {β} [BEq β] (a : List β) : List β → Bool
  | [] => a.isEmpty
  | x :: xs => a.isPrefixOf (x :: xs) || infixOf a xs

/-- python `s in t` -/
def strIn (s t : String) : Bool := infixOf s.toList t.toList

/-- conditions on the `fit` / `info` tables -/
inductive FitCond (α : Type) where
  | strEq (attr v : String)          -- search.attr == "v"
  | numEq (attr : String) (x : α)    -- search.attr == x
  | isNull (attr : String)           -- search.attr == None
  | contains (attr s : String)       -- search.attr.contains(s)
  | isIn (attr s : String)           -- search.attr.in_(s)
  | boolAttr (attr : String)         -- search.is_complete
  | boolEq (attr : String) (b : Bool) -- search.is_complete == True / False  (`attr = True`, `attr = False`)
  | info (k v : String)              -- aggregator.info[k] == v
  deriving Inhabited

def evalFitCond {α} (ops : NumOps α) (f : Fit α) : FitCond α → Bool
  | .strEq a v => match f.attr a with | .str s => s == v | _ => false
  | .numEq a x => match f.attr a with | .num y => ops.cmp .eq y x | _ => false
  | .isNull a => match f.attr a with | .null => true | _ => false
  | .contains a s => match f.attr a with | .str t => strIn s t | _ => false
  | .isIn a s => match f.attr a with | .str t => strIn t s | _ => false
  | .boolAttr a => match f.attr a with | .bool b => b | _ => false
  | .boolEq a v => match f.attr a with | .bool b => b == v | _ => false
  | .info k v => f.info.any fun kv => kv.1 == k && kv.2 == v

/-! ## query objects -/

inductive Q (α : Type) where
  | value (op : Cmp) (c : α)                       -- ValueCondition          v.value op c
  | strv (op : Cmp) (s : String)                   -- StringValueCondition    sv.value op 's'
  | isNone                                         -- NoneCondition           (join with `none`)
  | type (cp : String)                             -- TypeCondition           o.class_path = 'cp'
  | fitc (c : FitCond α)                           -- AttributeQuery / InfoQuery
  | named (name : String) (inv : Bool) (c : Q α)   -- NamedQuery(name, c, inverted)
  | inverted (q : Q α)                             -- InvertedQuery           id NOT IN (q.fit_query)
  | and (cs : List (Q α))
  | or (cs : List (Q α))
  deriving Inhabited

mutual
/-- `condition.tables` -/
def tablesOf {α} : Q α → Tables
  | .value _ _ => { value := true }
  | .strv _ _ => { string := true }
  | .isNone => { nul := true }
  | .type _ => {}
  | .fitc _ => {}
  | .named _ _ c => contrib c          -- tables of `NameCondition(name) & c` (object itself is implicit)
  | .inverted _ => {}
  | .and cs => contribAll cs
  | .or cs => contribAll cs
/-- what a condition contributes to the tables of the junction holding it: named queries are
sub-selects and contribute nothing (`AbstractJunction.tables`) -/
def contrib {α} : Q α → Tables
  | .named _ _ _ => {}
  | .value _ _ => { value := true }
  | .strv _ _ => { string := true }
  | .isNone => { nul := true }
  | .type _ => {}
  | .fitc _ => {}
  | .inverted _ => {}
  | .and cs => contribAll cs
  | .or cs => contribAll cs
def contribAll {α} : List (Q α) → Tables
  | [] => {}
  | c :: cs => (contrib c).union (contribAll cs)
end

/-- some child row named `n` survives the joins `t` and satisfies `P`:
`o.id IN (SELECT parent_id FROM object o JOIN t… WHERE o.name = n AND P)` -/
def matchKid {α} (n : String) (t : Tables) (P : Obj α → Bool) (o : Obj α) : Bool :=
  o.kids.any fun mk => mk.1 == n && (mk.2.inTables t && P mk.2)

mutual
/-- meaning of a query object for fit `f` at object row `o` (top level: `o = f.inst`, the row
`fit.instance_id` points to) -/
def sem {α} (ops : NumOps α) (f : Fit α) : Q α → Obj α → Bool
  | .value op c, o => match o with | .num x => ops.cmp op x c | _ => false
  | .strv op s, o => match o with | .str t => cmpStr op t s | _ => false
  | .isNone, o => match o with | .nul => true | _ => false
  | .type cp, o => match o with | .node cls _ => cls == cp | _ => false
  | .fitc c, _ => evalFitCond ops f c
  | .named n inv c, o => inv != matchKid n (contrib c) (fun k => sem ops f c k) o
  | .inverted q, o => !sem ops f q o
  | .and cs, o => semAll ops f cs o
  | .or cs, o => semAny ops f cs o
def semAll {α} (ops : NumOps α) (f : Fit α) : List (Q α) → Obj α → Bool
  | [], _ => true
  | c :: cs, o => sem ops f c o && semAll ops f cs o
def semAny {α} (ops : NumOps α) (f : Fit α) : List (Q α) → Obj α → Bool
  | [], _ => false
  | c :: cs, o => sem ops f c o || semAny ops f cs o
end


/-! ## the flattened object table -/

inductive Payload (α : Type) where
  | num (x : α)          -- row also in `value`
  | str (s : String)     -- row also in `string_value`
  | nul                  -- row also in `none`
  | inst (cls : String)  -- instance / collection / dict row: `class_path`
  deriving DecidableEq, Inhabited

/-- one row of the `object` table (with the row of its sub-table) -/
structure Row (α : Type) where
  id : Nat
  parent : Option Nat
  name : String
  payload : Payload α
  deriving Inhabited

def Row.inTables {α} (t : Tables) (r : Row α) : Bool :=
  match r.payload with
  | .num _ => !t.string && !t.nul
  | .str _ => !t.value && !t.nul
  | .nul => !t.value && !t.string
  | .inst _ => !t.value && !t.string && !t.nul

/-- rows whose `parent_id` is the id of `r` -/
def kidsOf {α} (T : List (Row α)) (r : Row α) : List (Row α) := T.filter fun r' => r'.parent == some r.id

mutual
/-- relational meaning of the printed SQL over the table `T`:
`o.id [NOT] IN (SELECT parent_id FROM object o JOIN … WHERE o.name = n AND …)` -/
def rsem {α} (ops : NumOps α) (T : List (Row α)) (f : Fit α) : Q α → Row α → Bool
  | .value op c, r => match r.payload with | .num x => ops.cmp op x c | _ => false
  | .strv op s, r => match r.payload with | .str t => cmpStr op t s | _ => false
  | .isNone, r => match r.payload with | .nul => true | _ => false
  | .type cp, r => match r.payload with | .inst cls => cls == cp | _ => false
  | .fitc c, _ => evalFitCond ops f c
  | .named n inv c, r =>
      inv != T.any fun r' => r'.parent == some r.id && (r'.name == n && (r'.inTables (contrib c) && rsem ops T f c r'))
  | .inverted q, r => !rsem ops T f q r
  | .and cs, r => rsemAll ops T f cs r
  | .or cs, r => rsemAny ops T f cs r
def rsemAll {α} (ops : NumOps α) (T : List (Row α)) (f : Fit α) : List (Q α) → Row α → Bool
  | [], _ => true
  | c :: cs, r => rsem ops T f c r && rsemAll ops T f cs r
def rsemAny {α} (ops : NumOps α) (T : List (Row α)) (f : Fit α) : List (Q α) → Row α → Bool
  | [], _ => false
  | c :: cs, r => rsem ops T f c r || rsemAny ops T f cs r
end

mutual
/-- row `r` of table `T` (with the rows below it) stores exactly the object `o` -/
def repCheck {α} [DecidableEq α] (T : List (Row α)) : Row α → Obj α → Bool
  | r, .num x => decide (r.payload = .num x) && (kidsOf T r).isEmpty
  | r, .str s => decide (r.payload = .str s) && (kidsOf T r).isEmpty
  | r, .nul => decide (r.payload = .nul) && (kidsOf T r).isEmpty
  | r, .node cls ks => decide (r.payload = .inst cls) && repKids T (kidsOf T r) ks
def repKids {α} [DecidableEq α] (T : List (Row α)) : List (Row α) → List (String × Obj α) → Bool
  | [], [] => true
  | r :: rs, (n, o) :: ks => r.name == n && repCheck T r o && repKids T rs ks
  | _, _ => false
end


/-- a fit row: the fit's columns and the id of the object row `fit.instance_id` points to -/
structure StoredFit (α : Type) where
  fit : Fit α
  instanceId : Nat
  deriving Inhabited

def rootRow {α} (T : List (Row α)) (id : Nat) : Option (Row α) := T.find? fun r => r.id == id

/-- the object table really stores this fit's instance below `instance_id` -/
def stored {α} [DecidableEq α] (T : List (Row α)) (sf : StoredFit α) : Bool :=
  match rootRow T sf.instanceId with
  | some r => repCheck T r sf.fit.inst
  | Option.none => false

/-- `SELECT id FROM fit WHERE …` evaluated on the tables themselves -/
def rowsQueryFits {α} (ops : NumOps α) (T : List (Row α)) (q : Q α) (db : List (StoredFit α)) : List (StoredFit α) :=
  db.filter fun sf => match rootRow T sf.instanceId with
    | some r => rsem ops T sf.fit q r
    | Option.none => false

/-! ## junction construction (`AbstractJunction.__new__`, `_match_conditions`) -/

def junction {α} (isAnd : Bool) (cs : List (Q α)) : Q α := if isAnd then .and cs else .or cs

/-- sub-junctions of the same type are unwrapped -/
def flat1 {α} : Bool → Q α → List (Q α)
  | true, .and ds => ds
  | false, .or ds => ds
  | _, c => [c]

def flat {α} (isAnd : Bool) (cs : List (Q α)) : List (Q α) := cs.flatMap (flat1 isAnd)

/-- named queries that take part in merging: not a comparison with None (`none_table`), and (repaired)
not negated -/
def mergeable {α} (cfg : Cfg) : Q α → Bool
  | .named _ inv c => !(contrib c).nul && !(cfg.junctionKeepsNot && inv)
  | _ => false

def Q.name {α} : Q α → String
  | .named n _ _ => n
  | _ => ""

def Q.other {α} : Q α → Option (Q α)
  | .named _ _ c => some c
  | _ => Option.none

/-- key under which named queries are merged: the name; for `Or` also the joined tables -/
def groupKey {α} (isAnd : Bool) (q : Q α) : String × Option Tables :=
  (q.name, if isAnd then Option.none else some (tablesOf q))

def dedupKeys {κ} [BEq κ] : List κ → List κ
  | [] => []
  | k :: ks => k :: (dedupKeys ks).filter (fun k' => !(k' == k))

/-- a single condition is returned as it is -/
def collapse {α} (isAnd : Bool) : List (Q α) → Q α
  | [q] => q
  | qs => junction isAnd qs

/-- `And(*cs)` / `Or(*cs)`; `fuel` bounds the depth of merging (path depth + 1 suffices) -/
def mkJ {α} (cfg : Cfg) : Nat → Bool → List (Q α) → Q α
  | 0, isAnd, cs => junction isAnd cs
  | fuel + 1, isAnd, cs =>
    let fl := flat isAnd cs
    let nameds := fl.filter (mergeable cfg)
    let others := fl.filter (fun c => !mergeable cfg c)
    let keys := dedupKeys (nameds.map (groupKey isAnd))
    let merged := keys.map fun k =>
      Q.named k.1 false (mkJ cfg fuel isAnd ((nameds.filter (fun c => groupKey isAnd c == k)).filterMap Q.other))
    collapse isAnd (others ++ merged)

/-- `~q` -/
def invert {α} : Q α → Q α
  | .named n inv c => .named n (!inv) c
  | .inverted q => q
  | q => .inverted q

/-! ## user-level predicates -/

inductive Leaf (α : Type) where
  | num (op : Cmp) (c : α)       -- path op 1.5
  | str (op : Cmp) (s : String)  -- path op "x"
  | nul                          -- path == None
  | cls (path : String)          -- path == SomeClass
  | any                          -- the bare path used as a predicate: the attribute exists
  deriving Inhabited

inductive Pred (α : Type) where
  | path (first : String) (rest : List String) (leaf : Leaf α)
  | fitc (c : FitCond α)
  | and (x y : Pred α)
  | or (x y : Pred α)
  | not (x : Pred α)
  deriving Inhabited

def leafHolds {α} (ops : NumOps α) : Leaf α → Obj α → Bool
  | .num op c, .num x => ops.cmp op x c
  | .str op s, .str t => cmpStr op t s
  | .nul, .nul => true
  | .cls p, .node cls _ => cls == p
  | .any, _ => true
  | _, _ => false

/-- the predicate evaluated directly on the stored objects -/
def evalDirect {α} (ops : NumOps α) (f : Fit α) : Pred α → Bool
  | .path n ns leaf => match f.inst.follow (n :: ns) with
    | some o => leafHolds ops leaf o
    | Option.none => false
  | .fitc c => evalFitCond ops f c
  | .and x y => evalDirect ops f x && evalDirect ops f y
  | .or x y => evalDirect ops f x || evalDirect ops f y
  | .not x => !evalDirect ops f x

def leafQ {α} : Leaf α → Q α
  | .num op c => .value op c
  | .str op s => .strv op s
  | .nul => .isNone
  | .cls p => .type p
  | .any => .and []   -- `NamedQuery(name, None)`: no other condition (an empty conjunction)

/-- `aggregator.model.a.b.c op const` = `Named(a, Named(b, Named(c, cond)))` -/
def pathQ {α} (names : List String) (leaf : Leaf α) : Q α :=
  names.foldr (fun n acc => .named n false acc) (leafQ leaf)

def compile {α} (cfg : Cfg) (fuel : Nat) : Pred α → Q α
  | .path n ns leaf => pathQ (n :: ns) leaf
  | .fitc c => .fitc c
  | .and x y => mkJ cfg fuel true [compile cfg fuel x, compile cfg fuel y]
  | .or x y => mkJ cfg fuel false [compile cfg fuel x, compile cfg fuel y]
  | .not x => invert (compile cfg fuel x)

def Pred.depth {α} : Pred α → Nat
  | .path _ ns _ => ns.length + 1
  | .fitc _ => 0
  | .and x y => max x.depth y.depth
  | .or x y => max x.depth y.depth
  | .not x => x.depth

/-- what `Aggregator.query(p)` selects -/
def compileTop {α} (cfg : Cfg) (p : Pred α) : Q α := compile cfg (p.depth + 1) p

/-- `SELECT id FROM fit WHERE …` : the fits of the database matched by `q`, in database order -/
def queryFits {α} (ops : NumOps α) (q : Q α) (db : List (Fit α)) : List (Fit α) :=
  db.filter fun f => sem ops f q f.inst

def directFits {α} (ops : NumOps α) (p : Pred α) (db : List (Fit α)) : List (Fit α) :=
  db.filter fun f => evalDirect ops f p

/-! ## ordering -/

structure OrderKey where
  attr : String
  reverse : Bool := false
  deriving Repr, Inhabited, DecidableEq

/-- order of one column; NULL first (SQLite), `le` on numbers supplied -/
def avalLe {α} (numLe : α → α → Bool) : AVal α → AVal α → Bool
  | .null, _ => true
  | _, .null => false
  | .bool a, .bool b => !a || b
  | .bool _, _ => true
  | _, .bool _ => false
  | .num a, .num b => numLe a b
  | .num _, _ => true
  | _, .num _ => false
  | .str a, .str b => !decide (b < a)

/-- `ORDER BY k1 [DESC], k2 [DESC], …` as a comparison: first key takes precedence -/
def lexLe {α} (numLe : α → α → Bool) : List OrderKey → Fit α → Fit α → Bool
  | [], _, _ => true
  | k :: ks, x, y =>
    let a := if k.reverse then y.attr k.attr else x.attr k.attr
    let b := if k.reverse then x.attr k.attr else y.attr k.attr
    if avalLe numLe a b && !avalLe numLe b a then true
    else if avalLe numLe b a && !avalLe numLe a b then false
    else lexLe numLe ks x y

/-- stable insertion sort (`le x y` keeps `x`, which came first, in front of `y`) -/
def insertBy {β} (le : β → β → Bool) (x : β) : List β → List β
  | [] => [x]
  | y :: ys => if le x y then x :: y :: ys else y :: insertBy le x ys

def isort {β} (le : β → β → Bool) : List β → List β
  | [] => []
  | x :: xs => insertBy le x (isort le xs)

def orderBy {α} (numLe : α → α → Bool) (keys : List OrderKey) (l : List (Fit α)) : List (Fit α) :=
  isort (lexLe numLe keys) l

/-! ## slicing -/

/-- offset / limit of an aggregator -/
structure Window where
  off : Nat := 0
  lim : Option Nat := Option.none
  deriving Repr, DecidableEq, Inhabited

def Window.apply {β} (w : Window) (l : List β) : List β :=
  match w.lim with
  | Option.none => l.drop w.off
  | some n => (l.drop w.off).take n

/-- python index normalisation of a slice bound against length `len` -/
def normIdx (len : Nat) (i : Int) : Nat :=
  if i < 0 then ((len : Int) + i).toNat else min i.toNat len

/-- python `l[start:stop]` -/
def pySlice {β} (l : List β) (start stop : Option Int) : List β :=
  let s := (start.map (normIdx l.length)).getD 0
  let e := (stop.map (normIdx l.length)).getD l.length
  (l.drop s).take (e - s)

/-- offset/limit handed to SQL: negative offset counts as 0, negative limit as no limit (SQLite) -/
def windowOfInts (off : Int) (lim : Option Int) : Window :=
  { off := off.toNat, lim := match lim with
      | Option.none => Option.none
      | some n => if n < 0 then Option.none else some n.toNat }

/-- `Aggregator.__getitem__(slice(start, stop))` on an aggregator with window `w` and `len` fits -/
def sliceWindow (cfg : Cfg) (w : Window) (len : Nat) (start stop : Option Int) : Window :=
  if cfg.sliceWindow then
    let s := (start.map (normIdx len)).getD 0
    let e := (stop.map (normIdx len)).getD len
    { off := w.off + s, lim := some (e - s) }
  else
    -- arithmetic of the pinned commit
    let off : Int := match start with
      | Option.none => w.off
      | some a => if a ≥ 0 then w.off + a else len + a
    let lim : Option Int := match stop with
      | Option.none => w.lim.map Int.ofNat
      | some b => if b ≥ 0 then some (len - b - off) else some (len + b)
    windowOfInts off lim

/-- a chain of slices applied to the ordered result: each step sees the length of the current window -/
def sliceChain {β} (cfg : Cfg) (full : List β) : Window → List (Option Int × Option Int) → Window
  | w, [] => w
  | w, (a, b) :: rest => sliceChain cfg full (sliceWindow cfg w (w.apply full).length a b) rest

/-- everything `Aggregator.query(p).order_by(…)[a:b]….fits` does -/
def run {α} (ops : NumOps α) (numLe : α → α → Bool) (cfg : Cfg) (db : List (Fit α)) (p : Option (Pred α))
    (keys : List OrderKey) (slices : List (Option Int × Option Int)) : List (Fit α) :=
  let sel := match p with
    | some p => queryFits ops (compileTop cfg p) db
    | Option.none => db
  let full := orderBy numLe keys sel
  (sliceChain cfg full {} slices).apply full

/-! ## a last slice with a step: answered from the loaded list

`Aggregator.__getitem__` hands a slice whose step is neither `None` nor `1` to the *list* of its fits
(`self.fits[item]`): the result is a plain list (no further aggregator operations), Python's
`slice.indices` + `range` semantics, negative steps included. -/

/-- the indices `range(*slice(start, stop, step).indices(len))` for `step ≠ 0` -/
def sliceIndices (len : Nat) (start stop : Option Int) (step : Int) : List Nat :=
  let n : Int := len
  if step > 0 then
    let norm := fun (i : Int) => if i < 0 then max (i + n) 0 else min i n
    let s := (start.map norm).getD 0
    let e := (stop.map norm).getD n
    ((List.range len).map (fun (k : Nat) => s + Int.ofNat k * step)).takeWhile (fun i => decide (i < e)) |>.map Int.toNat
  else
    let norm := fun (i : Int) => if i < 0 then max (i + n) (-1) else min i (n - 1)
    let s := (start.map norm).getD (n - 1)
    let e := (stop.map norm).getD (-1)
    ((List.range len).map (fun (k : Nat) => s + Int.ofNat k * step)).takeWhile (fun i => decide (i > e)) |>.map Int.toNat

/-- python `l[start:stop:step]` -/
def pySliceStep {β} (l : List β) (start stop : Option Int) (step : Int) : List β :=
  (sliceIndices l.length start stop step).filterMap (fun i => l[i]?)

/-- `Aggregator.query(p).order_by(…)[a:b]…[c:d:step].fits`-like: `run`, then an optional stepped slice -/
def runStep {α} (ops : NumOps α) (numLe : α → α → Bool) (cfg : Cfg) (db : List (Fit α)) (p : Option (Pred α))
    (keys : List OrderKey) (slices : List (Option Int × Option Int))
    (last : Option (Option Int × Option Int × Int)) : List (Fit α) :=
  match last with
  | Option.none => run ops numLe cfg db p keys slices
  | some (a, b, st) => pySliceStep (run ops numLe cfg db p keys slices) a b st

#guard pySliceStep [0, 1, 2, 3, 4] none none (-1) = [4, 3, 2, 1, 0]
#guard pySliceStep [0, 1, 2, 3, 4] (some 4) (some 1) (-1) = [4, 3, 2]
#guard pySliceStep [0, 1, 2, 3, 4] none none (-2) = [4, 2, 0]
#guard pySliceStep [0, 1, 2, 3, 4] (some 1) none 2 = [1, 3]
#guard pySliceStep [0, 1, 2, 3, 4] (some (-2)) (some (-9)) (-1) = [3, 2, 1, 0]
#guard pySliceStep [0, 1, 2, 3, 4] (some 9) (some 0) (-3) = [4, 1]
#guard pySliceStep ([] : List Nat) none none (-1) = []
#guard pySliceStep [0, 1, 2] (some 5) none 2 = []

/-! ## rendering (debug / branch statistics only) -/

mutual
def Q.render {α} : Q α → String
  | .value _ _ => "V"
  | .strv _ _ => "S"
  | .isNone => "0"
  | .type _ => "T"
  | .fitc _ => "F"
  | .named n inv c => (if inv then "!" else "") ++ n ++ "(" ++ c.render ++ ")"
  | .inverted q => "~(" ++ q.render ++ ")"
  | .and cs => "&[" ++ renderAll cs ++ "]"
  | .or cs => "|[" ++ renderAll cs ++ "]"
def renderAll {α} : List (Q α) → String
  | [] => ""
  | [c] => c.render
  | c :: cs => c.render ++ "," ++ renderAll cs
end

end AF.Query
