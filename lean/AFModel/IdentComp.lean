import AFModel.Comp
import AFModel.Ident

/-!
# IdentComp — the identifier as a function of the model composition (C07)

`CNode` is a model composition *as the identifier meets it*: the composition of `AFModel/Comp.lean`
(`Model`, `Collection`, `TuplePrior`, priors, constants, compound / modified arithmetic priors, `Array`)
together with everything the objects carry besides (`Meta`: internal id, label, assertions), the prior
types and prior parameters, class paths, the `item_number` of a collection, the operand names of
arithmetic priors, and components fixed to instances (`inst`, `minst`, `seq`).

* `reflect : CNode → PyVal` rebuilds the `__dict__` graph the real objects have (private keys, `id`,
  `_left` / `_right`, … included) — `tokens (reflect t)` is then what `Identifier(model).hash_list` is.
* `ctokens : CNode → List String` is the closed form: the tokens written directly from the
  composition, with no mention of `Meta`. `AFProofs/C07.lean: tokens_reflect` proves both equal, so
  ids, labels, creation order and assertions provably cannot enter.

Core Lean only.
-/

namespace AF

/-- the prior classes of `autofit/mapper/prior` -/
inductive PriorKind | uniform | logUniform | gaussian | logGaussian
  deriving DecidableEq, Repr, Inhabited

/-- `prior.__class__.__name__` -/
def PriorKind.className : PriorKind → String
  | .uniform => "UniformPrior"
  | .logUniform => "LogUniformPrior"
  | .gaussian => "GaussianPrior"
  | .logGaussian => "LogGaussianPrior"

/-- `__identifier_fields__` is `(lower_limit, upper_limit)` or `(lower_limit, upper_limit, mean, sigma)` -/
def PriorKind.hasMeanSigma : PriorKind → Bool
  | .uniform => false
  | .logUniform => false
  | .gaussian => true
  | .logGaussian => true

/-- class names of the `CompoundPrior` subclasses (`a - b` is `SumPrior(a, NegativePrior(b))`: the
    code has no class for `sub`; the name is only there to make the function total) -/
def BinOp.className : BinOp → String
  | .add => "SumPrior"
  | .sub => "SubtractPrior"
  | .mul => "MultiplePrior"
  | .div => "DivisionPrior"
  | .floordiv => "FloorDivPrior"
  | .mod => "ModPrior"
  | .pow => "PowerPrior"

/-- class names of the `ModifiedPrior` subclasses -/
def UnOp.className : UnOp → String
  | .neg => "NegativePrior"
  | .abs => "AbsolutePrior"
  | .log => "Log"
  | .log10 => "Log10"

/-- what a model object carries besides its composition -/
structure Meta where
  /-- internal id (creation order) -/
  id : Nat
  label : Option String
  /-- `_assertions` (descriptions; their content never matters here) -/
  asserts : List String
  deriving Inhabited, Repr

inductive CNode where
  /-- a prior: type and parameters (`mean` / `sigma` are read for the Gaussian kinds only) -/
  | prior (m : Meta) (kind : PriorKind) (lo hi mean sigma : UInt64)
  /-- a fixed float -/
  | flt (bits : UInt64)
  | int (i : Int)
  | bool (b : Bool)
  | str (s : String)
  /-- `None`, or a value the identifier cannot look into -/
  | none
  /-- `af.Model(cls)`: `clsPath = get_class_path(cls)`; `attrs` = public `__dict__` after `cls` -/
  | model (m : Meta) (clsPath : String) (attrs : List (String × CNode))
  /-- `af.Collection`: `item_number` counts the items that were given by position -/
  | coll (m : Meta) (itemNumber : Nat) (attrs : List (String × CNode))
  | tuple (m : Meta) (attrs : List (String × CNode))
  /-- `CompoundPrior(left, right)`: the operands are stored under `_left` / `_right` and *also* under
      the names `retrieve_name` found for them -/
  | arith (m : Meta) (op : BinOp) (lname rname : String) (l r : CNode)
  /-- `ModifiedPrior(prior)`: the operand is stored under the name found for it -/
  | modif (m : Meta) (op : UnOp) (name : String) (x : CNode)
  /-- `af.Array` -/
  | array (m : Meta) (shape : List Nat) (indices : List (List Nat)) (attrs : List (String × CNode))
  /-- a component fixed to an instance of a user class; `ctor` = constructor argument names -/
  | inst (clsName : String) (ctor : List String) (dict : List (String × CNode))
  /-- a `ModelInstance` (the instance of an earlier fit passed on whole) -/
  | minst (m : Meta) (attrs : List (String × CNode))
  /-- a list / tuple of values inside a fixed instance -/
  | seq (items : List CNode)
  deriving Inhabited

/-! ## the reflection: the `__dict__` graph of the real objects -/

/-- the private part of a model object's `__dict__` -/
def Meta.fields (m : Meta) : List (String × PyVal) :=
  [("_is_frozen", .bool false), ("_frozen_cache", .dict []), ("id", .int (Int.ofNat m.id)),
   ("_label", match m.label with | some s => .str s | none => .none),
   ("_assertions", .iter (m.asserts.map .str))]

def natVals (l : List Nat) : List PyVal := l.map (fun n => .int (Int.ofNat n))

/-- `getattr(prior, k) for k in __identifier_fields__` -/
def priorIdFields (k : PriorKind) (lo hi mean sigma : UInt64) : List (String × PyVal) :=
  [("lower_limit", .float lo), ("upper_limit", .float hi)] ++
    (if k.hasMeanSigma then [("mean", .float mean), ("sigma", .float sigma)] else [])

mutual
def reflect : CNode → PyVal
  | .prior m k lo hi mean sigma =>
      .obj k.className true (some (priorIdFields k lo hi mean sigma)) [] none m.fields
  | .flt b => .float b
  | .int i => .int i
  | .bool b => .bool b
  | .str s => .str s
  | .none => .none
  | .model m path attrs => .obj "Model" true none [] none (m.fields ++ ("cls", .cls path) :: reflectAttrs attrs)
  | .coll m n attrs =>
      .obj "Collection" true none [] none (m.fields ++ ("item_number", .int (Int.ofNat n)) :: reflectAttrs attrs)
  | .tuple m attrs => .obj "TuplePrior" true none [] none (m.fields ++ reflectAttrs attrs)
  | .arith m op ln rn l r =>
      -- `self._left = left; setattr(self, self._left_name, left)`, then the same for the right operand
      .obj op.className true none [] none
        (m.fields ++ [("_left_name", .str ln), ("_right_name", .str rn), ("_left", reflect l), ("_right", reflect r)]
          ++ (if ln = rn then [(rn, reflect r)] else [(ln, reflect l), (rn, reflect r)]))
  | .modif m op name x =>
      .obj op.className true none [] none (m.fields ++ [("_prior_name", .str name), (name, reflect x)])
  | .array m shape indices attrs =>
      .obj "Array" true none [] none
        (m.fields ++ ("shape", .iter (natVals shape)) :: ("indices", .iter (indices.map (fun ix => .iter (natVals ix))))
          :: reflectAttrs attrs)
  | .inst cls ctor d => .obj cls false none ctor none (reflectAttrs d)
  | .minst m attrs => .obj "ModelInstance" true none [] none (m.fields ++ reflectAttrs attrs)
  | .seq items => .iter (reflectList items)
def reflectAttrs : List (String × CNode) → List (String × PyVal)
  | [] => []
  | (k, v) :: rest => (k, reflect v) :: reflectAttrs rest
def reflectList : List CNode → List PyVal
  | [] => []
  | v :: rest => reflect v :: reflectList rest
end

/-! ## the closed form -/

def natTokens (l : List Nat) : List String := l.map (fun n => toString (Int.ofNat n))

def indexTokens : List (List Nat) → List String
  | [] => []
  | ix :: rest => natTokens ix ++ indexTokens rest

def priorTokens (k : PriorKind) (lo hi mean sigma : UInt64) : List String :=
  ["lower_limit", floatToken lo, "upper_limit", floatToken hi] ++
    (if k.hasMeanSigma then ["mean", floatToken mean, "sigma", floatToken sigma] else [])

mutual
/-- the token list of a composition, written without any reference to `Meta` -/
def ctokens : CNode → List String
  | .prior _ k lo hi mean sigma => k.className :: priorTokens k lo hi mean sigma
  | .flt b => [floatToken b]
  | .int i => [toString i]
  | .bool b => [if b then "True" else "False"]
  | .str s => [s]
  | .none => []
  | .model _ path attrs => "Model" :: "cls" :: path :: ctokensAttrs (fun _ => true) attrs
  | .coll _ n attrs => "Collection" :: "item_number" :: toString (Int.ofNat n) :: ctokensAttrs (fun _ => true) attrs
  | .tuple _ attrs => "TuplePrior" :: ctokensAttrs (fun _ => true) attrs
  | .arith _ op ln rn l r =>
      op.className :: (if ln = rn then (if skipKey rn then [] else rn :: ctokens r)
        else (if skipKey ln then [] else ln :: ctokens l) ++ (if skipKey rn then [] else rn :: ctokens r))
  | .modif _ op name x => op.className :: (if skipKey name then [] else name :: ctokens x)
  | .array _ shape indices attrs =>
      "Array" :: "shape" :: (natTokens shape ++ "indices" :: (indexTokens indices ++ ctokensAttrs (fun _ => true) attrs))
  | .inst cls ctor d => cls :: ctokensAttrs (keepField false ctor none) d
  | .minst _ attrs => "ModelInstance" :: ctokensAttrs (fun _ => true) attrs
  | .seq items => ctokensList items
def ctokensAttrs (keep : String → Bool) : List (String × CNode) → List String
  | [] => []
  | (k, v) :: rest => (if keep k && !skipKey k then k :: ctokens v else []) ++ ctokensAttrs keep rest
def ctokensList : List CNode → List String
  | [] => []
  | v :: rest => ctokens v ++ ctokensList rest
end

/-! ## what may vary without being part of the composition -/

mutual
/-- rewrite every `Meta` (ids, labels, assertions) -/
def CNode.mapMeta (f : Meta → Meta) : CNode → CNode
  | .prior m k lo hi mean sigma => .prior (f m) k lo hi mean sigma
  | .flt b => .flt b
  | .int i => .int i
  | .bool b => .bool b
  | .str s => .str s
  | .none => .none
  | .model m path attrs => .model (f m) path (mapMetaAttrs f attrs)
  | .coll m n attrs => .coll (f m) n (mapMetaAttrs f attrs)
  | .tuple m attrs => .tuple (f m) (mapMetaAttrs f attrs)
  | .arith m op ln rn l r => .arith (f m) op ln rn (l.mapMeta f) (r.mapMeta f)
  | .modif m op name x => .modif (f m) op name (x.mapMeta f)
  | .array m shape indices attrs => .array (f m) shape indices (mapMetaAttrs f attrs)
  | .inst cls ctor d => .inst cls ctor (mapMetaAttrs f d)
  | .minst m attrs => .minst (f m) (mapMetaAttrs f attrs)
  | .seq items => .seq (mapMetaList f items)
def mapMetaAttrs (f : Meta → Meta) : List (String × CNode) → List (String × CNode)
  | [] => []
  | (k, v) :: rest => (k, v.mapMeta f) :: mapMetaAttrs f rest
def mapMetaList (f : Meta → Meta) : List CNode → List CNode
  | [] => []
  | v :: rest => v.mapMeta f :: mapMetaList f rest
end

/-- rename the internal ids (any map: creation order, offsets, even merging two ids) -/
def CNode.renameIds (σ : Nat → Nat) : CNode → CNode := CNode.mapMeta (fun m => { m with id := σ m.id })

/-- relabel -/
def CNode.relabel (f : Option String → Option String) : CNode → CNode :=
  CNode.mapMeta (fun m => { m with label := f m.label })

/-- replace the assertions -/
def CNode.setAsserts (f : List String → List String) : CNode → CNode :=
  CNode.mapMeta (fun m => { m with asserts := f m.asserts })

mutual
/-- ids of the priors at the places of a composition, in walk order (the sharing pattern is which
    of these are equal) -/
def CNode.priorIds : CNode → List Nat
  | .prior m _ _ _ _ _ => [m.id]
  | .model _ _ attrs => priorIdsAttrs attrs
  | .coll _ _ attrs => priorIdsAttrs attrs
  | .tuple _ attrs => priorIdsAttrs attrs
  | .arith _ _ _ _ l r => l.priorIds ++ r.priorIds
  | .modif _ _ _ x => x.priorIds
  | .array _ _ _ attrs => priorIdsAttrs attrs
  | .inst _ _ _ => []
  | .minst _ _ => []
  | .seq _ => []
  | _ => []
def priorIdsAttrs : List (String × CNode) → List Nat
  | [] => []
  | (_, v) :: rest => v.priorIds ++ priorIdsAttrs rest
end

/-! ## one-hole contexts of a composition -/

/-- one step from a component to its parent -/
inductive CStep where
  | modelAttr (m : Meta) (path : String) (pre : List (String × CNode)) (k : String) (post : List (String × CNode))
  | collAttr (m : Meta) (n : Nat) (pre : List (String × CNode)) (k : String) (post : List (String × CNode))
  | tupleAttr (m : Meta) (pre : List (String × CNode)) (k : String) (post : List (String × CNode))
  | arrayAttr (m : Meta) (shape : List Nat) (indices : List (List Nat)) (pre : List (String × CNode)) (k : String)
      (post : List (String × CNode))
  | instAttr (cls : String) (ctor : List String) (pre : List (String × CNode)) (k : String) (post : List (String × CNode))
  | minstAttr (m : Meta) (pre : List (String × CNode)) (k : String) (post : List (String × CNode))
  /-- the left operand of an arithmetic prior (the right one is `r`) -/
  | arithLeft (m : Meta) (op : BinOp) (ln rn : String) (r : CNode)
  | arithRight (m : Meta) (op : BinOp) (ln rn : String) (l : CNode)
  | modifArg (m : Meta) (op : UnOp) (name : String)
  | seqElem (pre post : List CNode)

def CStep.plug : CStep → CNode → CNode
  | .modelAttr m path pre k post, v => .model m path (pre ++ (k, v) :: post)
  | .collAttr m n pre k post, v => .coll m n (pre ++ (k, v) :: post)
  | .tupleAttr m pre k post, v => .tuple m (pre ++ (k, v) :: post)
  | .arrayAttr m sh ix pre k post, v => .array m sh ix (pre ++ (k, v) :: post)
  | .instAttr cls ctor pre k post, v => .inst cls ctor (pre ++ (k, v) :: post)
  | .minstAttr m pre k post, v => .minst m (pre ++ (k, v) :: post)
  | .arithLeft m op ln rn r, v => .arith m op ln rn v r
  | .arithRight m op ln rn l, v => .arith m op ln rn l v
  | .modifArg m op name, v => .modif m op name v
  | .seqElem pre post, v => .seq (pre ++ v :: post)

/-- the place is one the identifier looks at: a public name (for a fixed instance: a constructor
    argument); the left operand of an arithmetic prior is seen only if its name is not also the
    right operand's -/
def CStep.visible : CStep → Prop
  | .modelAttr _ _ _ k _ => skipKey k = false
  | .collAttr _ _ _ k _ => skipKey k = false
  | .tupleAttr _ _ k _ => skipKey k = false
  | .arrayAttr _ _ _ _ k _ => skipKey k = false
  | .instAttr _ ctor _ k _ => keepField false ctor none k = true ∧ skipKey k = false
  | .minstAttr _ _ k _ => skipKey k = false
  | .arithLeft _ _ ln rn _ => ln ≠ rn ∧ skipKey ln = false
  | .arithRight _ _ _ rn _ => skipKey rn = false
  | .modifArg _ _ name => skipKey name = false
  | .seqElem _ _ => True

/-- plug a component into a context (innermost step first) -/
def cplug : List CStep → CNode → CNode
  | [], v => v
  | s :: rest, v => cplug rest (s.plug v)

/-- `[search, model]` or `[search, model, unique_tag]`: what `AbstractPaths._identifier` and
    `SearchOutput.id` hash -/
def fitVal (search : PyVal) (t : CNode) (tag : Option String) : PyVal :=
  .iter (search :: reflect t :: (match tag with | some s => [.str s] | none => []))

end AF
