/-!
# Msg — executable model of `autofit.messages` (property C17)

Mirrors (hand-written, tied to the code by the correspondence harness `harness/c17.py`):

* `NormalMessage / NaturalNormal / GammaMessage / BetaMessage / FixedMessage`
  `.calc_natural_parameters`, `.invert_natural_parameters`        → `calcNatural`, `invertNatural`
* `AbstractMessage.from_natural_parameters`                           → `fromNatural`
* `MessageInterface.sum_natural_parameters / sub_natural_parameters`,
  `AbstractMessage.__mul__ / __truediv__ / __pow__` (message and scalar operands), including what
  they do to `log_norm`, `id`, `lower_limit`, `upper_limit`; `FixedMessage._no_op`
                                                                     → `Base.mul`, `Base.div`, `Base.pow`, `Base.smul`, `Base.sdiv`
* `TransformedMessage.with_base` + the `arithmetic` decorator          → `M.mul`, `M.div`, `M.pow`, `M.smul`, `M.sdiv`
* `NormalMessage.natural`                                             → `Base.toNatural`
* `check_finite / check_support / is_valid`                          → `Base.isValid`
* `mean`, `variance`                                                  → `Base.mean`, `Base.variance`
* `invert_sufficient_statistics`, `from_sufficient_statistics`, `AbstractMessage.project`
  (Normal, NaturalNormal)                                             → `invertSuff`, `fromSuff`, `projectW`, `project`
* `MessageInterface.logpdf` for the normal family, `NormalMessage.cdf`, `.value_for`
                                                                     → `Base.logpdf`, `Base.cdf`, `Base.valueFor`
* `transform.py` (`LinearShiftTransform`, `log_transform`, `log_10_transform`, `exp_transform`,
  `phi_transform`): `transform`, `inv_transform`, `log_det`           → `Tr.apply`, `Tr.inv`, `Tr.logDet`
* `TransformedMessage._transform / _inverse_transform / _transform_det / factor / cdf / value_for /
  mean`                                                               → `transformChain`, `inverseChain`, `transformDet`, `M.factor`, …

Four behaviours are modelled as *repaired* (fixes/C17-*.patch; the unchanged code violated the property
there): `NormalMessage.natural` keeps the natural parameters, `TransformedMessage.with_base` keeps the
limits, `TransformedMessage.project` maps the samples to the base space, `inv_beta_suffstats` runs under
numpy 2. What the code does outside the natural-parameter domain (NaN after the detour through
`mean, sigma`) is mirrored as it is.

The number type `K` is a parameter: the driver runs the definitions on IEEE doubles (`Float`), the
theorems are proved for every field (and for `ℝ`). The functions the code takes from numpy/scipy
(`sqrt log exp log10 10** ndtr ndtri erfinv norm_pdf`, the two infinities, `isfinite`, `<=`, `max`)
are the fields of `Fn K`; the theorems state exactly which laws of them they use.
Parameters are scalars: the code works element-wise on arrays and the harness compares element by
element. Core Lean only.
-/

namespace AF.Msg

inductive Family where
  | normal | naturalNormal | gamma | beta | fixed
  deriving DecidableEq, Repr, Inhabited

/-- what the code obtains from numpy / scipy / IEEE -/
structure Fn (K : Type) where
  sqrt : K → K
  log : K → K
  exp : K → K
  log10 : K → K
  /-- `10 ** x` -/
  exp10 : K → K
  /-- `scipy.special.ndtr` -/
  ndtr : K → K
  /-- `transform.ndtri` (scipy's `ndtri` after the code's clamping of 0 and 1) -/
  ndtri : K → K
  /-- `scipy.special.erfinv` -/
  erfinv : K → K
  /-- `scipy.stats._continuous_distns._norm_pdf` -/
  normPdf : K → K
  negInf : K
  posInf : K
  /-- `0.5 * log(2π)` : minus `NormalMessage.log_base_measure` -/
  halfLog2Pi : K
  isFinite : K → Bool
  le : K → K → Bool
  max : K → K → K

section
variable {K : Type} [Add K] [Sub K] [Mul K] [Div K] [Neg K] [OfNat K 0] [OfNat K 1] [OfNat K 2]

/-! ## base messages -/

/-- a base message; `p1 p2` are the constructor's ordinary parameters
(`mean sigma` / `eta1 eta2` / `alpha beta` / `value, -`) -/
structure Base (K : Type) where
  fam : Family
  p1 : K
  p2 : K
  logNorm : K
  id : Nat
  lower : K
  upper : K
  deriving Repr, Inhabited

/-- `calc_natural_parameters` -/
def calcNatural (fam : Family) (p1 p2 : K) : K × K :=
  match fam with
  | .normal =>
      let precision := 1 / (p2 * p2)
      (p1 * precision, -precision / 2)
  | .naturalNormal => (p1, p2)
  | .gamma => (p1 - 1, -p2)
  | .beta => (p1 - 1, p2 - 1)
  | .fixed => (p1, p2)

/-- `invert_natural_parameters` -/
def invertNatural (fn : Fn K) (fam : Family) (eta : K × K) : K × K :=
  match fam with
  | .normal => (-(1 / 2) * eta.1 / eta.2, fn.sqrt (-(1 / 2) / eta.2))
  | .naturalNormal => eta
  | .gamma => (eta.1 + 1, -eta.2)
  | .beta => (eta.1 + 1, eta.2 + 1)
  | .fixed => eta

/-- `message.natural_parameters` -/
def Base.natural (a : Base K) : K × K := calcNatural a.fam a.p1 a.p2

/-- `cls.from_natural_parameters(eta, log_norm=…, id_=…, lower_limit=…, upper_limit=…)` -/
def fromNatural (fn : Fn K) (fam : Family) (eta : K × K) (logNorm : K) (id : Nat) (lower upper : K) :
    Base K :=
  let p := invertNatural fn fam eta
  { fam := fam, p1 := p.1, p2 := p.2, logNorm := logNorm, id := id, lower := lower, upper := upper }

/-- `a * b` (`sum_natural_parameters`): the product keeps the left operand's class, id and limits and
*drops* `log_norm` ("unnormalised result"); a `FixedMessage` returns itself -/
def Base.mul (fn : Fn K) (a : Base K) (eb : K × K) : Base K :=
  match a.fam with
  | .fixed => a
  | _ =>
    let ea := a.natural
    fromNatural fn a.fam (ea.1 + eb.1, ea.2 + eb.2) 0 a.id a.lower a.upper

/-- `a / b` (`sub_natural_parameters`) -/
def Base.div (fn : Fn K) (a : Base K) (eb : K × K) (logNormB : K) : Base K :=
  match a.fam with
  | .fixed => a
  | _ =>
    let ea := a.natural
    fromNatural fn a.fam (ea.1 - eb.1, ea.2 - eb.2) (a.logNorm - logNormB) a.id a.lower a.upper

/-- `a ** k` -/
def Base.pow (fn : Fn K) (a : Base K) (k : K) : Base K :=
  match a.fam with
  | .fixed => a
  | _ =>
    let ea := a.natural
    fromNatural fn a.fam (k * ea.1, k * ea.2) (k * a.logNorm) a.id a.lower a.upper

/-- `a * c`, `c * a` for a real number `c`: only `log_norm` moves -/
def Base.smul (fn : Fn K) (a : Base K) (c : K) : Base K :=
  match a.fam with
  | .fixed => a
  | _ => { a with logNorm := a.logNorm + fn.log c }

/-- `a / c` for a real number `c` (also for a `FixedMessage`: `__truediv__` is not overridden) -/
def Base.sdiv (fn : Fn K) (a : Base K) (c : K) : Base K :=
  { a with logNorm := a.logNorm - fn.log c }

/-- `NormalMessage.natural`: the same distribution as a `NaturalNormal` (same log_norm, id, limits) -/
def Base.toNatural (a : Base K) : Base K :=
  match a.fam with
  | .normal =>
    let e := a.natural
    { a with fam := .naturalNormal, p1 := e.1, p2 := e.2 }
  | _ => a

/-- `is_valid`: natural parameters finite and ordinary parameters inside `_parameter_support` -/
def Base.isValid (fn : Fn K) (a : Base K) : Bool :=
  let e := a.natural
  let within (p lo hi : K) : Bool := fn.le lo p && fn.le p hi
  match a.fam with
  | .fixed => fn.isFinite e.1
  | .normal =>
    fn.isFinite e.1 && fn.isFinite e.2 && within a.p1 fn.negInf fn.posInf && within a.p2 0 fn.posInf
  | .naturalNormal =>
    fn.isFinite e.1 && fn.isFinite e.2 && within a.p1 fn.negInf fn.posInf && within a.p2 fn.negInf 0
  | .gamma | .beta =>
    fn.isFinite e.1 && fn.isFinite e.2 && within a.p1 0 fn.posInf && within a.p2 0 fn.posInf

/-- `message.mean` -/
def Base.mean (a : Base K) : K :=
  match a.fam with
  | .normal => a.p1
  | .naturalNormal => -a.p1 / a.p2 / 2
  | .gamma => a.p1 / a.p2
  | .beta => a.p1 / (a.p1 + a.p2)
  | .fixed => a.p1

/-- `message.variance` -/
def Base.variance (fn : Fn K) (a : Base K) : K :=
  match a.fam with
  | .normal => a.p2 * a.p2
  | .naturalNormal =>
    let sigma := 1 / fn.sqrt (-(2 * a.p2))
    sigma * sigma
  | .gamma => a.p1 / (a.p2 * a.p2)
  | .beta => a.p1 * a.p2 / ((a.p1 + a.p2) * (a.p1 + a.p2)) / (a.p1 + a.p2 + 1)
  | .fixed => 0

/-- `sigma` of the normal family -/
def Base.sigma (fn : Fn K) (a : Base K) : K :=
  match a.fam with
  | .naturalNormal => 1 / fn.sqrt (-(2 * a.p2))
  | _ => a.p2

/-! ## sufficient statistics and projection (normal family) -/

/-- `invert_sufficient_statistics` of `NormalMessage` / `NaturalNormal`: natural parameters of the
member whose first two moments are `m1 m2` -/
def invertSuff (fn : Fn K) (fam : Family) (m1 m2 : K) : K × K :=
  match fam with
  | .naturalNormal =>
    let precision := 1 / (m2 - m1 * m1)
    (m1 * precision, -precision / 2)
  | _ =>
    let sigma := fn.sqrt (m2 - m1 * m1)
    calcNatural .normal m1 sigma

/-- `cls.from_sufficient_statistics(suff_stats, log_norm=…)`; the id is a fresh one -/
def fromSuff (fn : Fn K) (fam : Family) (m1 m2 logNorm : K) (id : Nat) : Base K :=
  fromNatural fn fam (invertSuff fn fam m1 m2) logNorm id fn.negInf fn.posInf

def sumL : List K → K
  | [] => 0
  | x :: xs => x + sumL xs

variable [NatCast K]

/-- `np.mean` -/
def meanL (xs : List K) : K := sumL xs / (xs.length : K)

/-- the two sufficient statistics `project` hands to `from_sufficient_statistics`, from samples `xs`
and *linear* weights `ws`: `w /= w.mean(); (t(x) * w).mean()` with `t(x) = (x, x²)` -/
def weightedStats (xs ws : List K) : K × K :=
  let norm := meanL ws
  let w := ws.map (· / norm)
  (meanL (List.zipWith (· * ·) xs w), meanL (List.zipWith (fun x w => x * x * w) xs w))

/-- `cls.project(samples, log_weight_list)` for the normal family, given the linear weights -/
def projectW (fn : Fn K) (fam : Family) (xs ws : List K) (logNorm : K) (id : Nat) : Base K :=
  let s := weightedStats xs ws
  fromSuff fn fam s.1 s.2 logNorm id

/-- `cls.project(samples, log_weight_list)`: weights are `exp(lw - max lw)`,
`log_norm = log(mean w) + max lw` -/
def project (fn : Fn K) (fam : Family) (xs lws : List K) (id : Nat) : Base K :=
  match lws with
  | [] => projectW fn fam xs [] 0 id
  | l :: ls =>
    let mx := ls.foldl fn.max l
    let ws := lws.map (fun lw => fn.exp (lw - mx))
    projectW fn fam xs ws (fn.log (meanL ws) + mx) id

end

section
variable {K : Type} [Add K] [Sub K] [Mul K] [Div K] [Neg K] [OfNat K 0] [OfNat K 1] [OfNat K 2]

/-! ## densities of the normal family -/

/-- `NormalMessage.log_partition` as a function of the natural parameters -/
def normalLogPartition (fn : Fn K) (eta : K × K) : K :=
  -(eta.1 * eta.1) / (2 + 2) / eta.2 - fn.log (-(2 * eta.2)) / 2

/-- `message.logpdf(x)` for `NormalMessage` / `NaturalNormal`:
`log_base_measure + η·t(x) − A(η)` with `t(x) = (x, x²)` -/
def Base.logpdf (fn : Fn K) (a : Base K) (x : K) : K :=
  let e := a.natural
  (-fn.halfLog2Pi) + (e.1 * x + e.2 * (x * x)) - normalLogPartition fn e

/-- `NormalMessage.cdf(x)` = `scipy.stats.norm.cdf(x, loc=mean, scale=sigma)` -/
def Base.cdf (fn : Fn K) (a : Base K) (x : K) : K :=
  fn.ndtr ((x - a.mean) / a.sigma fn)

/-- `NormalMessage.value_for(unit)` -/
def Base.valueFor (fn : Fn K) (a : Base K) (u : K) : K :=
  a.mean + a.sigma fn * fn.sqrt 2 * fn.erfinv (1 - 2 * (1 - u))

/-! ## transforms -/

inductive Tr (K : Type) where
  /-- `phi_transform`: x ↦ Φ⁻¹(x) -/
  | phi
  /-- `log_transform` -/
  | log
  /-- `log_10_transform` -/
  | log10
  /-- `exp_transform` -/
  | exp
  /-- `LinearShiftTransform(shift, scale)`: x ↦ (x − shift) / scale -/
  | shift (shift scale : K)
  deriving Repr, Inhabited

/-- `transform.transform(x)`: from the space of the transformed message towards the base message -/
def Tr.apply (fn : Fn K) (t : Tr K) (x : K) : K :=
  match t with
  | .phi => fn.ndtri x
  | .log => fn.log x
  | .log10 => fn.log10 x
  | .exp => fn.exp x
  | .shift s c => (x - s) / c

/-- `transform.inv_transform(x)` -/
def Tr.inv (fn : Fn K) (t : Tr K) (x : K) : K :=
  match t with
  | .phi => fn.ndtr x
  | .log => fn.exp x
  | .log10 => fn.exp10 x
  | .exp => fn.log x
  | .shift s c => x * c + s

/-- `transform.log_det(x)` = log |d transform / dx| -/
def Tr.logDet (fn : Fn K) (t : Tr K) (x : K) : K :=
  match t with
  | .phi => fn.log (1 / fn.normPdf (fn.ndtri x))
  | .log => fn.log (1 / x)
  | .log10 => fn.log (1 / x / fn.log (2 + 2 + 2 + 2 + 2))
  | .exp => fn.log (fn.exp x)
  | .shift _ c => -fn.log c

/-- `transform.jacobian(x)` (a diagonal operator): d transform / dx; `logDet` is its logarithm -/
def Tr.grad (fn : Fn K) (t : Tr K) (x : K) : K :=
  match t with
  | .phi => 1 / fn.normPdf (fn.ndtri x)
  | .log => 1 / x
  | .log10 => 1 / x / fn.log (2 + 2 + 2 + 2 + 2)
  | .exp => fn.exp x
  | .shift _ c => 1 / c

/-- `TransformedMessage.variance` (first order): `for t in transforms: mean = t.inv_transform(mean);
variance = t.jacobian(mean).invquad(variance)` - each transform's Jacobian is taken at the mean *in the
space that transform maps from*, in the order of the stack -/
def varianceChain (fn : Fn K) : List (Tr K) → K × K → K × K
  | [], mv => mv
  | t :: rest, (m, v) =>
    let m' := t.inv fn m
    let g := t.grad fn m'
    varianceChain fn rest (m', v * (1 / g) * (1 / g))

/-- `TransformedMessage._transform`: `for t in reversed(transforms): x = t.transform(x)` -/
def transformChain (fn : Fn K) (trs : List (Tr K)) (x : K) : K :=
  trs.foldr (fun t x => t.apply fn x) x

/-- `TransformedMessage._inverse_transform`: `for t in transforms: x = t.inv_transform(x)` -/
def inverseChain (fn : Fn K) (trs : List (Tr K)) (x : K) : K :=
  trs.foldl (fun x t => t.inv fn x) x

/-- `TransformedMessage._transform_det`: the transformed value and the accumulated log-determinant,
each transform's determinant taken at *its own* input -/
def transformDet (fn : Fn K) : List (Tr K) → K → K × K
  | [], x => (x, 0)
  | t :: rest, x =>
    let r := transformDet fn rest x
    (t.apply fn r.1, r.2 + t.logDet fn r.1)

/-! ## messages: plain or transformed -/

/-- a `TransformedMessage`: base message, transform stack, its own id (often `None`) and limits -/
structure TMsg (K : Type) where
  base : Base K
  trs : List (Tr K)
  id : Option Nat
  lower : K
  upper : K
  deriving Repr, Inhabited

inductive M (K : Type) where
  | plain (b : Base K)
  | transformed (t : TMsg K)
  deriving Repr, Inhabited

def M.base : M K → Base K
  | .plain b => b
  | .transformed t => t.base

def M.natural (m : M K) : K × K := m.base.natural

/-- `TransformedMessage.with_base`: same transforms, id and limits, new base message
(repaired behaviour, `fixes/C17-transformed-keeps-limits.patch`; the pinned commit dropped the limits) -/
def TMsg.withBase (t : TMsg K) (b : Base K) : TMsg K :=
  { t with base := b }

/-- lift an operation on base messages through the `arithmetic` decorator -/
def M.lift (m : M K) (f : Base K → Base K) : M K :=
  match m with
  | .plain b => .plain (f b)
  | .transformed t => .transformed (t.withBase (f t.base))

def M.mul (fn : Fn K) (a b : M K) : M K := a.lift (fun x => x.mul fn b.natural)
def M.div (fn : Fn K) (a b : M K) : M K := a.lift (fun x => x.div fn b.natural b.base.logNorm)
def M.pow (fn : Fn K) (a : M K) (k : K) : M K := a.lift (fun x => x.pow fn k)
def M.smul (fn : Fn K) (a : M K) (c : K) : M K := a.lift (fun x => x.smul fn c)
def M.sdiv (fn : Fn K) (a : M K) (c : K) : M K := a.lift (fun x => x.sdiv fn c)

def M.trs : M K → List (Tr K)
  | .plain _ => []
  | .transformed t => t.trs

/-- the density the message reports at `x`: `logpdf` for a plain message, `factor`
(`base.logpdf(T x) + log|det|`) for a transformed one -/
def M.factor (fn : Fn K) (m : M K) (x : K) : K :=
  let r := transformDet fn m.trs x
  m.base.logpdf fn r.1 + r.2

/-- `TransformedMessage.logpdf(x)`: the base density at the transformed point, *without* the
determinant -/
def M.logpdf (fn : Fn K) (m : M K) (x : K) : K :=
  m.base.logpdf fn (transformChain fn m.trs x)

def M.cdf (fn : Fn K) (m : M K) (x : K) : K :=
  m.base.cdf fn (transformChain fn m.trs x)

def M.valueFor (fn : Fn K) (m : M K) (u : K) : K :=
  inverseChain fn m.trs (m.base.valueFor fn u)

def M.mean (fn : Fn K) (m : M K) : K :=
  inverseChain fn m.trs m.base.mean

def M.variance (fn : Fn K) (m : M K) : K :=
  (varianceChain fn m.trs (m.base.mean, m.base.variance fn)).2

/-- `message.project(samples, log_weight_list)` called on an instance: a transformed message
projects the samples *mapped to the space of its base message* (repaired behaviour, see
`fixes/C17-transformed-project-space.patch`) and keeps its transforms and id (not its limits) -/
def M.project [NatCast K] (fn : Fn K) (m : M K) (xs lws : List K) (id : Nat) : M K :=
  match m with
  | .plain b => .plain (AF.Msg.project fn b.fam xs lws id)
  | .transformed t =>
    .transformed { base := AF.Msg.project fn t.base.fam (xs.map (transformChain fn t.trs)) lws id,
                   trs := t.trs, id := t.id, lower := fn.negInf, upper := fn.posInf }

end

/-! ## the `Float` instance the driver runs -/

/-- nearest-key lookup in a finite table of (argument, value) pairs: how scipy's special functions
reach the model -/
def lookupNearest (tbl : List (Float × Float)) (x : Float) : Float :=
  match tbl with
  | [] => 0.0 / 0.0
  | (k0, v0) :: rest =>
    (rest.foldl (fun (best : Float × Float) (kv : Float × Float) =>
      if (kv.1 - x).abs < (best.1 - x).abs then kv else best) (k0, v0)).2

structure Tables where
  ndtr : List (Float × Float) := []
  ndtri : List (Float × Float) := []
  erfinv : List (Float × Float) := []
  normPdf : List (Float × Float) := []

def floatFn (t : Tables) : Fn Float where
  sqrt := Float.sqrt
  log := Float.log
  exp := Float.exp
  log10 := Float.log10
  exp10 := fun x => Float.pow 10.0 x
  ndtr := lookupNearest t.ndtr
  ndtri := lookupNearest t.ndtri
  erfinv := lookupNearest t.erfinv
  normPdf := lookupNearest t.normPdf
  negInf := -(1.0 / 0.0)
  posInf := 1.0 / 0.0
  halfLog2Pi := 0.5 * Float.log (2.0 * 3.141592653589793)
  isFinite := Float.isFinite
  le := fun a b => a ≤ b
  max := fun a b => if a < b then b else a

instance : NatCast Float := ⟨Float.ofNat⟩

end AF.Msg
