import AFModel.Grid
import AFModel.PriorFloat

/-!
# GridPhys — the physical limits a grid search / sensitivity map reports, at the level of doubles (C16)

`Grid.lean` idealises `UniformPrior.value_for(u)` as `lo + u * (hi - lo)` (`physical`). What the code
computes is (`autofit/mapper/prior/uniform.py`, `abstract.py`, `messages/composed_transform.py`):

```
q     = ndtr(sqrt2 * erfinv(1 - 2 * (1 - u)))      -- UniformNormalMessage.value_for + phi_transform: libm / scipy
raw   = q * (hi - lo) + lo                         -- LinearShiftTransform.inv_transform
gate  : raise PriorLimitException unless lo <= raw <= hi
value = min(max(round(raw, places(hi - lo)), lo), hi)
```

Everything after `q` is plain double arithmetic plus CPython's exact `round`, i.e. the model of property
C02 (`Prior.finish`, `PriorFloat.pyRound`). The quantile round trip `q` depends on `u` only – not on the
prior – and cannot be reproduced bit for bit without scipy's `ndtr`/`erfinv`: it is a parameter `trip` of
the definitions below. The driver is given the round trips the real code performs (measured on
`UniformPrior(0, 1).message.value_for`, for which `raw = q * 1 + 0 = q`) as a table; with them

* `GridSearchResult.physical_lower_limits_lists / physical_upper_limits_lists / physical_centres_lists`
                                                                      → `physLists`
* `Sensitivity._perturb_instances` (value of the perturbation), `_perturb_models` (`value_for` of the clamped
  unit limits, then `Prior.with_limits`), `_physical_values`          → `sensPhysDim`, `sensPhysCells`

are compared with the code bit for bit. Core Lean only.
-/

namespace AF.Grid
open AF.Prior

section
variable {K : Type} [Add K] [Sub K] [Mul K] [Div K] [LE K] [LT K] [DecidableLE K] [DecidableLT K]
  [OfNat K 0] [OfNat K 1] [OfNat K 10]

/-- the `UniformPrior(lo, hi)` of a searched dimension, as property C02's model describes it -/
def uniParams (lo hi : K) : Params K :=
  { kind := .uniform, lower := lo, upper := hi, mean := 0, sigma := 1 }

/-- `prior.message.value_for(u)` given the quantile round trip `q` of `u`
(`LinearShiftTransform(shift = lo, scale = hi - lo).inv_transform`) -/
def uniRaw (lo hi q : K) : K := q * (hi - lo) + lo

/-- `UniformPrior(lo, hi).value_for(u)` given the quantile round trip `q` of `u`: limit gate, rounding
to a width-dependent number of places, clamp into the limits -/
def uniValue (S : Special K) (lo hi q : K) : Outcome K :=
  finish S {} false (uniParams lo hi) (uniRaw lo hi q)

/-- does `value_for` raise `PriorLimitException` -/
def raises : Outcome K → Bool
  | .limit => true
  | .ok _ => false

/-- one row of `GridSearchResult._physical_values_for`:
`[prior.value_for(limit) for prior, limit in zip(grid_priors, limits)]` -/
def physRow (S : Special K) (trip : K → K) (dims : List (Dim K)) (us : List K) : List (Outcome K) :=
  List.zipWith (fun d u => uniValue S d.lo d.hi (trip u)) dims us

/-- `GridSearchResult._physical_values_for(unit_lists)` -/
def physLists (S : Special K) (trip : K → K) (dims : List (Dim K)) (uss : List (List K)) :
    List (List (Outcome K)) :=
  uss.map (physRow S trip dims)

/-- Python `max(a, b)`: the first argument unless the second is greater -/
def pyMax (a b : K) : K := if b > a then b else a

/-- Python `min(a, b)`: the first argument unless the second is smaller -/
def pyMin (a b : K) : K := if b < a then b else a

/-- one dimension of a sensitivity cell as the code computes it -/
structure SensPhys (K : Type) where
  /-- `prior.value_for(centre)`: the perturbation simulated, the value in `results.csv` and in the label -/
  centre : Outcome K
  /-- limits of the cell's prior: `prior.with_limits(value_for(lower unit), value_for(upper unit))`;
  `none` when one of the two `value_for` calls raises (then `Sensitivity.run` raises) -/
  limits : Option (K × K)

/-- `Sensitivity._perturb_instances` / `_perturb_models`, one dimension of the cell with index `k` -/
def sensPhysDim (N : Num K) (S : Special K) (trip : K → K) (scale : K) (d : Dim K) (k : Nat) :
    SensPhys K :=
  let c := sensCellDim N scale d k
  let centre := uniValue S d.lo d.hi (trip c.unitCentre)
  match uniValue S d.lo d.hi (trip c.unitLower), uniValue S d.lo d.hi (trip c.unitUpper) with
  | .ok a, .ok b => { centre := centre, limits := some (pyMax a d.lo, pyMin b d.hi) }
  | _, _ => { centre := centre, limits := none }

/-- the cells of a sensitivity map in job order -/
def sensPhysCells (N : Num K) (S : Special K) (trip : K → K) (scale : K) (dims : List (Dim K)) :
    List (List (SensPhys K)) :=
  (lattice (counts dims)).map (cellAt (sensPhysDim N S trip scale) dims)

/-- `Sensitivity._labels`, one job: `"_".join(f"{path}_{prior.value_for(unit)}")` over the perturb priors in id
order - the pairs (name, value) the label is made of (the text of a float is Python's `repr`, applied by the
harness); also the row of `_physical_values` and of `results.csv` -/
def sensLabelParts (cfg : Cfg) (namesById namesByAttr : List String) (cell : List (SensPhys K)) :
    List (String × Outcome K) :=
  (headers cfg namesById namesByAttr).zip (cell.map (·.centre))

/-- labels of all jobs in job order -/
def sensLabels (N : Num K) (S : Special K) (trip : K → K) (scale : K) (cfg : Cfg)
    (namesById namesByAttr : List String) (dims : List (Dim K)) : List (List (String × Outcome K)) :=
  (sensPhysCells N S trip scale dims).map (sensLabelParts cfg namesById namesByAttr)

end

/-- the quantile round trips the real code was observed to perform (keyed by the bits of `u`);
a unit value that was not measured is taken as its own round trip (the ideal `ndtr ∘ ndtri = id`) -/
def tripOf (table : List (UInt64 × Float)) (u : Float) : Float :=
  match table.lookup u.toBits with
  | some q => q
  | none => u

end AF.Grid
