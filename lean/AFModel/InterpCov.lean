/-!
# InterpCov — executable model of the plumbing of `autofit.interpolator.covariance.CovarianceInterpolator`
(property C20)

Mirrors (hand-written, tied to the code by `harness/c20.py`, request kind `cov`):

* `_analysis_for_value`: `sorted(samples_list, key = t(max_log_likelihood()))` (Python's sort is stable),
  `x` = the abscissae in that order, `y` = the parameter vectors
  `max_log_likelihood(as_instance=False)` concatenated in that order        → `sortByT`, `covX`, `covY`
* `covariance_matrix`: the per-sample covariance matrices put on the diagonal of a zero matrix, in the
  order in which the samples were SUPPLIED (`cfg.blocksSorted = false`, the unchanged code) or in
  the order of `x`/`y` (`cfg.blocksSorted = true`, `fixes/C20-covariance-blocks-sorted.patch`)
                                                                             → `blockDiag`, `covMatrix`
* `_single_model` (`max(samples_list, key = max log likelihood)`: the first maximum) → `argmaxFirst`
* `get`: parameter `j` (priors in id order) of the answer is `m_j * v + c_j`; the interpolation
  variable of the answer is whatever the single model holds (`cfg.setsVariable = false`, the unchanged
  code) or the requested value (`true`, `fixes/C20-covariance-variable-assigned.patch`)
                                                                             → `covGet`, `covVariable`

The numeric kernels are NOT modelled: every sample's covariance matrix (`numpy.cov`), the matrix
inverse (`scipy.linalg.inv`) and the fitted relationships (a nested-sampling fit) enter as data.
Numbers are exact rationals (data movement only). Core Lean only.
-/

namespace AF.InterpCov

/-- what the interpolator uses of one `SamplesPDF` -/
structure Sample where
  /-- the interpolation variable of `max_log_likelihood()` -/
  t : Rat
  /-- `max_log_likelihood(as_instance=False)`: one number per prior, in prior-id order -/
  params : List Rat
  /-- `samples.covariance_matrix` (numeric kernel, as data) -/
  cov : List (List Rat)
  /-- `max_log_likelihood_sample.log_likelihood` -/
  logl : Rat
  deriving Repr, Inhabited, DecidableEq

structure Cfg where
  blocksSorted : Bool := false
  setsVariable : Bool := false
  deriving Repr, Inhabited

/-- insert before the first element whose abscissa is not smaller (with `foldr` this is the stable
sort: among equal abscissae the order of supply is kept) -/
def insertByT (s : Sample) : List Sample → List Sample
  | [] => [s]
  | b :: bs => if s.t ≤ b.t then s :: b :: bs else b :: insertByT s bs

/-- `sorted(samples_list, key=t)` -/
def sortByT (ss : List Sample) : List Sample := ss.foldr insertByT []

/-- `analysis.x` -/
def covX (ss : List Sample) : List Rat := (sortByT ss).map (·.t)

/-- `analysis.y` -/
def covY (ss : List Sample) : List Rat := ((sortByT ss).map (·.params)).flatten

def zeros (n : Nat) : List Rat := List.replicate n 0

/-- rows of the matrix that has the `k × k` matrices `ms` on its diagonal; `before` counts the
blocks already placed, `total` all of them -/
def blockRows (k total : Nat) : Nat → List (List (List Rat)) → List (List Rat)
  | _, [] => []
  | before, m :: rest =>
      m.map (fun row => zeros (before * k) ++ row ++ zeros ((total - before - 1) * k))
        ++ blockRows k total (before + 1) rest

/-- `array[i*k:(i+1)*k, i*k:(i+1)*k] = matrix_i` on `zeros((n*k, n*k))` -/
def blockDiag (k : Nat) (ms : List (List (List Rat))) : List (List Rat) :=
  blockRows k ms.length 0 ms

/-- `covariance_matrix()` as `_analysis_for_value` uses it -/
def covMatrix (cfg : Cfg) (k : Nat) (ss : List Sample) : List (List Rat) :=
  blockDiag k ((if cfg.blocksSorted then sortByT ss else ss).map (·.cov))

/-- entry of a matrix (0 outside) -/
def entry (m : List (List Rat)) (r c : Nat) : Rat :=
  match m[r]? with
  | some row => row[c]?.getD 0
  | none => 0

/-- index of the first maximum of the log likelihoods (`max(...)` keeps the first) -/
def argmaxFrom : Nat → Nat → Rat → List Rat → Nat
  | _, best, _, [] => best
  | i, best, bv, x :: rest => if bv < x then argmaxFrom (i + 1) i x rest else argmaxFrom (i + 1) best bv rest

def argmaxFirst : List Rat → Option Nat
  | [] => none
  | x :: rest => some (argmaxFrom 1 0 x rest)

/-- `relationship(value.value)` for every prior of the single model -/
def covGet (rels : List (Rat × Rat)) (v : Rat) : List Rat := rels.map (fun mc => mc.1 * v + mc.2)

/-- the interpolation variable of the answer: `held` is what `instance_for_arguments` leaves there -/
def covVariable (cfg : Cfg) (held v : Rat) : Rat := if cfg.setsVariable then v else held

/-- everything `_analysis_for_value`/`get` move, in one record (what the driver answers) -/
structure Out where
  x : List Rat
  y : List Rat
  cov : List (List Rat)
  single : Option Nat
  values : List Rat
  deriving Repr

def run (cfg : Cfg) (k : Nat) (ss : List Sample) (rels : List (Rat × Rat)) (v : Rat) : Out :=
  { x := covX ss, y := covY ss, cov := covMatrix cfg k ss,
    single := argmaxFirst (ss.map (·.logl)), values := covGet rels v }

end AF.InterpCov
