import AFModel.Comp

/-!
# FreezeTree — the frozen cache over real compositions (C13, refinement of `Freeze.lean`)

`Freeze.lean` abstracts the composition below a node to a version number and takes the topology as
data. Here the state holds the compositions themselves (`AF.Node` of `Comp.lean`), objects are
addressed by their attribute path from the root of their model, the topology is the prefix order of
paths, modifications really change the tree, and the answers are computed by the `Comp` functions.

Mirrors `autofit/mapper/model.py` (`frozen_cache`, `assert_not_frozen`, `AbstractModel.freeze /
unfreeze / __getstate__ / copy`), `AbstractPriorModel.unique_prior_tuples /
prior_tuples_ordered_by_id / prior_count / path_priors_tuples / paths / unique_prior_paths /
instance_from_vector`, `Model.__setattr__` (incl. the `name_i` route into a tuple argument),
`Collection.__setattr__ / remove`.

The cached functions behind those answers, with what each one stores:

* `path_instance_tuples_for_class(Prior)`                → `walk`     (every place of every prior)
* `attribute_tuples_with_type(Prior)` (and the keyword form of the walk it is computed from, stored
  and cleared together with it)                           → `attr`     (last name of each place)
* `unique_prior_tuples` (values of a dict keyed by prior: a set of priors, kept here in its
  canonical order; only its length and its sorted form are ever read)  → `unique`
* `prior_tuples_ordered_by_id` (computed from `unique_prior_tuples`)   → `ordered`

`prior_count`, `paths`, `unique_prior_paths`, `instance_from_vector` are not cached themselves: they
are computed from those entries, and `instance_from_vector` builds the instance from the *live*
composition with the argument dictionary made from the (cached) ordered priors.
-/

namespace AF

/-! ## editing compositions -/

/-- objects that carry `_is_frozen` / `_frozen_cache` (`AbstractModel`): `Model`, `Collection`,
compound / modified priors, `Array`. A `TuplePrior` is a plain `ModelObject`. -/
def Node.isObj {V} : Node V → Bool
  | .model .. => true
  | .coll .. => true
  | .arith .. => true
  | .modif .. => true
  | .array .. => true
  | _ => false

/-- the same object with another public `__dict__` -/
def Node.withAttrs {V} : Node V → List (String × Node V) → Node V
  | .model cls ctor _, as => .model cls ctor as
  | .coll _, as => .coll as
  | .tuple _, as => .tuple as
  | .arith op _ l r, as => .arith op as l r
  | .modif op _ x, as => .modif op as x
  | .array sh _, as => .array sh as
  | n, _ => n

/-- `d[k] = v`: an existing key keeps its position, a new key goes last -/
def setKey {V} (k : String) (v : Node V) : List (String × Node V) → List (String × Node V)
  | [] => [(k, v)]
  | (k', c) :: rest => if k' = k then (k', v) :: rest else (k', c) :: setKey k v rest

/-- `del d[k]` -/
def eraseKey {V} (k : String) : List (String × Node V) → List (String × Node V)
  | [] => []
  | (k', c) :: rest => if k' = k then eraseKey k rest else (k', c) :: eraseKey k rest

/-- change the value held under `k` (if any) -/
def updKey {V} (k : String) (g : Node V → Node V) : List (String × Node V) → List (String × Node V)
  | [] => []
  | (k', c) :: rest => if k' = k then (k', g c) :: rest else (k', c) :: updKey k g rest

/-- replace the public `__dict__` of the object at path `p` by `f` of it -/
def updAt {V} (f : List (String × Node V) → List (String × Node V)) : Path → Node V → Node V
  | [], n => n.withAttrs (f n.attrs)
  | a :: p, n => n.withAttrs (updKey a (updAt f p) n.attrs)

/-! ## the cache of one object -/

structure TCache where
  walk : Option (List (Path × Nat)) := none
  attr : Option (List (Path × Nat)) := none
  unique : Option (List Nat) := none
  ordered : Option (List Nat) := none
  deriving Repr, Inhabited, DecidableEq

def TCache.empty : TCache := {}

/-- `(path[-1] if len(path) > 0 else "", value)` -/
def attrOf (w : List (Path × Nat)) : List (Path × Nat) := w.map (fun x => (x.1.getLast?.toList, x.2))

/-- `frozen_cache` around `path_instance_tuples_for_class(Prior)` on a frozen object -/
def TCache.getWalk {V} (c : TCache) (n : Node V) : TCache × List (Path × Nat) :=
  match c.walk with
  | some w => (c, w)
  | none => ({ c with walk := some (AF.walk n) }, AF.walk n)

def TCache.getAttr {V} (c : TCache) (n : Node V) : TCache × List (Path × Nat) :=
  match c.attr with
  | some a => (c, a)
  | none => ({ c with attr := some (attrOf (AF.walk n)) }, attrOf (AF.walk n))

/-- `unique_prior_tuples`: computed from `attribute_tuples_with_type(Prior)` (itself looked up) -/
def TCache.getUnique {V} (c : TCache) (n : Node V) : TCache × List Nat :=
  match c.unique with
  | some u => (c, u)
  | none =>
    let r := c.getAttr n
    let u := sortDedup (r.2.map (·.2))
    ({ r.1 with unique := some u }, u)

/-- `prior_tuples_ordered_by_id`: `sorted(unique_prior_tuples, key=id)` (itself looked up) -/
def TCache.getOrdered {V} (c : TCache) (n : Node V) : TCache × List Nat :=
  match c.ordered with
  | some o => (c, o)
  | none =>
    let r := c.getUnique n
    ({ r.1 with ordered := some r.2 }, r.2)

/-! ## questions and answers -/

inductive TQuery (V : Type) where
  /-- `prior_count` -/
  | count
  /-- `paths` -/
  | paths
  /-- ids along `path_priors_tuples` -/
  | pathIds
  /-- `unique_prior_paths` -/
  | uniquePaths
  /-- ids of `priors_ordered_by_id` -/
  | ids
  /-- `instance_from_vector(v, ignore_prior_limits=True)` -/
  | inst (v : List V)
  deriving Inhabited

inductive TAns (V : Type) where
  | nat (n : Nat)
  | pathsA (l : List Path)
  | natsA (l : List Nat)
  | instA (i : Inst V)
  /-- `AssertionError`: vector length ≠ prior count -/
  | wrongLength
  deriving Inhabited

/-- `unique_prior_paths` from the walk: last place of each prior along the id-sorted walk, id order -/
def uniquePathsOf (w : List (Path × Nat)) : List Path :=
  (sortDedup (w.map (·.2))).filterMap (lastPlace (sortById w))

/-- **specification**: the answer of a question computed from a composition by the `Comp` model, no
cache involved -/
def tanswer {V} [Inhabited V] (ops : Ops V) (n : Node V) : TQuery V → TAns V
  | .count => .nat (count n)
  | .paths => .pathsA (AF.paths n)
  | .pathIds => .natsA ((pathPriors n).map (·.2))
  | .uniquePaths => .pathsA (uniquePaths n)
  | .ids => .natsA (uniqueIds n)
  | .inst v => if v.length ≠ count n then .wrongLength else .instA (instFromVector ops n v)

/-- what the code does on a *frozen* object holding cache `c`: every cached function looks its
entry up and stores it on a miss; the instance is built from the live composition `n` -/
def tqueryFrozen {V} [Inhabited V] (ops : Ops V) (c : TCache) (n : Node V) : TQuery V → TCache × TAns V
  | .count => let r := c.getUnique n; (r.1, .nat r.2.length)
  | .paths => let r := c.getWalk n; (r.1, .pathsA ((sortById r.2).map (·.1)))
  | .pathIds => let r := c.getWalk n; (r.1, .natsA ((sortById r.2).map (·.2)))
  | .uniquePaths => let r := c.getWalk n; (r.1, .pathsA (uniquePathsOf r.2))
  | .ids => let r := c.getOrdered n; (r.1, .natsA r.2)
  | .inst v =>
    let r := c.getUnique n
    if v.length ≠ r.2.length then (r.1, .wrongLength)
    else
      let r2 := r.1.getOrdered n
      (r2.1, .instA (inst ops (r2.2.zip v) n))

/-- a query on an object: while frozen through its cache, otherwise the same computation with
nothing looked up and nothing stored -/
def tquery {V} [Inhabited V] (ops : Ops V) (frozen : Bool) (c : TCache) (n : Node V) (q : TQuery V) :
    TCache × TAns V :=
  if frozen then tqueryFrozen ops c n q else (c, (tqueryFrozen ops TCache.empty n q).2)

/-! ## one live model -/

structure TState (V : Type) where
  /-- the composition as it is now -/
  tree : Node V
  /-- `_is_frozen` of the object at a path -/
  frozen : Path → Bool
  /-- `_frozen_cache` of the object at a path -/
  cache : Path → TCache

inductive TOp (V : Type) where
  | query (p : Path) (q : TQuery V)
  | freeze (p : Path)
  | unfreeze (p : Path)
  /-- `setattr(obj, k, v)` on the `Model` / `Collection` at `p` (`v` a fresh, unfrozen value) -/
  | setAttr (p : Path) (k : String) (v : Node V)
  /-- `collection.remove(item)` for an item held under the one key `k` -/
  | remove (p : Path) (k : String)
  /-- a call that raises without changing the composition -/
  | failing (p : Path)
  deriving Inhabited

inductive TOut (V : Type) where
  | answered (a : TAns V)
  /-- `AssertionError("Frozen models cannot be modified")` -/
  | rejected
  | done
  /-- no such object / not an operation of that object (never generated) -/
  | invalid
  deriving Inhabited

/-- the part of a name before its first underscore (`key.split("_")[0]`) -/
def keyPrefix (k : String) : String := String.ofList (k.toList.takeWhile (· != '_'))

/-- which direct attribute of the object changes, and the new `__dict__`.
`Model.__setattr__`: a name with an underscore whose prefix names a tuple argument is assigned on
that `TuplePrior`; everything else is a plain attribute assignment. `Collection.__setattr__`
likewise plain; `Collection.remove` deletes the key. -/
def modPlan {V} (n : Node V) : TOp V → Option (String × (List (String × Node V) → List (String × Node V)))
  | .setAttr _ k v =>
    match n with
    | .model _ _ attrs =>
      if k.toList.contains '_' then
        match lookupAttr attrs (keyPrefix k) with
        | some (.tuple _) => some (keyPrefix k, updKey (keyPrefix k) (fun t => t.withAttrs (setKey k v t.attrs)))
        | _ => some (k, setKey k v)
      else some (k, setKey k v)
    | .coll _ => some (k, setKey k v)
    | _ => none
  | .remove _ k =>
    match n with
    | .coll _ => some (k, eraseKey k)
    | _ => none
  | _ => none

def TOp.path {V} : TOp V → Path
  | .query p _ => p
  | .freeze p => p
  | .unfreeze p => p
  | .setAttr p _ _ => p
  | .remove p _ => p
  | .failing p => p

/-- a modification of the object at `p` -/
def tmodify {V} (s : TState V) (p : Path) (op : TOp V) : TState V × TOut V :=
  match s.tree.at p with
  | none => (s, .invalid)
  | some n =>
    if s.frozen p then (s, .rejected)
    else match modPlan n op with
      | none => (s, .invalid)
      | some (k, f) =>
        ({ tree := updAt f p s.tree,
           -- whatever is held under the changed attribute is new: fresh objects, unfrozen, cold
           frozen := fun x => if (p ++ [k]).isPrefixOf x then false else s.frozen x,
           cache := fun x => if (p ++ [k]).isPrefixOf x then TCache.empty else s.cache x }, .done)

def tstep {V} [Inhabited V] (ops : Ops V) (s : TState V) : TOp V → TState V × TOut V
  | .query p q =>
    match s.tree.at p with
    | none => (s, .invalid)
    | some n =>
      if n.isObj then
        let r := tquery ops (s.frozen p) (s.cache p) n q
        ({ s with cache := fun x => if x = p then r.1 else s.cache x }, .answered r.2)
      else (s, .invalid)
  | .freeze p =>
    -- children first, then the flag: everything reached through direct `AbstractModel` attributes
    ({ s with frozen := fun x => if p.isPrefixOf x then true else s.frozen x }, .done)
  | .unfreeze p =>
    ({ s with frozen := fun x => if p.isPrefixOf x then false else s.frozen x,
              cache := fun x => if p.isPrefixOf x then TCache.empty else s.cache x }, .done)
  | .setAttr p k v => tmodify s p (.setAttr p k v)
  | .remove p k => tmodify s p (.remove p k)
  | .failing _ => (s, .done)

/-- is this unfreeze covered by the theorem? no object strictly above `p` is frozen -/
def tunfreezeSafe {V} (s : TState V) (p : Path) : Bool :=
  (List.range p.length).all (fun i => !s.frozen (p.take i))

/-- a freshly composed model: nothing frozen, nothing cached -/
def TState.init {V} (t : Node V) : TState V :=
  { tree := t, frozen := fun _ => false, cache := fun _ => TCache.empty }

/-! ## several live models, copies -/

structure Store (V : Type) where
  roots : List (TState V)

inductive SOp (V : Type) where
  /-- an operation on the model number `r` -/
  | on (r : Nat) (op : TOp V)
  /-- `copy.deepcopy` / `.copy()` / pickle round trip of the object at `p` of model `r`: a new live
  model; `__getstate__` drops `_frozen_cache`, `_is_frozen` is state and is kept -/
  | copy (r : Nat) (p : Path)
  deriving Inhabited

def sstep {V} [Inhabited V] (ops : Ops V) (S : Store V) : SOp V → Store V × TOut V
  | .on r op =>
    match S.roots[r]? with
    | none => (S, .invalid)
    | some s =>
      let r' := tstep ops s op
      ({ roots := S.roots.set r r'.1 }, r'.2)
  | .copy r p =>
    match S.roots[r]? with
    | none => (S, .invalid)
    | some s =>
      match s.tree.at p with
      | none => (S, .invalid)
      | some n =>
        ({ roots := S.roots ++ [{ tree := n, frozen := fun x => s.frozen (p ++ x),
                                  cache := fun _ => TCache.empty }] }, .done)

def srun {V} [Inhabited V] (ops : Ops V) : Store V → List (SOp V) → Store V × List (TOut V)
  | S, [] => (S, [])
  | S, op :: rest =>
    let r := sstep ops S op
    let r' := srun ops r.1 rest
    (r'.1, r.2 :: r'.2)

/-- is the operation one the theorems cover, in this state? -/
def sopSafe {V} (S : Store V) : SOp V → Bool
  | .on r (.unfreeze p) =>
    match S.roots[r]? with
    | some s => tunfreezeSafe s p
    | none => true
  | _ => true

end AF
