import AFModel.DictForm
import AFModel.Gate

/-!
# DictJson — the dictionary / JSON form the library actually writes, and its reader (C08)

`AFModel/DictForm.lean` abstracts the dictionary form to the skeleton of the composition. This file
models the *actual* form:

* `PN` — a composition with everything the dictionary form carries: prior descriptors (type, limits,
  mean, sigma) and ids, class paths, constants of every JSON scalar type, fixed components
  (`instance`), the counter of a list-built collection (`item_number`), tuple priors, arithmetic and
  modified priors with their operand names, arrays, plain lists / tuples, and the **assertions**
  attached to models and collections (comparison assertions are `CompoundPrior`s, a chain is a
  `CompoundAssertion`).
* `DV` — the typed dictionary: one constructor per `"type"` tag the library writes
  (`model`, `instance`, `collection`, `tuple_prior`, `compound`, `modified`, `array`, `list`/`tuple`,
  prior dictionaries with their `id`).
* `toDV` — `ModelObject.dict()` / `Prior.dict()` / `CompoundPrior.dict()` / `ModifiedPrior.dict()` /
  `CompoundAssertion.dict()` / autoconf `to_dict` for lists and tuples; operand names are not written.
* `render` — the JSON text structure of a `DV` (key order, optional keys: `assertions` only when there
  are some, `item_number` only when non-zero, `mean`/`sigma` only for Gaussian kinds, the `shape` and
  `indices` entries of an array). Compared with the real `model.dict()` on every run.
* `fromDV` — `ModelObject.from_dict` with `loaded_ids`: **arguments are read before assertions**,
  `left` before `right`, `assertion_1` before `assertion_2`; a stored id met for the first time creates
  a prior with a fresh id, later occurrences return the same object; an arithmetic prior is rebuilt by
  its constructor and names its operands `left_` / `right_` (one attribute `right_` when both are the
  same prior object), a modified prior keeps its stored name. Run on the REAL dictionary on every run.
* `pnErase` — the skeleton `Node` of a `PN` (what the walk and the instance construction see), which
  ties this file to the theorems about `walk`, `count` and `instW`.
-/

namespace AF

inductive PKind | uniform | logUniform | gaussian | logGaussian
  deriving Repr, DecidableEq, Inhabited

/-- `Prior.name_of_class()` -/
def PKind.tag : PKind → String
  | .uniform => "Uniform"
  | .logUniform => "LogUniform"
  | .gaussian => "Gaussian"
  | .logGaussian => "LogGaussian"

/-- `GaussianPrior.dict` / `LogGaussianPrior.dict` add `mean` and `sigma` -/
def PKind.hasMoments : PKind → Bool
  | .gaussian | .logGaussian => true
  | _ => false

/-- what a prior dictionary carries beside the id -/
structure PDesc (V : Type) where
  kind : PKind
  lo : V
  hi : V
  mean : V
  sigma : V
  deriving Inhabited

/-- JSON scalars -/
inductive Scal (V : Type) where
  | null
  | bool (b : Bool)
  | int (i : Int)
  | num (v : V)
  | str (s : String)
  deriving Inhabited

/-- a composition with everything the dictionary form carries -/
inductive PN (V : Type) where
  | prior (id : Nat) (d : PDesc V)
  | lit (s : Scal V)
  /-- `af.Model(cls)` with free parameters -/
  | model (classPath : String) (attrs : List (String × PN V)) (asserts : List (PN V))
  /-- a component without free parameters (written as a plain instance) or an instance of a user class -/
  | inst (classPath : String) (attrs : List (String × PN V))
  | coll (itemNo : Nat) (attrs : List (String × PN V)) (asserts : List (PN V))
  | tuple (attrs : List (String × PN V))
  /-- `CompoundPrior` subclass `ctype` (arithmetic, or a comparison assertion); operand attribute names -/
  | arith (ctype : String) (lname rname : String) (l r : PN V)
  /-- `CompoundAssertion` -/
  | both (x y : PN V)
  /-- `ModifiedPrior` subclass `mtype` holding its operand under `name` -/
  | modif (mtype : String) (name : String) (x : PN V)
  /-- `af.Array`: entries `prior_i_j` in index order -/
  | array (shape : List Nat) (attrs : List (String × PN V))
  /-- a plain list (`isTuple = false`) or tuple of values -/
  | list (isTuple : Bool) (items : List (PN V))
  deriving Inhabited

/-- the typed dictionary form: one constructor per `"type"` tag -/
inductive DV (V : Type) where
  | prior (id : Nat) (d : PDesc V)
  | lit (s : Scal V)
  | model (classPath : String) (assertions : List (DV V)) (args : List (String × DV V))
  | inst (classPath : String) (args : List (String × DV V))
  | coll (assertions : List (DV V)) (itemNo : Nat) (args : List (String × DV V))
  | tuple (args : List (String × DV V))
  | compound (ctype : String) (l r : DV V)
  | both (a1 a2 : DV V)
  | modified (mtype : String) (name : String) (x : DV V)
  | array (shape : List Nat) (args : List (String × DV V))
  | list (isTuple : Bool) (values : List (DV V))
  deriving Inhabited

/-! ## the writer -/

mutual
/-- `dict()` -/
def toDV {V} : PN V → DV V
  | .prior id d => .prior id d
  | .lit s => .lit s
  | .model cp attrs asserts => .model cp (toDVList asserts) (toDVAttrs attrs)
  | .inst cp attrs => .inst cp (toDVAttrs attrs)
  | .coll n attrs asserts => .coll (toDVList asserts) n (toDVAttrs attrs)
  | .tuple attrs => .tuple (toDVAttrs attrs)
  | .arith ct _ _ l r => .compound ct (toDV l) (toDV r)
  | .both x y => .both (toDV x) (toDV y)
  | .modif mt name x => .modified mt name (toDV x)
  | .array shape attrs => .array shape (toDVAttrs attrs)
  | .list tup items => .list tup (toDVList items)
def toDVAttrs {V} : List (String × PN V) → List (String × DV V)
  | [] => []
  | (k, n) :: rest => (k, toDV n) :: toDVAttrs rest
def toDVList {V} : List (PN V) → List (DV V)
  | [] => []
  | n :: rest => toDV n :: toDVList rest
end

/-! ## the JSON structure of the dictionary (key order as written) -/

inductive JV (V : Type) where
  | scal (s : Scal V)
  | arr (items : List (JV V))
  | obj (fields : List (String × JV V))
  deriving Inhabited

def JV.str {V} (s : String) : JV V := .scal (.str s)
def JV.nat {V} (n : Nat) : JV V := .scal (.int (Int.ofNat n))

/-- `{"type": "tuple", "values": [...]}` of natural numbers (autoconf `to_dict` of a tuple of ints) -/
def natTuple {V} (l : List Nat) : JV V :=
  .obj [("type", .str "tuple"), ("values", .arr (l.map JV.nat))]

/-- `np.ndindex(*shape)`: all indices, last axis fastest -/
def ndindex : List Nat → List (List Nat)
  | [] => [[]]
  | n :: rest => (List.range n).flatMap (fun i => (ndindex rest).map (fun ix => i :: ix))

/-- `Prior.dict()` (+ `mean`, `sigma` for the Gaussian kinds) -/
def renderPrior {V} (id : Nat) (d : PDesc V) : JV V :=
  .obj ([("lower_limit", .scal (.num d.lo)), ("upper_limit", .scal (.num d.hi)),
         ("type", .str d.kind.tag), ("id", .nat id)] ++
        (if d.kind.hasMoments then [("mean", .scal (.num d.mean)), ("sigma", .scal (.num d.sigma))] else []))

mutual
def render {V} : DV V → JV V
  | .prior id d => renderPrior id d
  | .lit s => .scal s
  | .model cp asserts args =>
      .obj ([("class_path", .str cp), ("type", .str "model")] ++
            (match asserts with
             | [] => []
             | a :: as => [("assertions", .arr (renderList (a :: as)))]) ++
            [("arguments", .obj (renderArgs args))])
  | .inst cp args =>
      .obj [("class_path", .str cp), ("type", .str "instance"), ("arguments", .obj (renderArgs args))]
  | .coll asserts n args =>
      .obj ([("type", .str "collection")] ++
            (match asserts with
             | [] => []
             | a :: as => [("assertions", .arr (renderList (a :: as)))]) ++
            (if n = 0 then [] else [("item_number", .nat n)]) ++
            [("arguments", .obj (renderArgs args))])
  | .tuple args => .obj [("type", .str "tuple_prior"), ("arguments", .obj (renderArgs args))]
  | .compound ct l r =>
      .obj [("type", .str "compound"), ("compound_type", .str ct), ("left", render l), ("right", render r)]
  | .both a b =>
      .obj [("type", .str "compound"), ("compound_type", .str "CompoundAssertion"),
            ("assertion_1", render a), ("assertion_2", render b)]
  | .modified mt name x =>
      .obj [("type", .str "modified"), ("modified_type", .str mt), ("name", .str name), ("prior", render x)]
  | .array shape args =>
      .obj [("type", .str "array"),
            ("arguments", .obj ([("shape", natTuple shape),
                                 ("indices", .obj [("type", .str "list"), ("values", .arr ((ndindex shape).map natTuple))])] ++
                                renderArgs args))]
  | .list tup vs =>
      .obj [("type", .str (if tup then "tuple" else "list")), ("values", .arr (renderList vs))]
def renderArgs {V} : List (String × DV V) → List (String × JV V)
  | [] => []
  | (k, d) :: rest => (k, render d) :: renderArgs rest
def renderList {V} : List (DV V) → List (JV V)
  | [] => []
  | d :: rest => render d :: renderList rest
end

/-! ## the reader -/

/-- are both operands one and the same prior object? -/
def samePN {V} : PN V → PN V → Bool
  | .prior a _, .prior b _ => a == b
  | _, _ => false

/-- the name `retrieve_name` finds for the left operand of an arithmetic prior rebuilt by its
constructor: the constructor's own parameter `left`, or `right` when both operands are one object -/
def reloadLeftName {V} (l r : PN V) : String := if samePN l r then "right_" else "left_"

/-- `cls_(**arguments)` of the `instance` branch: constructor arguments that are not given take the
class default (`dflt` = the scalar defaults of a class path's constructor); the order of an
instance's attributes is not observable in the dictionary form, the defaults are put last -/
def fillDefaults {V} (ds : List (String × Scal V)) (a : List (String × PN V)) : List (String × PN V) :=
  a ++ (ds.filter (fun kd => !(a.any (fun kv => kv.1 == kd.1)))).map (fun kd => (kd.1, PN.lit kd.2))

mutual
/-- `from_dict` (state: `loaded_ids` and the id counter) -/
def fromDV {V} (dflt : String → List (String × Scal V)) : DV V → LoadSt → PN V × LoadSt
  | .prior id d, s => let (k, s') := loadPrior s id; (.prior k d, s')
  | .lit x, s => (.lit x, s)
  | .model cp asserts args, s =>
      -- `for key, value in d["arguments"].items(): setattr(...)` comes first, `d["assertions"]` after
      let (a, s₁) := fromDVArgs dflt args s
      let (b, s₂) := fromDVList dflt asserts s₁
      (.model cp a b, s₂)
  | .inst cp args, s => let (a, s') := fromDVArgs dflt args s; (.inst cp (fillDefaults (dflt cp) a), s')
  | .coll asserts n args, s =>
      let (a, s₁) := fromDVArgs dflt args s
      let (b, s₂) := fromDVList dflt asserts s₁
      (.coll n a b, s₂)
  | .tuple args, s => let (a, s') := fromDVArgs dflt args s; (.tuple a, s')
  | .compound ct l r, s =>
      let (l', s₁) := fromDV dflt l s
      let (r', s₂) := fromDV dflt r s₁
      (.arith ct (reloadLeftName l' r') "right_" l' r', s₂)
  | .both a b, s =>
      let (a', s₁) := fromDV dflt a s
      let (b', s₂) := fromDV dflt b s₁
      (.both a' b', s₂)
  | .modified mt name x, s => let (x', s') := fromDV dflt x s; (.modif mt name x', s')
  | .array shape args, s => let (a, s') := fromDVArgs dflt args s; (.array shape a, s')
  | .list tup vs, s => let (a, s') := fromDVList dflt vs s; (.list tup a, s')
def fromDVArgs {V} (dflt : String → List (String × Scal V)) : List (String × DV V) → LoadSt → List (String × PN V) × LoadSt
  | [], s => ([], s)
  | (k, d) :: rest, s =>
      let (n, s₁) := fromDV dflt d s
      let (ns, s₂) := fromDVArgs dflt rest s₁
      ((k, n) :: ns, s₂)
def fromDVList {V} (dflt : String → List (String × Scal V)) : List (DV V) → LoadSt → List (PN V) × LoadSt
  | [], s => ([], s)
  | d :: rest, s =>
      let (n, s₁) := fromDV dflt d s
      let (ns, s₂) := fromDVList dflt rest s₁
      (n :: ns, s₂)
end

/-- one dictionary round trip: `from_dict(model.dict())` with ids counted from `base` -/
def dictRT {V} (dflt : String → List (String × Scal V)) (t : PN V) (base : Nat) : PN V :=
  (fromDV dflt (toDV t) { next := base }).1

/-- `k` dictionary round trips, the id counter moving on by `step` between them -/
def dictRTn {V} (dflt : String → List (String × Scal V)) (t : PN V) (base step : Nat) : Nat → PN V
  | 0 => t
  | k + 1 => dictRT dflt (dictRTn dflt t base step k) (base + k * step)

/-! ## renaming of prior identities, and the operand names after a reload -/

mutual
def renamePN {V} (σ : Nat → Nat) : PN V → PN V
  | .prior id d => .prior (σ id) d
  | .lit s => .lit s
  | .model cp attrs asserts => .model cp (renamePNAttrs σ attrs) (renamePNList σ asserts)
  | .inst cp attrs => .inst cp (renamePNAttrs σ attrs)
  | .coll n attrs asserts => .coll n (renamePNAttrs σ attrs) (renamePNList σ asserts)
  | .tuple attrs => .tuple (renamePNAttrs σ attrs)
  | .arith ct ln rn l r => .arith ct ln rn (renamePN σ l) (renamePN σ r)
  | .both x y => .both (renamePN σ x) (renamePN σ y)
  | .modif mt name x => .modif mt name (renamePN σ x)
  | .array shape attrs => .array shape (renamePNAttrs σ attrs)
  | .list tup items => .list tup (renamePNList σ items)
def renamePNAttrs {V} (σ : Nat → Nat) : List (String × PN V) → List (String × PN V)
  | [] => []
  | (k, n) :: rest => (k, renamePN σ n) :: renamePNAttrs σ rest
def renamePNList {V} (σ : Nat → Nat) : List (PN V) → List (PN V)
  | [] => []
  | n :: rest => renamePN σ n :: renamePNList σ rest
end

mutual
/-- the composition with the operand names arithmetic priors have after a reload, and with the class
defaults a fixed component rebuilt by its constructor has (nothing else changes) -/
def canonPN {V} (dflt : String → List (String × Scal V)) : PN V → PN V
  | .prior id d => .prior id d
  | .lit s => .lit s
  | .model cp attrs asserts => .model cp (canonPNAttrs dflt attrs) (canonPNList dflt asserts)
  | .inst cp attrs => .inst cp (fillDefaults (dflt cp) (canonPNAttrs dflt attrs))
  | .coll n attrs asserts => .coll n (canonPNAttrs dflt attrs) (canonPNList dflt asserts)
  | .tuple attrs => .tuple (canonPNAttrs dflt attrs)
  | .arith ct _ _ l r => .arith ct (reloadLeftName (canonPN dflt l) (canonPN dflt r)) "right_" (canonPN dflt l) (canonPN dflt r)
  | .both x y => .both (canonPN dflt x) (canonPN dflt y)
  | .modif mt name x => .modif mt name (canonPN dflt x)
  | .array shape attrs => .array shape (canonPNAttrs dflt attrs)
  | .list tup items => .list tup (canonPNList dflt items)
def canonPNAttrs {V} (dflt : String → List (String × Scal V)) : List (String × PN V) → List (String × PN V)
  | [] => []
  | (k, n) :: rest => (k, canonPN dflt n) :: canonPNAttrs dflt rest
def canonPNList {V} (dflt : String → List (String × Scal V)) : List (PN V) → List (PN V)
  | [] => []
  | n :: rest => canonPN dflt n :: canonPNList dflt rest
end

mutual
/-- the ids in the order the reader meets them: arguments, then assertions -/
def pnLoadOrder {V} : PN V → List Nat
  | .prior id _ => [id]
  | .lit _ => []
  | .model _ attrs asserts => pnLoadOrderAttrs attrs ++ pnLoadOrderList asserts
  | .inst _ attrs => pnLoadOrderAttrs attrs
  | .coll _ attrs asserts => pnLoadOrderAttrs attrs ++ pnLoadOrderList asserts
  | .tuple attrs => pnLoadOrderAttrs attrs
  | .arith _ _ _ l r => pnLoadOrder l ++ pnLoadOrder r
  | .both x y => pnLoadOrder x ++ pnLoadOrder y
  | .modif _ _ x => pnLoadOrder x
  | .array _ attrs => pnLoadOrderAttrs attrs
  | .list _ items => pnLoadOrderList items
def pnLoadOrderAttrs {V} : List (String × PN V) → List Nat
  | [] => []
  | (_, n) :: rest => pnLoadOrder n ++ pnLoadOrderAttrs rest
def pnLoadOrderList {V} : List (PN V) → List Nat
  | [] => []
  | n :: rest => pnLoadOrder n ++ pnLoadOrderList rest
end

/-! ## the skeleton the walk and the instance construction see -/

def binOpOfCtype : String → BinOp
  | "SumPrior" => .add
  | "MultiplePrior" => .mul
  | "DivisionPrior" => .div
  | "FloorDivPrior" => .floordiv
  | "ModPrior" => .mod
  | "PowerPrior" => .pow
  | _ => .sub

def unOpOfMtype : String → UnOp
  | "NegativePrior" => .neg
  | "AbsolutePrior" => .abs
  | "Log" => .log
  | "Log10" => .log10
  | _ => .neg

/-- the public attributes of a `CompoundPrior`: `setattr(self, left_name, left)` then
`setattr(self, right_name, right)` - one attribute when the names coincide -/
def arithAttrs {α} (ln rn : String) (l r : α) : List (String × α) :=
  if ln == rn then [(rn, r)] else [(ln, l), (rn, r)]

mutual
/-- `sig` = constructor argument names of a class path. Assertions and fixed components hold no
advertised parameter: they are not part of the skeleton. -/
def pnErase {V} (sig : String → List String) : PN V → Node V
  | .prior id _ => .prior id
  | .lit (.num v) => .const v
  | .lit _ => .opaque ""
  | .model cp attrs _ => .model cp (sig cp) (pnEraseAttrs sig attrs)
  | .inst _ _ => .opaque ""
  | .coll _ attrs _ => .coll (pnEraseAttrs sig attrs)
  | .tuple attrs => .tuple (pnEraseAttrs sig attrs)
  | .arith ct ln rn l r => .arith (binOpOfCtype ct) (arithAttrs ln rn (pnErase sig l) (pnErase sig r)) (pnErase sig l) (pnErase sig r)
  | .both _ _ => .opaque ""
  | .modif mt name x => .modif (unOpOfMtype mt) [(name, pnErase sig x)] (pnErase sig x)
  | .array shape attrs => .array shape (pnEraseAttrs sig attrs)
  | .list _ _ => .opaque ""
def pnEraseAttrs {V} (sig : String → List String) : List (String × PN V) → List (String × Node V)
  | [] => []
  | (k, n) :: rest => (k, pnErase sig n) :: pnEraseAttrs sig rest
end

mutual
/-- every prior dictionary met, in reading order: (id, descriptor) -/
def pnPriors {V} : PN V → List (Nat × PDesc V)
  | .prior id d => [(id, d)]
  | .lit _ => []
  | .model _ attrs asserts => pnPriorsAttrs attrs ++ pnPriorsList asserts
  | .inst _ attrs => pnPriorsAttrs attrs
  | .coll _ attrs asserts => pnPriorsAttrs attrs ++ pnPriorsList asserts
  | .tuple attrs => pnPriorsAttrs attrs
  | .arith _ _ _ l r => pnPriors l ++ pnPriors r
  | .both x y => pnPriors x ++ pnPriors y
  | .modif _ _ x => pnPriors x
  | .array _ attrs => pnPriorsAttrs attrs
  | .list _ items => pnPriorsList items
def pnPriorsAttrs {V} : List (String × PN V) → List (Nat × PDesc V)
  | [] => []
  | (_, n) :: rest => pnPriors n ++ pnPriorsAttrs rest
def pnPriorsList {V} : List (PN V) → List (Nat × PDesc V)
  | [] => []
  | n :: rest => pnPriors n ++ pnPriorsList rest
end

/-! ## assertions: what a stored expression denotes, and where assertions are attached -/

/-- the assertion a stored expression denotes (`GreaterThanLessThanAssertion` is `lower < greater`,
`GreaterThanLessThanEqualAssertion` is `lower <= greater`, a `CompoundAssertion` is the conjunction) -/
def asrtOf {V} (sig : String → List String) : PN V → Asrt V
  | .arith ct _ _ l r =>
      if ct == "GreaterThanLessThanAssertion" then .cmp true (pnErase sig l) (pnErase sig r)
      else if ct == "GreaterThanLessThanEqualAssertion" then .cmp false (pnErase sig l) (pnErase sig r)
      else .lit false
  | .both x y => .and (asrtOf sig x) (asrtOf sig y)
  | _ => .lit false

mutual
/-- every assertion attached anywhere: a component's own assertions, then those of its attributes in
attribute order (the order in which `instance_for_arguments` meets them) -/
def pnAsserts {V} : PN V → List (PN V)
  | .model _ attrs asserts => asserts ++ pnAssertsAttrs attrs
  | .coll _ attrs asserts => asserts ++ pnAssertsAttrs attrs
  | _ => []
def pnAssertsAttrs {V} : List (String × PN V) → List (PN V)
  | [] => []
  | (_, n) :: rest => pnAsserts n ++ pnAssertsAttrs rest
end

/-- the verdict of every assertion of the composition under a valuation of the parameters -/
def assertVerdicts {V} [Inhabited V] (ops : Ops V) (sig : String → List String) (ρ : Nat → Inst V) (t : PN V) :
    List Bool :=
  (pnAsserts t).map (fun a => evalA ops ρ (asrtOf sig a))

/-! ## pickle / dill

ASSUMPTION (stated, not derived): `pickle` rebuilds the same attribute tree and restores every object's
`__dict__` verbatim - in particular each prior's integer `id` (`__getstate__` only drops caches). In the
model the identity of a prior *is* its id, so a pickle round trip is the renaming by the identity map. -/

def pickleRT {V} (t : PN V) : PN V := renamePN (fun i => i) t

/-! ## database rows: the counter of a rebuilt collection

The rows of a collection do not store `item_number`. `database.model.prior.Collection._make_instance`
(repaired: it used to leave the attribute out, so `dict()` / `append()` of a reloaded model raised) sets it to
the position after the highest positional (all-digit) member name, `0` when there is none. `ps` = the member
names read as positions (`none` for a name that is not a number). -/

def nextPosition : List (Option Nat) → Nat
  | [] => 0
  | none :: rest => nextPosition rest
  | some k :: rest => Nat.max (k + 1) (nextPosition rest)

end AF
