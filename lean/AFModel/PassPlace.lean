import AFModel.WidthCfg

/-!
# PassPlace — which class and attribute name `mapper_from_prior_means` uses for a parameter (C12)

* class: `prior_class_dict[prior]`. `AbstractPriorModel.prior_class_dict` (Model, compound and
  modified priors) first writes its own class for every prior below it, then lets every direct
  prior-model child overwrite with its own dictionary, in attribute order;
  `Collection.prior_class_dict` / `Array.prior_class_dict` take the children's dictionaries in order
  and then write `ModelInstance` / `ndarray` for the priors they hold directly. A parameter shared
  between places takes the class written last                                   → `classDict`, `classOfId`.
* name: the last path entry of the parameter's last place (`unique_prior_tuples`: a dictionary keyed
  by prior keeps the last); if that is a position (`str.isdigit`) and the path is longer than one
  entry, the entry before it (`path_for_prior(...)[-2]`)                         → `placeName`.
-/

namespace AF

/-- does `direct_prior_model_tuples` list this child? -/
def isPriorModel {V} : Node V → Bool
  | .model .. => true
  | .coll .. => true
  | .arith .. => true
  | .modif .. => true
  | .array .. => true
  | _ => false

def directPriorIds {V} : List (String × Node V) → List Nat
  | [] => []
  | (_, .prior i) :: rest => i :: directPriorIds rest
  | _ :: rest => directPriorIds rest

mutual
/-- `prior_class_dict` as the sequence of writes (later writes win) -/
def classDict {V} : Node V → List (Nat × String)
  | .model cls _ attrs => (walkAttrs attrs).map (fun w => (w.2, cls)) ++ classDictKids attrs
  | .arith _ attrs _ _ => (walkAttrs attrs).map (fun w => (w.2, "float")) ++ classDictKids attrs
  | .modif _ attrs _ => (walkAttrs attrs).map (fun w => (w.2, "float")) ++ classDictKids attrs
  | .coll attrs => classDictKids attrs ++ (directPriorIds attrs).map (fun i => (i, "ModelInstance"))
  | .array _ attrs => classDictKids attrs ++ (directPriorIds attrs).map (fun i => (i, "ndarray"))
  | _ => []
def classDictKids {V} : List (String × Node V) → List (Nat × String)
  | [] => []
  | (_, n) :: rest => (if isPriorModel n then classDict n else []) ++ classDictKids rest
end

/-- `prior_class_dict[prior]` (`none`: `KeyError`) -/
def classOfId {V} (t : Node V) (id : Nat) : Option String :=
  ((classDict t).reverse.find? (·.1 == id)).map (·.2)

def isDigits (s : String) : Bool := !s.isEmpty && s.all Char.isDigit

/-- attribute name used for the configuration, from the parameter's last place -/
def placeName (p : Path) : String :=
  match p.reverse with
  | [] => ""
  | [n] => n
  | n :: m :: _ => if isDigits n then m else n

/-- class name and attribute name of every parameter, id order -/
def placeKeys {V} (t : Node V) : List (Option String × String) :=
  (uniqueIds t).map (fun i => (classOfId t i, placeName ((lastPlace (pathPriors t) i).getD [])))

/-- the places of all parameters, classes resolved through a table of class trees -/
def placesFromTree {V W} (classes : List (String × ClsTree)) (t : Node W) (owns : List (Option (Bool × V))) : List (Place V) :=
  ((placeKeys t).zip owns).map (fun ((c, a), own) =>
    { cls := ((c.bind (fun c => classes.lookup c)).getD (.node [] [])), attr := a.toList, own := own })

end AF
