import AFModel.Ident

/-!
# Scrape — loading an output directory into a database (C11)

Mirrors, at the level of "which directory becomes which database row with which fields":

* `autofit/aggregator/aggregator.py`: `unzip_directory` (every `x.zip` is extracted over `x/`),
  `Aggregator.from_directory` (a directory holding `metadata` is a search output, one holding
  `.is_grid_search` a grid-search output, optional `.completed` filter), `Aggregator.grid_searches`
  (children of a grid = the search outputs whose directory lies under the grid's directory);
* `autofit/aggregator/search_output.py`: `SearchOutput.id` (recomputed from the *reloaded* search,
  model and tag), `.instance`, `.max_log_likelihood` (first strict maximum of the samples),
  `GridSearchOutput.id`;
* `autofit/database/aggregator/scrape.py`: `Scraper._fits` (an existing fit with the same id is
  re-used, otherwise a new row), `_grid_searches` (one parent row per grid, children re-parented),
  `_add_files_fit`;
* `autofit/database/model/fit.py`: `Fit.best_fit` (first strict maximum above `-inf`), and
  `Aggregator.fits` with `top_level_only`;
* the writers: `DirectoryPaths` / `GridSearch.job_for_analysis_grid_priors_and_values` (`layout`:
  where a run puts its files) and `DatabasePaths` (`direct`: the rows the same runs produce when
  written through a session).

File contents are abstract: `search.json` / `model.json` enter as the identifier tokens of the object
they reload to (`AF.tokens`, C07) plus a canonical description that is only moved; `samples.csv` as
its rows. Identifiers are pre-image strings (`AF.joinTokens tokens`; md5 is outside Lean).
The value type `V` and its strict order `lt` are parameters (the driver uses `Float` and `<`).
-/

namespace AF.Scrape

abbrev Dir := List String

structure Sample (V : Type) where
  ll : V
  lp : V
  /-- the `log_posterior` column -/
  post : V
  w : V
  params : List V

/-- `files/search.json`, as reloaded: `search.name`, `search.unique_tag`, identifier tokens -/
structure SearchJ where
  name : String
  tag : Option String
  tokens : List String

/-- `files/model.json`, as reloaded: identifier tokens and a canonical description (moved only) -/
structure ModelJ where
  tokens : List String
  shape : String

/-- `files/samples.csv` + `files/samples_info.json` (written together) -/
structure SamplesJ (V : Type) where
  cls : String
  rows : List (Sample V)

/-- what one directory holds, file by file (`false` / `none` = the file is absent) -/
structure Content (V : Type) where
  metadata : Bool := false
  completed : Bool := false
  /-- `.identifier`: the tokens of the identifier the fit was written under -/
  ident : Option (List String) := none
  /-- `.parent_identifier` -/
  parent : Option String := none
  /-- `.is_grid_search` (its content is the unique tag, empty without a tag) -/
  grid : Option String := none
  search : Option SearchJ := none
  model : Option ModelJ := none
  info : Option (List (String × String)) := none
  samples : Option (SamplesJ V) := none
  /-- every other `files/**/*.json|csv`: dotted name ↦ content token -/
  files : List (String × String) := []
  /-- `analyses/*`: the files of each child analysis -/
  analyses : List (List (String × String)) := []

/-- a place in the tree: the directory `path` and/or the archive `path.zip` -/
structure Slot (V : Type) where
  path : Dir
  folder : Option (Content V)
  zip : Option (Content V)

/-- `ZipFile.extractall(path)` over an existing directory: the archive's files win, files only the
directory has stay -/
def overlay {V : Type} (z f : Content V) : Content V :=
  { metadata := z.metadata || f.metadata
    completed := z.completed || f.completed
    ident := z.ident.orElse fun _ => f.ident
    parent := z.parent.orElse fun _ => f.parent
    grid := z.grid.orElse fun _ => f.grid
    search := z.search.orElse fun _ => f.search
    model := z.model.orElse fun _ => f.model
    info := z.info.orElse fun _ => f.info
    samples := z.samples.orElse fun _ => f.samples
    files := z.files ++ f.files.filter (fun p => !(z.files.any (fun q => q.1 == p.1)))
    analyses := if z.analyses.isEmpty then f.analyses else z.analyses }

/-- the directory as `os.walk` sees it after `unzip_directory` -/
def Slot.effective {V : Type} (s : Slot V) : Option (Content V) :=
  match s.zip, s.folder with
  | some z, some f => some (overlay z f)
  | some z, none => some z
  | none, f => f

/-- a search output / grid-search output: a directory and what it holds -/
structure Item (V : Type) where
  path : Dir
  c : Content V

/-- `should_add` -/
def keep (completedOnly : Bool) (c : Content V) : Bool := !completedOnly || c.completed

def searchOutputs {V : Type} (completedOnly : Bool) (slots : List (Slot V)) : List (Item V) :=
  slots.filterMap fun s =>
    match s.effective with
    | some c => if c.metadata && keep completedOnly c then some ⟨s.path, c⟩ else none
    | none => none

def gridOutputs {V : Type} (completedOnly : Bool) (slots : List (Slot V)) : List (Item V) :=
  slots.filterMap fun s =>
    match s.effective with
    | some c => if c.grid.isSome && keep completedOnly c then some ⟨s.path, c⟩ else none
    | none => none

def tagTokens : Option String → List String
  | none => []
  | some t => [t]

/-- `Identifier([search, model, unique_tag]).hash_list` of the reloaded objects -/
def Content.recomputed {V : Type} (c : Content V) : List String :=
  (match c.search with | some s => s.tokens | none => []) ++
  (match c.model with | some m => m.tokens | none => []) ++
  (match c.search with | some s => tagTokens s.tag | none => [])

/-- `SearchOutput.id` -/
def Item.id {V : Type} (it : Item V) : String := joinTokens it.c.recomputed

/-- a fit directory is readable: the scraper can build a row from it -/
def Content.readable {V : Type} (c : Content V) : Bool := c.search.isSome && c.model.isSome

section best
variable {V α : Type} (lt : V → V → Bool) (key : α → V)

/-- a left-to-right scan that replaces the current best only by a strictly greater element: the
loop of `Samples.max_log_likelihood_sample` and of `Fit.best_fit`, and `np.argmax` -/
def firstMaxFrom : α → List α → α
  | best, [] => best
  | best, x :: rest => firstMaxFrom (if lt (key best) (key x) then x else best) rest

def firstMax : List α → Option α
  | [] => none
  | x :: rest => some (firstMaxFrom lt key x rest)

end best

/-- `Samples.max_log_likelihood_sample` -/
def bestSample {V : Type} (lt : V → V → Bool) (rows : List (Sample V)) : Option (Sample V) :=
  firstMax lt (·.ll) rows

structure Row (V : Type) where
  id : String
  name : Option String := none
  tag : Option String := none
  complete : Bool := false
  isGrid : Bool := false
  parent : Option String := none
  model : Option String := none
  info : List (String × String) := []
  samples : Option (SamplesJ V) := none
  maxLL : Option V := none
  /-- the best-fit instance, as the parameter vector it is built from -/
  inst : Option (List V) := none
  files : List (String × String) := []
  analyses : List (List (String × String)) := []

structure Cfg where
  /-- repaired: a grid search is stored under the name of its folder (the identifier it was written
  under); pinned commit: under the content of `.is_grid_search` (the unique tag, possibly empty) -/
  gridIdFolder : Bool := true

section rows
variable {V : Type} (lt : V → V → Bool)

def bestOf (s : Option (SamplesJ V)) : Option (Sample V) :=
  match s with
  | some sj => bestSample lt sj.rows
  | none => none

/-- `m.Fit(id=item.id, name=…, unique_tag=…, model=…, instance=…, is_complete=…, info=…,
max_log_likelihood=…, parent_id=item.parent_identifier)` followed by `_add_files_fit` -/
def Row.ofItem (it : Item V) : Row V :=
  { id := it.id
    name := it.c.search.map (·.name)
    tag := it.c.search.bind (·.tag)
    complete := it.c.completed
    parent := it.c.parent
    model := it.c.model.map (·.shape)
    info := it.c.info.getD []
    samples := it.c.samples
    maxLL := (bestOf lt it.c.samples).map (·.ll)
    inst := (bestOf lt it.c.samples).map (·.params)
    files := it.c.files
    analyses := it.c.analyses }

/-- `Fit.set_json` for every file: same-named entries are replaced -/
def setFiles (old new : List (String × String)) : List (String × String) :=
  old.filter (fun p => !(new.any (fun q => q.1 == p.1))) ++ new

/-- the fit already existed: only `_add_files_fit` and the child analyses are applied to it -/
def Row.refresh (r : Row V) (it : Item V) : Row V :=
  { r with
    samples := match it.c.samples with | some s => some s | none => r.samples
    files := setFiles r.files it.c.files
    analyses := r.analyses ++ it.c.analyses }

/-- one iteration of `Scraper._fits` -/
def addFit (db : List (Row V)) (it : Item V) : List (Row V) :=
  if db.any (fun r => r.id == it.id) then
    db.map fun r => if r.id == it.id then r.refresh it else r
  else
    db ++ [Row.ofItem lt it]

def addFits (db : List (Row V)) (items : List (Item V)) : List (Row V) :=
  items.foldl (addFit lt) db

/-- `GridSearchOutput.id` -/
def gridId (cfg : Cfg) (g : Item V) : String :=
  if cfg.gridIdFolder then g.path.getLast?.getD "" else g.c.grid.getD ""

/-- `Aggregator.grid_searches`: ids of the search outputs located under the grid's directory -/
def gridChildIds (outs : List (Item V)) (g : Item V) : List String :=
  (outs.filter fun o => g.path.isPrefixOf o.path).map Item.id

def gridRow (cfg : Cfg) (g : Item V) : Row V :=
  { id := gridId cfg g
    tag := g.c.grid
    isGrid := true
    complete := g.c.completed
    files := g.c.files }

/-- one iteration of `Scraper._grid_searches`: the parent row is created and every child found by
its id is appended to `parent.children` (which sets its `parent_id`) -/
def addGrid (cfg : Cfg) (outs : List (Item V)) (db : List (Row V)) (g : Item V) : List (Row V) :=
  (db.map fun r =>
    if (gridChildIds outs g).contains r.id then { r with parent := some (gridId cfg g) } else r)
  ++ [gridRow cfg g]

def addGrids (cfg : Cfg) (outs : List (Item V)) (db : List (Row V)) (grids : List (Item V)) :
    List (Row V) :=
  grids.foldl (addGrid cfg outs) db

/-- `Aggregator.add_directory(directory, completed_only=…)` on a database holding `db` -/
def scrape (cfg : Cfg) (completedOnly : Bool) (slots : List (Slot V)) (db : List (Row V)) :
    List (Row V) :=
  let outs := searchOutputs completedOnly slots
  addGrids cfg outs (addFits lt db outs) (gridOutputs completedOnly slots)

end rows

/-! ## what a user reads back -/

section queries
variable {V : Type}

/-- `fit.children` -/
def childrenOf (db : List (Row V)) (pid : String) : List (Row V) :=
  db.filter fun r => r.parent == some pid

/-- `Aggregator.fits` with `top_level_only`: fits whose `parent` relationship is empty -/
def topLevel (db : List (Row V)) : List (Row V) :=
  db.filter fun r =>
    match r.parent with
    | none => true
    | some p => !(db.any fun q => q.id == p)

/-- `Fit.best_fit`: the first child whose likelihood strictly exceeds everything before it,
starting from `-inf` (`kids`: id and `max_log_likelihood` of each child, in order) -/
def bestChild (lt : V → V → Bool) (negInf : V) (kids : List (String × V)) : Option String :=
  (firstMaxFrom lt (·.2) (none, negInf) (kids.map fun k => (some k.1, k.2))).1

end queries

/-! ## the writers: where a run puts its files, and what it writes through a session -/

inductive Kind where
  /-- folder and archive (`remove_files: false`, the default) -/
  | both
  /-- archive only (`remove_files: true`, or the folder was deleted) -/
  | zipOnly
  /-- folder only (archive deleted, or the run did not reach the zip step) -/
  | folderOnly
  deriving DecidableEq, Repr

/-- one fit as the user ran it -/
structure FitRun (V : Type) where
  /-- `path_prefix` components -/
  pre : Dir
  /-- `name` components (a name may contain `/`) -/
  name : Dir
  /-- the name as `search.json` records it -/
  nameStr : String
  tag : Option String
  searchTok : List String
  modelTok : List String
  shape : String
  info : Option (List (String × String)) := none
  samples : Option (SamplesJ V) := none
  completed : Bool := true
  files : List (String × String) := []
  analyses : List (List (String × String)) := []
  kind : Kind := .both
  /-- `save_all_samples` of the database route -/
  saveAll : Bool := false

/-- a grid search: its own settings and its cells (label, fit) -/
structure GridRun (V : Type) where
  pre : Dir
  name : Dir
  nameStr : String
  tag : Option String
  /-- identifier tokens of [grid search object, model, tag] -/
  identTok : List String
  completed : Bool := true
  files : List (String × String) := []
  cells : List (String × FitRun V) := []

inductive Run (V : Type) where
  | single (f : FitRun V)
  | grid (g : GridRun V)

/-- `paths.identifier` tokens: `[search, model]` plus the tag when there is one -/
def FitRun.identTok {V : Type} (f : FitRun V) : List String :=
  f.searchTok ++ f.modelTok ++ tagTokens f.tag

def FitRun.ident {V : Type} (f : FitRun V) : String := joinTokens f.identTok

def GridRun.ident {V : Type} (g : GridRun V) : String := joinTokens g.identTok

def tagDir : Option String → Dir
  | none => []
  | some t => [t]

/-- `AbstractPaths.output_path` of a fit with `is_identifier_in_paths` -/
def FitRun.path {V : Type} (f : FitRun V) : Dir := f.pre ++ tagDir f.tag ++ f.name ++ [f.ident]

def GridRun.path {V : Type} (g : GridRun V) : Dir := g.pre ++ tagDir g.tag ++ g.name ++ [g.ident]

/-- what `save_all`, `perform_update`, `completed` leave in the fit's directory -/
def FitRun.content {V : Type} (f : FitRun V) (parent : Option String) : Content V :=
  { metadata := true
    completed := f.completed
    ident := some f.identTok
    parent := parent
    search := some { name := f.nameStr, tag := f.tag, tokens := f.searchTok }
    model := some { tokens := f.modelTok, shape := f.shape }
    info := f.info
    samples := f.samples
    files := f.files
    analyses := f.analyses }

def slotOf {V : Type} (path : Dir) (kind : Kind) (c : Content V) : Slot V :=
  match kind with
  | .both => ⟨path, some c, some c⟩
  | .zipOnly => ⟨path, none, some c⟩
  | .folderOnly => ⟨path, some c, none⟩

def FitRun.slot {V : Type} (f : FitRun V) : Slot V := slotOf f.path f.kind (f.content none)

/-- a cell lives in `<grid directory>/<label>` (no identifier folder) and records its parent -/
def cellSlot {V : Type} (g : GridRun V) (cell : String × FitRun V) : Slot V :=
  slotOf (g.path ++ [cell.1]) cell.2.kind (cell.2.content (some g.ident))

def GridRun.content {V : Type} (g : GridRun V) : Content V :=
  { grid := some (g.tag.getD ""), completed := g.completed, files := g.files }

def GridRun.slots {V : Type} (g : GridRun V) : List (Slot V) :=
  ⟨g.path, some g.content, none⟩ :: g.cells.map (cellSlot g)

def Run.slots {V : Type} : Run V → List (Slot V)
  | .single f => [f.slot]
  | .grid g => g.slots

/-- the output tree the runs leave behind -/
def layout {V : Type} (runs : List (Run V)) : List (Slot V) := runs.flatMap Run.slots

section direct
variable {V : Type} (lt : V → V → Bool)

/-- `Samples.minimise`: only the maximum-likelihood and the maximum-posterior sample are kept (one
sample when they are the same one) -/
def minimise (rows : List (Sample V)) : List (Sample V) :=
  let xs := rows.zipIdx
  match firstMax lt (·.1.ll) xs, firstMax lt (·.1.post) xs with
  | some a, some b => if a.2 == b.2 then [a.1] else [a.1, b.1]
  | _, _ => []

/-- `DatabasePaths.save_samples` -/
def directSamples (saveAll : Bool) (s : Option (SamplesJ V)) : Option (SamplesJ V) :=
  if saveAll then s else s.map fun sj => { sj with rows := minimise lt sj.rows }

/-- the row `DatabasePaths` writes for a fit (`save_all`, `save_samples`, `save_summary`,
`completed`); `parent` is the identifier of the parent paths object -/
def FitRun.directRow (f : FitRun V) (parent : Option String) : Row V :=
  { id := f.ident
    name := some f.nameStr
    tag := f.tag
    complete := f.completed
    parent := parent
    model := some f.shape
    info := f.info.getD []
    samples := directSamples lt f.saveAll f.samples
    maxLL := (bestOf lt f.samples).map (·.ll)
    inst := (bestOf lt f.samples).map (·.params)
    files := f.files
    analyses := f.analyses }

def GridRun.directRow (g : GridRun V) : Row V :=
  { id := g.ident
    name := some g.nameStr
    tag := g.tag
    isGrid := true
    complete := g.completed
    files := g.files }

def Run.directRows : Run V → List (Row V)
  | .single f => [f.directRow lt none]
  | .grid g => g.cells.map (fun c => c.2.directRow lt (some g.ident)) ++ [g.directRow]

/-- the rows the same runs produce through a database session -/
def direct (runs : List (Run V)) : List (Row V) := runs.flatMap (Run.directRows lt)

end direct

/-- the part of a row the property speaks about (what both routes must agree on) -/
structure Core (V : Type) where
  id : String
  name : Option String
  tag : Option String
  complete : Bool
  isGrid : Bool
  parent : Option String
  model : Option String
  info : List (String × String)
  samples : Option (SamplesJ V)
  maxLL : Option V
  inst : Option (List V)

def Row.core {V : Type} (r : Row V) : Core V :=
  ⟨r.id, r.name, r.tag, r.complete, r.isGrid, r.parent, r.model, r.info, r.samples, r.maxLL, r.inst⟩

end AF.Scrape
