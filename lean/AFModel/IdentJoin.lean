import AFModel.Ident

/-!
# IdentJoin — the text that is hashed (C07)

`Identifier.__str__` is `md5(".".join(hash_list))`. `joinTokens` (`AFModel/Ident.lean`) is the join;
here is what the join forgets: the boundaries between tokens are written with the same `.` that occurs
*inside* tokens (floats `1.5`, class paths `pkg.mod.Cls`, strings such as a unique tag `run.v2`).
`tokenPieces` cuts every token at its dots: two non-empty token lists give the same text exactly when
their pieces coincide (`AFProofs/C07.lean: join_eq_iff_pieces`). Core Lean only.
-/

namespace AF

/-- `".".join` on character lists -/
def joinChars : List (List Char) → List Char
  | [] => []
  | [t] => t
  | t :: u :: rest => t ++ '.' :: joinChars (u :: rest)

def consHead (c : Char) : List (List Char) → List (List Char)
  | [] => [[c]]
  | p :: ps => (c :: p) :: ps

/-- `s.split(".")` -/
def pieces : List Char → List (List Char)
  | [] => [[]]
  | c :: cs => if c = '.' then [] :: pieces cs else consHead c (pieces cs)

def piecesOfTokens : List (List Char) → List (List Char)
  | [] => []
  | t :: rest => pieces t ++ piecesOfTokens rest

/-- every token cut at its dots -/
def tokenPieces (l : List String) : List String := (piecesOfTokens (l.map String.toList)).map String.ofList

/-- the token contains no `.` -/
def dotFree (t : List Char) : Bool := !t.contains '.'

end AF
