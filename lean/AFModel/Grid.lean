/-!
# Grid — executable model of grid searches and sensitivity mapping (property C16)

Mirrors (hand-written, tied to the code by the correspondence harness `harness/c16.py`):

* `autofit.non_linear.grid.grid_search.make_lists`              → `lattice`, `unitValue`, `unitLists`, `countOf`
* `GridSearch.step_size`, `GridSearch.make_arguments`           → `mkDim`, `gridCellDim`, `gridCells`
* `mapper_from_partial_prior_arguments` (which places change)   → `placeMap`
* `ResultBuilder.add` / `sample_summaries`                      → `sampleSummaries`
* `GridSearchResult.shape/side_length/step_size/upper_limits_lists/physical_*_lists`, `GridList.native` index
                                                                → `sideOf`, `shapeOf`, `upperUnit`, `reportedPhysical`, `digits`, `index`
* `Sensitivity.shape/step_size/_lists/_perturb_instances/_perturb_models/_headers`, `run`'s
  `results = sorted(results)`                                   → `sensCellDim`, `sensCells`, `collectSorted`, `headers`

The number type `V` is a parameter: the driver runs every definition at `Float` (bit-exact mirror of
the Python arithmetic) *and* at `Rat` (the exact layer the tiling theorems are about).

Finding flags (`Cfg`): `true` = repaired behaviour, `false` = behaviour of the pinned commit.
Core Lean only.
-/

namespace AF.Grid

/-- finding flags, probed on the real code by the harness on every run -/
structure Cfg where
  /-- `make_lists` makes `round(1/step)` lattice points (repaired) instead of `int(1/step)` -/
  integerSteps : Bool := true
  /-- `GridSearchResult.shape` uses the rounded root (repaired) instead of the truncated one -/
  shapeExact : Bool := true
  /-- `upper_limits_lists` never exceeds the unit upper bound 1 (repaired) -/
  upperClamp : Bool := true
  /-- `Sensitivity` headers/labels in id order, the order of the values (repaired) -/
  labelsById : Bool := true
  deriving Repr, Inhabited

/-- the arithmetic the code performs, as a parameter -/
structure Num (V : Type) where
  ofNat : Nat → V
  add : V → V → V
  sub : V → V → V
  mul : V → V → V
  div : V → V → V
  le : V → V → Bool
  half : V

def floatNum : Num Float :=
  { ofNat := Float.ofNat, add := (· + ·), sub := (· - ·), mul := (· * ·), div := (· / ·),
    le := fun a b => a ≤ b, half := 0.5 }

def ratNum : Num Rat :=
  { ofNat := fun n => (n : Rat), add := (· + ·), sub := (· - ·), mul := (· * ·), div := (· / ·),
    le := fun a b => decide (a ≤ b), half := 1 / 2 }

/-! ## the lattice of `make_lists` -/

def prod : List Nat → Nat
  | [] => 1
  | n :: ns => n * prod ns

/-- index tuples in the order of the nested comprehension of `make_lists`
(`for value in range(..) for sub_list in sub_lists`): first dimension slowest -/
def lattice : List Nat → List (List Nat)
  | [] => [[]]
  | n :: ns => (List.range n).flatMap fun k => (lattice ns).map (k :: ·)

/-- mixed-radix digits of `k`, most significant first = `numpy.unravel_index(k, shape)` (C order) -/
def digits : List Nat → Nat → List Nat
  | [], _ => []
  | _ :: ns, k => (k / prod ns) :: digits ns (k % prod ns)

/-- row-major position of an index tuple = `numpy.ravel_multi_index` -/
def index : List Nat → List Nat → Nat
  | _ :: ns, i :: idx => i * prod ns + index ns idx
  | _, _ => 0

/-- `int(1 / (1 / n))` in IEEE double arithmetic (pinned commit) -/
def stepsF (n : Nat) : Nat := (1.0 / (1.0 / Float.ofNat n)).toUInt64.toNat

/-- number of lattice points `make_lists` produces for a dimension with `n` requested steps -/
def countOf (cfg : Cfg) (n : Nat) : Nat := if cfg.integerSteps then n else stepsF n

/-- one searched dimension -/
structure Dim (V : Type) where
  lo : V
  hi : V
  /-- requested number of steps -/
  steps : Nat
  /-- lattice points generated -/
  count : Nat
  /-- `step_size = 1 / number_of_steps` -/
  step : V

def mkDim {V} (N : Num V) (cfg : Cfg) (lo hi : V) (n : Nat) : Dim V :=
  { lo := lo, hi := hi, steps := n, count := countOf cfg n,
    step := N.div (N.ofNat 1) (N.ofNat n) }

/-- `step_size * value + (0.5 * step_size if centre_steps else 0)` -/
def unitValue {V} (N : Num V) (centre : Bool) (d : Dim V) (k : Nat) : V :=
  let v := N.mul d.step (N.ofNat k)
  if centre then N.add v (N.mul N.half d.step) else v

def cellAt {V α} (f : Dim V → Nat → α) (dims : List (Dim V)) (idx : List Nat) : List α :=
  List.zipWith f dims idx

def counts {V} (dims : List (Dim V)) : List Nat := dims.map (·.count)

/-- `make_lists(d, step_size, centre_steps)` -/
def unitLists {V} (N : Num V) (centre : Bool) (dims : List (Dim V)) : List (List V) :=
  (lattice (counts dims)).map (cellAt (unitValue N centre) dims)

/-! ## grid search cells -/

/-- `GridSearch.make_arguments`: limits of the uniform prior of one dimension of a cell -/
def gridCellDim {V} (N : Num V) (d : Dim V) (k : Nat) : V × V :=
  let w := N.sub d.hi d.lo
  let v := unitValue N false d k
  (N.add d.lo (N.mul v w), N.add d.lo (N.mul (N.add v d.step) w))

/-- the cells in job order (`enumerate(lists)`) -/
def gridCells {V} (N : Num V) (dims : List (Dim V)) : List (List (V × V)) :=
  (lattice (counts dims)).map (cellAt (gridCellDim N) dims)

def gridDims {V} (N : Num V) (cfg : Cfg) (n : Nat) (ranges : List (V × V)) : List (Dim V) :=
  ranges.map fun r => mkDim N cfg r.1 r.2 n

/-- `GridSearch(number_of_steps = n)` over the priors with limits `ranges` -/
def gridModel {V} (N : Num V) (cfg : Cfg) (n : Nat) (ranges : List (V × V)) : List (List (V × V)) :=
  gridCells N (gridDims N cfg n ranges)

/-! ## which priors of a cell's model are replaced -/

inductive Place where
  /-- the place holds the uniform prior of grid dimension `i` -/
  | dim (i : Nat)
  /-- the place keeps the original prior `id` -/
  | keep (id : Nat)
  deriving Repr, DecidableEq, Inhabited

def placeOf (gridIds : List Nat) (id : Nat) : Place :=
  match gridIds.idxOf? id with
  | some i => .dim i
  | none => .keep id

/-- `model.mapper_from_partial_prior_arguments({grid_prior_i: cell prior_i})`, place by place -/
def placeMap {P} (gridIds : List Nat) (places : List (P × Nat)) : List (P × Place) :=
  places.map fun x => (x.1, placeOf gridIds x.2)

/-! ## collecting results -/

/-- `ResultBuilder`: `add` stores by job number (later writes win), `sample_summaries` reads
`range(len(lists))` with a placeholder (`none`) where nothing has arrived -/
def sampleSummaries {R} (total : Nat) (arrivals : List (Nat × R)) : List (Option R) :=
  (List.range total).map fun k => arrivals.reverse.lookup k

def numLe {R} (a b : Nat × R) : Bool := decide (a.1 ≤ b.1)

/-- `Sensitivity.run`: `results.append(result); results = sorted(results)` after every arrival -/
def collectSorted {R} (arrivals : List (Nat × R)) : List (Nat × R) :=
  arrivals.foldl (fun acc r => (acc ++ [r]).mergeSort numLe) []

/-! ## the reported result -/

def irootGo (total d : Nat) : Nat → Nat → Nat
  | 0, s => s
  | fuel + 1, s => if (s + 1) ^ d ≤ total then irootGo total d fuel (s + 1) else s

/-- the greatest `s` with `s ^ d ≤ total` (for `d ≥ 1`) -/
def iroot (total d : Nat) : Nat := irootGo total d total 0

/-- `int(total ** (1 / d))` in double arithmetic (pinned commit; uses libm `pow`) -/
def sideTrunc (root : Float) : Nat := root.toUInt64.toNat

def sideF (total d : Nat) : Nat :=
  sideTrunc (Float.pow (Float.ofNat total) (1.0 / Float.ofNat d))

/-- `int(round(total ** (1 / d)))` (repaired code) for *every* number of results, perfect power or not: the
integer nearest to the real `d`-th root, computed exactly (`⌊2·total^(1/d)⌋ = iroot (2^d·total) d`; the root
is never half way between two integers because `(2s+1)^d` is odd). Equal to `iroot` on perfect powers. -/
def sideRound (total d : Nat) : Nat := (iroot (2 ^ d * total) d + 1) / 2

def sideOf (cfg : Cfg) (total d : Nat) : Nat :=
  if cfg.shapeExact then sideRound total d else sideF total d

/-- does `GridList.native` (`numpy.reshape(values, shape)`) succeed for a per-cell list: only when the
reported shape accounts for every entry -/
def nativeOk (cfg : Cfg) (total d : Nat) : Bool := prod (List.replicate d (sideOf cfg total d)) == total

/-- `GridSearchResult.shape` -/
def shapeOf (cfg : Cfg) (total d : Nat) : List Nat := List.replicate d (sideOf cfg total d)

/-- `GridSearchResult.upper_limits_lists`, one entry: `limit + 1 / side_length` -/
def upperUnit {V} (N : Num V) (cfg : Cfg) (side : Nat) (v : V) : V :=
  let u := N.add v (N.div (N.ofNat 1) (N.ofNat side))
  if cfg.upperClamp then (if N.le u (N.ofNat 1) then u else N.ofNat 1) else u

/-- `(upper + lower) / 2` -/
def centreUnit {V} (N : Num V) (lower upper : V) : V := N.div (N.add lower upper) (N.ofNat 2)

/-- the exact map from the unit interval onto a uniform prior's range -/
def physical {V} (N : Num V) (d : Dim V) (u : V) : V := N.add d.lo (N.mul u (N.sub d.hi d.lo))

/-- `GridSearchResult._physical_values_for`: a reported unit limit mapped through the *original* grid
prior's `value_for`. For a `UniformPrior` that is `physical`; a prior of any other kind has its own
unit map `f` (log-uniform, Gaussian, …) although `make_arguments` always cuts its range linearly. -/
def reportedPhysical {V} (N : Num V) (uniform : Bool) (f : V → V) (d : Dim V) (u : V) : V :=
  if uniform then physical N d u else f u

/-! ## sensitivity mapping -/

structure SensCell (V : Type) where
  /-- unit and physical value of the perturbation -/
  unitCentre : V
  unitLower : V
  unitUpper : V
  centre : V
  lower : V
  upper : V

/-- one dimension of `_perturb_instances` / `_perturb_models` -/
def sensCellDim {V} (N : Num V) (scale : V) (d : Dim V) (k : Nat) : SensCell V :=
  let c := unitValue N true d k
  let h := N.div (N.mul scale d.step) (N.ofNat 2)
  let a := N.sub c h
  let b := N.add c h
  let lo := if N.le a (N.ofNat 0) then N.ofNat 0 else a      -- max(0.0, centre - half_step)
  let hi := if N.le (N.ofNat 1) b then N.ofNat 1 else b      -- min(1.0, centre + half_step)
  { unitCentre := c, unitLower := lo, unitUpper := hi,
    centre := physical N d c, lower := physical N d lo, upper := physical N d hi }

def sensDims {V} (N : Num V) (cfg : Cfg) (dims : List ((V × V) × Nat)) : List (Dim V) :=
  dims.map fun r => mkDim N cfg r.1.1 r.1.2 r.2

def sensCells {V} (N : Num V) (scale : V) (dims : List (Dim V)) : List (List (SensCell V)) :=
  (lattice (counts dims)).map (cellAt (sensCellDim N scale) dims)

/-- `Sensitivity.shape` -/
def sensShape {V} (dims : List (Dim V)) : List Nat := dims.map (·.steps)

/-- column headers of `results.csv`; the values are always in id order -/
def headers (cfg : Cfg) (namesById namesByAttr : List String) : List String :=
  if cfg.labelsById then namesById else namesByAttr

/-! ## exact value of a double -/

def ratOfFloat (x : Float) : Option Rat :=
  let bits := x.toBits.toNat
  let neg := bits / 2 ^ 63 == 1
  let ex : Nat := (bits / 2 ^ 52) % 2048
  let frac : Nat := bits % 2 ^ 52
  if ex == 2047 then none
  else
    let m : Nat := if ex == 0 then frac else frac + 2 ^ 52
    let e : Int := if ex == 0 then -1074 else (ex : Int) - 1075
    let r : Rat :=
      if e ≥ 0 then ((m * 2 ^ e.toNat : Nat) : Rat) else ((m : Nat) : Rat) / ((2 ^ (-e).toNat : Nat) : Rat)
    some (if neg then -r else r)

end AF.Grid
