import AFModel.Fitness

/-!
# SearchTable — how every search class builds the fitness object it optimises (C04)

One `SearchRow` per search class of `autofit/non_linear/search/**`: the keyword arguments of the
`Fitness(...)` / `FitnessPySwarms(...)` construction its `_fit` (own or inherited) performs, with the
defaults of `Fitness.__init__` filled in. The rows themselves are regenerated from the repository
source by `harness/tables_c04.py` (`AFModel/Generated/C04.lean`); this file holds the row type and
what a row *means*: the call the search's fitness object performs (`rowCall`), the value the search
receives for a vector that cannot be evaluated (`rowResample`) and the checks that make a resample
value "the designated one" (`rowDesignated`).
-/

namespace AF

/-- sub-package of `autofit/non_linear/search` the class lives in -/
inductive SearchFamily | nest | mcmc | mle
  deriving DecidableEq, Repr, Inhabited

/-- which `__call__` the fitness object has -/
inductive FitnessClass
  | plain      -- `Fitness.__call__`
  | pyswarms   -- `FitnessPySwarms.__call__`: whole swarm, always posterior, always `-2 *`
  deriving DecidableEq, Repr, Inhabited

/-- the `store_history` argument: a literal or an expression evaluated at run time -/
inductive HistoryArg | off | on | dynamic
  deriving DecidableEq, Repr, Inhabited

structure SearchRow where
  /-- search class -/
  name : String
  family : SearchFamily
  /-- class whose method holds the construction (the class itself or an ancestor) -/
  owner : String
  fitnessClass : FitnessClass
  fomIsLL : Bool
  convertChi : Bool
  history : HistoryArg
  /-- IEEE bits of `resample_figure_of_merit` -/
  resampleBits : UInt64
  /-- `paths=` is passed: `check_log_likelihood` runs when the object is built -/
  passesPaths : Bool
  deriving Repr, Inhabited

def SearchRow.resample (r : SearchRow) : Float := Float.ofBits r.resampleBits

/-- `store_history` of the object; `hist` is the run-time value of a dynamic argument -/
def SearchRow.storeHistory (r : SearchRow) (hist : Bool) : Bool :=
  match r.history with
  | .off => false
  | .on => true
  | .dynamic => hist

/-- the configuration of the fitness object a search of this row builds -/
def rowCfg (r : SearchRow) (hist : Bool) : FitCfg Float :=
  { fomIsLL := r.fomIsLL, convertChi := r.convertChi, storeHistory := r.storeHistory hist, resample := r.resample }

/-- one evaluation of one vector by the fitness object of a search of this row -/
def rowCall (fo : FomOps Float) (r : SearchRow) (hist : Bool) (g : List Float → Except GateErr (Inst Float))
    (lp : List Float → List Float) (st : FitSt Float) (v : List Float) (o : Outcome Float) :
    CallResult Float × FitSt Float :=
  match r.fitnessClass with
  | .plain => fitnessCall fo (rowCfg r hist) g lp st v o
  | .pyswarms => (pyswarmsParticle fo (rowCfg r hist) g lp v o, st)   -- keeps no history

def rowRun (fo : FomOps Float) (r : SearchRow) (hist : Bool) (g : List Float → Except GateErr (Inst Float))
    (lp : List Float → List Float) : FitSt Float → List (List Float × Outcome Float) →
    List (CallResult Float) × FitSt Float
  | st, [] => ([], st)
  | st, (v, o) :: rest =>
    let (x, st') := rowCall fo r hist g lp st v o
    let (xs, st'') := rowRun fo r hist g lp st' rest
    (x :: xs, st'')

/-- does the search receive `-2 ×` the likelihood / posterior (a chi-squared, which it minimises)? -/
def SearchRow.minimises (r : SearchRow) : Bool :=
  r.convertChi || r.fitnessClass == .pyswarms

/-- is the figure of merit the posterior (likelihood plus the log-prior terms)? -/
def SearchRow.posterior (r : SearchRow) : Bool :=
  !r.fomIsLL || r.fitnessClass == .pyswarms

/-- the property's figure of merit for this row: `ll`, plus the prior sum in posterior space, times −2
when the search minimises -/
def rowFom (fo : FomOps Float) (r : SearchRow) (ll lpSum : Float) : Float :=
  let x := if r.posterior then fo.add ll lpSum else ll
  if r.minimises then fo.mulNeg2 x else x

/-- what the search receives for a vector that cannot be evaluated -/
def rowResample (fo : FomOps Float) (r : SearchRow) : Float :=
  match r.fitnessClass with
  | .plain => r.resample
  | .pyswarms => fo.mulNeg2 r.resample

/-- the resample value is *designated*: no evaluated vector can look worse to the search. A minimiser
gets at least `1e99`, a maximiser at most `-1e99` (NaN fails both). -/
def rowResampleWorst (fo : FomOps Float) (r : SearchRow) : Bool :=
  if r.minimises then decide (rowResample fo r ≥ 1.0e99) else decide (rowResample fo r ≤ -1.0e99)

/-- nested samplers work in likelihood space (the prior enters through the unit cube) and maximise;
MCMC works in posterior space and maximises; maximum-likelihood estimators work in posterior space -/
def rowSpaceOk (r : SearchRow) : Bool :=
  match r.family with
  | .nest => !r.posterior && !r.minimises
  | .mcmc => r.posterior && !r.minimises
  | .mle => r.posterior

/-- the flags handed to a `FitnessPySwarms` say what that class does anyway -/
def rowFlagsHonest (r : SearchRow) : Bool :=
  match r.fitnessClass with
  | .plain => true
  | .pyswarms => !r.fomIsLL && r.convertChi

def rowDesignated (fo : FomOps Float) (r : SearchRow) : Bool :=
  rowResampleWorst fo r && rowSpaceOk r && rowFlagsHonest r

def findRow (rows : List SearchRow) (name : String) : Option SearchRow :=
  rows.find? (fun r => r.name == name)

end AF
