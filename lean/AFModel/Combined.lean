import AFModel.Comp

/-!
# Combined — executable model of summed analyses (C15)

Mirrors (hand-written, tied to the code by `harness/c15.py`):

* `Analysis.__add__` / `CombinedAnalysis.__add__` / `__radd__`            → `plus`, `build`, `flatten`
* `CombinedAnalysis._summed_log_likelihood` (`sum(generator)`)           → `serial`
* `AnalysisPool.__init__` (slices of `ceil(n / min(n, cores))` analyses)  → `partition`
* `AnalysisProcess._run`, `AnalysisPool.__call__/results`                 → `Worker`, `deliver`, `submit`,
  `poll`, `callLoop`, `fallback`, `poolCall`, `poolHistory` (a deterministic scheduler at the
  granularity "a worker puts one result" / "the caller inspects one result queue")
* `AnalysisPool.map` / `CombinedAnalysis._for_each_analysis` (child folders)  → `mapFolders`, `serialFolders`
* `CombinedAnalysis.__new__` (own models ⇒ `CombinedModelAnalysis`)        → `hasOwn`, `fittedModel`
* `FreeParameterAnalysis.__init__/modify_model` (`Prior.new` per analysis)  → `freeIds`, `freeCopy`, `freeModel`
* `IndexedAnalysis.log_likelihood_function` (`instance[index]`)            → `subInstance`, `indexedLls`

Core Lean only.
-/

namespace AF.Combined
open AF

/-! ## 1. `+` in any bracketing -/

/-- an expression over `+` whose leaves are analyses -/
inductive Expr (α : Type) where
  | leaf (a : α)
  | add (l r : Expr α)
  deriving Repr, Inhabited

/-- what an expression evaluates to: a plain analysis or a `CombinedAnalysis` holding a tuple -/
inductive Built (α : Type) where
  | single (a : α)
  | comb (as : List α)
  deriving Repr, Inhabited

/-- `x + y`. `Analysis.__add__` hands over to the right operand when that is a combined analysis
(`other + self`), which is why `a + (b + c)` holds `(b, c, a)`. -/
def plus {α : Type} : Built α → Built α → Built α
  | .single a, .single b => .comb [a, b]
  | .single a, .comb bs => .comb (bs ++ [a])
  | .comb as, .single b => .comb (as ++ [b])
  | .comb as, .comb bs => .comb (as ++ bs)

def build {α : Type} : Expr α → Built α
  | .leaf a => .single a
  | .add l r => plus (build l) (build r)

def Built.toList {α : Type} : Built α → List α
  | .single a => [a]
  | .comb as => as

/-- `combined.analyses` -/
def flatten {α : Type} (e : Expr α) : List α := (build e).toList

/-- the analyses written in the expression, left to right -/
def Expr.leaves {α : Type} : Expr α → List α
  | .leaf a => [a]
  | .add l r => l.leaves ++ r.leaves

/-- `sum([a₀, a₁, …])`: `0 + a₀` is `a₀` (`__radd__`), then left-nested `+` -/
def sumExpr {α : Type} (a : α) (rest : List α) : Expr α :=
  rest.foldl (fun e b => .add e (.leaf b)) (.leaf a)

/-! ## 2. results, the serial sum -/

/-- what one analysis gives for one instance: a number or an exception -/
inductive Res (V : Type) where
  | val (v : V)
  | err (tag : String)
  deriving Repr, DecidableEq, Inhabited

/-- what one evaluation of the combined analysis gives -/
inductive Outcome (V : Type) where
  | value (v : V)
  | raises (tag : String)
  /-- the pool never returns (the caller polls forever) -/
  | stuck
  deriving Repr, DecidableEq, Inhabited

/-- the arithmetic `sum` uses -/
structure SumOps (V : Type) where
  add : V → V → V
  sub : V → V → V
  zero : V
  /-- `fabs(a) >= fabs(b)` -/
  absGe : V → V → Bool
  /-- `c && isfinite(c)`: the compensation is applied -/
  usable : V → Bool

def Res.isErr {V : Type} : Res V → Bool
  | .err _ => true
  | .val _ => false

/-- the float loop of CPython's `sum` (3.12+): Neumaier's compensated summation. `f` is the running
sum, `c` the running compensation. -/
def neumaier {V : Type} (so : SumOps V) : V → V → List V → V
  | f, c, [] => if so.usable c then so.add f c else f
  | f, c, x :: xs =>
    let t := so.add f x
    let c' := if so.absGe f x then so.add c (so.add (so.sub f t) x) else so.add c (so.add (so.sub x t) f)
    neumaier so t c' xs

/-- Python `sum(xs)`: starts from the integer `0`; `0 + x₀` is computed by ordinary addition, the
remaining items are added by the compensated float loop -/
def pySum {V : Type} (so : SumOps V) : List V → V
  | [] => so.zero
  | x :: xs => neumaier so (so.add so.zero x) so.zero xs

def Res.vals {V : Type} : List (Res V) → List V
  | [] => []
  | .val v :: rest => v :: Res.vals rest
  | .err _ :: rest => Res.vals rest

/-- `sum(results)` -/
def sumVals {V : Type} (so : SumOps V) (rs : List (Res V)) : V := pySum so (Res.vals rs)

/-- the first exception of a list of results -/
def firstErr {V : Type} : List (Res V) → Option String
  | [] => none
  | .err t :: _ => some t
  | .val _ :: rest => firstErr rest

/-- outcome of a list of results that all belong to one evaluation -/
def outcomeOf {V : Type} (so : SumOps V) (rs : List (Res V)) : Outcome V :=
  match firstErr rs with
  | some t => .raises t
  | none => .value (sumVals so rs)

/-- `CombinedAnalysis._summed_log_likelihood`: the generator is consumed left to right; the first
exception propagates (analyses are pure here, so evaluating the later ones is unobservable). -/
def serial {ι V : Type} (so : SumOps V) (as : List (ι → Res V)) (i : ι) : Outcome V :=
  outcomeOf so (as.map (· i))

/-! ## 3. the partition of analyses over processes -/

/-- `math.ceil(n / p)` -/
def ceilDiv (n p : Nat) : Nat := (n + p - 1) / p

/-- `analyses[m*k : (m+1)*k]` for `m < min(n, cores)`, `k = ceil(n / min(n, cores))` -/
def partition {α : Type} (cores : Nat) (as : List α) : List (List α) :=
  let p := min as.length cores
  let k := ceilDiv as.length p
  (List.range p).map (fun m => (as.drop (m * k)).take k)

/-! ## 4. the pool as a scheduled state machine -/

/-- one `AnalysisProcess`: results it still has to produce for the instances it was sent (in the
order it will put them) and the results waiting in its queue -/
structure Worker (R : Type) where
  pending : List R
  resQ : List R
  deriving Repr, Inhabited

/-- a schedule is a list of these: `work w` lets process `w` (modulo the number of processes)
put its next result; `poll` lets the caller inspect the next result queue of its sweep -/
inductive Ev where
  | work (w : Nat)
  | poll
  deriving Repr, DecidableEq, Inhabited

/-- finding flags (DESIGN §0): `true` = repaired behaviour -/
structure Cfg where
  /-- `AnalysisPool.results` collects one result per analysis before it raises -/
  drainOnError : Bool := true
  /-- `AnalysisPool.map` numbers the child folders by analysis (not by process) -/
  mapIndexesAnalyses : Bool := true
  /-- `CombinedAnalysis.__new__` recognises an analysis with its own model inside an `IndexedAnalysis` -/
  newSeesThroughIndex : Bool := true
  deriving Repr, Inhabited

def deliver {R : Type} (w : Worker R) : Worker R :=
  match w.pending with
  | [] => w
  | r :: rest => { pending := rest, resQ := w.resQ ++ [r] }

def stepWorker {R : Type} (ws : List (Worker R)) (k : Nat) : List (Worker R) :=
  ws.modify (k % ws.length) deliver

/-- `AnalysisPool.__call__`: the instance is put on every process's instance queue; process `p`
will evaluate its slice in order -/
def submit {ι R : Type} (slices : List (List (ι → R))) (ws : List (Worker R)) (i : ι) : List (Worker R) :=
  List.zipWith (fun s w => { w with pending := w.pending ++ s.map (· i) }) slices ws

/-- state of one call of `results()` -/
structure Call (R : Type) where
  ws : List (Worker R)
  /-- next process of the current sweep -/
  pos : Nat := 0
  /-- what has been taken from the queues, in arrival order -/
  got : List R := []
  /-- an exception was raised out of the loop (behaviour of the pinned commit) -/
  aborted : Bool := false
  stuck : Bool := false
  deriving Repr, Inhabited

/-- the caller looks at process `p`'s result queue and takes its head if there is one -/
def takeAt {R : Type} (cfg : Cfg) (isErr : R → Bool) (c : Call R) (p : Nat) : Call R :=
  if c.aborted then c else
  match c.ws[p]? with
  | none => c
  | some w =>
    match w.resQ with
    | [] => c
    | r :: rest =>
      { c with ws := c.ws.set p { w with resQ := rest }, got := c.got ++ [r],
               aborted := !cfg.drainOnError && isErr r }

/-- one step of `for process in self.processes` -/
def poll {R : Type} (cfg : Cfg) (isErr : R → Bool) (c : Call R) : Call R :=
  let c1 := takeAt cfg isErr c c.pos
  if c.pos + 1 ≥ c1.ws.length then { c1 with pos := 0 } else { c1 with pos := c.pos + 1 }

/-- `while count_ < self.n_analyses` is re-examined when a sweep ends -/
def finished {R : Type} (n : Nat) (c : Call R) : Bool :=
  c.aborted || (c.pos == 0 && decide (n ≤ c.got.length))

/-- every process runs until it has nothing left to do -/
def quiesce {R : Type} (ws : List (Worker R)) : List (Worker R) :=
  ws.map (fun w => { pending := [], resQ := w.resQ ++ w.pending })

def nonemptyAt {R : Type} (ws : List (Worker R)) (p : Nat) : Bool :=
  match ws[p]? with
  | some w => !w.resQ.isEmpty
  | none => false

/-- the first process at or after `pos` (cyclically) with a waiting result -/
def nextNonempty {R : Type} (ws : List (Worker R)) (pos : Nat) : Option Nat :=
  (List.range' pos (ws.length - pos) ++ List.range (min pos ws.length)).find? (nonemptyAt ws)

/-- with all processes quiet, sweeps go on taking results until `n` have been counted … -/
def drainA {R : Type} (cfg : Cfg) (isErr : R → Bool) : Nat → Call R → Call R
  | 0, c => c
  | k + 1, c =>
    if c.aborted then c else
    match nextNonempty c.ws c.pos with
    | none => { c with stuck := true }
    | some p => drainA cfg isErr k { takeAt cfg isErr c p with pos := p + 1 }

/-- … and the sweep in which the count is reached is completed -/
def drainB {R : Type} (cfg : Cfg) (isErr : R → Bool) (c : Call R) : Call R :=
  (List.range' c.pos (c.ws.length - c.pos)).foldl (takeAt cfg isErr) c

/-- what happens when the schedule is exhausted: every process finishes its work, the caller
keeps sweeping -/
def fallback {R : Type} (cfg : Cfg) (isErr : R → Bool) (n : Nat) (c : Call R) : Call R :=
  let c1 := { c with ws := quiesce c.ws }
  let c2 := drainA cfg isErr (n - c1.got.length) c1
  if c2.stuck then c2 else { drainB cfg isErr c2 with pos := 0 }

/-- `results()` under a schedule -/
def callLoop {R : Type} (cfg : Cfg) (isErr : R → Bool) (n : Nat) : Call R → List Ev → Call R
  | c, [] => fallback cfg isErr n c
  | c, .work w :: es => callLoop cfg isErr n { c with ws := stepWorker c.ws w } es
  | c, .poll :: es =>
    let c' := poll cfg isErr c
    if finished n c' then c' else callLoop cfg isErr n c' es

/-- value of `pool(instance)`: `sum(self.results())`, or the exception -/
def callOutcome {V : Type} (so : SumOps V) (c : Call (Res V)) : Outcome V :=
  if c.stuck then .stuck else outcomeOf so c.got

/-- one evaluation through the pool; the processes' queues persist to the next one -/
def poolCall {ι V : Type} (cfg : Cfg) (so : SumOps V) (n : Nat) (slices : List (List (ι → Res V)))
    (ws : List (Worker (Res V))) (i : ι) (evs : List Ev) : Outcome V × List (Worker (Res V)) :=
  let c := callLoop cfg Res.isErr n { ws := submit slices ws i } evs
  (callOutcome so c, c.ws)

/-- a history of evaluations, each with its own schedule -/
def poolHistory {ι V : Type} (cfg : Cfg) (so : SumOps V) (n : Nat) (slices : List (List (ι → Res V))) :
    List (Worker (Res V)) → List (ι × List Ev) → List (Outcome V)
  | _, [] => []
  | ws, (i, evs) :: rest =>
    let r := poolCall cfg so n slices ws i evs
    r.1 :: poolHistory cfg so n slices r.2 rest

def freshWorkers {R : Type} (p : Nat) : List (Worker R) := List.replicate p { pending := [], resQ := [] }

/-- `combined.n_cores = cores; [combined.log_likelihood_function(i) for i in history]` -/
def evaluate {ι V : Type} (cfg : Cfg) (so : SumOps V) (cores : Nat) (as : List (ι → Res V))
    (history : List (ι × List Ev)) : List (Outcome V) :=
  if cores ≤ 1 then history.map (fun h => serial so as h.1)
  else
    let slices := partition cores as
    poolHistory cfg so as.length slices (freshWorkers slices.length) history

/-! ## 5. child folders -/

/-- `_for_each_analysis`: analysis `i` works in `analyses/analysis_{i}` -/
def serialFolders (n : Nat) : List Nat := List.range n

/-- `AnalysisPool.map`: folder number given to each analysis, in the order of `analyses` -/
def mapFolders (cfg : Cfg) (sizes : List Nat) : List Nat :=
  if cfg.mapIndexesAnalyses then List.range sizes.sum
  else (sizes.zipIdx.map (fun (s, p) => List.replicate s p)).flatten

/-! ## 6. own models and free parameters -/

/-- a scripted analysis: reads one number of its instance -/
structure Analysis (V : Type) where
  name : Nat
  watch : Path
  w : V
  c : V
  /-- values of the watched number at which the analysis raises `FitException` -/
  bad : List V
  /-- `analysis.with_model(model)` -/
  own : Option (Node V) := none
  deriving Inhabited

def Analysis.ll {V : Type} (ops : Ops V) (eq : V → V → Bool) (a : Analysis V) (i : Inst V) : Res V :=
  match i.at a.watch with
  | some (.num x) =>
      if a.bad.any (eq x) then .err "FitException"
      else .val (ops.bin .add (ops.bin .mul a.w x) a.c)
  | _ => .err "AttributeError"

def hasOwn {V : Type} (as : List (Analysis V)) : Bool := as.any (·.own.isSome)

/-- a free parameter argument of `with_free_parameters`: a prior, or a component / tuple prior
given by its place in the model -/
inductive FreeArg where
  | prior (id : Nat)
  | part (path : Path)
  deriving Repr, Inhabited

/-- `FreeParameterAnalysis.free_parameters`: the priors given directly, then the priors of every
component given (in the order the model walk meets them, repetitions kept) -/
def freeIds {V : Type} (t : Node V) (args : List FreeArg) : List Nat :=
  args.filterMap (fun a => match a with | .prior id => some id | .part _ => none) ++
  (args.map (fun a => match a with
    | .prior _ => []
    | .part p => match t.at p with
        | some n => (walk n).map (·.2)
        | none => [])).flatten

/-- position of the last occurrence (a dict comprehension keeps the last value of a key) -/
def lastIndexOf (F : List Nat) (id : Nat) : Option Nat :=
  (F.zipIdx.reverse.find? (fun x => x.1 == id)).map (·.2)

/-- id of the copy of a parameter used by analysis `k`: free parameters get the id drawn by the
`Prior.new()` call made for them (`base` = first unused id), every other parameter keeps its own -/
def freeRename (F : List Nat) (base k : Nat) (id : Nat) : Nat :=
  match lastIndexOf F id with
  | some j => base + k * F.length + j
  | none => id

mutual
/-- `mapper_from_partial_prior_arguments`: the same composition over renamed priors -/
def mapIds {V : Type} (σ : Nat → Nat) : Node V → Node V
  | .prior id => .prior (σ id)
  | .const v => .const v
  | .opaque tag => .opaque tag
  | .model cls ctor attrs => .model cls ctor (mapIdsAttrs σ attrs)
  | .coll attrs => .coll (mapIdsAttrs σ attrs)
  | .tuple attrs => .tuple (mapIdsAttrs σ attrs)
  | .arith op attrs l r => .arith op (mapIdsAttrs σ attrs) (mapIds σ l) (mapIds σ r)
  | .modif op attrs x => .modif op (mapIdsAttrs σ attrs) (mapIds σ x)
  | .array shape attrs => .array shape (mapIdsAttrs σ attrs)
def mapIdsAttrs {V : Type} (σ : Nat → Nat) : List (String × Node V) → List (String × Node V)
  | [] => []
  | (k, n) :: rest => (k, mapIds σ n) :: mapIdsAttrs σ rest
end

/-- the model analysis `k` sees -/
def freeCopy {V : Type} (t : Node V) (F : List Nat) (base k : Nat) : Node V :=
  mapIds (freeRename F base k) t

/-- a list-built `Collection`: members are named `"0"`, `"1"`, … -/
def listColl {V : Type} (children : List (Node V)) : Node V :=
  .coll (children.zipIdx.map (fun (c, i) => (toString i, c)))

/-- `FreeParameterAnalysis.modify_model` -/
def freeModel {V : Type} (t : Node V) (F : List Nat) (base n : Nat) : Node V :=
  listColl ((List.range n).map (freeCopy t F base))

/-- `CombinedModelAnalysis.modify_model` -/
def ownModel {V : Type} (t : Node V) (as : List (Analysis V)) : Node V :=
  listColl (as.map (fun a => a.own.getD t))

/-- how the combined analysis treats the model it is given -/
inductive Mode where
  | plain      -- `CombinedAnalysis`: every analysis sees the whole instance
  | own        -- `CombinedModelAnalysis`
  | free       -- `FreeParameterAnalysis`
  deriving Repr, DecidableEq, Inhabited

/-- what `CombinedAnalysis.__new__` and `type(self)(…)` in `__add__` make of an expression:
is the result a combined analysis, and is it index-aware (`CombinedModelAnalysis`; for a single
analysis: does it carry its own model) -/
structure Info where
  comb : Bool
  indexed : Bool
  deriving Repr, DecidableEq, Inhabited

/-- `__new__` looks for a `ModelAnalysis` among its arguments. The operands of `(…) + (…)` are the
members of both sides; members of an index-aware side are wrapped in `IndexedAnalysis`, which the
pinned commit does not look through (`newSeesThroughIndex = false`); the class of the left side is
kept (`type(self)`). -/
def info {α : Type} (cfg : Cfg) (own : α → Bool) : Expr α → Info
  | .leaf a => { comb := false, indexed := own a }
  | .add l r =>
    let L := info cfg own l
    let R := info cfg own r
    { comb := true,
      indexed := if L.comb && R.comb then L.indexed || (cfg.newSeesThroughIndex && R.indexed)
                 else L.indexed || R.indexed }

def modeOf (indexed : Bool) (withFree : Bool) : Mode :=
  if withFree then .free else if indexed then .own else .plain

/-- `analysis.modify_model(model)` of the combined analysis -/
def fittedModel {V : Type} (t : Node V) (as : List (Analysis V)) (mode : Mode) (F : List Nat) (base : Nat) :
    Node V :=
  match mode with
  | .plain => t
  | .own => ownModel t as
  | .free => freeModel t F base as.length

/-- `instance[index]` (`ModelInstance.__getitem__(int)`: the index-th member, by position) -/
def subInstance {V : Type} (i : Inst V) (k : Nat) : Inst V :=
  match i with
  | .obj _ attrs =>
    match attrs[k]? with
    | some (_, s) => s
    | none => .missing
  | _ => .missing

/-- the log likelihood functions the combined analysis sums, as functions of the whole instance:
`IndexedAnalysis` hands `instance[index]` to its analysis -/
def indexedLls {V : Type} (ops : Ops V) (eq : V → V → Bool) (mode : Mode) (as : List (Analysis V)) :
    List (Inst V → Res V) :=
  match mode with
  | .plain => as.map (fun a => a.ll ops eq)
  | _ => as.zipIdx.map (fun (a, k) => fun i => a.ll ops eq (subInstance i k))

/-- rank of an id among the model's parameters (= index in the parameter vector) -/
def rankOf (ids : List Nat) (id : Nat) : Nat := ids.findIdx (· == id)

/-- every place of every parameter with the vector index of the parameter -/
def placeRanks {V : Type} (t : Node V) : List (Path × Nat) :=
  let ids := uniqueIds t
  (walk t).map (fun (p, id) => (p, rankOf ids id))

end AF.Combined
