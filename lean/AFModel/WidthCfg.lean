import AFModel.Passing

/-!
# WidthCfg — where the width modifier and the gaussian limits of a place come from (C12)

Mirrors the lookup `mapper_from_prior_means` performs for every parameter:

* `WidthModifier.for_class_and_attribute_name(cls, name)` and
  `Limits.for_class_and_attributes_name(cls, name)` (autofit) ask
  `conf.instance.prior_config.for_class_and_suffix_path(cls, [name, leaf])`
  with `leaf = "width_modifier"` / `"gaussian_limits"`;
* `PriorConfigWrapper.for_class_and_suffix_path` (autoconf) tries the pushed configuration
  directories in order, the first that does not raise `KeyError` answers            → `chainLookup`;
* `JSONPriorConfig.for_class_and_suffix_path` walks `family(cls)` (the class, then the families
  of its bases, depth first, repeats included)                                      → `family`, `forClass`;
* `JSONPriorConfig.__call__` joins module, class, attribute and leaf with `.` and returns the
  value of the first entry of `path_value_tuples` (every dotted path of the directory, *stably
  sorted by length, longest first*) of which the key is a plain string suffix       → `sortByLen`, `callCfg`;
* no entry anywhere: `RelativeWidthModifier(0.5)` / the limits of the old prior     → `widthModifierFor`,
  `limitsFor`; a prior's own `width_modifier` wins over the configuration           → `resolveCfg`.

Strings are `List Char` (Python `str.endswith` and `len` act on code points).
No imports beyond the project: core Lean only.
-/

namespace AF

abbrev Str := List Char

/-- what a configuration path ends in, as far as prior passing reads it -/
inductive CVal (V : Type) where
  /-- `{type: Relative | Absolute, value: v}` -/
  | wm (relative : Bool) (value : V)
  /-- `{lower: lo, upper: hi}` -/
  | lim (lo hi : V)
  /-- anything else (reading it as a width modifier / limits raises) -/
  | other
  deriving Inhabited, DecidableEq

structure CEntry (V : Type) where
  path : Str
  val : CVal V
  deriving Inhabited

/-- `JSONPriorConfig.path_value_map` of one configuration directory, in dictionary order -/
abbrev Config (V : Type) := List (CEntry V)

/-- insert before the first entry that is not longer (we fold from the right, so earlier entries
arrive later and must stay in front of equally long ones: Python's stable `sorted(..., reverse=True)`) -/
def insertByLen {V} (e : CEntry V) : Config V → Config V
  | [] => [e]
  | y :: ys => if y.path.length ≤ e.path.length then e :: y :: ys else y :: insertByLen e ys

/-- `path_value_tuples`: longest path first -/
def sortByLen {V} (c : Config V) : Config V := c.foldr insertByLen []

/-- `JSONPriorConfig.__call__`: the first entry, longest first, whose path the key ends with -/
def callCfg {V} (c : Config V) (key : Str) : Option (CVal V) :=
  ((sortByLen c).find? (fun e => e.path.isSuffixOf key)).map (·.val)

/-- a class with its bases, unfolded (`cls.__bases__` recursively); `path` = `module.qualname` -/
inductive ClsTree where
  | node (path : Str) (bases : List ClsTree)
  deriving Inhabited

mutual
/-- `autoconf.directory_config.family`: the class, then the family of every base (repeats kept) -/
def family : ClsTree → List Str
  | .node p bs => p :: familyList bs
def familyList : List ClsTree → List Str
  | [] => []
  | b :: bs => family b ++ familyList bs
end

/-- `".".join(path_for_class(c) + [attr, leaf])` -/
def keyOf (cls attr leaf : Str) : Str := cls ++ '.' :: (attr ++ '.' :: leaf)

/-- `JSONPriorConfig.for_class_and_suffix_path`: first class of the family with an entry -/
def forClass {V} (c : Config V) (fam : List Str) (attr leaf : Str) : Option (CVal V) :=
  fam.findSome? (fun cls => callCfg c (keyOf cls attr leaf))

/-- `PriorConfigWrapper.for_class_and_suffix_path`: first directory with an entry -/
def chainLookup {V} (cs : List (Config V)) (fam : List Str) (attr leaf : Str) : Option (CVal V) :=
  cs.findSome? (fun c => forClass c fam attr leaf)

def leafWidth : Str := "width_modifier".toList
def leafLimits : Str := "gaussian_limits".toList

/-- outcome of reading the configuration for one place -/
inductive Found (α : Type) where
  | found (a : α)
  /-- `ConfigException`: the caller's fall-back applies -/
  | missing
  /-- an entry of another shape: `WidthModifier.from_dict` / `limit_dict[...]` raise -/
  | malformed
  deriving Inhabited

/-- `WidthModifier.for_class_and_attribute_name` before its fall-back -/
def widthModifierFound {V} (cs : List (Config V)) (cls : ClsTree) (attr : Str) : Found (Bool × V) :=
  match chainLookup cs (family cls) attr leafWidth with
  | none => .missing
  | some (.wm rel v) => .found (rel, v)
  | some _ => .malformed

/-- `Limits.for_class_and_attributes_name` -/
def limitsFound {V} (cs : List (Config V)) (cls : ClsTree) (attr : Str) : Found (V × V) :=
  match chainLookup cs (family cls) attr leafLimits with
  | none => .missing
  | some (.lim lo hi) => .found (lo, hi)
  | some _ => .malformed

/-- `WidthModifier.for_class_and_attribute_name`: `RelativeWidthModifier(dflt)` (`dflt = 0.5`) when
nothing is configured (a malformed entry raises: `resolveOk` is false, the value here is unused) -/
def widthModifierFor {V} (dflt : V) (cs : List (Config V)) (cls : ClsTree) (attr : Str) : Bool × V :=
  match widthModifierFound cs cls attr with
  | .found m => m
  | _ => (true, dflt)

/-- gaussian limits of the place, `none` = not configured (the old prior's limits are kept) -/
def limitsFor {V} (cs : List (Config V)) (cls : ClsTree) (attr : Str) : Option (V × V) :=
  match limitsFound cs cls attr with
  | .found l => some l
  | _ => none

/-- one parameter as `mapper_from_prior_means` sees it: the class `prior_class_dict` gives, the
attribute name used for the configuration, and the prior's own `width_modifier` (if any) -/
structure Place (V : Type) where
  cls : ClsTree
  attr : Str
  own : Option (Bool × V)
  deriving Inhabited

/-- `prior.width_modifier or WidthModifier.for_class_and_attribute_name(cls, name)` and
`Limits.for_class_and_attributes_name(cls, name)` -/
def resolveCfg {V} (dflt : V) (cs : List (Config V)) (pl : Place V) : PCfg V :=
  let m := match pl.own with
    | some m => m
    | none => widthModifierFor dflt cs pl.cls pl.attr
  { relative := m.1, value := m.2, glimits := limitsFor cs pl.cls pl.attr }

/-- does the library get through the look-ups for this place (no malformed entry where it reads)?
The width modifier is only looked up when the prior has none of its own; the limits only when
limits are wanted. -/
def resolveOk {V} (cs : List (Config V)) (wantLimits : Bool) (pl : Place V) : Bool :=
  (match pl.own with
   | some _ => true
   | none => match widthModifierFound cs pl.cls pl.attr with
     | .malformed => false
     | _ => true) &&
  (!wantLimits || match limitsFound cs pl.cls pl.attr with
     | .malformed => false
     | _ => true)

/-- the argument dictionary of `mapper_from_prior_means` with the configuration looked up by the
model: parameters in id order, each with the configuration of its own place -/
def passArgsCfg {V V'} (po : PassOps V) (dflt : V) (cs : List (Config V)) (mode : PassMode V) (t : Node V')
    (olds : List (PD V)) (places : List (Place V)) (xs : List (V × V)) : List (Nat × PD V) :=
  passArgs po mode t olds (places.map (resolveCfg dflt cs)) xs

/-- every absolute width the configuration can hand out is non-negative -/
def configAbsNonneg {V} (le : V → V → Bool) (zero : V) (cs : List (Config V)) : Bool :=
  cs.all (fun c => c.all (fun e => match e.val with
    | .wm false v => le zero v
    | _ => true))

end AF
