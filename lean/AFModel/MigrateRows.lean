import AFModel.Migrate

/-!
# `MigrateRows` — the migration model of `Migrate.lean` with row contents (property C19)

`Migrate.lean` speaks about table and column *names*. Here every table also carries its rows; a row is a finite
map column ↦ value (`none` = SQL `NULL`, any other value in the harness' canonical text form — the model only
moves values, it never computes with them). Every statement shape a migration step may use gets SQLite's
effect on rows:

* `ALTER TABLE t ADD [COLUMN] c`      every existing row of `t` reads `NULL` at `c`;
* `CREATE TABLE t (…)`                 no rows;
* `ALTER TABLE t RENAME COLUMN a TO b` every row keeps its value under the new name;
* `ALTER TABLE t DROP COLUMN c`        the value is gone, the rest of the row stays;

a failing statement (`OperationalError`, swallowed by `Migrator.migrate`) changes nothing. The transaction
layer (`RDb`), `migrateR`, `openDatabaseR`, `sessionR`, `runHistoryR`, `interruptedR` are the functions of
`Migrate.lean` over stores with rows; `AFProofs/Lemmas/MigrateRows.lean` proves that forgetting the rows gives
exactly the functions of `Migrate.lean` (so every theorem about names holds for this model), and the row-level
theorems of `AFProofs/C19.lean` are about these functions. The `revision` table keeps its own type `Rev`
(absent / no row / exactly one row), as in `Migrate.lean`.

Core Lean only.
-/

namespace AF.Migrate

/-- a stored value; `none` = `NULL` -/
abbrev Cell := Option String

/-- a row: column ↦ value, in column order -/
abbrev Row := List (String × Cell)

structure TableR where
  name : String
  cols : List String
  rows : List Row
  deriving DecidableEq, Repr, Inhabited

/-- tables in creation order, rows in rowid order -/
abbrev Data := List TableR

/-- forget the rows -/
def schemaOf (d : Data) : Schema := d.map fun T => (T.name, T.cols)

/-- the value a row holds at column `c`: `none` = the row has no such column, `some none` = `NULL` -/
def cellOf : Row → String → Option Cell
  | [], _ => none
  | kv :: rest, c => if kv.1 = c then some kv.2 else cellOf rest c

def keysOf (r : Row) : List String := r.map (·.1)

def findT : Data → String → Option TableR
  | [], _ => none
  | T :: rest, t => if T.name = t then some T else findT rest t

/-- rewrite (the first) table `t` -/
def mapT : Data → String → (TableR → TableR) → Data
  | [], _, _ => []
  | T :: rest, t, f => if T.name = t then f T :: rest else T :: mapT rest t f

def rowsOf (d : Data) (t : String) : List Row :=
  match findT d t with
  | some T => T.rows
  | none => []

/-! ## SQLite on rows -/

def rowAdd (c : String) (r : Row) : Row := r ++ [(c, none)]

def rowRename (a b : String) (r : Row) : Row := r.map fun kv => (if kv.1 = a then b else kv.1, kv.2)

def rowDrop (c : String) (r : Row) : Row := r.filter fun kv => kv.1 ≠ c

def TableR.addCol (c : String) (T : TableR) : TableR :=
  { T with cols := T.cols ++ [c], rows := T.rows.map (rowAdd c) }

def TableR.renameCol (a b : String) (T : TableR) : TableR :=
  { T with cols := renameIn a b T.cols, rows := T.rows.map (rowRename a b) }

def TableR.dropCol (c : String) (T : TableR) : TableR :=
  { T with cols := T.cols.filter (· ≠ c), rows := T.rows.map (rowDrop c) }

/-- one statement on tables with rows; `none` is an `OperationalError` (same conditions as `applyStmt`) -/
def applyStmtR (d : Data) : Stmt → Option Data
  | .addColumn t c =>
    match findT d t with
    | some T => if c ∈ T.cols then none else some (mapT d t (TableR.addCol c))
    | none => none
  | .createTable t cols =>
    match findT d t with
    | some _ => none
    | none => some (d ++ [{ name := t, cols := cols, rows := [] }])
  | .renameColumn t a b =>
    match findT d t with
    | some T => if a ∈ T.cols ∧ b ∉ T.cols then some (mapT d t (TableR.renameCol a b)) else none
    | none => none
  | .dropColumn t c =>
    match findT d t with
    | some T => if c ∈ T.cols ∧ 1 < T.cols.length then some (mapT d t (TableR.dropCol c)) else none
    | none => none

/-- the loop of `Migrator.migrate` on tables with rows -/
def runStmtsR (d : Data) : List Stmt → Data × Log
  | [] => (d, [])
  | st :: rest =>
    match applyStmtR d st with
    | some d' => let r := runStmtsR d' rest; (r.1, (st, true) :: r.2)
    | none => let r := runStmtsR d rest; (r.1, (st, false) :: r.2)

/-- what a (successful) statement does to one row of table `t` -/
def Stmt.onRow (t : String) : Stmt → Row → Row
  | .addColumn t' c, r => if t' = t then rowAdd c r else r
  | .renameColumn t' a b, r => if t' = t then rowRename a b r else r
  | .dropColumn t' c, r => if t' = t then rowDrop c r else r
  | .createTable _ _, r => r

/-- the successful statements of a log, applied to one row of table `t` in order -/
def logOnRow (t : String) : Log → Row → Row
  | [], r => r
  | (st, ok) :: rest, r => logOnRow t rest (if ok then st.onRow t r else r)

/-- every row has exactly the columns of its table, in order (what a dump of a real file always satisfies) -/
def wfData (d : Data) : Bool :=
  d.all fun T => T.rows.all fun r => keysOf r == T.cols

/-! ## stores with rows, transactions -/

structure RStore where
  data : Data
  rev : Rev
  deriving DecidableEq, Repr, Inhabited

/-- forget the rows -/
def RStore.store (s : RStore) : Store := { schema := schemaOf s.data, rev := s.rev }

structure RDb where
  committed : RStore
  pending : Option RStore
  deriving DecidableEq, Repr, Inhabited

def RDb.proj (db : RDb) : Db := { committed := db.committed.store, pending := db.pending.map RStore.store }

def RDb.work (db : RDb) : RStore := db.pending.getD db.committed

def RDb.ddl (db : RDb) (f : RStore → RStore) : RDb :=
  match db.pending with
  | some p => { db with pending := some (f p) }
  | none => { db with committed := f db.committed }

def RDb.dml (db : RDb) (f : RStore → RStore) : RDb :=
  { db with pending := some (f db.work) }

def RDb.commit (db : RDb) : RDb :=
  match db.pending with
  | some p => { committed := p, pending := none }
  | none => db

def RDb.close (db : RDb) : RStore := db.committed

def initRevisionTableR (db : RDb) : RDb :=
  (db.ddl fun w => { w with rev := .empty }).dml fun w => { w with rev := .row none }

def readRevisionR (db : RDb) : RDb × Option String :=
  match db.work.rev with
  | .noTable => (initRevisionTableR db, none)
  | .empty => (db, none)
  | .row r => (db, r)

def setRowR (upsert : Bool) (id : String) (w : RStore) : RStore :=
  match w.rev with
  | .row _ => { w with rev := .row (some id) }
  | .empty => if upsert then { w with rev := .row (some id) } else w
  | .noTable => w

def writeRevisionR (cfg : Cfg) (db : RDb) (id : String) : RDb :=
  match db.work.rev with
  | .noTable => (initRevisionTableR db).dml (setRowR cfg.stampUpsert id)
  | _ => db.dml (setRowR cfg.stampUpsert id)

/-- `Migrator.migrate` -/
def migrateR (cfg : Cfg) (tbl : Table) (db : RDb) : RDb × Log :=
  let (db1, rid) := readRevisionR db
  let todo := getSteps tbl rid
  if todo.isEmpty then (db1, [])
  else
    let r := runStmtsR db1.work.data (stmtsOf todo)
    let db2 := db1.ddl fun w => { w with data := r.1 }
    let db3 := writeRevisionR cfg db2 (latestId tbl)
    (if cfg.migrateCommits then db3.commit else db3, r.2)

/-- `create_all` of the mapped schema: every table, no rows -/
def emptyData (orm : Schema) : Data := orm.map fun tc => { name := tc.1, cols := tc.2, rows := [] }

/-- `open_database(filename)` -/
def openDatabaseR (cfg : Cfg) (tbl : Table) (orm : Schema) : Option RStore → RDb × Log
  | some s => migrateR cfg tbl { committed := s, pending := none }
  | none =>
    let db : RDb := { committed := { data := emptyData orm, rev := .noTable }, pending := none }
    (if cfg.createStamps then (writeRevisionR cfg db (latestId tbl)).commit else db, [])

def sessionR (cfg : Cfg) (tbl : Table) (orm : Schema) (file : Option RStore) (commit : Bool) : RStore × Log :=
  let r := openDatabaseR cfg tbl orm file
  ((if commit then r.1.commit else r.1).close, r.2)

def runHistoryR (cfg : Cfg) (tbl : Table) (orm : Schema) (file : Option RStore) :
    List Bool → List (RStore × Log)
  | [] => []
  | c :: rest =>
    let r := sessionR cfg tbl orm file c
    r :: runHistoryR cfg tbl orm (some r.1) rest

/-- an open interrupted when `j` statements of the migration loop have been executed (an open transaction is
rolled back, with the rows it changed) -/
def interruptedR (tbl : Table) (s : RStore) (j : Nat) : RStore × Log :=
  let (db1, rid) := readRevisionR { committed := s, pending := none }
  let r := runStmtsR db1.work.data ((stmtsOf (getSteps tbl rid)).take j)
  ((db1.ddl fun w => { w with data := r.1 }).close, r.2)

def reopenR (cfg : Cfg) (tbl : Table) (orm : Schema) (s : RStore) : Nat → RStore
  | 0 => s
  | n + 1 => reopenR cfg tbl orm (sessionR cfg tbl orm (some s) false).1 n

/-! ## observables used by the theorems and the driver -/

/-- columns that are the *target* of a rename: on old rows they read what the old name held, not `NULL` -/
def renameTargets (steps : List Step) : List (String × String) :=
  (stmtsOf steps).filterMap fun
    | .renameColumn t _ b => some (t, b)
    | _ => none

/-- the values of column `c` over the rows of table `t` (rowid order) -/
def columnOf (d : Data) (t c : String) : List (Option Cell) := (rowsOf d t).map (cellOf · c)

/-- under which name the value a row holds at column `c` of table `t` is found after a (successful) statement;
`none` = the value is gone -/
def Stmt.track (t : String) : Stmt → String → Option String
  | .renameColumn t' a b, c => if t' = t ∧ c = a then some b else some c
  | .dropColumn t' c', c => if t' = t ∧ c = c' then none else some c
  | .addColumn _ _, c => some c
  | .createTable _ _, c => some c

/-- … after the successful statements of a log, in order -/
def logTrack (t : String) : Log → String → Option String
  | [], c => some c
  | (st, ok) :: rest, c => if ok then (st.track t c).bind (logTrack t rest) else logTrack t rest c

/-- the statements of an interrupted open whose effect is durable: none when the open had to create the
`revision` table (its `INSERT` opened a transaction, rolled back with everything after it), else all executed -/
def interruptedDurableLog (tbl : Table) (s : RStore) (j : Nat) : Log :=
  match s.rev with
  | .noTable => []
  | _ => (interruptedR tbl s j).2

/-- one row per table holding, in every column, the column's own name (sample content for the examples) -/
def sampleData (s : Schema) : Data :=
  s.map fun tc => { name := tc.1, cols := tc.2, rows := [tc.2.map fun c => (c, some c)] }

end AF.Migrate
