import AFModel.Prior
import AFModel.PriorDbl

/-!
# `Float` instance of the prior model (property C02)

* `pyRound n x` – CPython's `round(x, n)` for a double: the exact binary value is rounded half-even to
  `n` decimal places and the resulting decimal is converted to the nearest double (ties to even).
  Computed on the exact integers, no floating point involved (`pyRoundD` of `AFModel/PriorDbl.lean`).
* `npRound14 x` – `round(numpy.float64, 14)` = `rint(x * 1e14) / 1e14` in double arithmetic (the
  rounding used by the unrepaired `UniformPrior.value_for`; overflows for `|x| > 1.8e294`).
* `phiF`, `phiInvF` – numerical standard normal CDF / quantile (series + continued fraction for `erfc`,
  Wichura's AS241 for the quantile; relative error ≈ 1e-15). They stand in for scipy's `ndtr`, `ndtri`
  and `erfinv`; the harness compares with a stated tolerance, never bit-exactly.
-/

namespace AF.Prior

/-! ## exact rounding -/

/-- CPython `round(x, n)` for a double `x`: `pyRoundD` (`AFModel/PriorDbl.lean`, exact integer arithmetic
on the bit pattern) between the bit casts -/
def pyRound (n : Nat) (x : Float) : Float := (pyRoundD n (Dbl.ofFloat x)).toFloat

def coefA : List Float := [Float.ofBits 0x40A39A296F7D925E, Float.ofBits 0x40E052D26B2E45E4, Float.ofBits 0x40F06C1C55B78F20, Float.ofBits 0x40E66C3E869B752A, Float.ofBits 0x40CAD1D8CD4EE71D, Float.ofBits 0x409ECE5D2213C0CC, Float.ofBits 0x4060A4888B1A436E, Float.ofBits 0x400B18D91E9EEF75]
def coefB : List Float := [Float.ofBits 0x40B46A7ECA984B69, Float.ofBits 0x40DC0E457CB1AE76, Float.ofBits 0x40E3317CAA64F4BE, Float.ofBits 0x40D4B772D5D65266, Float.ofBits 0x40B512322E75C89F, Float.ofBits 0x4085797EFDC8B3F7, Float.ofBits 0x4045281B386E1AB5, Float.ofBits 0x3FF0000000000000]
def coefC : List Float := [Float.ofBits 0x3F49615AC0B7ACE9, Float.ofBits 0x3F9744EB6C45EC67, Float.ofBits 0x3FCEF2ABB9B85C37, Float.ofBits 0x3FF453CC085375B2, Float.ofBits 0x400D2ECB1A3D02C4, Float.ofBits 0x401713F71462256A, Float.ofBits 0x4012857748CAB19B, Float.ofBits 0x3FF6C665FDE9526A]
def coefD : List Float := [Float.ofBits 0x3E120D3F686439E4, Float.ofBits 0x3F41F18CBFDF2728, Float.ofBits 0x3F8F207A7EAB17BF, Float.ofBits 0x3FC2F5123394F040, Float.ofBits 0x3FE61292F23385C9, Float.ofBits 0x3FFAD278E6526633, Float.ofBits 0x40006CEFBB46A449, Float.ofBits 0x3FF0000000000000]
def coefE : List Float := [Float.ofBits 0x3E8AFB74D693BF93, Float.ofBits 0x3EFC6EC6CC59E02A, Float.ofBits 0x3F545C1908425345, Float.ofBits 0x3F9B2B41193B4EE7, Float.ofBits 0x3FD2FAD9315255CF, Float.ofBits 0x3FFC8EA6461FA445, Float.ofBits 0x4015DAEA6E875003, Float.ofBits 0x401AA1B1C13EE526]
def coefF : List Float := [Float.ofBits 0x3CE269BFF1F8C190, Float.ofBits 0x3E831446F740B9E0, Float.ofBits 0x3EF35C2C496374BF, Float.ofBits 0x3F49C8BC979DC5D7, Float.ofBits 0x3F8E76F93215462A, Float.ofBits 0x3FC186EB183443FB, Float.ofBits 0x3FE331D34FC7D77F, Float.ofBits 0x3FF0000000000000]
def cSqrtPi : Float := Float.ofBits 0x3FFC5BF891B4EF6B  -- 1.772453850905516
def cSqrt2 : Float := Float.ofBits 0x3FF6A09E667F3BCD  -- 1.4142135623730951
def c1e14 : Float := Float.ofBits 0x42D6BCC41E900000  -- 100000000000000.0
def cEps : Float := Float.ofBits 0x3D06849B86A12B9B  -- 1e-14
def c2p52 : Float := Float.ofBits 0x4330000000000000  -- 4503599627370496.0
def c0425 : Float := Float.ofBits 0x3FDB333333333333  -- 0.425
def c0180625 : Float := Float.ofBits 0x3FC71EB851EB851F  -- 0.180625
def c16 : Float := Float.ofBits 0x3FF999999999999A  -- 1.6
def cHalf : Float := Float.ofBits 0x3FE0000000000000  -- 0.5
def c15 : Float := Float.ofBits 0x3FF8000000000000  -- 1.5
def c30 : Float := Float.ofBits 0x403E000000000000  -- 30.0
def c255 : Float := Float.ofBits 0x4039800000000000  -- 25.5
def c5 : Float := Float.ofBits 0x4014000000000000  -- 5.0
def c2 : Float := Float.ofBits 0x4000000000000000  -- 2.0
def c10 : Float := Float.ofBits 0x4024000000000000  -- 10.0

/-- round to nearest integer, ties to even (C `rint`), by the 2^52 trick -/
def rintF (y : Float) : Float :=
  if y.abs < c2p52 then (if y < 0 then (y - c2p52) + c2p52 else (y + c2p52) - c2p52) else y

/-- `round(numpy.float64(x), 14)` -/
def npRound14 (x : Float) : Float := rintF (x * c1e14) / c1e14

/-! ## numerical special functions -/

def horner (cs : List Float) (r : Float) : Float :=
  match cs with
  | [] => 0
  | c :: rest => rest.foldl (fun acc c => acc * r + c) c

/-- standard normal quantile (AS241, PPND16) -/
def phiInvF (p : Float) : Float :=
  if p.isNaN ∨ p < 0 ∨ p > 1 then 0 / 0
  else if p == 0 then -(1 / 0)
  else if p == 1 then 1 / 0
  else
    let q := p - cHalf
    if q.abs ≤ c0425 then
      let r := c0180625 - q * q
      horner coefA r * q / horner coefB r
    else
      let r := if q ≤ 0 then p else 1 - p
      let r := (-(r.log)).sqrt
      let x := if r ≤ c5 then
          let r := r - c16
          horner coefC r / horner coefD r
        else
          let r := r - c5
          horner coefE r / horner coefF r
      if q < 0 then -x else x

def erfSeriesGo (x2 : Float) : Nat → Float → Float → Float
  | 0, acc, _ => acc
  | n + 1, acc, fk => erfSeriesGo x2 n (c2 + x2 * acc / fk) (fk - 1)

def erfSeries (x : Float) : Float :=
  let x2 := x * x
  erfSeriesGo x2 25 0 c255 * x * (-x2).exp / cSqrtPi

def erfcCFGo (x2 : Float) : Nat → (a da p pLast q qLast : Float) → Float × Float
  | 0, _, _, p, _, q, _ => (p, q)
  | n + 1, a, da, p, pLast, q, qLast =>
    let a := a + da
    let da := da + c2
    let b := da + x2
    erfcCFGo x2 n a da (b * p - a * pLast) p (b * q - a * qLast) q

def erfcCF (x : Float) : Float :=
  if x ≥ c30 then 0
  else
    let x2 := x * x
    let (p, q) := erfcCFGo x2 50 0 cHalf 1 0 (cHalf + x2) 1
    p / q * x * (-x2).exp / cSqrtPi

def erfcF (x : Float) : Float :=
  if x.isNaN then x
  else if x.abs < c15 then 1 - erfSeries x
  else
    let cf := erfcCF x.abs
    if x > 0 then cf else c2 - cf

/-- standard normal CDF -/
def phiF (x : Float) : Float := cHalf * erfcF (-x / cSqrt2)

/-- the special functions as the driver runs them -/
def floatSpecial : Special Float where
  phi := phiF
  phiInv := phiInvF
  exp := Float.exp
  log := Float.log
  pow10 := fun x => Float.pow c10 x
  log10 := Float.log10
  eps := cEps
  round := pyRound
  roundLegacy := npRound14

end AF.Prior
