import AFModel.Comp

/-!
# SamplesIO — executable model of how samples are persisted and read back (C09)

Mirrors (hand-written, tied to the code by the correspondence harness `harness/c09.py`):

* `Sample.__init__` (key conversion: a string key containing a dot becomes a tuple)   → `normKey`, `mkSample`
* `Sample.from_lists`                                                                 → `fromVector`
* `Sample.value_for_key`, `parameter_lists_for_paths`, `is_path_kwargs`,
  `Samples.parameter_lists` (`paths` / `names` route)                                 → `valueForKey`, `firstFound`,
                                                                                        `isPathKwargs`, `paramList`
* `Samples._headers/_rows/write_table`, `formatter.write_table`                       → `saveCsv`
* `samples_from_iterator` / `load_from_table`                                         → `loadCsv`
* `Sample.dict` + `ModelObject.from_dict` (`"dict"` and `"instance"` branches)        → `sampleDict`, `loadSampleDict`
* `EfficientSamples.__init__` / `.sample_list` (database rows)                        → `toEfficient`, `ofEfficient`
* `Samples.max_log_likelihood_sample`                                                 → `argmaxFirst`, `maxLL`
* `all_paths`, `all_names` (`TuplePathModifier`), `unique_prior_paths` of a `Comp`    → `shapeOf`

Names are lists of characters so that `".".join` / `.split(".")` / `.strip()` are modelled and
reasoned about directly (`joinDots`, `splitDots`, `stripSp`). The text of a number is a parameter
(`shw`/`rd`); the only fact used about it is `rd (shw x) = x` (Python's `float(repr(x)) == x`),
validated by the harness on every generated value.

`Cfg` carries the two finding flags: `keysNormalised` (a one-entry path and the equal plain string
are the same key; `is_path_kwargs` looks at every key) and `dictKeepsFalsy` (a value equal to zero
survives the dictionary form). `true` = behaviour with `fixes/C09-…patch`, `false` = pinned commit.
-/

namespace AF.SamplesIO

abbrev Name := List Char
abbrev NPath := List Name

/-! ## text of keys -/

/-- `".".join(path)` -/
def joinDots : NPath → Name
  | [] => []
  | [c] => c
  | c :: d :: rest => c ++ '.' :: joinDots (d :: rest)

/-- `s.split(".")` (never empty) -/
def splitDots : Name → NPath
  | [] => [[]]
  | c :: cs =>
    if c = '.' then [] :: splitDots cs
    else match splitDots cs with
      | [] => [[c]]
      | h :: t => (c :: h) :: t

def hasDot (s : Name) : Bool := s.any (· == '.')

/-- `s.strip()` restricted to blanks (the only white space the writer produces) -/
def stripSp (s : Name) : Name :=
  ((s.dropWhile (· == ' ')).reverse.dropWhile (· == ' ')).reverse

/-- `"{0:>{1}}".format(s, len(s) + n)` -/
def padLeft (n : Nat) (s : Name) : Name := List.replicate n ' ' ++ s

/-- a key of `Sample.kwargs`: a plain string or a tuple of strings -/
inductive Key where
  | str (s : Name)
  | path (p : NPath)
  deriving DecidableEq, Repr, Inhabited

def isPathKey : Key → Bool
  | .path _ => true
  | .str _ => false

/-- key conversion of `Sample.__init__` -/
def normKey : Key → Key
  | .str s => if hasDot s then .path (splitDots s) else .str s
  | .path p => .path p

/-- key text of `Sample.dict` -/
def keyText : Key → Name
  | .str s => s
  | .path p => joinDots p

/-! ## Python dictionaries as association lists in insertion order -/

def dictGet {K V} [DecidableEq K] : List (K × V) → K → Option V
  | [], _ => none
  | (k', v) :: rest, k => if k' = k then some v else dictGet rest k

/-- insert, or overwrite the value keeping the first position -/
def dictInsert {K V} [DecidableEq K] (k : K) (v : V) : List (K × V) → List (K × V)
  | [] => [(k, v)]
  | (k', v') :: rest => if k' = k then (k', v) :: rest else (k', v') :: dictInsert k v rest

/-- `{k: v for k, v in l}` -/
def dictFrom {K V} [DecidableEq K] (acc : List (K × V)) : List (K × V) → List (K × V)
  | [] => acc
  | (k, v) :: rest => dictFrom (dictInsert k v acc) rest

def dictOf {K V} [DecidableEq K] (l : List (K × V)) : List (K × V) := dictFrom [] l

/-- all-or-nothing map (an exception in one element aborts the whole comprehension) -/
def mapOpt {α β} (f : α → Option β) : List α → Option (List β)
  | [] => some []
  | a :: as =>
    match f a, mapOpt f as with
    | some b, some bs => some (b :: bs)
    | _, _ => none

/-! ## samples -/

structure Cfg where
  keysNormalised : Bool := true
  dictKeepsFalsy : Bool := true
  deriving Repr, DecidableEq

/-- the arithmetic the persistence code performs on values -/
structure VOps (V : Type) where
  /-- `log_likelihood + log_prior` -/
  add : V → V → V
  /-- falsy: `not value` -/
  isZero : V → Bool
  /-- `>` of Python floats (false with NaN) -/
  gt : V → V → Bool

structure Sample (V : Type) where
  ll : V
  lp : V
  w : V
  kwargs : List (Key × V)
  deriving Repr, Inhabited, DecidableEq

/-- `Sample(log_likelihood, log_prior, weight, kwargs)` -/
def mkSample {V} (ll lp w : V) (kw : List (Key × V)) : Sample V :=
  ⟨ll, lp, w, dictOf (kw.map fun kv => (normKey kv.1, kv.2))⟩

/-- one free parameter of the model as the samples code sees it -/
structure Param where
  /-- its entry of `model.all_paths`: every path that leads to the prior -/
  paths : List NPath
  /-- its entry of `model.all_names` -/
  names : List Name
  /-- its entry of `model.unique_prior_paths` (the column of the table) -/
  uniq : NPath
  deriving Repr, DecidableEq, Inhabited

/-- the parameters in id order -/
abbrev Shape := List Param

/-- one element of `Sample.from_lists` -/
def fromVector {V} (sh : Shape) (ll lp w : V) (ps : List V) : Sample V :=
  mkSample ll lp w (((sh.map (·.uniq)).zip ps).map fun pv => (Key.path pv.1, pv.2))

/-! ## looking values up -/

/-- `Sample.is_path_kwargs` -/
def isPathKwargs {V} (cfg : Cfg) (kw : List (Key × V)) : Bool :=
  if cfg.keysNormalised then kw.any (fun kv => isPathKey kv.1)
  else match kw with
    | [] => false
    | kv :: _ => isPathKey kv.1

/-- `Sample.value_for_key` (pinned commit: `kwargs[key]`) -/
def valueForKey {V} (cfg : Cfg) (kw : List (Key × V)) (k : Key) : Option V :=
  match dictGet kw k with
  | some v => some v
  | none =>
    if cfg.keysNormalised then
      match k with
      | .path [c] => dictGet kw (.str c)
      | .path _ => none
      | .str s => dictGet kw (.path (splitDots s))
    else none

/-- inner loop of `parameter_lists_for_paths`: the first key that has a value -/
def firstFound {V} (cfg : Cfg) (kw : List (Key × V)) : List Key → Option V
  | [] => none
  | k :: ks =>
    match valueForKey cfg kw k with
    | some v => some v
    | none => firstFound cfg kw ks

/-- `self.paths if sample.is_path_kwargs else self.names`, for one parameter -/
def keysFor {V} (cfg : Cfg) (kw : List (Key × V)) (P : Param) : List Key :=
  if isPathKwargs cfg kw then P.paths.map Key.path else P.names.map Key.str

/-- one row of `Samples.parameter_lists` (`none` = `KeyError`) -/
def paramList {V} (cfg : Cfg) (sh : Shape) (s : Sample V) : Option (List V) :=
  mapOpt (fun P => firstFound cfg s.kwargs (keysFor cfg s.kwargs P)) sh

/-- `Samples.values_for_path` for one sample -/
def valueForPath {V} (cfg : Cfg) (s : Sample V) (p : NPath) : Option V :=
  valueForKey cfg s.kwargs (.path p)

/-! ## the table (`samples.csv`) -/

def nLL : Name := "log_likelihood".toList
def nLP : Name := "log_prior".toList
def nLPost : Name := "log_posterior".toList
def nW : Name := "weight".toList
def nSelf : Name := "self".toList
def nKwargs : Name := "kwargs".toList

/-- the columns written after the parameters -/
def tailHeaders : List Name := [nLL, nLP, nLPost, nW]

/-- `sample_args | {"log_posterior"}`: columns that are not parameters for the reader -/
def notParam : List Name := [nSelf, nLL, nLP, nW, nKwargs, nLPost]

/-- a column with one of these names collides with an argument of the `Sample` constructor -/
def clash : List Name := [nSelf, nKwargs]

structure Table (T : Type) where
  header : List Name
  rows : List (List T)
  deriving Repr

/-- `Samples._headers` -/
def headers (sh : Shape) : List Name := sh.map (fun P => joinDots P.uniq) ++ tailHeaders

/-- `Samples._rows`, one row -/
def rowOf {V} (cfg : Cfg) (ops : VOps V) (sh : Shape) (s : Sample V) : Option (List V) :=
  (paramList cfg sh s).map (· ++ [s.ll, s.lp, ops.add s.ll s.lp, s.w])

/-- right-alignment of the header cells: cell `j` gets `pads[j]` blanks in front -/
def padHeaders : List Nat → List Name → List Name
  | _, [] => []
  | [], h :: hs => h :: padHeaders [] hs
  | n :: ns, h :: hs => padLeft n h :: padHeaders ns hs

/-- `Samples.write_table` (`none`: a row could not be built, the fit itself fails) -/
def saveCsv {V T} (cfg : Cfg) (ops : VOps V) (sh : Shape) (pads : List Nat) (shw : V → T)
    (ss : List (Sample V)) : Option (Table T) :=
  (mapOpt (rowOf cfg ops sh) ss).map fun rows =>
    { header := padHeaders pads (headers sh), rows := rows.map (·.map shw) }

/-- one row of `samples_from_iterator` (`none`: `TypeError` from the `Sample` constructor) -/
def loadRow {V T} (rd : T → V) (hs : List Name) (row : List T) : Option (Sample V) :=
  let d := dictOf (hs.zip (row.map rd))
  if d.any (fun kv => clash.contains kv.1) then none
  else
    match dictGet d nLL, dictGet d nLP, dictGet d nW with
    | some ll, some lp, some w =>
      some (mkSample ll lp w
        ((d.filter fun kv => !(notParam.contains kv.1)).map fun kv => (Key.str kv.1, kv.2)))
    | _, _, _ => none

/-- `load_from_table` -/
def loadCsv {V T} (rd : T → V) (tb : Table T) : Option (List (Sample V)) :=
  mapOpt (loadRow rd (tb.header.map stripSp)) tb.rows

/-! ## the summary (`samples_summary.json`) -/

/-- `Sample.dict()["arguments"]["kwargs"]["arguments"]` -/
def sampleDict {V} (s : Sample V) : List (Name × V) :=
  dictOf (s.kwargs.map fun kv => (keyText kv.1, kv.2))

/-- `from_dict` of a sample: the `"dict"` branch drops falsy values unless `dictKeepsFalsy` -/
def loadSampleDict {V} (cfg : Cfg) (ops : VOps V) (ll lp w : V) (d : List (Name × V)) : Sample V :=
  mkSample ll lp w
    ((d.filter fun kv => cfg.dictKeepsFalsy || !ops.isZero kv.2).map fun kv => (Key.str kv.1, kv.2))

/-- save + load of one sample of the summary -/
def summaryRoundtrip {V} (cfg : Cfg) (ops : VOps V) (s : Sample V) : Sample V :=
  loadSampleDict cfg ops s.ll s.lp s.w (sampleDict s)

/-! ## database rows (`EfficientSamples`) -/

structure Efficient (V : Type) where
  keys : List Key
  values : List (List V)
  lls : List V
  lps : List V
  ws : List V
  deriving Repr

/-- `EfficientSamples.__init__` (`none`: `KeyError`, a sample lacks a key of the first sample) -/
def toEfficient {V} (ss : List (Sample V)) : Option (Efficient V) :=
  let keys := match ss with
    | [] => []
    | s :: _ => s.kwargs.map (·.1)
  (mapOpt (fun s : Sample V => mapOpt (dictGet s.kwargs) keys) ss).map fun vals =>
    { keys := keys, values := vals, lls := ss.map (·.ll), lps := ss.map (·.lp), ws := ss.map (·.w) }

/-- `zip` of four lists into samples -/
def zipSamples {V} (keys : List Key) : List V → List V → List V → List (List V) → List (Sample V)
  | ll :: lls, lp :: lps, w :: ws, vs :: vals =>
      mkSample ll lp w (keys.zip vs) :: zipSamples keys lls lps ws vals
  | _, _, _, _ => []

/-- `EfficientSamples.sample_list` -/
def ofEfficient {V} (e : Efficient V) : List (Sample V) :=
  zipSamples e.keys e.lls e.lps e.ws e.values

/-! ## derived quantities -/

/-- the loop of `max_log_likelihood_sample`: remaining values, their index, best index and value -/
def argmaxGo {V} (gt : V → V → Bool) : List V → Nat → Nat → V → Nat
  | [], _, bi, _ => bi
  | x :: xs, i, bi, bv => if gt x bv then argmaxGo gt xs (i + 1) i x else argmaxGo gt xs (i + 1) bi bv

/-- index of the first sample whose likelihood is strictly greater than all before it and not
exceeded later (left-to-right scan with `>`; comparisons with NaN are false) -/
def argmaxFirst {V} (gt : V → V → Bool) : List V → Option Nat
  | [] => none
  | x :: xs => some (argmaxGo gt xs 1 0 x)

/-- `Samples.max_log_likelihood_sample` -/
def maxLL {V} (ops : VOps V) (ss : List (Sample V)) : Option (Sample V) :=
  (argmaxFirst ops.gt (ss.map (·.ll))).bind fun i => (ss.drop i).head?

/-- `Samples.max_log_likelihood(as_instance=False)` -/
def bestFit {V} (cfg : Cfg) (ops : VOps V) (sh : Shape) (ss : List (Sample V)) : Option (List V) :=
  (maxLL ops ss).bind (paramList cfg sh)

/-! ## the shape of a composition -/

def nameOf (s : String) : Name := s.toList
def npathOf (p : Path) : NPath := p.map nameOf

mutual
/-- paths of the `TuplePrior`s of a composition (`path_instance_tuples_for_class(TuplePrior)`) -/
def tuplePaths {V} : Node V → List Path
  | .tuple _ => [[]]
  | .model _ _ attrs => tuplePathsAttrs attrs
  | .coll attrs => tuplePathsAttrs attrs
  | .arith _ attrs _ _ => tuplePathsAttrs attrs
  | .modif _ attrs _ => tuplePathsAttrs attrs
  | .array _ attrs => tuplePathsAttrs attrs
  | _ => []
def tuplePathsAttrs {V} : List (String × Node V) → List Path
  | [] => []
  | (k, n) :: rest => (tuplePaths n).map (k :: ·) ++ tuplePathsAttrs rest
end

/-- `TuplePathModifier.__call__`: drop the tuple's own name from the path of a member -/
def tupleModify (tps : List Path) (p : Path) : Path :=
  if tps.contains p.dropLast then p.dropLast.dropLast ++ [p.getLast?.getD ""] else p

/-- what `Samples` asks of its model: `all_paths`, `all_names`, `unique_prior_paths` -/
def shapeOf {V} (t : Node V) : Shape :=
  let pp := pathPriors t
  let tps := tuplePaths t
  (uniqueIds t).map fun id =>
    let ps := placesOf pp id
    { paths := ps.map npathOf
      names := ps.map fun p => joinDots (npathOf (tupleModify tps p))
      uniq := npathOf ((lastPlace pp id).getD []) }

end AF.SamplesIO

namespace AF.SamplesIO

/-! ## well-formed shapes (decidable; evaluated by the driver on every case) -/

/-- a component of a path: not empty, no dot, no blank -/
def CleanName (c : Name) : Prop := c ≠ [] ∧ '.' ∉ c ∧ ' ' ∉ c

instance (c : Name) : Decidable (CleanName c) := by unfold CleanName; exact inferInstance

/-- a parameter whose table column is a single name is also known to the model by that name -/
def UniqNamed (P : Param) : Prop :=
  match P.uniq with
  | [c] => c ∈ P.names
  | _ => True

instance (P : Param) : Decidable (UniqNamed P) := by
  unfold UniqNamed; split <;> exact inferInstance

/-- What the round-trip theorems assume about the parameters of a model. Every clause is a fact
about `all_paths` / `all_names` / `unique_prior_paths` of a composition whose attribute names are
Python identifiers other than the table's own column names. -/
structure WF (sh : Shape) : Prop where
  /-- the column of a parameter is one of its paths -/
  uniq_mem : ∀ P ∈ sh, P.uniq ∈ P.paths
  /-- the column path is not empty and its components are clean -/
  clean : ∀ P ∈ sh, P.uniq ≠ [] ∧ ∀ c ∈ P.uniq, CleanName c
  /-- no column is named like one of the table's own columns or a `Sample` argument -/
  free : ∀ P ∈ sh, joinDots P.uniq ∉ notParam
  /-- a path leads to one parameter only -/
  disjoint : sh.Pairwise (fun P Q => ∀ q ∈ P.paths, q ∉ Q.paths)
  /-- a name of one parameter is not the one-entry column of another -/
  names_sound : sh.Pairwise (fun P Q => (∀ n ∈ P.names, [n] ≠ Q.uniq) ∧ (∀ n ∈ Q.names, [n] ≠ P.uniq))
  names_complete : ∀ P ∈ sh, UniqNamed P

instance (sh : Shape) : Decidable (WF sh) :=
  if h : (∀ P ∈ sh, P.uniq ∈ P.paths) ∧ (∀ P ∈ sh, P.uniq ≠ [] ∧ ∀ c ∈ P.uniq, CleanName c) ∧
      (∀ P ∈ sh, joinDots P.uniq ∉ notParam) ∧
      sh.Pairwise (fun P Q => ∀ q ∈ P.paths, q ∉ Q.paths) ∧
      sh.Pairwise (fun P Q => (∀ n ∈ P.names, [n] ≠ Q.uniq) ∧ (∀ n ∈ Q.names, [n] ≠ P.uniq)) ∧
      (∀ P ∈ sh, UniqNamed P)
  then isTrue ⟨h.1, h.2.1, h.2.2.1, h.2.2.2.1, h.2.2.2.2.1, h.2.2.2.2.2⟩
  else isFalse fun w => h ⟨w.uniq_mem, w.clean, w.free, w.disjoint, w.names_sound, w.names_complete⟩

end AF.SamplesIO
