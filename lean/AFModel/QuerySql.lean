import AFModel.Query

/-!
# `QuerySql` — set semantics of junctions and the printed SQL text (property C10)

Extends `Query`:

* `Q.same`      – structural equality of query objects (decidable, mutual over the nested lists)
* `canon`       – what holding the conditions in a python `set` and printing them `sorted` amounts to:
                  equal conditions once (`dedupSame`), ordered by their SQL string
* `mkJS`        – `AbstractJunction.__new__/_match_conditions` *with* the set: flatten, merge named queries by
                  name, de-duplicate, collapse a single remaining condition (so `And(A, B, A)` is `And(A, B)` and
                  `And(A, A)` is `A`)
* `compileS`    – the operators `==,<,…,&,|,~` with `mkJS` for `&` / `|`
* `sqlStr`      – `str(condition)` (`AbstractCondition.__str__` of every class)
* `fitSql`      – `.fit_query`, the text `Aggregator.fits` executes
  (the conjuncts `id IN (…)` of a junction's `fit_query`, which the code emits in the iteration order of a
  python set, are printed sorted: the harness sorts the real text the same way)

The equality used for de-duplication is a parameter `same`: the theorems are for `Q.same`; the code uses
equality of the SQL strings (`AbstractCondition.__eq__/__hash__`); the driver runs both and reports whether
they built the same query.

Numbers are printed by a parameter `showNum` (the driver carries python's `str(value)` beside the bits).
Core Lean only.
-/

namespace AF.Query

deriving instance DecidableEq for FitCond

/-! ## structural equality -/

mutual
def Q.same {α} [DecidableEq α] : Q α → Q α → Bool
  | .value o c, .value o' c' => decide (o = o') && decide (c = c')
  | .strv o s, .strv o' s' => decide (o = o') && decide (s = s')
  | .isNone, .isNone => true
  | .type p, .type p' => decide (p = p')
  | .fitc c, .fitc c' => decide (c = c')
  | .named n i c, .named n' i' c' => decide (n = n') && decide (i = i') && Q.same c c'
  | .inverted q, .inverted q' => Q.same q q'
  | .and cs, .and cs' => sameList cs cs'
  | .or cs, .or cs' => sameList cs cs'
  | _, _ => false
def sameList {α} [DecidableEq α] : List (Q α) → List (Q α) → Bool
  | [], [] => true
  | a :: as, b :: bs => Q.same a b && sameList as bs
  | _, _ => false
end

/-! ## the set of conditions of a junction -/

/-- every condition once: a later condition equal to an earlier one is dropped -/
def dedupSame {β} (same : β → β → Bool) : List β → List β
  | [] => []
  | a :: l => a :: (dedupSame same l).filter (fun b => !same a b)

/-- `sorted(conditions)`: by SQL string -/
def keyLe {β} (key : β → String) (a b : β) : Bool := !decide (key b < key a)

/-- a python set of conditions, listed the way `__iter__` / `__str__` list it -/
def canon {β} (same : β → β → Bool) (key : β → String) (l : List β) : List β :=
  isort (keyLe key) (dedupSame same l)

/-- `NamedQuery(name, None)`: a bare path used as a predicate ("the attribute exists") -/
def isBare {α} : Q α → Bool
  | .named _ _ (.and []) => true
  | _ => false

def isNoCondition {α} : Q α → Bool
  | .and [] => true
  | _ => false

/-- named queries that take part in merging. `bare = true` (repaired, fixes/C10-bare-path-in-junction.patch): under
`Or` a named query without other condition is not merged; `bare = false` (pinned commit): it is, and its missing
condition is skipped - which loses the alternative "the attribute exists". Under `And` it is merged in both (its
missing condition is an empty conjunction). -/
def mergeableS {α} (cfg : Cfg) (bare isAnd : Bool) (q : Q α) : Bool :=
  mergeable cfg q && !(bare && !isAnd && isBare q)

/-- the other condition handed to the merged junction (`if condition is None: continue`) -/
def otherS {α} : Bool → Q α → Option (Q α)
  | true, q => q.other
  | false, q => q.other.filter (fun c => !isNoCondition c)

/-- `And(*cs)` / `Or(*cs)` with the conditions held in a set -/
def mkJS {α} (cfg : Cfg) (bare : Bool) (same : Q α → Q α → Bool) (key : Q α → String) : Nat → Bool → List (Q α) → Q α
  | 0, isAnd, cs => junction isAnd cs
  | fuel + 1, isAnd, cs =>
    let fl := flat isAnd cs
    let nameds := fl.filter (mergeableS cfg bare isAnd)
    let others := fl.filter (fun c => !mergeableS cfg bare isAnd c)
    let keys := dedupKeys (nameds.map (groupKey isAnd))
    let merged := keys.map fun k =>
      Q.named k.1 false (mkJS cfg bare same key fuel isAnd
        ((nameds.filter (fun c => groupKey isAnd c == k)).filterMap (otherS bare)))
    collapse isAnd (canon same key (others ++ merged))

def compileS {α} (cfg : Cfg) (bare : Bool) (same : Q α → Q α → Bool) (key : Q α → String) (fuel : Nat) : Pred α → Q α
  | .path n ns leaf => pathQ (n :: ns) leaf
  | .fitc c => .fitc c
  | .and x y => mkJS cfg bare same key fuel true [compileS cfg bare same key fuel x, compileS cfg bare same key fuel y]
  | .or x y => mkJS cfg bare same key fuel false [compileS cfg bare same key fuel x, compileS cfg bare same key fuel y]
  | .not x => invert (compileS cfg bare same key fuel x)

/-- the predicate object `Aggregator.query(p)` holds -/
def compileSTop {α} (cfg : Cfg) (bare : Bool) (same : Q α → Q α → Bool) (key : Q α → String) (p : Pred α) : Q α :=
  compileS cfg bare same key (p.depth + 1) p

/-! ## the SQL text -/

def cmpSym : Cmp → String
  | .eq => "=" | .lt => "<" | .le => "<=" | .gt => ">" | .ge => ">="

def inStr (inv : Bool) : String := if inv then "NOT IN" else "IN"

/-- `sorted(strings)` -/
def sortStrs (l : List String) : List String := isort (keyLe id) l

/-- `NamedQuery.tables_string`: the tables sorted by name (`none < object < string_value < value`), the first
one joined with every other on `id` -/
def tablesString (t : Tables) : String :=
  let all : List (String × String) :=
    (if t.nul then [("none AS n", "n")] else []) ++ [("object AS o", "o")] ++
    (if t.string then [("string_value AS sv", "sv")] else []) ++ (if t.value then [("value AS v", "v")] else [])
  match all with
  | [] => ""
  | first :: rest =>
    rest.foldl (fun s o => s ++ " JOIN " ++ o.1 ++ " ON " ++ first.2 ++ ".id = " ++ o.2 ++ ".id") first.1

/-- the condition of an `AttributeQuery` / `InfoQuery` -/
def fitCondStr {α} (showNum : α → String) : FitCond α → String
  | .strEq a v => a ++ " = '" ++ v ++ "'"
  | .numEq a x => a ++ " = " ++ showNum x
  | .isNull a => a ++ " IS NULL"
  | .contains a s => a ++ " LIKE '%" ++ s ++ "%'"
  | .isIn a s => "'" ++ s ++ "' LIKE '%' || " ++ a ++ " || '%'"
  | .boolAttr a => a
  | .boolEq a b => a ++ " = " ++ (if b then "True" else "False")
  | .info k v => "key = '" ++ k ++ "' AND value = '" ++ v ++ "'"

/-- `AttributeQuery.fit_query` / `InfoQuery.fit_query` -/
def fitCondQuery {α} (showNum : α → String) : FitCond α → String
  | .info k v => "SELECT fit_id FROM info WHERE " ++ fitCondStr showNum (.info k v)
  | c => "SELECT id FROM fit WHERE " ++ fitCondStr showNum c

/-- `isinstance(condition, AttributeQuery)` -/
def isAttributeQuery {α} : Q α → Bool
  | .fitc (.info _ _) => false
  | .fitc _ => true
  | _ => false

/-- `"SELECT parent_id FROM {tables_string} WHERE {NameCondition(name) & other}"` given the strings of the
flattened other condition -/
def namedQueryText (n : String) (t : Tables) (parts : List String) : String :=
  match parts with
  | [] => "SELECT parent_id FROM " ++ tablesString t ++ " WHERE o.name = '" ++ n ++ "'"   -- the name alone
  | _ => "SELECT parent_id FROM " ++ tablesString t ++ " WHERE (" ++
      " AND ".intercalate (sortStrs (("o.name = '" ++ n ++ "'") :: parts)) ++ ")"

def joinWord (isAnd : Bool) : String := if isAnd then " AND " else " OR "

/-- `AbstractJunction.fit_query` from the `fit_query`s of its conditions -/
def junctionFitText (isAnd : Bool) (fqs : List String) : String :=
  "SELECT id FROM fit WHERE " ++ (joinWord isAnd).intercalate (sortStrs (fqs.map fun s => "id IN (" ++ s ++ ")"))

/-- `str` of the conditions that hold no other condition -/
def leafStr {α} (showNum : α → String) : Q α → String
  | .value op c => "v.value " ++ cmpSym op ++ " " ++ showNum c
  | .strv op s => "sv.value " ++ cmpSym op ++ " '" ++ s ++ "'"
  | .isNone => "1 = 1"
  | .type cp => "o.class_path = '" ++ cp ++ "'"
  | .fitc c => fitCondQuery showNum c
  | _ => ""

/-- `AbstractJunction.__str__` from the strings / `fit_query`s of its conditions -/
def junctionStr (isAnd fitOnly : Bool) (strs fqs : List String) : String :=
  if fitOnly then junctionFitText isAnd fqs
  else "(" ++ (joinWord isAnd).intercalate (sortStrs strs) ++ ")"

mutual
/-- `str(condition)` -/
def sqlStr {α} (showNum : α → String) : Q α → String
  | .named n inv c => "o.id " ++ inStr inv ++ " (" ++ namedQ showNum n c ++ ")"
  | .inverted q => "SELECT id FROM fit WHERE id NOT IN (" ++ fitSql showNum q ++ ")"
  | .and cs => junctionStr true (cs.any isAttributeQuery) (sqlStrs showNum cs) (fitSqls showNum cs)
  | .or cs => junctionStr false (cs.any isAttributeQuery) (sqlStrs showNum cs) (fitSqls showNum cs)
  | .value op c => leafStr showNum (.value op c)
  | .strv op s => leafStr showNum (.strv op s)
  | .isNone => leafStr showNum .isNone
  | .type cp => leafStr showNum (.type cp)
  | .fitc c => leafStr showNum (.fitc c)
/-- `NamedQuery(n, c).query`: `SELECT parent_id FROM … WHERE (o.name = 'n' AND …c…)`; an `And` below the name is
flattened into the name's own conjunction -/
def namedQ {α} (showNum : α → String) (n : String) : Q α → String
  | .and ds => namedQueryText n (contribAll ds) (sqlStrs showNum ds)
  | .or ds => namedQueryText n (contribAll ds)
      [junctionStr false (ds.any isAttributeQuery) (sqlStrs showNum ds) (fitSqls showNum ds)]
  | .named m i c => namedQueryText n {} ["o.id " ++ inStr i ++ " (" ++ namedQ showNum m c ++ ")"]
  | .inverted q => namedQueryText n {} ["SELECT id FROM fit WHERE id NOT IN (" ++ fitSql showNum q ++ ")"]
  | .value op c => namedQueryText n { value := true } [leafStr showNum (.value op c)]
  | .strv op s => namedQueryText n { string := true } [leafStr showNum (.strv op s)]
  | .isNone => namedQueryText n { nul := true } [leafStr showNum .isNone]
  | .type cp => namedQueryText n {} [leafStr showNum (.type cp)]
  | .fitc c => namedQueryText n {} [leafStr showNum (.fitc c)]
def sqlStrs {α} (showNum : α → String) : List (Q α) → List String
  | [] => []
  | c :: cs => sqlStr showNum c :: sqlStrs showNum cs
/-- `.fit_query` (conditions on object rows have none) -/
def fitSql {α} (showNum : α → String) : Q α → String
  | .named n inv c => "SELECT id FROM fit WHERE instance_id " ++ inStr inv ++ " (" ++ namedQ showNum n c ++ ")"
  | .fitc c => fitCondQuery showNum c
  | .inverted q => "SELECT id FROM fit WHERE id NOT IN (" ++ fitSql showNum q ++ ")"
  | .and cs => junctionFitText true (fitSqls showNum cs)
  | .or cs => junctionFitText false (fitSqls showNum cs)
  | .value _ _ => "<no fit_query>"
  | .strv _ _ => "<no fit_query>"
  | .isNone => "<no fit_query>"
  | .type _ => "<no fit_query>"
def fitSqls {α} (showNum : α → String) : List (Q α) → List String
  | [] => []
  | c :: cs => fitSql showNum c :: fitSqls showNum cs
end

/-! ## tests (compiler-evaluated) : the text of the real objects, copied from a python session -/

-- `(g.centre == 1) & (g.sigma == 2.5)`
#guard fitSql (fun (n : Nat) => toString n) (mkJS {} true (fun a b => Q.same a b) (sqlStr toString) 3 true
    [pathQ ["g", "centre"] (.num .eq 1), pathQ ["g", "sigma"] (.num .eq 2)]) =
  "SELECT id FROM fit WHERE instance_id IN (SELECT parent_id FROM object AS o WHERE (o.id IN (SELECT parent_id FROM object AS o JOIN value AS v ON o.id = v.id WHERE (o.name = 'centre' AND v.value = 1)) AND o.id IN (SELECT parent_id FROM object AS o JOIN value AS v ON o.id = v.id WHERE (o.name = 'sigma' AND v.value = 2)) AND o.name = 'g'))"
-- `~(g.centre == 1) & (g.sigma == None)`
#guard fitSql (fun (n : Nat) => toString n) (mkJS {} true (fun a b => Q.same a b) (sqlStr toString) 3 true
    [invert (pathQ ["g", "centre"] (.num .eq 1)), pathQ ["g", "sigma"] .nul]) =
  "SELECT id FROM fit WHERE id IN (SELECT id FROM fit WHERE instance_id IN (SELECT parent_id FROM object AS o WHERE (o.id IN (SELECT parent_id FROM none AS n JOIN object AS o ON n.id = o.id WHERE (1 = 1 AND o.name = 'sigma')) AND o.name = 'g'))) AND id IN (SELECT id FROM fit WHERE instance_id NOT IN (SELECT parent_id FROM object AS o WHERE (o.id IN (SELECT parent_id FROM object AS o JOIN value AS v ON o.id = v.id WHERE (o.name = 'centre' AND v.value = 1)) AND o.name = 'g')))"
-- `(g.centre == 1) & (g.centre == "a")`: three tables
#guard fitSql (fun (n : Nat) => toString n) (mkJS {} true (fun a b => Q.same a b) (sqlStr toString) 3 true
    [pathQ ["g", "centre"] (.num .eq 1), pathQ ["g", "centre"] (.str .eq "a")]) =
  "SELECT id FROM fit WHERE instance_id IN (SELECT parent_id FROM object AS o WHERE (o.id IN (SELECT parent_id FROM object AS o JOIN string_value AS sv ON o.id = sv.id JOIN value AS v ON o.id = v.id WHERE (o.name = 'centre' AND sv.value = 'a' AND v.value = 1)) AND o.name = 'g'))"
-- `(g.centre == 1) & (info["k"] == "v")` : `str()` (used for hashing / sorting only)
#guard sqlStr (fun (n : Nat) => toString n) (mkJS {} true (fun a b => Q.same a b) (sqlStr toString) 3 true
    [pathQ ["g", "centre"] (.num .eq 1), .fitc (.info "k" "v")]) =
  "(SELECT fit_id FROM info WHERE key = 'k' AND value = 'v' AND o.id IN (SELECT parent_id FROM object AS o WHERE (o.id IN (SELECT parent_id FROM object AS o JOIN value AS v ON o.id = v.id WHERE (o.name = 'centre' AND v.value = 1)) AND o.name = 'g')))"

-- `g` alone, `g & (g.centre == 1)` repaired (not merged) and pinned (merged)
#guard fitSql (fun (n : Nat) => toString n) (pathQ ["g"] .any) =
  "SELECT id FROM fit WHERE instance_id IN (SELECT parent_id FROM object AS o WHERE o.name = 'g')"
#guard fitSql (fun (n : Nat) => toString n) (mkJS {} false (fun a b => Q.same a b) (sqlStr toString) 3 true
    [pathQ ["g"] .any, pathQ ["g", "centre"] (.num .eq 1)]) =
  "SELECT id FROM fit WHERE instance_id IN (SELECT parent_id FROM object AS o WHERE (o.id IN (SELECT parent_id FROM object AS o JOIN value AS v ON o.id = v.id WHERE (o.name = 'centre' AND v.value = 1)) AND o.name = 'g'))"
#guard (mkJS {} true (fun a b => Q.same a b) (sqlStr toString) 3 false
    [pathQ ["g"] (Leaf.any (α := Nat)), pathQ ["g", "centre"] (.num .eq 1)]).render = "|[g(centre(V)),g(&[])]"
#guard (mkJS {} false (fun a b => Q.same a b) (sqlStr toString) 3 false
    [pathQ ["g"] (Leaf.any (α := Nat)), pathQ ["g", "centre"] (.num .eq 1)]).render = "g(centre(V))"

end AF.Query
