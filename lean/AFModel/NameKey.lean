import AFModel.FloatOps

/-!
# NameKey — tuple member names and their sort key, on character lists

`TuplePrior.value_for_arguments` sorts the members by `_position_key(name)`
(`autofit/mapper/prior/tuple_prior.py`): `name.rpartition("_")`, and when the suffix is all digits
the key is `(prefix, int(suffix), name)`, otherwise `(name, -1, name)`.

`AF.posKey` (FloatOps.lean) mirrors that with `String.splitOn`, which cannot be reasoned about in the
kernel. This file gives the same key with plain structural functions over `List Char`
(`posKeyL`, `posLeL`), the decimal rendering used by `Model.make_tuple_prior`
(`"{}_{}".format(name, i)` → `memberName`), so that "members named `name_i` are ordered by the number
`i`" is a theorem for every `i` (AFProofs/Lemmas/NameKey.lean). The C01 driver runs `posLeL`; on every
run it is compared with `posLe` and with the real `_position_key` on generated names.
No Mathlib.
-/

namespace AF

/-- the decimal digit `d` (`d < 10`) -/
def digitChar : Nat → Char
  | 0 => '0' | 1 => '1' | 2 => '2' | 3 => '3' | 4 => '4'
  | 5 => '5' | 6 => '6' | 7 => '7' | 8 => '8' | _ => '9'

/-- `str(n)` of a Python `int >= 0` -/
def decDigits (n : Nat) : List Char :=
  if _h : n < 10 then [digitChar n] else decDigits (n / 10) ++ [digitChar (n % 10)]
termination_by n
decreasing_by omega

def isDigitC (c : Char) : Bool := decide (48 ≤ c.toNat) && decide (c.toNat ≤ 57)

def digitVal (c : Char) : Nat := c.toNat - 48

/-- `int(s)` of an all-digit string -/
def parseDec (cs : List Char) : Nat := cs.foldl (fun a c => a * 10 + digitVal c) 0

/-- split at the last `'_'` (`str.rpartition("_")` when the separator occurs) -/
def rpartL : List Char → Option (List Char × List Char)
  | [] => none
  | c :: cs =>
    match rpartL cs with
    | some (p, s) => some (c :: p, s)
    | none => if c = '_' then some ([], cs) else none

/-- `_position_key` on character lists -/
def posKeyL (cs : List Char) : List Char × Int × List Char :=
  let ps : List Char × List Char := match rpartL cs with
    | some ps => ps
    | none => ([], cs)      -- Python: `("", "", name)`
  if ps.2 ≠ [] ∧ ps.2.all isDigitC = true then (ps.1, (parseDec ps.2 : Nat), cs) else (cs, -1, cs)

/-- the key as strings (compared as Python compares `(str, int, str)` tuples) -/
def posKeyS (s : String) : String × Int × String :=
  let k := posKeyL s.toList
  (String.ofList k.1, k.2.1, String.ofList k.2.2)

/-- Python tuple comparison `key(a) <= key(b)` -/
def posLeL (a b : String) : Bool :=
  let ka := posKeyS a
  let kb := posKeyS b
  if ka.1 < kb.1 then true
  else if ka.1 = kb.1 then
    (if ka.2.1 < kb.2.1 then true else if ka.2.1 = kb.2.1 then decide (ka.2.2 ≤ kb.2.2) else false)
  else false

/-- `"{}_{}".format(name, i)` of `Model.make_tuple_prior` -/
def memberName (name : String) (i : Nat) : String :=
  String.ofList (name.toList ++ '_' :: decDigits i)

/-- `str(i)`: the name `Collection.append` gives the i-th item -/
def indexName (i : Nat) : String := String.ofList (decDigits i)

/-- the arithmetic of `floatOps` with the member order computed by `posLeL` -/
def floatOpsL : Ops Float := { floatOps with nameLe := posLeL }

end AF
