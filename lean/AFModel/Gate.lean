import AFModel.Comp

/-!
# Gate — limits and assertions in front of instance construction (C03)

Mirrors `AbstractPriorModel.instance_from_vector`:
length check → `Prior.assert_within_limits` per value (skipped when ignoring) →
`check_assertions` at every prior-model node (skipped when ignoring) → `_instance_for_arguments`.

The assertions are given as the list of assertion objects the recursion visits, in visiting order
(root first, then children in attribute order — extracted from the real object graph); each is
`lower < greater`, `lower <= greater`, a conjunction (`CompoundAssertion`) or the literal `False`.
-/

namespace AF

inductive Asrt (V : Type) where
  /-- `GreaterThanLessThan[Equal]Assertion(lower, greater)` -/
  | cmp (strict : Bool) (lower greater : Node V)
  /-- `CompoundAssertion(a1, a2)` -/
  | and (x y : Asrt V)
  | lit (b : Bool)
  deriving Inhabited

inductive GateErr | length | priorLimit | fit
  deriving Repr, DecidableEq, Inhabited

/-- value of an assertion operand (a prior, a constant or an arithmetic expression) -/
def operandVal {V} [Inhabited V] (ops : Ops V) (ρ : Nat → Inst V) (n : Node V) : Option V :=
  match instW ops ρ n with
  | .num v => some v
  | _ => none

def evalA {V} [Inhabited V] (ops : Ops V) (ρ : Nat → Inst V) : Asrt V → Bool
  | .cmp strict l g =>
      match operandVal ops ρ l, operandVal ops ρ g with
      | some a, some b => if strict then ops.lt a b else ops.le a b
      | _, _ => false
  | .and x y => evalA ops ρ x && evalA ops ρ y
  | .lit b => b

/-- `Prior.assert_within_limits`: `lower <= value <= upper` (false for NaN) -/
def within {V} (ops : Ops V) (lim : V × V) (x : V) : Bool := ops.le lim.1 x && ops.le x lim.2

/-- all values inside their prior's limits, position by position -/
def limitsOk {V} (ops : Ops V) : List (V × V) → List V → Bool
  | l :: ls, x :: xs => within ops l x && limitsOk ops ls xs
  | _, _ => true

/-- `instance_from_vector(vector, ignore_prior_limits)`; `lims` = limits of the parameters in
parameter order -/
def gate {V} [Inhabited V] (ops : Ops V) (t : Node V) (lims : List (V × V)) (asserts : List (Asrt V))
    (v : List V) (ignore : Bool) : Except GateErr (Inst V) :=
  if v.length ≠ count t then .error .length
  else if !ignore && !limitsOk ops lims v then .error .priorLimit
  else if !ignore && !(asserts.all (evalA ops (valOf (argsOfVector t v)))) then .error .fit
  else .ok (instFromVector ops t v)

/-! ## how comparison operators build assertion objects (`ArithmeticMixin`, `ComparisonAssertion`) -/

/-- `x < y`, `x <= y`, `x > y`, `x >= y` on priors / expressions -/
inductive CmpOp | lt | le | gt | ge
  deriving Repr, DecidableEq, Inhabited

def CmpOp.strict : CmpOp → Bool
  | .lt | .gt => true
  | _ => false

def CmpOp.ascending : CmpOp → Bool
  | .lt | .le => true
  | _ => false

/-- `x op y` -/
def buildCmp {V} (x : Node V) (op : CmpOp) (y : Node V) : Asrt V :=
  if op.ascending then .cmp op.strict x y else .cmp op.strict y x

/-- `(assertion) op z` for a comparison assertion: `__lt__/__le__` continue from the *greater*
operand, `__gt__/__ge__` from the *lower* operand -/
def chainCmp {V} (a : Asrt V) (op : CmpOp) (z : Node V) : Asrt V :=
  match a with
  | .cmp _ l g => .and a (if op.ascending then buildCmp g op z else buildCmp l op z)
  | _ => a

end AF

namespace AF

/-! ## where assertions live: the tree of prior-model nodes

`instance_for_arguments` checks the assertions of a node (`check_assertions`) and then recurses
into every direct prior-model attribute (`Model`, `Collection`, compound / modified priors, array
entries), each of which checks its own assertions before building. `ATree` is that recursion
tree, extracted from the real object graph in visiting order. -/

inductive ATree (V : Type) where
  | node (asserts : List (Asrt V)) (children : List (ATree V))
  deriving Inhabited

mutual
/-- the recursion of `instance_for_arguments`: every node's assertions, children after the node -/
def checkTree {V} [Inhabited V] (ops : Ops V) (ρ : Nat → Inst V) : ATree V → Bool
  | .node asserts children => asserts.all (evalA ops ρ) && checkTrees ops ρ children
def checkTrees {V} [Inhabited V] (ops : Ops V) (ρ : Nat → Inst V) : List (ATree V) → Bool
  | [] => true
  | t :: rest => checkTree ops ρ t && checkTrees ops ρ rest
end

mutual
/-- all assertions attached anywhere, in visiting order -/
def ATree.flatten {V} : ATree V → List (Asrt V)
  | .node asserts children => asserts ++ flattenTrees children
def flattenTrees {V} : List (ATree V) → List (Asrt V)
  | [] => []
  | t :: rest => t.flatten ++ flattenTrees rest
end

/-- `instance_from_vector` with the assertions given where they are attached -/
def gateTree {V} [Inhabited V] (ops : Ops V) (t : Node V) (lims : List (V × V)) (tr : ATree V)
    (v : List V) (ignore : Bool) : Except GateErr (Inst V) :=
  if v.length ≠ count t then .error .length
  else if !ignore && !limitsOk ops lims v then .error .priorLimit
  else if !ignore && !(checkTree ops (valOf (argsOfVector t v)) tr) then .error .fit
  else .ok (instFromVector ops t v)

end AF
