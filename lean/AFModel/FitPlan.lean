import AFModel.FitFS
import AFModel.Generated.C06

/-!
# FitPlan — one call of `fit` read off the source (C06)

`AFModel/Generated/C06.lean` holds, regenerated from the repository on every run, the ordered calls of
`NonLinearSearch.fit` and of every function below it that touches the output directory, each with the settings
guarding it.  This file gives those tables their meaning in the vocabulary of `FitFS`:

* `srcCfg` — the three structural repair flags of `FitFS.Cfg` *computed from the source* (is the archive written
  beside its name and moved into place; is it opened before the folder is deleted; is every file that is read
  back on resume written through `open_atomic`) instead of being supplied as data;
* `planSteps st n fs` — the list of file-system steps of one call of `fit` that raises nothing, obtained by
  walking the tables (`fit` → `restore`, `pre_fit_output`, `start_resume_fit` | `result_via_completed_fit`,
  `post_fit_output`; `start_resume_fit` → `timer.start`, `_fit`, `perform_update`, `paths.completed`; …).
  What the sampler does inside `_fit` (rounds, checkpoints, intermediate `perform_update`s) stays the
  abstraction of `FitFS`.

A call the vocabulary has no meaning for in its context becomes the step `other "stray"`: the conformance
theorems (`AFProofs/C06.lean`: `plan_is_run` …) then fail, so a new or re-ordered write in the source is a
changed proof obligation.
-/

namespace AF.FitFS.Plan
open AF.FitFS AF.FitFS.Src

/-- valuation of the settings the source tests (`force_*_overwrite` are outside the model: off) -/
def env (st : Settings) (complete zipExists : Bool) : Cond → Bool
  | .complete => complete
  | .zipExists => zipExists
  | .searchInternal => st.keepInternal
  | .removeFiles => st.removeFiles
  | .samplesCsv => st.samplesCsv
  | .forcePickle => false
  | .forceVisualize => false

def names (l : List GCall) : List Tok := l.map (·.name)

/-- the writer opens exactly one file for writing, through `open_atomic` -/
def atomicOf (l : List GCall) : Bool := names l == [.openAtomic]

/-! ### the repair flags, read off the source -/

/-- `zip_directory` builds the archive under a temporary name and moves it into place -/
def srcZipAtomic : Bool := names Gen.zipDirectory == [.zipWriteTmp, .osReplace]

/-- `restore` opens the archive before it deletes the folder -/
def srcRestoreValidates : Bool :=
  ((names Gen.restore).takeWhile (· != .rmtreeOutput)).contains .zipValidate

/-- samples summary / samples info (`save_json`), search internal and both timer files go through `open_atomic` -/
def srcAtomicWrites : Bool :=
  atomicOf Gen.saveJson && atomicOf Gen.saveSearchInternal &&
  atomicOf Gen.timerStart && atomicOf Gen.timerUpdate

/-- the configuration of the model the source stands for; the two semantic repairs (what the resume check
compares, which keys BFGS reads from its checkpoint) are not syntactic and stay parameters (probed by the harness) -/
def srcCfg (fomCheckSound lbfgsResumes : Bool) : Cfg :=
  ⟨srcZipAtomic, srcRestoreValidates, srcAtomicWrites, fomCheckSound, lbfgsResumes⟩

/-! ### the steps of each function -/

def stray : List Step := [.other "stray"]

/-- `DirectoryPaths._save_samples` -/
def saveSamplesInnerSteps (st : Settings) (g : Nat) : List Step :=
  (active (env st false false) Gen.saveSamplesInner).flatMap fun
    | .saveJson => [.put .info (.full g) (atomicOf Gen.saveJson)]
    | .saveCovariance => []
    | .writeTable => [.put .samples (.full g) (atomicOf Gen.writeTable)]
    | _ => stray

/-- `DirectoryPaths.save_samples` -/
def saveSamplesSteps (st : Settings) (g : Nat) : List Step :=
  (active (env st false false) Gen.saveSamples).flatMap fun
    | .saveSamplesInner => saveSamplesInnerSteps st g
    | _ => stray

/-- `DirectoryPaths.save_samples_summary` -/
def saveSamplesSummarySteps (st : Settings) (g : Nat) : List Step :=
  (active (env st false false) Gen.saveSamplesSummary).flatMap fun
    | .saveJson => [.put .summary (.full g) (atomicOf Gen.saveJson)]
    | _ => stray

/-- `NonLinearSearch.perform_update` -/
def updateSteps (st : Settings) (g : Nat) : List Step :=
  (active (env st false false) Gen.performUpdate).flatMap fun
    | .timerUpdate => [.put .time (.full g) (atomicOf Gen.timerUpdate)]
    | .saveSamplesSummary => saveSamplesSummarySteps st g
    | .saveSamples => saveSamplesSteps st g
    | .saveLatentSamples => []
    | .saveSummary => [.other "results"]
    | _ => stray

/-- one sampling round and its checkpoint (`Drawer` / BFGS: `paths.save_search_internal`; dynesty: its own) -/
def roundSteps (st : Settings) (g : Nat) : List Step :=
  [.sample, .put (ckptFile st.search) (.full g)
    (match st.search with
      | .dynesty => true
      | _ => atomicOf Gen.saveSearchInternal)]

/-- `k` rounds inside `_fit`, each followed by the search's call of `perform_update` -/
def duringSteps (st : Settings) (g : Nat) : Nat → List Step
  | 0 => []
  | k + 1 => roundSteps st g ++ updateSteps st g ++ duringSteps st (g + 1) k

/-- `Timer.start` (writes only when there is no start time yet) -/
def timerStartSteps (fo : Folder) : List Step :=
  match fo .start with
  | .absent => [.put .start (.full 0) (atomicOf Gen.timerStart)]
  | _ => []

/-- `NonLinearSearch.start_resume_fit` -/
def startResumeSteps (st : Settings) (n g0 : Nat) (fo : Folder) : List Step :=
  (active (env st false false) Gen.startResume).flatMap fun
    | .timerStart => timerStartSteps fo
    | .fitInner =>
      duringSteps st g0 (rounds st n) ++ roundSteps st (g0 + rounds st n) ++
        (if st.search = .dynesty then [Step.remove .save] else [])
    | .performUpdate => updateSteps st (g0 + rounds st n)
    | .saveResults => []
    | .completed => [.put .marker (.full 0) true]
    | _ => stray

/-- `result_via_completed_fit`: reads; anything that samples or writes is a step -/
def completedFitSteps (st : Settings) : List Step :=
  (active (env st true false) Gen.completedFit).flatMap fun
    | .loadSamplesSummary => []
    | .loadSamples => []
    | .fitInner => [.sample]
    | .performUpdate => [.sample]
    | .startResumeFit => [.sample]
    | _ => stray

/-- `pre_fit_output` -/
def preFitSteps (st : Settings) (complete : Bool) : List Step :=
  (active (env st complete false) Gen.preFit).flatMap fun
    | .saveAll => [.other "prefit"]
    | _ => stray

/-- `zip_directory` -/
def zipDirectorySteps : List Step :=
  (names Gen.zipDirectory).flatMap fun
    | .zipWriteTmp => [.other "zip.tmp"]
    | .zipWriteInPlace => [.zipOpen, .zipClose]
    | .osReplace => [.zipClose]
    | _ => stray

/-- `AbstractPaths._zip` -/
def zipSteps (st : Settings) : List Step :=
  (active (env st true false) Gen.zip).flatMap fun
    | .zipDirectory => zipDirectorySteps
    | .rmtreeOutput => rmFolder
    | _ => stray

/-- `AbstractPaths.zip_remove` -/
def zipRemoveSteps (st : Settings) : List Step :=
  (active (env st true false) Gen.zipRemove).flatMap fun
    | .zip => zipSteps st
    | _ => stray

/-- `output_search_internal` -/
def outputInternalSteps (st : Settings) : List Step :=
  (active (env st true false) Gen.outputInternal).flatMap fun
    | .saveSearchInternal => [.put .internal (.full 0) (atomicOf Gen.saveSearchInternal)]
    | _ => stray

/-- `post_fit_output` -/
def postFitSteps (st : Settings) : List Step :=
  (active (env st true false) Gen.postFit).flatMap fun
    | .removeSearchInternal => rmList [.internal, .save, .start, .time] ++ [.other "rmdir-internal"]
    | .outputSearchInternal => outputInternalSteps st
    | .zipRemove => zipRemoveSteps st
    | _ => stray

/-- `AbstractPaths.restore` (on a readable archive) -/
def restoreSteps (st : Settings) (fs : FS) : List Step :=
  match fs.zip with
  | .full c =>
    (active (env st false true) Gen.restore).flatMap fun
      | .zipValidate => []
      | .rmtreeOutput => rmFolder
      | .extractAll => extract c
      | .removeZip => [.zipRemove]
      | _ => stray
  | _ => []

/-- `fit` after `restore` -/
def mainSteps (st : Settings) (n : Nat) (fs : FS) : List Step :=
  (active (env st (fs.folder .marker != .absent) false) Gen.fit).flatMap fun
    | .restore => []
    | .preFitOutput => preFitSteps st (fs.folder .marker != .absent)
    | .startResumeFit => startResumeSteps st n (fs.clock + 1) fs.folder
    | .resultViaCompletedFit => completedFitSteps st
    | .postFitOutput => postFitSteps st
    | _ => stray

/-- `fit` begins with `paths.restore()` -/
def restoreFirst : Bool :=
  match Gen.fit with
  | ⟨.restore, []⟩ :: _ => true
  | _ => false

/-- the steps of one call of `search.fit` that raises nothing, read off the source -/
def planSteps (st : Settings) (n : Nat) (fs : FS) : List Step :=
  if restoreFirst then
    restoreSteps st fs ++ mainSteps st n (applyAll fs (restoreSteps st fs))
  else stray

end AF.FitFS.Plan
