import AFModel.Migrate

/-!
# `MigrateFeat` — "the current features work on it" as a decidable predicate over the schema (property C19)

A feature (naming, maximum log likelihood, named instances, JSON / array / HDU storage, latent samples) is used
through mapped classes; SQLAlchemy names every mapped column of those classes in its `SELECT`s and `INSERT`s,
so the feature works on a database exactly when every table/column of those classes' mappers exists. The
needs per feature are regenerated from the mappers (`Generated.features`, `harness/tables_c19.py`); the harness
uses every feature on real files - migrated and not - and compares success with `usable`.
Core Lean only.
-/

namespace AF.Migrate

abbrev Needs := List (String × String)

/-- every table/column the feature's classes map exists -/
def usable (s : Schema) (needs : Needs) : Bool := needs.all fun tc => hasCol s tc.1 tc.2

def usableEach (s : Schema) (feats : List (String × Needs)) : List (String × Bool) :=
  feats.map fun f => (f.1, usable s f.2)

def allUsable (s : Schema) (feats : List (String × Needs)) : Bool := feats.all fun f => usable s f.2

/-- all `(table, column)` pairs of a schema -/
def columnsOf (s : Schema) : List (String × String) := s.flatMap fun tc => tc.2.map fun c => (tc.1, c)

end AF.Migrate
