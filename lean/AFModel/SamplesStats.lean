import AFModel.SamplesIO

/-!
# SamplesStats — executable model of the estimates computed from a list of samples (C09)

What a `Samples` object derives from (parameter values, likelihoods, priors, weights) and what the
summary file stores of it. Exact rational arithmetic (every finite double is a rational; the harness
compares with the library's floating-point results under a stated relative tolerance, the
data-movement parts - minimum / maximum / best-fit column entry - exactly).

Mirrors (hand-written, tied to the code by `harness/c09.py`, clause `C09.stats.*`):

* `pdf.quantile(x, q, weights)` (copied from corner.py: `argsort`, `cumsum(sw)[:-1]`, normalise by its
  last entry, prepend 0, `np.interp`)                                  → `sortVW`, `prefixSums`, `interp`, `wquantile`
* `np.percentile(x, p)` (method `linear`, used by `SamplesMCMC`)        → `percentile`
* `SamplesPDF.pdf_converged` (`max(weight_list) > 0.99`)               → `converged`
* `SamplesPDF.median_pdf / values_at_sigma / errors_at_sigma` incl. the unconverged branch
  (best-fit parameters; min / max over the last `unconverged_sample_size` rows)   → `colEstimate`, `estimates`
* `SamplesMCMC.median_pdf / values_at_sigma`                            → `colEstimateMCMC`, `estimatesMCMC`
* `Samples.max_log_posterior_index` (`np.argmax` of `log_likelihood + log_prior`) and
  `Samples.minimise` (the set of the most likely and the most probable sample)  → `maxPostIndex`, `minimiseIdx`
* `parameters_extract` (`np.asarray(parameter_lists).T`)               → `colAt`
* the lists a `SamplesSummary` stores (`errors_at_sigma_1`, …: plain lists in the parameter order of
  the model that was fitted) and how a reader attributes entry `i` to parameter `i` of the model
  attached on reload                                                    → `reorder`, `permuteRow`, `attributed`
-/

namespace AF.SamplesStats
open AF.SamplesIO

/-! ## weighted quantile -/

/-- insert a (value, weight) pair before the first pair whose value is not smaller -/
def insertVW (p : Rat × Rat) : List (Rat × Rat) → List (Rat × Rat)
  | [] => [p]
  | q :: rest => if p.1 ≤ q.1 then p :: q :: rest else q :: insertVW p rest

/-- `idx = np.argsort(x); x[idx], weights[idx]` (which of several equal values comes first is up to
numpy's sort; the model keeps the sample order, the theorems about order assume distinct values) -/
def sortVW : List (Rat × Rat) → List (Rat × Rat)
  | [] => []
  | p :: rest => insertVW p (sortVW rest)

/-- `[acc, acc + w0, acc + w0 + w1, …]`: as many entries as weights, the last weight is never added
(`np.append(0, np.cumsum(sw)[:-1])`) -/
def prefixSums (acc : Rat) : List Rat → List Rat
  | [] => []
  | w :: ws => acc :: prefixSums (acc + w) ws

/-- `np.interp(q, xp, fp)` for `xp[0] ≤ q`: the last knot not beyond `q`, linear towards the next -/
def interp (q : Rat) : List Rat → List Rat → Option Rat
  | [_], [f0] => some f0
  | x0 :: x1 :: xs, f0 :: f1 :: fs =>
      if x1 ≤ q then interp q (x1 :: xs) (f1 :: fs)
      else some (f0 + (f1 - f0) / (x1 - x0) * (q - x0))
  | _, _ => none

/-- `pdf.quantile(x, q, weights)[0]`; `none`: the library raises (one sample: `IndexError`,
`q` outside [0, 1]: `ValueError`) or returns NaN (the weights before the largest value sum to zero) -/
def wquantile (q : Rat) (vw : List (Rat × Rat)) : Option Rat :=
  if q < 0 ∨ 1 < q then none
  else
    let s := sortVW vw
    let ps := prefixSums 0 (s.map (·.2))
    match ps.getLast? with
    | none => none
    | some z => if z = 0 then none else interp q (ps.map (· / z)) (s.map (·.1))

/-! ## percentile (MCMC) -/

def insertR (x : Rat) : List Rat → List Rat
  | [] => [x]
  | y :: rest => if x ≤ y then x :: y :: rest else y :: insertR x rest

def sortR : List Rat → List Rat
  | [] => []
  | x :: rest => insertR x (sortR rest)

/-- `np.percentile(x, p)`, method `linear`: virtual index `(n - 1) p / 100` in the sorted values -/
def percentile (p : Rat) (xs : List Rat) : Option Rat :=
  if p < 0 ∨ 100 < p then none
  else
    let s := sortR xs
    match s with
    | [] => none
    | _ :: _ =>
      let h : Rat := ((s.length - 1 : Nat) : Rat) * p / 100
      let lo := h.floor.toNat
      let t := h - (lo : Rat)
      match s[lo]?, s[lo + 1]? with
      | some a, some b => some (a + (b - a) * t)
      | some a, none => some a
      | _, _ => none

/-! ## one parameter -/

structure Est where
  median : Rat
  lower : Rat
  upper : Rat
  deriving Repr, DecidableEq, Inhabited

/-- `upper - median`, `median - lower` (`errors_at_upper_sigma`, `errors_at_lower_sigma`) -/
def Est.errUpper (e : Est) : Rat := e.upper - e.median
def Est.errLower (e : Est) : Rat := e.median - e.lower

def ratOps : VOps Rat := { add := (· + ·), isZero := (· == 0), gt := fun a b => decide (a > b) }

/-- `np.max(weight_list) > 0.99` is false -/
def converged (ws : List Rat) : Bool := ws.all (fun w => decide (w ≤ 99 / 100))

def minimum : List Rat → Option Rat
  | [] => none
  | x :: xs => some (xs.foldl (fun a b => if b < a then b else a) x)

def maximum : List Rat → Option Rat
  | [] => none
  | x :: xs => some (xs.foldl (fun a b => if a < b then b else a) x)

/-- `l[-n:]` -/
def lastN {α} (n : Nat) (l : List α) : List α := if n = 0 then l else l.drop (l.length - n)

/-- median and the values at `qlow` / `1 - qlow` of one parameter (`SamplesPDF`): weighted quantiles
when converged; otherwise the entry of the most likely sample and the range of the last `ucs` samples -/
def colEstimate (ucs : Nat) (qlow : Rat) (lls ws col : List Rat) : Option Est :=
  if converged ws then
    match wquantile (1 / 2) (col.zip ws), wquantile qlow (col.zip ws), wquantile (1 - qlow) (col.zip ws) with
    | some m, some l, some u => some ⟨m, l, u⟩
    | _, _, _ => none
  else
    match (argmaxFirst ratOps.gt lls).bind (col[·]?), minimum (lastN ucs col), maximum (lastN ucs col) with
    | some m, some l, some u => some ⟨m, l, u⟩
    | _, _, _ => none

/-- the same for `SamplesMCMC` (percentiles, no weights; "converged" = there are samples) -/
def colEstimateMCMC (qlow : Rat) (col : List Rat) : Option Est :=
  match percentile 50 col, percentile (100 * qlow) col, percentile (100 * (1 - qlow)) col with
  | some m, some l, some u => some ⟨m, l, u⟩
  | _, _, _ => none

/-! ## all parameters -/

/-- column `j` of `parameters_extract` -/
def colAt (j : Nat) (rows : List (List Rat)) : List Rat := rows.map (·.getD j 0)

/-- a statistic of every parameter: `[stat(column j) for j in range(n)]`; an entry is `none` where the
library yields NaN for that parameter (or raises, then for every parameter) -/
def perColumn {R} (n : Nat) (stat : List Rat → Option R) (rows : List (List Rat)) : List (Option R) :=
  (List.range n).map fun j => stat (colAt j rows)

/-- `median_pdf`, `values_at_sigma` (and hence `errors_at_sigma`) of a `SamplesPDF`, one entry per
parameter of `sh` in its order (outer `none`: a look-up fails, `KeyError`) -/
def estimates (cfg : Cfg) (ucs : Nat) (qlow : Rat) (sh : Shape) (ss : List (Sample Rat)) :
    Option (List (Option Est)) :=
  (mapOpt (paramList cfg sh) ss).map
    (perColumn sh.length (colEstimate ucs qlow (ss.map (·.ll)) (ss.map (·.w))))

/-- the same for `SamplesMCMC`; `qlow` is `1 - erf(sigma / sqrt 2)` there -/
def estimatesMCMC (cfg : Cfg) (qlow : Rat) (sh : Shape) (ss : List (Sample Rat)) :
    Option (List (Option Est)) :=
  (mapOpt (paramList cfg sh) ss).map (perColumn sh.length (colEstimateMCMC qlow))

/-! ## most probable sample, minimised samples -/

/-- `int(np.argmax(log_posterior_list))` (no NaN): the first sample of highest `ll + lp` -/
def maxPostIndex {V} (ops : VOps V) (ss : List (Sample V)) : Option Nat :=
  argmaxFirst ops.gt (ss.map fun s => ops.add s.ll s.lp)

/-- `Samples.minimise`: the most likely and the most probable sample, once if they are one sample
(indices in ascending order; the library keeps them in a set) -/
def minimiseIdx {V} (ops : VOps V) (ss : List (Sample V)) : List Nat :=
  match argmaxFirst ops.gt (ss.map (·.ll)), maxPostIndex ops ss with
  | some i, some j => if i = j then [i] else if i < j then [i, j] else [j, i]
  | _, _ => []

/-! ## the model attached on reload lists its parameters in another order -/

/-- the parameters of `sh` listed in the order `idx` (a model read back from `model.json` gets fresh
ids in traversal order: same parameters, possibly another order) -/
def reorder (idx : List Nat) (sh : Shape) : Shape := idx.map (sh.getD · default)

/-- one row of values listed in the order `idx` -/
def permuteRow {α} [Inhabited α] (idx : List Nat) (row : List α) : List α := idx.map (row.getD · default)

/-- Reading a stored plain list by position: entry `i` is taken to be the estimate of parameter `i`
of the attached model, i.e. of parameter `idx[i]` of the model that was fitted. -/
def attributed {α} (stored : List α) (i : Nat) : Option α := stored[i]?

end AF.SamplesStats
