/-!
# RecCache — the process-wide `DynamicRecursionCache` (C13)

Mirrors `autofit/mapper/prior_model/recursion.py`: the wrapper keeps a dict keyed by `id(item)`; a call
on an item whose id is in the dict returns the stored `RecursionPromise` (this breaks cycles); otherwise
the id is stored, the wrapped function runs (it calls the wrapper again for the parts of the item and may
raise), and the entry is deleted in a `finally` block.

A call is described by what the wrapped function does on the item: which items it recurses into, in
order, and whether it raises after doing so. A cycle is an inner item with the id of an outer one.
-/

namespace AF

inductive RCall where
  | node (id : Nat) (raises : Bool) (children : List RCall)
  deriving Inhabited

inductive ROut where
  | ok
  | raised
  /-- the `RecursionPromise` of a call in progress -/
  | promise
  deriving DecidableEq, Repr, Inhabited

structure RState where
  /-- keys of `DynamicRecursionCache.cache` -/
  cache : List Nat
  /-- ids whose wrapped function was entered, in order -/
  trace : List Nat
  deriving Repr, Inhabited, DecidableEq

mutual
def rcall : RState → RCall → RState × ROut
  | s, .node id raises children =>
    if s.cache.contains id then (s, .promise)
    else
      let r := rchildren { cache := id :: s.cache, trace := s.trace ++ [id] } children
      -- finally: del self.cache[item_id]
      let s2 : RState := { cache := r.1.cache.erase id, trace := r.1.trace }
      match r.2 with
      | .raised => (s2, .raised)
      | _ => if raises then (s2, .raised) else (s2, .ok)
def rchildren : RState → List RCall → RState × ROut
  | s, [] => (s, .ok)
  | s, c :: rest =>
    let r := rcall s c
    match r.2 with
    | .raised => (r.1, .raised)
    | _ => rchildren r.1 rest
end

/-- a sequence of top-level calls, each caught by the caller -/
def rcalls : RState → List RCall → RState × List ROut
  | s, [] => (s, [])
  | s, c :: rest =>
    let r := rcall s c
    let r' := rcalls r.1 rest
    (r'.1, r.2 :: r'.2)

end AF
