import AFModel.Persist

/-!
# DictForm — the dictionary / JSON form of a composition and its reader (C08)

Mirrors `ModelObject.dict` / `ModelObject.from_dict`, `Prior.dict` / `Prior.from_dict`,
`CompoundPrior.dict` / `from_dict`, `ModifiedPrior.dict` / `from_dict`, `Array.from_dict`:

* writing keeps the tree of `arguments` in `__dict__` order; a prior is written with its id; an
  arithmetic prior is written as `left` / `right` (its operand *names* are not written);
* reading threads `loaded_ids`: a stored id met for the first time creates a prior with a fresh id,
  later occurrences return the same object; an arithmetic prior is rebuilt by its constructor, which
  names its operands `left_` / `right_` (`retrieve_name` finds only the constructor's own
  parameters), a modified prior keeps its stored name.

Prior descriptors (type, limits, mean, sigma) travel with the id and are compared by the harness;
they are not part of this model.
-/

namespace AF

inductive DJ (V : Type) where
  | prior (id : Nat)
  | const (v : V)
  | opaque (tag : String)
  | model (cls : String) (ctor : List String) (args : List (String × DJ V))
  | coll (args : List (String × DJ V))
  | tuple (args : List (String × DJ V))
  | compound (op : BinOp) (l r : DJ V)
  | modified (op : UnOp) (name : String) (x : DJ V)
  | array (shape : List Nat) (args : List (String × DJ V))
  deriving Inhabited

mutual
/-- `dict()` -/
def toDict {V} : Node V → DJ V
  | .prior id => .prior id
  | .const v => .const v
  | .opaque t => .opaque t
  | .model cls ctor attrs => .model cls ctor (toDictAttrs attrs)
  | .coll attrs => .coll (toDictAttrs attrs)
  | .tuple attrs => .tuple (toDictAttrs attrs)
  | .arith op _ l r => .compound op (toDict l) (toDict r)
  | .modif op attrs x => .modified op ((attrs.head?.map (·.1)).getD "prior_") (toDict x)
  | .array shape attrs => .array shape (toDictAttrs attrs)
def toDictAttrs {V} : List (String × Node V) → List (String × DJ V)
  | [] => []
  | (k, n) :: rest => (k, toDict n) :: toDictAttrs rest
end

/-- `loaded_ids` and the id counter -/
structure LoadSt where
  loaded : List (Nat × Nat) := []
  next : Nat

def LoadSt.lookup (s : LoadSt) (id : Nat) : Option Nat := (s.loaded.find? (·.1 == id)).map (·.2)

/-- `Prior.from_dict`: re-link or create -/
def loadPrior (s : LoadSt) (id : Nat) : Nat × LoadSt :=
  match s.lookup id with
  | some k => (k, s)
  | none => (s.next, { loaded := s.loaded ++ [(id, s.next)], next := s.next + 1 })

/-- are both operands one and the same prior object? -/
def samePrior {V} : Node V → Node V → Bool
  | .prior a, .prior b => a == b
  | _, _ => false

/-- the public attributes of an arithmetic prior rebuilt by its constructor: `retrieve_name` finds
the constructor's own parameter names; when both operands are the same prior object it finds
`right` for both, and the single attribute `right_` remains -/
def operandAttrs {V} (l r : Node V) : List (String × Node V) :=
  if samePrior l r then [("right_", r)] else [("left_", l), ("right_", r)]

mutual
/-- `from_dict` -/
def fromDict {V} : DJ V → LoadSt → Node V × LoadSt
  | .prior id, s => let (k, s') := loadPrior s id; (.prior k, s')
  | .const v, s => (.const v, s)
  | .opaque t, s => (.opaque t, s)
  | .model cls ctor args, s => let (a, s') := fromDictAttrs args s; (.model cls ctor a, s')
  | .coll args, s => let (a, s') := fromDictAttrs args s; (.coll a, s')
  | .tuple args, s => let (a, s') := fromDictAttrs args s; (.tuple a, s')
  | .compound op l r, s =>
      let (l', s₁) := fromDict l s
      let (r', s₂) := fromDict r s₁
      (.arith op (operandAttrs l' r') l' r', s₂)
  | .modified op name x, s => let (x', s') := fromDict x s; (.modif op [(name, x')] x', s')
  | .array shape args, s => let (a, s') := fromDictAttrs args s; (.array shape a, s')
def fromDictAttrs {V} : List (String × DJ V) → LoadSt → List (String × Node V) × LoadSt
  | [], s => ([], s)
  | (k, d) :: rest, s =>
      let (n, s₁) := fromDict d s
      let (ns, s₂) := fromDictAttrs rest s₁
      ((k, n) :: ns, s₂)
end

/- the composition with the operand names an arithmetic prior has *after* a reload -/
mutual
def canonNames {V} : Node V → Node V
  | .prior id => .prior id
  | .const v => .const v
  | .opaque t => .opaque t
  | .model cls ctor attrs => .model cls ctor (canonNamesAttrs attrs)
  | .coll attrs => .coll (canonNamesAttrs attrs)
  | .tuple attrs => .tuple (canonNamesAttrs attrs)
  | .arith op _ l r => .arith op (operandAttrs (canonNames l) (canonNames r)) (canonNames l) (canonNames r)
  | .modif op attrs x => .modif op [((attrs.head?.map (·.1)).getD "prior_", canonNames x)] (canonNames x)
  | .array shape attrs => .array shape (canonNamesAttrs attrs)
def canonNamesAttrs {V} : List (String × Node V) → List (String × Node V)
  | [] => []
  | (k, n) :: rest => (k, canonNames n) :: canonNamesAttrs rest
end

/- the same for database rows: a modified prior is rebuilt by its constructor without a name,
   which `retrieve_name` resolves to the constructor's parameter `prior` (attribute `prior_`) -/
mutual
def canonNamesDb {V} : Node V → Node V
  | .prior id => .prior id
  | .const v => .const v
  | .opaque t => .opaque t
  | .model cls ctor attrs => .model cls ctor (canonNamesDbAttrs attrs)
  | .coll attrs => .coll (canonNamesDbAttrs attrs)
  | .tuple attrs => .tuple (canonNamesDbAttrs attrs)
  -- the two operands are stored as separate rows and come back as separate (equal) objects
  | .arith op _ l r => .arith op [("left_", canonNamesDb l), ("right_", canonNamesDb r)] (canonNamesDb l) (canonNamesDb r)
  | .modif op _ x => .modif op [("prior_", canonNamesDb x)] (canonNamesDb x)
  | .array shape attrs => .array shape (canonNamesDbAttrs attrs)
def canonNamesDbAttrs {V} : List (String × Node V) → List (String × Node V)
  | [] => []
  | (k, n) :: rest => (k, canonNamesDb n) :: canonNamesDbAttrs rest
end

/-- the full round trip -/
def dictRoundTrip {V} (t : Node V) (base : Nat) : Node V := (fromDict (toDict t) { next := base }).1

end AF
