import AFModel.Comp

/-!
# Persist — what a persistence round trip does to a composition (C08)

Every storage form rebuilds the same tree of components, constants and tuple members; what can
change is the *identity* of the priors:

* dictionary / JSON form (`ModelObject.dict` / `from_dict`): each prior is re-created with a fresh id
  the first time its stored id is met (`loaded_ids`), later occurrences are re-linked to the same
  object. Fresh ids increase in the order of first occurrence in the traversal (arguments in
  `__dict__` order, `left` before `right`).
* pickle and database rows: ids are kept.

So a round trip is `renameIds σ` for a map `σ` of ids; the property holds iff `σ` is injective on the
ids of the model (no merge) and a function (no split — true by construction).
-/

namespace AF

mutual
def renameIds {V} (σ : Nat → Nat) : Node V → Node V
  | .prior id => .prior (σ id)
  | .const v => .const v
  | .opaque t => .opaque t
  | .model cls ctor attrs => .model cls ctor (renameAttrs σ attrs)
  | .coll attrs => .coll (renameAttrs σ attrs)
  | .tuple attrs => .tuple (renameAttrs σ attrs)
  | .arith op attrs l r => .arith op (renameAttrs σ attrs) (renameIds σ l) (renameIds σ r)
  | .modif op attrs x => .modif op (renameAttrs σ attrs) (renameIds σ x)
  | .array shape attrs => .array shape (renameAttrs σ attrs)
def renameAttrs {V} (σ : Nat → Nat) : List (String × Node V) → List (String × Node V)
  | [] => []
  | (k, n) :: rest => (k, renameIds σ n) :: renameAttrs σ rest
end

/-- distinct ids in order of first occurrence -/
def firstOcc : List Nat → List Nat
  | [] => []
  | x :: xs => x :: (firstOcc xs).filter (· != x)

def indexOf? (l : List Nat) (i : Nat) : Option Nat :=
  match l with
  | [] => none
  | x :: xs => if x == i then some 0 else (indexOf? xs i).map (· + 1)

/-- the id map of a dictionary reload: `base + position of first occurrence` -/
def dictSigma {V} (t : Node V) (base : Nat) (i : Nat) : Nat :=
  match indexOf? (firstOcc ((walk t).map (·.2))) i with
  | some k => base + k
  | none => base + (walk t).length + i

/-- dictionary / JSON round trip -/
def reloadDict {V} (t : Node V) (base : Nat) : Node V := renameIds (dictSigma t base) t

/-- pickle and database round trips keep ids -/
def reloadKeepingIds {V} (t : Node V) : Node V := renameIds id t

end AF
