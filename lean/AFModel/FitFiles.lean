import AFModel.Generated.C11

/-!
# FitFiles — which file of a fit's directory reaches which database column (C11)

The writer side (`DirectoryPaths.save_all / save_samples / save_json / save_object / save_array /
save_fits / completed`, the combined analysis' `analyses/analysis_i`) and the reader side
(`SearchOutput` accessors used by `Scraper._fits`, `_add_files_fit`, `_add_files`) meet only through
file names. Both name tables are regenerated from the source (`AFModel/Generated/C11.lean`:
`writerFiles` = files the writer calls produce for a probe fit, `readerLookups` = what each reader
accessor asks the file system for, traced on that fit).

* `consumers` : the reader accessors that look at a given file (exact name, `rglob` of a suffix below
  a folder, or through `analyses/*`, whose entries are read as fits of their own);
* `pathFor` / `outputName` : where `save_json(name, prefix)` & co. put a user file and the dotted name
  `AbstractSearchOutput._outputs` gives it;
* `dbFiles` : the names under which the files of a directory land in `Fit.jsons / arrays / pickles /
  hdus` (`_add_files`: arrays called `samples` / `latent_samples` and non-numeric tables are skipped);
* `dirFlags` : is the directory a search output / a grid search / complete / a child.
-/

namespace AF.FitFiles
open AF.Generated.C11

def isPrefix : List String → List String → Bool
  | [], _ => true
  | _ :: _, [] => false
  | a :: as, b :: bs => a == b && isPrefix as bs

/-- does the lookup (relative to the directory it is made in) hit the file? -/
def hits (l : Lookup) (f : FileRef) : Bool :=
  if l.kind == "file" then l.file.dir == f.dir && l.file.stem == f.stem && l.file.ext == f.ext
  else if l.kind == "rglob" then isPrefix l.file.dir f.dir && l.file.ext == f.ext
  else false

/-- accessors that read the file directly -/
def directConsumers (ls : List Lookup) (f : FileRef) : List String :=
  (ls.filter fun l => hits l f).map (·.consumer)

/-- the file seen from the entry `dir[n]` of the globbed folder (`n` = length of the folder's path) -/
def below (n : Nat) (f : FileRef) : FileRef := { f with dir := f.dir.drop (n + 1) }

/-- what `_add_files_fit` reads of a child analysis -/
def childAccessors : List String := ["samples", "latent_samples", "jsons", "arrays", "pickles", "hdus"]

/-- accessors that read the file through a `glob` of directory entries which are then read as
fits of their own (`child_analyses`): `<consumer>/<accessor of the child>` -/
def nestedConsumers (ls : List Lookup) (f : FileRef) : List String :=
  (ls.filter fun l => l.kind == "glob").flatMap fun g =>
    if isPrefix g.file.dir f.dir && g.file.dir.length < f.dir.length then
      ((directConsumers ls (below g.file.dir.length f)).filter fun c => childAccessors.contains c).map
        fun c => g.consumer ++ "/" ++ c
    else []

/-- every reader accessor that looks at the file -/
def consumers (ls : List Lookup) (f : FileRef) : List String :=
  directConsumers ls f ++ nestedConsumers ls f

/-- the kinds of user file -/
inductive Kind where
  | json | pickle | csv | fits
  deriving Repr, DecidableEq

/-- the writer call that produces a user file of that kind -/
def Kind.call : Kind → String
  | .json => "save_json" | .pickle => "save_object" | .csv => "save_array" | .fits => "save_fits"

/-- the reader accessor that collects the files of that kind -/
def Kind.accessor : Kind → String
  | .json => "jsons" | .pickle => "pickles" | .csv => "arrays" | .fits => "hdus"

/-- the folder and suffix the writer gives a user file of a kind: those of the probe file in the table -/
def writerPlace (ws : List WFile) (k : Kind) : Option (List String × String) :=
  (ws.find? fun w => w.call == k.call).map fun w => (w.file.dir, w.file.ext)

/-- `_path_for_json(name, prefix)` & co.: `<files>/<prefix…>/<name><suffix>` -/
def pathFor (ws : List WFile) (k : Kind) (pre : List String) (name : String) : Option FileRef :=
  (writerPlace ws k).map fun (d, e) => { dir := d ++ pre, stem := name, ext := e }

/-- `".".join(path.relative_to(files_path).with_suffix("").parts)` -/
def outputName (f : FileRef) : String := ".".intercalate (f.dir.drop 1 ++ [f.stem])

/-- names `_add_files` never stores as arrays -/
def skippedArrays : List String := ["samples", "latent_samples"]

structure DbFiles where
  jsons : List String := []
  arrays : List String := []
  pickles : List String := []
  hdus : List String := []
  deriving Repr, DecidableEq

/-- names of the files an accessor collects (`numeric`: the table parses with `np.loadtxt`) -/
def collected (ls : List Lookup) (acc : String) (files : List (FileRef × Bool)) : List (String × Bool) :=
  (files.filter fun p => (directConsumers ls p.1).contains acc).map fun p => (outputName p.1, p.2)

/-- `_add_files` on the files of one directory -/
def dbFiles (ls : List Lookup) (files : List (FileRef × Bool)) : DbFiles :=
  { jsons := (collected ls "jsons" files).map (·.1)
    arrays := ((collected ls "arrays" files).filter fun p => p.2 && !skippedArrays.contains p.1).map (·.1)
    pickles := (collected ls "pickles" files).map (·.1)
    hdus := (collected ls "hdus" files).map (·.1) }

structure DirFlags where
  isFit : Bool
  isGrid : Bool
  complete : Bool
  hasParent : Bool
  hasSearch : Bool
  hasModel : Bool
  hasInfo : Bool
  hasSamples : Bool
  deriving Repr, DecidableEq

def anyRead (ls : List Lookup) (acc : String) (files : List FileRef) : Bool :=
  files.any fun f => (ls.any fun l => l.consumer == acc && l.kind == "file" && hits l f)

/-- every exact file an accessor opens is there -/
def allRead (ls : List Lookup) (acc : String) (only : FileRef → Bool) (files : List FileRef) : Bool :=
  let want := ls.filter fun l => l.consumer == acc && l.kind == "file" && only l.file
  !want.isEmpty && want.all fun l => files.any fun f => hits l f

def dirFlags (ls : List Lookup) (files : List FileRef) : DirFlags :=
  { isFit := anyRead ls "from_directory.fit" files
    isGrid := anyRead ls "from_directory.grid" files
    complete := anyRead ls "is_complete" files
    hasParent := anyRead ls "parent_identifier" files
    hasSearch := anyRead ls "search" files
    hasModel := allRead ls "model" (fun _ => true) files
    hasInfo := allRead ls "info" (fun _ => true) files
    -- `samples` also opens `model.json` (through `self.model`); its own files are the others
    hasSamples := allRead ls "samples"
      (fun f => !(ls.any fun l => l.consumer == "model" && l.kind == "file" && hits l f)) files }

/-- entries of the globbed folders that are read as child fits (`analyses/<entry>`), in order of
first appearance -/
def childDirs (ls : List Lookup) (files : List FileRef) : List (List String) :=
  ((ls.filter fun l => l.kind == "glob").flatMap fun g =>
    (files.filter fun f => isPrefix g.file.dir f.dir && g.file.dir.length < f.dir.length).map fun f =>
      f.dir.take (g.file.dir.length + 1)).eraseDups

/-- `_add_files` on each child analysis -/
def childDbFiles (ls : List Lookup) (files : List (FileRef × Bool)) : List (List String × DbFiles) :=
  (childDirs ls (files.map (·.1))).map fun d =>
    (d, dbFiles ls ((files.filter fun p => isPrefix d p.1.dir).map fun p => (below (d.length - 1) p.1, p.2)))

/-- writer files that are no database material: the identifier the folder is named by (the id is
recomputed, C07) and text / html renderings of the model -/
def textOnly : List FileRef :=
  [⟨[], ".identifier", ""⟩, ⟨[], "model", ".info"⟩, ⟨[], "model_graph", ".html"⟩, ⟨[], "model", ".start"⟩]

/-- the accessors a file written by `call` must be read by for the row to hold what the directory holds -/
def mustReach (w : WFile) : List String :=
  let n := w.file.stem ++ w.file.ext
  if w.call == "save_all" then
    (if n == "metadata" then ["from_directory.fit"]
     else if n == "search.json" then ["search", "jsons"]
     else if n == "model.json" then ["model", "samples", "jsons"]
     else if n == "info.json" then ["info", "jsons"]
     else [])
  else if w.call == "save_samples" then ["samples"]
  else if w.call == "save_latent_samples" then ["latent_samples"]
  else if w.call == "save_samples_summary" then ["jsons"]
  else if w.call == "save_json" || w.call == "save_json_prefix" then ["jsons"]
  else if w.call == "save_object" then ["pickles"]
  else if w.call == "save_array" then ["arrays"]
  else if w.call == "save_fits" then ["hdus"]
  else if w.call == "completed" then ["is_complete"]
  else if w.call == "combined.save_attributes" then ["child_analyses/jsons"]
  else if w.call == "save_unique_tag" then ["from_directory.grid", "grid.unique_tag"]
  else if w.call == "child.save_parent_identifier" then ["parent_identifier"]
  else []

end AF.FitFiles
