import AFModel.Msg

/-!
# MsgGB — the Gamma and Beta families of `autofit.messages` (property C17, growth of `Msg.lean`)

Mirrors (hand-written, tied to the code by `harness/c17.py`):

* `GammaMessage / BetaMessage .to_canonical_form`                      → `toCanonical`
* `GammaMessage.log_partition` (`gammaln α − α log β`), `BetaMessage.log_partition` (`betaln α β`)
                                                                     → `logPartitionGB`
* `MessageInterface.logpdf` = `natural_logpdf(η, t(x), log_base, A)` *including* its
  `np.nan_to_num(·, nan=-inf)` (which also maps `±inf` to the largest finite doubles)
                                                                     → `Base.logpdfX`, `M.logpdfX`
* `utils.psilog / grad_psilog / invpsilog` (closed-form start + 4 Newton steps)
                                                                     → `psilog`, `gradPsilog`, `invpsilogStart`, `newtonPsilog`, `invpsilog`
* `GammaMessage.invert_sufficient_statistics`                         → `invertSuffGamma`
* `beta.inv_beta_suffstats` (start `max(1, (1 + G/dG)/2)`, 5 Newton steps with the 2×2 Jacobian of
  `grad_betaln`), `BetaMessage.invert_sufficient_statistics`          → `betaStart`, `betaStep`, `betaNewton`, `invertSuffBeta`
* `from_sufficient_statistics`, `AbstractMessage.project` for every family
                                                                     → `invertSuffX`, `fromSuffX`, `weightedStatsT`, `projectWX`, `projectX`, `M.projectX`
* `NaturalNormal.mean` (with its `np.nan_to_num`) → `Base.meanX`, `M.meanX`
* `NormalMessage / NaturalNormal / GammaMessage .from_mode` (scalar variance) → `fromMode`
* `sum_natural_parameters / sub_natural_parameters` of a two-element message with a scalar message (numpy's
  broadcasting along the wrong axis, known finding) → `Base.mulB`, `Base.divB`
* `TransformedMessage.__init__` (flattening of a transformed base message) → `M.wrap`

`expectedStats` is the closed form of `E[t(x)]` under a member (digamma expressions for Gamma / Beta):
the quantity the moment-matching clause of the property speaks about; the driver evaluates it on the
model's registers and the harness compares it with its own closed form on the REAL message.

The additional special functions (`gammaln`, `digamma`, `polygamma(1, ·)`, `log1p`, `**`, `nan_to_num`) and
the three constants of `invpsilog`'s starting guess are the fields of `Sp K`. Core Lean only.
-/

namespace AF.Msg

/-- what the Gamma / Beta code obtains from scipy / numpy -/
structure Sp (K : Type) where
  /-- `scipy.special.gammaln` -/
  lgamma : K → K
  /-- `scipy.special.digamma` (`psi`) -/
  digamma : K → K
  /-- `scipy.special.polygamma(1, ·)` -/
  trigamma : K → K
  /-- `np.log1p` -/
  log1p : K → K
  /-- `x ** y` -/
  rpow : K → K → K
  /-- `np.nan_to_num(·, nan=-inf)` -/
  nanToNum : K → K
  /-- `np.nan_to_num(·)` with its defaults (NaN ↦ 0) -/
  nanToNum0 : K → K
  /-- `np.abs` -/
  abs : K → K
  /-- the constants `A, beta, gamma` of `invpsilog`'s starting guess -/
  cA : K
  cB : K
  cG : K

section
variable {K : Type} [Add K] [Sub K] [Mul K] [Div K] [Neg K] [OfNat K 0] [OfNat K 1] [OfNat K 2]

/-! ## densities -/

/-- `cls.to_canonical_form(x)`: the sufficient statistics `t(x)` -/
def toCanonical (fn : Fn K) (sp : Sp K) (fam : Family) (x : K) : K × K :=
  match fam with
  | .gamma => (fn.log x, x)
  | .beta => (fn.log x, sp.log1p (-x))
  | _ => (x, x * x)

/-- `message.log_partition` as a function of the natural parameters -/
def logPartitionGB (fn : Fn K) (sp : Sp K) (fam : Family) (eta : K × K) : K :=
  match fam with
  | .gamma =>
    let p := invertNatural fn .gamma eta
    sp.lgamma p.1 - p.1 * fn.log p.2
  | .beta =>
    let p := invertNatural fn .beta eta
    sp.lgamma p.1 + sp.lgamma p.2 - sp.lgamma (p.1 + p.2)
  | _ => normalLogPartition fn eta

/-- `log_base_measure` -/
def logBase (fn : Fn K) (fam : Family) : K :=
  match fam with
  | .gamma | .beta => 0
  | _ => -fn.halfLog2Pi

/-- `log_base_measure + η·t(x) − A(η)` before `nan_to_num` -/
def Base.logpdfRaw (fn : Fn K) (sp : Sp K) (a : Base K) (x : K) : K :=
  let e := a.natural
  let t := toCanonical fn sp a.fam x
  logBase fn a.fam + (e.1 * t.1 + e.2 * t.2) - logPartitionGB fn sp a.fam e

/-- `message.logpdf(x)` for every family, as the code computes it -/
def Base.logpdfX (fn : Fn K) (sp : Sp K) (a : Base K) (x : K) : K :=
  sp.nanToNum (a.logpdfRaw fn sp x)

/-- `TransformedMessage.logpdf(x)` / `message.logpdf(x)` -/
def M.logpdfX (fn : Fn K) (sp : Sp K) (m : M K) (x : K) : K :=
  m.base.logpdfX fn sp (transformChain fn m.trs x)

/-- `message.mean` as the code computes it: `NaturalNormal.mean` passes `-η₁ / η₂ / 2` through `np.nan_to_num`
(so the zero message `a ** 0` reports mean 0) -/
def Base.meanX (sp : Sp K) (a : Base K) : K :=
  match a.fam with
  | .naturalNormal => sp.nanToNum0 a.mean
  | _ => a.mean

/-- `message.mean` of a plain or transformed message -/
def M.meanX (fn : Fn K) (sp : Sp K) (m : M K) : K :=
  inverseChain fn m.trs (m.base.meanX sp)

/-- `E[t(x)]` under the member `a` (closed forms) -/
def Base.expectedStats (fn : Fn K) (sp : Sp K) (a : Base K) : K × K :=
  match a.fam with
  | .gamma => (sp.digamma a.p1 - fn.log a.p2, a.p1 / a.p2)
  | .beta => (sp.digamma a.p1 - sp.digamma (a.p1 + a.p2), sp.digamma a.p2 - sp.digamma (a.p1 + a.p2))
  | _ => (a.mean, a.mean * a.mean + a.variance fn)

/-! ## Gamma: inverting `ψ(x) − log x = c` -/

/-- `utils.psilog` -/
def psilog (fn : Fn K) (sp : Sp K) (x : K) : K := sp.digamma x - fn.log x

/-- `utils.grad_psilog` -/
def gradPsilog (sp : Sp K) (x : K) : K := sp.trigamma x - 1 / x

/-- one Newton–Raphson step of `invpsilog` -/
def psilogStep (fn : Fn K) (sp : Sp K) (c x : K) : K :=
  x - (psilog fn sp x - c) / gradPsilog sp x

/-- `n` Newton–Raphson steps -/
def newtonPsilog (fn : Fn K) (sp : Sp K) (c : K) : Nat → K → K
  | 0, x => x
  | n + 1, x => newtonPsilog fn sp c n (psilogStep fn sp c x)

/-- the starting guess `-(1 - 0.5 * (1 + A * (-c) ** beta) ** -gamma) / c` -/
def invpsilogStart (sp : Sp K) (c : K) : K :=
  -(1 - 1 / 2 * sp.rpow (1 + sp.cA * sp.rpow (-c) sp.cB) (-sp.cG)) / c

/-- `utils.invpsilog(c)` (for `c < 0`; the code raises otherwise) -/
def invpsilog (fn : Fn K) (sp : Sp K) (c : K) : K :=
  newtonPsilog fn sp c 4 (invpsilogStart sp c)

/-- `GammaMessage.invert_sufficient_statistics((logX, X))` -/
def invertSuffGamma (fn : Fn K) (sp : Sp K) (logX x : K) : K × K :=
  let alpha := invpsilog fn sp (logX - fn.log x)
  let beta := alpha / x
  calcNatural .gamma alpha beta

/-! ## Beta: inverting `ψ(a) − ψ(a+b) = lnX, ψ(b) − ψ(a+b) = ln1X` -/

/-- the starting point of `inv_beta_suffstats` -/
def betaStart (fn : Fn K) (l1 l2 : K) : K × K :=
  let g1 := fn.exp l1
  let g2 := fn.exp l2
  let dG := 1 - (g1 + g2)
  (fn.max 1 ((1 + g1 / dG) / 2), fn.max 1 ((1 + g2 / dG) / 2))

/-- `grad_betaln(ab) - lnXs`: the residual of the two moment equations at `(a, b)` -/
def betaResidual (sp : Sp K) (l1 l2 : K) (ab : K × K) : K × K :=
  let pab := sp.digamma (ab.1 + ab.2)
  (sp.digamma ab.1 - pab - l1, sp.digamma ab.2 - pab - l2)

/-- `jac_grad_betaln(ab)`: `(J₁₁, J₁₂ = J₂₁, J₂₂)` -/
def betaJac (sp : Sp K) (ab : K × K) : K × K × K :=
  let t := sp.trigamma (ab.1 + ab.2)
  (sp.trigamma ab.1 - t, -t, sp.trigamma ab.2 - t)

/-- one Newton–Raphson step: `ab += solve(jac, -f)` (2×2 system, by Cramer's rule) -/
def betaStep (sp : Sp K) (l1 l2 : K) (ab : K × K) : K × K :=
  let f := betaResidual sp l1 l2 ab
  let j := betaJac sp ab
  let det := j.1 * j.2.2 - j.2.1 * j.2.1
  let d1 := ((-f.1) * j.2.2 - j.2.1 * (-f.2)) / det
  let d2 := (j.1 * (-f.2) - j.2.1 * (-f.1)) / det
  (ab.1 + d1, ab.2 + d2)

def betaNewton (sp : Sp K) (l1 l2 : K) : Nat → K × K → K × K
  | 0, ab => ab
  | n + 1, ab => betaNewton sp l1 l2 n (betaStep sp l1 l2 ab)

/-- `inv_beta_suffstats(lnX, ln1X)`: five steps; the clamp of negative results is assigned to a variable
that is overwritten, so it has no effect (as the code behaves) -/
def invBetaSuffstats (fn : Fn K) (sp : Sp K) (l1 l2 : K) : K × K :=
  betaNewton sp l1 l2 5 (betaStart fn l1 l2)

/-- `BetaMessage.invert_sufficient_statistics` -/
def invertSuffBeta (fn : Fn K) (sp : Sp K) (l1 l2 : K) : K × K :=
  let ab := invBetaSuffstats fn sp l1 l2
  calcNatural .beta ab.1 ab.2

/-- how far the result of the numerical inversion is from solving its equations: `ψ(α) − log α − c` for Gamma,
the two moment equations for Beta (`(0, 0)` means converged); nothing is iterated for the other families -/
def suffResidual (fn : Fn K) (sp : Sp K) (fam : Family) (m1 m2 : K) : K × K :=
  match fam with
  | .gamma =>
    let c := m1 - fn.log m2
    (psilog fn sp (invpsilog fn sp c) - c, 0)
  | .beta => betaResidual sp m1 m2 (invBetaSuffstats fn sp m1 m2)
  | _ => (0, 0)

/-! ## from sufficient statistics, projection — every family -/

/-- `cls.invert_sufficient_statistics` -/
def invertSuffX (fn : Fn K) (sp : Sp K) (fam : Family) (m1 m2 : K) : K × K :=
  match fam with
  | .gamma => invertSuffGamma fn sp m1 m2
  | .beta => invertSuffBeta fn sp m1 m2
  | _ => invertSuff fn fam m1 m2

/-- `cls.from_sufficient_statistics(suff_stats, log_norm=…)` -/
def fromSuffX (fn : Fn K) (sp : Sp K) (fam : Family) (m1 m2 logNorm : K) (id : Nat) : Base K :=
  fromNatural fn fam (invertSuffX fn sp fam m1 m2) logNorm id fn.negInf fn.posInf

variable [NatCast K]

/-- the statistics `project` hands to `from_sufficient_statistics`: `w /= w.mean(); (t(x) * w).mean()` for the
sufficient statistics `ts = t(x)` of the samples -/
def weightedStatsT (ts : List (K × K)) (ws : List K) : K × K :=
  let norm := meanL ws
  let w := ws.map (· / norm)
  (meanL (List.zipWith (fun t w => t.1 * w) ts w), meanL (List.zipWith (fun t w => t.2 * w) ts w))

/-- `cls.project(samples, log_weight_list)` given the linear weights -/
def projectWX (fn : Fn K) (sp : Sp K) (fam : Family) (xs ws : List K) (logNorm : K) (id : Nat) : Base K :=
  let s := weightedStatsT (xs.map (toCanonical fn sp fam)) ws
  fromSuffX fn sp fam s.1 s.2 logNorm id

/-- `cls.project(samples, log_weight_list)`: weights `exp(lw − max lw)`, `log_norm = log(mean w) + max lw` -/
def projectX (fn : Fn K) (sp : Sp K) (fam : Family) (xs lws : List K) (id : Nat) : Base K :=
  match lws with
  | [] => projectWX fn sp fam xs [] 0 id
  | l :: ls =>
    let mx := ls.foldl fn.max l
    let ws := lws.map (fun lw => fn.exp (lw - mx))
    projectWX fn sp fam xs ws (fn.log (meanL ws) + mx) id

/-- `message.project(samples, log_weight_list)` on an instance (see `M.project`) -/
def M.projectX (fn : Fn K) (sp : Sp K) (m : M K) (xs lws : List K) (id : Nat) : M K :=
  match m with
  | .plain b => .plain (AF.Msg.projectX fn sp b.fam xs lws id)
  | .transformed t =>
    .transformed { base := AF.Msg.projectX fn sp t.base.fam (xs.map (transformChain fn t.trs)) lws id,
                   trs := t.trs, id := t.id, lower := fn.negInf, upper := fn.posInf }

end

section
variable {K : Type} [Add K] [Sub K] [Mul K] [Div K] [Neg K] [OfNat K 0] [OfNat K 1] [OfNat K 2]

/-! ## `from_mode` (scalar variance) -/

/-- `cls.from_mode(mode, variance, log_norm=…, id_=…, lower_limit=…, upper_limit=…)`:
`NormalMessage(mode, |V| ** 0.5)`, `NaturalNormal(mode / V, −1/(2V))`,
`GammaMessage(1 + mode² · V, alpha / mode)` (as the code computes them); other classes are not modelled
(the same message parameters are returned) -/
def fromMode (fn : Fn K) (sp : Sp K) (fam : Family) (m v logNorm : K) (id : Nat) (lower upper : K) : Base K :=
  let p : K × K :=
    match fam with
    | .normal => (m, fn.sqrt (sp.abs v))
    | .naturalNormal =>
      let precision := 1 / v
      (m * precision, -precision / 2)
    | .gamma =>
      let alpha := 1 + m * m * v
      (alpha, alpha / m)
    | _ => (m, v)
  { fam := fam, p1 := p.1, p2 := p.2, logNorm := logNorm, id := id, lower := lower, upper := upper }

end

/-! ## the constructor of a transformed message -/

/-- `TransformedMessage(base_message, *transforms, id_=…, lower_limit=…, upper_limit=…)`: a base message that is
itself transformed is flattened - its transforms come first, the new ones are applied on top -/
def M.wrap {K : Type} (m : M K) (trs : List (Tr K)) (id : Option Nat) (lower upper : K) : M K :=
  .transformed { base := m.base, trs := m.trs ++ trs, id := id, lower := lower, upper := upper }

/-! ## an array message combined with a scalar message (known finding `C17-mixed-shape-broadcast`, as the code behaves) -/

section
variable {K : Type} [Add K] [Sub K] [Mul K] [Div K] [Neg K] [OfNat K 0] [OfNat K 1] [OfNat K 2]

/-- element `j` (0 or 1) of `a * b` when `a` has two elements and `b` is a scalar message of the same class: numpy
aligns the `(2,)` natural-parameter vector of `b` with the *element* axis of `a`'s `(2, 2)` array, so element `j`
receives `b`'s `j`-th natural parameter in both of its own (other lengths raise `ValueError`) -/
def Base.mulB (fn : Fn K) (a : Base K) (eb : K × K) (j : Nat) : Base K :=
  let e := if j = 0 then eb.1 else eb.2
  a.mul fn (e, e)

/-- element `j` of `a / b` for the same shapes -/
def Base.divB (fn : Fn K) (a : Base K) (eb : K × K) (logNormB : K) (j : Nat) : Base K :=
  let e := if j = 0 then eb.1 else eb.2
  a.div fn (e, e) logNormB

end

/-! ## the `Float` instance the driver runs -/

/-- lookup in a finite table of (argument, value, derivative) triples: the value at the nearest key, corrected to
first order (`v + v' · (x − key)`). The Newton iterations evaluate `digamma` / `polygamma` at points the model
computes itself; without the correction the rounding difference between the model's and the reference's iterate
would be amplified from step to step instead of being contracted. -/
def lookupLin (tbl : List (Float × Float × Float)) (x : Float) : Float :=
  match tbl with
  | [] => 0.0 / 0.0
  | e0 :: rest =>
    let best := rest.foldl (fun (best : Float × Float × Float) (kv : Float × Float × Float) =>
      if (kv.1 - x).abs < (best.1 - x).abs then kv else best) e0
    if best.1 == x then best.2.1 else best.2.1 + best.2.2 * (x - best.1)

structure Tables2 where
  lgamma : List (Float × Float × Float) := []
  digamma : List (Float × Float × Float) := []
  trigamma : List (Float × Float × Float) := []

/-- `np.nan_to_num(v, nan=-inf)`: NaN ↦ −∞, +∞ ↦ the largest double, −∞ ↦ the most negative double -/
def nanToNumF (v : Float) : Float :=
  if v.isNaN then -(1.0 / 0.0)
  else if v == 1.0 / 0.0 then Float.ofBits 0x7FEFFFFFFFFFFFFF
  else if v == -(1.0 / 0.0) then -(Float.ofBits 0x7FEFFFFFFFFFFFFF)
  else v

def floatSp (t : Tables2) : Sp Float where
  lgamma := lookupLin t.lgamma
  digamma := lookupLin t.digamma
  trigamma := lookupLin t.trigamma
  log1p := fun y => Float.log (1.0 + y)
  rpow := Float.pow
  nanToNum := nanToNumF
  nanToNum0 := fun v => if v.isNaN then 0.0 else nanToNumF v
  abs := Float.abs
  cA := 0.38648347
  cB := 0.89486989
  cG := 0.78578843

end AF.Msg
