import AFModel.Gate

/-!
# GateComp — the gate computed from an assertion-carrying composition (C03)

`Gate.lean` takes the assertion tree as data. Here it is *computed*: `ANode` is a composition in which
every prior-model node (`Model`, `Collection`, compound / modified prior, `Array`) carries the list of
assertions attached to it by `add_assertion`; `ANode.trees` mirrors which attributes
`instance_for_arguments` / `_instance_for_arguments` recurse into:

* `Model._instance_for_arguments`     – every direct public attribute that is a prior model
  (`direct_prior_model_tuples`, `__dict__` order), constructor argument or not;
* `Collection._instance_for_arguments` – every public item that is a prior model;
* `Array._instance_for_arguments`     – every entry (index order) that has `instance_for_arguments`;
* `CompoundPrior`                     – `_left` then `_right` (`left_for_arguments` / `right_for_arguments`;
  the public aliases of the operands are *not* visited a second time);
* `ModifiedPrior`                     – `prior`;
* priors, constants, tuple priors, fixed values are leaves (`Prior.instance_for_arguments` is a lookup,
  `TuplePrior.value_for_arguments` checks nothing).

A component reachable twice is visited (and checked) twice, with the same arguments.
-/

namespace AF

/-- a composition whose prior-model nodes carry their `_assertions` -/
inductive ANode (V : Type) where
  /-- not a prior model: prior, constant, fixed value, tuple prior -/
  | leaf  (n : Node V)
  | model (cls : String) (ctor : List String) (asserts : List (Asrt V)) (attrs : List (String × ANode V))
  | coll  (asserts : List (Asrt V)) (attrs : List (String × ANode V))
  | arith (op : BinOp) (asserts : List (Asrt V)) (attrs : List (String × ANode V)) (l r : ANode V)
  | modif (op : UnOp) (asserts : List (Asrt V)) (attrs : List (String × ANode V)) (x : ANode V)
  | array (shape : List Nat) (asserts : List (Asrt V)) (attrs : List (String × ANode V))
  deriving Inhabited

mutual
/-- forget the assertions: the composition of C01 -/
def ANode.erase {V} : ANode V → Node V
  | .leaf n => n
  | .model cls ctor _ attrs => .model cls ctor (eraseAttrs attrs)
  | .coll _ attrs => .coll (eraseAttrs attrs)
  | .arith op _ attrs l r => .arith op (eraseAttrs attrs) l.erase r.erase
  | .modif op _ attrs x => .modif op (eraseAttrs attrs) x.erase
  | .array shape _ attrs => .array shape (eraseAttrs attrs)
def eraseAttrs {V} : List (String × ANode V) → List (String × Node V)
  | [] => []
  | (k, n) :: rest => (k, n.erase) :: eraseAttrs rest
end

mutual
/-- the recursion tree of `instance_for_arguments` below (and including) a node: nothing for a leaf,
one tree for a prior model -/
def ANode.trees {V} : ANode V → List (ATree V)
  | .leaf _ => []
  | .model _ _ as attrs => [.node as (attrTrees attrs)]
  | .coll as attrs => [.node as (attrTrees attrs)]
  | .arith _ as _ l r => [.node as (l.trees ++ r.trees)]
  | .modif _ as _ x => [.node as x.trees]
  | .array _ as attrs => [.node as (attrTrees attrs)]
def attrTrees {V} : List (String × ANode V) → List (ATree V)
  | [] => []
  | (_, n) :: rest => n.trees ++ attrTrees rest
end

/-- the assertions attached to this very node -/
def ANode.asserts {V} : ANode V → List (Asrt V)
  | .leaf _ => []
  | .model _ _ as _ => as
  | .coll as _ => as
  | .arith _ as _ _ _ => as
  | .modif _ as _ _ => as
  | .array _ as _ => as

/-- the nodes `_instance_for_arguments` of this node calls `instance_for_arguments` on -/
def ANode.kids {V} : ANode V → List (ANode V)
  | .leaf _ => []
  | .model _ _ _ attrs => attrs.map (·.2)
  | .coll _ attrs => attrs.map (·.2)
  | .arith _ _ _ l r => [l, r]
  | .modif _ _ _ x => [x]
  | .array _ _ attrs => attrs.map (·.2)

/-- `Reach c d`: building an instance of `c` calls `instance_for_arguments` on `d` (at any depth) -/
inductive Reach {V} : ANode V → ANode V → Prop where
  | refl (c : ANode V) : Reach c c
  | step {c k d : ANode V} : k ∈ c.kids → Reach k d → Reach c d

/-- `instance_from_vector` on an assertion-carrying composition: everything but the vector, the limits
and the flag is computed from the composition -/
def gateComp {V} [Inhabited V] (ops : Ops V) (c : ANode V) (lims : List (V × V)) (v : List V)
    (ignore : Bool) : Except GateErr (Inst V) :=
  gateTree ops c.erase lims (.node [] c.trees) v ignore

/-! ## what is evaluated, in which order (the observable sequence of `check_assertions` calls)

`check_assertions` evaluates *every* assertion of its node (a list comprehension) and raises when one
failed; children are visited after their parent, in attribute order; the first node with a failed
assertion ends the walk. -/

mutual
/-- verdict lists of the visited nodes, up to and including the first node with a failed assertion -/
def traceTree {V} [Inhabited V] (ops : Ops V) (ρ : Nat → Inst V) : ATree V → List (List Bool)
  | .node as cs =>
      if as.all (evalA ops ρ) then as.map (evalA ops ρ) :: traceTrees ops ρ cs
      else [as.map (evalA ops ρ)]
def traceTrees {V} [Inhabited V] (ops : Ops V) (ρ : Nat → Inst V) : List (ATree V) → List (List Bool)
  | [] => []
  | t :: rest =>
      if checkTree ops ρ t then traceTree ops ρ t ++ traceTrees ops ρ rest else traceTree ops ρ t
end

mutual
/-- verdict lists of all nodes in visiting order (no cut) -/
def fullTrace {V} [Inhabited V] (ops : Ops V) (ρ : Nat → Inst V) : ATree V → List (List Bool)
  | .node as cs => as.map (evalA ops ρ) :: fullTraces ops ρ cs
def fullTraces {V} [Inhabited V] (ops : Ops V) (ρ : Nat → Inst V) : List (ATree V) → List (List Bool)
  | [] => []
  | t :: rest => fullTrace ops ρ t ++ fullTraces ops ρ rest
end

/-- the `check_assertions` calls `instance_from_vector` makes: none when the length is wrong, a limit is
violated (the prior-limit exception comes first) or the caller ignores limits -/
def gateCompTrace {V} [Inhabited V] (ops : Ops V) (c : ANode V) (lims : List (V × V)) (v : List V)
    (ignore : Bool) : List (List Bool) :=
  if v.length ≠ count c.erase then []
  else if ignore then []
  else if !limitsOk ops lims v then []
  else traceTrees ops (valOf (argsOfVector c.erase v)) c.trees

end AF
