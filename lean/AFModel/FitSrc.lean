/-!
# FitSrc — vocabulary of the call tables extracted from the source (C06)

`harness/tables_c06.py` reads the functions that take part in the on-disk life of a fit
(`NonLinearSearch.fit / pre_fit_output / start_resume_fit / perform_update / result_via_completed_fit /
post_fit_output`, `AbstractPaths.restore / _zip`, `zip_directory`, the writers of `DirectoryPaths`, `Timer`)
and writes, for each, the ordered list of the calls that matter with the settings guarding each call
(`AFModel/Generated/C06.lean`).  This file is the hand-written vocabulary of those tables;
`AFModel/FitPlan.lean` gives them their meaning.
-/

namespace AF.FitFS.Src

/-- a call that matters for what a later `fit` finds on disk -/
inductive Tok where
  -- `NonLinearSearch.fit`
  | restore | preFitOutput | startResumeFit | resultViaCompletedFit | postFitOutput
  -- `pre_fit_output`
  | saveAll
  -- `start_resume_fit`
  | timerStart | fitInner | performUpdate | saveResults | completed
  -- `perform_update`
  | timerUpdate | saveSamplesSummary | saveSamples | saveLatentSamples | saveSummary
  -- `result_via_completed_fit`
  | loadSamplesSummary | loadSamples
  -- `post_fit_output`
  | removeSearchInternal | outputSearchInternal | zipRemove | saveSearchInternal
  -- `AbstractPaths`
  | zip | zipDirectory | rmtreeOutput | zipValidate | extractAll | removeZip
  -- `zip_directory`
  | zipWriteTmp | zipWriteInPlace | osReplace
  -- writers
  | openAtomic | openPlain | saveJson | saveSamplesInner | saveCovariance | writeTable
  /-- a call on the paths / timer object the translator has no meaning for -/
  | unknown (name : String)
  deriving DecidableEq, Repr

/-- a setting an `if` of the source tests -/
inductive Cond where
  | complete        -- `paths.is_complete`
  | zipExists       -- `path.exists(self._zip_path)`
  | searchInternal  -- output.yaml `search_internal`
  | removeFiles     -- general.yaml `output.remove_files`
  | samplesCsv      -- general.yaml `output.samples_to_csv`
  | forcePickle     -- `force_pickle_overwrite`
  | forceVisualize  -- `force_visualize_overwrite`
  deriving DecidableEq, Repr

/-- one call of a function body with the guards it sits under (setting, required value) -/
structure GCall where
  name : Tok
  guards : List (Cond × Bool)
  deriving DecidableEq, Repr

/-- does the call execute under the valuation `env` of the settings -/
def holds (env : Cond → Bool) (c : GCall) : Bool :=
  c.guards.all fun g => env g.1 == g.2

/-- the calls of a body that execute under `env`, in source order -/
def active (env : Cond → Bool) (l : List GCall) : List Tok :=
  (l.filter (holds env)).map (·.name)

end AF.FitFS.Src
