import AFProofs.Lemmas.EP
import AFProofs.Lemmas.EPPlate

/-!
# C18 — expectation-propagation bookkeeping is exact

Property theorems about the `AF.EP` model (`AFModel/EP.lean`), which `harness/c18.py` ties to
`EPMeanField`, `MeanField.update_factor_mean_field`, `AbstractDeclarativeFactor.message_dict`,
`EPOptimiser.run`, `FactorHistory` / `EPResult` of /repo. They hold for every natural-parameter
space `G` (any `EtaSpace`, i.e. ℚ-module: any exponential family, any dimension), every list of
factors `fs` without repetition (a dict's keys), every state, every new model distribution, every
damping, every sequence of updates.

Clauses of the property and where they are:

* model distribution = own message × cavity            `model_eq_message_times_cavity`
* cavity = product of all OTHER factors' messages      `cavity_ignores_own_message`, `cavity_is_product_of_others`
* global approximation = product of all messages       `model_eq_global`, `global_perm`, `global_split`
* an update changes only that factor's message         `update_only_that_factor`, `update_own_message`
* a full update makes the global approximation `q`     `full_update_sets_global`
* damping                                              `damped_update_global`; exponent exactly 1 / 0:
                                                       `damping_one_is_full_update`, `damping_zero_keeps_global`,
                                                       `dynamic_delta_of_least_shared`
* improper projection keeps the previous message       `improper_projection_keeps_message`
* all sequences of updates, any damping                `history_step`, `history_untouched_factor`,
                                                       `history_full_update_sets_global`, `history_length`
* initial cavity = the user's prior                    `initial_cavity_is_prior` (any graph),
                                                       `declarative_initial_cavity_is_prior`,
                                                       `initial_single_holder`, `declarative_count_is_holders`;
                                                       pinned commit: `initial_cavity_refuted_when_counted_per_place`
* result accessors report the most recent state        `latest_is_last_success`, `latest_is_success`,
                                                       `latest_none_iff`, `latest_results_per_factor`;
                                                       pinned commit: `latest_refuted_when_first`
* array-valued messages (plates): arrays are an `EtaSpace` (`AF.EP.instEtaSpacePi`), so every theorem
  above holds for them as stated; element by element `plate_model_eq_message_times_cavity`,
  `plate_approx_is_elementwise`, `plate_global_is_elementwise`, `plate_update_is_elementwise` (the
  array update with `np.where` validity IS the scalar update of every element), hence
  `plate_update_only_that_factor`, `plate_full_update_sets_global`, `plate_damped_update_global`,
  `plate_improper_element_keeps_message`
* batches (`EPMeanFieldSubset`)                          `subset_model_eq_message_times_cavity`; indexing:
                                                       `merge_subset_self`, `merge_untouched_elements`,
                                                       `subset_of_merge`, `merge_whole_when_no_plate_selected`
* `log_norm`                                           `log_norm_dropped_by_projection`, `log_norms_after_updates_zero`
-/

namespace AF.C18
open AF.EP

variable {G : Type} [EtaSpace G]

/-! ## identities for any factor graph and mean-field state -/

/-- **Model = own message × cavity.** Whatever the state, the model distribution of `f` for a
variable it holds is its own message times the product of the other factors' messages (when no
other factor holds the variable that product is empty, and the model is the message itself). -/
theorem model_eq_message_times_cavity (fs : List Nat) (s : State G) (f v : Nat) (m : G)
    (h : s.get f v = some m) :
    modelOpt fs s f v = some (m + cavity fs s f v) ∧
    (present s v (others fs f) = false → modelOpt fs s f v = some m) := by
  have hv := val_cavityOpt fs s f v (by simp [h])
  constructor
  · simp [modelOpt, h, hv]
  · intro hp
    have : cavity fs s f v = 0 := total_absent s v _ hp
    simp [modelOpt, h, hv, this, EtaSpace.add_zero]

/-- the cavity dict has a key exactly for the factor's variables that some other factor holds, and
its value is the product over the other factors -/
theorem cavity_is_product_of_others (fs : List Nat) (s : State G) (f v : Nat) :
    cavityOpt fs s f v =
      if (s.get f v).isSome && (others fs f).any (fun g => (s.get g v).isSome)
      then some (total s v (fs.filter (fun g => g != f))) else none := rfl

/-- **The cavity excludes the factor itself**: it does not depend on the factor's own messages. -/
theorem cavity_ignores_own_message (fs : List Nat) (s s' : State G) (f v : Nat)
    (h : ∀ g, g ≠ f → s.get g v = s'.get g v) : cavity fs s f v = cavity fs s' f v := by
  unfold cavity
  apply total_congr
  intro g hg
  exact h g ((mem_others fs f g).mp hg).2

/-- the product of all messages splits into a factor's message and its cavity -/
theorem global_split (fs : List Nat) (s : State G) (f v : Nat) (hnd : fs.Nodup) (hf : f ∈ fs) :
    global fs s v = val (s.get f v) + cavity fs s f v :=
  total_split s v fs f hnd hf

/-- **Model = global approximation on the factor's variables.** -/
theorem model_eq_global (fs : List Nat) (s : State G) (f v : Nat) (m : G) (hnd : fs.Nodup)
    (hf : f ∈ fs) (h : s.get f v = some m) : modelOpt fs s f v = some (global fs s v) := by
  rw [(model_eq_message_times_cavity fs s f v m h).1, global_split fs s f v hnd hf, h]
  rfl

/-- **The global approximation is the product of all factor messages**, in whatever order the
factors are stored (dict, list, sorted …). -/
theorem global_perm (fs fs' : List Nat) (s : State G) (v : Nat) (h : fs.Perm fs') :
    global fs s v = global fs' s v :=
  total_perm s v fs fs' h

/-! ## one update -/

/-- **An update changes only that factor's message.** -/
theorem update_only_that_factor (valid : G → Bool) (s : State G) (a : Approx G) (q : Field G)
    (δ : Delta) (g v : Nat) (hg : g ≠ a.f) : (project valid s a q δ).get g v = s.get g v := by
  rw [get_project, if_neg (fun e => hg e.symm)]

/-- the updated factor holds one message per variable of the new model distribution -/
theorem update_own_message (valid : G → Bool) (s : State G) (a : Approx G) (q : Field G)
    (δ : Delta) (v : Nat) :
    (project valid s a q δ).get a.f v = (lookup q v).map (newMsg valid a δ v) := by
  rw [get_project]
  simp

/-- after an update of `f` the cavity of `f` is what it was -/
theorem update_keeps_own_cavity (fs : List Nat) (valid : G → Bool) (s : State G) (a : Approx G)
    (q : Field G) (δ : Delta) (v : Nat) :
    cavity fs (project valid s a q δ) a.f v = cavity fs s a.f v :=
  cavity_ignores_own_message fs _ _ a.f v
    (fun g hg => update_only_that_factor valid s a q δ g v hg)

/-- **A full update makes the global approximation equal the newly fitted distribution** on every
variable of the factor whose projection is proper (`valid`): for a fresh approximation
(`approx fs s f`), `delta >= 1` (`δ.at v = none`). -/
theorem full_update_sets_global (fs : List Nat) (valid : G → Bool) (s : State G) (f v : Nat)
    (q : Field G) (δ : Delta) (qv : G) (hnd : fs.Nodup) (hf : f ∈ fs)
    (hheld : (s.get f v).isSome) (hq : lookup q v = some qv) (hδ : δ.at v = none)
    (hvalid : valid (qv - cavity fs s f v) = true) :
    global fs (project valid s (approx fs s f) q δ) v = qv := by
  have hc : val ((approx fs s f).cavity v) = cavity fs s f v := val_cavityOpt fs s f v hheld
  rw [global_split fs _ f v hnd hf]
  have h1 := update_own_message valid s (approx fs s f) q δ v
  have h2 := update_keeps_own_cavity fs valid s (approx fs s f) q δ v
  simp only [approx] at h1 h2 hc
  simp only [approx]
  rw [h1, h2, hq, Option.map_some, val_some]
  have hcand : candidate (approx fs s f) (δ.at v) v qv = qv - cavity fs s f v := by
    rw [hδ, candidate_none]; simp only [approx]; rw [hc]
  simp only [approx] at hcand
  rw [newMsg_valid _ _ _ _ _ (by rw [hcand]; exact hvalid), hcand]
  exact full_cancel qv _

/-- **Damping.** With exponent `d` for `v` and a proper projection, the new global approximation is
`q^d · (previous global)^(1-d)`: the convex combination in natural parameters. -/
theorem damped_update_global (fs : List Nat) (valid : G → Bool) (s : State G) (f v : Nat)
    (q : Field G) (δ : Delta) (qv m : G) (d : Rat) (hnd : fs.Nodup) (hf : f ∈ fs)
    (hheld : s.get f v = some m) (hq : lookup q v = some qv) (hδ : δ.at v = some d)
    (hvalid : valid ((d • qv + (1 - d) • m) - d • cavity fs s f v) = true) :
    global fs (project valid s (approx fs s f) q δ) v = d • qv + (1 - d) • global fs s v := by
  have hc : val ((approx fs s f).cavity v) = cavity fs s f v :=
    val_cavityOpt fs s f v (by simp [hheld])
  rw [global_split fs _ f v hnd hf, global_split fs s f v hnd hf]
  have h1 := update_own_message valid s (approx fs s f) q δ v
  have h2 := update_keeps_own_cavity fs valid s (approx fs s f) q δ v
  simp only [approx] at h1 h2 hc
  simp only [approx]
  rw [h1, h2, hq, hheld, Option.map_some, val_some, val_some]
  have hcand : candidate (approx fs s f) (δ.at v) v qv
      = (d • qv + (1 - d) • m) - d • cavity fs s f v := by
    rw [hδ, candidate_some]; simp only [approx]; rw [hc, hheld, val_some]
  simp only [approx] at hcand
  rw [newMsg_valid _ _ _ _ _ (by rw [hcand]; exact hvalid), hcand]
  exact damped_cancel d qv m _

/-- a per-variable exponent of exactly 1 (what `DynamicUpdater(1.0)` gives the least-shared
variables) is a full update -/
theorem damping_one_is_full_update (fs : List Nat) (valid : G → Bool) (s : State G) (f v : Nat)
    (q : Field G) (δ : Delta) (qv m : G) (hnd : fs.Nodup) (hf : f ∈ fs)
    (hheld : s.get f v = some m) (hq : lookup q v = some qv) (hδ : δ.at v = some 1)
    (hvalid : valid (((1 : Rat) • qv + (1 - 1 : Rat) • m) - (1 : Rat) • cavity fs s f v) = true) :
    global fs (project valid s (approx fs s f) q δ) v = qv := by
  rw [damped_update_global fs valid s f v q δ qv m 1 hnd hf hheld hq hδ hvalid]
  have : (1 - 1 : Rat) = 0 := by grind
  rw [this, EtaSpace.one_smul, EtaSpace.zero_smul, EtaSpace.add_zero]

/-- an exponent of exactly 0 leaves the global approximation where it was -/
theorem damping_zero_keeps_global (fs : List Nat) (valid : G → Bool) (s : State G) (f v : Nat)
    (q : Field G) (δ : Delta) (qv m : G) (hnd : fs.Nodup) (hf : f ∈ fs)
    (hheld : s.get f v = some m) (hq : lookup q v = some qv) (hδ : δ.at v = some 0)
    (hvalid : valid (((0 : Rat) • qv + (1 - 0 : Rat) • m) - (0 : Rat) • cavity fs s f v) = true) :
    global fs (project valid s (approx fs s f) q δ) v = global fs s v := by
  rw [damped_update_global fs valid s f v q δ qv m 0 hnd hf hheld hq hδ hvalid]
  have : (1 - 0 : Rat) = 1 := by grind
  rw [this, EtaSpace.one_smul, EtaSpace.zero_smul, zero_add']

omit [EtaSpace G] in
/-- `DynamicUpdater(d)`: the least-shared variables are updated with exponent exactly `d` (so with
the default `d = 1` they receive a full update, `damping_one_is_full_update`) -/
theorem dynamic_delta_of_least_shared (fs vars : List Nat) (s : State G) (d : Rat) (v : Nat)
    (hmin : msgCount fs s v = minList (vars.map (msgCount fs s))) (hpos : msgCount fs s v ≠ 0) :
    dynamicDelta fs vars s d v = d := by
  unfold dynamicDelta
  rw [← hmin]
  have h : (msgCount fs s v : Rat) ≠ 0 := by
    intro h0
    exact hpos (by exact_mod_cast h0)
  grind

/-- **Improper projection.** When the candidate message is outside the family's domain the factor
keeps its previous message for that variable (so the global approximation does not move). -/
theorem improper_projection_keeps_message (fs : List Nat) (valid : G → Bool) (s : State G)
    (f v : Nat) (q : Field G) (δ : Delta) (qv m : G) (hheld : s.get f v = some m)
    (hq : lookup q v = some qv)
    (hinvalid : valid (candidate (approx fs s f) (δ.at v) v qv) = false) :
    (project valid s (approx fs s f) q δ).get f v = some m := by
  have h1 := update_own_message valid s (approx fs s f) q δ v
  simp only [approx] at h1 hinvalid
  simp only [approx]
  rw [h1, hq, Option.map_some, newMsg_invalid _ _ _ _ _ m hinvalid hheld]

/-! ## all sequences of updates with any damping -/

/-- one output per update -/
theorem history_length (fs : List Nat) (valid : G → Bool) (ops : List (Op G)) :
    ∀ (stack : List (State G)) (cur : State G), (run fs valid stack cur ops).length = ops.length := by
  induction ops with
  | nil => intros; rfl
  | cons op rest ih => intro stack cur; simp [run, ih]

/-- the state before update `i` of a run: the state the previous update left (or the start) -/
def stateBefore (outs : List (StepOut G)) (cur : State G) (i : Nat) : State G :=
  ((cur :: outs.map (fun o => o.state))[i]?).getD []

/-- **Every update of every run is one `step`** from the state the previous update left: so the
one-update theorems above apply to each update of any sequence (whatever factors, new
distributions, dampings and stale approximations came before). -/
theorem history_step (fs : List Nat) (valid : G → Bool) (ops : List (Op G)) :
    ∀ (stack : List (State G)) (cur : State G) (i : Nat) (op : Op G), ops[i]? = some op →
      ∃ stack', (run fs valid stack cur ops)[i]? =
        some (step fs valid stack' (stateBefore (run fs valid stack cur ops) cur i) op) := by
  induction ops with
  | nil => intro _ _ i op h; simp at h
  | cons op0 rest ih =>
    intro stack cur i op h
    cases i with
    | zero =>
      simp only [List.getElem?_cons_zero, Option.some.injEq] at h
      subst h
      exact ⟨stack, by simp [run, stateBefore]⟩
    | succ j =>
      simp only [List.getElem?_cons_succ] at h
      obtain ⟨stack', hs⟩ := ih (cur :: stack) (step fs valid stack cur op0).state j op h
      refine ⟨stack', ?_⟩
      simp only [run, List.getElem?_cons_succ]
      rw [hs]
      simp [stateBefore]

/-- **Factors that are not updated keep their messages through any sequence of updates.** -/
theorem history_untouched_factor (fs : List Nat) (valid : G → Bool) (ops : List (Op G)) (g v : Nat)
    (hg : ∀ op ∈ ops, op.f ≠ g) :
    ∀ (stack : List (State G)) (cur : State G), ∀ o ∈ run fs valid stack cur ops,
      o.state.get g v = cur.get g v := by
  induction ops with
  | nil => intro _ _ o ho; simp [run] at ho
  | cons op rest ih =>
    intro stack cur o ho
    have hstep : (step fs valid stack cur op).state.get g v = cur.get g v := by
      simp only [step]
      exact update_only_that_factor valid cur _ op.q _ g v (fun e => hg op (by simp) e.symm)
    simp only [run, List.mem_cons] at ho
    rcases ho with rfl | ho
    · exact hstep
    · rw [ih (fun op' h' => hg op' (by simp [h'])) _ _ o ho, hstep]

/-- **After any sequence of updates, a full update with a fresh approximation and a proper
projection makes the global approximation the newly fitted distribution.** -/
theorem history_full_update_sets_global (fs : List Nat) (valid : G → Bool) (ops : List (Op G))
    (stack : List (State G)) (cur : State G) (i : Nat) (op : Op G) (o : StepOut G) (v : Nat) (qv : G)
    (hnd : fs.Nodup) (hf : op.f ∈ fs) (hop : ops[i]? = some op)
    (ho : (run fs valid stack cur ops)[i]? = some o) (hfresh : op.age = 0)
    (hheld : ((stateBefore (run fs valid stack cur ops) cur i).get op.f v).isSome)
    (hq : lookup op.q v = some qv)
    (hδ : (op.delta (stateBefore (run fs valid stack cur ops) cur i)).at v = none)
    (hvalid : valid (qv - cavity fs (stateBefore (run fs valid stack cur ops) cur i) op.f v) = true) :
    global fs o.state v = qv := by
  obtain ⟨stack', hs⟩ := history_step fs valid ops stack cur i op hop
  rw [ho] at hs
  cases hs
  simp only [step, hfresh]
  exact full_update_sets_global fs valid _ op.f v op.q _ qv hnd hf hheld hq hδ hvalid

/-! ## the start of a declarative graph fit -/

/-- **Initial cavity = the user's prior**, for any graph: if every factor holding `v` starts with
`prior ** (1/(c-1))`, where `c ≥ 2` is the number of factors that hold `v`, the cavity of each of
them for `v` is the prior. -/
theorem initial_cavity_is_prior (fs : List Nat) (scope : Nat → List Nat) (cnt : Nat → Nat)
    (prior : Nat → G) (f v : Nat) (hnd : fs.Nodup) (hf : f ∈ fs) (hv : v ∈ scope f)
    (hcnt : cnt v = holders fs scope v) (h2 : 2 ≤ cnt v) :
    cavityOpt fs (initState fs scope cnt prior) f v = some (prior v) := by
  let s := initState fs scope cnt prior
  have hget : ∀ g ∈ others fs f, s.get g v =
      if (scope g).contains v then some (initMsg (cnt v) (prior v)) else none := by
    intro g hg
    have hgf : g ∈ fs := ((mem_others fs f g).mp hg).1
    show (initState fs scope cnt prior).get g v = _
    rw [get_initState]
    simp [hgf]
  have hcount := holders_others fs (fun g => (scope g).contains v) f hnd hf (by simpa using hv)
  have hn : ((others fs f).filter (fun g => (scope g).contains v)).length = cnt v - 1 := by
    unfold holders at hcnt; omega
  have htot : cavity fs s f v = prior v := by
    unfold cavity
    rw [total_const s v (others fs f) (fun g => (scope g).contains v) _ hget, hn]
    unfold initMsg
    have : cnt v > 1 := by omega
    simp only [this, if_true]
    exact smul_inv_cancel (cnt v - 1) (by omega) (prior v)
  have hself : (s.get f v).isSome := by
    show ((initState fs scope cnt prior).get f v).isSome
    rw [get_initState]; simp [hf, hv]
  have hpres : present s v (others fs f) = true := by
    have hpos : 0 < ((others fs f).filter (fun g => (scope g).contains v)).length := by omega
    obtain ⟨g, hg⟩ := List.exists_mem_of_length_pos hpos
    have hg' := List.mem_filter.mp hg
    unfold present
    apply List.any_eq_true.mpr
    have hmem : v ∈ scope g := by simpa using hg'.2
    exact ⟨g, hg'.1, by rw [hget g hg'.1]; simp [hmem]⟩
  show cavityOpt fs s f v = some (prior v)
  unfold cavityOpt
  simp [hself, hpres, htot]

/-- a variable held by a single factor has no cavity and the factor's model distribution is the
user's prior (the factor is fitted with the prior itself) -/
theorem initial_single_holder (fs : List Nat) (scope : Nat → List Nat) (cnt : Nat → Nat)
    (prior : Nat → G) (f v : Nat) (hnd : fs.Nodup) (hf : f ∈ fs) (hv : v ∈ scope f)
    (hcnt : cnt v = holders fs scope v) (h1 : cnt v = 1) :
    cavityOpt fs (initState fs scope cnt prior) f v = none ∧
    modelOpt fs (initState fs scope cnt prior) f v = some (prior v) := by
  have hcount := holders_others fs (fun g => (scope g).contains v) f hnd hf (by simpa using hv)
  have hn : ((others fs f).filter (fun g => (scope g).contains v)).length = 0 := by
    unfold holders at hcnt; omega
  have hpres : present (initState fs scope cnt prior) v (others fs f) = false := by
    unfold present
    apply Bool.eq_false_iff.mpr
    intro h
    obtain ⟨g, hg, hsome⟩ := List.any_eq_true.mp h
    have hgf : g ∈ fs := ((mem_others fs f g).mp hg).1
    rw [get_initState] at hsome
    have hc : (scope g).contains v = true := by
      by_cases hc : (scope g).contains v = true
      · exact hc
      · simp at hsome
        simpa using hsome.2
    have : g ∈ (others fs f).filter (fun g => (scope g).contains v) := List.mem_filter.mpr ⟨hg, hc⟩
    have := List.length_pos_of_mem this
    omega
  have hself : (initState fs scope cnt prior).get f v = some (prior v) := by
    rw [get_initState]
    simp [hf, hv, initMsg, h1]
  constructor
  · simp [cavityOpt, hpres]
  · exact (model_eq_message_times_cavity fs _ f v _ hself).2 hpres

/-- the repaired `prior_counts` of a `FactorGraphModel` is the number of graph factors (model
factors and, if included, the prior factor) that hold the variable -/
theorem declarative_count_is_holders (d : Decl) (cfg : Cfg) (hc : cfg.countPerFactor = true)
    (v : Nat) (hv : v ∈ d.priors) : d.count cfg v = holders d.factors d.scope v :=
  (holders_decl d cfg hc v hv).symm

/-- variables of a graph factor are priors of the declaration -/
theorem scope_subset_priors (d : Decl) (f v : Nat) (hv : v ∈ d.scope f) : v ∈ d.priors := by
  unfold Decl.scope at hv
  by_cases h1 : f < d.nModel
  · simp only [h1, if_true] at hv
    have hv' := (mem_dedup _ v).mp hv
    unfold Decl.priors
    apply (mem_dedup _ v).mpr
    apply List.mem_flatten.mpr
    refine ⟨d.places.getD f [], ?_, hv'⟩
    rw [List.getD_eq_getElem?_getD]
    have h2 : f < d.places.length := h1
    simp [List.getElem?_eq_getElem h2]
  · simp only [h1, if_false] at hv
    by_cases h2 : d.ipf = true
    · simp only [h2, if_true] at hv
      cases h3 : d.priors[f - d.nModel]? with
      | none => simp [h3] at hv
      | some p =>
        simp only [h3, Option.toList_some, List.mem_singleton] at hv
        subst hv
        exact List.mem_of_getElem? h3
    · simp [h2] at hv

/-- **At the start of a declarative graph fit every factor's cavity for every variable that another
factor also holds equals the user's prior** (repaired counting; any sharing pattern, priors repeated
within a factor, prior factors on or off). -/
theorem declarative_initial_cavity_is_prior (d : Decl) (cfg : Cfg) (prior : Nat → G) (f v : Nat)
    (hc : cfg.countPerFactor = true) (hf : f ∈ d.factors) (hv : v ∈ d.scope f)
    (h2 : 2 ≤ d.count cfg v) :
    cavityOpt d.factors (d.init cfg prior) f v = some (prior v) :=
  initial_cavity_is_prior d.factors d.scope (d.count cfg) prior f v List.nodup_range hf hv
    (declarative_count_is_holders d cfg hc v (scope_subset_priors d f v hv)) h2

/-- … and a variable no other factor holds is fitted with the user's prior itself -/
theorem declarative_initial_single_holder (d : Decl) (cfg : Cfg) (prior : Nat → G) (f v : Nat)
    (hc : cfg.countPerFactor = true) (hf : f ∈ d.factors) (hv : v ∈ d.scope f)
    (h1 : d.count cfg v = 1) :
    cavityOpt d.factors (d.init cfg prior) f v = none ∧
    modelOpt d.factors (d.init cfg prior) f v = some (prior v) :=
  initial_single_holder d.factors d.scope (d.count cfg) prior f v List.nodup_range hf hv
    (declarative_count_is_holders d cfg hc v (scope_subset_priors d f v hv)) h1

/-- the graph of the refutation below: factor 0 holds prior 0 at two places, factor 1 at one -/
def sharedTwice : Decl := { places := [[0, 0], [0]], ipf := false }

/-- **Pinned commit (counting per place).** A prior held at two places of one factor is counted
twice: the messages start as `prior ** (1/2)` and the cavity of factor 0 is `prior ** (1/2)`, not
the prior. -/
theorem initial_cavity_refuted_when_counted_per_place :
    cavityOpt sharedTwice.factors
      (sharedTwice.init { countPerFactor := false } (fun _ => (1 : Rat))) 0 0 = some (1 / 2 : Rat)
    ∧ cavityOpt sharedTwice.factors
      (sharedTwice.init { countPerFactor := true } (fun _ => (1 : Rat))) 0 0 = some (1 : Rat) := by
  constructor <;> decide +kernel

/-! ## result accessors -/

/-- **The latest result is that of the most recent successful optimisation.** -/
theorem latest_is_last_success {R : Type} (cfg : Cfg) (hc : cfg.latestIsLast = true)
    (pre post : List (Bool × R)) (r : R) (hpost : ∀ e ∈ post, e.1 = false) :
    latest cfg (pre ++ (true, r) :: post) = some r := by
  have hfp : post.filter (fun e => e.1) = [] := by
    apply List.filter_eq_nil_iff.mpr
    intro e he; simp [hpost e he]
  simp [latest, hc, List.filter_append, hfp]

/-- whatever it returns is the result of a *successful* entry of that factor's history -/
theorem latest_is_success {R : Type} (cfg : Cfg) (h : List (Bool × R)) (r : R)
    (hl : latest cfg h = some r) : (true, r) ∈ h := by
  unfold latest at hl
  have hmem : r ∈ (h.filter (fun e => e.1)).map (fun e => e.2) := by
    by_cases hc : cfg.latestIsLast = true
    · simp only [hc, if_true] at hl
      exact List.mem_of_getLast? hl
    · have hc' : cfg.latestIsLast = false := by simpa using hc
      simp only [hc'] at hl
      exact List.mem_of_head? hl
  obtain ⟨e, he, rfl⟩ := List.mem_map.mp hmem
  obtain ⟨hin, hs⟩ := List.mem_filter.mp he
  obtain ⟨b, x⟩ := e
  simp only at hs
  subst hs
  exact hin

/-- it is absent (`HistoryException`) exactly when no optimisation of the factor succeeded -/
theorem latest_none_iff {R : Type} (cfg : Cfg) (h : List (Bool × R)) :
    latest cfg h = none ↔ ∀ e ∈ h, e.1 = false := by
  unfold latest
  have key : ((h.filter (fun e => e.1)).map (fun e => e.2) = []) ↔ ∀ e ∈ h, e.1 = false := by
    rw [List.map_eq_nil_iff, List.filter_eq_nil_iff]
    constructor
    · intro hh e he; simpa using hh e he
    · intro hh e he; simpa using hh e he
  by_cases hc : cfg.latestIsLast = true
  · simp only [hc, if_true, List.getLast?_eq_none_iff]; exact key
  · have hc' : cfg.latestIsLast = false := by simpa using hc
    simp only [hc', Bool.false_eq_true, if_false, List.head?_eq_none_iff]; exact key

/-- `EPResult.latest_results`: one entry per model factor, each that factor's latest result -/
theorem latest_results_per_factor {R : Type} (cfg : Cfg) (hist : Nat → List (Bool × R)) (n f : Nat)
    (hf : f < n) : (latestResults cfg hist n)[f]? = some (latest cfg (hist f)) := by
  simp [latestResults, hf]

/-- **Pinned commit.** `latest_result` returned the *first* successful result. -/
theorem latest_refuted_when_first :
    latest { latestIsLast := false } [(true, 1), (true, 2)] = some 1 ∧
    latest { latestIsLast := true } [(true, 1), (true, 2)] = some 2 := by
  constructor <;> rfl

/-! ## non-vacuity: concrete states meeting the hypotheses -/

/-- two factors share variable 0; factor 0 is fully updated with `q = 5`: the global approximation
becomes 5 -/
example :
    let fs := [0, 1]
    let s : State Rat := [(0, [(0, 1)]), (1, [(0, 2)])]
    global fs (project (fun _ => true) s (approx fs s 0) [(0, 5)] (.scalar 1)) 0 = 5 := by
  decide +kernel

/-- the same with damping 1/2: the global approximation moves half way from 3 to 5 -/
example :
    let fs := [0, 1]
    let s : State Rat := [(0, [(0, 1)]), (1, [(0, 2)])]
    global fs (project (fun _ => true) s (approx fs s 0) [(0, 5)] (.scalar (1 / 2))) 0 = 4 := by
  decide +kernel

/-- an improper projection (`q` less precise than the cavity) keeps the previous message -/
example :
    let fs := [0, 1]
    let s : State Rat := [(0, [(0, -1)]), (1, [(0, -2)])]
    (project (fun e => e < 0) s (approx fs s 0) [(0, -1)] (.scalar 1)).get 0 0 = some (-1) := by
  decide +kernel

/-- a declarative graph with prior factors: three factors hold prior 0 (two model factors and its
prior factor), messages start as `prior ** (1/2)` and every cavity is the prior -/
example :
    let d : Decl := { places := [[0, 0, 1], [0]], ipf := true }
    d.count {} 0 = 3 ∧ cavityOpt d.factors (d.init {} (fun _ => (7 : Rat))) 0 0 = some 7
      ∧ cavityOpt d.factors (d.init {} (fun _ => (7 : Rat))) 3 1 = some 7 := by
  decide +kernel

/-! ## array-valued messages: plates -/

/-- model = own message × cavity for array-valued messages, element by element (the general theorem
at `G := I → G`) -/
theorem plate_model_eq_message_times_cavity {I : Type} (fs : List Nat) (s : State (I → G))
    (f v : Nat) (m : I → G) (h : s.get f v = some m) (i : I) :
    (modelOpt fs s f v).map (fun x => x i) = some (m i + cavity fs s f v i) := by
  rw [(model_eq_message_times_cavity fs s f v m h).1]
  rfl

/-- element `i` of a factor approximation over arrays is the factor approximation of the element-`i`
state -/
theorem plate_approx_is_elementwise {I : Type} (fs : List Nat) (s : State (I → G)) (f : Nat) (i : I) :
    sliceApprox i (approx fs s f) = approx fs (sliceState i s) f :=
  approx_slice i fs s f

theorem plate_global_is_elementwise {I : Type} (fs : List Nat) (s : State (I → G)) (v : Nat) (i : I) :
    global fs s v i = global fs (sliceState i s) v :=
  (total_slice i s v fs).symm

/-- **An update of array-valued messages (improper elements replaced one by one, `np.where`) is the
scalar update of every element**: plates are independent copies of the scalar bookkeeping. -/
theorem plate_update_is_elementwise {I : Type} (valid : G → Bool) (fs : List Nat) (s : State (I → G))
    (f : Nat) (q : Field (I → G)) (δ : Delta) (i : I) :
    sliceState i (projectArr valid s (approx fs s f) q δ) =
      project valid (sliceState i s) (approx fs (sliceState i s) f) (sliceField i q) δ := by
  rw [projectArr_slice, approx_slice]

/-- an update changes only that factor's (array-valued) message -/
theorem plate_update_only_that_factor {I : Type} (valid : G → Bool) (s : State (I → G))
    (a : Approx (I → G)) (q : Field (I → G)) (δ : Delta) (g v : Nat) (hg : g ≠ a.f) :
    (projectArr valid s a q δ).get g v = s.get g v := by
  show (if a.f == g then _ else s.get g v) = s.get g v
  have : (a.f == g) = false := by simpa using fun e => hg e.symm
  rw [this]; rfl

/-- **Full update, element by element**: every element whose projection is proper makes the global
approximation equal the newly fitted distribution there (whatever happens to the other elements). -/
theorem plate_full_update_sets_global {I : Type} (fs : List Nat) (valid : G → Bool)
    (s : State (I → G)) (f v : Nat) (q : Field (I → G)) (δ : Delta) (qv : I → G) (i : I)
    (hnd : fs.Nodup) (hf : f ∈ fs) (hheld : (s.get f v).isSome) (hq : lookup q v = some qv)
    (hδ : δ.at v = none) (hvalid : valid (qv i - cavity fs s f v i) = true) :
    global fs (projectArr valid s (approx fs s f) q δ) v i = qv i := by
  rw [plate_global_is_elementwise, plate_update_is_elementwise]
  apply full_update_sets_global fs valid (sliceState i s) f v (sliceField i q) δ (qv i) hnd hf
  · rw [get_sliceState]; simpa using hheld
  · rw [lookup_sliceField, hq]; rfl
  · exact hδ
  · have hc : cavity fs (sliceState i s) f v = cavity fs s f v i := total_slice i s v _
    rw [hc]; exact hvalid

/-- damped update, element by element -/
theorem plate_damped_update_global {I : Type} (fs : List Nat) (valid : G → Bool)
    (s : State (I → G)) (f v : Nat) (q : Field (I → G)) (δ : Delta) (qv m : I → G) (d : Rat) (i : I)
    (hnd : fs.Nodup) (hf : f ∈ fs) (hheld : s.get f v = some m) (hq : lookup q v = some qv)
    (hδ : δ.at v = some d)
    (hvalid : valid ((d • qv i + (1 - d) • m i) - d • cavity fs s f v i) = true) :
    global fs (projectArr valid s (approx fs s f) q δ) v i = d • qv i + (1 - d) • global fs s v i := by
  rw [plate_global_is_elementwise, plate_update_is_elementwise, plate_global_is_elementwise]
  apply damped_update_global fs valid (sliceState i s) f v (sliceField i q) δ (qv i) (m i) d hnd hf
  · rw [get_sliceState, hheld]; rfl
  · rw [lookup_sliceField, hq]; rfl
  · exact hδ
  · have hc : cavity fs (sliceState i s) f v = cavity fs s f v i := total_slice i s v _
    rw [hc]; exact hvalid

/-- an improper element keeps that element of the previous message -/
theorem plate_improper_element_keeps_message {I : Type} (fs : List Nat) (valid : G → Bool)
    (s : State (I → G)) (f v : Nat) (q : Field (I → G)) (δ : Delta) (qv m : I → G) (i : I)
    (hheld : s.get f v = some m) (hq : lookup q v = some qv)
    (hinvalid : valid (candidate (approx fs s f) (δ.at v) v qv i) = false) :
    ((projectArr valid s (approx fs s f) q δ).get f v).map (fun x => x i) = some (m i) := by
  rw [← get_sliceState, plate_update_is_elementwise]
  apply improper_projection_keeps_message fs valid (sliceState i s) f v (sliceField i q) δ (qv i) (m i)
  · rw [get_sliceState, hheld]; rfl
  · rw [lookup_sliceField, hq]; rfl
  · rw [← approx_slice, candidate_slice]; exact hinvalid

/-! ## batches: `EPMeanFieldSubset` and plate indexing -/

/-- **Batch approximation**: the share `message ** scale` the factor is fitted with times the cavity
(the other factors' messages times the rest of the factor's own message) is the model distribution. -/
theorem subset_model_eq_message_times_cavity (fs : List Nat) (s : State G) (scale : Nat → Rat)
    (f v : Nat) (m c : G) (h : s.get f v = some m) (hc : cavityOpt fs s f v = some c) :
    (subApprox fs s scale f).model v =
      some (val ((subApprox fs s scale f).old v) + val ((subApprox fs s scale f).cavity v)) := by
  have hm : modelOpt fs s f v = some (m + c) := by simp [modelOpt, h, hc, val]
  simp only [subApprox, h, hc, hm]
  by_cases hs : scale v < 1
  · simp only [hs, if_true, Option.map_some, val_some]
    rw [EtaSpace.add_comm c, ← EtaSpace.add_assoc, share_split]
  · simp only [hs, if_false, Option.map_some, val_some]

omit [EtaSpace G] in
/-- merging an unchanged batch back changes nothing -/
theorem merge_subset_self (axes : List Axis) (old : Nat → G) :
    mergeArr (some axes) old (subArr (some axes) old) = old := by
  funext i
  simp only [mergeArr, subArr]
  cases h : posOf axes i with
  | none => rfl
  | some k => simp [(posOf_some axes i k h).1]

omit [EtaSpace G] in
/-- **Merging a batch leaves every element outside the batch as it was.** -/
theorem merge_untouched_elements (axes : List Axis) (old new : Nat → G) (i : Nat)
    (h : ∀ k, k < subSize axes → flatIdx axes k ≠ i) : mergeArr (some axes) old new i = old i := by
  simp only [mergeArr]
  cases hp : posOf axes i with
  | none => rfl
  | some k => exact absurd (posOf_some axes i k hp).1 (h k (posOf_some axes i k hp).2)

omit [EtaSpace G] in
/-- **… and the batch's elements are the batch's messages** (positions selected once) -/
theorem subset_of_merge (axes : List Axis) (old new : Nat → G) (k : Nat) (hk : k < subSize axes)
    (hinj : ∀ k', k' < subSize axes → flatIdx axes k' = flatIdx axes k → k' = k) :
    subArr (some axes) (mergeArr (some axes) old new) k = new k := by
  simp only [mergeArr, subArr]
  obtain ⟨k', hk'⟩ := posOf_isSome_of_hit axes k hk
  rw [hk']
  have h := posOf_some axes _ k' hk'
  simp only [hinj k' h.2 h.1]

omit [EtaSpace G] in
/-- a variable none of whose plates is selected is exchanged as a whole -/
theorem merge_whole_when_no_plate_selected (P : Plates) (ix : PIndex) (v : Nat) (old new : Nat → G)
    (h : (P.dims v).any (fun p => (lookup ix p).isSome) = false) :
    mergeArr (axesOf P ix v) old new = new ∧ subArr (axesOf P ix v) old = old := by
  simp [axesOf, h, mergeArr, subArr]

/-! ## `log_norm` -/

/-- what the code does: the `log_norm` of a newly fitted distribution does not reach the factor's
stored mean field -/
theorem log_norm_dropped_by_projection (l : Rat) : projectedLogNorm l = 0 := rfl

theorem log_norms_after_updates_zero (fs : List Nat) (ups : List (Nat × Rat)) :
    ∀ p ∈ logNormsAfter fs ups, p.2 = 0 := by
  intro p hp
  simp only [logNormsAfter, List.mem_map] at hp
  obtain ⟨f, _, rfl⟩ := hp
  cases (ups.filter (fun u => u.1 == f)).getLast? <;> rfl

/-- two variables over a plate of size 2 shared by two factors; element 1 of variable 0 of factor 0
is fully updated to 5, element 0 (improper: `q` less precise than the cavity) keeps its message -/
example :
    let fs := [0, 1]
    let s : State (Nat → Rat) := [(0, [(0, fun i => if i = 0 then -1 else -1)]), (1, [(0, fun _ => -2)])]
    let q : Field (Nat → Rat) := [(0, fun i => if i = 0 then -1 else -5)]
    let s' := projectArr (fun e => e < 0) s (approx fs s 0) q (.scalar 1)
    global fs s' 0 1 = -5 ∧ (s'.get 0 0).map (fun x => x 0) = some (-1) := by
  decide +kernel

/-- a 2 x 3 array indexed at rows [1] (`np.ix_([1], [0, 1, 2])`): flat positions 3, 4, 5 -/
example :
    let axes : List Axis := [{ seq := [1], full := 2 }, { seq := [0, 1, 2], full := 3 }]
    (List.range (subSize axes)).map (flatIdx axes) = [3, 4, 5] := by
  decide +kernel

end AF.C18
