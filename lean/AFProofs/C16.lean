import AFProofs.Lemmas.Grid
import AFProofs.Lemmas.GridPhys
import AFProofs.Lemmas.GridComp

/-!
# C16 — grid searches and sensitivity mapping: cells, tiling, result order, reported shape/limits

Property theorems about the `Grid` model (`AFModel/Grid.lean`), for every number of dimensions, every
number of steps, every arithmetic `N : Num V` (counting / order / data movement) and for the exact
layer `ratNum` (tiling). The model is tied to /repo by `harness/c16.py`.

`Forall₂ R l₁ l₂` (defined in `Lemmas/Grid.lean`, core Lean has none) says the lists have the same
length and are related entry by entry (`forall₂_iff_getElem`).

Finding flags of `Cfg`: the main theorems are about the repaired behaviour (`flag = true`); the
behaviour of the pinned commit (`flag = false`) is covered by the `…_partial` theorems under an
explicit decidable guard and by the `…_refuted_when_…` witnesses.
-/

namespace AF.C16
open AF.Grid

variable {V : Type}

/-! ## counting and order -/

/-- counting: the lattice over per-dimension counts `ns` has `∏ ns` index tuples -/
theorem lattice_length (ns : List Nat) : (lattice ns).length = prod ns :=
  Grid.lattice_length ns

/-- counting: one cell per lattice point (grid search job list) -/
theorem cells_count (N : Num V) (dims : List (Dim V)) :
    (gridCells N dims).length = prod (counts dims) :=
  map_lattice_length dims _

/-- counting: `make_lists` returns one unit list per lattice point -/
theorem unitLists_count (N : Num V) (centre : Bool) (dims : List (Dim V)) :
    (unitLists N centre dims).length = prod (counts dims) :=
  map_lattice_length dims _

/-- counting: sensitivity mapping makes one perturbation cell per lattice point -/
theorem sensCells_count (N : Num V) (scale : V) (dims : List (Dim V)) :
    (sensCells N scale dims).length = prod (counts dims) :=
  map_lattice_length dims _

/-- counting, any flag: `d` grid parameters give `count ^ d` cells -/
theorem grid_count_general (N : Num V) (cfg : Cfg) (n : Nat) (ranges : List (V × V)) :
    (gridModel N cfg n ranges).length = countOf cfg n ^ ranges.length := by
  rw [gridModel, cells_count, counts_gridDims, prod_replicate]

/-- **"a grid search over d parameters with n steps fits exactly n^d cells"** -/
theorem grid_fits_n_pow_d (N : Num V) (cfg : Cfg) (h : cfg.integerSteps = true) (n : Nat)
    (ranges : List (V × V)) : (gridModel N cfg n ranges).length = n ^ ranges.length := by
  rw [grid_count_general]; simp [countOf, h]

example : (gridModel ratNum {} 3 [(0, 1), (2, 5)]).length = 3 ^ 2 :=
  grid_fits_n_pow_d ratNum {} rfl 3 _

/-- sensitivity mapping, per-dimension step counts: the number of cells is the product of the counts -/
theorem sens_count (N : Num V) (cfg : Cfg) (h : cfg.integerSteps = true) (scale : V)
    (dims : List ((V × V) × Nat)) :
    (sensCells N scale (sensDims N cfg dims)).length = prod (dims.map (·.2)) := by
  rw [sensCells_count, counts_sensDims]; simp [countOf, h]

/-- sensitivity mapping: the reported shape is the tuple of per-dimension step counts (so with
`sens_count` its product is the number of cells) -/
theorem sens_shape (N : Num V) (cfg : Cfg) (dims : List ((V × V) × Nat)) :
    sensShape (sensDims N cfg dims) = dims.map (·.2) :=
  sensShape_sensDims N cfg dims

example : (sensCells ratNum 1 (sensDims ratNum {} [((0, 1), 2), ((2, 5), 3)])).length = 6 ∧
    sensShape (sensDims ratNum {} [(((0 : Rat), (1 : Rat)), 2), ((2, 5), 3)]) = [2, 3] :=
  ⟨sens_count ratNum {} rfl 1 _, rfl⟩

/-- row-major: every digit of position `k` is below its dimension's count -/
theorem digits_lt (ns : List Nat) (k : Nat) (hk : k < prod ns) :
    Forall₂ (· < ·) (digits ns k) ns :=
  Grid.digits_lt ns k hk

/-- row-major: `ravel (unravel k) = k` -/
theorem index_digits (ns : List Nat) (k : Nat) (hk : k < prod ns) :
    index ns (digits ns k) = k :=
  Grid.index_digits ns k hk

/-- row-major: `unravel (ravel idx) = idx` for every in-range index tuple -/
theorem digits_index (ns idx : List Nat) (h : Forall₂ (· < ·) idx ns) :
    index ns idx < prod ns ∧ digits ns (index ns idx) = idx :=
  ⟨index_lt ns idx h, Grid.digits_index ns idx h⟩

/-- **row-major order**: the `k`-th lattice point is the mixed-radix expansion of `k`, first
dimension slowest -/
theorem lattice_row_major (ns : List Nat) (k : Nat) (hk : k < prod ns) :
    (lattice ns)[k]? = some (digits ns k) :=
  Grid.lattice_row_major ns k hk

example : lattice [2, 3] = [[0, 0], [0, 1], [0, 2], [1, 0], [1, 1], [1, 2]] ∧
    digits [2, 3] 4 = [1, 1] ∧ index [2, 3] [1, 1] = 4 := by decide

/-- every in-range index tuple is a lattice point and nothing else is -/
theorem mem_lattice (ns idx : List Nat) : idx ∈ lattice ns ↔ Forall₂ (· < ·) idx ns :=
  Grid.mem_lattice ns idx

/-- no index tuple is fitted twice -/
theorem lattice_nodup (ns : List Nat) : (lattice ns).Nodup :=
  Grid.lattice_nodup ns

/-- the `k`-th grid-search job is the cell with the row-major digits of `k` -/
theorem cells_row_major (N : Num V) (dims : List (Dim V)) (k : Nat) (hk : k < prod (counts dims)) :
    (gridCells N dims)[k]? = some (cellAt (gridCellDim N) dims (digits (counts dims) k)) :=
  map_lattice_row_major dims _ k hk

/-- the `k`-th reported unit list (`physical_lower_limits_lists` etc.) is that of the same digits -/
theorem unitLists_row_major (N : Num V) (centre : Bool) (dims : List (Dim V)) (k : Nat)
    (hk : k < prod (counts dims)) :
    (unitLists N centre dims)[k]? = some (cellAt (unitValue N centre) dims (digits (counts dims) k)) :=
  map_lattice_row_major dims _ k hk

/-- the `k`-th sensitivity job is the perturbation cell with the row-major digits of `k` -/
theorem sensCells_row_major (N : Num V) (scale : V) (dims : List (Dim V)) (k : Nat)
    (hk : k < prod (counts dims)) :
    (sensCells N scale dims)[k]? = some (cellAt (sensCellDim N scale) dims (digits (counts dims) k)) :=
  map_lattice_row_major dims _ k hk

/-- entry `[i₁,…,i_d]` of the reshaped (`native`) array is the cell with those per-dimension indices -/
theorem native_entry (ns idx : List Nat) (h : Forall₂ (· < ·) idx ns) :
    (lattice ns)[index ns idx]? = some idx :=
  Grid.native_entry ns idx h

example : (lattice [2, 3, 4])[index [2, 3, 4] [1, 2, 3]]? = some [1, 2, 3] :=
  native_entry _ _ (.cons (by decide) (.cons (by decide) (.cons (by decide) .nil)))

/-! ## tiling of one dimension (exact arithmetic); holds for every flag setting -/

/-- cover, left end: the first cell starts at the prior's lower limit -/
theorem tile_first (cfg : Cfg) (lo hi : Rat) (n : Nat) :
    (gridCellDim ratNum (mkDim ratNum cfg lo hi n) 0).1 = lo := by
  rw [cell_fst, gridPt_zero]

/-- cover, right end: the last cell ends at the prior's upper limit -/
theorem tile_last (cfg : Cfg) (lo hi : Rat) (n k : Nat) (hk : k + 1 = n) :
    (gridCellDim ratNum (mkDim ratNum cfg lo hi n) k).2 = hi := by
  rw [cell_snd, hk, gridPt_last lo hi n (by omega)]

/-- contiguous: each cell ends where the next one starts -/
theorem tile_adjacent (cfg : Cfg) (lo hi : Rat) (n k : Nat) :
    (gridCellDim ratNum (mkDim ratNum cfg lo hi n) k).2
      = (gridCellDim ratNum (mkDim ratNum cfg lo hi n) (k + 1)).1 := by
  rw [cell_snd, cell_fst]

/-- every cell has positive width -/
theorem tile_width (cfg : Cfg) (lo hi : Rat) (n k : Nat) (hn : 0 < n) (hlt : lo < hi) :
    (gridCellDim ratNum (mkDim ratNum cfg lo hi n) k).1
      < (gridCellDim ratNum (mkDim ratNum cfg lo hi n) k).2 := by
  rw [cell_fst, cell_snd]; exact gridPt_strict lo hi n hn hlt k

/-- non-overlapping: an earlier cell ends no later than a later one starts -/
theorem tile_ordered (cfg : Cfg) (lo hi : Rat) (n j k : Nat) (hle : lo ≤ hi) (hjk : j < k) :
    (gridCellDim ratNum (mkDim ratNum cfg lo hi n) j).2
      ≤ (gridCellDim ratNum (mkDim ratNum cfg lo hi n) k).1 := by
  rw [cell_fst, cell_snd]; exact gridPt_mono lo hi n hle hjk

/-- cover: every point of the prior's range lies in one of the `n` cells -/
theorem tile_cover_dim (cfg : Cfg) (lo hi : Rat) (n : Nat) (hn : 0 < n) (x : Rat)
    (hx : lo ≤ x ∧ x ≤ hi) :
    ∃ k, k < n ∧ (gridCellDim ratNum (mkDim ratNum cfg lo hi n) k).1 ≤ x ∧
      x ≤ (gridCellDim ratNum (mkDim ratNum cfg lo hi n) k).2 := by
  have h0 : gridPt lo hi n 0 ≤ x := by rw [gridPt_zero]; exact hx.1
  have h1 : x ≤ gridPt lo hi n n := by rw [gridPt_last lo hi n hn]; exact hx.2
  obtain ⟨k, hk, hk1, hk2⟩ := chain_cover (gridPt lo hi n) x n hn h0 h1
  exact ⟨k, hk, by rw [cell_fst]; exact hk1, by rw [cell_snd]; exact hk2⟩

example : (List.range 3).map (gridCellDim ratNum (mkDim ratNum {} 2 5 3))
    = [(2, 3), (3, 4), (4, 5)] := by decide +kernel

/-! ## tiling in d dimensions (exact arithmetic), per-dimension step counts allowed -/

/-- cover, any per-dimension counts: every point of the box lies in a fitted cell -/
theorem tile_cover_dims (cfg : Cfg) (h : cfg.integerSteps = true) (dims : List (Dim Rat))
    (hd : ∀ d ∈ dims, ∃ lo hi n, 0 < n ∧ d = mkDim ratNum cfg lo hi n) (x : List Rat)
    (hx : Forall₂ (fun d xi => d.lo ≤ xi ∧ xi ≤ d.hi) dims x) :
    ∃ cell ∈ gridCells ratNum dims, Forall₂ (fun c xi => c.1 ≤ xi ∧ xi ≤ c.2) cell x :=
  cover_cells cfg h dims hd x hx

/-- non-overlapping, any per-dimension counts: two different fitted cells are separated (share at
most a face) in some dimension -/
theorem tile_disjoint_dims (cfg : Cfg) (dims : List (Dim Rat))
    (hd : ∀ d ∈ dims, ∃ lo hi n, lo ≤ hi ∧ d = mkDim ratNum cfg lo hi n) :
    (gridCells ratNum dims).Pairwise fun a b =>
      ∃ i, ∃ (ha : i < a.length) (hb : i < b.length), a[i].2 ≤ b[i].1 ∨ b[i].2 ≤ a[i].1 :=
  cells_pairwise_disjoint cfg dims hd

/-- **cover**: the cells of `GridSearch(number_of_steps = n)` cover the original box -/
theorem tile_cover (cfg : Cfg) (h : cfg.integerSteps = true) (n : Nat) (hn : 0 < n)
    (ranges : List (Rat × Rat)) (x : List Rat)
    (hx : Forall₂ (fun r xi => r.1 ≤ xi ∧ xi ≤ r.2) ranges x) :
    ∃ cell ∈ gridModel ratNum cfg n ranges, Forall₂ (fun c xi => c.1 ≤ xi ∧ xi ≤ c.2) cell x := by
  refine tile_cover_dims cfg h (gridDims ratNum cfg n ranges) ?_ x ?_
  · intro d hdm
    obtain ⟨r, _, rfl⟩ := List.mem_map.mp hdm
    exact ⟨r.1, r.2, n, hn, rfl⟩
  · exact (forall₂_map_left _ ranges x).mpr hx

/-- **non-overlapping**: two different cells of a grid search have disjoint interiors -/
theorem tile_disjoint (cfg : Cfg) (n : Nat) (ranges : List (Rat × Rat))
    (hr : ∀ r ∈ ranges, r.1 ≤ r.2) :
    (gridModel ratNum cfg n ranges).Pairwise fun a b =>
      ∃ i, ∃ (ha : i < a.length) (hb : i < b.length), a[i].2 ≤ b[i].1 ∨ b[i].2 ≤ a[i].1 := by
  refine tile_disjoint_dims cfg (gridDims ratNum cfg n ranges) ?_
  intro d hdm
  obtain ⟨r, hrm, rfl⟩ := List.mem_map.mp hdm
  exact ⟨r.1, r.2, n, hr r hrm, rfl⟩

example : ∃ cell ∈ gridModel ratNum {} 3 [(0, 1), (2, 5)],
    Forall₂ (fun c xi => c.1 ≤ xi ∧ xi ≤ c.2) cell [1 / 2, 9 / 2] :=
  tile_cover {} rfl 3 (by decide) _ _
    (.cons (by decide +kernel) (.cons (by decide +kernel) .nil))

example : gridModel ratNum {} 2 [(0, 1), (2, 4)] =
    [[(0, 1 / 2), (2, 3)], [(0, 1 / 2), (3, 4)], [(1 / 2, 1), (2, 3)], [(1 / 2, 1), (3, 4)]] := by
  decide +kernel

/-! ## all other parameters keep their priors -/

/-- a place whose prior is not a grid parameter keeps its prior in every cell's model -/
theorem others_keep_priors {P} (gridIds : List Nat) (places : List (P × Nat)) (p : P) (id : Nat)
    (hm : (p, id) ∈ places) (hn : id ∉ gridIds) :
    (p, Place.keep id) ∈ placeMap gridIds places :=
  List.mem_map.mpr ⟨(p, id), hm, by simp [placeOf_not_mem gridIds id hn]⟩

/-- every place of the `i`-th grid parameter (shared places included) gets dimension `i`'s prior -/
theorem grid_places_replaced {P} (gridIds : List Nat) (places : List (P × Nat)) (p : P) (i id : Nat)
    (hnd : gridIds.Nodup) (hi : gridIds[i]? = some id) (hm : (p, id) ∈ places) :
    (p, Place.dim i) ∈ placeMap gridIds places :=
  List.mem_map.mpr ⟨(p, id), hm, by simp [placeOf_mem gridIds i id hnd hi]⟩

example : placeMap [7, 3] [("a", 7), ("b", 5), ("c", 3), ("d", 7)]
    = [("a", .dim 0), ("b", .keep 5), ("c", .dim 1), ("d", .dim 0)] := by decide

/-! ## result lists are in job order regardless of completion order -/

/-- **grid search**: whatever the order in which the cells finish, entry `k` of the result list is
the result of job `k` -/
theorem builder_order_independent {R} (total : Nat) (res : Nat → R) (arrivals : List (Nat × R))
    (h : arrivals.Perm ((List.range total).map fun k => (k, res k))) :
    sampleSummaries total arrivals = (List.range total).map fun k => some (res k) := by
  simp only [sampleSummaries]
  apply List.map_congr_left
  intro k hk
  have hp : arrivals.reverse.Perm ((List.range total).map fun k => (k, res k)) :=
    (List.reverse_perm arrivals).trans h
  apply lookup_of_mem_nodup
  · have := (hp.map (·.1)).nodup_iff.mpr (by rw [canonical_keys]; exact List.nodup_range)
    exact this
  · exact hp.mem_iff.mpr (List.mem_map.mpr ⟨k, hk, rfl⟩)

example : sampleSummaries 3 [(2, "c"), (0, "a"), (1, "b")] = [some "a", some "b", some "c"] := by
  decide

/-- interrupted search: entry `k` is job `k`'s result if it has arrived … -/
theorem builder_partial {R} (total : Nat) (arrivals : List (Nat × R))
    (hnd : (arrivals.map (·.1)).Nodup) (k : Nat) (hk : k < total) :
    (sampleSummaries total arrivals)[k]? = some (arrivals.lookup k) := by
  rw [sampleSummaries_getElem? total arrivals k hk, lookup_reverse_of_nodup arrivals k hnd]

/-- … and the placeholder if it has not -/
theorem builder_placeholder {R} (total : Nat) (arrivals : List (Nat × R)) (k : Nat)
    (hk : k < total) (hn : k ∉ arrivals.map (·.1)) :
    (sampleSummaries total arrivals)[k]? = some none := by
  rw [sampleSummaries_getElem? total arrivals k hk]
  rw [lookup_none_of_not_mem arrivals.reverse k (by simpa [List.map_reverse] using hn)]

/-- a job number that arrives twice reports its latest arrival -/
theorem builder_last_write_wins {R} (total : Nat) (pre post : List (Nat × R)) (k : Nat) (v : R)
    (hk : k < total) (hn : k ∉ post.map (·.1)) :
    (sampleSummaries total (pre ++ (k, v) :: post))[k]? = some (some v) := by
  rw [sampleSummaries_getElem? total _ k hk, lookup_reverse_last_write pre post k v hn]

example : sampleSummaries 3 [(2, "c"), (0, "a"), (2, "c'")] = [some "a", none, some "c'"] := by
  decide

/-- **sensitivity mapping**: whatever the order in which jobs finish, the collected results are in
job-number order -/
theorem sens_order_independent {R} (total : Nat) (res : Nat → R) (arrivals : List (Nat × R))
    (h : arrivals.Perm ((List.range total).map fun k => (k, res k))) :
    collectSorted arrivals = (List.range total).map fun k => (k, res k) := by
  have hp := (collectSorted_perm arrivals).trans h
  refine List.Perm.eq_of_pairwise (le := fun a b => numLe a b = true) ?_
    (collectSorted_sorted arrivals) (canonical_sorted total res) hp
  intro a b ha hb hab hba
  obtain ⟨i, _, rfl⟩ := List.mem_map.mp (hp.mem_iff.mp ha)
  obtain ⟨j, _, rfl⟩ := List.mem_map.mp hb
  simp only [numLe, decide_eq_true_eq] at hab hba
  have : i = j := by omega
  rw [this]

example : collectSorted [(2, 20), (0, 0), (1, 10)] = [(0, 0), (1, 10), (2, 20)] :=
  sens_order_independent 3 (fun k => k * 10) [(2, 20), (0, 0), (1, 10)] (by decide)

/-! ## the reported shape and limits -/

/-- the exact integer root recovers the side length from the number of cells -/
theorem iroot_pow (n d : Nat) (hd : 0 < d) : iroot (n ^ d) d = n :=
  Grid.iroot_pow n d hd

/-- **"the result reports shape (n,…,n)"** -/
theorem shape_exact (N : Num V) (cfg : Cfg) (h1 : cfg.integerSteps = true)
    (h2 : cfg.shapeExact = true) (n : Nat) (ranges : List (V × V)) (hd : ranges ≠ []) :
    shapeOf cfg (gridModel N cfg n ranges).length ranges.length
      = List.replicate ranges.length n := by
  rw [grid_fits_n_pow_d N cfg h1]
  have : 0 < ranges.length := List.length_pos_iff.mpr hd
  simp [shapeOf, sideOf, h2, Grid.sideRound_pow n _ this]

/-- the reported shape accounts for every fitted cell -/
theorem shape_prod (N : Num V) (cfg : Cfg) (h1 : cfg.integerSteps = true)
    (h2 : cfg.shapeExact = true) (n : Nat) (ranges : List (V × V)) (hd : ranges ≠ []) :
    prod (shapeOf cfg (gridModel N cfg n ranges).length ranges.length)
      = (gridModel N cfg n ranges).length := by
  rw [shape_exact N cfg h1 h2 n ranges hd, prod_replicate, grid_fits_n_pow_d N cfg h1]

example : shapeOf {} (gridModel ratNum {} 5 [(0, 1), (0, 1), (2, 5)]).length 3 = [5, 5, 5] :=
  shape_exact ratNum {} rfl rfl 5 [(0, 1), (0, 1), (2, 5)] (by simp)

/-- **limits consistent with the cells fitted** (any arithmetic, bit for bit): the limits of the
`k`-th fitted cell are `lo + u·w` and `lo + (u + step)·w` of the `k`-th reported lower unit list -/
theorem reported_lower_is_fitted (N : Num V) (dims : List (Dim V)) :
    gridCells N dims = (unitLists N false dims).map fun us =>
      List.zipWith (fun d u => (N.add d.lo (N.mul u (N.sub d.hi d.lo)),
        N.add d.lo (N.mul (N.add u d.step) (N.sub d.hi d.lo)))) dims us := by
  simp only [gridCells, unitLists, List.map_map]
  apply List.map_congr_left
  intro idx _
  simp only [Function.comp, cellAt, zipWith_fuse]
  rfl

/-- in exact arithmetic the reported upper unit limit is lower + step (the clamp at 1 is a no-op,
whatever the flags) -/
theorem reported_upper_exact (cfg cfg' : Cfg) (lo hi : Rat) (n k : Nat) (hk : k < n) :
    upperUnit ratNum cfg' n (unitValue ratNum false (mkDim ratNum cfg lo hi n) k)
      = unitValue ratNum false (mkDim ratNum cfg lo hi n) k + (mkDim ratNum cfg lo hi n).step :=
  upperUnit_exact cfg cfg' lo hi n k hk

/-- hence the reported physical limits of a cell are exactly the limits of the prior it was fitted with -/
theorem reported_limits_are_fitted (cfg cfg' : Cfg) (lo hi : Rat) (n k : Nat) (hk : k < n) :
    (physical ratNum (mkDim ratNum cfg lo hi n)
        (unitValue ratNum false (mkDim ratNum cfg lo hi n) k),
     physical ratNum (mkDim ratNum cfg lo hi n)
        (upperUnit ratNum cfg' n (unitValue ratNum false (mkDim ratNum cfg lo hi n) k)))
      = gridCellDim ratNum (mkDim ratNum cfg lo hi n) k := by
  rw [reported_upper_exact cfg cfg' lo hi n k hk]
  rfl

example : upperUnit ratNum {} 4 (unitValue ratNum false (mkDim ratNum {} 2 5 4) 3) = 1 := by
  decide +kernel

/-- partial (known finding `C16-nonuniform-grid-prior-limits`): under the guard "the grid prior is
uniform" the physical limits the result reports are those of the prior the cell was fitted with -/
theorem reported_limits_partial (cfg cfg' : Cfg) (f : Rat → Rat) (lo hi : Rat) (n k : Nat) (hk : k < n) :
    (reportedPhysical ratNum true f (mkDim ratNum cfg lo hi n)
        (unitValue ratNum false (mkDim ratNum cfg lo hi n) k),
     reportedPhysical ratNum true f (mkDim ratNum cfg lo hi n)
        (upperUnit ratNum cfg' n (unitValue ratNum false (mkDim ratNum cfg lo hi n) k)))
      = gridCellDim ratNum (mkDim ratNum cfg lo hi n) k := by
  simp only [reportedPhysical, if_true]
  exact reported_limits_are_fitted cfg cfg' lo hi n k hk

/-- refuted without the guard: a non-uniform prior's own unit map (here `u ↦ u²` on `[0,1]`, a
monotone bijection like the log-uniform map) reports the first of two cells as `[0, 1/4]` while the
cell fitted is `[0, 1/2]` -/
theorem reported_limits_refuted_for_nonuniform_prior :
    reportedPhysical ratNum false (fun u => u * u) (mkDim ratNum {} 0 1 2)
        (upperUnit ratNum {} 2 (unitValue ratNum false (mkDim ratNum {} 0 1 2) 0))
      ≠ (gridCellDim ratNum (mkDim ratNum {} 0 1 2) 0).2 := by
  decide +kernel

/-! ## sensitivity mapping obeys the same rules -/

/-- with `perturb_scale = 1` the perturbation cell of one dimension is the grid-search cell … -/
theorem sens_cell_is_grid_cell (cfg : Cfg) (lo hi : Rat) (n k : Nat) (hk : k < n) :
    ((sensCellDim ratNum 1 (mkDim ratNum cfg lo hi n) k).lower,
     (sensCellDim ratNum 1 (mkDim ratNum cfg lo hi n) k).upper)
      = gridCellDim ratNum (mkDim ratNum cfg lo hi n) k :=
  sens_lower_upper cfg lo hi n k hk

/-- … so the sensitivity cells, with per-dimension step counts, are exactly the cells that
`tile_cover_dims` / `tile_disjoint_dims` speak about, in the same (row-major) order -/
theorem sens_cells_are_grid_cells (cfg : Cfg) (h : cfg.integerSteps = true)
    (dims : List ((Rat × Rat) × Nat)) :
    (sensCells ratNum 1 (sensDims ratNum cfg dims)).map (fun c => c.map fun s => (s.lower, s.upper))
      = gridCells ratNum (sensDims ratNum cfg dims) := by
  simp only [sensCells, gridCells, List.map_map]
  apply List.map_congr_left
  intro idx hidx
  refine sens_cellAt_eq cfg h _ idx ?_ ((Grid.mem_lattice _ _).mp hidx)
  intro d hdm
  obtain ⟨r, _, rfl⟩ := List.mem_map.mp hdm
  exact ⟨_, _, _, rfl⟩

/-- sensitivity mapping: the perturbation cells cover the box -/
theorem sens_tile_cover (cfg : Cfg) (h : cfg.integerSteps = true) (dims : List ((Rat × Rat) × Nat))
    (hn : ∀ r ∈ dims, 0 < r.2) (x : List Rat)
    (hx : Forall₂ (fun r xi => r.1.1 ≤ xi ∧ xi ≤ r.1.2) dims x) :
    ∃ cell ∈ (sensCells ratNum 1 (sensDims ratNum cfg dims)).map
        (fun c => c.map fun s => (s.lower, s.upper)),
      Forall₂ (fun c xi => c.1 ≤ xi ∧ xi ≤ c.2) cell x := by
  rw [sens_cells_are_grid_cells cfg h]
  refine tile_cover_dims cfg h _ ?_ x ((forall₂_map_left _ dims x).mpr hx)
  intro d hdm
  obtain ⟨r, hr, rfl⟩ := List.mem_map.mp hdm
  exact ⟨_, _, _, hn r hr, rfl⟩

/-- sensitivity mapping: two different perturbation cells have disjoint interiors -/
theorem sens_tile_disjoint (cfg : Cfg) (h : cfg.integerSteps = true)
    (dims : List ((Rat × Rat) × Nat)) (hr : ∀ r ∈ dims, r.1.1 ≤ r.1.2) :
    ((sensCells ratNum 1 (sensDims ratNum cfg dims)).map
        (fun c => c.map fun s => (s.lower, s.upper))).Pairwise fun a b =>
      ∃ i, ∃ (ha : i < a.length) (hb : i < b.length), a[i].2 ≤ b[i].1 ∨ b[i].2 ≤ a[i].1 := by
  rw [sens_cells_are_grid_cells cfg h]
  refine tile_disjoint_dims cfg _ ?_
  intro d hdm
  obtain ⟨r, hrm, rfl⟩ := List.mem_map.mp hdm
  exact ⟨_, _, _, hr r hrm, rfl⟩

/-- the perturbed value is the midpoint of its cell -/
theorem sens_centre_is_midpoint (cfg : Cfg) (lo hi : Rat) (n k : Nat) (hk : k < n) :
    (sensCellDim ratNum 1 (mkDim ratNum cfg lo hi n) k).centre
      = ((sensCellDim ratNum 1 (mkDim ratNum cfg lo hi n) k).lower +
         (sensCellDim ratNum 1 (mkDim ratNum cfg lo hi n) k).upper) / 2 :=
  sens_centre_mid cfg lo hi n k hk

example : (sensCells ratNum 1 (sensDims ratNum {} [((0, 1), 2), ((2, 5), 3)])).map
      (fun c => c.map fun s => (s.lower, s.centre, s.upper))
    = [[(0, 1 / 4, 1 / 2), (2, 5 / 2, 3)], [(0, 1 / 4, 1 / 2), (3, 7 / 2, 4)],
       [(0, 1 / 4, 1 / 2), (4, 9 / 2, 5)], [(1 / 2, 3 / 4, 1), (2, 5 / 2, 3)],
       [(1 / 2, 3 / 4, 1), (3, 7 / 2, 4)], [(1 / 2, 3 / 4, 1), (4, 9 / 2, 5)]] := by
  decide +kernel

/-- the column labels are in the order of the values (id order) -/
theorem headers_by_id (cfg : Cfg) (h : cfg.labelsById = true) (a b : List String) :
    headers cfg a b = a := by
  simp [headers, h]

/-! ## behaviour of the pinned commit (finding flags off): partial theorems and refutation witnesses -/

/-- `int(1 / (1 / 93)) = 92`: `make_lists` drops a lattice point -/
theorem steps_refuted_when_flag_off : countOf { integerSteps := false } 93 = 92 := by
  decide +kernel

/-- a 1-d grid search with 93 steps fits 92 cells, not 93 -/
theorem grid_count_refuted_when_flag_off :
    (gridModel floatNum { integerSteps := false } 93 [((0 : Float), (1 : Float))]).length = 92 := by
  rw [grid_count_general, steps_refuted_when_flag_off]; rfl

/-- partial (flag off): under the decidable guard `int(1/(1/n)) = n` the dimension has `n` points … -/
theorem steps_partial (n : Nat) (hg : stepsF n = n) : countOf { integerSteps := false } n = n := by
  simp [countOf, hg]

/-- … and the search fits `n^d` cells -/
theorem grid_fits_partial (N : Num V) (cfg : Cfg) (n : Nat) (hg : stepsF n = n)
    (ranges : List (V × V)) : (gridModel N cfg n ranges).length = n ^ ranges.length := by
  rw [grid_count_general]
  cases hc : cfg.integerSteps <;> simp [countOf, hc, hg]

example : stepsF 10 = 10 := by decide +kernel

/-- unclamped, the last reported upper unit limit of a 182-step search exceeds 1 in double arithmetic -/
theorem upper_overflow_refuted_when_unclamped :
    floatNum.le (upperUnit floatNum { upperClamp := false } 182
      (unitValue floatNum false (mkDim floatNum {} 0 1 182) 181)) (Float.ofNat 1) = false := by
  decide +kernel

/-- `int(4.999999999999999) = 4`: the truncated root of 125 cells in 3 dimensions is 4, not 5
(`0x4013FFFFFFFFFFFF` is libm's `pow(125, 1/3)`, see the `#guard` below) -/
theorem side_refuted_when_flag_off : sideTrunc (Float.ofBits 0x4013FFFFFFFFFFFF) = 4 := by
  decide +kernel

/-- partial (flag off): under the decidable guard that the truncated double root is `n`, the shape
is `(n,…,n)` -/
theorem shape_partial (cfg : Cfg) (total d n : Nat) (hg : sideF total d = n)
    (hc : cfg.shapeExact = false) : shapeOf cfg total d = List.replicate d n := by
  simp [shapeOf, sideOf, hc, hg]

/-- known finding `C16-prior-unit-end-outside-limits` (root cause: `Prior.value_for`, property C02): in
double arithmetic the uniform map of the unit end point 1 can land *above* the prior's upper limit
(`-534.9102058632687 + 1·(-236.83708131075005 − -534.9102058632687) = -236.83708131075002`), where the
code's limit check raises instead of reporting the last cell's upper limit -/
theorem reported_upper_refuted_in_doubles :
    floatNum.le (physical floatNum
        (mkDim floatNum {} (Float.ofBits 0xc080b7481a02faef) (Float.ofBits 0xc06d9ac95ebeb875) 2)
        (Float.ofNat 1)) (Float.ofBits 0xc06d9ac95ebeb875) = false := by
  decide +kernel

/-- partial: under the decidable guard that the unit end point maps inside the limits, the reported
upper limit of the last cell (unit limit clamped to 1) is a value the limit check accepts -/
theorem reported_upper_partial (cfg : Cfg) (hc : cfg.upperClamp = true) (d : Dim Float) (side : Nat)
    (v : Float)
    (hover : floatNum.le (floatNum.add v (floatNum.div (floatNum.ofNat 1) (floatNum.ofNat side)))
      (floatNum.ofNat 1) = false)
    (hg : floatNum.le (physical floatNum d (Float.ofNat 1)) d.hi = true) :
    floatNum.le (reportedPhysical floatNum true id d (upperUnit floatNum cfg side v)) d.hi = true := by
  simp only [reportedPhysical, if_true, upperUnit, hc, hover]
  exact hg

/-- labels in attribute order do not match values in id order -/
theorem headers_refuted_when_flag_off :
    headers { labelsById := false } ["y", "x"] ["x", "y"] ≠ ["y", "x"] := by decide

/-! ## the physical limits at the level of doubles (`AFModel/GridPhys.lean`)

`uniValue S lo hi q` is `UniformPrior(lo, hi).value_for(u)` as the code computes it from the quantile
round trip `q = ndtr(ndtri(u))` (the only libm-dependent step, a parameter): raw value, limit gate,
rounding `S.round`, clamp. The first group holds for every number type and every rounding function - in
particular for `Float` with CPython's `round`, the instance the driver runs and the harness compares bit
for bit with `physical_*_lists` and the sensitivity cells. -/

section PhysAny
open AF.Prior
variable {K : Type} [Add K] [Sub K] [Mul K] [Div K] [LE K] [LT K] [DecidableLE K] [DecidableLT K]
  [OfNat K 0] [OfNat K 1] [OfNat K 10]
set_option linter.unusedSectionVars false

/-- a reported physical limit raises `PriorLimitException` exactly when the raw value `q·(hi-lo)+lo` is
outside the prior's limits (known finding `C16-prior-unit-end-outside-limits` is the case `q = 1`) -/
theorem reported_physical_raises_iff (S : Special K) (lo hi q : K) :
    uniValue S lo hi q = .limit ↔ ¬ (lo ≤ uniRaw lo hi q ∧ uniRaw lo hi q ≤ hi) :=
  uniValue_limit_iff S lo hi q

/-- otherwise it is the raw value rounded and clamped into the limits -/
theorem reported_physical_value (S : Special K) (lo hi q : K)
    (h : lo ≤ uniRaw lo hi q ∧ uniRaw lo hi q ≤ hi) :
    uniValue S lo hi q = .ok (clamp lo hi (S.round (decimalPlaces (hi - lo)) (uniRaw lo hi q))) :=
  uniValue_ok S lo hi q h

/-- the reported value is property C02's `value_for` of the grid prior (so C02's theorems about
`valueFor` - quantile, monotone, inverse - apply to the limits a grid search reports) -/
theorem reported_physical_is_value_for (S : Special K) (lo hi u : K) :
    uniValue S lo hi (S.phi (S.phiInv u)) = valueFor S {} false (uniParams lo hi) u :=
  uniValue_eq_valueFor S lo hi u

/-- row-major: the `k`-th row of `physical_lower_limits_lists` (`centre = false`) holds `value_for` of the
unit values of the cell with the mixed-radix digits of `k` -/
theorem reported_physical_row_major (N : Num K) (S : Special K) (trip : K → K) (centre : Bool)
    (dims : List (Dim K)) (k : Nat) (hk : k < prod (counts dims)) :
    (physLists S trip dims (unitLists N centre dims))[k]?
      = some (cellAt (fun d i => uniValue S d.lo d.hi (trip (unitValue N centre d i))) dims
          (digits (counts dims) k)) := by
  rw [physLists_unitLists]
  exact map_lattice_row_major dims _ k hk

/-- one reported row per cell -/
theorem reported_physical_count (N : Num K) (S : Special K) (trip : K → K) (centre : Bool)
    (dims : List (Dim K)) :
    (physLists S trip dims (unitLists N centre dims)).length = prod (counts dims) := by
  rw [physLists_unitLists]
  exact map_lattice_length dims _

/-- sensitivity mapping at the level of doubles: one cell per lattice point, the `k`-th job's perturbation
and prior limits are those of the multi-index `digits k` (row-major) -/
theorem sens_physical_row_major (N : Num K) (S : Special K) (trip : K → K) (scale : K)
    (dims : List (Dim K)) (k : Nat) (hk : k < prod (counts dims)) :
    (sensPhysCells N S trip scale dims).length = prod (counts dims) ∧
    (sensPhysCells N S trip scale dims)[k]?
      = some (cellAt (sensPhysDim N S trip scale) dims (digits (counts dims) k)) :=
  ⟨map_lattice_length dims _, map_lattice_row_major dims _ k hk⟩

/-- a sensitivity cell has no prior (and `Sensitivity.run` raises) exactly when `value_for` of one of its
two unit limits raises -/
theorem sens_physical_raises_iff (N : Num K) (S : Special K) (trip : K → K) (scale : K) (d : Dim K)
    (k : Nat) :
    (sensPhysDim N S trip scale d k).limits = none ↔
      (uniValue S d.lo d.hi (trip (sensCellDim N scale d k).unitLower) = .limit ∨
       uniValue S d.lo d.hi (trip (sensCellDim N scale d k).unitUpper) = .limit) := by
  simp only [sensPhysDim]
  cases h1 : uniValue S d.lo d.hi (trip (sensCellDim N scale d k).unitLower) <;>
    cases h2 : uniValue S d.lo d.hi (trip (sensCellDim N scale d k).unitUpper) <;> simp

/-- `Sensitivity._labels` / `_physical_values` / the rows of `results.csv`: the `k`-th job is labelled with the
names of the perturb priors in id order, each with `value_for` of the centre of the cell with the row-major
digits of `k`; one label per job -/
theorem sens_labels_row_major (N : Num K) (S : Special K) (trip : K → K) (scale : K) (cfg : Grid.Cfg)
    (h : cfg.labelsById = true) (namesById namesByAttr : List String) (dims : List (Dim K)) (k : Nat)
    (hk : k < prod (counts dims)) :
    (sensLabels N S trip scale cfg namesById namesByAttr dims).length = prod (counts dims) ∧
    (sensLabels N S trip scale cfg namesById namesByAttr dims)[k]?
      = some (namesById.zip
          ((cellAt (sensPhysDim N S trip scale) dims (digits (counts dims) k)).map (·.centre))) := by
  obtain ⟨hl, hr⟩ := sens_physical_row_major N S trip scale dims k hk
  constructor
  · simp [sensLabels, hl]
  · simp [sensLabels, List.getElem?_map, hr, sensLabelParts, headers, h]

end PhysAny

section PhysField
open AF.Prior Lean Grind
variable {K : Type} [Field K] [LE K] [LT K] [Std.IsLinearOrder K] [Std.LawfulOrderLT K] [OrderedRing K]
  [DecidableLE K] [DecidableLT K]
set_option linter.unusedSectionVars false

/-- whatever the rounding function and the round trip: a physical limit the result reports lies inside
the original prior's limits -/
theorem reported_physical_in_limits (S : Special K) (lo hi q v : K) (hLU : lo ≤ hi)
    (h : uniValue S lo hi q = .ok v) : lo ≤ v ∧ v ≤ hi :=
  uniValue_mem S lo hi q v hLU h

/-- with a monotone rounding function (CPython's `round` is) reported limits are ordered like the round
trips of their unit values: the reported edges of successive cells never cross -/
theorem reported_physical_monotone (S : Special K)
    (hm : ∀ n x y, x ≤ y → S.round n x ≤ S.round n y) (lo hi q q' v v' : K) (hLU : lo ≤ hi)
    (hq : q ≤ q') (h : uniValue S lo hi q = .ok v) (h' : uniValue S lo hi q' = .ok v') : v ≤ v' := by
  by_cases hr : lo ≤ uniRaw lo hi q ∧ uniRaw lo hi q ≤ hi
  · by_cases hr' : lo ≤ uniRaw lo hi q' ∧ uniRaw lo hi q' ≤ hi
    · rw [uniValue_ok S lo hi q hr] at h
      rw [uniValue_ok S lo hi q' hr'] at h'
      cases h
      cases h'
      exact clamp_mono _ _ _ _ (hm _ _ _ (uniRaw_mono lo hi q q' hLU hq))
    · rw [uniValue_limit S lo hi q' hr'] at h'
      cases h'
  · rw [uniValue_limit S lo hi q hr] at h
    cases h

/-- refinement: in exact arithmetic (no rounding, exact round trip) the reported value of a unit value in
`[0, 1]` never raises and is `lo + u·(hi - lo)`, the map the tiling theorems are about -/
theorem reported_physical_exact (S : Special K) (hr : ∀ n x, S.round n x = x) (lo hi u : K)
    (hLU : lo ≤ hi) (h0 : 0 ≤ u) (h1 : u ≤ 1) :
    uniValue S lo hi u = .ok (lo + u * (hi - lo)) := by
  have hmem := uniRaw_mem lo hi u hLU h0 h1
  rw [uniValue_ok S lo hi u hmem, hr, clamp_id _ _ _ hmem]
  simp only [uniRaw]
  congr 1
  grind

/-- sensitivity mapping: `Prior.with_limits` does not move limits that came out of `value_for`: the
cell's prior has exactly the two `value_for` values as limits, inside the original prior's limits -/
theorem sens_limits_are_value_for (N : Num K) (S : Special K) (trip : K → K) (scale : K) (d : Dim K)
    (k : Nat) (a b : K) (hLU : d.lo ≤ d.hi)
    (h : (sensPhysDim N S trip scale d k).limits = some (a, b)) :
    uniValue S d.lo d.hi (trip (sensCellDim N scale d k).unitLower) = .ok a ∧
    uniValue S d.lo d.hi (trip (sensCellDim N scale d k).unitUpper) = .ok b ∧
    d.lo ≤ a ∧ b ≤ d.hi := by
  simp only [sensPhysDim] at h
  cases h1 : uniValue S d.lo d.hi (trip (sensCellDim N scale d k).unitLower) with
  | limit => simp [h1] at h
  | ok va =>
    cases h2 : uniValue S d.lo d.hi (trip (sensCellDim N scale d k).unitUpper) with
    | limit => simp [h1, h2] at h
    | ok vb =>
      have ma := uniValue_mem S _ _ _ va hLU h1
      have mb := uniValue_mem S _ _ _ vb hLU h2
      simp only [h1, h2, Option.some.injEq, Prod.mk.injEq] at h
      rw [pyMax_of_le va d.lo ma.1, pyMin_of_le vb d.hi mb.2] at h
      obtain ⟨rfl, rfl⟩ := h
      exact ⟨rfl, rfl, ma.1, mb.2⟩

end PhysField

/-- the float-level definition, run in exact arithmetic, reports exactly the limits of the cell fitted
(`reported_limits_are_fitted` stated through `value_for` instead of the idealised `physical`) -/
theorem reported_physical_limits_are_fitted (cfg cfg' : Cfg) (lo hi : Rat) (hLU : lo ≤ hi) (n k : Nat)
    (hk : k < n) :
    (uniValue AF.Prior.ratSpecial lo hi (unitValue ratNum false (mkDim ratNum cfg lo hi n) k),
     uniValue AF.Prior.ratSpecial lo hi
       (upperUnit ratNum cfg' n (unitValue ratNum false (mkDim ratNum cfg lo hi n) k)))
      = (.ok (gridCellDim ratNum (mkDim ratNum cfg lo hi n) k).1,
         .ok (gridCellDim ratNum (mkDim ratNum cfg lo hi n) k).2) := by
  have e := reported_limits_are_fitted cfg cfg' lo hi n k hk
  have hu0 : (0 : Rat) ≤ unitValue ratNum false (mkDim ratNum cfg lo hi n) k := unit_lower_nonneg n k
  have hu1 : unitValue ratNum false (mkDim ratNum cfg lo hi n) k + (mkDim ratNum cfg lo hi n).step ≤ 1 :=
    unit_upper_le_one n k hk
  have hs : (0 : Rat) ≤ (mkDim ratNum cfg lo hi n).step := inv_nat_nonneg n
  rw [reported_upper_exact cfg cfg' lo hi n k hk] at e ⊢
  rw [reported_physical_exact AF.Prior.ratSpecial (fun _ _ => rfl) lo hi _ hLU hu0 (by grind),
    reported_physical_exact AF.Prior.ratSpecial (fun _ _ => rfl) lo hi _ hLU (by grind) hu1]
  rw [← e]
  rfl

example : uniValue AF.Prior.ratSpecial 2 5 (1 / 3) = .ok 3 ∧
    physLists AF.Prior.ratSpecial id (gridDims ratNum {} 2 [(0, 1), (2, 4)])
        (unitLists ratNum false (gridDims ratNum {} 2 [(0, 1), (2, 4)]))
      = [[.ok 0, .ok 2], [.ok 0, .ok 3], [.ok (1 / 2), .ok 2], [.ok (1 / 2), .ok 3]] := by
  decide +kernel

example : (sensPhysCells ratNum AF.Prior.ratSpecial id 1 (sensDims ratNum {} [((2, 5), 3)])).map
      (fun c => c.map fun s => (s.centre, s.limits))
    = [[(.ok (5 / 2), some (2, 3))], [(.ok (7 / 2), some (3, 4))], [(.ok (9 / 2), some (4, 5))]] := by
  decide +kernel

example : sensLabels ratNum AF.Prior.ratSpecial id 1 {} ["b", "a"] ["a", "b"]
      (sensDims ratNum {} [((0, 1), 1), ((2, 5), 3)])
    = [[("b", .ok (1 / 2)), ("a", .ok (5 / 2))], [("b", .ok (1 / 2)), ("a", .ok (7 / 2))],
       [("b", .ok (1 / 2)), ("a", .ok (9 / 2))]] := by
  decide +kernel

/-- known finding `C16-prior-unit-end-outside-limits` at the level of doubles: for this prior the raw
value of the unit end point 1 is above the upper limit, `value_for(1.0)` raises -/
theorem reported_physical_refuted_in_doubles :
    raises (uniValue AF.Prior.floatSpecial (Float.ofBits 0xc080b7481a02faef)
      (Float.ofBits 0xc06d9ac95ebeb875) (Float.ofNat 1)) = true := by
  decide +kernel

/-! ## the composition of a cell (`AFModel/GridComp.lean`): all other parameters keep their priors

`cellComp t gridIds fresh` is `model.mapper_from_partial_prior_arguments` of one cell on the composition
model of properties C01/C08 (`Node`, `walk`, `pathPriors`, `count`, `instW`): the driver runs it on the real
model's tree and the harness compares places, ids in parameter order, count and instances of sampled cells. -/

section CellComp
open AF
variable {W : Type}

/-- the cell's model has exactly the places of the original model -/
theorem cell_places (t : Node W) (gridIds fresh : List Nat) :
    (walk (cellComp t gridIds fresh)).map (·.1) = (walk t).map (·.1) := by
  rw [walk_cellComp, List.map_map]
  rfl

/-- **"all other parameters keep their priors"**: a place that holds a prior which is not a grid prior
holds the same prior (same id) in every cell's model, also in the id-ordered `path_priors_tuples` -/
theorem others_keep_priors_comp (t : Node W) (gridIds fresh : List Nat) (p : Path) (id : Nat)
    (hm : (p, id) ∈ walk t) (hn : id ∉ gridIds) :
    (p, id) ∈ walk (cellComp t gridIds fresh) ∧ (p, id) ∈ pathPriors (cellComp t gridIds fresh) := by
  have h : (p, id) ∈ walk (cellComp t gridIds fresh) := by
    rw [walk_cellComp]
    exact List.mem_map.mpr ⟨(p, id), hm, by simp [cellSigma_not_mem gridIds fresh id hn]⟩
  exact ⟨h, (mem_pathPriors _ _).mpr h⟩

/-- every place of the `i`-th grid prior (tied places included) holds the cell's new prior of dimension `i` -/
theorem grid_places_replaced_comp (t : Node W) (gridIds fresh : List Nat) (p : Path) (i id new : Nat)
    (hnd : gridIds.Nodup) (hi : gridIds[i]? = some id) (hf : fresh[i]? = some new)
    (hm : (p, id) ∈ walk t) :
    (p, new) ∈ walk (cellComp t gridIds fresh) ∧ (p, new) ∈ pathPriors (cellComp t gridIds fresh) := by
  have h : (p, new) ∈ walk (cellComp t gridIds fresh) := by
    rw [walk_cellComp]
    exact List.mem_map.mpr ⟨(p, id), hm, by simp [cellSigma_mem gridIds fresh i id new hnd hi hf]⟩
  exact ⟨h, (mem_pathPriors _ _).mpr h⟩

/-- nothing else changes: a place of the cell's model holds either the prior it held or a new prior -/
theorem cell_places_only (t : Node W) (gridIds fresh : List Nat) (hl : fresh.length = gridIds.length)
    (p : Path) (j : Nat) (hm : (p, j) ∈ walk (cellComp t gridIds fresh)) :
    ((p, j) ∈ walk t ∧ j ∉ gridIds) ∨ (j ∈ fresh ∧ ∃ id ∈ gridIds, (p, id) ∈ walk t) := by
  rw [walk_cellComp] at hm
  obtain ⟨⟨q, id⟩, hq, he⟩ := List.mem_map.mp hm
  simp only [Prod.mk.injEq] at he
  obtain ⟨rfl, rfl⟩ := he
  by_cases hg : id ∈ gridIds
  · exact .inr ⟨cellSigma_mem_fresh gridIds fresh id hl hg, id, hg, hq⟩
  · rw [cellSigma_not_mem gridIds fresh id hg]
    exact .inl ⟨hq, hg⟩

/-- the number of free parameters of a cell is that of the original model, when the new priors have ids of
their own (pairwise distinct, none an id of the model - checked on the real ids on every run) -/
theorem cell_count (t : Node W) (gridIds fresh : List Nat) (hl : fresh.length = gridIds.length)
    (hf : fresh.Nodup) (hd : ∀ x ∈ fresh, x ∉ (walk t).map (·.2)) :
    count (cellComp t gridIds fresh) = count t := by
  have e : (walk (cellComp t gridIds fresh)).map (·.2)
      = ((walk t).map (·.2)).map (cellSigma gridIds fresh) := by
    rw [walk_cellComp, List.map_map, List.map_map]
    rfl
  simp only [count, uniqueIds, e]
  exact length_sortDedup_map (cellSigma gridIds fresh) ((walk t).map (·.2))
    (cellSigma_injOn gridIds fresh _ hl hf hd)

/-- the instance a cell's model builds is the instance the original model builds when every grid parameter
takes the value drawn for the cell's prior and every other parameter its own value -/
theorem cell_instance [Inhabited W] (ops : Ops W) (ρ : Nat → Inst W) (t : Node W)
    (gridIds fresh : List Nat) :
    instW ops ρ (cellComp t gridIds fresh) = instW ops (fun id => ρ (cellSigma gridIds fresh id)) t :=
  instW_rename ops ρ _ t

/-- the ids `make_arguments` draws for the jobs of one search are pairwise distinct within a job and
between jobs -/
theorem fresh_ids_distinct (base d : Nat) (k k' i i' : Nat) (hi : i < d) (hi' : i' < d)
    (h : (freshIds base d k)[i]? = (freshIds base d k')[i']?) : k = k' ∧ i = i' := by
  simp only [freshIds, List.getElem?_map, List.getElem?_range hi, List.getElem?_range hi',
    Option.map_some, Option.some.injEq] at h
  have h1 : k * d + i = k' * d + i' := by omega
  have hk : k = k' := by
    have a := congrArg (· / d) h1
    simp only [Nat.mul_comm _ d, Nat.mul_add_div (by omega : d > 0), Nat.div_eq_of_lt hi,
      Nat.div_eq_of_lt hi'] at a
    omega
  subst hk
  exact ⟨rfl, by omega⟩

end CellComp

example : walk (cellComp (V := Nat)
      (.coll [("g", .model "P2" ["a", "b"] [("a", .prior 5), ("b", .prior 6)]),
              ("h", .model "P3" ["a", "b", "c"] [("a", .prior 7), ("b", .prior 5), ("c", .const 1)])])
      [7, 5] [8, 9])
    = [(["g", "a"], 9), (["g", "b"], 6), (["h", "a"], 8), (["h", "b"], 9)] ∧
    freshIds 8 2 3 = [14, 15] := by decide

example : count (cellComp (V := Nat)
      (.coll [("g", .model "P2" ["a", "b"] [("a", .prior 5), ("b", .prior 6)]),
              ("h", .model "P3" ["a", "b", "c"] [("a", .prior 7), ("b", .prior 5), ("c", .const 1)])])
      [7, 5] [8, 9]) = 3 :=
  (cell_count _ [7, 5] [8, 9] rfl (by decide) (by decide)).trans (by decide)

/-! ## the reported shape for every number of results (perfect power or not, every `d`)

`GridSearchResult` derives its shape from the *number* of unit lists it is given,
`d * (int(round(N ** (1 / d))),)`; `sideRound` is that integer for every `N` (what the code does when a
result is built from a list that is not a full grid), compared with the real class for all `N` below a cap
and `d ≤ 6` on every run. -/

/-- the integer root for every argument -/
theorem iroot_spec (t d : Nat) (hd : 0 < d) : iroot t d ^ d ≤ t ∧ t < (iroot t d + 1) ^ d :=
  Grid.iroot_spec t d hd

/-- on a full grid the rounded root is the number of steps -/
theorem side_round_pow (n d : Nat) (hd : 0 < d) : sideRound (n ^ d) d = n :=
  Grid.sideRound_pow n d hd

/-- for every number of results the reported side is the integer nearest to the real `d`-th root:
`(2s-1)^d ≤ 2^d·N < (2s+1)^d` -/
theorem side_round_nearest (total d : Nat) (hd : 0 < d) :
    (2 * sideRound total d - 1) ^ d ≤ 2 ^ d * total ∧ 2 ^ d * total < (2 * sideRound total d + 1) ^ d :=
  Grid.sideRound_nearest total d hd

/-- the reported shape accounts for every result (and `native` can reshape the per-cell lists) exactly
when the number of results is a perfect `d`-th power: a result built from any other number of cells - an
interrupted or hand-made list - has a shape whose product is not the number of its entries -/
theorem shape_accounts_iff (cfg : Cfg) (h : cfg.shapeExact = true) (total d : Nat) (hd : 0 < d) :
    nativeOk cfg total d = true ↔ ∃ n, n ^ d = total := by
  simp only [nativeOk, prod_replicate, beq_iff_eq, sideOf, h, if_true]
  constructor
  · intro e; exact ⟨_, e⟩
  · rintro ⟨n, rfl⟩; rw [Grid.sideRound_pow n d hd]

/-- so after a full search the reshaped (`native`) arrays exist, in every dimension -/
theorem native_ok_after_full_search (N : Num V) (cfg : Cfg) (h1 : cfg.integerSteps = true)
    (h2 : cfg.shapeExact = true) (n : Nat) (ranges : List (V × V)) (hd : ranges ≠ []) :
    nativeOk cfg (gridModel N cfg n ranges).length ranges.length = true := by
  rw [grid_fits_n_pow_d N cfg h1]
  exact (shape_accounts_iff cfg h2 _ _ (List.length_pos_iff.mpr hd)).mpr ⟨n, rfl⟩

example : sideRound 8 2 = 3 ∧ sideRound 6 2 = 2 ∧ sideRound 80 4 = 3 ∧ sideRound 81 4 = 3 ∧
    nativeOk {} 8 2 = false ∧ nativeOk {} 81 4 = true ∧ nativeOk {} 7776 5 = true := by decide

/-! tests (evaluated by the compiler at build time, not theorems): libm's `pow` does not reduce in
the kernel, so the link between `sideF` and the bit pattern above is checked here -/
#guard sideF 125 3 == 4
#guard (Float.pow (Float.ofNat 125) (1.0 / Float.ofNat 3)).toBits == 0x4013FFFFFFFFFFFF
#guard sideF 100 2 == 10

end AF.C16
