import AFProofs.Lemmas.SamplesConv
import AFProofs.Lemmas.SamplesMore
import AFProofs.Lemmas.SamplesReal
import AFProofs.C04

/-!
# C05 — reported samples are faithful to the likelihood

Subjects: the conversions of `AFModel/SamplesConv.lean` that the driver executes (`AFDriver/C05.lean`).
`L` is the user's likelihood as a function of the parameter row, `prior` the summed log-prior of a row.
The samplers are black boxes: what they guarantee about their arrays is a hypothesis (`h…` named
"contract"). Arithmetic is a parameter; the only facts used are stated as hypotheses
(`(a + b) − b = a`, `−½·(−2·a) = a`, `0 ≤ 1`, `0 ≤ exp x`, `<` a strict weak order) — they hold in exact
arithmetic; for IEEE doubles the first two hold up to rounding, which is what the correspondence
tolerates (`harness/c05.py`).
-/

namespace AF.C05
open AF AF.Samples

variable {V : Type}

/-- a sample carries the likelihood and the prior of its own parameter values -/
def Faithful (L prior : List V → V) (s : Sample V) : Prop := s.ll = L s.params ∧ s.lp = prior s.params

instance [DecidableEq V] (L prior : List V → V) (s : Sample V) : Decidable (Faithful L prior s) := by
  unfold Faithful; infer_instance

/-! ## log-posterior and weights -/

/-- **Posterior.** the reported log-posterior of every sample is its log-likelihood plus its log-prior -/
theorem posterior_def (o : SOps V) (s : Sample V) : s.post o = o.add s.ll s.lp := rfl

/-- **Posterior of a faithful sample** is `L + prior` at its own parameters -/
theorem posterior_of_faithful (o : SOps V) (L prior : List V → V) (s : Sample V) (h : Faithful L prior s) :
    s.post o = o.add (L s.params) (prior s.params) := by
  simp [Sample.post, h.1, h.2]

/-- **Weights (nested sampling).** every weight is `exp(·)`, hence non-negative -/
theorem weights_nonneg_dynesty (o : SOps V) (hexp : ∀ x, o.le o.zero (o.exp x) = true) (prior : List V → V)
    (samples : List (List V)) (logl logwt logz : List V) (ss : List (Sample V))
    (h : dynestyConv o prior samples logl logwt logz = some ss) : ∀ s ∈ ss, o.le o.zero s.w = true := by
  intro s hs
  unfold dynestyConv at h
  cases hz : logz.getLast? with
  | none => simp [hz] at h
  | some z =>
    simp only [hz, Option.some.injEq] at h
    subst h
    have := (mem_fromLists _ _ _ _ s hs).2.2.2
    obtain ⟨x, _, hx⟩ := List.mem_map.1 this
    rw [← hx]
    exact hexp _

/-- **Weights (all other searches).** every weight is `1.0` -/
theorem weights_one (o : SOps V) (prior : List V → V) (s : Sample V) :
    (∀ cfg chain logp d t, s ∈ emceeConv cfg o prior chain logp d t → s.w = o.one) ∧
    (∀ pos cost, s ∈ pyswarmsConv o prior pos cost → s.w = o.one) ∧
    (∀ x p, s ∈ bfgsConv o prior x p → s.w = o.one) ∧
    (∀ hist lls, s ∈ bfgsHistConv o prior hist lls → s.w = o.one) ∧
    (∀ params posts, s ∈ drawerConv o prior params posts → s.w = o.one) := by
  refine ⟨?_, ?_, ?_, ?_, ?_⟩ <;> intros <;> rename_i h <;>
    exact mem_ones o _ _ (mem_fromLists _ _ _ _ s h).2.2.2

theorem weights_nonneg_others (o : SOps V) (h1 : o.le o.zero o.one = true) (prior : List V → V) (s : Sample V) :
    (∀ cfg chain logp d t, s ∈ emceeConv cfg o prior chain logp d t → o.le o.zero s.w = true) ∧
    (∀ pos cost, s ∈ pyswarmsConv o prior pos cost → o.le o.zero s.w = true) ∧
    (∀ x p, s ∈ bfgsConv o prior x p → o.le o.zero s.w = true) ∧
    (∀ hist lls, s ∈ bfgsHistConv o prior hist lls → o.le o.zero s.w = true) ∧
    (∀ params posts, s ∈ drawerConv o prior params posts → o.le o.zero s.w = true) := by
  obtain ⟨a, b, c, d, e⟩ := weights_one o prior s
  exact ⟨fun _ _ _ _ _ h => by rw [a _ _ _ _ _ h]; exact h1, fun _ _ h => by rw [b _ _ h]; exact h1,
    fun _ _ h => by rw [c _ _ h]; exact h1, fun _ _ h => by rw [d _ _ h]; exact h1,
    fun _ _ h => by rw [e _ _ h]; exact h1⟩

/-! ## nested sampling (dynesty) -/

/-- **Dynesty.** contract: `results.logl[i]` is the likelihood of `results.samples[i]`. Then every reported
sample is faithful (whatever the weights), and with one weight per row no row is lost or reordered. -/
theorem dynesty_faithful (o : SOps V) (L prior : List V → V) (samples : List (List V)) (logwt logz : List V)
    (ss : List (Sample V)) (h : dynestyConv o prior samples (samples.map L) logwt logz = some ss) :
    (∀ s ∈ ss, Faithful L prior s ∧ s.params ∈ samples) ∧
    (logwt.length = samples.length → ss.map (·.params) = samples) := by
  unfold dynestyConv at h
  cases hz : logz.getLast? with
  | none => simp [hz] at h
  | some z =>
    simp only [hz, Option.some.injEq] at h
    subst h
    refine ⟨fun s hs => ?_, fun hl => ?_⟩
    · have := mem_fromLists_map L prior samples _ s hs
      exact ⟨⟨this.2.1, this.2.2.1⟩, this.1⟩
    · exact fromLists_params_of_length _ _ _ _ (by simp) (by simp) (by simp [hl])

/-! ## ensemble MCMC (emcee) -/

/-- **Emcee, repaired slice (`flat_thin_alignment`).** contract: `log_prob[s][w]` is the posterior
`L + prior` of `chain[s][w]`. For every `discard`, `thin` and chain shape, the reported list is exactly the
thinned, step-major flattened chain, each row with its own likelihood, its own prior and weight 1. -/
theorem emcee_faithful (o : SOps V) (L prior : List V → V) (hsub : ∀ a b, o.sub (o.add a b) b = a)
    (chain : List (List (List V))) (discard thin : Nat) :
    emceeConv { emceeSameSlice := true } o prior chain
        (chain.map (List.map (fun r => o.add (L r) (prior r)))) discard thin
      = (thinSteps discard thin chain).flatten.map (fun r => ⟨r, L r, prior r, o.one⟩) := by
  simp only [emceeConv, if_true, thinSteps_map, flatten_map_map]
  exact conv_of_posts o L prior hsub _

/-- … hence every reported sample is faithful and is a row of a step the sampler actually took -/
theorem emcee_faithful_mem (o : SOps V) (L prior : List V → V) (hsub : ∀ a b, o.sub (o.add a b) b = a)
    (chain : List (List (List V))) (discard thin : Nat) (s : Sample V)
    (hs : s ∈ emceeConv { emceeSameSlice := true } o prior chain
        (chain.map (List.map (fun r => o.add (L r) (prior r)))) discard thin) :
    Faithful L prior s ∧ ∃ step ∈ chain, s.params ∈ step := by
  rw [emcee_faithful o L prior hsub] at hs
  obtain ⟨r, hr, rfl⟩ := List.mem_map.1 hs
  refine ⟨⟨rfl, rfl⟩, ?_⟩
  obtain ⟨step, hstep, hrs⟩ := List.mem_flatten.1 hr
  exact ⟨step, (thinSteps_sublist discard thin chain).subset hstep, hrs⟩

/-! the pinned commit (`emceeSameSlice = false`: `get_log_prob(flat=True)[-n-1:-1]`) -/

def intOps : SOps Int where
  add := (· + ·)
  sub := (· - ·)
  negHalf := fun x => -x / 2
  exp := fun _ => 1
  zero := 0
  one := 1
  lt := fun a b => decide (a < b)
  le := fun a b => decide (a ≤ b)

def wL : List Int → Int := fun r => r.headD 0
def wPrior : List Int → Int := fun _ => 0
/-- 2 steps × 2 walkers × 1 parameter -/
def wChain : List (List (List Int)) := [[[0], [1]], [[2], [3]]]

/-- **Emcee, pinned slice: refuted.** 2 steps × 2 walkers, `discard = 1`, `thin = 1`, log-probabilities
satisfying the contract: the row `[2]` is reported with likelihood 1. -/
theorem emcee_refuted_when_flag_off :
    ∃ s ∈ emceeConv { emceeSameSlice := false } intOps wPrior wChain
        (wChain.map (List.map (fun r => intOps.add (wL r) (wPrior r)))) 1 1,
      ¬ Faithful wL wPrior s := by
  refine ⟨⟨[2], 1, 0, 1⟩, by decide, by decide⟩

/-- what the pinned slice *does* satisfy: without burn-in and thinning every reported sample is still
faithful for this witness chain (only the last row is lost) — the defect needs `discard > 0` or `thin > 1`,
which is every real run (`discard = 3τ`). Non-vacuity of the flag. -/
example : emceeConv { emceeSameSlice := false } intOps wPrior wChain
    (wChain.map (List.map (fun r => intOps.add (wL r) (wPrior r)))) 0 1
    = [⟨[0], 0, 0, 1⟩, ⟨[1], 1, 0, 1⟩, ⟨[2], 2, 0, 1⟩] := by decide

example : emceeConv { emceeSameSlice := true } intOps wPrior wChain
    (wChain.map (List.map (fun r => intOps.add (wL r) (wPrior r)))) 1 1
    = [⟨[2], 2, 0, 1⟩, ⟨[3], 3, 0, 1⟩] := by decide

/-! ## particle swarms (pyswarms) -/

/-- **PySwarms, what does hold (`pyswarms_partial`).** one sample per iteration; its parameters are those of
*particle 0* of that iteration and its reported log-posterior is `−½·cost_history[k]`, i.e. (pyswarms'
contract) the best posterior found by *any* particle up to iteration `k` — not the posterior of the
reported parameters. -/
theorem pyswarms_partial (o : SOps V) (hadd : ∀ a b, o.add (o.sub a b) b = a) (prior : List V → V)
    (pos : List (List (List V))) (cost : List V) (hl : cost.length = pos.length) (hne : ∀ it ∈ pos, it ≠ []) :
    (pyswarmsConv o prior pos cost).map (·.post o) = cost.map o.negHalf ∧
    (pyswarmsConv o prior pos cost).map (·.params) = pos.filterMap List.head? := by
  have hfirst : (pos.filterMap List.head?).length = pos.length := by
    clear hl
    induction pos with
    | nil => simp
    | cons it pos ih =>
      have : it ≠ [] := hne it (by simp)
      cases it with
      | nil => exact absurd rfl this
      | cons r it => simp [ih (fun y hy => hne y (by simp [hy]))]
  have := fromLists_posts o hadd (pos.filterMap List.head?) (cost.map o.negHalf) (pos.flatten.map prior)
    (by simp [hfirst, hl]) (by rw [List.length_map, List.length_map, hl]; exact length_le_flatten pos hne)
  simpa [pyswarmsConv] using this

def wPos : List (List (List Int)) := [[[0], [5]], [[1], [7]]]
def wSwarmL : List Int → Int := fun r => -(r.headD 0 * r.headD 0)

/-- the pyswarms contract on `cost_history`: entry `k` is the smallest `−2·posterior` over all particles of
iterations `≤ k` (and is attained) -/
def swarmContract (post : List Int → Int) (pos : List (List (List Int))) (cost : List Int) : Bool :=
  cost.length == pos.length && (List.range cost.length).all fun k =>
    let seen := (pos.take (k + 1)).flatten.map (fun r => -2 * post r)
    seen.contains (cost.getD k 0) && seen.all (fun c => decide (cost.getD k 0 ≤ c))

/-- **PySwarms: refuted.** 2 iterations × 2 particles, a cost history satisfying the contract: the second
sample `[1]` is reported with likelihood 0, its likelihood is −1. Recorded as known finding
`C05-pyswarms-best-cost-vs-particle0`. -/
theorem pyswarms_refuted :
    swarmContract (fun r => wSwarmL r + wPrior r) wPos [0, 0] = true ∧
    ∃ s ∈ pyswarmsConv intOps wPrior wPos [0, 0], ¬ Faithful wSwarmL wPrior s := by
  refine ⟨by decide, ⟨[1], 0, 0, 1⟩, by decide, by decide⟩

/-! ## BFGS / L-BFGS -/

/-- **BFGS, L-BFGS (default).** the single reported sample is the final point with the likelihood the
model yields there: `Fitness` (C04, posterior mode, χ² conversion — the flags BFGS passes) returns
`−2·(ll + Σ priors)`, the search stores `−½` of it and the conversion subtracts the prior. -/
theorem lbfgs_faithful (o : SOps V) (fo : FomOps V) (g : List V → Except GateErr (Inst V)) (lp : List V → List V)
    (resample : V) (x : List V) (i : Inst V) (ll p : V) (hg : g x = .ok i)
    (hhalf : ∀ a, o.negHalf (fo.mulNeg2 a) = a) (hsub : ∀ a b, o.sub (fo.add a b) b = a)
    (hp : bfgsLogPost o fo g lp resample x (.fin ll) = some p) :
    bfgsConv o (fun v => pySum fo (lp v)) x p = [⟨x, ll, pySum fo (lp x), o.one⟩] := by
  have hv := C04.fom_on_success fo
    { fomIsLL := false, convertChi := true, storeHistory := false, resample := resample } g lp {} x i ll hg
  simp only [bfgsLogPost, hv] at hp
  simp at hp
  subst hp
  simp [bfgsConv, subZip, fromLists, ones, hhalf, hsub]

/-- **BFGS with `visualize=True`.** the reported samples are the `Fitness` history: for every sequence of
calls whose likelihood outcome is a function `L` of the vector, every reported sample is faithful. -/
theorem bfgs_history_faithful [Inhabited V] (o : SOps V) (fo : FomOps V) (cfg : FitCfg V)
    (g : List V → Except GateErr (Inst V)) (lp : List V → List V) (L prior : List V → V)
    (calls : List (List V × Outcome V)) (hc : ∀ c ∈ calls, c.2 = .fin (L c.1)) (hh : cfg.storeHistory = true) :
    let st := (runCalls fo cfg g lp {} calls).2
    bfgsHistConv o prior st.params st.lls
      = ((calls.filter (succeeded g)).map (·.1)).map (fun r => ⟨r, L r, prior r, o.one⟩) := by
  have h := C04.history_exact fo cfg g lp calls {}
  simp only [hh, if_true] at h
  have hlls : (calls.filter (succeeded g)).map llOf = ((calls.filter (succeeded g)).map (·.1)).map L := by
    rw [List.map_map]
    apply List.map_congr_left
    intro c hcm
    have := hc c (List.mem_filter.1 hcm).1
    simp [llOf, this]
  simp only [bfgsHistConv, h.1, h.2, List.nil_append, hlls, ones_length_map]
  exact fromLists_map L prior (fun _ => o.one) _

/-! ## Drawer and the initializer -/

/-- **Drawer.** contract: `log_posterior_list[i]` is `L + prior` of `parameter_lists[i]` (what the
initializer returns when its pool is order preserving, see `init_faithful_when_ordered`). -/
theorem drawer_faithful (o : SOps V) (L prior : List V → V) (hsub : ∀ a b, o.sub (o.add a b) b = a)
    (params : List (List V)) :
    drawerConv o prior params (params.map (fun r => o.add (L r) (prior r)))
      = params.map (fun r => ⟨r, L r, prior r, o.one⟩) :=
  conv_of_posts o L prior hsub params

/-- **Initializer, order-preserving pool.** when the results of a batch arrive in submission order
(`order = 0,1,…`: C14's property of the pool), every accepted point is paired with its own figure of merit. -/
theorem init_faithful_when_ordered (F : List V → Option V) (inputs : List (List V)) :
    ∀ pf ∈ initBatch inputs (inputs.map F) (List.range (inputs.map F).length), F pf.1 = some pf.2 := by
  intro pf h
  simp only [initBatch, range_map_getElem?_join] at h
  obtain ⟨⟨f, inp⟩, hmem, hf⟩ := List.mem_filterMap.1 h
  have hz : (f, inp) ∈ inputs.map (fun r => (F r, r)) := by
    rwa [zip_map_self] at hmem
  obtain ⟨r, _, hr⟩ := List.mem_map.1 hz
  simp only [Prod.mk.injEq] at hr
  obtain ⟨rfl, rfl⟩ := hr
  cases hF : F r with
  | none => simp [hF] at hf
  | some x => simp [hF] at hf; subst hf; simp [hF]

/-- **Initializer, arrival order: refuted.** two inputs whose results arrive swapped are paired with each
other's figure of merit (multi-core fits; known finding `C05-multicore-initializer-order`, root cause C14). -/
theorem init_refuted_when_unordered :
    ∃ pf ∈ initBatch [[1], [2]] ([[1], [2]].map (fun r : List Int => some (r.headD 0 * 10))) [1, 0],
      (fun r : List Int => some (r.headD 0 * 10)) pf.1 ≠ some pf.2 :=
  ⟨([1], 20), by decide, by decide⟩

/-! ## best fit -/

/-- **Best fit is the first maximum.** for `<` a strict weak order (no NaN among the likelihoods): the
sample returned by `max_log_likelihood_sample` is in the list, no sample has a larger likelihood, and every
earlier sample has a strictly smaller one. -/
theorem best_is_first_max (o : SOps V)
    (htr : ∀ a b c, o.lt a b = true → o.lt b c = true → o.lt a c = true)
    (hnt : ∀ a b c, o.lt a c = true → o.lt a b = true ∨ o.lt b c = true)
    (ss : List (Sample V)) (b : Sample V) (h : maxSample o ss = some b) :
    ∃ pre post, ss = pre ++ b :: post ∧ (∀ s ∈ pre, o.lt s.ll b.ll = true) ∧
      (∀ s ∈ post, o.lt b.ll s.ll = false) := by
  have := bestOf_foldl o htr hnt ss [] none rfl
  simp only [List.nil_append] at this
  unfold maxSample at h
  rw [h] at this
  exact this

/-- **Best-fit likelihood is the maximum over the samples** (`result.log_likelihood`) -/
theorem best_is_max (o : SOps V) (hirr : ∀ a, o.lt a a = false)
    (htr : ∀ a b c, o.lt a b = true → o.lt b c = true → o.lt a c = true)
    (hnt : ∀ a b c, o.lt a c = true → o.lt a b = true ∨ o.lt b c = true)
    (ss : List (Sample V)) (m : V) (h : bestLL o ss = some m) :
    (∃ s ∈ ss, s.ll = m) ∧ ∀ s ∈ ss, o.lt m s.ll = false := by
  unfold bestLL at h
  cases hb : maxSample o ss with
  | none => simp [hb] at h
  | some b =>
    simp [hb] at h
    subst h
    obtain ⟨pre, post, rfl, hpre, hpost⟩ := best_is_first_max o htr hnt ss b hb
    refine ⟨⟨b, by simp, rfl⟩, fun s hs => ?_⟩
    rcases List.mem_append.1 hs with hs | hs
    · cases hlt : o.lt b.ll s.ll with
      | false => rfl
      | true =>
        have := htr _ _ _ (hpre s hs) hlt
        rw [hirr] at this
        exact absurd this (by simp)
    · rcases List.mem_cons.1 hs with rfl | hs
      · exact hirr _
      · exact hpost s hs

/-- a best fit exists exactly when there is a sample -/
theorem best_exists_iff (o : SOps V) (ss : List (Sample V)) : maxSample o ss = none ↔ ss = [] := by
  cases ss with
  | nil => simp [maxSample]
  | cons s ss =>
    simp only [maxSample, List.foldl_cons, maxStep, reduceCtorEq, iff_false]
    have : ∀ (l : List (Sample V)) (a : Sample V), ∃ b, l.foldl (maxStep o) (some a) = some b := by
      intro l
      induction l with
      | nil => intro a; exact ⟨a, rfl⟩
      | cons x l ih =>
        intro a
        simp only [List.foldl_cons, maxStep]
        split <;> exact ih _
    obtain ⟨b, hb⟩ := this ss s
    rw [hb]; simp

/-- **Best-fit instance.** `result.instance` is the instance the model builds (C01: `instFromVector`) from the
parameter values of the maximising sample: the values are stored under `unique_prior_paths`, read back
through `all_paths`, and come back as the same vector — for every composition whose places are visited once
by the walk (attribute names are dictionary keys), shared parameters included. -/
theorem best_instance [Inhabited V] (ops : Ops V) (o : SOps V) (t : Node V) (ss : List (Sample V)) (b : Sample V)
    (hnd : ((walk t).map (·.1)).Nodup) (hb : maxSample o ss = some b) (hl : b.params.length = count t) :
    bestInstance ops o t ss = some (instFromVector ops t b.params) := by
  have hK := keysOK_of_distinct_places t hnd
  have hlen : b.params.length = (uniquePaths t).length := by
    rw [hl, hK.len]; simp [allPaths, count]
  simp [bestInstance, hb, vectorOfSample, kwargs_roundtrip _ _ _ hK hlen]

/-- the same under the executable guard `keysOK` that the driver evaluates on every composition it is sent
(the harness checks that it answers `true`) -/
theorem best_instance_of_guard [Inhabited V] (ops : Ops V) (o : SOps V) (t : Node V) (ss : List (Sample V))
    (b : Sample V) (hk : keysOK t = true) (hb : maxSample o ss = some b) (hl : b.params.length = count t) :
    bestInstance ops o t ss = some (instFromVector ops t b.params) := by
  have hK := keysOK_spec t hk
  have hlen : b.params.length = (uniquePaths t).length := by
    rw [hl, hK.len]; simp [allPaths, count]
  simp [bestInstance, hb, vectorOfSample, kwargs_roundtrip _ _ _ hK hlen]

/-- every sample of every conversion, not only the best one, gives back its own vector -/
theorem sample_vector_roundtrip (t : Node V) (s : Sample V) (hnd : ((walk t).map (·.1)).Nodup)
    (hl : s.params.length = count t) : vectorOfSample t s = some s.params := by
  have hK := keysOK_of_distinct_places t hnd
  have hlen : s.params.length = (uniquePaths t).length := by
    rw [hl, hK.len]; simp [allPaths, count]
  simp [vectorOfSample, kwargs_roundtrip _ _ _ hK hlen]

/-! ## non-vacuity -/

def wSamples : List (Sample Int) := [⟨[1], -5, 0, 1⟩, ⟨[2], 3, 0, 1⟩, ⟨[3], 3, 0, 1⟩, ⟨[4], -1, 0, 1⟩]

example : maxSample intOps wSamples = some ⟨[2], 3, 0, 1⟩ := by decide
example : bestLL intOps wSamples = some 3 := by decide
example : ∀ a b c : Int, intOps.lt a c = true → intOps.lt a b = true ∨ intOps.lt b c = true := by
  intro a b c; simp [intOps]; omega

/-- a shared parameter (two places, one key) and a nested one -/
def wModel : Node Int :=
  .coll [("g", .model "P2" ["a", "b"] [("a", .prior 7), ("b", .prior 3)]),
         ("h", .model "P1" ["a"] [("a", .prior 7)])]

example : keysOK wModel = true := by decide
example : ((walk wModel).map (·.1)).Nodup := by decide
example : uniquePaths wModel = [["g", "b"], ["h", "a"]] := by decide
example : allPaths wModel = [[["g", "b"]], [["g", "a"], ["h", "a"]]] := by decide
example : vectorOfSample wModel ⟨[10, 20], 0, 0, 1⟩ = some [10, 20] := by decide

example : dynestyConv intOps wPrior [[1], [2]] ([[1], [2]].map wL) [0, 0] [5, 6]
    = some [⟨[1], 1, 0, 1⟩, ⟨[2], 2, 0, 1⟩] := by decide

example : initBatch [[1], [2]] [some 10, none] [0, 1] = [([1], (10 : Int))] := by decide

/-! # growth: further conversions, weights, transformations of a reported sample list

Subjects: `AFModel/SamplesMore.lean` (executed by the driver: queries `nautilus`, `ultranest`, `zeus`, `xform`). -/

/-! ## nested samplers whose packages are not installed: Nautilus, UltraNest -/

/-- **Nautilus.** contract: `posterior()` returns `log_l[i]` = the likelihood of `points[i]`. Then every reported
sample is faithful (whatever the weights), and with one weight per row no row is lost or reordered. -/
theorem nautilus_faithful (o : SOps V) (L prior : List V → V) (points : List (List V)) (logw : List V) :
    (∀ s ∈ nautilusConv o prior points logw (points.map L), Faithful L prior s ∧ s.params ∈ points) ∧
    (logw.length = points.length →
      (nautilusConv o prior points logw (points.map L)).map (·.params) = points) := by
  refine ⟨fun s hs => ?_, fun hl => ?_⟩
  · have := mem_fromLists_map L prior points _ s hs
    exact ⟨⟨this.2.1, this.2.2.1⟩, this.1⟩
  · exact fromLists_params_of_length _ _ _ _ (by simp) (by simp) (by simp [hl])

/-- **UltraNest.** contract: `weighted_samples["logl"][i]` is the likelihood of `weighted_samples["points"][i]`. -/
theorem ultranest_faithful (L prior : List V → V) (points : List (List V)) (weights : List V) :
    (∀ s ∈ ultranestConv prior points (points.map L) weights, Faithful L prior s ∧ s.params ∈ points) ∧
    (weights.length = points.length →
      (ultranestConv prior points (points.map L) weights).map (·.params) = points) := by
  refine ⟨fun s hs => ?_, fun hl => ?_⟩
  · have := mem_fromLists_map L prior points _ s hs
    exact ⟨⟨this.2.1, this.2.2.1⟩, this.1⟩
  · exact fromLists_params_of_length _ _ _ _ (by simp) (by simp) (by simp [hl])

example : nautilusConv intOps wPrior [[1], [2]] [0, 0] ([[1], [2]].map wL) = [⟨[1], 1, 0, 1⟩, ⟨[2], 2, 0, 1⟩] := by
  decide
example : ultranestConv wPrior [[1], [2]] ([[1], [2]].map wL) [3, 4] = [⟨[1], 1, 0, 3⟩, ⟨[2], 2, 0, 4⟩] := by
  decide

/-- **Weights (Nautilus)** are `exp(·)`, hence non-negative -/
theorem weights_nonneg_nautilus (o : SOps V) (hexp : ∀ x, o.le o.zero (o.exp x) = true) (prior : List V → V)
    (points : List (List V)) (logw logl : List V) :
    ∀ s ∈ nautilusConv o prior points logw logl, o.le o.zero s.w = true := by
  intro s hs
  obtain ⟨x, _, hx⟩ := List.mem_map.1 (mem_fromLists _ _ _ _ s hs).2.2.2
  rw [← hx]
  exact hexp _

/-- **Weights (UltraNest)** are the sampler's own (contract: non-negative), handed on unchanged -/
theorem weights_nonneg_ultranest (o : SOps V) (prior : List V → V) (points : List (List V)) (logl weights : List V)
    (hw : ∀ w ∈ weights, o.le o.zero w = true) :
    ∀ s ∈ ultranestConv prior points logl weights, o.le o.zero s.w = true :=
  fun s hs => hw _ (mem_fromLists _ _ _ _ s hs).2.2.2

/-! ## Zeus -/

/-- **Zeus, repaired slice.** contract: `get_log_prob()[s][w]` is the posterior `L + prior` of
`get_chain()[s][w]`, and `flat=True` reshapes both arrays in the same order (`hnat`: the flattening of the
log-probabilities is the flattening of the rows, entry by entry). For every `discard`, `thin` and chain shape the
reported list is exactly the sliced, flattened chain, each row with its own likelihood, prior and weight 1. -/
theorem zeus_faithful (o : SOps V) (L prior : List V → V) (hsub : ∀ a b, o.sub (o.add a b) b = a)
    (flatP : List (List (List V)) → List (List V)) (flatL : List (List V) → List V)
    (hnat : ∀ (f : List V → V) (m : List (List (List V))), flatL (m.map (List.map f)) = (flatP m).map f)
    (chain : List (List (List V))) (discard thin : Nat) :
    zeusConv { zeusSameSlice := true } o prior flatP flatL chain
        (chain.map (List.map (fun r => o.add (L r) (prior r)))) discard thin
      = (flatP (zeusSlice discard thin chain)).map (fun r => ⟨r, L r, prior r, o.one⟩) := by
  simp only [zeusConv, if_true, zeusSlice_map, hnat]
  exact conv_of_posts o L prior hsub _

/-- the two flattenings the driver runs (step-major = `order='C'`, walker-major = `order='F'`) satisfy `hnat` -/
theorem zeus_flattenings_natural (w : Nat) (f : List V → V) (m : List (List (List V))) :
    List.flatten (m.map (List.map f)) = (List.flatten m).map f ∧
    walkerMajor w (m.map (List.map f)) = (walkerMajor w m).map f :=
  ⟨flatten_map_map f m, walkerMajor_map f w m⟩

/-- … hence, in either order, every reported sample is faithful and is a row of a step the sampler took -/
theorem zeus_faithful_mem (o : SOps V) (L prior : List V → V) (hsub : ∀ a b, o.sub (o.add a b) b = a)
    (chain : List (List (List V))) (discard thin : Nat) (s : Sample V)
    (hs : s ∈ zeusConv { zeusSameSlice := true } o prior List.flatten List.flatten chain
        (chain.map (List.map (fun r => o.add (L r) (prior r)))) discard thin) :
    Faithful L prior s ∧ ∃ step ∈ chain, s.params ∈ step := by
  rw [zeus_faithful o L prior hsub List.flatten List.flatten (fun f m => flatten_map_map f m)] at hs
  obtain ⟨r, hr, rfl⟩ := List.mem_map.1 hs
  refine ⟨⟨rfl, rfl⟩, ?_⟩
  obtain ⟨step, hstep, hrs⟩ := List.mem_flatten.1 hr
  exact ⟨step, (zeusSlice_sublist discard thin chain).subset hstep, hrs⟩

theorem zeus_faithful_walker_major (o : SOps V) (L prior : List V → V) (hsub : ∀ a b, o.sub (o.add a b) b = a)
    (w : Nat) (chain : List (List (List V))) (discard thin : Nat) :
    ∀ s ∈ zeusConv { zeusSameSlice := true } o prior (walkerMajor w) (walkerMajor w) chain
        (chain.map (List.map (fun r => o.add (L r) (prior r)))) discard thin, Faithful L prior s := by
  intro s hs
  rw [zeus_faithful o L prior hsub (walkerMajor w) (walkerMajor w) (fun f m => walkerMajor_map f w m)] at hs
  obtain ⟨r, _, rfl⟩ := List.mem_map.1 hs
  exact ⟨rfl, rfl⟩

/-- **Zeus, pinned commit: refuted.** `get_log_prob(flat=True)` without `discard`/`thin`: 2 steps × 2 walkers,
`discard = 1`, `thin = 1`, log-probabilities satisfying the contract: the row `[2]` is reported with
likelihood 0 (repaired by `fixes/C05-zeus-log-prob-same-slice.patch`). -/
theorem zeus_refuted_when_flag_off :
    ∃ s ∈ zeusConv { zeusSameSlice := false } intOps wPrior List.flatten List.flatten wChain
        (wChain.map (List.map (fun r => intOps.add (wL r) (wPrior r)))) 1 1,
      ¬ Faithful wL wPrior s := by
  refine ⟨⟨[2], 0, 0, 1⟩, by decide, by decide⟩

example : zeusConv { zeusSameSlice := true } intOps wPrior List.flatten List.flatten wChain
    (wChain.map (List.map (fun r => intOps.add (wL r) (wPrior r)))) 1 1
    = [⟨[2], 2, 0, 1⟩, ⟨[3], 3, 0, 1⟩] := by decide
/-- walker-major: walker 0 of every kept step first -/
example : zeusConv { zeusSameSlice := true } intOps wPrior (walkerMajor 2) (walkerMajor 2) wChain
    (wChain.map (List.map (fun r => intOps.add (wL r) (wPrior r)))) 0 1
    = [⟨[0], 0, 0, 1⟩, ⟨[2], 2, 0, 1⟩, ⟨[1], 1, 0, 1⟩, ⟨[3], 3, 0, 1⟩] := by decide

/-! ## weights sum to one where the sampler normalises (exact arithmetic) -/

/-- **Dynesty weights are normalised.** over the reals, with one row, likelihood and weight per sample and
dynesty's contract `logz[-1] = log Σ exp(logwt)`: the reported weights `exp(logwt − logz[-1])` sum to 1. -/
theorem dynesty_weights_sum_one (prior : List ℝ → ℝ) (samples : List (List ℝ)) (logl logwt logz : List ℝ) (z : ℝ)
    (ss : List (Sample ℝ)) (h1 : samples.length = logwt.length) (h2 : logl.length = logwt.length)
    (hz : logz.getLast? = some z) (hnorm : Real.exp z = (logwt.map Real.exp).sum)
    (h : dynestyConv realSOps prior samples logl logwt logz = some ss) : weightSum realSOps ss = 1 := by
  simp only [dynestyConv, hz, Option.some.injEq] at h
  subst h
  rw [weightSum_real, fromLists_w_of_length _ _ _ _ (by simpa using h1) (by simpa using h2) (by simpa using h1)]
  show (logwt.map (fun x => Real.exp (x - z))).sum = 1
  rw [sum_exp_sub, ← hnorm, div_self (Real.exp_ne_zero z)]

/-- **Nautilus weights are normalised** when `posterior()` returns normalised log-weights (its contract) -/
theorem nautilus_weights_sum_one (prior : List ℝ → ℝ) (points : List (List ℝ)) (logw logl : List ℝ)
    (h1 : points.length = logw.length) (h2 : logl.length = logw.length) (hnorm : (logw.map Real.exp).sum = 1) :
    weightSum realSOps (nautilusConv realSOps prior points logw logl) = 1 := by
  rw [weightSum_real, nautilusConv,
    fromLists_w_of_length _ _ _ _ (by simpa using h1) (by simpa using h2) (by simpa using h1)]
  exact hnorm

/-- **UltraNest weights** sum to whatever the sampler's weights sum to (1 by its contract) -/
theorem ultranest_weights_sum (prior : List ℝ → ℝ) (points : List (List ℝ)) (logl weights : List ℝ)
    (h1 : points.length = weights.length) (h2 : logl.length = weights.length) :
    weightSum realSOps (ultranestConv prior points logl weights) = weights.sum := by
  rw [weightSum_real, ultranestConv,
    fromLists_w_of_length _ _ _ _ h1 h2 (by simpa using h1)]

/-- **Uniform weights** (MCMC, optimisers, Drawer: every weight 1) sum to the number of samples -/
theorem uniform_weights_sum (ss : List (Sample ℝ)) (h : ∀ s ∈ ss, s.w = 1) : weightSum realSOps ss = ss.length := by
  rw [weightSum_real]
  induction ss with
  | nil => simp
  | cons s ss ih =>
    simp only [List.map_cons, List.sum_cons, List.length_cons, h s (by simp),
      ih (fun t ht => h t (List.mem_cons_of_mem _ ht))]
    push_cast; ring

example : weightSum intOps [⟨[1], 0, 0, 2⟩, ⟨[2], 0, 0, 3⟩] = 5 := by decide
/-- the hypotheses of `dynesty_weights_sum_one` are satisfiable: one sample, `logz = [logwt]` -/
example : weightSum realSOps ((dynestyConv realSOps (fun _ => 0) [[1]] [2] [3] [3]).getD []) = 1 := by
  have h : dynestyConv realSOps (fun _ => 0) [[1]] [2] [3] [3]
      = some (fromLists [[1]] [2] ([[1]].map (fun _ => (0 : ℝ))) ([3].map (fun x => realSOps.exp (realSOps.sub x 3)))) := rfl
  rw [h, Option.getD_some]
  exact dynesty_weights_sum_one (fun _ => 0) [[1]] [2] [3] [3] 3 _ rfl rfl rfl (by simp) h

/-! ## transformations of a reported sample list -/

/-- **Threshold.** `samples_above_weight_threshold_from` keeps, in order and untouched, exactly the samples
whose weight exceeds the threshold -/
theorem threshold_keeps (o : SOps V) (thr : V) (ss : List (Sample V)) :
    (aboveThreshold o thr ss).Sublist ss ∧
    ∀ s, s ∈ aboveThreshold o thr ss ↔ s ∈ ss ∧ o.lt thr s.w = true :=
  ⟨List.filter_sublist, fun s => by simp [aboveThreshold, List.mem_filter]⟩

/-- … and when the best-fit sample passes the threshold it is still the best fit (same sample, not only the same
likelihood) -/
theorem threshold_keeps_best (o : SOps V)
    (htr : ∀ a b c, o.lt a b = true → o.lt b c = true → o.lt a c = true)
    (hnt : ∀ a b c, o.lt a c = true → o.lt a b = true ∨ o.lt b c = true)
    (thr : V) (ss : List (Sample V)) (b : Sample V) (hb : maxSample o ss = some b) (hw : o.lt thr b.w = true) :
    maxSample o (aboveThreshold o thr ss) = some b := by
  obtain ⟨pre, post, rfl, hpre, hpost⟩ := best_is_first_max o htr hnt ss b hb
  have : aboveThreshold o thr (pre ++ b :: post)
      = pre.filter (fun s => o.lt thr s.w) ++ b :: post.filter (fun s => o.lt thr s.w) := by
    simp [aboveThreshold, hw]
  rw [this]
  exact maxSample_of_first_max o _ _ b (fun s hs => hpre s (List.mem_filter.1 hs).1)
    (fun s hs => hpost s (List.mem_filter.1 hs).1)

example : aboveThreshold intOps 1 [⟨[1], -5, 0, 1⟩, ⟨[2], 3, 0, 2⟩, ⟨[3], 3, 0, 0⟩, ⟨[4], 9, 0, 5⟩]
    = [⟨[2], 3, 0, 2⟩, ⟨[4], 9, 0, 5⟩] := by decide

/-- **Any selection that keeps the best sample keeps the best likelihood** (`<` a linear order, no NaN):
a list made of samples of `ss`, in any order, that contains the best-fit sample of `ss` has the same
best-fit likelihood -/
theorem best_ll_of_selection_with_best (o : SOps V) (hirr : ∀ a, o.lt a a = false)
    (htr : ∀ a b c, o.lt a b = true → o.lt b c = true → o.lt a c = true)
    (hnt : ∀ a b c, o.lt a c = true → o.lt a b = true ∨ o.lt b c = true)
    (htot : ∀ a b, o.lt a b = false → o.lt b a = false → a = b)
    (ss l : List (Sample V)) (b : Sample V) (hb : maxSample o ss = some b) (hsub : ∀ s ∈ l, s ∈ ss) (hmem : b ∈ l) :
    bestLL o l = bestLL o ss := by
  have hss : bestLL o ss = some b.ll := by simp [bestLL, hb]
  cases hl : maxSample o l with
  | none => rw [(best_exists_iff o l).1 hl] at hmem; simp at hmem
  | some c =>
    have hcl : bestLL o l = some c.ll := by simp [bestLL, hl]
    have h1 := (best_is_max o hirr htr hnt l c.ll hcl).2 b hmem
    have hc : c ∈ l := by
      obtain ⟨pre, post, rfl, _, _⟩ := best_is_first_max o htr hnt l c hl
      simp
    have h2 := (best_is_max o hirr htr hnt ss b.ll hss).2 c (hsub c hc)
    rw [hcl, hss, htot _ _ h1 h2]

/-- the position reported with the best sample is its position, and the sample is `max_log_likelihood_sample` -/
theorem maxLLIdx_spec (o : SOps V) (ss : List (Sample V)) :
    (maxLLIdx o ss).map (·.1) = maxSample o ss ∧ ∀ a, maxLLIdx o ss = some a → ss[a.2]? = some a.1 := by
  refine ⟨?_, fun a h => getElem?_of_mem_zipIdx ss a.1 a.2 (pickFirst_mem _ _ a h)⟩
  rw [maxSample_eq_pickFirst]
  have := pickFirst_map (Prod.fst : Sample V × Nat → Sample V) (fun b s => o.lt b.ll s.ll) ss.zipIdx
  rw [List.zipIdx_map_fst] at this
  exact this.symm

/-- **max_log_posterior_index is the first maximum of the posterior** (`np.argmax`) when no posterior is NaN and
`<` is a strict weak order: it is reported with its own position, every earlier sample has a strictly smaller
posterior and no later one a larger one. (With a NaN among the posteriors `np.argmax` returns the first NaN:
`npBetter`, compared with the code on lists containing NaN.) -/
theorem maxPostIdx_first_max (o : SOps V) (nan : V → Bool) (hnan : ∀ x, nan x = false)
    (htr : ∀ a b c, o.lt a b = true → o.lt b c = true → o.lt a c = true)
    (hnt : ∀ a b c, o.lt a c = true → o.lt a b = true ∨ o.lt b c = true)
    (ss : List (Sample V)) (b : Sample V × Nat) (h : maxPostIdx o nan ss = some b) :
    ss[b.2]? = some b.1 ∧ ∃ pre post, ss.zipIdx = pre ++ b :: post ∧
      (∀ s ∈ pre, o.lt (s.1.post o) (b.1.post o) = true) ∧
      (∀ s ∈ post, o.lt (b.1.post o) (s.1.post o) = false) := by
  refine ⟨getElem?_of_mem_zipIdx ss b.1 b.2 (pickFirst_mem _ _ b h), ?_⟩
  have hb : (fun (x y : Sample V × Nat) => npBetter o nan (x.1.post o) (y.1.post o))
      = (fun x y => o.lt ((fun (s : Sample V × Nat) => s.1.post o) x) ((fun (s : Sample V × Nat) => s.1.post o) y)) := by
    funext x y; simp [npBetter, hnan]
  unfold maxPostIdx at h
  rw [hb] at h
  exact pickFirst_first_max o.lt (fun (s : Sample V × Nat) => s.1.post o) htr hnt ss.zipIdx b h

/-- posteriors −5, 3, 6, 6: the first of the two largest is at position 2 -/
example : maxPostIdx intOps (fun _ => false) [⟨[1], -5, 0, 1⟩, ⟨[2], 3, 0, 1⟩, ⟨[3], 2, 4, 1⟩, ⟨[4], 3, 3, 1⟩]
    = some (⟨[3], 2, 4, 1⟩, 2) := by decide
/-- a "NaN" (here: the value 99 is declared one) wins although a larger value follows, and the first one wins -/
example : maxPostIdx intOps (fun x => x == 99) [⟨[1], 1, 0, 1⟩, ⟨[2], 99, 0, 1⟩, ⟨[3], 200, 0, 1⟩, ⟨[4], 99, 0, 1⟩]
    = some (⟨[2], 99, 0, 1⟩, 1) := by decide

/-- **minimise.** whatever the likelihood and posterior values (NaN included): every sample `minimise()` keeps
is the entry of the original list at the position it is reported with, `max_log_likelihood_sample` is among
them, and at most two are kept -/
theorem minimise_sound (o : SOps V) (nan : V → Bool) (ss : List (Sample V)) (l : List (Sample V × Nat))
    (h : minimise o nan ss = some l) :
    (∀ a ∈ l, ss[a.2]? = some a.1) ∧ (∃ a ∈ l, maxSample o ss = some a.1) ∧ l.length ≤ 2 := by
  unfold minimise at h
  cases ha : maxLLIdx o ss with
  | none => simp [ha] at h
  | some a =>
    cases hb : maxPostIdx o nan ss with
    | none => simp [ha, hb] at h
    | some b =>
      have hai := (maxLLIdx_spec o ss).2 a ha
      have hbi := getElem?_of_mem_zipIdx ss b.1 b.2 (pickFirst_mem _ _ b hb)
      have hbest : maxSample o ss = some a.1 := by rw [← (maxLLIdx_spec o ss).1, ha]; rfl
      simp only [ha, hb] at h
      split at h <;> simp only [Option.some.injEq] at h <;> subst h
      · exact ⟨by simpa using hai, ⟨a, by simp, hbest⟩, by simp⟩
      · exact ⟨by simp [hai, hbi], ⟨a, by simp, hbest⟩, by simp⟩

/-- **minimise keeps the best likelihood in whatever order the set is listed** (`<` a linear order) -/
theorem minimise_keeps_best (o : SOps V) (nan : V → Bool) (hirr : ∀ a, o.lt a a = false)
    (htr : ∀ a b c, o.lt a b = true → o.lt b c = true → o.lt a c = true)
    (hnt : ∀ a b c, o.lt a c = true → o.lt a b = true ∨ o.lt b c = true)
    (htot : ∀ a b, o.lt a b = false → o.lt b a = false → a = b)
    (ss : List (Sample V)) (l : List (Sample V × Nat)) (h : minimise o nan ss = some l)
    (order : List (Sample V)) (hperm : order.Perm (l.map (·.1))) : bestLL o order = bestLL o ss := by
  obtain ⟨hidx, ⟨a, hal, hbest⟩, _⟩ := minimise_sound o nan ss l h
  refine best_ll_of_selection_with_best o hirr htr hnt htot ss order a.1 hbest (fun s hs => ?_) ?_
  · obtain ⟨c, hc, rfl⟩ := List.mem_map.1 (hperm.subset hs)
    exact List.mem_of_getElem? (hidx c hc)
  · exact hperm.symm.subset (List.mem_map.2 ⟨a, hal, rfl⟩)

/-- the best likelihood sample is at 1, the best posterior sample at 2: both are kept -/
example : minimise intOps (fun _ => false) [⟨[1], -5, 0, 1⟩, ⟨[2], 3, 0, 1⟩, ⟨[3], 2, 4, 1⟩, ⟨[4], 3, 0, 1⟩]
    = some [(⟨[2], 3, 0, 1⟩, 1), (⟨[3], 2, 4, 1⟩, 2)] := by decide
example : minimise intOps (fun _ => false) wSamples = some [(⟨[2], 3, 0, 1⟩, 1)] := by decide
example : minimise intOps (fun _ => false) ([] : List (Sample Int)) = none := by decide

/-- **with_paths / without_paths keep every sample's likelihood, prior and weight and the values of the keys
they keep**: the kept entries are a sub-list of the stored ones (same order, same values), selected by the
path test alone -/
theorem paths_keep_tuple {A : Type} [DecidableEq A] (paths : List (List A)) (s : KSample (List A) V) :
    ((withPathsK paths s).ll = s.ll ∧ (withPathsK paths s).lp = s.lp ∧ (withPathsK paths s).w = s.w ∧
      (withPathsK paths s).kwargs.Sublist s.kwargs ∧
      ∀ e, e ∈ (withPathsK paths s).kwargs ↔ e ∈ s.kwargs ∧ pathMatch paths e.1 = true) ∧
    ((withoutPathsK paths s).ll = s.ll ∧ (withoutPathsK paths s).lp = s.lp ∧ (withoutPathsK paths s).w = s.w ∧
      (withoutPathsK paths s).kwargs.Sublist s.kwargs ∧
      ∀ e, e ∈ (withoutPathsK paths s).kwargs ↔ e ∈ s.kwargs ∧ pathMatch paths e.1 = false) :=
  ⟨⟨rfl, rfl, rfl, List.filter_sublist, fun e => by simp [withPathsK, List.mem_filter]⟩,
   ⟨rfl, rfl, rfl, List.filter_sublist, fun e => by simp [withoutPathsK, List.mem_filter]⟩⟩

/-- **… and the best fit**: the best sample of the reduced list is the reduction of the best sample; storing
the converted samples under their keys does not move it either -/
theorem paths_keep_best {A : Type} [DecidableEq A] (o : SOps V) (paths : List (List A))
    (ss : List (KSample (List A) V)) :
    maxSampleK o (ss.map (withPathsK paths)) = (maxSampleK o ss).map (withPathsK paths) ∧
    maxSampleK o (ss.map (withoutPathsK paths)) = (maxSampleK o ss).map (withoutPathsK paths) :=
  ⟨pickFirst_map (withPathsK paths) (fun b s => o.lt b.ll s.ll) ss,
   pickFirst_map (withoutPathsK paths) (fun b s => o.lt b.ll s.ll) ss⟩

theorem stored_keep_best {K : Type} (o : SOps V) (keys : List K) (ss : List (Sample V)) :
    maxSampleK o (ss.map (toK keys)) = (maxSample o ss).map (toK keys) := by
  rw [maxSample_eq_pickFirst]
  exact pickFirst_map (toK keys) (fun b s => o.lt b.ll s.ll) ss

/-- naming a sample's own keys keeps all of it -/
theorem with_own_paths {A : Type} [DecidableEq A] (s : KSample (List A) V) :
    withPathsK (s.kwargs.map (·.1)) s = s := by
  have : s.kwargs.filter (fun e => pathMatch (s.kwargs.map (·.1)) e.1) = s.kwargs := by
    rw [List.filter_eq_self]
    intro e he
    simp only [pathMatch, List.any_eq_true]
    exact ⟨e.1, List.mem_map.2 ⟨e, he, rfl⟩, zipAllEq_refl _⟩
  cases s
  simp only [withPathsK] at this ⊢
  simp [this]

def wK : KSample (List String) Int := toK [["g", "a"], ["g", "b"], ["h", "a"]] ⟨[10, 20, 30], 7, 1, 2⟩

example : withPathsK [["g"]] wK = ⟨[(["g", "a"], 10), (["g", "b"], 20)], 7, 1, 2⟩ := by decide
example : withoutPathsK [["g"]] wK = ⟨[(["h", "a"], 30)], 7, 1, 2⟩ := by decide
/-- a key that is a proper prefix of the path matches as well (`zip` stops at the shorter one) -/
example : withPathsK [["h", "a", "zz"]] wK = ⟨[(["h", "a"], 30)], 7, 1, 2⟩ := by decide
example : maxSampleK intOps (wSamples.map (toK [["x"]])) = some (toK [["x"]] ⟨[2], 3, 0, 1⟩) := by decide

end AF.C05
