import AFModel.Ident
import AFModel.IdentComp
import AFProofs.Lemmas.IdentComp
import AFModel.IdentJoin
import AFProofs.Lemmas.IdentJoin
import AFModel.IdentSearch
import AFProofs.Lemmas.IdentSearch

/-!
# C07 — the fit identifier is a stable, sensitive function of what is fitted

Theorems about `tokens` (`AFModel/Ident.lean`), the model of `Identifier._add_value_to_hash_list`.
The identifier is `md5(".".join(tokens))`: md5 and the join are outside the model (trusted base; the
correspondence compares token lists with the real `hash_list`, the oracle compares real identifiers).

*Stability*: `tokens` is a function of the reflection `PyVal` alone — no object identity, address,
hash seed, creation order or internal id can enter, because `PyVal` does not contain any; what the
reflection drops (private keys, `id`, `paths`) is shown irrelevant by `private_fields_irrelevant`.
*Sensitivity*: `plug_sensitive` — a change anywhere at a visible place changes the token list.
-/

namespace AF.C07
open AF

/-- the visible part of a field list -/
def visible (keep : String → Bool) (d : List (String × PyVal)) : List (String × PyVal) :=
  d.filter (fun kv => keep kv.1 && !skipKey kv.1)

theorem tokensFields_append (keep) : ∀ (a b : List (String × PyVal)),
    tokensFields keep (a ++ b) = tokensFields keep a ++ tokensFields keep b
  | [], b => by simp [tokensFields]
  | (k, v) :: a, b => by
    simp only [List.cons_append, tokensFields, tokensFields_append keep a b, List.append_assoc]

theorem tokensList_append : ∀ (a b : List PyVal), tokensList (a ++ b) = tokensList a ++ tokensList b
  | [], b => by simp [tokensList]
  | v :: a, b => by simp only [List.cons_append, tokensList, tokensList_append a b, List.append_assoc]

/-- **Private fields, `id`, `paths` and de-selected attributes are irrelevant**: the tokens of a
field list are those of its visible part. Hence internal ids, labels, caches, frozen flags and
non-identifying settings cannot influence the identifier. -/
theorem private_fields_irrelevant (keep) : ∀ (d : List (String × PyVal)),
    tokensFields keep d = tokensFields (fun _ => true) (visible keep d)
  | [] => by simp [visible, tokensFields]
  | (k, v) :: rest => by
    have ih := private_fields_irrelevant keep rest
    simp only [visible] at ih ⊢
    cases hk : keep k <;> cases hs : skipKey k <;>
      simp [tokensFields, List.filter, hk, hs, ih]

/-- two objects whose visible attributes coincide get the same tokens -/
theorem same_visible_same_tokens (c : String) (mo : Bool) (ctor ex) (d d' : List (String × PyVal))
    (h : visible (keepField mo ctor ex) d = visible (keepField mo ctor ex) d') :
    tokens (.obj c mo none ctor ex d) = tokens (.obj c mo none ctor ex d') := by
  simp only [tokens]
  rw [private_fields_irrelevant _ d, private_fields_irrelevant _ d', h]

/-- with `__identifier_fields__` nothing but those fields (and the class name) matters -/
theorem identifier_fields_only (c : String) (mo mo' : Bool) (fs) (ctor ctor' ex ex') (d d' : List (String × PyVal)) :
    tokens (.obj c mo (some fs) ctor ex d) = tokens (.obj c mo' (some fs) ctor' ex' d') := by
  simp [tokens]

/-! ## sensitivity -/

/-- one step from a value to its parent -/
inductive Step where
  /-- value of identifier field `k` of an object -/
  | idField (c : String) (mo : Bool) (ctor : List String) (ex : Option (List String)) (d : List (String × PyVal))
      (pre : List (String × PyVal)) (k : String) (post : List (String × PyVal))
  /-- value of attribute `k` of an object without identifier fields -/
  | attr (c : String) (mo : Bool) (ctor : List String) (ex : Option (List String))
      (pre : List (String × PyVal)) (k : String) (post : List (String × PyVal))
  /-- value under key `k` of a dict -/
  | item (pre : List (String × PyVal)) (k : String) (post : List (String × PyVal))
  /-- element of a list / tuple -/
  | elem (pre post : List PyVal)

def Step.plug : Step → PyVal → PyVal
  | .idField c mo ctor ex d pre k post, v => .obj c mo (some (pre ++ (k, v) :: post)) ctor ex d
  | .attr c mo ctor ex pre k post, v => .obj c mo none ctor ex (pre ++ (k, v) :: post)
  | .item pre k post, v => .dict (pre ++ (k, v) :: post)
  | .elem pre post, v => .iter (pre ++ v :: post)

/-- the place is one the identifier looks at -/
def Step.visible : Step → Prop
  | .idField _ _ _ _ _ _ k _ => skipKey k = false
  | .attr _ mo ctor ex _ k _ => keepField mo ctor ex k = true ∧ skipKey k = false
  | .item _ k _ => skipKey k = false
  | .elem _ _ => True

theorem fields_sensitive (keep) (pre post : List (String × PyVal)) (k : String) (v v' : PyVal)
    (hk : keep k = true) (hs : skipKey k = false) (h : tokens v ≠ tokens v') :
    tokensFields keep (pre ++ (k, v) :: post) ≠ tokensFields keep (pre ++ (k, v') :: post) := by
  intro he
  simp only [tokensFields_append, tokensFields, hk, hs, Bool.not_false, Bool.and_self, if_true,
    List.cons_append] at he
  have h1 := List.append_cancel_left he
  simp only [List.cons.injEq, true_and] at h1
  exact h (List.append_cancel_right h1)

theorem step_sensitive (s : Step) (hv : s.visible) (v v' : PyVal) (h : tokens v ≠ tokens v') :
    tokens (s.plug v) ≠ tokens (s.plug v') := by
  cases s with
  | idField c mo ctor ex d pre k post =>
    simp only [Step.plug, tokens, ne_eq, List.cons.injEq, true_and]
    exact fields_sensitive _ pre post k v v' rfl hv h
  | attr c mo ctor ex pre k post =>
    simp only [Step.plug, tokens, ne_eq, List.cons.injEq, true_and]
    exact fields_sensitive _ pre post k v v' hv.1 hv.2 h
  | item pre k post =>
    simp only [Step.plug, tokens]
    exact fields_sensitive _ pre post k v v' rfl hv h
  | elem pre post =>
    simp only [Step.plug, tokens, tokensList_append, tokensList, ne_eq]
    intro he
    exact h (List.append_cancel_right (List.append_cancel_left he))

/-- plug a value into a context (innermost step first) -/
def plug : List Step → PyVal → PyVal
  | [], v => v
  | s :: rest, v => plug rest (s.plug v)

/-- **Sensitivity.** Replacing the value at any visible place (any depth, any mixture of objects,
dicts and lists around it) by one with different tokens changes the token list of the whole. -/
theorem plug_sensitive : ∀ (ctx : List Step), (∀ s ∈ ctx, s.visible) → ∀ (v v' : PyVal),
    tokens v ≠ tokens v' → tokens (plug ctx v) ≠ tokens (plug ctx v')
  | [], _, _, _, h => h
  | s :: rest, hv, v, v', h =>
    plug_sensitive rest (fun t ht => hv t (List.mem_cons_of_mem _ ht)) _ _
      (step_sensitive s (hv s (List.mem_cons_self ..)) v v' h)

/-- leaves: a different class, string (tag, name of a setting's value), boolean or float token -/
theorem cls_sensitive (p p' : String) (h : p ≠ p') : tokens (.cls p) ≠ tokens (.cls p') := by
  simpa [tokens] using h
theorem str_sensitive (s s' : String) (h : s ≠ s') : tokens (.str s) ≠ tokens (.str s') := by
  simpa [tokens] using h
theorem bool_sensitive (b b' : Bool) (h : b ≠ b') : tokens (.bool b) ≠ tokens (.bool b') := by
  cases b <;> cases b' <;> simp_all [tokens]
theorem float_sensitive (b b' : UInt64) (h : floatToken b ≠ floatToken b') :
    tokens (.float b) ≠ tokens (.float b') := by
  simpa [tokens] using h
/-- … and the class *name* of an object (prior type, search type, component type) -/
theorem class_name_sensitive (c c' : String) (mo idf ctor ex d) (h : c ≠ c') :
    tokens (.obj c mo idf ctor ex d) ≠ tokens (.obj c' mo idf ctor ex d) := by
  cases idf with
  | none => intro he; simp only [tokens, List.cons.injEq] at he; exact h he.1
  | some fs => intro he; simp only [tokens, List.cons.injEq] at he; exact h he.1

/-! ## non-vacuity and the recorded blind spot

`UniformPrior(0,1)` reflected; a model `M(centre=p, sigma=p)` with one shared prior and a model
with two equal independent priors have the *same* reflection, hence the same tokens: the identifier
cannot see the sharing pattern (known finding C07-sharing-blind; the reflection is faithful here,
the real identifiers coincide — replayed by the harness on every run). -/

def prior01 : PyVal := .obj "UniformPrior" true (some [("lower_limit", .float 0), ("upper_limit", .float 0x3ff0000000000000)]) [] none []
def modelM : PyVal := .obj "Model" true none [] none
  [("cls", .cls "vlib.P2"), ("id", .int 7), ("_label", .str "x"), ("a", prior01), ("b", prior01)]

example : tokens modelM = ["Model", "cls", "vlib.P2", "a", "UniformPrior", "lower_limit", floatToken 0, "upper_limit",
    floatToken 0x3ff0000000000000, "b", "UniformPrior", "lower_limit", floatToken 0, "upper_limit", floatToken 0x3ff0000000000000] := by
  simp [modelM, prior01, tokens, tokensFields, keepField, skipKey]
example : (Step.attr "Model" true [] none [("cls", .cls "vlib.P2")] "a" [("b", prior01)]).visible := by
  simp [Step.visible, keepField, skipKey]

/-! ## the identifier as a function of the composition (`AFModel/IdentComp.lean`)

`reflect t` is the `__dict__` graph of the real model objects of composition `t` (internal ids, labels,
assertions, `_left` / `_right`, frozen caches included), `ctokens t` the closed form that never looks at
`Meta`. The driver executes both on every generated model and the harness compares both with
`Identifier(model).hash_list`. -/

open AF.IdentComp

/-- **Closed form.** The tokens of the reflected object graph are a function of the composition alone. -/
theorem tokens_reflect_closed_form (t : CNode) : tokens (reflect t) = ctokens t := tokens_reflect t

/-- **Stability.** Whatever is done to the internal ids, labels and assertions of every object of a
composition — by any function, not only injective ones — the tokens stay the same. -/
theorem tokens_ignore_meta (f : Meta → Meta) (t : CNode) :
    tokens (reflect (t.mapMeta f)) = tokens (reflect t) := by
  rw [tokens_reflect, tokens_reflect, ctokens_mapMeta]

/-- renaming of internal ids: creation order, id offsets of another process, copies -/
theorem tokens_rename_ids (σ : Nat → Nat) (t : CNode) :
    tokens (reflect (t.renameIds σ)) = tokens (reflect t) := tokens_ignore_meta _ t

theorem tokens_relabel (f : Option String → Option String) (t : CNode) :
    tokens (reflect (t.relabel f)) = tokens (reflect t) := tokens_ignore_meta _ t

/-- assertions attached to any component never enter the identifier -/
theorem tokens_ignore_assertions (f : List String → List String) (t : CNode) :
    tokens (reflect (t.setAsserts f)) = tokens (reflect t) := tokens_ignore_meta _ t

/-- the whole fit `[search, model(, tag)]` likewise -/
theorem fit_ignores_meta (f : Meta → Meta) (s : PyVal) (t : CNode) (tag : Option String) :
    tokens (fitVal s (t.mapMeta f) tag) = tokens (fitVal s t tag) := by
  simp only [fitVal, tokens, tokensList, tokens_ignore_meta]

/-- **Sensitivity over compositions.** Replacing the component at any visible place of ANY composition
(any depth: attributes of models, collections, tuples, arrays, fixed instances, operands of arithmetic
priors, list elements) by one with different tokens changes the tokens of the whole. -/
theorem comp_plug_sensitive : ∀ (ctx : List CStep), (∀ s ∈ ctx, s.visible) → ∀ (v w : CNode),
    tokens (reflect v) ≠ tokens (reflect w) → tokens (reflect (cplug ctx v)) ≠ tokens (reflect (cplug ctx w))
  | [], _, _, _, h => h
  | s :: rest, hv, v, w, h =>
    comp_plug_sensitive rest (fun t ht => hv t (List.mem_cons_of_mem _ ht)) _ _ (by
      rw [tokens_reflect, tokens_reflect] at h ⊢
      exact cstep_sensitive s (hv s (List.mem_cons_self ..)) v w h)

/-- … and of the fit it belongs to (same search, same tag) -/
theorem fit_model_sensitive (s : PyVal) (t u : CNode) (tag : Option String)
    (h : tokens (reflect t) ≠ tokens (reflect u)) : tokens (fitVal s t tag) ≠ tokens (fitVal s u tag) := by
  simp only [fitVal, tokens, tokensList, ne_eq]
  intro he
  exact h (List.append_cancel_right (List.append_cancel_left he))

/-- a different unique tag (same search and model) -/
theorem fit_tag_sensitive (s : PyVal) (t : CNode) (a b : String) (h : a ≠ b) :
    tokens (fitVal s t (some a)) ≠ tokens (fitVal s t (some b)) := by
  simp only [fitVal, tokens, tokensList, ne_eq, List.append_nil]
  intro he
  have h1 := List.append_cancel_left (List.append_cancel_left he)
  simp only [List.cons.injEq, and_true] at h1
  exact h h1

/-- a tag against no tag -/
theorem fit_tag_presence_sensitive (s : PyVal) (t : CNode) (a : String) :
    tokens (fitVal s t (some a)) ≠ tokens (fitVal s t none) := by
  simp only [fitVal, tokens, tokensList, ne_eq, List.append_nil]
  intro he
  have h1 := List.append_cancel_left he
  have h2 := congrArg List.length h1
  simp at h2

/-! ### leaves: what differs between two components -/

theorem kind_className_injective : ∀ (k j : PriorKind), k.className = j.className → k = j := by
  intro k j; cases k <;> cases j <;> simp [PriorKind.className]

/-- the prior type -/
theorem prior_kind_sensitive (m n : Meta) (k j : PriorKind) (lo hi mean sigma lo2 hi2 mean2 sigma2 : UInt64) (h : k ≠ j) :
    tokens (reflect (.prior m k lo hi mean sigma)) ≠ tokens (reflect (.prior n j lo2 hi2 mean2 sigma2)) := by
  rw [tokens_reflect, tokens_reflect]
  simp only [ctokens, ne_eq, List.cons.injEq, not_and]
  intro hc
  exact absurd (kind_className_injective k j hc) h

/-- the lower limit of a prior (beyond the 1e-8 quantisation: different float tokens) -/
theorem prior_lower_sensitive (m n : Meta) (k : PriorKind) (lo lo2 hi mean sigma : UInt64)
    (h : floatToken lo ≠ floatToken lo2) :
    tokens (reflect (.prior m k lo hi mean sigma)) ≠ tokens (reflect (.prior n k lo2 hi mean sigma)) := by
  rw [tokens_reflect, tokens_reflect]
  simp [ctokens, priorTokens, h]

theorem prior_upper_sensitive (m n : Meta) (k : PriorKind) (lo hi hi2 mean sigma : UInt64)
    (h : floatToken hi ≠ floatToken hi2) :
    tokens (reflect (.prior m k lo hi mean sigma)) ≠ tokens (reflect (.prior n k lo hi2 mean sigma)) := by
  rw [tokens_reflect, tokens_reflect]
  simp [ctokens, priorTokens, h]

theorem prior_mean_sensitive (m n : Meta) (k : PriorKind) (lo hi mean mean2 sigma : UInt64)
    (hk : k.hasMeanSigma = true) (h : floatToken mean ≠ floatToken mean2) :
    tokens (reflect (.prior m k lo hi mean sigma)) ≠ tokens (reflect (.prior n k lo hi mean2 sigma)) := by
  rw [tokens_reflect, tokens_reflect]
  simp [ctokens, priorTokens, hk, h]

theorem prior_sigma_sensitive (m n : Meta) (k : PriorKind) (lo hi mean sigma sigma2 : UInt64)
    (hk : k.hasMeanSigma = true) (h : floatToken sigma ≠ floatToken sigma2) :
    tokens (reflect (.prior m k lo hi mean sigma)) ≠ tokens (reflect (.prior n k lo hi mean sigma2)) := by
  rw [tokens_reflect, tokens_reflect]
  simp [ctokens, priorTokens, hk, h]

/-- a fixed value (beyond the 1e-8 quantisation) -/
theorem const_sensitive (a b : UInt64) (h : floatToken a ≠ floatToken b) :
    tokens (reflect (.flt a)) ≠ tokens (reflect (.flt b)) := by
  rw [tokens_reflect, tokens_reflect]
  simpa [ctokens] using h

/-- a prior against a fixed value at the same place -/
theorem prior_vs_const_sensitive (m : Meta) (k : PriorKind) (lo hi mean sigma a : UInt64) :
    tokens (reflect (.prior m k lo hi mean sigma)) ≠ tokens (reflect (.flt a)) := by
  rw [tokens_reflect, tokens_reflect]
  intro he
  have := congrArg List.length he
  cases hk : k.hasMeanSigma <;> simp [ctokens, priorTokens, hk] at this

/-- the class of a component -/
theorem model_class_sensitive (m n : Meta) (p q : String) (attrs : List (String × CNode)) (h : p ≠ q) :
    tokens (reflect (.model m p attrs)) ≠ tokens (reflect (.model n q attrs)) := by
  rw [tokens_reflect, tokens_reflect]
  simp [ctokens, h]

/-- the name of a parameter / component of a model … -/
theorem model_attr_name_sensitive (m n : Meta) (p : String) (pre post : List (String × CNode)) (k j : String) (v : CNode)
    (hk : skipKey k = false) (hj : skipKey j = false) (h : k ≠ j) :
    tokens (reflect (.model m p (pre ++ (k, v) :: post))) ≠ tokens (reflect (.model n p (pre ++ (j, v) :: post))) := by
  rw [tokens_reflect, tokens_reflect]
  simp only [ctokens, ne_eq, List.cons.injEq, true_and]
  exact cattrs_name_sensitive _ pre post k j v rfl hk rfl hj h

/-- … and of a collection -/
theorem coll_attr_name_sensitive (m n : Meta) (i : Nat) (pre post : List (String × CNode)) (k j : String) (v : CNode)
    (hk : skipKey k = false) (hj : skipKey j = false) (h : k ≠ j) :
    tokens (reflect (.coll m i (pre ++ (k, v) :: post))) ≠ tokens (reflect (.coll n i (pre ++ (j, v) :: post))) := by
  rw [tokens_reflect, tokens_reflect]
  simp only [ctokens, ne_eq, List.cons.injEq, true_and]
  exact cattrs_name_sensitive _ pre post k j v rfl hk rfl hj h

/-- the arithmetic operation of a compound prior -/
theorem arith_op_sensitive (m n : Meta) (op op2 : BinOp) (ln rn : String) (l r : CNode)
    (h : op.className ≠ op2.className) :
    tokens (reflect (.arith m op ln rn l r)) ≠ tokens (reflect (.arith n op2 ln rn l r)) := by
  rw [tokens_reflect, tokens_reflect]
  simp [ctokens, h]

/-! ### non-vacuity, and the recorded blind spots restated on compositions -/

def m0 : Meta := ⟨0, none, []⟩
def m1 : Meta := ⟨1, some "sigma", ["a < b"]⟩
def u01 (m : Meta) : CNode := .prior m .uniform 0 0x3ff0000000000000 0 0
/-- `Collection(g=Model(P2, a=U(0,1), b=U(0,1)), k=2.0)` with two independent priors -/
def compIndep : CNode :=
  .coll ⟨3, none, []⟩ 0 [("g", .model ⟨2, some "g", ["a < b"]⟩ "vlib.P2" [("a", u01 m0), ("b", u01 m1)]), ("k", .flt 0x4000000000000000)]

example : ctokens compIndep =
    ["Collection", "item_number", "0", "g", "Model", "cls", "vlib.P2", "a", "UniformPrior", "lower_limit", floatToken 0,
      "upper_limit", floatToken 0x3ff0000000000000, "b", "UniformPrior", "lower_limit", floatToken 0, "upper_limit",
      floatToken 0x3ff0000000000000, "k", floatToken 0x4000000000000000] := by
  have h0 : Int.repr 0 = "0" := by decide
  simp [compIndep, u01, ctokens, ctokensAttrs, priorTokens, PriorKind.className, PriorKind.hasMeanSigma, skipKey, h0]

/-- the place `g.b` of `compIndep` as a context: both steps are visible, `comp_plug_sensitive` applies -/
def ctxGB : List CStep :=
  [.modelAttr ⟨2, some "g", []⟩ "vlib.P2" [("a", u01 m0)] "b" [],
   .collAttr ⟨3, none, []⟩ 0 [] "g" [("k", .flt 0x4000000000000000)]]
example : ∀ s ∈ ctxGB, s.visible := by
  intro s hs
  simp only [ctxGB, List.mem_cons, List.mem_nil_iff, or_false] at hs
  rcases hs with rfl | rfl <;> simp [CStep.visible, skipKey]
example : (compIndep.renameIds (· + 40)).priorIds = [40, 41] := by
  simp [compIndep, u01, m0, m1, CNode.renameIds, CNode.mapMeta, mapMetaAttrs, CNode.priorIds, priorIdsAttrs]
example : PriorKind.uniform ≠ PriorKind.logUniform := by decide
example : PriorKind.gaussian.hasMeanSigma = true := rfl

/-- **Recorded blind spot (known finding C07-sharing-blind), on compositions.** `tokens_rename_ids`
holds for every map of ids, also one that merges two priors into one: a composition with two
independent equal priors (2 parameters) and the one where both places hold the same prior
(1 parameter) have the same tokens. The property's clause "differs whenever the sharing pattern
differs" is refuted by this witness; the stable half (injective renamings) is `tokens_rename_ids`. -/
theorem sharing_sensitive_refuted :
    ∃ t u : CNode, t.priorIds = [0, 1] ∧ u.priorIds = [0, 0] ∧ tokens (reflect t) = tokens (reflect u) := by
  refine ⟨compIndep, compIndep.renameIds (fun _ => 0), ?_, ?_, (tokens_rename_ids _ _).symm⟩ <;>
    simp [compIndep, u01, m0, m1, CNode.renameIds, CNode.mapMeta, mapMetaAttrs, CNode.priorIds, priorIdsAttrs]

/-- **Recorded over-sensitivity (known findings C07-reload-arith-names / caller variable names), on
compositions.** The names under which a compound prior stores its operands are tokens: the same
arithmetic with other operand names (another caller variable, or `left_` / `right_` after a reload)
has other tokens. -/
theorem arith_operand_names_enter_refuted (m : Meta) (op : BinOp) (ln ln2 rn : String) (l r : CNode)
    (h1 : ln ≠ rn) (h2 : ln2 ≠ rn) (hs : skipKey ln = false) (hs2 : skipKey ln2 = false) (h : ln ≠ ln2) :
    tokens (reflect (.arith m op ln rn l r)) ≠ tokens (reflect (.arith m op ln2 rn l r)) := by
  rw [tokens_reflect, tokens_reflect]
  simp [ctokens, h1, h2, hs, hs2, h]

example : skipKey "alpha" = false ∧ skipKey "left_" = false ∧ "alpha" ≠ "left_" ∧ "alpha" ≠ "right_" := by
  simp [skipKey]

/-! ## the text that is hashed: `".".join(hash_list)` (`AFModel/IdentJoin.lean`) -/

open AF.IdentJoin

/-- **What the join forgets, exactly.** Two non-empty token lists are joined to the same text (and so
get the same md5) if and only if they coincide after every token is cut at its dots. -/
theorem join_eq_iff_pieces (l m : List String) (hl : l ≠ []) (hm : m ≠ []) :
    joinTokens l = joinTokens m ↔ tokenPieces l = tokenPieces m := by
  have hl2 : l.map String.toList ≠ [] := by simpa using hl
  have hm2 : m.map String.toList ≠ [] := by simpa using hm
  rw [← String.toList_inj, joinTokens_toList, joinTokens_toList, joinChars_eq_iff _ _ hl2 hm2]
  constructor
  · intro h; simp only [tokenPieces, h]
  · intro h; exact map_ofList_injective _ _ h

/-- on token lists without dots inside tokens the join is injective -/
theorem join_injective_on_dotfree (l m : List String) (hl : l ≠ []) (hm : m ≠ [])
    (dl : ∀ t ∈ l, dotFree t.toList = true) (dm : ∀ t ∈ m, dotFree t.toList = true)
    (h : joinTokens l = joinTokens m) : l = m := by
  have hl2 : l.map String.toList ≠ [] := by simpa using hl
  have hm2 : m.map String.toList ≠ [] := by simpa using hm
  rw [← String.toList_inj, joinTokens_toList, joinTokens_toList, joinChars_eq_iff _ _ hl2 hm2] at h
  rw [piecesOfTokens_dotFree, piecesOfTokens_dotFree] at h
  · exact map_toList_injective l m h
  · intro t ht; obtain ⟨u, hu, rfl⟩ := List.mem_map.mp ht; exact dm u hu
  · intro t ht; obtain ⟨u, hu, rfl⟩ := List.mem_map.mp ht; exact dl u hu

/-- merging two neighbouring tokens into one with a dot between them does not change the text -/
theorem join_merge_adjacent (pre : List String) (a b : String) (post : List String) :
    joinTokens (pre ++ a :: b :: post) = joinTokens (pre ++ (a ++ "." ++ b) :: post) := by
  rw [← String.toList_inj, joinTokens_toList, joinTokens_toList]
  simp only [List.map_append, List.map_cons, String.toList_append]
  have : ".".toList = ['.'] := by decide
  rw [this]
  simpa using joinChars_merge (pre.map String.toList) a.toList b.toList (post.map String.toList)

/-- **Recorded defect (known finding C07-join-ambiguous).** Two different fits with the same identifier:
a model whose last token is a fixed string `a`, fitted under the unique tag `b`, and the same model with
the string `a.b`, fitted without a tag, have different token lists but the same hashed text (reproduced on
the real code by the harness on every run, with a second witness: the list of integers `[1, 0]` against
the list `[1.0]` inside a fixed component). -/
theorem fit_join_collision_refuted (s : PyVal) (m : Meta) (path k a b : String) (hk : skipKey k = false) :
    tokens (fitVal s (.model m path [(k, .str a)]) (some b))
        ≠ tokens (fitVal s (.model m path [(k, .str (a ++ "." ++ b))]) none)
      ∧ joinTokens (tokens (fitVal s (.model m path [(k, .str a)]) (some b)))
        = joinTokens (tokens (fitVal s (.model m path [(k, .str (a ++ "." ++ b))]) none)) := by
  have e1 : tokens (fitVal s (.model m path [(k, .str a)]) (some b))
      = (tokens s ++ ["Model", "cls", path, k]) ++ a :: b :: [] := by
    simp [fitVal, tokens, tokensList, tokens_reflect, ctokens, ctokensAttrs, hk]
  have e2 : tokens (fitVal s (.model m path [(k, .str (a ++ "." ++ b))]) none)
      = (tokens s ++ ["Model", "cls", path, k]) ++ (a ++ "." ++ b) :: [] := by
    simp [fitVal, tokens, tokensList, tokens_reflect, ctokens, ctokensAttrs, hk]
  rw [e1, e2]
  refine ⟨?_, join_merge_adjacent _ a b []⟩
  intro he
  have := congrArg List.length he
  simp at this

example : joinTokens ["Lst", "values", "1", "0", "k"] = joinTokens ["Lst", "values", "1.0", "k"] :=
  join_merge_adjacent ["Lst", "values"] "1" "0" ["k"]
example : tokenPieces ["vlib.P2", "a", "1.5"] = ["vlib", "P2", "a", "1", "5"] := by decide
example : dotFree "lower_limit".toList = true := by decide

/-! ## which settings identify a search: over the generated table (`AFModel/Generated/C07.lean`)

The table is regenerated from the repository source before every build; the theorems below are about
*every* row of it, so they are re-proved for whatever the source declares. -/

open AF.Generated.C07

/-- **Every identifying setting of every search class is sensitive**: changing it (to a value with other
tokens, everything else equal) changes the tokens of the search. -/
theorem every_identifying_setting_sensitive : ∀ row ∈ searchTable, ∀ f ∈ row.idf, ∀ (σ τ : String → PyVal),
    tokens (σ f) ≠ tokens (τ f) → (∀ g, g ≠ f → σ g = τ g) → tokens (searchVal row σ) ≠ tokens (searchVal row τ) :=
  fun row hr f hf σ τ hd hsame =>
    AF.IdentSearch.search_field_sensitive row (AF.IdentSearch.table_fields_nodup row hr) f hf
      (AF.IdentSearch.table_fields_visible row hr f hf) σ τ hd hsame

/-- **No other setting is**: changing any setting that is not an identifying one (iterations per update,
number of cores, name, path prefix, run settings …) leaves the tokens unchanged — for every search class. -/
theorem no_other_setting_identifying : ∀ row ∈ searchTable, ∀ g ∈ row.others, ∀ (σ τ : String → PyVal),
    (∀ f, f ≠ g → σ f = τ f) → tokens (searchVal row σ) = tokens (searchVal row τ) :=
  fun row hr g hg σ τ hsame =>
    AF.IdentSearch.search_tokens_only_identifying row σ τ
      (fun f hf => hsame f (fun e => AF.IdentSearch.table_others_disjoint row hr g hg (e ▸ hf)))

/-- two search classes never share their tokens (class names in the table are distinct, the name is the first token) -/
theorem search_class_sensitive (r1 r2 : SearchRow) (σ τ : String → PyVal) (h : r1.name ≠ r2.name) :
    tokens (searchVal r1 σ) ≠ tokens (searchVal r2 τ) := by
  simp only [searchVal, tokens, ne_eq, List.cons.injEq, not_and]
  intro e; exact absurd e h

theorem search_class_names_distinct : (searchTable.map (·.name)).Nodup := AF.IdentSearch.table_names_nodup

/-- the prior kinds of the composition model carry exactly the identifier fields the source declares -/
theorem prior_kinds_match_source : ∀ k ∈ allKinds, priorTable.lookup k.className = some (priorFieldNames k) :=
  AF.IdentSearch.prior_table_matches

/-- … and the source declares no prior class the composition model does not know -/
theorem prior_kinds_complete : priorTable.map (·.1) = ["GaussianPrior", "LogGaussianPrior", "LogUniformPrior", "UniformPrior"] :=
  AF.IdentSearch.prior_table_complete

example : (lookupRow "Drawer").map (·.idf) = some ["total_draws"] := by decide
example : ∃ row ∈ searchTable, "nlive" ∈ row.idf ∧ "iterations_per_update" ∈ row.others := by decide
example : tokens (.int 50) ≠ tokens (.int 51) := by decide

end AF.C07
