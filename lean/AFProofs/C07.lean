import AFModel.Ident

/-!
# C07 — the fit identifier is a stable, sensitive function of what is fitted

Theorems about `tokens` (`AFModel/Ident.lean`), the model of `Identifier._add_value_to_hash_list`.
The identifier is `md5(".".join(tokens))`: md5 and the join are outside the model (trusted base; the
correspondence compares token lists with the real `hash_list`, the oracle compares real identifiers).

*Stability*: `tokens` is a function of the reflection `PyVal` alone — no object identity, address,
hash seed, creation order or internal id can enter, because `PyVal` does not contain any; what the
reflection drops (private keys, `id`, `paths`) is shown irrelevant by `private_fields_irrelevant`.
*Sensitivity*: `plug_sensitive` — a change anywhere at a visible place changes the token list.
-/

namespace AF.C07
open AF

/-- the visible part of a field list -/
def visible (keep : String → Bool) (d : List (String × PyVal)) : List (String × PyVal) :=
  d.filter (fun kv => keep kv.1 && !skipKey kv.1)

theorem tokensFields_append (keep) : ∀ (a b : List (String × PyVal)),
    tokensFields keep (a ++ b) = tokensFields keep a ++ tokensFields keep b
  | [], b => by simp [tokensFields]
  | (k, v) :: a, b => by
    simp only [List.cons_append, tokensFields, tokensFields_append keep a b, List.append_assoc]

theorem tokensList_append : ∀ (a b : List PyVal), tokensList (a ++ b) = tokensList a ++ tokensList b
  | [], b => by simp [tokensList]
  | v :: a, b => by simp only [List.cons_append, tokensList, tokensList_append a b, List.append_assoc]

/-- **Private fields, `id`, `paths` and de-selected attributes are irrelevant**: the tokens of a
field list are those of its visible part. Hence internal ids, labels, caches, frozen flags and
non-identifying settings cannot influence the identifier. -/
theorem private_fields_irrelevant (keep) : ∀ (d : List (String × PyVal)),
    tokensFields keep d = tokensFields (fun _ => true) (visible keep d)
  | [] => by simp [visible, tokensFields]
  | (k, v) :: rest => by
    have ih := private_fields_irrelevant keep rest
    simp only [visible] at ih ⊢
    cases hk : keep k <;> cases hs : skipKey k <;>
      simp [tokensFields, List.filter, hk, hs, ih]

/-- two objects whose visible attributes coincide get the same tokens -/
theorem same_visible_same_tokens (c : String) (mo : Bool) (ctor ex) (d d' : List (String × PyVal))
    (h : visible (keepField mo ctor ex) d = visible (keepField mo ctor ex) d') :
    tokens (.obj c mo none ctor ex d) = tokens (.obj c mo none ctor ex d') := by
  simp only [tokens]
  rw [private_fields_irrelevant _ d, private_fields_irrelevant _ d', h]

/-- with `__identifier_fields__` nothing but those fields (and the class name) matters -/
theorem identifier_fields_only (c : String) (mo mo' : Bool) (fs) (ctor ctor' ex ex') (d d' : List (String × PyVal)) :
    tokens (.obj c mo (some fs) ctor ex d) = tokens (.obj c mo' (some fs) ctor' ex' d') := by
  simp [tokens]

/-! ## sensitivity -/

/-- one step from a value to its parent -/
inductive Step where
  /-- value of identifier field `k` of an object -/
  | idField (c : String) (mo : Bool) (ctor : List String) (ex : Option (List String)) (d : List (String × PyVal))
      (pre : List (String × PyVal)) (k : String) (post : List (String × PyVal))
  /-- value of attribute `k` of an object without identifier fields -/
  | attr (c : String) (mo : Bool) (ctor : List String) (ex : Option (List String))
      (pre : List (String × PyVal)) (k : String) (post : List (String × PyVal))
  /-- value under key `k` of a dict -/
  | item (pre : List (String × PyVal)) (k : String) (post : List (String × PyVal))
  /-- element of a list / tuple -/
  | elem (pre post : List PyVal)

def Step.plug : Step → PyVal → PyVal
  | .idField c mo ctor ex d pre k post, v => .obj c mo (some (pre ++ (k, v) :: post)) ctor ex d
  | .attr c mo ctor ex pre k post, v => .obj c mo none ctor ex (pre ++ (k, v) :: post)
  | .item pre k post, v => .dict (pre ++ (k, v) :: post)
  | .elem pre post, v => .iter (pre ++ v :: post)

/-- the place is one the identifier looks at -/
def Step.visible : Step → Prop
  | .idField _ _ _ _ _ _ k _ => skipKey k = false
  | .attr _ mo ctor ex _ k _ => keepField mo ctor ex k = true ∧ skipKey k = false
  | .item _ k _ => skipKey k = false
  | .elem _ _ => True

theorem fields_sensitive (keep) (pre post : List (String × PyVal)) (k : String) (v v' : PyVal)
    (hk : keep k = true) (hs : skipKey k = false) (h : tokens v ≠ tokens v') :
    tokensFields keep (pre ++ (k, v) :: post) ≠ tokensFields keep (pre ++ (k, v') :: post) := by
  intro he
  simp only [tokensFields_append, tokensFields, hk, hs, Bool.not_false, Bool.and_self, if_true,
    List.cons_append] at he
  have h1 := List.append_cancel_left he
  simp only [List.cons.injEq, true_and] at h1
  exact h (List.append_cancel_right h1)

theorem step_sensitive (s : Step) (hv : s.visible) (v v' : PyVal) (h : tokens v ≠ tokens v') :
    tokens (s.plug v) ≠ tokens (s.plug v') := by
  cases s with
  | idField c mo ctor ex d pre k post =>
    simp only [Step.plug, tokens, ne_eq, List.cons.injEq, true_and]
    exact fields_sensitive _ pre post k v v' rfl hv h
  | attr c mo ctor ex pre k post =>
    simp only [Step.plug, tokens, ne_eq, List.cons.injEq, true_and]
    exact fields_sensitive _ pre post k v v' hv.1 hv.2 h
  | item pre k post =>
    simp only [Step.plug, tokens]
    exact fields_sensitive _ pre post k v v' rfl hv h
  | elem pre post =>
    simp only [Step.plug, tokens, tokensList_append, tokensList, ne_eq]
    intro he
    exact h (List.append_cancel_right (List.append_cancel_left he))

/-- plug a value into a context (innermost step first) -/
def plug : List Step → PyVal → PyVal
  | [], v => v
  | s :: rest, v => plug rest (s.plug v)

/-- **Sensitivity.** Replacing the value at any visible place (any depth, any mixture of objects,
dicts and lists around it) by one with different tokens changes the token list of the whole. -/
theorem plug_sensitive : ∀ (ctx : List Step), (∀ s ∈ ctx, s.visible) → ∀ (v v' : PyVal),
    tokens v ≠ tokens v' → tokens (plug ctx v) ≠ tokens (plug ctx v')
  | [], _, _, _, h => h
  | s :: rest, hv, v, v', h =>
    plug_sensitive rest (fun t ht => hv t (List.mem_cons_of_mem _ ht)) _ _
      (step_sensitive s (hv s (List.mem_cons_self ..)) v v' h)

/-- leaves: a different class, string (tag, name of a setting's value), boolean or float token -/
theorem cls_sensitive (p p' : String) (h : p ≠ p') : tokens (.cls p) ≠ tokens (.cls p') := by
  simpa [tokens] using h
theorem str_sensitive (s s' : String) (h : s ≠ s') : tokens (.str s) ≠ tokens (.str s') := by
  simpa [tokens] using h
theorem bool_sensitive (b b' : Bool) (h : b ≠ b') : tokens (.bool b) ≠ tokens (.bool b') := by
  cases b <;> cases b' <;> simp_all [tokens]
theorem float_sensitive (b b' : UInt64) (h : floatToken b ≠ floatToken b') :
    tokens (.float b) ≠ tokens (.float b') := by
  simpa [tokens] using h
/-- … and the class *name* of an object (prior type, search type, component type) -/
theorem class_name_sensitive (c c' : String) (mo idf ctor ex d) (h : c ≠ c') :
    tokens (.obj c mo idf ctor ex d) ≠ tokens (.obj c' mo idf ctor ex d) := by
  cases idf with
  | none => intro he; simp only [tokens, List.cons.injEq] at he; exact h he.1
  | some fs => intro he; simp only [tokens, List.cons.injEq] at he; exact h he.1

/-! ## non-vacuity and the recorded blind spot

`UniformPrior(0,1)` reflected; a model `M(centre=p, sigma=p)` with one shared prior and a model
with two equal independent priors have the *same* reflection, hence the same tokens: the identifier
cannot see the sharing pattern (known finding C07-sharing-blind; the reflection is faithful here,
the real identifiers coincide — replayed by the harness on every run). -/

def prior01 : PyVal := .obj "UniformPrior" true (some [("lower_limit", .float 0), ("upper_limit", .float 0x3ff0000000000000)]) [] none []
def modelM : PyVal := .obj "Model" true none [] none
  [("cls", .cls "vlib.P2"), ("id", .int 7), ("_label", .str "x"), ("a", prior01), ("b", prior01)]

example : tokens modelM = ["Model", "cls", "vlib.P2", "a", "UniformPrior", "lower_limit", floatToken 0, "upper_limit",
    floatToken 0x3ff0000000000000, "b", "UniformPrior", "lower_limit", floatToken 0, "upper_limit", floatToken 0x3ff0000000000000] := by
  simp [modelM, prior01, tokens, tokensFields, keepField, skipKey]
example : (Step.attr "Model" true [] none [("cls", .cls "vlib.P2")] "a" [("b", prior01)]).visible := by
  simp [Step.visible, keepField, skipKey]

end AF.C07
