import AFProofs.Lemmas.CompSpec
import AFProofs.Lemmas.NameOrd
import AFModel.FloatOps
import AFProofs.Lemmas.NameKey
import AFProofs.Lemmas.Build

/-!
# C01 — parameter vector ↔ model instance correspondence

Property theorems about the `Comp` model (`AFModel/Comp.lean`), for every composition `t`, every
value type `V`, every vector. The model is tied to /repo by `harness/c01.py`.
-/

namespace AF.C01
open AF

variable {V : Type} [Inhabited V]
set_option linter.unusedSectionVars false

/-- The parameter order is strictly increasing in prior id: no parameter appears twice. -/
theorem ids_strictly_increasing (t : Node V) : (uniqueIds t).Pairwise (· < ·) :=
  sorted_sortDedup _

/-- A parameter is counted iff it occurs at some place: `prior_count` is the number of *distinct*
free parameters however many places share them. -/
theorem counted_iff_occurs (t : Node V) (id : Nat) :
    id ∈ uniqueIds t ↔ ∃ p, (p, id) ∈ walk t := by
  simp only [uniqueIds]
  rw [mem_sortDedup]
  constructor
  · intro h
    obtain ⟨⟨p, i⟩, hm, rfl⟩ := List.mem_map.mp h
    exact ⟨p, hm⟩
  · rintro ⟨p, hp⟩
    exact List.mem_map.mpr ⟨(p, id), hp, rfl⟩

theorem count_eq_length_distinct (t : Node V) :
    count t = (uniqueIds t).length ∧ (uniqueIds t).Nodup :=
  ⟨rfl, nodup_of_sorted (sorted_sortDedup _)⟩

/-- `paths` lists every place exactly once (a permutation of the walk) in id order. -/
theorem advertised_paths_complete_and_sorted (t : Node V) :
    (pathPriors t).Perm (walk t) ∧ (pathPriors t).Pairwise (fun a b => a.2 ≤ b.2) :=
  ⟨perm_sortById _, sorted_sortById _⟩

/-- The argument dictionary maps the i-th parameter to the i-th value. -/
theorem args_of_vector (t : Node V) (v : List V) (hl : v.length = count t)
    (i : Nat) (hi : i < count t) :
    lookupArg (argsOfVector t v) ((uniqueIds t)[i]'hi) = some (v[i]'(hl ▸ hi)) :=
  lookup_zip_get (uniqueIds t) v (nodup_of_sorted (sorted_sortDedup _)) hl.symm i hi (hl ▸ hi)

/-- **Placement.** Building an instance from a vector puts the i-th value at *every* addressable
place of the i-th parameter (shared parameters included: the quantifier is over all places). -/
theorem vector_placement (ops : Ops V) (t : Node V) (v : List V) (hw : WF t)
    (hl : v.length = count t) (i : Nat) (hi : i < count t) (p : Path)
    (hp : (p, Leaf.prior ((uniqueIds t)[i]'hi)) ∈ leaves t) :
    (instFromVector ops t v).at p = some (.num (v[i]'(hl ▸ hi))) := by
  have h := instW_at_leaf ops (valOf (argsOfVector t v)) t hw p _ hp
  simp only [instFromVector, inst]
  rw [h]
  simp only [leafVal, valOf, args_of_vector t v hl i hi]

/-- Fixed values are untouched, whatever the vector. -/
theorem fixed_values_untouched (ops : Ops V) (t : Node V) (v : List V) (hw : WF t)
    (p : Path) (c : V) (hp : (p, Leaf.const c) ∈ leaves t) :
    (instFromVector ops t v).at p = some (.num c) := by
  have h := instW_at_leaf ops (valOf (argsOfVector t v)) t hw p _ hp
  simpa [instFromVector, inst, leafVal] using h

/-- Derived parameters are the arithmetic of their operands' values. -/
theorem arith_value (ops : Ops V) (ρ : Nat → Inst V) (op : BinOp) (attrs) (l r : Node V) (a b : V)
    (hl : instW ops ρ l = .num a) (hr : instW ops ρ r = .num b) :
    instW ops ρ (.arith op attrs l r) = .num (ops.bin op a b) := by
  simp [instW, hl, hr]

theorem modif_value (ops : Ops V) (ρ : Nat → Inst V) (op : UnOp) (attrs) (x : Node V) (a : V)
    (hx : instW ops ρ x = .num a) :
    instW ops ρ (.modif op attrs x) = .num (ops.un op a) := by
  simp [instW, hx]

/-- operands that are parameters take the vector's values (any nesting follows by `arith_value`) -/
theorem arith_of_parameters (ops : Ops V) (t : Node V) (v : List V) (hl : v.length = count t)
    (op : BinOp) (attrs) (i j : Nat) (hi : i < count t) (hj : j < count t) :
    instW ops (valOf (argsOfVector t v))
        (.arith op attrs (.prior ((uniqueIds t)[i]'hi)) (.prior ((uniqueIds t)[j]'hj)))
      = .num (ops.bin op (v[i]'(hl ▸ hi)) (v[j]'(hl ▸ hj))) := by
  apply arith_value
  · simp [instW, valOf, args_of_vector t v hl i hi]
  · simp [instW, valOf, args_of_vector t v hl j hj]

/-- **Routes agree.** The instance depends on the arguments only through the value each parameter
receives; hence any two ways of supplying the same values (physical vector, unit vector pushed
through the priors, values by path) give the same instance. -/
theorem routes_agree (ops : Ops V) (t : Node V) (a₁ a₂ : List (Nat × V))
    (h : ∀ id, lookupArg a₁ id = lookupArg a₂ id) : inst ops a₁ t = inst ops a₂ t := by
  have : valOf a₁ = valOf a₂ := by
    funext id; simp [valOf, h id]
  simp [inst, this]

/-- the by-path dictionary gives a parameter the value supplied for any of its places, when the
values supplied for one parameter are consistent -/
theorem lookup_argsOfPaths (t : Node V) (pa : List (Path × V)) (id : Nat) (c : V)
    (hcons : ∀ p x, (p, x) ∈ pa → t.at p = some (.prior id) → x = c)
    (hcov : ∃ p x, (p, x) ∈ pa ∧ t.at p = some (.prior id)) :
    lookupArg (argsOfPaths t pa) id = some c := by
  simp only [argsOfPaths, lookupArg]
  obtain ⟨p, x, hm, hat⟩ := hcov
  have hmem : (id, x) ∈ pa.reverse.filterMap (fun (q : Path × V) =>
      match t.at q.1 with
      | some (.prior i) => some (i, q.2)
      | _ => none) := by
    refine List.mem_filterMap.mpr ⟨(p, x), List.mem_reverse.mpr hm, ?_⟩
    simp [hat]
  cases hf : List.find? (fun y => y.1 == id) (pa.reverse.filterMap (fun (q : Path × V) =>
      match t.at q.1 with
      | some (.prior i) => some (i, q.2)
      | _ => none)) with
  | none =>
    have := List.find?_eq_none.mp hf (id, x) hmem
    simp at this
  | some y =>
    have hy := List.mem_of_find?_eq_some hf
    have hyid : y.1 = id := by simpa using List.find?_some hf
    obtain ⟨⟨q, z⟩, hq, hqe⟩ := List.mem_filterMap.mp hy
    have hq' : (q, z) ∈ pa := List.mem_reverse.mp hq
    simp only at hqe
    split at hqe
    · rename_i i hti
      simp only [Option.some.injEq] at hqe
      subst hqe
      simp only at hyid
      subst hyid
      have := hcons q z hq' hti
      simp [this]
    · simp at hqe

/-- By-path route = vector route when the path arguments cover every parameter consistently with
the vector and mention nothing else. -/
theorem path_route_eq_vector_route (ops : Ops V) (t : Node V) (v : List V) (pa : List (Path × V))
    (h : ∀ id, lookupArg (argsOfPaths t pa) id = lookupArg (argsOfVector t v) id) :
    inst ops (argsOfPaths t pa) t = instFromVector ops t v :=
  routes_agree ops t _ _ h

/-- **Tuple parameters.** The tuple value consists of exactly the members' values (a permutation)
ordered by the member order, for any total transitive member order. -/
theorem tuple_members_sorted (ops : Ops V) (ρ : Nat → Inst V) (attrs : List (String × Node V))
    (htot : ∀ a b, ops.nameLe a b = true ∨ ops.nameLe b a = true)
    (htr : ∀ a b c, ops.nameLe a b = true → ops.nameLe b c = true → ops.nameLe a c = true) :
    ∃ ms, instW ops ρ (.tuple attrs) = .tup ms ∧ ms.Perm (instTupleAttrs ops ρ attrs) ∧
      ms.Pairwise (fun a b => ops.nameLe a.1 b.1 = true) :=
  ⟨_, by simp [instW], perm_sortByName _ _, sorted_sortByName _ htot htr _⟩

/-- When the members are held in position order (`name_0, name_1, …` increasing in the member
order) the tuple is the members' values in exactly that order, for any arity. -/
theorem tuple_in_position_order (ops : Ops V) (ρ : Nat → Inst V) (attrs : List (String × Node V))
    (hs : (instTupleAttrs ops ρ attrs).Pairwise (fun a b => ops.nameLe a.1 b.1 = true)) :
    instW ops ρ (.tuple attrs) = .tup (instTupleAttrs ops ρ attrs) := by
  simp [instW, sortByName_of_sorted _ _ hs]

/-- every addressable place of a parameter is an advertised place (`leaves ⊆ walk`) -/
theorem leaves_tuple_sub_walk : ∀ (attrs : List (String × Node V)) (p : Path) (id : Nat),
    (p, Leaf.prior id) ∈ leavesTuple attrs → (p, id) ∈ walkAttrs attrs
  | [], _, _, h => by simp [leavesTuple] at h
  | (k, n) :: rest, p, id, h => by
    simp only [leavesTuple, List.mem_append] at h
    simp only [walkAttrs, List.mem_append]
    rcases h with h | h
    · left
      split at h
      · simp only [List.mem_singleton, Prod.mk.injEq, Leaf.prior.injEq] at h
        obtain ⟨rfl, rfl⟩ := h
        simp [walk]
      · simp at h
      · simp at h
    · right; exact leaves_tuple_sub_walk rest p id h

mutual
theorem leaves_sub_walk : ∀ (n : Node V) (p : Path) (id : Nat),
    (p, Leaf.prior id) ∈ leaves n → (p, id) ∈ walk n
  | .prior i, p, id, h => by
      simp only [leaves, List.mem_singleton, Prod.mk.injEq, Leaf.prior.injEq] at h
      obtain ⟨rfl, rfl⟩ := h
      simp [walk]
  | .const _, p, id, h => by simp [leaves] at h
  | .opaque _, p, id, h => by simp [leaves] at h
  | .arith _ _ _ _, p, id, h => by simp [leaves] at h
  | .modif _ _ _, p, id, h => by simp [leaves] at h
  | .array _ _, p, id, h => by simp [leaves] at h
  | .model _ ctor attrs, p, id, h => by
      simp only [leaves] at h; simp only [walk]
      exact leavesModel_sub_walk ctor attrs p id h
  | .coll attrs, p, id, h => by
      simp only [leaves] at h; simp only [walk]
      exact leavesColl_sub_walk attrs p id h
  | .tuple attrs, p, id, h => by
      simp only [leaves] at h; simp only [walk]
      exact leaves_tuple_sub_walk attrs p id h
theorem leavesModel_sub_walk (ctor : List String) : ∀ (attrs : List (String × Node V)) (p : Path) (id : Nat),
    (p, Leaf.prior id) ∈ leavesModel ctor attrs → (p, id) ∈ walkAttrs attrs
  | [], _, _, h => by simp [leavesModel] at h
  | (k, n) :: rest, p, id, h => by
      simp only [leavesModel, List.mem_append] at h
      simp only [walkAttrs, List.mem_append]
      rcases h with h | h
      · left
        split at h
        · simp only [List.mem_map] at h
          obtain ⟨⟨q, y⟩, hq, heq⟩ := h
          simp only [pre, Prod.mk.injEq] at heq
          obtain ⟨rfl, rfl⟩ := heq
          exact List.mem_map.mpr ⟨(q, id), leaves_sub_walk n q id hq, rfl⟩
        · split at h <;> simp at h
      · right; exact leavesModel_sub_walk ctor rest p id h
theorem leavesColl_sub_walk : ∀ (attrs : List (String × Node V)) (p : Path) (id : Nat),
    (p, Leaf.prior id) ∈ leavesColl attrs → (p, id) ∈ walkAttrs attrs
  | [], _, _, h => by simp [leavesColl] at h
  | (k, n) :: rest, p, id, h => by
      simp only [leavesColl, List.mem_append] at h
      simp only [walkAttrs, List.mem_append]
      rcases h with h | h
      · left
        split at h
        · simp at h
        · simp only [List.mem_map] at h
          obtain ⟨⟨q, y⟩, hq, heq⟩ := h
          simp only [pre, Prod.mk.injEq] at heq
          obtain ⟨rfl, rfl⟩ := heq
          exact List.mem_map.mpr ⟨(q, id), leaves_sub_walk n q id hq, rfl⟩
      · right; exact leavesColl_sub_walk rest p id h
end

/-! ## non-vacuity: a concrete composition meeting every hypothesis

`Collection(g = Model(P2, a = p7, b = 2.5), h = Model(T2, pos = (p3, p7), r = p7 * p3))`: a shared
prior (id 7) at three places, one of them deeper, a tuple and an arithmetic node; ids out of
attribute order. -/

def witness : Node Nat :=
  .coll [("g", .model "P2" ["a", "b"] [("a", .prior 7), ("b", .const 25)]),
         ("h", .model "T2" ["pos", "r"]
            [("pos", .tuple [("pos_0", .prior 3), ("pos_1", .prior 7)]),
             ("r", .arith .mul [("left_", .prior 7), ("right_", .prior 3)] (.prior 7) (.prior 3))])]

def natOps : Ops Nat where
  bin := fun _ a b => a * b
  un := fun _ a => a
  nameLe := fun a b => decide (a ≤ b)
  lt := fun a b => decide (a < b)
  le := fun a b => decide (a ≤ b)

example : uniqueIds witness = [3, 7] ∧ count witness = 2 := by decide
example : paths witness = [["h", "pos", "pos_0"], ["h", "r", "right_"], ["g", "a"], ["h", "pos", "pos_1"], ["h", "r", "left_"]] := by decide
example : (["g", "a"], Leaf.prior 7) ∈ leaves witness ∧ (["h", "pos", "pos_1"], Leaf.prior 7) ∈ leaves witness := by
  simp [witness, leaves, leavesColl, leavesModel, leavesTuple, pre]
example : (instFromVector natOps witness [10, 20]).at ["h", "pos", "pos_1"] = some (.num 20) := by
  simp [instFromVector, inst, instW, instCollAttrs, instModelAttrs, instTupleAttrs, witness, natOps,
    argsOfVector, uniqueIds, walk, walkAttrs, sortDedup, insertUniq, valOf, lookupArg, Inst.at, lookupAttr,
    sortByName, insertByName]
example : (instFromVector natOps witness [10, 20]).at ["h", "r"] = some (.num 200) := by
  simp [instFromVector, inst, instW, instCollAttrs, instModelAttrs, instTupleAttrs, witness, natOps,
    argsOfVector, uniqueIds, walk, walkAttrs, sortDedup, insertUniq, valOf, lookupArg, Inst.at, lookupAttr]

/-! tests (evaluated by the compiler at build time, not theorems): the concrete member order
`posLe` used by the driver puts the names of a 12-tuple in position order — where plain string
order (the behaviour before the repair of `TuplePrior`) does not -/
#guard ((List.range 12).map (fun i => s!"p_{i}")).Pairwise (fun a b => posLe a b = true)
#guard !(posLe "p_10" "p_2")
example : "p_10" < "p_2" := by decide

end AF.C01

namespace AF.C01
open AF

variable {V : Type}

/-- the path advertised for a parameter by `unique_prior_paths` is one of its places -/
theorem lastPlace_is_place (w : List (Path × Nat)) (id : Nat) (h : id ∈ w.map (·.2)) :
    ∃ p, lastPlace w id = some p ∧ (p, id) ∈ w := by
  obtain ⟨⟨q, j⟩, hq, hj⟩ := List.mem_map.mp h
  simp only at hj; subst hj
  simp only [lastPlace]
  cases hf : List.find? (fun x => x.2 == j) w.reverse with
  | none =>
    have := List.find?_eq_none.mp hf (q, j) (List.mem_reverse.mpr hq)
    simp at this
  | some y =>
    have hy := List.mem_of_find?_eq_some hf
    have hyid : y.2 = j := by simpa using List.find?_some hf
    refine ⟨y.1, rfl, ?_⟩
    have : y = (y.1, j) := by rw [← hyid]
    rw [← this]
    exact List.mem_reverse.mp hy

/-- **One advertised path per parameter, in parameter order**: `unique_prior_paths` has exactly
`prior_count` entries and its i-th entry is a place of the i-th parameter. -/
theorem unique_paths_spec (t : Node V) :
    (uniquePaths t).length = count t ∧
    ∀ (i : Nat) (h₁ : i < (uniquePaths t).length) (h₂ : i < count t),
      ((uniquePaths t)[i], (uniqueIds t)[i]'h₂) ∈ walk t := by
  have hall : ∀ id ∈ uniqueIds t, ∃ p, lastPlace (pathPriors t) id = some p ∧ (p, id) ∈ walk t := by
    intro id hid
    have hw : id ∈ (walk t).map (·.2) := by
      simpa [uniqueIds, mem_sortDedup] using hid
    have hpp : id ∈ (pathPriors t).map (·.2) := by
      obtain ⟨x, hx, hx2⟩ := List.mem_map.mp hw
      exact List.mem_map.mpr ⟨x, (perm_sortById (walk t)).mem_iff.mpr hx, hx2⟩
    obtain ⟨p, hp, hm⟩ := lastPlace_is_place (pathPriors t) id hpp
    exact ⟨p, hp, (perm_sortById (walk t)).mem_iff.mp hm⟩
  -- generalise over the id list
  have key : ∀ (ids : List Nat), (∀ id ∈ ids, ∃ p, lastPlace (pathPriors t) id = some p ∧ (p, id) ∈ walk t) →
      (ids.filterMap (lastPlace (pathPriors t))).length = ids.length ∧
      ∀ (i : Nat) (h₁ : i < (ids.filterMap (lastPlace (pathPriors t))).length) (h₂ : i < ids.length),
        ((ids.filterMap (lastPlace (pathPriors t)))[i], ids[i]) ∈ walk t := by
    intro ids
    induction ids with
    | nil => intro _; exact ⟨rfl, fun i h₁ _ => absurd h₁ (by simp)⟩
    | cons a rest ih =>
      intro h
      obtain ⟨p, hp, hm⟩ := h a (by simp)
      have ih' := ih (fun id hid => h id (List.mem_cons_of_mem _ hid))
      refine ⟨by simp [hp, ih'.1], ?_⟩
      intro i h₁ h₂
      cases i with
      | zero => simpa [List.filterMap_cons, hp] using hm
      | succ j =>
        have hj₂ : j < rest.length := by simpa using h₂
        have hj₁ : j < (rest.filterMap (lastPlace (pathPriors t))).length := by rw [ih'.1]; exact hj₂
        have := ih'.2 j hj₁ hj₂
        simpa [List.filterMap_cons, hp] using this
  have := key (uniqueIds t) hall
  exact ⟨this.1, fun i h₁ h₂ => this.2 i h₁ h₂⟩

end AF.C01

namespace AF.C01
open AF

variable {V : Type}

/- compositions without arithmetic nodes and arrays, whose non-constructor attributes are plain
values: every advertised place is then addressable in the instance -/
mutual
def Plain : Node V → Prop
  | .prior _ => True
  | .const _ => True
  | .opaque _ => True
  | .model _ ctor attrs => PlainModelAttrs ctor attrs
  | .coll attrs => PlainCollAttrs attrs
  | .tuple attrs => PlainTupleAttrs attrs
  | .arith _ _ _ _ => False
  | .modif _ _ _ => False
  | .array _ _ => False
def PlainModelAttrs (ctor : List String) : List (String × Node V) → Prop
  | [] => True
  | (k, n) :: rest =>
      (if ctor.contains k then Plain n else walk n = []) ∧ PlainModelAttrs ctor rest
def PlainCollAttrs : List (String × Node V) → Prop
  | [] => True
  | (_, n) :: rest => ((∀ a, n ≠ .tuple a) ∧ Plain n) ∧ PlainCollAttrs rest
def PlainTupleAttrs : List (String × Node V) → Prop
  | [] => True
  | (_, n) :: rest => ((∃ i, n = .prior i) ∨ walk n = []) ∧ PlainTupleAttrs rest
end

theorem walk_tuple_sub_leaves : ∀ (attrs : List (String × Node V)), PlainTupleAttrs attrs →
    ∀ (p : Path) (id : Nat), (p, id) ∈ walkAttrs attrs → (p, Leaf.prior id) ∈ leavesTuple attrs
  | [], _, _, _, h => by simp [walkAttrs] at h
  | (k, n) :: rest, hp, p, id, h => by
    simp only [PlainTupleAttrs] at hp
    simp only [walkAttrs, List.mem_append, List.mem_map] at h
    simp only [leavesTuple, List.mem_append]
    rcases h with ⟨⟨q, j⟩, hq, heq⟩ | h
    · left
      rcases hp.1 with ⟨i, rfl⟩ | hw
      · simp only [walk, List.mem_singleton, Prod.mk.injEq] at hq
        obtain ⟨rfl, rfl⟩ := hq
        simp only [Prod.mk.injEq] at heq
        obtain ⟨rfl, rfl⟩ := heq
        simp
      · rw [hw] at hq; simp at hq
    · right; exact walk_tuple_sub_leaves rest hp.2 p id h

mutual
theorem walk_sub_leaves : ∀ (n : Node V), Plain n → ∀ (p : Path) (id : Nat),
    (p, id) ∈ walk n → (p, Leaf.prior id) ∈ leaves n
  | .prior i, _, p, id, h => by
      simp only [walk, List.mem_singleton, Prod.mk.injEq] at h
      obtain ⟨rfl, rfl⟩ := h
      simp [leaves]
  | .const _, _, p, id, h => by simp [walk] at h
  | .opaque _, _, p, id, h => by simp [walk] at h
  | .arith _ _ _ _, hp, _, _, _ => by simp [Plain] at hp
  | .modif _ _ _, hp, _, _, _ => by simp [Plain] at hp
  | .array _ _, hp, _, _, _ => by simp [Plain] at hp
  | .model _ ctor attrs, hp, p, id, h => by
      simp only [Plain] at hp; simp only [walk] at h; simp only [leaves]
      exact walkModel_sub_leaves ctor attrs hp p id h
  | .coll attrs, hp, p, id, h => by
      simp only [Plain] at hp; simp only [walk] at h; simp only [leaves]
      exact walkColl_sub_leaves attrs hp p id h
  | .tuple attrs, hp, p, id, h => by
      simp only [Plain] at hp; simp only [walk] at h; simp only [leaves]
      exact walk_tuple_sub_leaves attrs hp p id h
theorem walkModel_sub_leaves (ctor : List String) : ∀ (attrs : List (String × Node V)),
    PlainModelAttrs ctor attrs → ∀ (p : Path) (id : Nat),
    (p, id) ∈ walkAttrs attrs → (p, Leaf.prior id) ∈ leavesModel ctor attrs
  | [], _, _, _, h => by simp [walkAttrs] at h
  | (k, n) :: rest, hp, p, id, h => by
      simp only [PlainModelAttrs] at hp
      simp only [walkAttrs, List.mem_append, List.mem_map] at h
      simp only [leavesModel, List.mem_append]
      rcases h with ⟨⟨q, j⟩, hq, heq⟩ | h
      · left
        simp only [Prod.mk.injEq] at heq
        obtain ⟨rfl, rfl⟩ := heq
        by_cases hc : ctor.contains k = true
        · rw [if_pos hc] at hp ⊢
          exact List.mem_map.mpr ⟨(q, Leaf.prior j), walk_sub_leaves n hp.1 q j hq, rfl⟩
        · rw [if_neg hc] at hp
          rw [hp.1] at hq; simp at hq
      · right; exact walkModel_sub_leaves ctor rest hp.2 p id h
theorem walkColl_sub_leaves : ∀ (attrs : List (String × Node V)),
    PlainCollAttrs attrs → ∀ (p : Path) (id : Nat),
    (p, id) ∈ walkAttrs attrs → (p, Leaf.prior id) ∈ leavesColl attrs
  | [], _, _, _, h => by simp [walkAttrs] at h
  | (k, n) :: rest, hp, p, id, h => by
      simp only [PlainCollAttrs] at hp
      simp only [walkAttrs, List.mem_append, List.mem_map] at h
      simp only [leavesColl, List.mem_append]
      rcases h with ⟨⟨q, j⟩, hq, heq⟩ | h
      · left
        simp only [Prod.mk.injEq] at heq
        obtain ⟨rfl, rfl⟩ := heq
        have hl := walk_sub_leaves n hp.1.2 q j hq
        split
        · rename_i a; exact absurd rfl (hp.1.1 a)
        · exact List.mem_map.mpr ⟨(q, Leaf.prior j), hl, rfl⟩
      · right; exact walkColl_sub_leaves rest hp.2 p id h
end

/-- **Placement at the advertised paths.** For a composition without arithmetic / array nodes the
i-th value is found at *every advertised path* of the i-th parameter — in particular at the i-th
entry of `unique_prior_paths` and at every other place sharing that parameter. -/
theorem vector_at_every_advertised_path [Inhabited V] (ops : Ops V) (t : Node V) (v : List V) (hw : WF t)
    (hp : Plain t) (hl : v.length = count t) (i : Nat) (hi : i < count t) (p : Path)
    (hplace : (p, (uniqueIds t)[i]'hi) ∈ walk t) :
    (instFromVector ops t v).at p = some (.num (v[i]'(hl ▸ hi))) :=
  vector_placement ops t v hw hl i hi p (walk_sub_leaves t hp p _ hplace)

end AF.C01

namespace AF.C01
open AF

/-- the sorting theorem instantiated with the order the code and the driver actually use
(`_position_key`: prefix, then numeric position): its hypotheses are theorems, not assumptions -/
theorem tuple_members_sorted_by_position (ρ : Nat → Inst Float) (attrs : List (String × Node Float)) :
    ∃ ms, instW floatOps ρ (.tuple attrs) = .tup ms ∧ ms.Perm (instTupleAttrs floatOps ρ attrs) ∧
      ms.Pairwise (fun a b => posLe a.1 b.1 = true) :=
  tuple_members_sorted floatOps ρ attrs posLe_total posLe_trans

end AF.C01

/-! ## the member order, by number, for every number of members

`posLeL` is `_position_key` on character lists (AFModel/NameKey.lean) – the order the C01 driver runs
and, on every run, compares with the `splitOn` rendering `posLe` and with the order the real
`TuplePrior.value_for_arguments` places members in. -/

namespace AF.C01
open AF

/-- the member order is total and transitive (theorems, so the sorting theorems apply to it) -/
theorem member_order_total_and_transitive :
    (∀ a b, posLeL a b = true ∨ posLeL b a = true) ∧
    (∀ a b c, posLeL a b = true → posLeL b c = true → posLeL a c = true) :=
  ⟨posLeL_total, posLeL_trans⟩

/-- **`name_i` is ordered by the number `i`**, whatever the number of digits: no bound on the arity -/
theorem member_names_ordered_by_number (name : String) (i j : Nat) :
    posLeL (memberName name i) (memberName name j) = decide (i ≤ j) :=
  posLeL_memberName name i j

example : posLeL (memberName "p" 2) (memberName "p" 10) = true ∧
    posLeL (memberName "p" 100) (memberName "p" 99) = false := by
  rw [member_names_ordered_by_number, member_names_ordered_by_number]; decide

/-- the sorting theorem for the order the driver executes: hypotheses discharged -/
theorem tuple_members_sorted_by_number {V : Type} [Inhabited V] (ops : Ops V) (hle : ops.nameLe = posLeL)
    (ρ : Nat → Inst V) (attrs : List (String × Node V)) :
    ∃ ms, instW ops ρ (.tuple attrs) = .tup ms ∧ ms.Perm (instTupleAttrs ops ρ attrs) ∧
      ms.Pairwise (fun a b => posLeL a.1 b.1 = true) := by
  have := tuple_members_sorted ops ρ attrs (by rw [hle]; exact posLeL_total) (by rw [hle]; exact posLeL_trans)
  simpa [hle] using this

example : floatOpsL.nameLe = posLeL := rfl

/-! ## construction from the class signature (`AFModel/Build.lean`) -/

/-- **Tuple parameters are created and placed in position order.** `make_tuple_prior(name, k)` at
prior counter `n` holds members `name_0 … name_{k-1}` with ids `n … n+k-1`, and the tuple built from
any arguments is the members' values in exactly that order – for every `k`. -/
theorem tuple_created_and_placed_in_position_order {V : Type} [Inhabited V] (ops : Ops V)
    (hle : ops.nameLe = posLeL) (ρ : Nat → Inst V) (name : String) (k n : Nat) :
    (walk (mkTuple (V := V) name k n)) = (List.range k).map (fun i => ([memberName name i], n + i)) ∧
    instW ops ρ (mkTuple name k n) = .tup ((List.range k).map (fun i => (memberName name i, ρ (n + i)))) := by
  constructor
  · simp only [mkTuple, walk]
    exact walkAttrs_priors (memberName name) (n + ·) (List.range k)
  · simp only [mkTuple]
    have hattrs := instTupleAttrs_priors ops ρ (memberName name) (n + ·) (List.range k)
    have := tuple_in_position_order ops ρ
      ((List.range k).map (fun i => (memberName name i, Node.prior (n + i)))) (by
        rw [hattrs, List.pairwise_map]
        refine List.Pairwise.imp ?_ List.pairwise_lt_range
        intro i j hij
        rw [hle, posLeL_memberName]
        exact decide_eq_true (Nat.le_of_lt hij))
    rw [this, hattrs]

/-- a 12-tuple with the driver's member order: the hypothesis is met by `rfl` -/
example : instW ({ natOps with nameLe := posLeL }) (fun i => .num (i * 10)) (mkTuple "p" 12 5)
    = .tup ((List.range 12).map (fun i => (memberName "p" i, .num ((5 + i) * 10)))) :=
  (tuple_created_and_placed_in_position_order { natOps with nameLe := posLeL } rfl
    (fun i => .num (i * 10)) "p" 12 5).2

/-- **Every constructor argument is addressable at its own name** in the model `Model(cls, **kw)`
builds (arguments with a string default are no parameters and are not held), whatever the keywords. -/
theorem ctor_argument_addressable {V : Type} (sig : ClassSig) (kw : List (String × Ov V)) (n : Nat)
    (a : String) (d : ArgD) (hm : (a, d) ∈ sig.args) (hd : ∀ t, d ≠ .str t) :
    ∃ x, (mkModel sig kw n).1.at [a] = some x := by
  have h1 := mkArgs_isSome kw sig.args n a d hm hd
  have h2 := addExtras_isSome kw _ (mkArgs kw sig.args n).2 a h1
  have h3 := lookupAttr_append_isSome _
    (strDefaults sig.args (addExtras kw (mkArgs kw sig.args n).1 (mkArgs kw sig.args n).2).1) a h2
  obtain ⟨x, hx⟩ := Option.isSome_iff_exists.mp h3
  exact ⟨x, by simp [mkModel, Node.at, Node.attrs, hx]⟩

/-- **A keyword replaces exactly the named argument**: an object (prior, constant, model, … anything
but a tuple prior, which later `name_i` keywords may extend) given for constructor argument `a` is what
the model holds at `a`, whatever the other keywords are. -/
theorem keyword_replaces_argument {V : Type} (sig : ClassSig) (kw : List (String × Ov V)) (n : Nat)
    (a : String) (d : ArgD) (x : Node V) (hm : (a, d) ∈ sig.args) (hd : ∀ t, d ≠ .str t)
    (hk : lookupAttr kw a = some (.node x)) (hx : ∀ ms, x ≠ .tuple ms) :
    (mkModel sig kw n).1.at [a] = some x := by
  have h1 := mkArgs_keyword kw a x hk sig.args n d hm hd
  have h2 := addExtras_of_not_tuple kw _ (mkArgs kw sig.args n).2 a x hx h1
  have h3 := lookupAttr_append_of_some _
    (strDefaults sig.args (addExtras kw (mkArgs kw sig.args n).1 (mkArgs kw sig.args n).2).1) a x h2
  simp [mkModel, Node.at, Node.attrs, h3]

/-- … and then, for a prior given as keyword, the instance built from a vector holds that
parameter's value at the argument's name -/
theorem keyword_prior_receives_vector_value {V : Type} [Inhabited V] (ops : Ops V) (sig : ClassSig)
    (kw : List (String × Ov V)) (n : Nat) (a : String) (d : ArgD) (id : Nat)
    (hm : (a, d) ∈ sig.args) (hd : ∀ t, d ≠ .str t) (hk : lookupAttr kw a = some (.node (.prior id))) :
    (mkModel sig kw n).1.at [a] = some (.prior id) :=
  keyword_replaces_argument sig kw n a d (.prior id) hm hd hk (by intro ms h; cases h)

/- non-vacuity: `Model(T2, r=<prior 3>, pos_5=<prior 4>, extra=2.5)` at counter 10 -/
def sigT2 : ClassSig := { name := "T2", args := [("pos", .tup 2), ("r", .cfg), ("mode", .str "str:x")] }
def kwT2 : List (String × Ov Nat) := [("extra", .node (.const 25)), ("r", .node (.prior 3)), ("pos_5", .node (.prior 4))]

example : (mkModel sigT2 kwT2 10).1.at ["r"] = some (.prior 3) :=
  keyword_replaces_argument sigT2 kwT2 10 "r" .cfg (.prior 3) (by simp [sigT2]) (by intro t h; cases h)
    (by simp [kwT2, lookupAttr]) (by intro ms h; cases h)
example : ∃ x, (mkModel sigT2 kwT2 10).1.at ["pos"] = some x :=
  ctor_argument_addressable sigT2 kwT2 10 "pos" (.tup 2) (by simp [sigT2]) (by intro t h; cases h)

/-! tests (compiler-evaluated): the whole of `mkModel` on the example — the `pos_5` keyword is filed
inside the tuple prior, the string default reaches the instance, two new priors were made -/
#guard (mkModel sigT2 kwT2 10).2 == 12
#guard paths (mkModel sigT2 kwT2 10).1 == [["r"], ["pos", "pos_5"], ["pos", "pos_0"], ["pos", "pos_1"]]

end AF.C01

namespace AF.C01
open AF

/-- **Parameter order of a class composed from its signature.** `Model(cls)` (no keywords) at prior
counter `n` holds, in constructor-argument order and depth first (tuple members in position order,
annotated classes entered), exactly the new prior ids `n, n+1, …` – consecutive, none twice – and so … -/
theorem fresh_model_ids_consecutive_in_argument_order {V : Type} (c : String) (as : List (String × ArgD)) (n : Nat) :
    (walk (mkSub (V := V) c as n).1).map (·.2) = List.range' n ((mkSub (V := V) c as n).2 - n)
      ∧ n ≤ (mkSub (V := V) c as n).2 :=
  mkSub_walk c as n

/-- … the parameter paths it advertises (`paths`, the order of the vector) are its constructor
arguments in signature order, depth first: for a freshly composed class, vector order = signature order. -/
theorem fresh_model_paths_in_argument_order {V : Type} (c : String) (as : List (String × ArgD)) (n : Nat) :
    pathPriors (mkSub (V := V) c as n).1 = walk (mkSub (V := V) c as n).1 :=
  paths_mkSub c as n

/- non-vacuity: `Model(Deep)` of harness/vlib.py (`left: Nest(inner: P2, k)`, `right: P1`, `z`) at counter 7 -/
def sigDeep : List (String × ArgD) :=
  [("left", .sub "Nest" [("inner", .sub "P2" [("a", .cfg), ("b", .cfg)]), ("k", .cfg)]),
   ("right", .sub "P1" [("a", .cfg)]), ("z", .cfg)]
example : (walk (mkSub (V := Nat) "Deep" sigDeep 7).1).map (·.2) = List.range' 7 ((mkSub (V := Nat) "Deep" sigDeep 7).2 - 7) :=
  (fresh_model_ids_consecutive_in_argument_order "Deep" sigDeep 7).1
/-! tests (compiler-evaluated): the concrete walk and counter of that example -/
#guard (walk (mkSub (V := Nat) "Deep" sigDeep 7).1)
    == [(["left", "inner", "a"], 7), (["left", "inner", "b"], 8), (["left", "k"], 9), (["right", "a"], 10), (["z"], 11)]
#guard (mkSub (V := Nat) "Deep" sigDeep 7).2 == 12

end AF.C01
