import AFProofs.Lemmas.ParEval
import AFProofs.Lemmas.ParEvalLive
import AFProofs.Lemmas.ParEvalFair
import AFProofs.Lemmas.ParLife

/-!
# C14 — parallel evaluation equals serial evaluation

Property theorems about the pool state machines of `AFModel/ParEval.lean` (the definitions the driver
`AFDriver/C14.lean` executes: `initMap`, `MapSt.run`, `mapBatch`, `runBatches`, `MapSt.output`,
`MapSt.legacyOutput`, `initRun`, `RunSt.run`, `runJobs`).  Quantifiers: every number of workers `P ≥ 1`
(every non-empty pool), every batch `js` (any outcomes, failures included), **every schedule** (any finite
list of actor choices — i.e. every relative speed of the workers), every sequence of batches on the same
pool.  The model is tied to /repo by `harness/c14.py`.

The ordering/once/no-leftover statements are of the form "whenever the caller has left its loop …".  Liveness is
stated as *no reachable state is a trap* (`map_can_always_finish`, `runjobs_can_always_finish`: after any
schedule prefix some finite continuation lets the caller return) together with a variant that strictly
decreases (`map_progress`); that a *fair* scheduler actually takes such a continuation is observed by the
harness (round-robin continuation of every generated schedule), not proved.  What the pinned commit did wrong
is stated as the `legacy_…` refutations — in particular `legacy_runjobs_stale_empty_never_returns` is the exact
negation of `runjobs_can_always_finish` for the pinned worker loop.
-/

namespace AF.C14
open AF.ParEval

variable {α : Type}

/-! ## `SneakyPool.map` -/

/-- **Results by position.** Whatever the schedule, when `map` has collected its batch it returns exactly
what evaluating the inputs one after another returns: the values in input order up to the first failure,
which is raised. -/
theorem map_equals_serial (ws : List (Worker α)) (js : List (Res α)) (evs : List Nat)
    (hq : Quiescent ws) (hp : ws ≠ []) (hf : ((initMap ws js).run evs).finished = true) :
    ((initMap ws js).run evs).output = serial js := by
  have hd := mapInv_finished (mapInv_run (mapInv_init ws js hq hp) evs) hf
  rw [MapSt.output, hd.slots, emit_map_some]

/-- what `serial` means when nothing fails: every value, in input order, nothing raised -/
theorem serial_all_ok (vs : List α) : serial (vs.map Res.ok) = ⟨vs, none⟩ := by
  induction vs with
  | nil => rfl
  | cons v t ih => simp [serial, ih]

/-- **An exception is reported**, at the position where it occurred: the values before the first failing
input are returned, then that input's exception is raised (later failures never mask it). -/
theorem serial_first_failure (pre : List α) (t : α) (post : List (Res α)) :
    serial (pre.map Res.ok ++ Res.err t :: post) = ⟨pre, some t⟩ := by
  induction pre with
  | nil => rfl
  | cons v r ih => simp [serial, ih]

theorem map_exception_reported (ws : List (Worker α)) (pre : List α) (t : α) (post : List (Res α))
    (evs : List Nat) (hq : Quiescent ws) (hp : ws ≠ [])
    (hf : ((initMap ws (pre.map Res.ok ++ Res.err t :: post)).run evs).finished = true) :
    ((initMap ws (pre.map Res.ok ++ Res.err t :: post)).run evs).output = ⟨pre, some t⟩ := by
  rw [map_equals_serial ws _ evs hq hp hf, serial_first_failure]

/-- **Nothing is left behind.** When `map` returns (normally or by raising: both happen after the loop),
every queue of the pool is empty and no worker holds a result, so nothing can be attributed to a later
batch; the pool is in the state the next `map` call assumes. -/
theorem map_no_leftover (ws : List (Worker α)) (js : List (Res α)) (evs : List Nat)
    (hq : Quiescent ws) (hp : ws ≠ []) (hf : ((initMap ws js).run evs).finished = true) :
    Quiescent ((initMap ws js).run evs).ws ∧ leftover ((initMap ws js).run evs).ws = 0 ∧
      ((initMap ws js).run evs).ws.length = ws.length := by
  have hd := mapInv_finished (mapInv_run (mapInv_init ws js hq hp) evs) hf
  have hqs := quiescent_of_idle hd.idle
  refine ⟨hqs, leftover_zero_of_quiescent hqs, ?_⟩
  rw [MapSt.run_length]; simp [initMap]

/-- **Each input is evaluated exactly once** (part 1): when `map` returns, worker `k` has performed exactly
the positions `≡ k (mod P)`, in increasing order. -/
theorem map_worker_log (ws : List (Worker α)) (js : List (Res α)) (evs : List Nat)
    (hq : Quiescent ws) (hp : ws ≠ []) (hf : ((initMap ws js).run evs).finished = true)
    (k : Nat) (w : Worker α) (hk : ((initMap ws js).run evs).ws[k]? = some w) :
    w.performed = (List.range js.length).filter (fun i => i % ws.length == k) := by
  have hd := mapInv_finished (mapInv_run (mapInv_init ws js hq hp) evs) hf
  have := hd.perf k w hk
  rw [MapSt.run_length] at this
  simpa [initMap] using this

/-- **Each input is evaluated exactly once** (part 2): position `i` occurs exactly once in the log of worker
`i % P` and in no other worker's log. -/
theorem map_each_input_once (ws : List (Worker α)) (js : List (Res α)) (evs : List Nat)
    (hq : Quiescent ws) (hp : ws ≠ []) (hf : ((initMap ws js).run evs).finished = true)
    (i : Nat) (hi : i < js.length) (k : Nat) (w : Worker α)
    (hk : ((initMap ws js).run evs).ws[k]? = some w) :
    w.performed.count i = if k = i % ws.length then 1 else 0 := by
  rw [map_worker_log ws js evs hq hp hf k w hk]
  by_cases h : k = i % ws.length
  · rw [List.count_filter (p := fun j => j % ws.length == k) (a := i) (by simp [h]), List.count_range]
    simp [hi, h]
  · simp only [h, if_false]
    apply List.count_eq_zero.mpr
    intro hm
    have := (List.mem_filter.mp hm).2
    simp only [beq_iff_eq] at this
    exact h this.symm

/-- the function the driver executes for one `map` call (`schedule` then round-robin) is such a run -/
theorem mapBatch_spec (ws : List (Worker α)) (js : List (Res α)) (sched : List Nat) (fuel : Nat)
    (hq : Quiescent ws) (hp : ws ≠ []) (hf : (mapBatch ws js sched fuel).finished = true) :
    (mapBatch ws js sched fuel).output = serial js ∧ Quiescent (mapBatch ws js sched fuel).ws ∧
      (mapBatch ws js sched fuel).ws ≠ [] := by
  obtain ⟨evs, he⟩ := mapBatch_eq_run ws js sched fuel
  rw [he] at hf ⊢
  obtain ⟨h1, _, h3⟩ := map_no_leftover ws js evs hq hp hf
  refine ⟨map_equals_serial ws js evs hq hp hf, h1, ?_⟩
  intro h
  rw [h] at h3
  exact hp (List.eq_nil_of_length_eq_zero h3.symm)

/-- **Sequences of batches on one pool** (failing batches included): every batch returns its own serial
result — no batch sees anything of an earlier one. -/
theorem batches_equal_serial (fuel : Nat) (ws : List (Worker α)) (bs : List (List (Res α) × List Nat))
    (hq : Quiescent ws) (hp : ws ≠ [])
    (hf : ∀ s ∈ runBatches fuel ws bs, s.finished = true) :
    (runBatches fuel ws bs).map MapSt.output = bs.map (fun b => serial b.1) := by
  induction bs generalizing ws with
  | nil => rfl
  | cons b rest ih =>
    obtain ⟨js, sched⟩ := b
    simp only [runBatches, List.map_cons, List.mem_cons, forall_eq_or_imp] at hf ⊢
    obtain ⟨h1, h2, h3⟩ := mapBatch_spec ws js sched fuel hq hp hf.1
    rw [h1, ih _ h2 h3 hf.2]

/-- **Callers pair results with inputs by position** (`samples_from_model`, emcee's walkers): if no
evaluation fails, zipping the inputs with what `map` returns pairs every input with its own value. -/
theorem map_pairs_inputs_with_their_values {β : Type} (ws : List (Worker α)) (xs : List β) (f : β → α)
    (evs : List Nat) (hq : Quiescent ws) (hp : ws ≠ [])
    (hf : ((initMap ws (xs.map (fun x => Res.ok (f x)))).run evs).finished = true) :
    xs.zip ((initMap ws (xs.map (fun x => Res.ok (f x)))).run evs).output.yielded
      = xs.map (fun x => (x, f x)) := by
  rw [map_equals_serial ws _ evs hq hp hf]
  have : xs.map (fun x => Res.ok (f x)) = (xs.map f).map Res.ok := by simp
  rw [this, serial_all_ok]
  show xs.zip (xs.map f) = _
  clear hf this
  induction xs with
  | nil => rfl
  | cons x t ih => simp [ih]

/-- **Progress.** `MapSt.mu` counts the queue interactions still to happen.  After any schedule prefix, while
the caller has not collected its batch, some finite continuation strictly decreases it. -/
theorem map_progress (ws : List (Worker α)) (js : List (Res α)) (evs : List Nat)
    (hq : Quiescent ws) (hp : ws ≠ []) (hf : ((initMap ws js).run evs).finished = false) :
    ∃ evs', (((initMap ws js).run evs).run evs').mu < ((initMap ws js).run evs).mu := by
  have hi := mapInv_init ws js hq hp
  have hc : (initMap ws js).cursor < (initMap ws js).ws.length := hi.pos
  exact exists_decrease (mapInv_run hi evs) (cursor_lt_run hi.pos hc evs) hf

/-- **No reachable state is a trap.** Whatever the workers' relative speed has been so far (any schedule
prefix `evs`), some finite continuation lets `map` collect the whole batch — there is no deadlock and no state
from which the caller can only poll for ever. -/
theorem map_can_always_finish (ws : List (Worker α)) (js : List (Res α)) (evs : List Nat)
    (hq : Quiescent ws) (hp : ws ≠ []) :
    ∃ evs', ((initMap ws js).run (evs ++ evs')).finished = true := by
  have hi := mapInv_init ws js hq hp
  have hc : (initMap ws js).cursor < (initMap ws js).ws.length := hi.pos
  obtain ⟨evs', h⟩ := can_finish _ ((initMap ws js).run evs) (mapInv_run hi evs) (cursor_lt_run hi.pos hc evs)
    (Nat.le_refl _)
  exact ⟨evs', by rw [MapSt.run_append]; exact h⟩

/-- **Refutation for the pinned commit** (`legacyOutput` = values in the order the caller took them, which
is what `map` yielded before the repair): two workers, two inputs, second worker faster — the values come
back swapped, and the callers zip them with the inputs by position. -/
theorem legacy_map_misordered :
    ∃ evs : List Nat,
      ((initMap (newPool 2) [Res.ok 0, Res.ok 1]).run evs).finished = true ∧
      ((initMap (newPool 2) [Res.ok 0, Res.ok 1]).run evs).legacyOutput = ⟨[1, 0], none⟩ ∧
      serial [Res.ok 0, Res.ok 1] = ⟨[0, 1], none⟩ :=
  ⟨[0, 0, 2, 2, 0, 0, 1, 1, 0], by decide⟩

/-! ## Termination of `SneakyPool.map` under every fair schedule

`fairRounds P evs` counts the complete *fair rounds* of the schedule `evs`: stretches in which each of the `P + 1`
actors (caller, workers) gets at least one turn, in any order and multiplicity.  That is the only hypothesis on
the scheduler.  Which steps need it: a worker that holds work must get turns (otherwise its job is never
performed: `map_starved_worker_never_finishes`), and the caller must get turns to submit and to poll; the caller's
polling of *empty* result queues is the only unproductive step, and at most `P - 1` of them happen in a row
before the cursor stands at a non-empty queue (`MapSt.dist`). -/

/-- **Variant.** `phi = P * (queue interactions still to happen) + (empty result queues the polling cursor has
to pass)`.  No step of any actor increases it — after any schedule prefix, for any continuation. -/
theorem map_variant_never_increases (ws : List (Worker α)) (js : List (Res α)) (evs evs2 : List Nat)
    (hq : Quiescent ws) (hp : ws ≠ []) :
    ((initMap ws js).run (evs ++ evs2)).phi ≤ ((initMap ws js).run evs).phi := by
  have hi := mapInv_init ws js hq hp
  have hc : (initMap ws js).cursor < (initMap ws js).ws.length := hi.pos
  rw [MapSt.run_append]
  exact phi_run_le evs2 _ (mapInv_run hi evs) (cursor_lt_run hi.pos hc evs)

/-- **Every fair round makes progress.** After any schedule prefix, while the caller has not collected its
batch, any stretch of schedule in which every actor gets a turn strictly decreases the variant. -/
theorem map_fair_round_decreases_variant (ws : List (Worker α)) (js : List (Res α)) (evs r : List Nat)
    (hq : Quiescent ws) (hp : ws ≠ []) (hf : ((initMap ws js).run evs).finished = false)
    (hr : ∀ a ∈ List.range (ws.length + 1), a ∈ r) :
    ((initMap ws js).run (evs ++ r)).phi < ((initMap ws js).run evs).phi := by
  have hi := mapInv_init ws js hq hp
  have hc : (initMap ws js).cursor < (initMap ws js).ws.length := hi.pos
  rw [MapSt.run_append]
  refine fair_round_decreases (mapInv_run hi evs) (cursor_lt_run hi.pos hc evs) hf r ?_
  rw [MapSt.run_length]
  simpa [initMap] using hr

/-- **Termination with a computed bound.** Every schedule that contains `4·n·P + 1` fair rounds (`n` inputs,
`P` workers) — whatever else it contains, in whatever order — makes `map` collect its whole batch; what it then
returns is the serial result and nothing is left in any queue. -/
theorem map_terminates_under_every_fair_schedule (ws : List (Worker α)) (js : List (Res α)) (evs : List Nat)
    (hq : Quiescent ws) (hp : ws ≠ []) (hfair : mapRoundBound ws.length js.length ≤ fairRounds ws.length evs) :
    ((initMap ws js).run evs).finished = true ∧ ((initMap ws js).run evs).output = serial js ∧
      leftover ((initMap ws js).run evs).ws = 0 := by
  have hi := mapInv_init ws js hq hp
  have hc : (initMap ws js).cursor < (initMap ws js).ws.length := hi.pos
  have hl : (initMap ws js).ws.length = ws.length := by simp [initMap]
  have hfin : ((initMap ws js).run evs).finished = true := by
    rcases fair_rounds_finish ws.length _ (initMap ws js) evs hi hc hl hfair with h | h
    · exact h
    · rw [phi_init ws js hq] at h
      unfold mapRoundBound at h
      omega
  exact ⟨hfin, map_equals_serial ws js evs hq hp hfin, (map_no_leftover ws js evs hq hp hfin).2.1⟩

/-- once `map` has collected its batch nothing any actor does changes that (so "within the bound" is "at the
bound and ever after") -/
theorem map_finished_is_stable (ws : List (Worker α)) (js : List (Res α)) (evs evs2 : List Nat)
    (hf : ((initMap ws js).run evs).finished = true) : ((initMap ws js).run (evs ++ evs2)).finished = true := by
  rw [MapSt.run_append]
  exact finished_run hf evs2

/-- the function the driver executes for the fairness clause (`mapExact`: the schedule and nothing after it) -/
theorem mapExact_fair_spec (ws : List (Worker α)) (js : List (Res α)) (sched : List Nat)
    (hq : Quiescent ws) (hp : ws ≠ []) (hfair : mapRoundBound ws.length js.length ≤ fairRounds ws.length sched) :
    (mapExact ws js sched).finished = true ∧ (mapExact ws js sched).output = serial js :=
  ⟨(map_terminates_under_every_fair_schedule ws js sched hq hp hfair).1,
   (map_terminates_under_every_fair_schedule ws js sched hq hp hfair).2.1⟩

/-- **Fairness is needed** (towards workers): two workers, two inputs; a schedule that never serves the second
worker never lets `map` return, however long it is. -/
theorem map_starved_worker_never_finishes (evs : List Nat) (h : 2 ∉ evs) :
    ((initMap (newPool 2) [Res.ok (0 : Nat), Res.ok 1]).run evs).finished = false := by
  cases hf : ((initMap (newPool 2) [Res.ok (0 : Nat), Res.ok 1]).run evs).finished with
  | false => rfl
  | true =>
    exfalso
    have hq : Quiescent (newPool 2 : List (Worker Nat)) := by
      intro w hw
      simp only [newPool, List.mem_replicate] at hw
      rw [hw.2]
      exact ⟨rfl, rfl, rfl⟩
    have hp : (newPool 2 : List (Worker Nat)) ≠ [] := by decide
    have hlen := MapSt.run_length (initMap (newPool 2) [Res.ok (0 : Nat), Res.ok 1]) evs
    have hl : 1 < ((initMap (newPool 2) [Res.ok (0 : Nat), Res.ok 1]).run evs).ws.length := by
      rw [hlen]; decide
    have hk := List.getElem?_eq_getElem hl
    have hlog := map_worker_log (newPool 2) [Res.ok (0 : Nat), Res.ok 1] evs hq hp hf 1 _ hk
    have hun := performed_unchanged (initMap (newPool 2) [Res.ok (0 : Nat), Res.ok 1]) 1 evs h
    rw [hk] at hun
    have h0 : (initMap (newPool 2) [Res.ok (0 : Nat), Res.ok 1]).ws[1]?.map Worker.performed = some [] := by decide
    rw [h0] at hun
    simp only [Option.map_some, Option.some.injEq] at hun
    rw [hun] at hlog
    revert hlog
    decide

/-! ## `Process.run_jobs` -/

/-- **Results keyed by job.** With the exception counted once, whatever the schedule (stale `empty()`
answers included), when `run_jobs` has left its loop the items it yielded are exactly the outcomes of the
jobs, each once (a permutation: callers key them by job number); nothing is queued or in flight. -/
theorem runjobs_yields_every_result_once (cfg : Cfg) (P : Nat) (js : List (Res α)) (evs : List Ev)
    (hc : cfg.countTwice = false) (hd : ((initRun cfg P js).run evs).done = true) :
    ((initRun cfg P js).run evs).yielded.Perm js ∧
      jobsOf ((initRun cfg P js).run evs).jobQ = [] ∧ rpipes ((initRun cfg P js).run evs).ws = [] := by
  have hi := runInv_run (runInv_init cfg P js) evs
  have hc' : ((initRun cfg P js).run evs).cfg.countTwice = false := by
    rw [RunSt.run_cfg]; exact hc
  have := runInv_done hi hc' hd
  exact ⟨this.yielded, this.no_jobs, this.no_flight⟩

/-- **Each job is performed exactly once**, in queue order. -/
theorem runjobs_each_job_once (cfg : Cfg) (P : Nat) (js : List (Res α)) (evs : List Ev)
    (hc : cfg.countTwice = false) (hd : ((initRun cfg P js).run evs).done = true) :
    ((initRun cfg P js).run evs).performed = List.range js.length := by
  have hi := runInv_run (runInv_init cfg P js) evs
  have hc' : ((initRun cfg P js).run evs).cfg.countTwice = false := by
    rw [RunSt.run_cfg]; exact hc
  exact (runInv_done hi hc' hd).performed

/-- at no point of any run (finished or not, any `cfg`) is a job performed twice or out of queue order, or
an outcome yielded that is not an outcome of the batch -/
theorem runjobs_never_duplicates (cfg : Cfg) (P : Nat) (js : List (Res α)) (evs : List Ev) :
    ((initRun cfg P js).run evs).performed <+: List.range js.length ∧
      ((initRun cfg P js).run evs).yielded.Sublist
        (((initRun cfg P js).run evs).yielded ++ (rpipes ((initRun cfg P js).run evs).ws ++
          (jobsOf ((initRun cfg P js).run evs).jobQ).map (·.res))) ∧
      (((initRun cfg P js).run evs).yielded ++ (rpipes ((initRun cfg P js).run evs).ws ++
          (jobsOf ((initRun cfg P js).run evs).jobQ).map (·.res))).Perm js := by
  have hi := runInv_run (runInv_init cfg P js) evs
  exact ⟨⟨_, hi.perf⟩, List.sublist_append_left _ _, hi.bag⟩

/-- **An exception is reported**: `AssertionError` is raised at the end iff some job failed. -/
theorem runjobs_exception_reported (cfg : Cfg) (P : Nat) (js : List (Res α)) (evs : List Ev)
    (hc : cfg.countTwice = false) (hd : ((initRun cfg P js).run evs).done = true) :
    ((initRun cfg P js).run evs).raised = js.any Res.isErr := by
  have hp := (runjobs_yields_every_result_once cfg P js evs hc hd).1
  rw [RunSt.raised, Bool.eq_iff_iff, List.any_eq_true, List.any_eq_true]
  constructor
  · rintro ⟨x, hx, he⟩; exact ⟨x, hp.mem_iff.mp hx, he⟩
  · rintro ⟨x, hx, he⟩; exact ⟨x, hp.mem_iff.mpr hx, he⟩

/-- the function the driver executes (`schedule` then round-robin) is such a run -/
theorem runJobs_spec (cfg : Cfg) (P : Nat) (js : List (Res α)) (sched : List Ev) (fuel : Nat)
    (hc : cfg.countTwice = false) (hd : (runJobs cfg P js sched fuel).done = true) :
    (runJobs cfg P js sched fuel).yielded.Perm js ∧
      (runJobs cfg P js sched fuel).performed = List.range js.length ∧
      (runJobs cfg P js sched fuel).raised = js.any Res.isErr := by
  obtain ⟨evs, he⟩ := RunSt.runToEnd_eq_run fuel ((initRun cfg P js).run sched)
  have he' : runJobs cfg P js sched fuel = (initRun cfg P js).run (sched ++ evs) := by
    rw [runJobs, he, RunSt.run_append]
  rw [he'] at hd ⊢
  exact ⟨(runjobs_yields_every_result_once cfg P js _ hc hd).1, runjobs_each_job_once cfg P js _ hc hd,
    runjobs_exception_reported cfg P js _ hc hd⟩

/-- **No reachable state is a trap** (repaired worker loop: stop tokens instead of `empty()`; exception counted
once).  After any schedule prefix — stale `empty()` answers to the caller included — some finite continuation
lets `run_jobs` return.  Compare `legacy_runjobs_stale_empty_never_returns`. -/
theorem runjobs_can_always_finish (P : Nat) (hP : 0 < P) (js : List (Res α)) (evs : List Ev) :
    ∃ evs', ((initRun {} P js).run (evs ++ evs')).done = true := by
  have hi := runInv_run (runInv_init {} P js) evs
  have hl := runLive_run (runLive_init P hP js) evs
  have hc : ((initRun ({} : Cfg) P js).run evs).cfg.countTwice = false := by rw [RunSt.run_cfg]; rfl
  obtain ⟨evs', h⟩ := rcan_finish _ _ hi hl hc (Nat.le_refl _)
  exact ⟨evs', by rw [RunSt.run_append]; exact h⟩

/-- **Refutation for the pinned commit** (`countTwice`): one worker, a failing job followed by a good one;
the caller takes the exception before the worker finishes the second job, counts it twice, and returns —
the second job's result is never yielded. -/
theorem legacy_runjobs_drops_result_after_exception :
    ∃ evs : List Ev,
      ((initRun { countTwice := true } 1 [Res.err 7, Res.ok 1]).run evs).done = true ∧
      ((initRun { countTwice := true } 1 [Res.err 7, Res.ok 1]).run evs).yielded = [Res.err 7] :=
  ⟨[⟨1, false⟩, ⟨1, false⟩, ⟨0, false⟩, ⟨0, false⟩, ⟨0, false⟩, ⟨0, false⟩], by decide⟩

/-- **Refutation for the pinned commit** (`pollEmpty`): the only worker reads one stale `empty()` and
leaves; from then on **no** continuation of the schedule lets the caller return (it polls for ever). -/
theorem legacy_runjobs_stale_empty_never_returns (evs : List Ev) :
    ((initRun { pollEmpty := true } 1 [Res.ok 0]).run (⟨1, true⟩ :: evs)).done = false := by
  have h0 : Stuck ((initRun ({ pollEmpty := true } : Cfg) 1 [Res.ok (0 : Nat)]).run [⟨1, true⟩]) := by
    refine ⟨by decide, by decide, ?_⟩
    intro k w hk
    have hk' : [({ phase := .dead } : RWorker Nat)][k]? = some w := hk
    cases k with
    | zero => simp at hk'; subst hk'; exact ⟨rfl, rfl, rfl⟩
    | succ k => simp at hk'
  have := stuck_run h0 evs
  have e : (initRun ({ pollEmpty := true } : Cfg) 1 [Res.ok (0 : Nat)]).run (⟨1, true⟩ :: evs)
      = ((initRun ({ pollEmpty := true } : Cfg) 1 [Res.ok (0 : Nat)]).run [⟨1, true⟩]).run evs := rfl
  rw [e]
  exact this.1

/-! ## Start-up and shutdown of the pools

`SneakyPool.__init__` starts `P` processes that block on their empty job queues (`newPool P`);
`SneakyPool.__del__` sends each process one `StopCommand` and joins with a timeout (`initDel`, `DelSt.step`).
The `map` theorems say a pool is quiescent whenever `map` has returned *or raised*; the theorems below start
from there, for every schedule of the `__del__` phase. -/

/-- a freshly started pool: `P` workers, nothing queued anywhere (the state `map` assumes) -/
theorem pool_startup_quiescent (P : Nat) :
    Quiescent (newPool P : List (Worker α)) ∧ (newPool P : List (Worker α)).length = P := by
  refine ⟨?_, by simp [newPool]⟩
  intro w hw
  simp only [newPool, List.mem_replicate] at hw
  rw [hw.2]
  exact ⟨rfl, rfl, rfl⟩

/-- **No result is left behind at process level.** From a quiescent pool, at every point of every schedule of
the shutdown no job and no result is on any queue or held by any worker: the only things ever queued are
`StopCommand`s. -/
theorem shutdown_leaves_no_result (ws : List (Worker α)) (hq : Quiescent ws) (evs : List Nat) :
    ((initDel ws).run evs).results = 0 ∧
      ∀ l ∈ ((initDel ws).run evs).ws, l.w.jobQ = [] ∧ l.w.hold = none ∧ l.w.resQ = [] := by
  have hi := delInv_run (delInv_init ws hq) evs
  have hall : ∀ l ∈ ((initDel ws).run evs).ws, l.w.jobQ = [] ∧ l.w.hold = none ∧ l.w.resQ = [] := by
    intro l hl
    obtain ⟨k, hk, hkl⟩ := List.mem_iff_getElem.mp hl
    have := hi.each k l (by rw [List.getElem?_eq_getElem hk, hkl])
    exact ⟨this.1, this.2.1, this.2.2.1⟩
  exact ⟨results_zero_of _ (fun l hl => ⟨(hall l hl).2.1, (hall l hl).2.2⟩), hall⟩

/-- **One `StopCommand` per process**, at every point of every schedule: process `k` has one queued exactly
when it has been sent and has not yet taken it; a process has left only by taking its own. -/
theorem shutdown_one_stop_per_process (ws : List (Worker α)) (hq : Quiescent ws) (evs : List Nat)
    (k : Nat) (l : LWorker α) (hk : ((initDel ws).run evs).ws[k]? = some l) :
    l.stops + (if l.alive = true then 0 else 1) = (if k < ((initDel ws).run evs).sent then 1 else 0) ∧
      ((initDel ws).run evs).sent ≤ ws.length := by
  have hi := delInv_run (delInv_init ws hq) evs
  refine ⟨(hi.each k l hk).2.2.2, ?_⟩
  have := hi.sent_le
  rw [DelSt.run_length] at this
  simpa [initDel] using this

/-- **Shutdown completes under every fair schedule**: `P + 1` fair rounds (any order inside a round) and no
process of the pool runs any more and no queue holds anything. -/
theorem shutdown_completes_under_every_fair_schedule (ws : List (Worker α)) (hq : Quiescent ws) (evs : List Nat)
    (hfair : ws.length + 1 ≤ fairRounds ws.length evs) : ((initDel ws).run evs).down = true := by
  obtain ⟨a, b, he, ha, hb⟩ := fair_split_phases ws.length ws.length evs hfair
  rw [he]
  apply down_of_gone
  exact shutdown_phases ws hq a b ha (fun k hk => hb (k + 1) (List.mem_range.mpr (by omega)))

/-- **Fairness is needed** for the second half: a process that is never served again stays (its
`StopCommand` stays queued), whatever else happens. -/
theorem shutdown_unserved_process_stays (evs : List Nat) (h : 1 ∉ evs) :
    ∃ l, ((initDel (newPool 1 : List (Worker Nat))).run evs).ws[0]? = some l ∧ l.alive = true :=
  aliveK_run evs _ ⟨_, rfl, rfl⟩ h

/-- **A `map` call — returned or raised — followed by `__del__`**: whatever the two schedules, no result is
left anywhere during shutdown, and a fair shutdown schedule ends with every process gone and every queue
empty. -/
theorem map_then_shutdown (ws : List (Worker α)) (js : List (Res α)) (evs dels : List Nat)
    (hq : Quiescent ws) (hp : ws ≠ []) (hf : ((initMap ws js).run evs).finished = true) :
    ((initDel ((initMap ws js).run evs).ws).run dels).results = 0 ∧
      (ws.length + 1 ≤ fairRounds ws.length dels →
        ((initDel ((initMap ws js).run evs).ws).run dels).down = true) := by
  obtain ⟨h1, _, h3⟩ := map_no_leftover ws js evs hq hp hf
  refine ⟨(shutdown_leaves_no_result _ h1 dels).1, ?_⟩
  intro hfair
  rw [← h3] at hfair
  exact shutdown_completes_under_every_fair_schedule _ h1 dels hfair

/-- the function the driver executes for a whole pool session (start, batches, `__del__`) -/
theorem poolSession_spec (P fuel : Nat) (hP : 0 < P) (bs : List (List (Res α) × List Nat)) (dels : List Nat)
    (hf : ∀ s ∈ runBatches fuel (newPool P) bs, s.finished = true) :
    (poolSession P fuel bs dels).results = 0 ∧
      (P + 1 ≤ fairRounds P dels → (poolSession P fuel bs dels).down = true) := by
  obtain ⟨hq0, hl0⟩ := pool_startup_quiescent (α := α) P
  have hp0 : (newPool P : List (Worker α)) ≠ [] := by
    intro e; rw [e] at hl0; simp at hl0; omega
  obtain ⟨h1, h2⟩ := runBatches_last fuel bs (newPool P) hq0 hp0 hf
  rw [hl0] at h2
  refine ⟨(shutdown_leaves_no_result _ h1 dels).1, ?_⟩
  intro hfair
  rw [← h2] at hfair
  exact shutdown_completes_under_every_fair_schedule _ h1 dels hfair

/-- **`Process.run_jobs`: one stop token per worker that has not left**, at every point of every schedule
(stop-token worker loop).  In particular no worker can be left without a token to take, and none is taken
twice. -/
theorem runjobs_stop_tokens_match_live_workers (P : Nat) (js : List (Res α)) (evs : List Ev) :
    stopTokens ((initRun {} P js).run evs).jobQ = liveWorkers ((initRun {} P js).run evs).ws :=
  (stopsMatch_run (stopsMatch_init P js) evs).2

/-- when `run_jobs` has left its loop (normally or on the way to raising `AssertionError`) nothing but those
stop tokens is on the shared queue and no result is queued or held anywhere -/
theorem runjobs_leaves_only_stop_tokens (P : Nat) (js : List (Res α)) (evs : List Ev)
    (hd : ((initRun {} P js).run evs).done = true) :
    jobsOf ((initRun {} P js).run evs).jobQ = [] ∧ rpipes ((initRun {} P js).run evs).ws = [] ∧
      stopTokens ((initRun {} P js).run evs).jobQ = liveWorkers ((initRun {} P js).run evs).ws :=
  ⟨(runjobs_yields_every_result_once {} P js evs rfl hd).2.1, (runjobs_yields_every_result_once {} P js evs rfl hd).2.2,
   runjobs_stop_tokens_match_live_workers P js evs⟩

/-! ## non-vacuity: concrete runs meeting the hypotheses -/

/-- three workers, five inputs with a failure in the middle, an adversarial schedule: finished, ordered -/
example :
    let s := mapBatch (newPool 3) [Res.ok 10, Res.ok 11, Res.err 12, Res.ok 13, Res.ok 14]
      [0, 0, 0, 3, 3, 0, 0, 2, 2, 0, 0, 0, 1, 0, 0] 50
    s.finished = true ∧ s.output = ⟨[10, 11], some 12⟩ ∧ leftover s.ws = 0 := by decide

/-- the pool of the theorems' hypotheses exists: a fresh pool is quiescent and non-empty -/
example : Quiescent (newPool 2 : List (Worker Nat)) ∧ (newPool 2 : List (Worker Nat)) ≠ [] := by
  refine ⟨?_, by decide⟩
  intro w hw
  simp only [newPool, List.mem_replicate] at hw
  rw [hw.2]
  exact ⟨rfl, rfl, rfl⟩

/-- two batches on one pool, the first one failing: both finish, each returns its own serial result -/
example :
    (runBatches 50 (newPool 2) [([Res.ok 1, Res.err 2, Res.ok 3], [0, 0, 2, 2, 0]), ([Res.ok 4, Res.ok 5], [])]).map
      (fun s => (s.finished, s.output)) = [(true, ⟨[1], some 2⟩), (true, ⟨[4, 5], none⟩)] := by decide

/-- `run_jobs` with two workers and a failing job: returns, everything yielded, exception reported -/
example :
    let s := runJobs {} 2 [Res.ok 1, Res.err 2, Res.ok 3] [⟨2, false⟩, ⟨2, false⟩, ⟨0, false⟩, ⟨1, false⟩] 50
    s.done = true ∧ s.yielded.length = 3 ∧ s.raised = true ∧ s.performed = [0, 1, 2] := by decide

/-- a schedule meeting the fairness hypothesis: 17 rounds in which the second worker comes first, the caller
second; `map` over two inputs on two workers has finished at its end (and in fact much earlier) -/
example :
    mapRoundBound 2 2 ≤ fairRounds 2 (List.replicate 17 [2, 0, 1]).flatten ∧
      (mapExact (newPool 2) [Res.ok 5, Res.err 6] (List.replicate 17 [2, 0, 1]).flatten).finished = true ∧
      (mapExact (newPool 2) [Res.ok 5, Res.err 6] (List.replicate 4 [2, 0, 1]).flatten).output = ⟨[5], some 6⟩ := by
  decide +kernel

/-- an unfinished state and a fair round from it: the variant goes down (here from 10 to 7) -/
example :
    ((initMap (newPool 2) [Res.ok 0, Res.ok 1]).run [0, 0, 1]).finished = false ∧
      ((initMap (newPool 2) [Res.ok 0, Res.ok 1]).run [0, 0, 1]).phi = 10 ∧
      ((initMap (newPool 2) [Res.ok 0, Res.ok 1]).run ([0, 0, 1] ++ [2, 0, 1])).phi = 7 := by decide

/-- a session with a failing batch, then `__del__` along a schedule that serves the second process first: both
processes have left, nothing is queued; before the workers are served the two `StopCommand`s are queued -/
example :
    (poolSession 2 50 [([Res.ok 1, Res.err 2, Res.ok 3], [0, 0, 2, 2, 0])] [2, 0, 1, 0, 2, 1, 2, 0, 1]).down = true ∧
      3 ≤ fairRounds 2 [2, 0, 1, 0, 2, 1, 2, 0, 1] ∧
      (poolSession 2 50 [([Res.ok 1, Res.err 2, Res.ok 3], [0, 0, 2, 2, 0])] [0, 0]).queued = 2 ∧
      (poolSession 2 50 [([Res.ok 1, Res.err 2, Res.ok 3], [0, 0, 2, 2, 0])] [0, 0]).aliveCount = 2 := by decide

/-- `run_jobs` midway: one worker has left with its token, one token and one live worker remain -/
example :
    let s := (initRun {} 2 [Res.ok (1 : Nat)]).run [⟨1, false⟩, ⟨2, false⟩]
    stopTokens s.jobQ = 1 ∧ liveWorkers s.ws = 1 := by decide

end AF.C14
