import AFModel.SamplesMore
import AFProofs.Lemmas.SamplesConv

/-! Helper lemmas for the C05 growth (`AFModel/SamplesMore.lean`): weights of a four-way zip, the
"keep the first best" fold commutes with maps that preserve the comparison, a first maximum survives a
filter that keeps it, naturality of the two flattenings the driver runs. Core Lean only. -/

namespace AF.Samples

variable {V : Type}

/-! ## `fromLists`: the weight column -/

theorem fromLists_w_of_length : ∀ (ps : List (List V)) (ls qs ws : List V),
    ps.length = ws.length → ls.length = ws.length → qs.length = ws.length →
    (fromLists ps ls qs ws).map (·.w) = ws
  | [], _, _, [], _, _, _ => by simp [fromLists]
  | p :: ps, l :: ls, q :: qs, w :: ws, h1, h2, h3 => by
    simp only [List.length_cons, Nat.add_right_cancel_iff] at h1 h2 h3
    simp [fromLists, fromLists_w_of_length ps ls qs ws h1 h2 h3]
  | [], _, _, _ :: _, h, _, _ => by simp at h
  | _ :: _, [], _, _ :: _, _, h, _ => by simp at h
  | _ :: _, _ :: _, [], _ :: _, _, _, h => by simp at h
  | _ :: _, _, _, [], h, _, _ => by simp at h

/-- `weightSum` is the left fold of the weight column -/
theorem weightSum_eq_foldl (o : SOps V) (ss : List (Sample V)) :
    weightSum o ss = (ss.map (·.w)).foldl o.add o.zero := by
  simp [weightSum, List.foldl_map]

/-! ## the "keep the first best" fold -/

theorem maxSample_eq_pickFirst (o : SOps V) (ss : List (Sample V)) :
    maxSample o ss = pickFirst (fun b s => o.lt b.ll s.ll) ss := by
  have : maxStep o = pickStep (fun (b s : Sample V) => o.lt b.ll s.ll) := by
    funext best s
    cases best <;> rfl
  simp [maxSample, pickFirst, this]

theorem pickStep_map {α β} (f : α → β) (better : β → β → Bool) (acc : Option α) (x : α) :
    pickStep better (acc.map f) (f x) = (pickStep (fun a b => better (f a) (f b)) acc x).map f := by
  cases acc with
  | none => rfl
  | some b =>
    simp only [Option.map_some, pickStep]
    split <;> rfl

theorem foldl_pickStep_map {α β} (f : α → β) (better : β → β → Bool) : ∀ (l : List α) (acc : Option α),
    (l.map f).foldl (pickStep better) (acc.map f)
      = (l.foldl (pickStep (fun a b => better (f a) (f b))) acc).map f
  | [], _ => rfl
  | x :: l, acc => by
    simp only [List.map_cons, List.foldl_cons, pickStep_map]
    exact foldl_pickStep_map f better l _

/-- a map through which the comparison factors commutes with the arg-max loop -/
theorem pickFirst_map {α β} (f : α → β) (better : β → β → Bool) (l : List α) :
    pickFirst better (l.map f) = (pickFirst (fun a b => better (f a) (f b)) l).map f := by
  simpa [pickFirst] using foldl_pickStep_map f better l none

theorem foldl_pickStep_mem {α} (better : α → α → Bool) : ∀ (l : List α) (acc : Option α) (a : α),
    l.foldl (pickStep better) acc = some a → a ∈ l ∨ acc = some a
  | [], acc, a, h => Or.inr (by simpa using h)
  | x :: l, acc, a, h => by
    simp only [List.foldl_cons] at h
    rcases foldl_pickStep_mem better l _ a h with h | h
    · exact Or.inl (List.mem_cons_of_mem _ h)
    · cases acc with
      | none =>
        simp only [pickStep, Option.some.injEq] at h
        subst h
        exact Or.inl (by simp)
      | some b =>
        simp only [pickStep] at h
        split at h
        · simp only [Option.some.injEq] at h; subst h; exact Or.inl (by simp)
        · exact Or.inr h

theorem pickFirst_mem {α} (better : α → α → Bool) (l : List α) (a : α) (h : pickFirst better l = some a) :
    a ∈ l := by
  rcases foldl_pickStep_mem better l none a h with h | h
  · exact h
  · simp at h

theorem pickFirst_none_iff {α} (better : α → α → Bool) (l : List α) : pickFirst better l = none ↔ l = [] := by
  cases l with
  | nil => simp [pickFirst]
  | cons x l =>
    simp only [pickFirst, List.foldl_cons, pickStep, reduceCtorEq, iff_false]
    have : ∀ (l : List α) (a : α), ∃ b, l.foldl (pickStep better) (some a) = some b := by
      intro l
      induction l with
      | nil => intro a; exact ⟨a, rfl⟩
      | cons y l ih =>
        intro a
        simp only [List.foldl_cons, pickStep]
        split <;> exact ih _
    obtain ⟨b, hb⟩ := this l x
    rw [hb]; simp

/-- an element of `l.zipIdx` sits at its index -/
theorem getElem?_of_mem_zipIdx {α} (l : List α) (a : α) (i : Nat) (h : (a, i) ∈ l.zipIdx) : l[i]? = some a := by
  have := List.mem_zipIdx_iff_getElem?.1 h
  simpa using this

/-! ## a first maximum, stated on the list, determines the arg-max -/

/-- while every element seen is below `b`, the incumbent is below `b` -/
theorem foldl_below (o : SOps V) (b : Sample V) : ∀ (pre : List (Sample V)) (acc : Option (Sample V)),
    (∀ x, acc = some x → o.lt x.ll b.ll = true) → (∀ s ∈ pre, o.lt s.ll b.ll = true) →
    ∀ x, pre.foldl (maxStep o) acc = some x → o.lt x.ll b.ll = true
  | [], acc, hacc, _, x, h => hacc x (by simpa using h)
  | s :: pre, acc, hacc, hpre, x, h => by
    simp only [List.foldl_cons] at h
    refine foldl_below o b pre (maxStep o acc s) ?_ (fun t ht => hpre t (List.mem_cons_of_mem _ ht)) x h
    intro y hy
    cases acc with
    | none =>
      simp only [maxStep, Option.some.injEq] at hy
      subst hy
      exact hpre _ (by simp)
    | some a =>
      simp only [maxStep] at hy
      split at hy
      · simp only [Option.some.injEq] at hy; subst hy; exact hpre _ (by simp)
      · exact hacc y hy

/-- once `b` is the incumbent and nothing later exceeds it, it stays -/
theorem foldl_stays (o : SOps V) (b : Sample V) : ∀ (post : List (Sample V)),
    (∀ s ∈ post, o.lt b.ll s.ll = false) → post.foldl (maxStep o) (some b) = some b
  | [], _ => rfl
  | s :: post, h => by
    simp only [List.foldl_cons, maxStep, h s (by simp)]
    exact foldl_stays o b post (fun t ht => h t (List.mem_cons_of_mem _ ht))

/-- converse of `bestOf_foldl`: a sample preceded only by strictly smaller ones and followed by none larger
is what the loop returns -/
theorem maxSample_of_first_max (o : SOps V) (pre post : List (Sample V)) (b : Sample V)
    (hpre : ∀ s ∈ pre, o.lt s.ll b.ll = true) (hpost : ∀ s ∈ post, o.lt b.ll s.ll = false) :
    maxSample o (pre ++ b :: post) = some b := by
  simp only [maxSample, List.foldl_append, List.foldl_cons]
  have hb := foldl_below o b pre none (by simp) hpre
  cases hacc : pre.foldl (maxStep o) none with
  | none => simpa [maxStep] using foldl_stays o b post hpost
  | some x =>
    have := hb x hacc
    simp only [maxStep, this, if_true]
    exact foldl_stays o b post hpost

/-! ## the first-maximum invariant for any key (generalises `BestOf` of `Lemmas/SamplesConv.lean`) -/

/-- the incumbent of a "keep the first best" loop over `key`: the first element seen that none exceeds -/
def PickedOf {α} (lt : V → V → Bool) (key : α → V) (seen : List α) : Option α → Prop
  | none => seen = []
  | some b => ∃ pre post, seen = pre ++ b :: post ∧ (∀ s ∈ pre, lt (key s) (key b) = true) ∧
      (∀ s ∈ post, lt (key b) (key s) = false)

theorem pickedOf_step {α} (lt : V → V → Bool) (key : α → V)
    (htr : ∀ a b c, lt a b = true → lt b c = true → lt a c = true)
    (hnt : ∀ a b c, lt a c = true → lt a b = true ∨ lt b c = true)
    (seen : List α) (acc : Option α) (s : α) (h : PickedOf lt key seen acc) :
    PickedOf lt key (seen ++ [s]) (pickStep (fun a b => lt (key a) (key b)) acc s) := by
  cases acc with
  | none =>
    simp only [PickedOf] at h
    subst h
    exact ⟨[], [], by simp, by simp, by simp⟩
  | some b =>
    obtain ⟨pre, post, hs, hpre, hpost⟩ := h
    simp only [pickStep]
    by_cases hlt : lt (key b) (key s) = true
    · simp only [hlt, if_true]
      refine ⟨seen, [], by simp, ?_, by simp⟩
      intro x hx
      rw [hs] at hx
      rcases List.mem_append.1 hx with hx | hx
      · exact htr _ _ _ (hpre x hx) hlt
      · rcases List.mem_cons.1 hx with rfl | hx
        · exact hlt
        · rcases hnt _ (key x) _ hlt with h1 | h1
          · rw [hpost x hx] at h1; exact absurd h1 (by simp)
          · exact h1
    · have hf : lt (key b) (key s) = false := by simpa using hlt
      simp only [hf]
      refine ⟨pre, post ++ [s], by simp [hs], hpre, ?_⟩
      intro x hx
      rcases List.mem_append.1 hx with hx | hx
      · exact hpost x hx
      · simp at hx; subst hx; exact hf

theorem pickedOf_foldl {α} (lt : V → V → Bool) (key : α → V)
    (htr : ∀ a b c, lt a b = true → lt b c = true → lt a c = true)
    (hnt : ∀ a b c, lt a c = true → lt a b = true ∨ lt b c = true) :
    ∀ (l seen : List α) (acc : Option α), PickedOf lt key seen acc →
      PickedOf lt key (seen ++ l) (l.foldl (pickStep (fun a b => lt (key a) (key b))) acc)
  | [], seen, acc, h => by simpa using h
  | s :: l, seen, acc, h => by
    have := pickedOf_foldl lt key htr hnt l (seen ++ [s]) _ (pickedOf_step lt key htr hnt seen acc s h)
    simpa using this

/-- what a "keep the first best" loop over `key` returns is the first maximum of `key` (strict weak order) -/
theorem pickFirst_first_max {α} (lt : V → V → Bool) (key : α → V)
    (htr : ∀ a b c, lt a b = true → lt b c = true → lt a c = true)
    (hnt : ∀ a b c, lt a c = true → lt a b = true ∨ lt b c = true)
    (l : List α) (b : α) (h : pickFirst (fun a b => lt (key a) (key b)) l = some b) :
    ∃ pre post, l = pre ++ b :: post ∧ (∀ s ∈ pre, lt (key s) (key b) = true) ∧
      (∀ s ∈ post, lt (key b) (key s) = false) := by
  have := pickedOf_foldl lt key htr hnt l [] none rfl
  simp only [List.nil_append] at this
  unfold pickFirst at h
  rw [h] at this
  exact this

/-! ## flattenings -/

theorem column_map {α β} (f : α → β) (j : Nat) (m : List (List α)) :
    column j (m.map (List.map f)) = (column j m).map f := by
  induction m with
  | nil => rfl
  | cons row m ih =>
    simp only [column, List.map_cons, List.filterMap_cons, List.getElem?_map] at ih ⊢
    cases row[j]? <;> simp [ih]

theorem walkerMajor_map {α β} (f : α → β) (w : Nat) (m : List (List α)) :
    walkerMajor w (m.map (List.map f)) = (walkerMajor w m).map f := by
  simp only [walkerMajor, List.map_flatMap, column_map]

theorem zeusSlice_map {α β} (f : α → β) (d t : Nat) (l : List α) :
    zeusSlice d t (l.map f) = (zeusSlice d t l).map f := by
  simp [zeusSlice, pySliceStep, ← List.map_drop, everyNthAux_map]

theorem zeusSlice_sublist {α} (d t : Nat) (l : List α) : (zeusSlice d t l).Sublist l :=
  (everyNthAux_sublist t _ 0).trans (List.drop_sublist _ l)

/-! ## keyed samples -/

theorem zipAllEq_refl {A} [DecidableEq A] : ∀ (k : List A), zipAllEq k k = true
  | [] => rfl
  | a :: k => by simp [zipAllEq, zipAllEq_refl k]

end AF.Samples
