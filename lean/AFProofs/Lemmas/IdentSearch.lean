import AFModel.IdentSearch

/-! Lemmas for C07: the generated table of identifying search settings. -/

namespace AF.IdentSearch
open AF AF.Generated.C07

theorem tokensFields_map_congr (keep : String → Bool) (σ τ : String → PyVal) : ∀ (l : List String),
    (∀ f ∈ l, σ f = τ f) → tokensFields keep (l.map (fun f => (f, σ f))) = tokensFields keep (l.map (fun f => (f, τ f)))
  | [], _ => rfl
  | f :: l, h => by
    simp only [List.map, tokensFields, h f (List.mem_cons_self ..),
      tokensFields_map_congr keep σ τ l (fun g hg => h g (List.mem_cons_of_mem _ hg))]

theorem tokensFields_append2 (keep) : ∀ (a b : List (String × PyVal)),
    tokensFields keep (a ++ b) = tokensFields keep a ++ tokensFields keep b
  | [], b => by simp [tokensFields]
  | (k, v) :: a, b => by
    simp only [List.cons_append, tokensFields, tokensFields_append2 keep a b, List.append_assoc]

/-- only the identifying settings of a search enter -/
theorem search_tokens_only_identifying (row : SearchRow) (σ τ : String → PyVal) (h : ∀ f ∈ row.idf, σ f = τ f) :
    tokens (searchVal row σ) = tokens (searchVal row τ) := by
  simp only [searchVal, tokens, tokensFields_map_congr _ σ τ row.idf h]

theorem search_field_sensitive_aux (σ τ : String → PyVal) (f : String) (hs : skipKey f = false)
    (hd : tokens (σ f) ≠ tokens (τ f)) (hsame : ∀ g, g ≠ f → σ g = τ g) : ∀ (l : List String), l.Nodup → f ∈ l →
    tokensFields (fun _ => true) (l.map (fun g => (g, σ g))) ≠ tokensFields (fun _ => true) (l.map (fun g => (g, τ g)))
  | [], _, hf => by simp at hf
  | g :: l, hn, hf => by
    have hn2 := List.nodup_cons.mp hn
    by_cases hg : g = f
    · subst hg
      have hrest : tokensFields (fun _ => true) (l.map (fun x => (x, σ x))) = tokensFields (fun _ => true) (l.map (fun x => (x, τ x))) :=
        tokensFields_map_congr _ σ τ l (fun x hx => hsame x (fun hxg => hn2.1 (hxg ▸ hx)))
      simp only [List.map, tokensFields, hs, Bool.not_false, Bool.and_self, if_true, hrest, ne_eq, List.cons_append,
        List.cons.injEq, true_and]
      intro he
      exact hd (List.append_cancel_right he)
    · have hfl : f ∈ l := by
        rcases List.mem_cons.mp hf with h | h
        · exact absurd h.symm hg
        · exact h
      have ih := search_field_sensitive_aux σ τ f hs hd hsame l hn2.2 hfl
      simp only [List.map, tokensFields, hsame g hg, ne_eq]
      intro he
      exact ih (List.append_cancel_left he)

theorem search_field_sensitive (row : SearchRow) (hn : row.idf.Nodup) (f : String) (hf : f ∈ row.idf) (hs : skipKey f = false)
    (σ τ : String → PyVal) (hd : tokens (σ f) ≠ tokens (τ f)) (hsame : ∀ g, g ≠ f → σ g = τ g) :
    tokens (searchVal row σ) ≠ tokens (searchVal row τ) := by
  simp only [searchVal, tokens, ne_eq, List.cons.injEq, true_and]
  exact search_field_sensitive_aux σ τ f hs hd hsame row.idf hn hf

/-- `skipKey` in a form the kernel evaluates -/
def skipKeyL (k : String) : Bool :=
  (match k.toList with | '_' :: _ => true | _ => false) || k == "id" || k == "paths"
theorem skipKey_eq_skipKeyL (k : String) : skipKey k = skipKeyL k := by
  simp only [skipKey, skipKeyL]
  congr 2
  cases h : k.toList with
  | nil => simp [h]
  | cons c cs =>
    by_cases hc : c = '_'
    · subst hc
      have : k.startsWith "_" = true := by simp [h]
      simp [this]
    · have : k.startsWith "_" = false := by
        rw [Bool.eq_false_iff]; simp [h]; exact fun e => hc e.symm
      rw [this]
      split
      · rename_i heq; simp at heq; exact absurd heq.1 hc
      · rfl

theorem table_fields_visible : ∀ row ∈ searchTable, ∀ f ∈ row.idf, skipKey f = false := by
  have h : ∀ row ∈ searchTable, ∀ f ∈ row.idf, skipKeyL f = false := by decide
  intro row hr f hf
  rw [skipKey_eq_skipKeyL]; exact h row hr f hf
theorem table_fields_nodup : ∀ row ∈ searchTable, row.idf.Nodup := by
  decide
theorem table_others_disjoint : ∀ row ∈ searchTable, ∀ g ∈ row.others, g ∉ row.idf := by
  decide
theorem table_names_nodup : (searchTable.map (·.name)).Nodup := by
  decide
theorem prior_table_matches : ∀ k ∈ allKinds, priorTable.lookup k.className = some (priorFieldNames k) := by
  decide
theorem prior_table_complete : priorTable.map (·.1) = ["GaussianPrior", "LogGaussianPrior", "LogUniformPrior", "UniformPrior"] := by
  decide

end AF.IdentSearch
