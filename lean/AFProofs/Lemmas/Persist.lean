import AFModel.Persist
import AFProofs.Lemmas.Comp

/-! Lemmas about `renameIds` (C08). -/

namespace AF

mutual
theorem walk_rename {V} (σ : Nat → Nat) : ∀ (n : Node V),
    walk (renameIds σ n) = (walk n).map (fun x => (x.1, σ x.2))
  | .prior id => by simp [renameIds, walk]
  | .const _ => by simp [renameIds, walk]
  | .opaque _ => by simp [renameIds, walk]
  | .model _ _ attrs => by simp only [renameIds, walk]; exact walkAttrs_rename σ attrs
  | .coll attrs => by simp only [renameIds, walk]; exact walkAttrs_rename σ attrs
  | .tuple attrs => by simp only [renameIds, walk]; exact walkAttrs_rename σ attrs
  | .arith _ attrs _ _ => by simp only [renameIds, walk]; exact walkAttrs_rename σ attrs
  | .modif _ attrs _ => by simp only [renameIds, walk]; exact walkAttrs_rename σ attrs
  | .array _ attrs => by simp only [renameIds, walk]; exact walkAttrs_rename σ attrs
theorem walkAttrs_rename {V} (σ : Nat → Nat) : ∀ (attrs : List (String × Node V)),
    walkAttrs (renameAttrs σ attrs) = (walkAttrs attrs).map (fun x => (x.1, σ x.2))
  | [] => by simp [renameAttrs, walkAttrs]
  | (k, n) :: rest => by
    simp only [renameAttrs, walkAttrs, List.map_append, List.map_map]
    rw [walk_rename σ n, walkAttrs_rename σ rest, List.map_map]
    rfl
end

mutual
theorem instW_rename {V} [Inhabited V] (ops : Ops V) (ρ : Nat → Inst V) (σ : Nat → Nat) : ∀ (n : Node V),
    instW ops ρ (renameIds σ n) = instW ops (fun i => ρ (σ i)) n
  | .prior id => by simp [renameIds, instW]
  | .const _ => by simp [renameIds, instW]
  | .opaque _ => by simp [renameIds, instW]
  | .model cls ctor attrs => by
      simp only [renameIds, instW]; rw [instModelAttrs_rename ops ρ σ ctor attrs]
  | .coll attrs => by simp only [renameIds, instW]; rw [instCollAttrs_rename ops ρ σ attrs]
  | .tuple attrs => by simp only [renameIds, instW]; rw [instTupleAttrs_rename ops ρ σ attrs]
  | .arith op attrs l r => by
      simp only [renameIds, instW]; rw [instW_rename ops ρ σ l, instW_rename ops ρ σ r]
  | .modif op attrs x => by simp only [renameIds, instW]; rw [instW_rename ops ρ σ x]
  | .array shape attrs => by simp only [renameIds, instW]; rw [instArrayEntries_rename ops ρ σ attrs]
theorem instModelAttrs_rename {V} [Inhabited V] (ops : Ops V) (ρ : Nat → Inst V) (σ : Nat → Nat) (ctor : List String) :
    ∀ (attrs : List (String × Node V)),
    instModelAttrs ops ρ ctor (renameAttrs σ attrs) = instModelAttrs ops (fun i => ρ (σ i)) ctor attrs
  | [] => by simp [renameAttrs, instModelAttrs]
  | (k, n) :: rest => by
    have ih := instModelAttrs_rename ops ρ σ ctor rest
    simp only [renameAttrs]
    unfold instModelAttrs
    split
    · rw [instW_rename ops ρ σ n, ih]
    · cases n <;> simp [renameIds, ih]
theorem instCollAttrs_rename {V} [Inhabited V] (ops : Ops V) (ρ : Nat → Inst V) (σ : Nat → Nat) :
    ∀ (attrs : List (String × Node V)),
    instCollAttrs ops ρ (renameAttrs σ attrs) = instCollAttrs ops (fun i => ρ (σ i)) attrs
  | [] => by simp [renameAttrs, instCollAttrs]
  | (k, n) :: rest => by
    have ih := instCollAttrs_rename ops ρ σ rest
    have hn := instW_rename ops ρ σ n
    simp only [renameAttrs]
    unfold instCollAttrs
    cases n <;> simp_all [renameIds]
theorem instTupleAttrs_rename {V} [Inhabited V] (ops : Ops V) (ρ : Nat → Inst V) (σ : Nat → Nat) :
    ∀ (attrs : List (String × Node V)),
    instTupleAttrs ops ρ (renameAttrs σ attrs) = instTupleAttrs ops (fun i => ρ (σ i)) attrs
  | [] => by simp [renameAttrs, instTupleAttrs]
  | (k, n) :: rest => by
    have ih := instTupleAttrs_rename ops ρ σ rest
    simp only [renameAttrs]
    unfold instTupleAttrs
    cases n <;> simp_all [renameIds, instW]
theorem instArrayEntries_rename {V} [Inhabited V] (ops : Ops V) (ρ : Nat → Inst V) (σ : Nat → Nat) :
    ∀ (attrs : List (String × Node V)),
    instArrayEntries ops ρ (renameAttrs σ attrs) = instArrayEntries ops (fun i => ρ (σ i)) attrs
  | [] => by simp [renameAttrs, instArrayEntries]
  | (k, n) :: rest => by
    have ih := instArrayEntries_rename ops ρ σ rest
    have hn := instW_rename ops ρ σ n
    simp only [renameAttrs]
    unfold instArrayEntries
    cases n <;> simp_all [renameIds]
end

mutual
theorem renameIds_id {V} : ∀ (n : Node V), renameIds id n = n
  | .prior _ => by simp [renameIds]
  | .const _ => by simp [renameIds]
  | .opaque _ => by simp [renameIds]
  | .model _ _ attrs => by simp [renameIds, renameAttrs_id attrs]
  | .coll attrs => by simp [renameIds, renameAttrs_id attrs]
  | .tuple attrs => by simp [renameIds, renameAttrs_id attrs]
  | .arith _ attrs l r => by simp [renameIds, renameAttrs_id attrs, renameIds_id l, renameIds_id r]
  | .modif _ attrs x => by simp [renameIds, renameAttrs_id attrs, renameIds_id x]
  | .array _ attrs => by simp [renameIds, renameAttrs_id attrs]
theorem renameAttrs_id {V} : ∀ (attrs : List (String × Node V)), renameAttrs id attrs = attrs
  | [] => by simp [renameAttrs]
  | (k, n) :: rest => by simp [renameAttrs, renameIds_id n, renameAttrs_id rest]
end

mutual
theorem renameIds_comp {V} (σ τ : Nat → Nat) : ∀ (n : Node V),
    renameIds τ (renameIds σ n) = renameIds (fun i => τ (σ i)) n
  | .prior _ => by simp [renameIds]
  | .const _ => by simp [renameIds]
  | .opaque _ => by simp [renameIds]
  | .model _ _ attrs => by simp [renameIds, renameAttrs_comp σ τ attrs]
  | .coll attrs => by simp [renameIds, renameAttrs_comp σ τ attrs]
  | .tuple attrs => by simp [renameIds, renameAttrs_comp σ τ attrs]
  | .arith _ attrs l r => by simp [renameIds, renameAttrs_comp σ τ attrs, renameIds_comp σ τ l, renameIds_comp σ τ r]
  | .modif _ attrs x => by simp [renameIds, renameAttrs_comp σ τ attrs, renameIds_comp σ τ x]
  | .array _ attrs => by simp [renameIds, renameAttrs_comp σ τ attrs]
theorem renameAttrs_comp {V} (σ τ : Nat → Nat) : ∀ (attrs : List (String × Node V)),
    renameAttrs τ (renameAttrs σ attrs) = renameAttrs (fun i => τ (σ i)) attrs
  | [] => by simp [renameAttrs]
  | (k, n) :: rest => by simp [renameAttrs, renameIds_comp σ τ n, renameAttrs_comp σ τ rest]
end

/-! ### counting distinct ids under an injective renaming -/

theorem length_insertUniq (a : Nat) : ∀ (l : List Nat), l.Pairwise (· < ·) →
    (insertUniq a l).length = if a ∈ l then l.length else l.length + 1
  | [], _ => by simp [insertUniq]
  | b :: bs, h => by
    have hb := List.pairwise_cons.mp h
    unfold insertUniq
    split
    · rename_i hab
      have : a ∉ b :: bs := by
        intro hm
        rcases List.mem_cons.mp hm with rfl | hm
        · omega
        · have := hb.1 a hm; omega
      simp [this]
    · split
      · rename_i h1 h2; subst h2; simp
      · rename_i h1 h2
        have ih := length_insertUniq a bs hb.2
        have hne : a ≠ b := h2
        by_cases hm : a ∈ bs
        · simp [ih, hm]
        · simp [ih, hm, hne]

theorem length_sortDedup_map (σ : Nat → Nat) : ∀ (l : List Nat),
    (∀ i ∈ l, ∀ j ∈ l, σ i = σ j → i = j) →
    (sortDedup (l.map σ)).length = (sortDedup l).length
  | [], _ => by simp [sortDedup]
  | a :: l, hinj => by
    have hinj' : ∀ i ∈ l, ∀ j ∈ l, σ i = σ j → i = j :=
      fun i hi j hj h => hinj i (List.mem_cons_of_mem _ hi) j (List.mem_cons_of_mem _ hj) h
    have ih := length_sortDedup_map σ l hinj'
    simp only [List.map_cons, sortDedup, List.foldr_cons] at ih ⊢
    have s1 : (List.foldr insertUniq [] (List.map σ l)).Pairwise (· < ·) := sorted_sortDedup _
    have s2 : (List.foldr insertUniq [] l).Pairwise (· < ·) := sorted_sortDedup _
    rw [length_insertUniq _ _ s1, length_insertUniq _ _ s2]
    have hiff : σ a ∈ sortDedup (l.map σ) ↔ a ∈ sortDedup l := by
      rw [mem_sortDedup, mem_sortDedup]
      constructor
      · intro h
        obtain ⟨j, hj, hje⟩ := List.mem_map.mp h
        have := hinj j (List.mem_cons_of_mem _ hj) a (List.mem_cons_self ..) hje
        exact this ▸ hj
      · intro h; exact List.mem_map.mpr ⟨a, h, rfl⟩
    simp only [sortDedup] at hiff
    by_cases hm : a ∈ List.foldr insertUniq [] l
    · simp [hiff.mpr hm, hm, ih]
    · have : σ a ∉ List.foldr insertUniq [] (List.map σ l) := fun h => hm (hiff.mp h)
      simp [this, hm, ih]

/-! ### first-occurrence numbering is injective -/

theorem mem_firstOcc {x : Nat} : ∀ {l : List Nat}, x ∈ firstOcc l ↔ x ∈ l
  | [] => by simp [firstOcc]
  | a :: l => by
    have ih := mem_firstOcc (x := x) (l := l)
    simp only [firstOcc, List.mem_cons, List.mem_filter, ih]
    constructor
    · rintro (h | ⟨h, _⟩)
      · exact Or.inl h
      · exact Or.inr h
    · rintro (h | h)
      · exact Or.inl h
      · by_cases hx : x = a
        · exact Or.inl hx
        · exact Or.inr ⟨h, by simpa using hx⟩

theorem nodup_firstOcc : ∀ (l : List Nat), (firstOcc l).Nodup
  | [] => by simp [firstOcc]
  | a :: l => by
    simp only [firstOcc, List.nodup_cons, List.mem_filter]
    refine ⟨fun h => by simp at h, (nodup_firstOcc l).filter _⟩

theorem indexOf?_some_of_mem : ∀ (l : List Nat) (i : Nat), i ∈ l → ∃ k, indexOf? l i = some k ∧ k < l.length
  | [], _, h => by simp at h
  | x :: xs, i, h => by
    unfold indexOf?
    by_cases hx : x = i
    · exact ⟨0, by simp [hx], by simp⟩
    · have : i ∈ xs := by
        rcases List.mem_cons.mp h with h | h
        · exact absurd h.symm hx
        · exact h
      obtain ⟨k, hk, hlt⟩ := indexOf?_some_of_mem xs i this
      refine ⟨k + 1, ?_, by simpa using hlt⟩
      have : (x == i) = false := by simpa using hx
      simp [this, hk]

theorem indexOf?_inj : ∀ (l : List Nat) (i j k : Nat),
    indexOf? l i = some k → indexOf? l j = some k → i = j
  | [], _, _, _, h, _ => by simp [indexOf?] at h
  | x :: xs, i, j, k, hi, hj => by
    unfold indexOf? at hi hj
    by_cases hxi : x = i
    · by_cases hxj : x = j
      · exact hxi.symm.trans hxj
      · have h1 : (x == i) = true := by simpa using hxi
        have h2 : (x == j) = false := by simpa using hxj
        simp only [h1, if_true, Option.some.injEq] at hi
        simp only [h2] at hj
        subst hi
        cases h : indexOf? xs j <;> simp [h] at hj
    · have h1 : (x == i) = false := by simpa using hxi
      simp only [h1] at hi
      by_cases hxj : x = j
      · have h2 : (x == j) = true := by simpa using hxj
        simp only [h2, if_true, Option.some.injEq] at hj
        subst hj
        cases h : indexOf? xs i <;> simp [h] at hi
      · have h2 : (x == j) = false := by simpa using hxj
        simp only [h2] at hj
        cases h1' : indexOf? xs i with
        | none => simp [h1'] at hi
        | some a =>
          cases h2' : indexOf? xs j with
          | none => simp [h2'] at hj
          | some b =>
            simp only [h1', h2', Option.map_some, Option.some.injEq, Bool.false_eq_true, if_false] at hi hj
            have : a = b := by omega
            subst this
            exact indexOf?_inj xs i j a h1' h2'

end AF
