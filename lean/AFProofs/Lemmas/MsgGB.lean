import AFModel.MsgGB
import AFProofs.Lemmas.Msg
import Mathlib.Tactic.LinearCombination

/-! Helper lemmas for the Gamma / Beta part of C17 (`AFModel/MsgGB.lean`): parameters after arithmetic,
the exponential-family form of the density, Newton steps and their fixed points, weighted statistics. -/

set_option linter.unusedSectionVars false

namespace AF.Msg

section field
variable {K : Type} [Field K]

/-! ## unfolding -/

theorem natural_gamma (a : Base K) (h : a.fam = .gamma) : a.natural = (a.p1 - 1, -a.p2) := by
  simp [Base.natural, calcNatural, h]

theorem natural_beta (a : Base K) (h : a.fam = .beta) : a.natural = (a.p1 - 1, a.p2 - 1) := by
  simp [Base.natural, calcNatural, h]

/-- the density is `log_base + η·t(x) − A(η)` with `A` a function of the natural parameters only -/
theorem logpdfRaw_eq (fn : Fn K) (sp : Sp K) (a : Base K) (x : K) :
    a.logpdfRaw fn sp x =
      logBase fn a.fam + (a.natural.1 * (toCanonical fn sp a.fam x).1 + a.natural.2 * (toCanonical fn sp a.fam x).2)
        - logPartitionGB fn sp a.fam a.natural := rfl

/-- for the normal family the every-family density is the density of `Msg.lean` -/
theorem logpdfRaw_normal (fn : Fn K) (sp : Sp K) (a : Base K) (h : a.fam = .normal ∨ a.fam = .naturalNormal) (x : K) :
    a.logpdfRaw fn sp x = a.logpdf fn x := by
  rcases h with h | h <;> simp [Base.logpdfRaw, Base.logpdf, logBase, toCanonical, logPartitionGB, h]

/-! ## Newton steps -/

theorem psilogStep_eq_self_iff (fn : Fn K) (sp : Sp K) (c x : K) (hg : gradPsilog sp x ≠ 0) :
    psilogStep fn sp c x = x ↔ psilog fn sp x = c := by
  unfold psilogStep
  constructor
  · intro h
    have h0 : (psilog fn sp x - c) / gradPsilog sp x = 0 := by
      have := sub_eq_self.mp h
      exact this
    rcases div_eq_zero_iff.mp h0 with h1 | h1
    · exact sub_eq_zero.mp h1
    · exact absurd h1 hg
  · intro h
    rw [h]; simp

theorem newtonPsilog_of_solution (fn : Fn K) (sp : Sp K) (c x : K) (h : psilog fn sp x = c) (n : Nat) :
    newtonPsilog fn sp c n x = x := by
  induction n with
  | zero => rfl
  | succ n ih =>
    have hs : psilogStep fn sp c x = x := by unfold psilogStep; rw [h]; simp
    simp only [newtonPsilog, hs, ih]

/-- the determinant of the Jacobian of the Beta moment equations -/
def betaDet (sp : Sp K) (ab : K × K) : K :=
  (betaJac sp ab).1 * (betaJac sp ab).2.2 - (betaJac sp ab).2.1 * (betaJac sp ab).2.1

theorem betaStep_eq_self_iff (sp : Sp K) (l1 l2 : K) (ab : K × K) (hd : betaDet sp ab ≠ 0) :
    betaStep sp l1 l2 ab = ab ↔ betaResidual sp l1 l2 ab = (0, 0) := by
  unfold betaDet at hd
  unfold betaStep
  generalize betaResidual sp l1 l2 ab = f at *
  generalize betaJac sp ab = j at *
  obtain ⟨f1, f2⟩ := f
  obtain ⟨j11, j12, j22⟩ := j
  obtain ⟨a, b⟩ := ab
  simp only [Prod.mk.injEq] at *
  constructor
  · rintro ⟨h1, h2⟩
    have e1 : (-f1 * j22 - j12 * -f2) / (j11 * j22 - j12 * j12) = 0 := by
      have := add_eq_left.mp h1; exact this
    have e2 : (j11 * -f2 - j12 * -f1) / (j11 * j22 - j12 * j12) = 0 := by
      have := add_eq_left.mp h2; exact this
    have n1 : -f1 * j22 - j12 * -f2 = 0 := by
      rcases div_eq_zero_iff.mp e1 with h | h
      · exact h
      · exact absurd h hd
    have n2 : j11 * -f2 - j12 * -f1 = 0 := by
      rcases div_eq_zero_iff.mp e2 with h | h
      · exact h
      · exact absurd h hd
    have hf1 : f1 * (j11 * j22 - j12 * j12) = 0 := by linear_combination (-j11) * n1 - j12 * n2
    have hf2 : f2 * (j11 * j22 - j12 * j12) = 0 := by linear_combination (-j12) * n1 - j22 * n2
    exact ⟨(mul_eq_zero.mp hf1).resolve_right hd, (mul_eq_zero.mp hf2).resolve_right hd⟩
  · rintro ⟨h1, h2⟩
    subst h1; subst h2
    simp

theorem betaNewton_of_solution (sp : Sp K) (l1 l2 : K) (ab : K × K) (h : betaResidual sp l1 l2 ab = (0, 0)) (n : Nat) :
    betaNewton sp l1 l2 n ab = ab := by
  induction n with
  | zero => rfl
  | succ n ih =>
    have hs : betaStep sp l1 l2 ab = ab := by
      unfold betaStep; rw [h]; simp
    simp only [betaNewton, hs, ih]

/-! ## weighted statistics of any sufficient statistic -/

theorem sumL_zipWith_div_gen {α : Type} (f : α → K) (ts : List α) (ws : List K) (c : K) :
    sumL (List.zipWith (fun t w => f t * w) ts (ws.map (· / c))) =
      sumL (List.zipWith (fun t w => f t * w) ts ws) / c := by
  induction ts generalizing ws with
  | nil => simp [sumL]
  | cons x xs ih =>
    cases ws with
    | nil => simp [sumL]
    | cons w ws => simp only [List.map, List.zipWith, sumL, ih]; ring

end field

/-! ## vocabulary -/

section vocabulary
variable {K : Type} [Field K] [LinearOrder K]

/-- what makes `from_sufficient_statistics(m1, m2)` exact: the numerical inversion has converged (its result
solves the equations it iterates on), the logarithm is a homomorphism at the one quotient the Gamma family forms,
the moments of the normal family have positive variance -/
def Converged (fn : Fn K) (sp : Sp K) (fam : Family) (m1 m2 : K) : Prop :=
  match fam with
  | .gamma =>
    let alpha := invpsilog fn sp (m1 - fn.log m2)
    psilog fn sp alpha = m1 - fn.log m2 ∧ alpha ≠ 0 ∧ m2 ≠ 0 ∧ fn.log (alpha / m2) = fn.log alpha - fn.log m2
  | .beta => betaResidual sp m1 m2 (invBetaSuffstats fn sp m1 m2) = (0, 0)
  | .normal | .naturalNormal => 0 < m2 - m1 * m1
  | .fixed => False

end vocabulary

end AF.Msg

namespace AF.Msg

/-- stand-ins for the special functions over `ℚ` (non-vacuity examples only): with `ψ(x) = 2x`, `ψ'(x) = 1 + 1/x`
and `log = id` the Gamma equation `ψ(x) − log x = c` is linear and Newton's method is exact after one step -/
def spQ : Sp ℚ :=
  { lgamma := id, digamma := fun x => 2 * x, trigamma := fun x => 1 + 1 / x, log1p := id, rpow := fun x _ => x,
    nanToNum := id, nanToNum0 := id, abs := fun x => if x < 0 then -x else x, cA := 1, cB := 1, cG := 1 }

/-- with `ψ(x) = x`, `ψ'(x) = 1` the two Beta equations are linear with Jacobian `[[0, -1], [-1, 0]]` -/
def spQ2 : Sp ℚ := { spQ with digamma := id, trigamma := fun _ => 1 }

/-- the special functions over `ℚ` used with `spQ` (`log = id`, `exp x = x²`) -/
def fnQ0 : Fn ℚ :=
  { sqrt := id, log := id, exp := fun x => x * x, log10 := id, exp10 := id, ndtr := id, ndtri := id,
    erfinv := id, normPdf := id, negInf := -1, posInf := 1, halfLog2Pi := 1, isFinite := fun _ => true,
    le := fun a b => decide (a ≤ b), max := fun a b => if a ≤ b then b else a }

end AF.Msg
