import AFModel.FloatOps

/-! The concrete member order `posLe` (Python tuple comparison of `_position_key`) is total and
transitive — so the sorting theorems of C01 apply to the order the driver (and the code) uses. -/

namespace AF

theorem str_lt_or_eq_or_gt (a b : String) : a < b ∨ a = b ∨ b < a := by
  by_cases h1 : a < b
  · exact Or.inl h1
  · by_cases h2 : b < a
    · exact Or.inr (Or.inr h2)
    · exact Or.inr (Or.inl (String.le_antisymm (String.not_lt.mp h2) (String.not_lt.mp h1)))

theorem str_lt_asymm {a b : String} (h : a < b) : ¬ b < a := by
  intro h'
  exact String.lt_irrefl a (String.lt_trans h h')

/-- lexicographic comparison of keys, as `posLe` computes it -/
def lex3 (x y : String × Int × String) : Bool :=
  if x.1 < y.1 then true
  else if x.1 = y.1 then
    (if x.2.1 < y.2.1 then true else if x.2.1 = y.2.1 then decide (x.2.2 ≤ y.2.2) else false)
  else false

theorem posLe_eq_lex3 (a b : String) : posLe a b = lex3 (posKey a) (posKey b) := rfl

theorem lex3_total (x y : String × Int × String) : lex3 x y = true ∨ lex3 y x = true := by
  obtain ⟨x1, x2, x3⟩ := x
  obtain ⟨y1, y2, y3⟩ := y
  simp only [lex3]
  rcases str_lt_or_eq_or_gt x1 y1 with h | h | h
  · left; simp [h]
  · subst h
    have hirr : ¬ x1 < x1 := String.lt_irrefl x1
    simp only [hirr, if_false, if_true]
    rcases Int.lt_trichotomy x2 y2 with h2 | h2 | h2
    · left; simp [h2]
    · subst h2
      simp only [Int.lt_irrefl, if_false, if_true, decide_eq_true_eq]
      exact String.le_total x3 y3
    · right; simp [h2]
  · right; simp [h]

theorem lex3_trans (x y z : String × Int × String) (h1 : lex3 x y = true) (h2 : lex3 y z = true) :
    lex3 x z = true := by
  obtain ⟨x1, x2, x3⟩ := x
  obtain ⟨y1, y2, y3⟩ := y
  obtain ⟨z1, z2, z3⟩ := z
  simp only [lex3] at h1 h2 ⊢
  rcases str_lt_or_eq_or_gt x1 y1 with hxy | hxy | hxy
  · -- x1 < y1
    rcases str_lt_or_eq_or_gt y1 z1 with hyz | hyz | hyz
    · simp [String.lt_trans hxy hyz]
    · subst hyz; simp [hxy]
    · have : ¬ y1 < z1 := str_lt_asymm hyz
      have hne : y1 ≠ z1 := fun e => by subst e; exact String.lt_irrefl _ hyz
      simp [this, hne] at h2
  · subst hxy
    have hirr : ¬ x1 < x1 := String.lt_irrefl x1
    rcases str_lt_or_eq_or_gt x1 z1 with hyz | hyz | hyz
    · simp [hyz]
    · subst hyz
      simp only [hirr, if_false, if_true] at h1 h2 ⊢
      rcases Int.lt_trichotomy x2 y2 with a | a | a
      · rcases Int.lt_trichotomy y2 z2 with b | b | b
        · simp [Int.lt_trans a b]
        · subst b; simp [a]
        · have : ¬ y2 < z2 := by omega
          have hne : y2 ≠ z2 := by omega
          simp [this, hne] at h2
      · subst a
        rcases Int.lt_trichotomy x2 z2 with b | b | b
        · simp [b]
        · subst b
          simp only [Int.lt_irrefl, if_false, if_true, decide_eq_true_eq] at h1 h2 ⊢
          exact String.le_trans h1 h2
        · have : ¬ x2 < z2 := by omega
          have hne : x2 ≠ z2 := by omega
          simp [this, hne] at h2
      · have : ¬ x2 < y2 := by omega
        have hne : x2 ≠ y2 := by omega
        simp [this, hne] at h1
    · have : ¬ x1 < z1 := str_lt_asymm hyz
      have hne : x1 ≠ z1 := fun e => by subst e; exact String.lt_irrefl _ hyz
      simp [this, hne] at h2
  · have : ¬ x1 < y1 := str_lt_asymm hxy
    have hne : x1 ≠ y1 := fun e => by subst e; exact String.lt_irrefl _ hxy
    simp [this, hne] at h1

theorem posLe_total (a b : String) : posLe a b = true ∨ posLe b a = true := by
  rw [posLe_eq_lex3, posLe_eq_lex3]; exact lex3_total _ _

theorem posLe_trans (a b c : String) (h1 : posLe a b = true) (h2 : posLe b c = true) :
    posLe a c = true := by
  rw [posLe_eq_lex3] at h1 h2 ⊢; exact lex3_trans _ _ _ h1 h2

end AF
