import AFModel.ParLife
import AFModel.ParFair
import AFProofs.Lemmas.ParEvalFair

/-!
Shutdown lemmas for C14: the invariant of `SneakyPool.__del__` on a pool whose last `map` has returned or
raised (quiescent), and the stop-token invariant of `Process.run_jobs`.
-/

namespace AF.ParEval
variable {α : Type}

/-! ## `SneakyPool.__del__` -/

/-- nothing but `StopCommand`s is ever on a queue, and every process has been sent at most one, which it has
either not yet taken (alive) or taken (left) -/
structure DelInv (s : DelSt α) : Prop where
  sent_le : s.sent ≤ s.ws.length
  each : ∀ (k : Nat) (l : LWorker α), s.ws[k]? = some l →
    l.w.jobQ = [] ∧ l.w.hold = none ∧ l.w.resQ = [] ∧
      l.stops + (if l.alive = true then 0 else 1) = (if k < s.sent then 1 else 0)

theorem delInv_init (ws : List (Worker α)) (hq : Quiescent ws) : DelInv (initDel ws) := by
  refine ⟨Nat.zero_le _, ?_⟩
  intro k l hk
  simp only [initDel, List.getElem?_map, Option.map_eq_some_iff] at hk
  obtain ⟨w, hw, rfl⟩ := hk
  obtain ⟨h1, h2, h3⟩ := hq w (List.mem_of_getElem? hw)
  exact ⟨h1, h2, h3, by simp; exact Nat.zero_le _⟩

theorem LWorker.step_quiet (l : LWorker α) (hj : l.w.jobQ = []) (hh : l.w.hold = none) :
    l.step = if l.alive = true ∧ 0 < l.stops then { l with stops := l.stops - 1, alive := false } else l := by
  unfold LWorker.step
  by_cases ha : l.alive = true
  · simp only [ha, if_true, hh, hj, true_and]
  · simp [ha]

theorem DelSt.step_length (s : DelSt α) (e : Nat) : (s.step e).ws.length = s.ws.length := by
  cases e with
  | zero =>
    show s.callerStep.ws.length = _
    unfold DelSt.callerStep
    split <;> simp
  | succ k =>
    show (s.workerStep k).ws.length = _
    unfold DelSt.workerStep
    split <;> simp

theorem DelSt.run_length (s : DelSt α) (evs : List Nat) : (s.run evs).ws.length = s.ws.length := by
  induction evs generalizing s with
  | nil => rfl
  | cons e t ih =>
    show ((s.step e).run t).ws.length = _
    rw [ih, DelSt.step_length]

theorem delInv_step {s : DelSt α} (h : DelInv s) (e : Nat) : DelInv (s.step e) := by
  cases e with
  | zero =>
    show DelInv s.callerStep
    unfold DelSt.callerStep
    cases hs : s.ws[s.sent]? with
    | none => exact h
    | some l0 =>
      have hlt := lt_of_getElem?_some hs
      refine ⟨by simp only [List.length_set]; omega, ?_⟩
      intro k l hk
      rcases getElem?_set_cases hk with ⟨rfl, rfl, _⟩ | ⟨hne, hk'⟩
      · obtain ⟨h1, h2, h3, h4⟩ := h.each _ _ hs
        refine ⟨h1, h2, h3, ?_⟩
        simp only [Nat.lt_irrefl, if_false] at h4
        simp only [Nat.lt_succ_self, if_true]
        omega
      · obtain ⟨h1, h2, h3, h4⟩ := h.each _ _ hk'
        refine ⟨h1, h2, h3, ?_⟩
        rw [h4]
        by_cases hks : k < s.sent
        · simp [hks, Nat.lt_succ_of_lt hks]
        · have : ¬ k < s.sent + 1 := by omega
          simp [hks, this]
  | succ k0 =>
    show DelInv (s.workerStep k0)
    unfold DelSt.workerStep
    cases hs : s.ws[k0]? with
    | none => exact h
    | some l0 =>
      refine ⟨by simp only [List.length_set]; exact h.sent_le, ?_⟩
      intro k l hk
      rcases getElem?_set_cases hk with ⟨rfl, rfl, _⟩ | ⟨hne, hk'⟩
      · obtain ⟨h1, h2, h3, h4⟩ := h.each _ _ hs
        rw [LWorker.step_quiet l0 h1 h2]
        by_cases hc : l0.alive = true ∧ 0 < l0.stops
        · rw [if_pos hc]
          refine ⟨h1, h2, h3, ?_⟩
          simp only [hc.1, if_true] at h4
          show l0.stops - 1 + (if false = true then 0 else 1) = _
          rw [← h4]
          simp
          omega
        · rw [if_neg hc]
          exact ⟨h1, h2, h3, h4⟩
      · exact h.each _ _ hk'

theorem delInv_run {s : DelSt α} (h : DelInv s) (evs : List Nat) : DelInv (s.run evs) := by
  induction evs generalizing s with
  | nil => exact h
  | cons e t ih => exact ih (delInv_step h e)

theorem callerStep_sent (s : DelSt α) :
    s.callerStep.sent = if s.sent < s.ws.length then s.sent + 1 else s.sent := by
  unfold DelSt.callerStep
  cases hs : s.ws[s.sent]? with
  | none =>
    have : ¬ s.sent < s.ws.length := by
      intro hlt
      rw [List.getElem?_eq_getElem hlt] at hs
      cases hs
    simp [this]
  | some l =>
    have := lt_of_getElem?_some hs
    simp [this]

theorem workerStep_sent (s : DelSt α) (k : Nat) : (s.step (k + 1)).sent = s.sent := by
  show (s.workerStep k).sent = _
  unfold DelSt.workerStep
  split <;> rfl

/-- the caller's turns send the `StopCommand`s one by one -/
theorem sent_ge (evs : List Nat) : ∀ (s : DelSt α) (n : Nat), n ≤ s.sent + evs.count 0 → n ≤ s.ws.length →
    n ≤ (s.run evs).sent := by
  induction evs with
  | nil => intro s n h _; simpa [DelSt.run] using h
  | cons e t ih =>
    intro s n h hl
    show n ≤ ((s.step e).run t).sent
    apply ih (s.step e) n _ (by rw [DelSt.step_length]; exact hl)
    cases e with
    | zero =>
      have hc : (s.step 0).sent = s.callerStep.sent := rfl
      rw [hc, callerStep_sent]
      simp only [List.count_cons_self] at h
      split <;> omega
    | succ k =>
      rw [workerStep_sent]
      have : (List.count 0 ((k + 1) :: t)) = List.count 0 t := by
        rw [List.count_cons_of_ne (by omega)]
      omega

def leftK (s : DelSt α) (k : Nat) : Prop := ∃ l : LWorker α, s.ws[k]? = some l ∧ l.alive = false

theorem LWorker.step_dead (l : LWorker α) (h : l.alive = false) : l.step = l := by
  unfold LWorker.step
  simp [h]

theorem leftK_step {s : DelSt α} {k : Nat} (h : leftK s k) (e : Nat) : leftK (s.step e) k := by
  obtain ⟨l, hk, hd⟩ := h
  cases e with
  | zero =>
    show leftK s.callerStep k
    unfold DelSt.callerStep
    cases hs : s.ws[s.sent]? with
    | none => exact ⟨l, hk, hd⟩
    | some l0 =>
      by_cases hks : k = s.sent
      · subst hks
        rw [hs] at hk
        cases hk
        exact ⟨_, getElem?_set_self' hs, hd⟩
      · exact ⟨l, by show (s.ws.set _ _)[k]? = some l; rw [getElem?_set_ne' hks]; exact hk, hd⟩
  | succ k0 =>
    show leftK (s.workerStep k0) k
    unfold DelSt.workerStep
    cases hs : s.ws[k0]? with
    | none => exact ⟨l, hk, hd⟩
    | some l0 =>
      by_cases hks : k = k0
      · subst hks
        rw [hs] at hk
        cases hk
        exact ⟨_, getElem?_set_self' hs, by rw [LWorker.step_dead l hd]; exact hd⟩
      · exact ⟨l, by show (s.ws.set _ _)[k]? = some l; rw [getElem?_set_ne' hks]; exact hk, hd⟩

theorem leftK_run {s : DelSt α} {k : Nat} (h : leftK s k) (evs : List Nat) : leftK (s.run evs) k := by
  induction evs generalizing s with
  | nil => exact h
  | cons e t ih => exact ih (leftK_step h e)

/-- once all `StopCommand`s are sent, a worker that gets a turn leaves -/
theorem left_after_served (k : Nat) (evs : List Nat) : ∀ (s : DelSt α), DelInv s → s.ws.length ≤ s.sent →
    k < s.ws.length → (k + 1) ∈ evs → leftK (s.run evs) k := by
  induction evs with
  | nil => intro s _ _ _ h; cases h
  | cons e t ih =>
    intro s hi hs hk hmem
    have hi' := delInv_step hi e
    by_cases he : e = k + 1
    · subst he
      apply leftK_run (s := s.step (k + 1))
      have hl : s.ws[k]? = some (s.ws[k]) := List.getElem?_eq_getElem hk
      generalize s.ws[k] = l at hl
      obtain ⟨h1, h2, h3, h4⟩ := hi.each _ _ hl
      have hks : k < s.sent := by omega
      simp only [hks, if_true] at h4
      show leftK (s.workerStep k) k
      unfold DelSt.workerStep
      simp only [hl]
      refine ⟨_, getElem?_set_self' hl, ?_⟩
      rw [LWorker.step_quiet l h1 h2]
      by_cases ha : l.alive = true
      · have : 0 < l.stops := by simp only [ha, if_true] at h4; omega
        simp [ha, this]
      · have ha' : l.alive = false := by simpa using ha
        simp [ha']
    · have hmem' : (k + 1) ∈ t := by
        rcases List.mem_cons.mp hmem with h | h
        · exact absurd h.symm he
        · exact h
      have hs' : (s.step e).ws.length ≤ (s.step e).sent := by
        rw [DelSt.step_length]
        cases e with
        | zero =>
          have hc : (s.step 0).sent = s.callerStep.sent := rfl
          rw [hc, callerStep_sent]
          split <;> omega
        | succ k0 => rw [workerStep_sent]; exact hs
      exact ih (s.step e) hi' hs' (by rw [DelSt.step_length]; exact hk) hmem'

def aliveK (s : DelSt α) (k : Nat) : Prop := ∃ l : LWorker α, s.ws[k]? = some l ∧ l.alive = true

theorem aliveK_step {s : DelSt α} {k : Nat} (h : aliveK s k) (e : Nat) (he : e ≠ k + 1) : aliveK (s.step e) k := by
  obtain ⟨l, hl, ha⟩ := h
  cases e with
  | zero =>
    show aliveK s.callerStep k
    unfold DelSt.callerStep
    cases hs : s.ws[s.sent]? with
    | none => exact ⟨l, hl, ha⟩
    | some l0 =>
      by_cases hks : k = s.sent
      · subst hks
        rw [hs] at hl
        cases hl
        exact ⟨_, getElem?_set_self' hs, ha⟩
      · exact ⟨l, by show (s.ws.set _ _)[k]? = some l; rw [getElem?_set_ne' hks]; exact hl, ha⟩
  | succ k0 =>
    have hk : k ≠ k0 := fun e => he (by rw [e])
    show aliveK (s.workerStep k0) k
    unfold DelSt.workerStep
    cases hs : s.ws[k0]? with
    | none => exact ⟨l, hl, ha⟩
    | some l0 => exact ⟨l, by show (s.ws.set _ _)[k]? = some l; rw [getElem?_set_ne' hk]; exact hl, ha⟩

theorem aliveK_run {k : Nat} (evs : List Nat) : ∀ (s : DelSt α), aliveK s k → (k + 1) ∉ evs → aliveK (s.run evs) k := by
  induction evs with
  | nil => intro s h _; exact h
  | cons e t ih =>
    intro s h hm
    have he : e ≠ k + 1 := fun e' => hm (by rw [e']; exact List.mem_cons_self)
    exact ih (s.step e) (aliveK_step h e he) (fun h' => hm (List.mem_cons_of_mem _ h'))

theorem DelSt.run_append (s : DelSt α) (a b : List Nat) : s.run (a ++ b) = (s.run a).run b := by
  simp [DelSt.run, List.foldl_append]

/-- a worker state with nothing queued and the process gone -/
def LWorker.gone (l : LWorker α) : Prop :=
  l.alive = false ∧ l.stops = 0 ∧ l.w.jobQ = [] ∧ l.w.hold = none ∧ l.w.resQ = []

theorem down_of_gone (s : DelSt α) (h : ∀ l ∈ s.ws, l.gone) : s.down = true := by
  have h1 : s.aliveCount = 0 := by
    unfold DelSt.aliveCount
    rw [List.length_eq_zero_iff, List.filter_eq_nil_iff]
    intro l hl
    simp [(h l hl).1]
  have h2 : s.queued = 0 := by
    unfold DelSt.queued
    generalize s.ws = ws at h
    induction ws with
    | nil => rfl
    | cons a t ih =>
      obtain ⟨_, g2, g3, g4, g5⟩ := h a List.mem_cons_self
      have := ih (fun l hl => h l (List.mem_cons_of_mem _ hl))
      simp only [List.map_cons, List.sum_cons, this, Nat.add_zero]
      simp [Worker.pipe, g2, g3, g4, g5]
  simp [DelSt.down, h1, h2]

/-- phase form: the caller gets `P` turns, then every worker gets one -/
theorem shutdown_phases (ws : List (Worker α)) (hq : Quiescent ws) (e1 e2 : List Nat)
    (h1 : ws.length ≤ e1.count 0) (h2 : ∀ k, k < ws.length → (k + 1) ∈ e2) :
    ∀ l ∈ ((initDel ws).run (e1 ++ e2)).ws, l.gone := by
  have hi := delInv_init ws hq
  have hlen : (initDel ws).ws.length = ws.length := by simp [initDel]
  have hi1 := delInv_run hi e1
  have hs1 : ((initDel ws).run e1).ws.length ≤ ((initDel ws).run e1).sent := by
    rw [DelSt.run_length, hlen]
    exact sent_ge e1 (initDel ws) ws.length (by simp [initDel]; exact h1) (by rw [hlen]; exact Nat.le_refl _)
  have hi2 := delInv_run hi1 e2
  rw [DelSt.run_append]
  intro l hl
  obtain ⟨k, hk, hkl⟩ := List.mem_iff_getElem.mp hl
  have hk' : k < ws.length := by rw [DelSt.run_length, DelSt.run_length, hlen] at hk; exact hk
  have hget : (((initDel ws).run e1).run e2).ws[k]? = some l := by
    rw [List.getElem?_eq_getElem hk, hkl]
  obtain ⟨l', hl', hd⟩ := left_after_served k e2 _ hi1 hs1 (by rw [DelSt.run_length, hlen]; exact hk') (h2 k hk')
  rw [hget] at hl'
  cases hl'
  obtain ⟨g1, g2, g3, g4⟩ := hi2.each _ _ hget
  refine ⟨hd, ?_, g1, g2, g3⟩
  rw [hd] at g4
  simp only [Bool.false_eq_true, if_false] at g4
  split at g4 <;> omega

/-- `n + 1` fair rounds: the caller is served `n` times, then everybody once more -/
theorem fair_split_phases (P : Nat) (n : Nat) : ∀ (evs : List Nat), n + 1 ≤ fairRounds P evs →
    ∃ a b, evs = a ++ b ∧ n ≤ a.count 0 ∧ ∀ k ∈ List.range (P + 1), k ∈ b := by
  induction n with
  | zero =>
    intro evs h
    obtain ⟨r, rest, he, hall, _⟩ := fairScan_split P evs _ 0 h
    refine ⟨[], evs, rfl, Nat.zero_le _, ?_⟩
    intro k hk
    rw [he]
    exact List.mem_append_left _ (hall k hk)
  | succ n ih =>
    intro evs h
    obtain ⟨r, rest, he, hall, hrest⟩ := fairScan_split P evs _ (n + 1) h
    obtain ⟨a, b, hab, hc, hb⟩ := ih rest hrest
    refine ⟨r ++ a, b, by rw [he, hab, List.append_assoc], ?_, hb⟩
    have h0 : 0 ∈ r := hall 0 (List.mem_range.mpr (Nat.succ_pos _))
    have : 1 ≤ r.count 0 := List.count_pos_iff.mpr h0
    rw [List.count_append]
    omega

theorem results_zero_of (s : DelSt α) (h : ∀ l ∈ s.ws, l.w.hold = none ∧ l.w.resQ = []) : s.results = 0 := by
  unfold DelSt.results
  generalize s.ws = ws at h
  induction ws with
  | nil => rfl
  | cons a t ih =>
    obtain ⟨g1, g2⟩ := h a List.mem_cons_self
    have := ih (fun l hl => h l (List.mem_cons_of_mem _ hl))
    simp only [List.map_cons, List.sum_cons, this, Nat.add_zero]
    simp [g1, g2]

/-- the pool a session's `__del__` finds: the workers as the last `map` call left them -/
def sessionWs (P fuel : Nat) (bs : List (List (Res α) × List Nat)) : List (Worker α) :=
  match (runBatches fuel (newPool P) bs).getLast? with
  | some s => s.ws
  | none => newPool P

theorem mapBatch_length (ws : List (Worker α)) (js : List (Res α)) (sched : List Nat) (fuel : Nat) :
    (mapBatch ws js sched fuel).ws.length = ws.length := by
  obtain ⟨evs, he⟩ := mapBatch_eq_run ws js sched fuel
  rw [he, MapSt.run_length]
  simp [initMap]

theorem runBatches_last (fuel : Nat) (bs : List (List (Res α) × List Nat)) : ∀ (ws : List (Worker α)),
    Quiescent ws → ws ≠ [] → (∀ s ∈ runBatches fuel ws bs, s.finished = true) →
    Quiescent (match (runBatches fuel ws bs).getLast? with | some s => s.ws | none => ws) ∧
      (match (runBatches fuel ws bs).getLast? with | some s => s.ws | none => ws).length = ws.length := by
  induction bs with
  | nil => intro ws hq _ _; exact ⟨hq, rfl⟩
  | cons b rest ih =>
    intro ws hq hp hf
    obtain ⟨js, sched⟩ := b
    simp only [runBatches, List.mem_cons, forall_eq_or_imp] at hf
    have hd := mapInv_finished (js := js) (s := mapBatch ws js sched fuel) (by
      obtain ⟨evs, he⟩ := mapBatch_eq_run ws js sched fuel
      rw [he]
      exact mapInv_run (mapInv_init ws js hq hp) evs) hf.1
    have hq1 : Quiescent (mapBatch ws js sched fuel).ws := quiescent_of_idle hd.idle
    have hl1 := mapBatch_length ws js sched fuel
    have hp1 : (mapBatch ws js sched fuel).ws ≠ [] := by
      intro e
      rw [e] at hl1
      exact hp (List.eq_nil_of_length_eq_zero hl1.symm)
    cases rest with
    | nil => exact ⟨hq1, hl1⟩
    | cons b2 rest2 =>
      obtain ⟨h1, h2⟩ := ih _ hq1 hp1 hf.2
      have hg : (runBatches fuel ws ((js, sched) :: b2 :: rest2)).getLast? =
          (runBatches fuel (mapBatch ws js sched fuel).ws (b2 :: rest2)).getLast? := by
        simp only [runBatches, List.getLast?_cons_cons]
      rw [hg]
      cases hlast : (runBatches fuel (mapBatch ws js sched fuel).ws (b2 :: rest2)).getLast? with
      | none => simp [runBatches] at hlast
      | some s =>
        rw [hlast] at h1 h2
        exact ⟨h1, by rw [h2, hl1]⟩

/-! ## `Process.run_jobs`: as many stop tokens queued as workers that have not left -/

theorem stopTokens_append (a b : List (QItem α)) : stopTokens (a ++ b) = stopTokens a + stopTokens b := by
  induction a with
  | nil => simp [stopTokens]
  | cons x t ih =>
    cases x with
    | job j => simp [stopTokens, ih]
    | stop => simp [stopTokens, ih]; omega

theorem stopTokens_jobs (l : List (Job α)) : stopTokens (l.map QItem.job) = 0 := by
  induction l with
  | nil => rfl
  | cons j t ih => simp [stopTokens, ih]

theorem stopTokens_replicate (n : Nat) : stopTokens (List.replicate n (QItem.stop : QItem α)) = n := by
  induction n with
  | zero => rfl
  | succ n ih => simp [List.replicate_succ, stopTokens, ih]

theorem liveWorkers_set (ws : List (RWorker α)) (k : Nat) (w x : RWorker α) (h : ws[k]? = some w) :
    liveWorkers (ws.set k x) + w.live = liveWorkers ws + x.live :=
  sum_map_set RWorker.live ws k w x h

/-- the stop tokens on the shared queue are exactly one per worker that has not left -/
def StopsMatch (s : RunSt α) : Prop := s.cfg.pollEmpty = false ∧ stopTokens s.jobQ = liveWorkers s.ws

theorem stopsMatch_init (P : Nat) (js : List (Res α)) : StopsMatch (initRun {} P js) := by
  refine ⟨rfl, ?_⟩
  have : liveWorkers (List.replicate P ({} : RWorker α)) = P := by
    induction P with
    | zero => rfl
    | succ n ih =>
      simp only [liveWorkers, List.replicate_succ, List.map_cons, List.sum_cons] at ih ⊢
      rw [ih]
      simp [RWorker.live]
      omega
  simp only [initRun]
  rw [stopTokens_append, stopTokens_jobs, this]
  simp [stopTokens_replicate]

theorem stopsMatch_take {s : RunSt α} (h : StopsMatch s) (k : Nat) (w : RWorker α) (hk : s.ws[k]? = some w)
    (hp : w.phase ≠ .dead) : StopsMatch (s.take k w) := by
  obtain ⟨hc, hm⟩ := h
  unfold RunSt.take
  cases hq : s.jobQ with
  | nil => exact ⟨hc, by rw [hq] at hm; simpa [hq] using hm⟩
  | cons x rest =>
    rw [hq] at hm
    have hw : w.live = 1 := by simp [RWorker.live, hp]
    cases x with
    | stop =>
      refine ⟨hc, ?_⟩
      have := liveWorkers_set s.ws k w { w with phase := .dead } hk
      simp only [stopTokens] at hm
      have hx : ({ w with phase := .dead } : RWorker α).live = 0 := by simp [RWorker.live]
      rw [hw, hx] at this
      show stopTokens rest = liveWorkers (s.ws.set k { w with phase := .dead })
      omega
    | job j =>
      refine ⟨hc, ?_⟩
      have := liveWorkers_set s.ws k w { w with phase := .idle, hold := some j.res } hk
      simp only [stopTokens] at hm
      have hx : ({ w with phase := .idle, hold := some j.res } : RWorker α).live = 1 := by simp [RWorker.live]
      rw [hw, hx] at this
      show stopTokens rest = liveWorkers (s.ws.set k { w with phase := .idle, hold := some j.res })
      omega

theorem stopsMatch_step {s : RunSt α} (h : StopsMatch s) (e : Ev) : StopsMatch (s.step e) := by
  obtain ⟨hc, hm⟩ := h
  unfold RunSt.step
  split
  · -- the caller never touches the shared queue or a worker's phase
    unfold RunSt.mainStep
    split
    · exact ⟨hc, hm⟩
    · have hadv : StopsMatch s.advance := by
        obtain ⟨h1, h2, h3, _⟩ := s.advance_fields
        exact ⟨by rw [h3]; exact hc, by rw [h1, h2]; exact hm⟩
      cases hk : s.ws[s.cursor]? with
      | none => exact hadv
      | some w =>
        simp only
        cases hr : w.resQ with
        | nil => exact hadv
        | cons r rq =>
          simp only
          split
          · exact hadv
          · refine ⟨hc, ?_⟩
            have := liveWorkers_set s.ws s.cursor w { w with resQ := rq } hk
            simp only [RWorker.live] at this
            show stopTokens s.jobQ = liveWorkers (s.ws.set s.cursor { w with resQ := rq })
            omega
  · rename_i k _hact
    unfold RunSt.workerStep
    cases hk : s.ws[k]? with
    | none => exact ⟨hc, hm⟩
    | some w =>
      simp only
      cases hh : w.hold with
      | some r =>
        refine ⟨hc, ?_⟩
        have := liveWorkers_set s.ws k w { w with hold := none, resQ := w.resQ ++ [r] } hk
        simp only [RWorker.live] at this
        show stopTokens s.jobQ = liveWorkers (s.ws.set k { w with hold := none, resQ := w.resQ ++ [r] })
        omega
      | none =>
        simp only
        cases hp : w.phase with
        | dead => exact ⟨hc, hm⟩
        | committed => exact stopsMatch_take ⟨hc, hm⟩ k w hk (by rw [hp]; simp)
        | idle =>
          simp only [hc, Bool.false_eq_true, if_false]
          exact stopsMatch_take ⟨hc, hm⟩ k w hk (by rw [hp]; simp)

theorem stopsMatch_run {s : RunSt α} (h : StopsMatch s) (evs : List Ev) : StopsMatch (s.run evs) := by
  induction evs generalizing s with
  | nil => exact h
  | cons e t ih => exact ih (stopsMatch_step h e)

end AF.ParEval
