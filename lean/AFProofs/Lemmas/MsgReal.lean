import AFProofs.Lemmas.Msg
import Mathlib.Probability.Distributions.Gaussian.Real

/-! The real-number instance of the special functions of `AF.Msg` and the normal density. -/

set_option linter.unusedSectionVars false

namespace AF.Msg

open Real ProbabilityTheory MeasureTheory

/-- the real functions behind `numpy`'s `sqrt log exp log10 10**`; the remaining fields (Φ, Φ⁻¹, erf⁻¹,
φ, the infinities, comparisons) are taken from an arbitrary `sp` -/
noncomputable def realFn (sp : Fn ℝ) : Fn ℝ :=
  { sp with
    sqrt := Real.sqrt
    log := Real.log
    exp := Real.exp
    log10 := fun x => Real.log x / Real.log 10
    exp10 := fun x => (10 : ℝ) ^ x
    halfLog2Pi := Real.log (2 * π) / 2 }

theorem realFn_sqrtLaw (sp : Fn ℝ) : SqrtLaw (realFn sp) where
  sq := fun _ hx => Real.mul_self_sqrt hx
  nonneg := fun x => Real.sqrt_nonneg x

/-- `σ²` as a non-negative real (the variance argument of Mathlib's Gaussian) -/
noncomputable def varNN (σ : ℝ) : NNReal := ⟨σ ^ 2, sq_nonneg σ⟩

@[simp] theorem coe_varNN (σ : ℝ) : ((varNN σ : NNReal) : ℝ) = σ ^ 2 := rfl

theorem varNN_ne_zero {σ : ℝ} (h : 0 < σ) : varNN σ ≠ 0 := by
  intro h0
  have : ((varNN σ : NNReal) : ℝ) = 0 := by rw [h0]; rfl
  rw [coe_varNN] at this
  have : σ = 0 := by simpa using this
  exact absurd this (ne_of_gt h)

/-- `exp(logpdf x)` of `NormalMessage(μ, σ)` is the Gaussian density of Mathlib -/
theorem exp_logpdf_normal (sp : Fn ℝ) (a : Base ℝ) (hn : a.fam = .normal) (hσ : 0 < a.p2) (x : ℝ) :
    Real.exp (a.logpdf (realFn sp) x) = gaussianPDFReal a.p1 (varNN a.p2) x := by
  obtain ⟨fam, mu, sigma, ln, id, lo, hi⟩ := a
  simp only at hn hσ; subst hn
  have hs : sigma ≠ 0 := ne_of_gt hσ
  simp only [Base.logpdf, Base.natural, calcNatural, normalLogPartition, realFn, gaussianPDFReal, coe_varNN]
  have hlog : Real.log (-(2 * (-(1 / (sigma * sigma)) / 2))) = -(2 * Real.log sigma) := by
    have : -(2 * (-(1 / (sigma * sigma)) / 2)) = (sigma * sigma)⁻¹ := by field_simp
    rw [this, Real.log_inv, Real.log_mul hs hs]; ring
  rw [hlog]
  have hsqrt : √(2 * π * sigma ^ 2) = √(2 * π) * sigma := by
    rw [Real.sqrt_mul (by positivity), Real.sqrt_sq hσ.le]
  rw [hsqrt]
  have h2pi : (0 : ℝ) < 2 * π := by positivity
  have hexp : Real.exp (-(Real.log (2 * π) / 2)) = (√(2 * π))⁻¹ := by
    rw [Real.exp_neg, Real.sqrt_eq_rpow, Real.rpow_def_of_pos h2pi]; ring_nf
  have key : -(Real.log (2 * π) / 2) + (mu * (1 / (sigma * sigma)) * x + -(1 / (sigma * sigma)) / 2 * (x * x)) -
      (-(mu * (1 / (sigma * sigma)) * (mu * (1 / (sigma * sigma)))) / (2 + 2) / (-(1 / (sigma * sigma)) / 2) -
        -(2 * Real.log sigma) / 2) =
      -(Real.log (2 * π) / 2) + (-(Real.log sigma)) + (-(x - mu) ^ 2 / (2 * sigma ^ 2)) := by
    field_simp; ring
  rw [key, Real.exp_add, Real.exp_add, hexp, Real.exp_neg, Real.exp_log hσ, mul_inv]

/-- every transform of the stack is differentiable, with derivative `exp(log_det)`, where `_transform_det`
applies it -/
def DerivOK (fn : Fn ℝ) : List (Tr ℝ) → ℝ → Prop
  | [], _ => True
  | t :: rest, x => DerivOK fn rest x ∧
      HasDerivAt (t.apply fn) (Real.exp (t.logDet fn (transformChain fn rest x))) (transformChain fn rest x)


end AF.Msg
