import AFModel.EP

/-! Helper lemmas for C18 (`AF.EP`): module algebra, sums of messages over factor lists, the store,
initial messages, counting. Core Lean only. -/

namespace AF.EP

variable {G : Type}

/-! ## algebra in an `EtaSpace` -/

section algebra
variable [EtaSpace G]

theorem zero_add' (a : G) : 0 + a = a := by
  rw [EtaSpace.add_comm, EtaSpace.add_zero]

theorem add_left_comm' (a b c : G) : a + (b + c) = b + (a + c) := by
  rw [← EtaSpace.add_assoc, EtaSpace.add_comm a b, EtaSpace.add_assoc]

/-- full update: `(q / cavity) * cavity = q` -/
theorem full_cancel (q c : G) : (q - c) + c = q := EtaSpace.sub_add_cancel q c

/-- damped update: `(q^d * old^(1-d) / cavity^d) * cavity = q^d * (old * cavity)^(1-d)` -/
theorem damped_cancel (d : Rat) (q o c : G) :
    ((d • q + (1 - d) • o) - d • c) + c = d • q + (1 - d) • (o + c) := by
  have h1 : c = d • c + (1 - d) • c := by
    rw [← EtaSpace.add_smul]
    have : d + (1 - d) = 1 := by grind
    rw [this, EtaSpace.one_smul]
  calc ((d • q + (1 - d) • o) - d • c) + c
      = ((d • q + (1 - d) • o) - d • c) + (d • c + (1 - d) • c) := by rw [← h1]
    _ = (((d • q + (1 - d) • o) - d • c) + d • c) + (1 - d) • c := by rw [EtaSpace.add_assoc]
    _ = (d • q + (1 - d) • o) + (1 - d) • c := by rw [EtaSpace.sub_add_cancel]
    _ = d • q + ((1 - d) • o + (1 - d) • c) := by rw [EtaSpace.add_assoc]
    _ = d • q + (1 - d) • (o + c) := by rw [EtaSpace.smul_add]

theorem succ_smul (n : Nat) (m : G) : (((n + 1 : Nat) : Rat)) • m = m + ((n : Rat)) • m := by
  have : ((n + 1 : Nat) : Rat) = 1 + (n : Rat) := by
    rw [Rat.natCast_add]; grind
  rw [this, EtaSpace.add_smul, EtaSpace.one_smul]

theorem smul_inv_cancel (n : Nat) (hn : n ≠ 0) (p : G) :
    ((n : Rat)) • ((1 / (n : Rat)) • p) = p := by
  rw [← EtaSpace.mul_smul]
  have h : (n : Rat) ≠ 0 := by
    intro h0
    exact hn (by exact_mod_cast h0)
  have : (n : Rat) * (1 / (n : Rat)) = 1 := by grind
  rw [this, EtaSpace.one_smul]

end algebra

/-! ## the store -/

theorem get_cons (s : State G) (f : Nat) (fld : Field G) (g v : Nat) :
    State.get ((f, fld) :: s) g v = if f = g then lookup fld v else s.get g v := by
  simp [State.get]

theorem lookup_map_val (q : Field G) (h : Nat → G → G) (v : Nat) :
    lookup (q.map (fun p => (p.1, h p.1 p.2))) v = (lookup q v).map (h v) := by
  induction q with
  | nil => simp [lookup]
  | cons p rest ih =>
    obtain ⟨k, x⟩ := p
    by_cases hk : k = v
    · subst hk; simp [lookup]
    · simp [lookup, hk, ih]

theorem lookup_map_key (l : List Nat) (h : Nat → G) (v : Nat) :
    lookup (l.map (fun w => (w, h w))) v = if l.contains v then some (h v) else none := by
  induction l with
  | nil => simp [lookup]
  | cons w rest ih =>
    by_cases hk : w = v
    · subst hk; simp [lookup]
    · have hk' : ¬ v = w := fun e => hk e.symm
      simp [lookup, hk, hk', ih]

section sums
variable [EtaSpace G]

theorem lookup_newField (valid : G → Bool) (a : Approx G) (q : Field G) (δ : Delta) (v : Nat) :
    lookup (newField valid a q δ) v = (lookup q v).map (newMsg valid a δ v) := by
  unfold newField
  exact lookup_map_val q (fun v qv => newMsg valid a δ v qv) v

theorem get_project (valid : G → Bool) (s : State G) (a : Approx G) (q : Field G) (δ : Delta)
    (g v : Nat) :
    (project valid s a q δ).get g v =
      if a.f = g then (lookup q v).map (newMsg valid a δ v) else s.get g v := by
  unfold project
  rw [get_cons, lookup_newField]

/-! ## sums of messages over lists of factors -/

theorem total_congr (s s' : State G) (v : Nat) (l : List Nat)
    (h : ∀ g ∈ l, s.get g v = s'.get g v) : total s v l = total s' v l := by
  induction l with
  | nil => rfl
  | cons g rest ih =>
    simp only [total]
    rw [h g (by simp), ih (fun g' hg' => h g' (by simp [hg']))]

theorem others_of_not_mem (l : List Nat) (f : Nat) (h : f ∉ l) : others l f = l := by
  unfold others
  apply List.filter_eq_self.mpr
  intro g hg
  have : g ≠ f := fun e => h (e ▸ hg)
  simp [this]

theorem mem_others (l : List Nat) (f g : Nat) : g ∈ others l f ↔ g ∈ l ∧ g ≠ f := by
  simp [others]

/-- the product over all factors splits into the factor's own message and its cavity -/
theorem total_split (s : State G) (v : Nat) (l : List Nat) (f : Nat) (hnd : l.Nodup) (hf : f ∈ l) :
    total s v l = val (s.get f v) + total s v (others l f) := by
  induction l with
  | nil => simp at hf
  | cons g rest ih =>
    have hnd' := List.nodup_cons.mp hnd
    by_cases hg : g = f
    · subst hg
      have : others (g :: rest) g = rest := by
        have h1 : others (g :: rest) g = others rest g := by simp [others]
        rw [h1, others_of_not_mem rest g hnd'.1]
      rw [this]
      rfl
    · have hf' : f ∈ rest := by
        rcases List.mem_cons.mp hf with h | h
        · exact absurd h.symm hg
        · exact h
      have : others (g :: rest) f = g :: others rest f := by simp [others, hg]
      rw [this]
      simp only [total]
      rw [ih hnd'.2 hf', add_left_comm']

theorem total_absent (s : State G) (v : Nat) (l : List Nat) (h : present s v l = false) :
    total s v l = 0 := by
  induction l with
  | nil => rfl
  | cons g rest ih =>
    simp only [present, List.any_cons, Bool.or_eq_false_iff] at h
    have hg : s.get g v = none := by
      cases hs : s.get g v with
      | none => rfl
      | some x => simp [hs] at h
    simp only [total]
    rw [hg, ih (by simpa [present] using h.2)]
    simp [val, EtaSpace.add_zero]

theorem total_perm (s : State G) (v : Nat) (l l' : List Nat) (h : l.Perm l') :
    total s v l = total s v l' := by
  induction h with
  | nil => rfl
  | cons x _ ih => simp only [total]; rw [ih]
  | swap x y l => simp only [total]; rw [add_left_comm']
  | trans _ _ ih1 ih2 => rw [ih1, ih2]

theorem val_some (x : G) : val (some x) = x := rfl

theorem newMsg_valid (valid : G → Bool) (a : Approx G) (δ : Delta) (v : Nat) (qv : G)
    (h : valid (candidate a (δ.at v) v qv) = true) :
    newMsg valid a δ v qv = candidate a (δ.at v) v qv := by
  simp [newMsg, h]

theorem newMsg_invalid (valid : G → Bool) (a : Approx G) (δ : Delta) (v : Nat) (qv o : G)
    (h : valid (candidate a (δ.at v) v qv) = false) (ho : a.old v = some o) :
    newMsg valid a δ v qv = o := by
  simp [newMsg, h, ho]

theorem candidate_none (a : Approx G) (v : Nat) (qv : G) :
    candidate a none v qv = qv - val (a.cavity v) := rfl

theorem candidate_some (a : Approx G) (d : Rat) (v : Nat) (qv : G) :
    candidate a (some d) v qv = (d • qv + (1 - d) • val (a.old v)) - d • val (a.cavity v) := rfl

/-- what the cavity dict holds is the sum over the other factors (an absent entry is neutral) -/
theorem val_cavityOpt (fs : List Nat) (s : State G) (f v : Nat) (h : (s.get f v).isSome) :
    val (cavityOpt fs s f v) = cavity fs s f v := by
  unfold cavityOpt
  by_cases hp : present s v (others fs f) = true
  · simp [h, hp, val]
  · have hp' : present s v (others fs f) = false := by simpa using hp
    simp only [h, hp', Bool.and_false, Bool.false_eq_true, if_false, val]
    exact (total_absent s v _ hp').symm

end sums

/-! ## initial messages -/

section init
variable [EtaSpace G]

theorem get_initState (fs : List Nat) (scope : Nat → List Nat) (cnt : Nat → Nat) (prior : Nat → G)
    (g v : Nat) :
    (initState fs scope cnt prior).get g v =
      if fs.contains g && (scope g).contains v then some (initMsg (cnt v) (prior v)) else none := by
  unfold initState
  induction fs with
  | nil => simp [State.get]
  | cons f rest ih =>
    simp only [List.map_cons]
    rw [get_cons]
    by_cases hf : f = g
    · subst hf
      simp only [if_true]
      rw [lookup_map_key (scope f) (fun w => initMsg (cnt w) (prior w)) v]
      simp
    · have hf' : ¬ g = f := fun e => hf e.symm
      simp only [hf, if_false]
      rw [ih]
      simp [hf']

/-- if every factor of `l` holds `m` for `v` exactly when `holds g`, the product is `m` to the
number of holders -/
theorem total_const (s : State G) (v : Nat) (l : List Nat) (holds : Nat → Bool) (m : G)
    (h : ∀ g ∈ l, s.get g v = if holds g then some m else none) :
    total s v l = (((l.filter holds).length : Nat) : Rat) • m := by
  induction l with
  | nil =>
    show (0 : G) = ((0 : Nat) : Rat) • m
    have : ((0 : Nat) : Rat) = 0 := by simp
    rw [this, EtaSpace.zero_smul]
  | cons g rest ih =>
    have ih' := ih (fun g' hg' => h g' (by simp [hg']))
    simp only [total]
    rw [h g (by simp), ih']
    by_cases hg : holds g = true
    · simp only [hg, if_true, List.filter_cons_of_pos, List.length_cons, val]
      rw [succ_smul]
    · have hg' : holds g = false := by simpa using hg
      simp only [hg', Bool.false_eq_true, if_false, val]
      rw [zero_add']
      simp [hg']

theorem holders_others (fs : List Nat) (p : Nat → Bool) (f : Nat) (hnd : fs.Nodup) (hf : f ∈ fs)
    (hp : p f = true) :
    ((others fs f).filter p).length + 1 = (fs.filter p).length := by
  induction fs with
  | nil => simp at hf
  | cons g rest ih =>
    have hnd' := List.nodup_cons.mp hnd
    by_cases hg : g = f
    · subst hg
      have h1 : others (g :: rest) g = rest := by
        have h1 : others (g :: rest) g = others rest g := by simp [others]
        rw [h1, others_of_not_mem rest g hnd'.1]
      rw [h1]
      simp [hp]
    · have hf' : f ∈ rest := by
        rcases List.mem_cons.mp hf with h | h
        · exact absurd h.symm hg
        · exact h
      have h1 : others (g :: rest) f = g :: others rest f := by simp [others, hg]
      rw [h1]
      have := ih hnd'.2 hf'
      by_cases hpg : p g = true
      · simp [hpg]; omega
      · simp [hpg]; omega

end init

/-! ## the declarative graph -/

theorem mem_dedup (l : List Nat) (v : Nat) : v ∈ dedup l ↔ v ∈ l := by
  induction l with
  | nil => simp [dedup]
  | cons x rest ih =>
    simp only [dedup, List.mem_cons, List.mem_filter, ih]
    by_cases h : v = x
    · simp [h]
    · simp [h]

theorem dedup_nodup (l : List Nat) : (dedup l).Nodup := by
  induction l with
  | nil => simp [dedup]
  | cons x rest ih =>
    simp only [dedup]
    apply List.nodup_cons.mpr
    constructor
    · simp
    · exact ih.filter _

theorem filter_range_getElem? {α : Type} (l : List α) (q : Option α → Bool) :
    ((List.range l.length).filter (fun i => q l[i]?)).length = (l.filter (fun x => q (some x))).length := by
  induction l with
  | nil => simp
  | cons x rest ih =>
    rw [List.length_cons, List.range_succ_eq_map, List.filter_cons]
    simp only [List.getElem?_cons_zero, List.filter_map]
    have : (fun i => q (x :: rest)[i]?) ∘ Nat.succ = fun i => q rest[i]? := by
      funext i; simp
    rw [this]
    by_cases hx : q (some x) = true
    · simp [hx, ih]
    · simp [hx, ih]

/-- the repaired `prior_counts` is the number of factors of the graph that hold the variable -/
theorem holders_decl (d : Decl) (cfg : Cfg) (hc : cfg.countPerFactor = true) (v : Nat)
    (hv : v ∈ d.priors) : holders d.factors d.scope v = d.count cfg v := by
  unfold holders Decl.factors Decl.count
  rw [List.range_add, List.filter_append, List.length_append, hc]
  simp only [if_true]
  congr 1
  · -- model factors
    have h1 : (List.range d.nModel).filter (fun g => (d.scope g).contains v)
        = (List.range d.places.length).filter (fun i => (fun o : Option (List Nat) => (dedup (o.getD [])).contains v) d.places[i]?) := by
      apply List.filter_congr
      intro i hi
      have hi' : i < d.nModel := by simpa using hi
      simp only [Decl.scope, hi', if_true, List.getD_eq_getElem?_getD]
    rw [h1, filter_range_getElem? d.places (fun o => (dedup (o.getD [])).contains v)]
    congr 1
    apply List.filter_congr
    intro ps _
    have := mem_dedup ps v
    simp only [Option.getD_some]
    rw [Bool.eq_iff_iff]
    simpa using this
  · -- prior factors
    by_cases hi : d.ipf = true
    · simp only [hi, if_true]
      rw [List.filter_map, List.length_map]
      have h2 : ((fun g => (d.scope g).contains v) ∘ fun x => d.nModel + x)
          = fun j => (fun o : Option Nat => o.toList.contains v) d.priors[j]? := by
        funext j
        have : ¬ (d.nModel + j < d.nModel) := by omega
        simp [Decl.scope, this, hi]
      rw [h2, filter_range_getElem? d.priors (fun o => o.toList.contains v)]
      have h3 : d.priors.filter (fun x => (some x).toList.contains v) = d.priors.filter (fun x => x == v) := by
        apply List.filter_congr
        intro x _
        by_cases hx : x = v
        · simp [hx]
        · have : ¬ v = x := fun e => hx e.symm
          simp [hx, this]
      have hnd : d.priors.Nodup := dedup_nodup _
      rw [h3, ← List.count_eq_length_filter, hnd.count]
      simp [hv]
    · have hi' : d.ipf = false := by simpa using hi
      simp [hi']

end AF.EP
