import AFProofs.Lemmas.Comp

/-! Specification vocabulary for `Comp`: well-formedness, addressable leaves, and the placement
lemma proved by mutual structural induction over the composition. -/

namespace AF

inductive Leaf (V : Type) where
  | prior (id : Nat)
  | const (v : V)

def leafVal {V} (ρ : Nat → Inst V) : Leaf V → Inst V
  | .prior id => ρ id
  | .const v => .num v

def pre {α} (k : String) (x : Path × α) : Path × α := (k :: x.1, x.2)

/- the places of free parameters and fixed values that are *addressable in the instance*:
through constructor arguments of `Model`s, members of `Collection`s and of tuple parameters.
Places inside arithmetic nodes and arrays are *derived* and handled by `arith_value`/`array_entries`. -/
mutual
def leaves {V} : Node V → List (Path × Leaf V)
  | .prior id => [([], .prior id)]
  | .const v => [([], .const v)]
  | .model _ ctor attrs => leavesModel ctor attrs
  | .coll attrs => leavesColl attrs
  | .tuple attrs => leavesTuple attrs
  | .opaque _ => []
  | .arith _ _ _ _ => []
  | .modif _ _ _ => []
  | .array _ _ => []
def leavesModel {V} (ctor : List String) : List (String × Node V) → List (Path × Leaf V)
  | [] => []
  | (k, n) :: rest =>
      (if ctor.contains k then (leaves n).map (pre k)
       else match n with
         | .const v => [([k], .const v)]
         | _ => []) ++ leavesModel ctor rest
def leavesColl {V} : List (String × Node V) → List (Path × Leaf V)
  | [] => []
  | (k, n) :: rest =>
      (match n with
        | .tuple _ => []
        | _ => (leaves n).map (pre k)) ++ leavesColl rest
def leavesTuple {V} : List (String × Node V) → List (Path × Leaf V)
  | [] => []
  | (k, n) :: rest =>
      (match n with
        | .prior id => [([k], .prior id)]
        | .const v => [([k], .const v)]
        | _ => []) ++ leavesTuple rest
end

/- attribute names are distinct at every node (they are keys of a Python `dict`) -/
mutual
def WF {V} : Node V → Prop
  | .model _ _ attrs => WFAttrs attrs ∧ (attrs.map (·.1)).Nodup
  | .coll attrs => WFAttrs attrs ∧ (attrs.map (·.1)).Nodup
  | .tuple attrs => (attrs.map (·.1)).Nodup
  | _ => True
def WFAttrs {V} : List (String × Node V) → Prop
  | [] => True
  | (_, n) :: rest => WF n ∧ WFAttrs rest
end

/-! ### heads of leaf paths -/

theorem leavesModel_head {V} (ctor : List String) : ∀ (attrs : List (String × Node V)) (p : Path) (x : Leaf V),
    (p, x) ∈ leavesModel ctor attrs → ∃ k q, p = k :: q ∧ k ∈ attrs.map (·.1)
  | [], _, _, h => by simp [leavesModel] at h
  | (k, n) :: rest, p, x, h => by
    simp only [leavesModel, List.mem_append] at h
    rcases h with h | h
    · refine ⟨k, p.tail, ?_, by simp⟩
      split at h
      · simp only [List.mem_map] at h
        obtain ⟨⟨q, y⟩, _, heq⟩ := h
        simp only [pre, Prod.mk.injEq] at heq
        rw [← heq.1]; rfl
      · split at h
        · simp only [List.mem_singleton, Prod.mk.injEq] at h
          rw [h.1]; rfl
        · simp at h
    · obtain ⟨k', q, hp, hk⟩ := leavesModel_head ctor rest p x h
      exact ⟨k', q, hp, by simp [hk]⟩

theorem leavesColl_head {V} : ∀ (attrs : List (String × Node V)) (p : Path) (x : Leaf V),
    (p, x) ∈ leavesColl attrs → ∃ k q, p = k :: q ∧ k ∈ attrs.map (·.1)
  | [], _, _, h => by simp [leavesColl] at h
  | (k, n) :: rest, p, x, h => by
    simp only [leavesColl, List.mem_append] at h
    rcases h with h | h
    · refine ⟨k, p.tail, ?_, by simp⟩
      split at h
      · simp at h
      · simp only [List.mem_map] at h
        obtain ⟨⟨q, y⟩, _, heq⟩ := h
        simp only [pre, Prod.mk.injEq] at heq
        rw [← heq.1]; rfl
    · obtain ⟨k', q, hp, hk⟩ := leavesColl_head rest p x h
      exact ⟨k', q, hp, by simp [hk]⟩

theorem leavesTuple_head {V} : ∀ (attrs : List (String × Node V)) (p : Path) (x : Leaf V),
    (p, x) ∈ leavesTuple attrs → ∃ k, p = [k] ∧ k ∈ attrs.map (·.1)
  | [], _, _, h => by simp [leavesTuple] at h
  | (k, n) :: rest, p, x, h => by
    simp only [leavesTuple, List.mem_append] at h
    rcases h with h | h
    · refine ⟨k, ?_, by simp⟩
      split at h
      · simp only [List.mem_singleton, Prod.mk.injEq] at h; exact h.1
      · simp only [List.mem_singleton, Prod.mk.injEq] at h; exact h.1
      · simp at h
    · obtain ⟨k', hp, hk⟩ := leavesTuple_head rest p x h
      exact ⟨k', hp, by simp [hk]⟩

/-! ### instantiated attribute lists keep their names -/

theorem instModelAttrs_names {V} [Inhabited V] (ops : Ops V) (ρ : Nat → Inst V) (ctor) :
    ∀ (attrs : List (String × Node V)), (instModelAttrs ops ρ ctor attrs).map (·.1) = attrs.map (·.1)
  | [] => by simp [instModelAttrs]
  | (k, n) :: rest => by
    have ih := instModelAttrs_names ops ρ ctor rest
    unfold instModelAttrs
    split
    · simp [ih]
    · split <;> simp [ih]

theorem instCollAttrs_names {V} [Inhabited V] (ops : Ops V) (ρ : Nat → Inst V) :
    ∀ (attrs : List (String × Node V)), (instCollAttrs ops ρ attrs).map (·.1) = attrs.map (·.1)
  | [] => by simp [instCollAttrs]
  | (k, n) :: rest => by
    have ih := instCollAttrs_names ops ρ rest
    unfold instCollAttrs
    split <;> simp [ih]

theorem instTupleAttrs_names_sub {V} [Inhabited V] (ops : Ops V) (ρ : Nat → Inst V) :
    ∀ (attrs : List (String × Node V)), ((instTupleAttrs ops ρ attrs).map (·.1)).Sublist (attrs.map (·.1))
  | [] => by simp [instTupleAttrs]
  | (k, n) :: rest => by
    have ih := instTupleAttrs_names_sub ops ρ rest
    unfold instTupleAttrs
    split
    · simpa using ih
    · simpa using ih
    · simpa using ih.cons k

/-! ### the placement lemma -/

theorem tuple_lookup {V} [Inhabited V] (ops : Ops V) (ρ : Nat → Inst V) :
    ∀ (attrs : List (String × Node V)), (attrs.map (·.1)).Nodup →
    ∀ p x, (p, x) ∈ leavesTuple attrs → ∃ k, p = [k] ∧
      lookupAttr (instTupleAttrs ops ρ attrs) k = some (leafVal ρ x)
  | [], _, p, x, h => by simp [leavesTuple] at h
  | (k, n) :: rest, hnd, p, x, h => by
    simp only [List.map_cons, List.nodup_cons] at hnd
    simp only [leavesTuple, List.mem_append] at h
    rcases h with h | h
    · refine ⟨k, ?_, ?_⟩
      · split at h
        · simp only [List.mem_singleton, Prod.mk.injEq] at h; exact h.1
        · simp only [List.mem_singleton, Prod.mk.injEq] at h; exact h.1
        · simp at h
      · split at h
        · simp only [List.mem_singleton, Prod.mk.injEq] at h
          obtain ⟨_, rfl⟩ := h
          simp [instTupleAttrs, lookupAttr, leafVal, instW]
        · simp only [List.mem_singleton, Prod.mk.injEq] at h
          obtain ⟨_, rfl⟩ := h
          simp [instTupleAttrs, lookupAttr, leafVal]
        · simp at h
    · obtain ⟨k', hp, hl⟩ := tuple_lookup ops ρ rest hnd.2 p x h
      obtain ⟨k'', hp', hk''⟩ := leavesTuple_head rest p x h
      have hkk : k'' = k' := by rw [hp] at hp'; simpa using hp'.symm
      subst hkk
      have hne : k ≠ k'' := fun e => hnd.1 (e ▸ hk'')
      refine ⟨k'', hp, ?_⟩
      unfold instTupleAttrs
      split
      · simp only [lookupAttr, if_neg hne]; exact hl
      · simp only [lookupAttr, if_neg hne]; exact hl
      · exact hl

mutual
theorem instW_at_leaf {V} [Inhabited V] (ops : Ops V) (ρ : Nat → Inst V) :
    ∀ (n : Node V), WF n → ∀ p x, (p, x) ∈ leaves n → (instW ops ρ n).at p = some (leafVal ρ x)
  | .prior id, _, p, x, h => by
      simp only [leaves, List.mem_singleton, Prod.mk.injEq] at h
      obtain ⟨rfl, rfl⟩ := h
      simp only [Inst.at, leafVal, instW]
  | .const v, _, p, x, h => by
      simp only [leaves, List.mem_singleton, Prod.mk.injEq] at h
      obtain ⟨rfl, rfl⟩ := h
      simp [instW, Inst.at, leafVal]
  | .opaque _, _, p, x, h => by simp [leaves] at h
  | .arith _ _ _ _, _, p, x, h => by simp [leaves] at h
  | .modif _ _ _, _, p, x, h => by simp [leaves] at h
  | .array _ _, _, p, x, h => by simp [leaves] at h
  | .model cls ctor attrs, hw, p, x, h => by
      simp only [WF] at hw
      simp only [leaves] at h
      simp only [instW]
      exact instModel_at_leaf ops ρ cls ctor attrs hw.1 hw.2 p x h
  | .coll attrs, hw, p, x, h => by
      simp only [WF] at hw
      simp only [leaves] at h
      simp only [instW]
      exact instColl_at_leaf ops ρ attrs hw.1 hw.2 p x h
  | .tuple attrs, hw, p, x, h => by
      simp only [WF] at hw
      simp only [leaves] at h
      obtain ⟨k, rfl, hl⟩ := tuple_lookup ops ρ attrs hw p x h
      have hnd : ((instTupleAttrs ops ρ attrs).map (·.1)).Nodup :=
        (instTupleAttrs_names_sub ops ρ attrs).nodup hw
      simp only [instW, Inst.at]
      rw [lookupAttr_sortByName _ _ hnd, hl]
theorem instModel_at_leaf {V} [Inhabited V] (ops : Ops V) (ρ : Nat → Inst V) (cls : String)
    (ctor : List String) :
    ∀ (attrs : List (String × Node V)), WFAttrs attrs → (attrs.map (·.1)).Nodup →
    ∀ p x, (p, x) ∈ leavesModel ctor attrs →
      (Inst.obj cls (instModelAttrs ops ρ ctor attrs)).at p = some (leafVal ρ x)
  | [], _, _, p, x, h => by simp [leavesModel] at h
  | (k, n) :: rest, hw, hnd, p, x, h => by
      simp only [WFAttrs] at hw
      simp only [List.map_cons, List.nodup_cons] at hnd
      simp only [leavesModel, List.mem_append] at h
      rcases h with h | h
      · by_cases hc : ctor.contains k = true
        · rw [if_pos hc] at h
          simp only [List.mem_map] at h
          obtain ⟨⟨q, y⟩, hq, heq⟩ := h
          simp only [pre, Prod.mk.injEq] at heq
          obtain ⟨rfl, rfl⟩ := heq
          have ih := instW_at_leaf ops ρ n hw.1 q y hq
          unfold instModelAttrs
          rw [if_pos hc]
          simp only [Inst.at, lookupAttr, if_true]
          exact ih
        · rw [if_neg hc] at h
          split at h
          · simp only [List.mem_singleton, Prod.mk.injEq] at h
            obtain ⟨rfl, rfl⟩ := h
            unfold instModelAttrs
            rw [if_neg hc]
            simp [Inst.at, lookupAttr, leafVal]
          · simp at h
      · obtain ⟨k', q, rfl, hk'⟩ := leavesModel_head ctor rest p x h
        have hne : k ≠ k' := fun e => hnd.1 (e ▸ hk')
        have ih := instModel_at_leaf ops ρ cls ctor rest hw.2 hnd.2 (k' :: q) x h
        unfold instModelAttrs
        split
        · simp only [Inst.at, lookupAttr, if_neg hne] at ih ⊢; exact ih
        · split <;> (simp only [Inst.at, lookupAttr, if_neg hne] at ih ⊢; exact ih)
theorem instColl_at_leaf {V} [Inhabited V] (ops : Ops V) (ρ : Nat → Inst V) :
    ∀ (attrs : List (String × Node V)), WFAttrs attrs → (attrs.map (·.1)).Nodup →
    ∀ p x, (p, x) ∈ leavesColl attrs →
      (Inst.obj "" (instCollAttrs ops ρ attrs)).at p = some (leafVal ρ x)
  | [], _, _, p, x, h => by simp [leavesColl] at h
  | (k, n) :: rest, hw, hnd, p, x, h => by
      simp only [WFAttrs] at hw
      simp only [List.map_cons, List.nodup_cons] at hnd
      simp only [leavesColl, List.mem_append] at h
      rcases h with h | h
      · unfold instCollAttrs
        split
        · simp at h
        · rename_i hnt
          have h' : (p, x) ∈ (leaves n).map (pre k) := by
            revert h; split
            · rename_i a; exact absurd rfl (hnt a)
            · exact id
          simp only [List.mem_map] at h'
          obtain ⟨⟨q, y⟩, hq, heq⟩ := h'
          simp only [pre, Prod.mk.injEq] at heq
          obtain ⟨rfl, rfl⟩ := heq
          have ih := instW_at_leaf ops ρ n hw.1 q y hq
          simp only [Inst.at, lookupAttr, if_true]
          exact ih
      · obtain ⟨k', q, rfl, hk'⟩ := leavesColl_head rest p x h
        have hne : k ≠ k' := fun e => hnd.1 (e ▸ hk')
        have ih := instColl_at_leaf ops ρ rest hw.2 hnd.2 (k' :: q) x h
        unfold instCollAttrs
        split <;> (simp only [Inst.at, lookupAttr, if_neg hne] at ih ⊢; exact ih)
end

end AF
