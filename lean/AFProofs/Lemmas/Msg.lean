import AFModel.Msg
import Mathlib.Tactic.FieldSimp
import Mathlib.Tactic.Ring
import Mathlib.Tactic.Linarith
import Mathlib.Algebra.Order.Field.Basic

/-! Helper lemmas for C17 (`AF.Msg`): natural ↔ ordinary parameters, the algebra of messages over an
ordered field, sums of lists. -/

set_option linter.unusedSectionVars false

namespace AF.Msg

section field
variable {K : Type} [Field K] [LinearOrder K] [IsStrictOrderedRing K]

/-- what the theorems use of `sqrt` -/
structure SqrtLaw (fn : Fn K) : Prop where
  sq : ∀ x : K, 0 ≤ x → fn.sqrt x * fn.sqrt x = x
  nonneg : ∀ x : K, 0 ≤ fn.sqrt x

/-- the natural-parameter domain on which the code's detour through ordinary parameters is exact:
`η₂ < 0` for `NormalMessage`; everything for the other classes (their maps are affine) -/
def InDomain (fam : Family) (eta : K × K) : Prop := fam = .normal → eta.2 < 0

instance (fam : Family) (eta : K × K) : Decidable (InDomain fam eta) := by
  unfold InDomain; infer_instance

omit [IsStrictOrderedRing K] in
theorem inDomain_of_ne_normal {fam : Family} (h : fam ≠ .normal) (eta : K × K) : InDomain fam eta :=
  fun h' => absurd h' h

/-- natural → ordinary → natural is the identity on the domain -/
theorem calc_invert {fn : Fn K} (hs : SqrtLaw fn) (fam : Family) (eta : K × K) (hd : InDomain fam eta) :
    calcNatural fam (invertNatural fn fam eta).1 (invertNatural fn fam eta).2 = eta := by
  cases fam with
  | normal =>
    have h2 : eta.2 < 0 := hd rfl
    have hne : eta.2 ≠ 0 := ne_of_lt h2
    have hpos : 0 ≤ -(1 / 2) / eta.2 := by
      have : -(1 / 2 : K) / eta.2 = (1 / 2) / (-eta.2) := by field_simp
      rw [this]
      have : (0 : K) < -eta.2 := by linarith
      positivity
    have hsq := hs.sq _ hpos
    simp only [calcNatural, invertNatural]
    rw [hsq]
    ext
    · simp only; field_simp
    · simp only; field_simp
  | naturalNormal => simp [calcNatural, invertNatural]
  | gamma => ext <;> simp [calcNatural, invertNatural]
  | beta => ext <;> simp [calcNatural, invertNatural]
  | fixed => simp [calcNatural, invertNatural]

/-- ordinary → natural → ordinary is the identity for valid ordinary parameters -/
theorem invert_calc {fn : Fn K} (hs : SqrtLaw fn) (fam : Family) (p1 p2 : K) (hp : fam = .normal → 0 < p2) :
    invertNatural fn fam (calcNatural fam p1 p2) = (p1, p2) := by
  cases fam with
  | normal =>
    have h2 : 0 < p2 := hp rfl
    have hne : p2 ≠ 0 := ne_of_gt h2
    simp only [calcNatural, invertNatural]
    have e : -(1 / 2 : K) / (-(1 / (p2 * p2)) / 2) = p2 * p2 := by field_simp
    rw [e]
    have hsq := hs.sq (p2 * p2) (by positivity)
    have hroot : fn.sqrt (p2 * p2) = p2 :=
      (mul_self_inj (hs.nonneg _) h2.le).1 hsq
    rw [hroot]
    ext
    · simp only; field_simp
    · rfl
  | naturalNormal => simp [calcNatural, invertNatural]
  | gamma => ext <;> simp [calcNatural, invertNatural]
  | beta => ext <;> simp [calcNatural, invertNatural]
  | fixed => simp [calcNatural, invertNatural]

theorem natural_fromNatural {fn : Fn K} (hs : SqrtLaw fn) (fam : Family) (eta : K × K) (ln : K) (id : Nat)
    (lo hi : K) (hd : InDomain fam eta) : (fromNatural fn fam eta ln id lo hi).natural = eta := by
  simp only [fromNatural, Base.natural]
  exact calc_invert hs fam eta hd

/-- a valid ordinary normal message has its natural parameters in the domain -/
theorem normal_natural_snd_neg (p1 p2 : K) (h : 0 < p2) : (calcNatural .normal p1 p2).2 < 0 := by
  simp only [calcNatural]
  have : (0 : K) < 1 / (p2 * p2) := by positivity
  linarith

end field

/-! ## list sums -/

section sums
variable {K : Type} [Field K]

theorem sumL_map_div (ws : List K) (c : K) : sumL (ws.map (· / c)) = sumL ws / c := by
  induction ws with
  | nil => simp [sumL]
  | cons w ws ih => simp only [List.map, sumL, ih]; ring

theorem sumL_zipWith_div (f : K → K) (xs ws : List K) (c : K) :
    sumL (List.zipWith (fun x w => f x * w) xs (ws.map (· / c))) =
      sumL (List.zipWith (fun x w => f x * w) xs ws) / c := by
  induction xs generalizing ws with
  | nil => simp [sumL]
  | cons x xs ih =>
    cases ws with
    | nil => simp [sumL]
    | cons w ws => simp only [List.map, List.zipWith, sumL, ih]; ring

theorem length_zipWith_map {α β γ : Type} (f : α → β → γ) (g : β → β) (xs : List α) (ws : List β) :
    (List.zipWith f xs (ws.map g)).length = (List.zipWith f xs ws).length := by
  simp

end sums

end AF.Msg

namespace AF.Msg

/-! ## unfolding the operations -/

section ops
variable {K : Type} [Field K]

theorem Base.mul_eq (fn : Fn K) (a : Base K) (eb : K × K) (hf : a.fam ≠ .fixed) :
    a.mul fn eb = fromNatural fn a.fam (a.natural.1 + eb.1, a.natural.2 + eb.2) 0 a.id a.lower a.upper := by
  unfold Base.mul; split
  · next h => exact absurd h hf
  · rfl

theorem Base.div_eq (fn : Fn K) (a : Base K) (eb : K × K) (lb : K) (hf : a.fam ≠ .fixed) :
    a.div fn eb lb =
      fromNatural fn a.fam (a.natural.1 - eb.1, a.natural.2 - eb.2) (a.logNorm - lb) a.id a.lower a.upper := by
  unfold Base.div; split
  · next h => exact absurd h hf
  · rfl

theorem Base.pow_eq (fn : Fn K) (a : Base K) (k : K) (hf : a.fam ≠ .fixed) :
    a.pow fn k = fromNatural fn a.fam (k * a.natural.1, k * a.natural.2) (k * a.logNorm) a.id a.lower a.upper := by
  unfold Base.pow; split
  · next h => exact absurd h hf
  · rfl

/-- the wrapper of a transformed message: transform stack, id, limits -/
def M.shell : M K → Option (List (Tr K) × Option Nat × K × K)
  | .plain _ => none
  | .transformed t => some (t.trs, t.id, t.lower, t.upper)

@[simp] theorem M.lift_base (m : M K) (f : Base K → Base K) : (m.lift f).base = f m.base := by
  cases m <;> rfl

@[simp] theorem M.lift_shell (m : M K) (f : Base K → Base K) : (m.lift f).shell = m.shell := by
  cases m <;> rfl

@[simp] theorem M.lift_trs (m : M K) (f : Base K → Base K) : (m.lift f).trs = m.trs := by
  cases m <;> rfl

/-- class, id and limits of a base message -/
def Base.ident (a : Base K) : Family × Nat × K × K := (a.fam, a.id, a.lower, a.upper)

theorem Base.mul_ident (fn : Fn K) (a : Base K) (eb : K × K) : (a.mul fn eb).ident = a.ident := by
  unfold Base.mul; split <;> rfl

theorem Base.div_ident (fn : Fn K) (a : Base K) (eb : K × K) (lb : K) : (a.div fn eb lb).ident = a.ident := by
  unfold Base.div; split <;> rfl

theorem Base.pow_ident (fn : Fn K) (a : Base K) (k : K) : (a.pow fn k).ident = a.ident := by
  unfold Base.pow; split <;> rfl

theorem Base.smul_ident (fn : Fn K) (a : Base K) (c : K) : (a.smul fn c).ident = a.ident := by
  unfold Base.smul; split <;> rfl

theorem Base.sdiv_ident (fn : Fn K) (a : Base K) (c : K) : (a.sdiv fn c).ident = a.ident := rfl

end ops

/-! ## vocabulary of the property theorems -/

section vocabulary
variable {K : Type} [Field K]

/-- the `n+1`-fold product `a * a * … * a` -/
def prodN (fn : Fn K) (a : M K) : Nat → M K
  | 0 => a
  | n + 1 => M.mul fn (prodN fn a n) a


/-- transform `t` is undone by its inverse at the point `y` -/
def InvAt (fn : Fn K) (t : Tr K) (y : K) : Prop := t.inv fn (t.apply fn y) = y

/-- every transform of the stack is undone by its inverse at the point where `_transform` applies it -/
def ChainOK (fn : Fn K) : List (Tr K) → K → Prop
  | [], _ => True
  | t :: rest, x => ChainOK fn rest x ∧ InvAt fn t (transformChain fn rest x)


end vocabulary

end AF.Msg
