import AFModel.SamplesConv
import AFProofs.Lemmas.Comp

/-! Helper lemmas for C05 (`AFModel/SamplesConv.lean`): the four-way zip, slicing commutes with `map`,
the keyed round trip of a sample's values, the fold of `max_log_likelihood_sample`. Core Lean only. -/

namespace AF.Samples

variable {V : Type}

/-! ## `fromLists` -/

theorem fromLists_map (f g h : List V → V) : ∀ (rows : List (List V)),
    fromLists rows (rows.map f) (rows.map g) (rows.map h) = rows.map (fun r => ⟨r, f r, g r, h r⟩)
  | [] => by simp [fromLists]
  | r :: rows => by simp [fromLists, fromLists_map f g h rows]

/-- every sample of a four-way zip takes each field from the list zipped at that position -/
theorem mem_fromLists : ∀ (ps : List (List V)) (ls qs ws : List V) (s : Sample V),
    s ∈ fromLists ps ls qs ws → s.params ∈ ps ∧ s.ll ∈ ls ∧ s.lp ∈ qs ∧ s.w ∈ ws
  | [], _, _, _, s, h => by simp [fromLists] at h
  | _ :: _, [], _, _, s, h => by simp [fromLists] at h
  | _ :: _, _ :: _, [], _, s, h => by simp [fromLists] at h
  | _ :: _, _ :: _, _ :: _, [], s, h => by simp [fromLists] at h
  | p :: ps, l :: ls, q :: qs, w :: ws, s, h => by
    simp only [fromLists, List.mem_cons] at h
    rcases h with rfl | h
    · simp
    · have := mem_fromLists ps ls qs ws s h
      simp [this.1, this.2.1, this.2.2.1, this.2.2.2]

/-- rows zipped with functions of the rows (and any weights): every sample is consistent -/
theorem mem_fromLists_map (f g : List V → V) : ∀ (ps : List (List V)) (ws : List V) (s : Sample V),
    s ∈ fromLists ps (ps.map f) (ps.map g) ws → s.params ∈ ps ∧ s.ll = f s.params ∧ s.lp = g s.params ∧ s.w ∈ ws
  | [], _, s, h => by simp [fromLists] at h
  | _ :: _, [], s, h => by simp [fromLists] at h
  | p :: ps, w :: ws, s, h => by
    simp only [List.map_cons, fromLists, List.mem_cons] at h
    rcases h with rfl | h
    · simp
    · have := mem_fromLists_map f g ps ws s h
      simp [this.1, this.2.1, this.2.2.1, this.2.2.2]

theorem fromLists_params_of_length : ∀ (ps : List (List V)) (ls qs ws : List V),
    ls.length = ps.length → qs.length = ps.length → ws.length = ps.length →
    (fromLists ps ls qs ws).map (·.params) = ps
  | [], _, _, _, _, _, _ => by simp [fromLists]
  | p :: ps, l :: ls, q :: qs, w :: ws, h1, h2, h3 => by
    simp only [List.length_cons, Nat.add_right_cancel_iff] at h1 h2 h3
    simp [fromLists, fromLists_params_of_length ps ls qs ws h1 h2 h3]
  | _ :: _, [], _, _, h, _, _ => by simp at h
  | _ :: _, _ :: _, [], _, _, h, _ => by simp at h
  | _ :: _, _ :: _, _ :: _, [], _, _, h => by simp at h

theorem subZip_map (o : SOps V) (f g : List V → V) (rows : List (List V)) :
    subZip o (rows.map f) (rows.map g) = rows.map (fun r => o.sub (f r) (g r)) := by
  induction rows with
  | nil => simp [subZip]
  | cons r rows ih => simp [subZip] at ih ⊢

theorem ones_length_map {α β} (o : SOps V) (f : α → β) (rows : List α) :
    ones o (rows.map f).length = rows.map (fun _ => o.one) := by
  simp [ones, List.map_const']

theorem mem_ones (o : SOps V) (n : Nat) (x : V) (h : x ∈ ones o n) : x = o.one := by
  simp [ones] at h; exact h.2

/-- the pattern shared by emcee, Drawer and BFGS: posteriors `L + prior` of the rows, minus the priors -/
theorem conv_of_posts (o : SOps V) (L prior : List V → V) (hsub : ∀ a b, o.sub (o.add a b) b = a)
    (rows : List (List V)) :
    (let lps := rows.map prior
     let lls := subZip o (rows.map (fun r => o.add (L r) (prior r))) lps
     fromLists rows lls lps (ones o lls.length)) = rows.map (fun r => ⟨r, L r, prior r, o.one⟩) := by
  simp only [subZip_map, hsub, ones_length_map]
  exact fromLists_map L prior (fun _ => o.one) rows

/-! ## slices commute with `map` -/

theorem everyNthAux_map {α β} (f : α → β) (k : Nat) : ∀ (l : List α) (c : Nat),
    everyNthAux k c (l.map f) = (everyNthAux k c l).map f
  | [], c => by cases c <;> simp [everyNthAux]
  | x :: xs, 0 => by simp [everyNthAux, everyNthAux_map f k xs]
  | x :: xs, c + 1 => by simp [everyNthAux, everyNthAux_map f k xs]

theorem thinSteps_map {α β} (f : α → β) (d t : Nat) (l : List α) :
    thinSteps d t (l.map f) = (thinSteps d t l).map f := by
  simp [thinSteps, pySliceStep, ← List.map_drop, everyNthAux_map]

theorem flatten_map_map {α β} (f : α → β) (l : List (List α)) :
    (l.map (List.map f)).flatten = l.flatten.map f := by
  simp [List.map_flatten]

theorem everyNthAux_sublist {α} (k : Nat) : ∀ (l : List α) (c : Nat), (everyNthAux k c l).Sublist l
  | [], c => by cases c <;> simp [everyNthAux]
  | x :: xs, 0 => by simp [everyNthAux]; exact everyNthAux_sublist k xs _
  | x :: xs, c + 1 => by simp [everyNthAux]; exact (everyNthAux_sublist k xs c).trans (List.sublist_cons_self x xs)

/-- thinning keeps steps of the chain, in order -/
theorem thinSteps_sublist {α} (d t : Nat) (l : List α) : (thinSteps d t l).Sublist l :=
  (everyNthAux_sublist t _ 0).trans (List.drop_sublist _ l)

/-! ## best fit -/

/-- the invariant of the loop in `max_log_likelihood_sample`: the current best is the first sample of
the part seen so far that no seen sample exceeds -/
def BestOf (o : SOps V) (seen : List (Sample V)) : Option (Sample V) → Prop
  | none => seen = []
  | some b => ∃ pre post, seen = pre ++ b :: post ∧ (∀ s ∈ pre, o.lt s.ll b.ll = true) ∧
      (∀ s ∈ post, o.lt b.ll s.ll = false)

theorem bestOf_step (o : SOps V)
    (htr : ∀ a b c, o.lt a b = true → o.lt b c = true → o.lt a c = true)
    (hnt : ∀ a b c, o.lt a c = true → o.lt a b = true ∨ o.lt b c = true)
    (seen : List (Sample V)) (acc : Option (Sample V)) (s : Sample V) (h : BestOf o seen acc) :
    BestOf o (seen ++ [s]) (maxStep o acc s) := by
  cases acc with
  | none =>
    simp only [BestOf] at h
    subst h
    exact ⟨[], [], by simp, by simp, by simp⟩
  | some b =>
    obtain ⟨pre, post, hs, hpre, hpost⟩ := h
    simp only [maxStep]
    by_cases hlt : o.lt b.ll s.ll = true
    · simp only [hlt, if_true]
      refine ⟨seen, [], by simp, ?_, by simp⟩
      intro x hx
      rw [hs] at hx
      rcases List.mem_append.1 hx with hx | hx
      · exact htr _ _ _ (hpre x hx) hlt
      · rcases List.mem_cons.1 hx with rfl | hx
        · exact hlt
        · rcases hnt _ x.ll _ hlt with h1 | h1
          · rw [hpost x hx] at h1; exact absurd h1 (by simp)
          · exact h1
    · have hf : o.lt b.ll s.ll = false := by simpa using hlt
      simp only [hf]
      refine ⟨pre, post ++ [s], by simp [hs], hpre, ?_⟩
      intro x hx
      rcases List.mem_append.1 hx with hx | hx
      · exact hpost x hx
      · simp at hx; subst hx; exact hf

theorem bestOf_foldl (o : SOps V)
    (htr : ∀ a b c, o.lt a b = true → o.lt b c = true → o.lt a c = true)
    (hnt : ∀ a b c, o.lt a c = true → o.lt a b = true ∨ o.lt b c = true) :
    ∀ (ss seen : List (Sample V)) (acc : Option (Sample V)), BestOf o seen acc →
      BestOf o (seen ++ ss) (ss.foldl (maxStep o) acc)
  | [], seen, acc, h => by simpa using h
  | s :: ss, seen, acc, h => by
    have := bestOf_foldl o htr hnt ss (seen ++ [s]) (maxStep o acc s) (bestOf_step o htr hnt seen acc s h)
    simpa using this

/-! ## the keyed round trip `vector → kwargs → vector` -/

variable {K : Type} [DecidableEq K]

theorem kwGet_zip_some : ∀ (keys : List K) (params : List V) (k : K) (v : V),
    kwGet (keys.zip params) k = some v → ∃ j : Nat, keys[j]? = some k ∧ params[j]? = some v
  | [], _, k, v, h => by simp [kwGet] at h
  | _ :: _, [], k, v, h => by simp [kwGet] at h
  | a :: keys, p :: params, k, v, h => by
    by_cases hak : a = k
    · subst hak
      simp [kwGet] at h
      exact ⟨0, by simp, by simp [h]⟩
    · have h' : kwGet (keys.zip params) k = some v := by
        simpa [kwGet, List.find?, hak] using h
      obtain ⟨j, h1, h2⟩ := kwGet_zip_some keys params k v h'
      exact ⟨j + 1, by simpa using h1, by simpa using h2⟩

theorem kwGet_zip_of_mem : ∀ (keys : List K) (params : List V) (k : K),
    keys.length = params.length → k ∈ keys → ∃ v, kwGet (keys.zip params) k = some v
  | [], _, k, _, h => by simp at h
  | _ :: _, [], k, h, _ => by simp at h
  | a :: keys, p :: params, k, hl, hm => by
    by_cases hak : a = k
    · subst hak
      exact ⟨p, by simp [kwGet]⟩
    · have hm' : k ∈ keys := by
        rcases List.mem_cons.1 hm with rfl | h
        · exact absurd rfl hak
        · exact h
      obtain ⟨v, hv⟩ := kwGet_zip_of_mem keys params k (by simpa using hl) hm'
      exact ⟨v, by simpa [kwGet, List.find?, hak] using hv⟩

/-- the keys address every parameter exactly once: key `i` is one of the places of group `i` and of no
other group -/
structure KeysOK (keys : List K) (groups : List (List K)) : Prop where
  len : keys.length = groups.length
  own : ∀ (i : Nat) (k : K) (g : List K), keys[i]? = some k → groups[i]? = some g → k ∈ g
  other : ∀ (i j : Nat) (k : K) (g : List K), keys[j]? = some k → groups[i]? = some g → k ∈ g → i = j

theorem firstFound_group (keys : List K) (params : List V) (hl : keys.length = params.length)
    (i : Nat) (ki : K) (p : V) (hki : keys[i]? = some ki) (hp : params[i]? = some p) :
    ∀ (g : List K), ki ∈ g → (∀ k ∈ g, ∀ j : Nat, keys[j]? = some k → j = i) →
      firstFound (keys.zip params) g = some p
  | [], hm, _ => by simp at hm
  | k :: g, hm, hu => by
    simp only [firstFound]
    cases hget : kwGet (keys.zip params) k with
    | some v =>
      obtain ⟨j, h1, h2⟩ := kwGet_zip_some keys params k v hget
      have : j = i := hu k (by simp) j h1
      subst this
      rw [hp] at h2
      simp at h2
      simp [h2]
    | none =>
      have hne : ki ≠ k := by
        intro h
        subst h
        obtain ⟨v, hv⟩ := kwGet_zip_of_mem keys params ki hl (List.mem_of_getElem? hki)
        rw [hv] at hget
        exact absurd hget (by simp)
      have hm' : ki ∈ g := by
        rcases List.mem_cons.1 hm with h | h
        · exact absurd h hne
        · exact h
      simp only []
      exact firstFound_group keys params hl i ki p hki hp g hm' (fun k hk j hj => hu k (by simp [hk]) j hj)

theorem paramsForPaths_of_forall (kw : List (K × V)) : ∀ (groups : List (List K)) (params : List V),
    groups.length = params.length →
    (∀ (i : Nat) (g : List K) (p : V), groups[i]? = some g → params[i]? = some p → firstFound kw g = some p) →
    paramsForPaths kw groups = some params
  | [], [], _, _ => by simp [paramsForPaths]
  | [], _ :: _, h, _ => by simp at h
  | _ :: _, [], h, _ => by simp at h
  | g :: groups, p :: params, hl, h => by
    have h0 := h 0 g p (by simp) (by simp)
    have ih := paramsForPaths_of_forall kw groups params (by simpa using hl)
      (fun i g' p' hg hp => h (i + 1) g' p' (by simpa using hg) (by simpa using hp))
    simp [paramsForPaths, h0, ih]

/-- **round trip**: the values stored under the keys come back as the same vector -/
theorem kwargs_roundtrip (keys : List K) (groups : List (List K)) (params : List V)
    (hk : KeysOK keys groups) (hl : params.length = keys.length) :
    paramsForPaths (kwargsOf keys params) groups = some params := by
  apply paramsForPaths_of_forall
  · rw [← hk.len, hl]
  · intro i g p hg hp
    have hi : i < keys.length := by
      have := (List.getElem?_eq_some_iff.1 hp).1
      omega
    have hki : keys[i]? = some keys[i] := List.getElem?_eq_getElem hi
    exact firstFound_group keys params hl.symm i keys[i] p hki hp g (hk.own i _ g hki hg)
      (fun k hkg j hj => (hk.other i j k g hj hg hkg).symm)

/-! ## lists -/

theorem length_le_flatten {α} : ∀ (l : List (List α)), (∀ x ∈ l, x ≠ []) → l.length ≤ l.flatten.length
  | [], _ => by simp
  | x :: l, h => by
    have hx : x ≠ [] := h x (by simp)
    have := length_le_flatten l (fun y hy => h y (by simp [hy]))
    have : 1 ≤ x.length := by
      cases x with
      | nil => exact absurd rfl hx
      | cons _ _ => simp
    simp only [List.flatten_cons, List.length_append, List.length_cons]
    omega

theorem fromLists_posts (o : SOps V) (hadd : ∀ a b, o.add (o.sub a b) b = a) :
    ∀ (first : List (List V)) (posts lps : List V), first.length = posts.length → posts.length ≤ lps.length →
      (fromLists first (subZip o posts lps) lps (ones o (subZip o posts lps).length)).map (·.post o) = posts ∧
      (fromLists first (subZip o posts lps) lps (ones o (subZip o posts lps).length)).map (·.params) = first
  | [], [], _, _, _ => by simp [fromLists]
  | [], _ :: _, _, h, _ => by simp at h
  | _ :: _, [], _, h, _ => by simp at h
  | _ :: _, _ :: _, [], _, h => by simp at h
  | f :: first, p :: posts, q :: lps, h1, h2 => by
    have ih := fromLists_posts o hadd first posts lps (by simpa using h1) (by simpa using h2)
    simp only [subZip] at ih
    simp only [subZip, List.zipWith_cons_cons, List.length_cons, ones, List.replicate_succ, fromLists,
      List.map_cons, Sample.post, hadd]
    simp only [ones, Sample.post] at ih
    exact ⟨by rw [ih.1], by rw [ih.2]⟩

theorem zip_map_self {α β} (F : α → β) : ∀ (l : List α), (l.map F).zip l = l.map (fun r => (F r, r))
  | [] => by simp
  | a :: l => by simp [zip_map_self F l]

theorem range_map_getElem?_join {α} (l : List (Option α)) :
    (List.range l.length).map (fun j => (l[j]?).join) = l := by
  apply List.ext_getElem
  · simp
  · intro i h1 h2
    simp at h1
    simp [List.getElem?_eq_getElem h1]


/-! ## the keys of a sample address every parameter exactly once (structural proof) -/

theorem mem_placesOf (w : List (Path × Nat)) (id : Nat) (p : Path) : p ∈ placesOf w id ↔ (p, id) ∈ w := by
  simp only [placesOf, List.mem_map, List.mem_filter, beq_iff_eq]
  constructor
  · rintro ⟨⟨q, i⟩, ⟨hm, hi⟩, hq⟩
    simp only at hi hq
    subst hi; subst hq
    exact hm
  · intro h
    exact ⟨(p, id), ⟨h, rfl⟩, rfl⟩

theorem lastPlace_of_mem (w : List (Path × Nat)) (id : Nat) (h : ∃ p, (p, id) ∈ w) :
    ∃ p, lastPlace w id = some p ∧ (p, id) ∈ w := by
  obtain ⟨q, hq⟩ := h
  have hs : (w.reverse.find? (fun x => x.2 == id)).isSome = true :=
    List.find?_isSome.2 ⟨(q, id), by simpa using hq, by simp⟩
  cases hf : w.reverse.find? (fun x => x.2 == id) with
  | none => simp [hf] at hs
  | some x =>
    have h1 := List.find?_some hf
    have h2 := List.mem_of_find?_eq_some hf
    simp only [beq_iff_eq] at h1
    refine ⟨x.1, by simp [lastPlace, hf], ?_⟩
    have : x = (x.1, id) := by rw [← h1]
    rw [← this]
    simpa using h2

theorem snd_unique_of_fst_nodup : ∀ (w : List (Path × Nat)), (w.map (·.1)).Nodup →
    ∀ (p : Path) (a b : Nat), (p, a) ∈ w → (p, b) ∈ w → a = b
  | [], _, _, _, _, h, _ => by simp at h
  | x :: w, hnd, p, a, b, ha, hb => by
    simp only [List.map_cons, List.nodup_cons, List.mem_map, not_exists, not_and] at hnd
    rcases List.mem_cons.1 ha with ha | ha <;> rcases List.mem_cons.1 hb with hb | hb
    · rw [← ha] at hb; simp at hb; exact hb.symm
    · exact absurd (by rw [← ha]) (hnd.1 (p, b) hb)
    · exact absurd (by rw [← hb]) (hnd.1 (p, a) ha)
    · exact snd_unique_of_fst_nodup w hnd.2 p a b ha hb

theorem filterMap_eq_map_getD {α β} (f : α → Option β) (d : β) : ∀ (l : List α),
    (∀ x ∈ l, ∃ y, f x = some y) → l.filterMap f = l.map (fun x => (f x).getD d)
  | [], _ => by simp
  | a :: l, h => by
    obtain ⟨y, hy⟩ := h a (by simp)
    rw [List.filterMap_cons_some hy, filterMap_eq_map_getD f d l (fun x hx => h x (by simp [hx]))]
    simp [hy]

/-- when every place of the composition is visited once (attribute names are dictionary keys), the
sample keys `unique_prior_paths` and the groups `all_paths` satisfy `KeysOK` -/
theorem keysOK_of_distinct_places {V : Type} (t : Node V) (hnd : ((walk t).map (·.1)).Nodup) :
    KeysOK (uniquePaths t) (allPaths t) := by
  have hperm : (pathPriors t).Perm (walk t) := perm_sortById _
  have hnd' : ((pathPriors t).map (·.1)).Nodup := (hperm.map (·.1)).nodup_iff.2 hnd
  have hids : (uniqueIds t).Nodup := nodup_of_sorted (sorted_sortDedup _)
  have hocc : ∀ id ∈ uniqueIds t, ∃ p, (p, id) ∈ pathPriors t := by
    intro id hid
    simp only [uniqueIds] at hid
    rw [mem_sortDedup] at hid
    obtain ⟨⟨p, i⟩, hm, rfl⟩ := List.mem_map.1 hid
    exact ⟨p, hperm.mem_iff.2 hm⟩
  have hkeys : uniquePaths t = (uniqueIds t).map (fun id => (lastPlace (pathPriors t) id).getD []) :=
    filterMap_eq_map_getD _ [] _ (fun id hid => by
      obtain ⟨p, hp, _⟩ := lastPlace_of_mem _ id (hocc id hid)
      exact ⟨p, hp⟩)
  have key_at : ∀ (i : Nat) (k : Path), (uniquePaths t)[i]? = some k →
      ∃ id, (uniqueIds t)[i]? = some id ∧ (k, id) ∈ pathPriors t := by
    intro i k hk
    rw [hkeys, List.getElem?_map] at hk
    cases hid : (uniqueIds t)[i]? with
    | none => simp [hid] at hk
    | some id =>
      simp only [hid, Option.map_some, Option.some.injEq] at hk
      obtain ⟨p, hp, hm⟩ := lastPlace_of_mem _ id (hocc id (List.mem_of_getElem? hid))
      rw [hp] at hk
      simp at hk
      subst hk
      exact ⟨id, rfl, hm⟩
  have group_at : ∀ (i : Nat) (g : List Path), (allPaths t)[i]? = some g →
      ∃ id, (uniqueIds t)[i]? = some id ∧ g = placesOf (pathPriors t) id := by
    intro i g hg
    simp only [allPaths, List.getElem?_map] at hg
    cases hid : (uniqueIds t)[i]? with
    | none => simp [hid] at hg
    | some id => simp [hid] at hg; exact ⟨id, rfl, hg.symm⟩
  refine ⟨by rw [hkeys]; simp [allPaths], ?_, ?_⟩
  · intro i k g hk hg
    obtain ⟨id, h1, hm⟩ := key_at i k hk
    obtain ⟨id', h2, rfl⟩ := group_at i g hg
    rw [h1] at h2
    simp at h2
    subst h2
    exact (mem_placesOf _ _ _).2 hm
  · intro i j k g hk hg hmem
    obtain ⟨idj, h1, hm⟩ := key_at j k hk
    obtain ⟨idi, h2, rfl⟩ := group_at i g hg
    have hm' := (mem_placesOf _ _ _).1 hmem
    have : idj = idi := snd_unique_of_fst_nodup _ hnd' k idj idi hm hm'
    subst this
    have hi : i < (uniqueIds t).length := (List.getElem?_eq_some_iff.1 h2).1
    exact (List.getElem?_inj hi hids).1 (by rw [h1, h2])

/-! ## the executable guard -/

/-- the executable guard implies the specification of the keys -/
theorem keysOK_spec {V : Type} (t : Node V) (h : keysOK t = true) : KeysOK (uniquePaths t) (allPaths t) := by
  simp only [keysOK, Bool.and_eq_true, beq_iff_eq, List.all_eq_true, List.mem_range] at h
  obtain ⟨hlen, hall⟩ := h
  refine ⟨hlen, ?_, ?_⟩
  · intro i k g hk hg
    have hi : i < (uniquePaths t).length := (List.getElem?_eq_some_iff.1 hk).1
    have := hall i hi i hi
    simp [hk, hg] at this
    exact this
  · intro i j k g hk hg hmem
    have hj : j < (uniquePaths t).length := (List.getElem?_eq_some_iff.1 hk).1
    have hi : i < (uniquePaths t).length := by
      have := (List.getElem?_eq_some_iff.1 hg).1
      omega
    have := hall i hi j hj
    simp only [hk, hg] at this
    by_cases hij : i = j
    · exact hij
    · simp [hij, hmem] at this

end AF.Samples
