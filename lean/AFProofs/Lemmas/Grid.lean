import AFModel.Grid

/-! Helper lemmas for the `Grid` model (property C16): mixed-radix arithmetic, the row-major order of
`lattice`, exact (`Rat`) tiling of one dimension, `lookup`/`mergeSort` facts for the result
collectors, and the integer root. -/

namespace AF.Grid

/-- pointwise relation between two lists of the same length (core Lean has no `List.Forall₂`);
characterised by `forall₂_iff_getElem` -/
inductive Forall₂ {α β} (R : α → β → Prop) : List α → List β → Prop
  | nil : Forall₂ R [] []
  | cons {a b l₁ l₂} : R a b → Forall₂ R l₁ l₂ → Forall₂ R (a :: l₁) (b :: l₂)

theorem Forall₂.length_eq {α β} {R : α → β → Prop} : ∀ {l₁ l₂}, Forall₂ R l₁ l₂ → l₁.length = l₂.length
  | _, _, .nil => rfl
  | _, _, .cons _ t => by simp [t.length_eq]

theorem Forall₂.getElem {α β} {R : α → β → Prop} : ∀ {l₁ l₂}, Forall₂ R l₁ l₂ →
    ∀ i (h1 : i < l₁.length) (h2 : i < l₂.length), R l₁[i] l₂[i]
  | _, _, .cons h _, 0, _, _ => h
  | _, _, .cons _ t, i + 1, h1, h2 => by
    simpa using t.getElem i (by simpa using h1) (by simpa using h2)

theorem forall₂_of_getElem {α β} {R : α → β → Prop} : ∀ (l₁ : List α) (l₂ : List β),
    l₁.length = l₂.length → (∀ i (h1 : i < l₁.length) (h2 : i < l₂.length), R l₁[i] l₂[i]) →
    Forall₂ R l₁ l₂
  | [], [], _, _ => .nil
  | [], _ :: _, h, _ => by simp at h
  | _ :: _, [], h, _ => by simp at h
  | a :: l₁, b :: l₂, hl, h =>
    .cons (h 0 (by simp) (by simp))
      (forall₂_of_getElem l₁ l₂ (by simpa using hl) fun i h1 h2 => by
        have := h (i + 1) (by simpa using h1) (by simpa using h2)
        simpa only [List.getElem_cons_succ] using this)

theorem forall₂_iff_getElem {α β} {R : α → β → Prop} (l₁ : List α) (l₂ : List β) :
    Forall₂ R l₁ l₂ ↔
      l₁.length = l₂.length ∧ ∀ i (h1 : i < l₁.length) (h2 : i < l₂.length), R l₁[i] l₂[i] :=
  ⟨fun h => ⟨h.length_eq, h.getElem⟩, fun h => forall₂_of_getElem l₁ l₂ h.1 h.2⟩

/-! ## counting -/

theorem sum_map_const_nat {α} (c : Nat) : ∀ l : List α, (l.map fun _ => c).sum = l.length * c
  | [] => by simp
  | _ :: l => by
    simp only [List.map_cons, List.sum_cons, List.length_cons, sum_map_const_nat c l]
    rw [Nat.succ_mul, Nat.add_comm]

theorem lattice_length : ∀ ns, (lattice ns).length = prod ns
  | [] => rfl
  | n :: ns => by
    have h : ∀ k : Nat, ((lattice ns).map (k :: ·)).length = prod ns := by
      intro k; rw [List.length_map, lattice_length ns]
    simp only [lattice, prod, List.length_flatMap, h, sum_map_const_nat, List.length_range]

theorem prod_replicate (n : Nat) : ∀ d, prod (List.replicate d n) = n ^ d
  | 0 => rfl
  | d + 1 => by
    simp only [List.replicate_succ, prod, prod_replicate n d, Nat.pow_succ, Nat.mul_comm]

/-! ## mixed radix: `digits` and `index` are inverse bijections -/

theorem digits_length : ∀ ns k, (digits ns k).length = ns.length
  | [], _ => rfl
  | _ :: ns, k => by simp [digits, digits_length ns]

theorem digits_lt : ∀ ns k, k < prod ns → Forall₂ (· < ·) (digits ns k) ns
  | [], _, _ => .nil
  | n :: ns, k, h => by
    simp only [prod] at h
    have hP : 0 < prod ns := by
      rcases Nat.eq_zero_or_pos (prod ns) with h0 | h0
      · rw [h0] at h; simp at h
      · exact h0
    refine .cons ?_ (digits_lt ns _ (Nat.mod_lt _ hP))
    exact (Nat.div_lt_iff_lt_mul hP).mpr h

theorem index_digits : ∀ ns k, k < prod ns → index ns (digits ns k) = k
  | [], k, h => by
    simp only [prod] at h
    simp only [index]; omega
  | n :: ns, k, h => by
    simp only [prod] at h
    have hP : 0 < prod ns := by
      rcases Nat.eq_zero_or_pos (prod ns) with h0 | h0
      · rw [h0] at h; simp at h
      · exact h0
    simp only [digits, index, index_digits ns _ (Nat.mod_lt _ hP)]
    rw [Nat.mul_comm]
    exact Nat.div_add_mod k (prod ns)

theorem index_lt : ∀ ns idx, Forall₂ (· < ·) idx ns → index ns idx < prod ns
  | _, _, .nil => by simp [index, prod]
  | _, _, .cons (a := i) (b := n) (l₁ := idx) (l₂ := ns) h t => by
    have ih := index_lt ns idx t
    simp only [index, prod]
    calc i * prod ns + index ns idx < i * prod ns + prod ns := by omega
      _ = (i + 1) * prod ns := by rw [Nat.succ_mul]
      _ ≤ n * prod ns := Nat.mul_le_mul_right _ h

theorem digits_index : ∀ ns idx, Forall₂ (· < ·) idx ns → digits ns (index ns idx) = idx
  | _, _, .nil => rfl
  | _, _, .cons (a := i) (b := n) (l₁ := idx) (l₂ := ns) _ t => by
    have ih := digits_index ns idx t
    have hlt := index_lt ns idx t
    have hP : 0 < prod ns := by omega
    simp only [index, digits]
    have h1 : (i * prod ns + index ns idx) / prod ns = i := by
      rw [Nat.mul_comm, Nat.mul_add_div hP, Nat.div_eq_of_lt hlt]; rfl
    have h2 : (i * prod ns + index ns idx) % prod ns = index ns idx := by
      rw [Nat.mul_comm, Nat.mul_add_mod, Nat.mod_eq_of_lt hlt]
    rw [h1, h2, ih]

/-! ## `flatMap` with blocks of equal length is indexed block by block -/

theorem getElem?_flatMap_block {α β} (f : α → List β) (P : Nat) :
    ∀ (l : List α), (∀ a ∈ l, (f a).length = P) → ∀ (i j : Nat), j < P →
      (l.flatMap f)[i * P + j]? = (l[i]?).bind fun a => (f a)[j]?
  | [], _, i, j, _ => by simp
  | a :: l, hl, 0, j, hj => by
    have ha : (f a).length = P := hl a (by simp)
    simp only [List.flatMap_cons, Nat.zero_mul, Nat.zero_add]
    rw [List.getElem?_append_left (by omega)]
    simp
  | a :: l, hl, i + 1, j, hj => by
    have ha : (f a).length = P := hl a (by simp)
    have ih := getElem?_flatMap_block f P l (fun b hb => hl b (by simp [hb])) i j hj
    simp only [List.flatMap_cons]
    have hge : (f a).length ≤ (i + 1) * P + j := by
      rw [ha, Nat.succ_mul]; omega
    rw [List.getElem?_append_right hge]
    have : (i + 1) * P + j - (f a).length = i * P + j := by
      rw [ha, Nat.succ_mul]; omega
    rw [this, ih]
    simp

/-- the `k`-th index tuple of the lattice is the mixed-radix expansion of `k` (row-major / C order) -/
theorem lattice_row_major : ∀ ns k, k < prod ns → (lattice ns)[k]? = some (digits ns k)
  | [], k, h => by
    simp only [prod] at h
    have : k = 0 := by omega
    subst this; rfl
  | n :: ns, k, h => by
    simp only [prod] at h
    have hP : 0 < prod ns := by
      rcases Nat.eq_zero_or_pos (prod ns) with h0 | h0
      · rw [h0] at h; simp at h
      · exact h0
    have hq : k / prod ns < n := (Nat.div_lt_iff_lt_mul hP).mpr h
    have hr : k % prod ns < prod ns := Nat.mod_lt _ hP
    have hk : k = (k / prod ns) * prod ns + k % prod ns := by
      rw [Nat.mul_comm]; exact (Nat.div_add_mod k (prod ns)).symm
    have hb := getElem?_flatMap_block (fun a => (lattice ns).map (a :: ·)) (prod ns) (List.range n)
      (fun a _ => by rw [List.length_map, lattice_length]) (k / prod ns) (k % prod ns) hr
    simp only [lattice, digits]
    rw [← hk] at hb
    rw [hb, List.getElem?_range hq]
    simp only [Option.bind_some, List.getElem?_map, lattice_row_major ns _ hr, Option.map_some]

theorem mem_lattice : ∀ ns idx, idx ∈ lattice ns ↔ Forall₂ (· < ·) idx ns
  | [], idx => by
    simp only [lattice, List.mem_singleton]
    constructor
    · rintro rfl; exact .nil
    · intro h; cases h; rfl
  | n :: ns, idx => by
    simp only [lattice, List.mem_flatMap, List.mem_range, List.mem_map]
    constructor
    · rintro ⟨k, hk, t, ht, rfl⟩
      exact .cons hk ((mem_lattice ns t).mp ht)
    · intro h
      cases h with
      | cons hk ht => exact ⟨_, hk, _, (mem_lattice ns _).mpr ht, rfl⟩

theorem native_entry (ns idx : List Nat) (h : Forall₂ (· < ·) idx ns) :
    (lattice ns)[index ns idx]? = some idx := by
  rw [lattice_row_major ns _ (index_lt ns idx h), digits_index ns idx h]

theorem lattice_nodup (ns : List Nat) : (lattice ns).Nodup := by
  rw [List.Nodup, List.pairwise_iff_getElem]
  intro i j hi hj hij heq
  rw [lattice_length] at hi hj
  have h1 := lattice_row_major ns i hi
  have h2 := lattice_row_major ns j hj
  rw [List.getElem?_eq_getElem (by rw [lattice_length]; exact hi)] at h1
  rw [List.getElem?_eq_getElem (by rw [lattice_length]; exact hj)] at h2
  simp only [Option.some.injEq] at h1 h2
  have : index ns (digits ns i) = index ns (digits ns j) := by rw [← h1, ← h2, heq]
  rw [index_digits ns i hi, index_digits ns j hj] at this
  omega

/-! ## cells -/

theorem map_lattice_length {V α} (dims : List (Dim V)) (g : List Nat → α) :
    ((lattice (counts dims)).map g).length = prod (counts dims) := by
  rw [List.length_map, lattice_length]

theorem map_lattice_row_major {V α} (dims : List (Dim V)) (g : List Nat → α) (k : Nat)
    (hk : k < prod (counts dims)) :
    ((lattice (counts dims)).map g)[k]? = some (g (digits (counts dims) k)) := by
  rw [List.getElem?_map, lattice_row_major _ _ hk]; rfl

theorem counts_gridDims {V} (N : Num V) (cfg : Cfg) (n : Nat) (ranges : List (V × V)) :
    counts (gridDims N cfg n ranges) = List.replicate ranges.length (countOf cfg n) := by
  simp only [counts, gridDims, List.map_map]
  induction ranges with
  | nil => rfl
  | cons r rs ih => simp only [List.map_cons, List.length_cons, List.replicate_succ, ih]; rfl

theorem counts_sensDims {V} (N : Num V) (cfg : Cfg) (dims : List ((V × V) × Nat)) :
    counts (sensDims N cfg dims) = dims.map fun r => countOf cfg r.2 := by
  simp only [counts, sensDims, List.map_map]; rfl

theorem sensShape_sensDims {V} (N : Num V) (cfg : Cfg) (dims : List ((V × V) × Nat)) :
    sensShape (sensDims N cfg dims) = dims.map (·.2) := by
  simp only [sensShape, sensDims, List.map_map]; rfl

/-! ## exact tiling of one dimension -/

/-- the `m`-th of the `n + 1` equally spaced points of `[lo, hi]` -/
def gridPt (lo hi : Rat) (n m : Nat) : Rat := lo + ((1 / (n : Rat)) * (m : Rat)) * (hi - lo)

theorem cell_fst (cfg : Cfg) (lo hi : Rat) (n k : Nat) :
    (gridCellDim ratNum (mkDim ratNum cfg lo hi n) k).1 = gridPt lo hi n k := by
  simp [gridCellDim, unitValue, mkDim, ratNum, gridPt]

theorem cell_snd (cfg : Cfg) (lo hi : Rat) (n k : Nat) :
    (gridCellDim ratNum (mkDim ratNum cfg lo hi n) k).2 = gridPt lo hi n (k + 1) := by
  simp [gridCellDim, unitValue, mkDim, ratNum, gridPt]
  grind

theorem gridPt_zero (lo hi : Rat) (n : Nat) : gridPt lo hi n 0 = lo := by
  simp only [gridPt]; grind

theorem gridPt_last (lo hi : Rat) (n : Nat) (hn : 0 < n) : gridPt lo hi n n = hi := by
  have : (0 : Rat) < (n : Rat) := Rat.natCast_pos.mpr hn
  simp only [gridPt]
  grind

theorem inv_nat_nonneg (n : Nat) : (0 : Rat) ≤ 1 / (n : Rat) := by
  rcases Nat.eq_zero_or_pos n with h | h
  · subst h; simp [Rat.div_def]
  · have : (0 : Rat) < (n : Rat) := Rat.natCast_pos.mpr h
    have := Rat.inv_pos.mpr this
    grind

theorem inv_nat_pos (n : Nat) (h : 0 < n) : (0 : Rat) < 1 / (n : Rat) := by
  have : (0 : Rat) < (n : Rat) := Rat.natCast_pos.mpr h
  have := Rat.inv_pos.mpr this
  grind

theorem gridPt_mono (lo hi : Rat) (n : Nat) (hle : lo ≤ hi) {m m' : Nat} (hm : m ≤ m') :
    gridPt lo hi n m ≤ gridPt lo hi n m' := by
  have h1 : (m : Rat) ≤ (m' : Rat) := Rat.natCast_le_natCast.mpr hm
  have h2 := Rat.mul_le_mul_of_nonneg_left h1 (inv_nat_nonneg n)
  have h3 : (0 : Rat) ≤ hi - lo := by grind
  have h4 := Rat.mul_le_mul_of_nonneg_right h2 h3
  simp only [gridPt]
  grind

theorem gridPt_strict (lo hi : Rat) (n : Nat) (hn : 0 < n) (hlt : lo < hi) (m : Nat) :
    gridPt lo hi n m < gridPt lo hi n (m + 1) := by
  have h3 : (0 : Rat) < hi - lo := by grind
  have h4 := Rat.mul_pos (inv_nat_pos n hn) h3
  simp only [gridPt]
  grind

/-- a point between the ends of a chain lies in one of its links -/
theorem chain_cover (f : Nat → Rat) (x : Rat) : ∀ n, 0 < n → f 0 ≤ x → x ≤ f n →
    ∃ k, k < n ∧ f k ≤ x ∧ x ≤ f (k + 1)
  | 0, h, _, _ => by omega
  | 1, _, h0, h1 => ⟨0, by omega, h0, h1⟩
  | n + 2, _, h0, h1 => by
    rcases (Rat.le_total : x ≤ f (n + 1) ∨ f (n + 1) ≤ x) with h | h
    · obtain ⟨k, hk, hk1, hk2⟩ := chain_cover f x (n + 1) (by omega) h0 h
      exact ⟨k, by omega, hk1, hk2⟩
    · exact ⟨n + 1, by omega, h, h1⟩

/-! ## d-dimensional tiling -/

theorem Forall₂.imp_mem {α β} {R S : α → β → Prop} : ∀ {l₁ l₂}, Forall₂ R l₁ l₂ →
    (∀ a ∈ l₁, ∀ b, R a b → S a b) → Forall₂ S l₁ l₂
  | _, _, .nil, _ => .nil
  | _, _, .cons h t, H =>
    .cons (H _ (by simp) _ h) (t.imp_mem fun a ha b hab => H a (by simp [ha]) b hab)

theorem forall₂_map_left {α β γ} {R : β → γ → Prop} (f : α → β) : ∀ (l : List α) (l' : List γ),
    Forall₂ R (l.map f) l' ↔ Forall₂ (fun a c => R (f a) c) l l'
  | [], l' => by
    constructor
    · intro h; cases h; exact .nil
    · intro h; cases h; exact .nil
  | a :: l, l' => by
    constructor
    · intro h
      cases h with
      | cons h t => exact .cons h ((forall₂_map_left f l _).mp t)
    · intro h
      cases h with
      | cons h t => exact .cons h ((forall₂_map_left f l _).mpr t)

theorem cover_one (cfg : Cfg) (h : cfg.integerSteps = true) (lo hi : Rat) (n : Nat) (hn : 0 < n)
    (x : Rat) (hx : lo ≤ x ∧ x ≤ hi) :
    ∃ k, k < (mkDim ratNum cfg lo hi n).count ∧
      (gridCellDim ratNum (mkDim ratNum cfg lo hi n) k).1 ≤ x ∧
      x ≤ (gridCellDim ratNum (mkDim ratNum cfg lo hi n) k).2 := by
  have h0 : gridPt lo hi n 0 ≤ x := by rw [gridPt_zero]; exact hx.1
  have h1 : x ≤ gridPt lo hi n n := by rw [gridPt_last lo hi n hn]; exact hx.2
  obtain ⟨k, hk, hk1, hk2⟩ := chain_cover (gridPt lo hi n) x n hn h0 h1
  refine ⟨k, ?_, ?_, ?_⟩
  · simpa [mkDim, countOf, h] using hk
  · rw [cell_fst]; exact hk1
  · rw [cell_snd]; exact hk2

theorem cover_idx (dims : List (Dim Rat)) (x : List Rat)
    (h : Forall₂ (fun d xi => ∃ k, k < d.count ∧ (gridCellDim ratNum d k).1 ≤ xi ∧
      xi ≤ (gridCellDim ratNum d k).2) dims x) :
    ∃ idx, Forall₂ (· < ·) idx (counts dims) ∧
      Forall₂ (fun c xi => c.1 ≤ xi ∧ xi ≤ c.2) (cellAt (gridCellDim ratNum) dims idx) x := by
  induction h with
  | nil => exact ⟨[], .nil, .nil⟩
  | cons h _ ih =>
    obtain ⟨k, hk, hk1, hk2⟩ := h
    obtain ⟨idx, hi1, hi2⟩ := ih
    exact ⟨k :: idx, .cons hk hi1, .cons ⟨hk1, hk2⟩ hi2⟩

theorem cover_cells (cfg : Cfg) (h : cfg.integerSteps = true) (dims : List (Dim Rat))
    (hd : ∀ d ∈ dims, ∃ lo hi n, 0 < n ∧ d = mkDim ratNum cfg lo hi n) (x : List Rat)
    (hx : Forall₂ (fun d xi => d.lo ≤ xi ∧ xi ≤ d.hi) dims x) :
    ∃ cell ∈ gridCells ratNum dims, Forall₂ (fun c xi => c.1 ≤ xi ∧ xi ≤ c.2) cell x := by
  have h1 := hx.imp_mem (S := fun d xi => ∃ k, k < d.count ∧ (gridCellDim ratNum d k).1 ≤ xi ∧
      xi ≤ (gridCellDim ratNum d k).2) (by
    intro d hdm xi hxi
    obtain ⟨lo, hi, n, hn, rfl⟩ := hd d hdm
    exact cover_one cfg h lo hi n hn xi hxi)
  obtain ⟨idx, hi1, hi2⟩ := cover_idx dims x h1
  exact ⟨_, List.mem_map.mpr ⟨idx, (mem_lattice _ _).mpr hi1, rfl⟩, hi2⟩

theorem exists_getElem_ne {α} (a b : List α) (hl : a.length = b.length) (hne : a ≠ b) :
    ∃ i, ∃ (h1 : i < a.length) (h2 : i < b.length), a[i] ≠ b[i] := by
  apply Classical.byContradiction
  intro hc
  apply hne
  apply List.ext_getElem hl
  intro i h1 h2
  apply Classical.byContradiction
  intro h
  exact hc ⟨i, h1, h2, h⟩

/-- two cells whose index tuples differ are separated in the coordinate where they differ -/
theorem cells_separated (cfg : Cfg) (dims : List (Dim Rat))
    (hd : ∀ d ∈ dims, ∃ lo hi n, lo ≤ hi ∧ d = mkDim ratNum cfg lo hi n) (a b : List Nat)
    (ha : a.length = dims.length) (hb : b.length = dims.length) (hne : a ≠ b) :
    ∃ i, ∃ (h1 : i < (cellAt (gridCellDim ratNum) dims a).length)
      (h2 : i < (cellAt (gridCellDim ratNum) dims b).length),
      ((cellAt (gridCellDim ratNum) dims a)[i]).2 ≤ ((cellAt (gridCellDim ratNum) dims b)[i]).1 ∨
      ((cellAt (gridCellDim ratNum) dims b)[i]).2 ≤ ((cellAt (gridCellDim ratNum) dims a)[i]).1 := by
  obtain ⟨i, h1, h2, hi⟩ := exists_getElem_ne a b (by omega) hne
  have hdi : i < dims.length := by omega
  refine ⟨i, by simp [cellAt]; omega, by simp [cellAt]; omega, ?_⟩
  simp only [cellAt, List.getElem_zipWith]
  obtain ⟨lo, hi', n, hle, he⟩ := hd dims[i] (List.getElem_mem hdi)
  rw [he]
  simp only [cell_fst, cell_snd]
  rcases Nat.lt_or_gt_of_ne hi with hlt | hgt
  · left; exact gridPt_mono lo hi' n hle hlt
  · right; exact gridPt_mono lo hi' n hle hgt

theorem cells_pairwise_disjoint (cfg : Cfg) (dims : List (Dim Rat))
    (hd : ∀ d ∈ dims, ∃ lo hi n, lo ≤ hi ∧ d = mkDim ratNum cfg lo hi n) :
    (gridCells ratNum dims).Pairwise fun a b =>
      ∃ i, ∃ (ha : i < a.length) (hb : i < b.length), a[i].2 ≤ b[i].1 ∨ b[i].2 ≤ a[i].1 := by
  simp only [gridCells, List.pairwise_map]
  refine List.Pairwise.imp_of_mem ?_ (lattice_nodup (counts dims))
  intro a b ha hb hne
  have la := ((mem_lattice _ _).mp ha).length_eq
  have lb := ((mem_lattice _ _).mp hb).length_eq
  simp only [counts, List.length_map] at la lb
  exact cells_separated cfg dims hd a b la lb hne



/-! ## collectors -/

theorem lookup_of_mem_nodup {β} : ∀ (l : List (Nat × β)) (k : Nat) (v : β),
    (l.map (·.1)).Nodup → (k, v) ∈ l → l.lookup k = some v
  | [], _, _, _, h => by simp at h
  | (k', v') :: l, k, v, hnd, hm => by
    simp only [List.map_cons, List.nodup_cons] at hnd
    simp only [List.mem_cons, Prod.mk.injEq] at hm
    rw [List.lookup_cons]
    rcases hm with ⟨rfl, rfl⟩ | hm
    · simp
    · have hne : k ≠ k' := by
        rintro rfl
        exact hnd.1 (List.mem_map.mpr ⟨(k, v), hm, rfl⟩)
      have : (k == k') = false := by simpa using hne
      rw [this]
      exact lookup_of_mem_nodup l k v hnd.2 hm

theorem lookup_reverse_of_nodup {β} (l : List (Nat × β)) (k : Nat) (hnd : (l.map (·.1)).Nodup) :
    l.reverse.lookup k = l.lookup k := by
  have hndr : (l.reverse.map (·.1)).Nodup := by
    rw [List.map_reverse, List.Nodup, List.pairwise_reverse]
    exact hnd.imp fun h => Ne.symm h
  cases hl : l.lookup k with
  | none =>
    rw [List.lookup_eq_none_iff] at hl ⊢
    intro p hp; exact hl p (List.mem_reverse.mp hp)
  | some v =>
    obtain ⟨l₁, l₂, rfl, _⟩ := List.lookup_eq_some_iff.mp hl
    exact lookup_of_mem_nodup _ k v hndr (by simp)

theorem lookup_none_of_not_mem {β} (l : List (Nat × β)) (k : Nat) (h : k ∉ l.map (·.1)) :
    l.lookup k = none := by
  rw [List.lookup_eq_none_iff]
  intro p hp
  have : k ≠ p.1 := by
    rintro rfl; exact h (List.mem_map.mpr ⟨p, hp, rfl⟩)
  simpa using this

theorem sampleSummaries_getElem? {R} (total : Nat) (arrivals : List (Nat × R)) (k : Nat)
    (hk : k < total) :
    (sampleSummaries total arrivals)[k]? = some (arrivals.reverse.lookup k) := by
  simp [sampleSummaries, List.getElem?_map, List.getElem?_range hk]

theorem canonical_keys {R} (total : Nat) (res : Nat → R) :
    ((List.range total).map fun k => (k, res k)).map (·.1) = List.range total := by
  simp [List.map_map, Function.comp_def]

/-! ## sorting arrivals -/

theorem numLe_trans {R} (a b c : Nat × R) : numLe a b = true → numLe b c = true → numLe a c = true := by
  simp only [numLe, decide_eq_true_eq]; omega

theorem numLe_total {R} (a b : Nat × R) : (numLe a b || numLe b a) = true := by
  simp only [numLe, Bool.or_eq_true, decide_eq_true_eq]; omega

theorem collect_perm {R} : ∀ (l acc : List (Nat × R)),
    (l.foldl (fun acc r => (acc ++ [r]).mergeSort numLe) acc).Perm (acc ++ l)
  | [], acc => by simp
  | r :: l, acc => by
    simp only [List.foldl_cons]
    refine (collect_perm l _).trans ?_
    have := (List.mergeSort_perm (acc ++ [r]) numLe).append_right l
    simpa using this

theorem collectSorted_perm {R} (l : List (Nat × R)) : (collectSorted l).Perm l := by
  simpa [collectSorted] using collect_perm l []

theorem collectSorted_sorted {R} (l : List (Nat × R)) :
    (collectSorted l).Pairwise (fun a b => numLe a b = true) := by
  rcases List.eq_nil_or_concat l with rfl | ⟨init, r, rfl⟩
  · simp [collectSorted]
  · simp only [collectSorted, List.concat_eq_append, List.foldl_append, List.foldl_cons, List.foldl_nil]
    exact List.pairwise_mergeSort numLe_trans numLe_total _

theorem canonical_sorted {R} (total : Nat) (res : Nat → R) :
    ((List.range total).map fun k => (k, res k)).Pairwise (fun a b => numLe a b = true) := by
  rw [List.pairwise_map]
  refine List.Pairwise.imp ?_ List.pairwise_lt_range
  intro a b h
  simp only [numLe, decide_eq_true_eq]; omega



/-! ## integer root -/

theorem irootGo_pow (n d : Nat) (hd : 0 < d) : ∀ fuel s, s ≤ n → n ≤ s + fuel →
    irootGo (n ^ d) d fuel s = n
  | 0, s, h1, h2 => by simp only [irootGo]; omega
  | fuel + 1, s, h1, h2 => by
    simp only [irootGo]
    split
    · rename_i hle
      have : s + 1 ≤ n := by
        apply Classical.byContradiction
        intro hc
        have : n < s + 1 := by omega
        have := Nat.pow_lt_pow_left this (Nat.pos_iff_ne_zero.mp hd)
        omega
      exact irootGo_pow n d hd fuel (s + 1) this (by omega)
    · rename_i hgt
      have : ¬ s + 1 ≤ n := fun hc => hgt (Nat.pow_le_pow_left hc d)
      omega

theorem iroot_pow (n d : Nat) (hd : 0 < d) : iroot (n ^ d) d = n :=
  irootGo_pow n d hd _ 0 (Nat.zero_le _) (by
    rw [Nat.zero_add]; exact Nat.le_self_pow (Nat.pos_iff_ne_zero.mp hd) n)

/-- the integer root for every argument: `iroot t d` is the greatest `s` with `s ^ d ≤ t` -/
theorem irootGo_spec (t d : Nat) : ∀ fuel s, s ^ d ≤ t → t < (s + fuel + 1) ^ d →
    irootGo t d fuel s ^ d ≤ t ∧ t < (irootGo t d fuel s + 1) ^ d
  | 0, s, h1, h2 => by simpa [irootGo] using ⟨h1, h2⟩
  | fuel + 1, s, h1, h2 => by
    simp only [irootGo]
    split
    · rename_i hle
      exact irootGo_spec t d fuel (s + 1) hle (by
        have : s + 1 + fuel + 1 = s + (fuel + 1) + 1 := by omega
        rw [this]; exact h2)
    · rename_i hgt
      exact ⟨h1, by omega⟩

theorem iroot_spec (t d : Nat) (hd : 0 < d) : iroot t d ^ d ≤ t ∧ t < (iroot t d + 1) ^ d := by
  refine irootGo_spec t d t 0 ?_ ?_
  · rw [Nat.zero_pow hd]; exact Nat.zero_le _
  · rw [Nat.zero_add]
    exact Nat.lt_of_lt_of_le (Nat.lt_succ_self t) (Nat.le_self_pow (Nat.pos_iff_ne_zero.mp hd) (t + 1))

theorem sideRound_pow (n d : Nat) (hd : 0 < d) : sideRound (n ^ d) d = n := by
  have : 2 ^ d * n ^ d = (2 * n) ^ d := (Nat.mul_pow 2 n d).symm
  simp only [sideRound, this, iroot_pow (2 * n) d hd]
  omega

/-- `sideRound total d` is the integer nearest to the real `d`-th root of `total`:
`s - 1/2 ≤ total^(1/d) < s + 1/2`, stated on integers -/
theorem sideRound_nearest (total d : Nat) (hd : 0 < d) :
    (2 * sideRound total d - 1) ^ d ≤ 2 ^ d * total ∧ 2 ^ d * total < (2 * sideRound total d + 1) ^ d := by
  obtain ⟨h1, h2⟩ := iroot_spec (2 ^ d * total) d hd
  simp only [sideRound]
  generalize iroot (2 ^ d * total) d = r at h1 h2
  rcases Nat.mod_two_eq_zero_or_one r with hm | hm
  · generalize hmm : r / 2 = m
    have e : (r + 1) / 2 = m := by omega
    rw [e]
    constructor
    · exact Nat.le_trans (Nat.pow_le_pow_left (by omega) d) h1
    · have : r + 1 = 2 * m + 1 := by omega
      rwa [this] at h2
  · generalize hmm : r / 2 = m
    have e : (r + 1) / 2 = m + 1 := by omega
    rw [e]
    constructor
    · have : 2 * (m + 1) - 1 = r := by omega
      rw [this]; exact h1
    · exact Nat.lt_of_lt_of_le h2 (Nat.pow_le_pow_left (by omega) d)

/-! ## places -/

theorem placeOf_not_mem (gridIds : List Nat) (id : Nat) (h : id ∉ gridIds) :
    placeOf gridIds id = .keep id := by
  have : gridIds.idxOf? id = none := by simpa using h
  simp [placeOf, this]

theorem idxOf?_of_nodup : ∀ (l : List Nat) (i id : Nat), l.Nodup → l[i]? = some id →
    l.idxOf? id = some i
  | [], _, _, _, h => by simp at h
  | a :: l, 0, id, _, h => by
    simp only [List.getElem?_cons_zero, Option.some.injEq] at h
    subst h
    simp [List.idxOf?_cons]
  | a :: l, i + 1, id, hnd, h => by
    simp only [List.getElem?_cons_succ] at h
    simp only [List.nodup_cons] at hnd
    have hne : a ≠ id := by
      rintro rfl
      exact hnd.1 (List.mem_of_getElem? h)
    have ih := idxOf?_of_nodup l i id hnd.2 h
    simp [List.idxOf?_cons, hne, ih]

theorem placeOf_mem (gridIds : List Nat) (i id : Nat) (hnd : gridIds.Nodup)
    (hi : gridIds[i]? = some id) : placeOf gridIds id = .dim i := by
  simp [placeOf, idxOf?_of_nodup gridIds i id hnd hi]

/-! ## reported limits -/

theorem zipWith_fuse {α β γ δ} (f : α → β → γ) (g : α → γ → δ) : ∀ (as : List α) (bs : List β),
    List.zipWith g as (List.zipWith f as bs) = List.zipWith (fun a b => g a (f a b)) as bs
  | [], _ => by simp
  | _ :: _, [] => by simp
  | a :: as, b :: bs => by simp [zipWith_fuse f g as bs]



/-! ## unit-interval facts (exact layer) -/

theorem unit_lower_nonneg (n k : Nat) : (0 : Rat) ≤ 1 / (n : Rat) * (k : Rat) :=
  Rat.mul_nonneg (inv_nat_nonneg n) Rat.natCast_nonneg

theorem unit_upper_le_one (n k : Nat) (hk : k < n) :
    1 / (n : Rat) * (k : Rat) + 1 / (n : Rat) ≤ 1 := by
  have h1 : ((k + 1 : Nat) : Rat) ≤ (n : Rat) := Rat.natCast_le_natCast.mpr hk
  have h2 := Rat.mul_le_mul_of_nonneg_left h1 (inv_nat_nonneg n)
  have h3 : (0 : Rat) < (n : Rat) := Rat.natCast_pos.mpr (by omega)
  grind

theorem upperUnit_exact (cfg cfg' : Cfg) (lo hi : Rat) (n k : Nat) (hk : k < n) :
    upperUnit ratNum cfg' n (unitValue ratNum false (mkDim ratNum cfg lo hi n) k)
      = unitValue ratNum false (mkDim ratNum cfg lo hi n) k + (mkDim ratNum cfg lo hi n).step := by
  have := unit_upper_le_one n k hk
  simp only [upperUnit, unitValue, mkDim, ratNum, Bool.false_eq_true, if_false] 
  split
  · split
    · rfl
    · rename_i h; simp at h; grind
  · rfl

theorem sens_lower_upper (cfg : Cfg) (lo hi : Rat) (n k : Nat) (hk : k < n) :
    ((sensCellDim ratNum 1 (mkDim ratNum cfg lo hi n) k).lower,
     (sensCellDim ratNum 1 (mkDim ratNum cfg lo hi n) k).upper)
      = gridCellDim ratNum (mkDim ratNum cfg lo hi n) k := by
  have h1 := unit_upper_le_one n k hk
  have h0 := unit_lower_nonneg n k
  simp only [sensCellDim, gridCellDim, physical, unitValue, mkDim, ratNum, Bool.false_eq_true, if_false, if_true, decide_eq_true_eq, Rat.natCast_ofNat]
  have e1 : 1 / (n : Rat) * (k : Rat) + 1 / 2 * (1 / (n : Rat)) - 1 * (1 / (n : Rat)) / 2
      = 1 / (n : Rat) * (k : Rat) := by grind
  have e2 : 1 / (n : Rat) * (k : Rat) + 1 / 2 * (1 / (n : Rat)) + 1 * (1 / (n : Rat)) / 2
      = 1 / (n : Rat) * (k : Rat) + 1 / (n : Rat) := by grind
  rw [e1, e2]
  have f1 : (if 1 / (n : Rat) * (k : Rat) ≤ 0 then 0 else 1 / (n : Rat) * (k : Rat))
      = 1 / (n : Rat) * (k : Rat) := by split <;> grind
  have f2 : (if 1 ≤ 1 / (n : Rat) * (k : Rat) + 1 / (n : Rat) then 1
      else 1 / (n : Rat) * (k : Rat) + 1 / (n : Rat)) = 1 / (n : Rat) * (k : Rat) + 1 / (n : Rat) := by
    split <;> grind
  rw [f1, f2]

theorem sens_centre_mid (cfg : Cfg) (lo hi : Rat) (n k : Nat) (hk : k < n) :
    (sensCellDim ratNum 1 (mkDim ratNum cfg lo hi n) k).centre
      = ((sensCellDim ratNum 1 (mkDim ratNum cfg lo hi n) k).lower +
         (sensCellDim ratNum 1 (mkDim ratNum cfg lo hi n) k).upper) / 2 := by
  have h := sens_lower_upper cfg lo hi n k hk
  simp only [Prod.ext_iff] at h
  rw [h.1, h.2]
  simp only [sensCellDim, gridCellDim, physical, unitValue, mkDim, ratNum, if_true]
  grind

/-! ## further collector and transfer lemmas -/

theorem lookup_reverse_last_write {β} (pre post : List (Nat × β)) (k : Nat) (v : β)
    (h : k ∉ post.map (·.1)) : (pre ++ (k, v) :: post).reverse.lookup k = some v := by
  have hp : post.reverse.lookup k = none :=
    lookup_none_of_not_mem _ k (by simpa [List.map_reverse] using h)
  simp [List.lookup_append, hp]

/-- with scale 1 the perturbation cell of sensitivity mapping is the grid-search cell -/
theorem sens_cellAt_eq (cfg : Cfg) (h : cfg.integerSteps = true) : ∀ (dims : List (Dim Rat)) (idx : List Nat),
    (∀ d ∈ dims, ∃ lo hi n, d = mkDim ratNum cfg lo hi n) → Forall₂ (· < ·) idx (counts dims) →
    (cellAt (sensCellDim ratNum 1) dims idx).map (fun s => (s.lower, s.upper))
      = cellAt (gridCellDim ratNum) dims idx
  | [], _, _, _ => by simp [cellAt]
  | d :: dims, _, hd, .cons (a := k) (l₁ := idx) hk t => by
    obtain ⟨lo, hi, n, rfl⟩ := hd d (by simp)
    have hk' : k < n := by simpa [mkDim, countOf, h] using hk
    have ih := sens_cellAt_eq cfg h dims idx (fun d hm => hd d (by simp [hm])) t
    simp only [cellAt] at ih ⊢
    simp only [List.zipWith_cons_cons, List.map_cons, ih, sens_lower_upper cfg lo hi n k hk']

end AF.Grid
