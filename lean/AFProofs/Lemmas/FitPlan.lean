import AFProofs.Lemmas.FitFS
import AFModel.FitPlan

/-!
Conformance of the step lists read off the source (`AF.FitFS.Plan`) with the hand-written model (`AF.FitFS`),
piece by piece, and what `run` does from a safe state written out as a step list.
-/

namespace AF.FitFS
open AF.FitFS.Src AF.FitFS.Plan

/-! ## the flags -/

theorem srcZipAtomic_true : srcZipAtomic = true := by decide
theorem srcRestoreValidates_true : srcRestoreValidates = true := by decide
theorem srcAtomicWrites_true : srcAtomicWrites = true := by decide

theorem srcCfg_eq (a b : Bool) : srcCfg a b = ⟨true, true, true, a, b⟩ := by
  simp [srcCfg, srcZipAtomic_true, srcRestoreValidates_true, srcAtomicWrites_true]

/-! ## pieces -/

theorem updateSteps_eq (a b : Bool) (st : Settings) (g : Nat) :
    updateSteps st g = update (srcCfg a b) st g := by
  rw [srcCfg_eq]
  rcases st with ⟨rm, csv, ki, se, fom⟩
  cases csv <;> rfl

theorem roundSteps_eq (a b : Bool) (st : Settings) (g : Nat) :
    roundSteps st g = round (srcCfg a b) st g := by
  rw [srcCfg_eq]
  rcases st with ⟨rm, csv, ki, se, fom⟩
  cases se <;> rfl

theorem duringSteps_eq (a b : Bool) (st : Settings) :
    ∀ (k g : Nat), duringSteps st g k = during (srcCfg a b) st g k
  | 0, _ => rfl
  | k + 1, g => by
    simp only [duringSteps, during, roundSteps_eq a b, updateSteps_eq a b, duringSteps_eq a b st k]

theorem timerStartSteps_eq (a b : Bool) (fo : Folder) :
    timerStartSteps fo = (timerStart (srcCfg a b) fo).1 := by
  rw [srcCfg_eq]
  unfold timerStartSteps timerStart
  cases fo .start <;> rfl

/-- the steps of `post_fit_output` when it raises nothing -/
def postSteps (cfg : Cfg) (st : Settings) : List Step :=
  if st.keepInternal then Step.put .internal (.full 0) cfg.atomicWrites :: zipIt cfg st
  else rmList [.internal, .save, .start, .time] ++ [.other "rmdir-internal"] ++ zipIt cfg st

theorem postFitSteps_eq (a b : Bool) (st : Settings) : postFitSteps st = postSteps (srcCfg a b) st := by
  rw [srcCfg_eq]
  rcases st with ⟨rm, csv, ki, se, fom⟩
  cases ki <;> cases rm <;> rfl

theorem completedFitSteps_nil (st : Settings) : completedFitSteps st = [] := by
  rcases st with ⟨rm, csv, ki, se, fom⟩
  rfl

theorem restoreSteps_eq (a b : Bool) (st : Settings) (fs : FS) (h : fs.zip ≠ .torn) :
    restore (srcCfg a b) fs = (restoreSteps st fs, none) := by
  unfold restoreSteps restore
  cases hz : fs.zip with
  | absent => rfl
  | torn => exact absurd hz h
  | full c => simp only [List.append_assoc]; rfl

/-- `start_resume_fit` (with `pre_fit_output` before it) is `timerStart` followed by `sampling` -/
theorem startResumeSteps_eq (a b : Bool) (st : Settings) (n g0 : Nat) (fo : Folder) :
    startResumeSteps st n g0 fo = (timerStart (srcCfg a b) fo).1 ++ sampling (srcCfg a b) st n g0 := by
  have e : startResumeSteps st n g0 fo = timerStartSteps fo ++
      ((duringSteps st g0 (rounds st n) ++ roundSteps st (g0 + rounds st n) ++
        (if st.search = .dynesty then [Step.remove .save] else [])) ++
      (updateSteps st (g0 + rounds st n) ++ [Step.put .marker (.full 0) true])) := by
    have ha : active (env st false false) Gen.startResume =
        [.timerStart, .fitInner, .performUpdate, .saveResults, .completed] := rfl
    unfold startResumeSteps
    rw [ha]
    simp [List.flatMap_cons]
  rw [e, timerStartSteps_eq a b, duringSteps_eq a b, roundSteps_eq a b, updateSteps_eq a b]
  simp only [sampling, List.append_assoc]

theorem mainSteps_unmarked (a b : Bool) (st : Settings) (n : Nat) (fs : FS)
    (hm : fs.folder .marker = .absent) :
    mainSteps st n fs = [Step.other "prefit"] ++ (timerStart (srcCfg a b) fs.folder).1 ++
      sampling (srcCfg a b) st n (fs.clock + 1) ++ postSteps (srcCfg a b) st := by
  have e : mainSteps st n fs = [Step.other "prefit"] ++
      (startResumeSteps st n (fs.clock + 1) fs.folder ++ postFitSteps st) := by
    have hb : (fs.folder .marker != .absent) = false := by simp [hm]
    have ha : active (env st false false) Gen.fit =
        [.restore, .preFitOutput, .startResumeFit, .postFitOutput] := rfl
    have hp : preFitSteps st false = [Step.other "prefit"] := rfl
    unfold mainSteps
    rw [hb, ha]
    simp [List.flatMap_cons, hp]
  rw [e, startResumeSteps_eq a b, postFitSteps_eq a b]
  simp only [List.append_assoc]

theorem mainSteps_marked (a b : Bool) (st : Settings) (n : Nat) (fs : FS)
    (hm : fs.folder .marker ≠ .absent) :
    mainSteps st n fs = postSteps (srcCfg a b) st := by
  have e : mainSteps st n fs = completedFitSteps st ++ postFitSteps st := by
    have hb : (fs.folder .marker != .absent) = true := by simp [hm]
    have ha : active (env st true false) Gen.fit =
        [.restore, .preFitOutput, .resultViaCompletedFit, .postFitOutput] := rfl
    have hp : preFitSteps st true = [] := rfl
    unfold mainSteps
    rw [hb, ha]
    simp [List.flatMap_cons, hp]
  rw [e, completedFitSteps_nil, postFitSteps_eq a b]
  rfl

/-! ## what `run` does from a safe state, as a step list -/

theorem postFit_steps {cfg : Cfg} {st : Settings} {fo : Folder} {s : List Step}
    (h : postFit cfg st fo = (s, none)) : s = postSteps cfg st := by
  unfold postFit at h
  unfold postSteps
  split at h
  · rename_i hk
    rw [if_pos hk]
    split at h
    · cases h
    · cases h; rfl
  · rename_i hk
    rw [if_neg hk]
    cases h; rfl

theorem finish_ok_steps {cfg : Cfg} {st : Settings} {before : List Step} {fo : Folder} {l : List Step}
    {r : View} (h : finish cfg st before fo = ⟨l, .ok r⟩) : l = before ++ postSteps cfg st := by
  unfold finish at h
  split at h
  · cases h
  · split at h
    · cases h
    · rename_i s hp
      have := postFit_steps hp
      cases h
      rw [this]

/-- an unmarked good folder: the steps of the resumed fit -/
theorem resumePath_steps {cfg : Cfg} {st : Settings} (n : Nat) {fs : FS} (hs : Sound cfg st)
    (hu : Unmarked st fs) :
    (resumePath cfg st n fs).steps = [Step.other "prefit"] ++ (timerStart cfg fs.folder).1 ++
      sampling cfg st n (fs.clock + 1) ++ postSteps cfg st := by
  obtain ⟨sT, hT, -, -⟩ := timerStart_good (cfg := cfg) hs.writes hu.2.2
  have hL := likelihoodCheck_good hs hu.2.2
  have hC := checkpoint_good hs hu.2.2
  have hD : ¬(st.search = .drawer ∧ fs.folder .time = .torn) := fun h => hu.2.2.time h.2
  obtain ⟨l, r, h1, -⟩ := resumePath_unmarked (cfg := cfg) n hs hu
  have h2 : resumePath cfg st n fs = finish cfg st ([Step.other "prefit"] ++ sT ++ sampling cfg st n (fs.clock + 1))
      (applyAll fs ([Step.other "prefit"] ++ sT ++ sampling cfg st n (fs.clock + 1))).folder := by
    simp only [resumePath, hT, hL, hC, hD, if_false]
  rw [h1] at h2
  have := finish_ok_steps h2.symm
  rw [h1, hT]
  exact this

theorem completedPath_steps {cfg : Cfg} {st : Settings} {fs : FS} {r : View} (hs : Sound cfg st)
    (hm : Marked st r fs) : (completedPath cfg st fs).steps = postSteps cfg st := by
  obtain ⟨l, h1, -⟩ := completedPath_marked (cfg := cfg) hs hm
  have h2 : completedPath cfg st fs = finish cfg st [] fs.folder := rfl
  rw [h1] at h2
  have := finish_ok_steps h2.symm
  rw [h1]
  simpa using this

/-- after `restore`: the source-derived steps are the steps of the model's main path -/
theorem mainSteps_eq_mainPath (a b : Bool) {st : Settings} (n : Nat) {fs : FS}
    (hs : Sound (srcCfg a b) st) (hz : fs.zip = .absent) (hg : Good st fs.folder) :
    mainSteps st n fs = (mainPath (srcCfg a b) st n fs).steps := by
  by_cases hm : fs.folder .marker = .absent
  · rw [mainSteps_unmarked a b st n fs hm]
    simp only [mainPath, hm, if_true]
    exact (resumePath_steps n hs ⟨hz, hm, hg⟩).symm
  · obtain ⟨r, hr⟩ := hg.marked_result hm
    rw [mainSteps_marked a b st n fs hm]
    simp only [mainPath, hm, if_false]
    exact (completedPath_steps hs ⟨hz, hm, hg, hr⟩).symm

theorem restoreFirst_true : restoreFirst = true := by decide

/-- **refinement**: from a safe state the steps read off the source are the steps of `run` -/
theorem planSteps_eq_run (a b : Bool) {st : Settings} (n : Nat) {fs : FS}
    (hs : Sound (srcCfg a b) st) (hsafe : safe st fs = true) :
    planSteps st n fs = (run (srcCfg a b) st n fs).steps := by
  unfold planSteps
  rw [if_pos restoreFirst_true]
  have hzt : fs.zip ≠ .torn := by
    intro hz; simp [safe, hz] at hsafe
  have hr := restoreSteps_eq a b st fs hzt
  rw [run_of_restore hr]
  congr 1
  cases hz : fs.zip with
  | torn => exact absurd hz hzt
  | absent =>
    have hg : Good st fs.folder := (safe_absent hz).1 hsafe
    have he : restoreSteps st fs = [] := by simp [restoreSteps, hz]
    rw [he, applyAll_nil]
    exact mainSteps_eq_mainPath a b n hs hz hg
  | full c =>
    have hg : Good st c := (safe_full hz).1 hsafe
    obtain ⟨hr1, -, hr3⟩ := restore_full (cfg := srcCfg a b) (st := st) hz hg
    have he : restoreSteps st fs = rmFolder ++ extract c ++ [.zipRemove] := by
      have := hr.symm.trans hr1
      exact (Prod.mk.inj this).1
    rw [he, hr3]
    exact mainSteps_eq_mainPath a b n hs rfl hg

end AF.FitFS
