import AFModel.LogPrior

/-! helper lemmas about `logPriorList` (C04) -/

namespace AF.LogPriorLemmas
open AF

variable {V : Type}

theorem argsOfVector_length (t : Node V) (v : List V) :
    (argsOfVector t v).length = min (count t) v.length := by
  simp [argsOfVector, count]

theorem argsOfVector_getElem? (t : Node V) (v : List V) (k : Nat) :
    (argsOfVector t v)[k]? = match (uniqueIds t)[k]?, v[k]? with
      | some id, some x => some (id, x)
      | _, _ => none := by
  simp only [argsOfVector, List.zip_eq_zipWith]
  rw [List.getElem?_zipWith]
  cases (uniqueIds t)[k]? <;> cases v[k]? <;> rfl

/-- left fold of a mapped list -/
theorem foldl_map_add (fo : FomOps V) (f : Nat × V → V) (l : List (Nat × V)) (z : V) :
    (l.map f).foldl fo.add z = l.foldl (fun acc a => fo.add acc (f a)) z := by
  rw [List.foldl_map]

end AF.LogPriorLemmas
