import AFModel.SamplesIO

/-! Helper lemmas for C09 (`AFProofs/C09.lean`): text of keys, Python dictionaries as association
lists, all-or-nothing maps, the key analysis behind the look-up of parameter values. -/

namespace AF.SamplesIO

/-! ## `".".join` / `.split(".")` -/

theorem splitDots_ne_nil : ∀ (s : Name), splitDots s ≠ []
  | [] => by simp [splitDots]
  | c :: cs => by
    unfold splitDots
    split
    · simp
    · split <;> simp

theorem splitDots_cons_of_ne (x : Char) (cs h : Name) (t : NPath) (hx : x ≠ '.')
    (e : splitDots cs = h :: t) : splitDots (x :: cs) = (x :: h) :: t := by
  rw [splitDots]; simp [hx, e]

theorem splitDots_noDot : ∀ (c : Name), '.' ∉ c → splitDots c = [c]
  | [], _ => by simp [splitDots]
  | x :: xs, h => by
    have hx : x ≠ '.' := fun e => h (by simp [e])
    have hxs : '.' ∉ xs := fun e => h (by simp [e])
    exact splitDots_cons_of_ne x xs xs [] hx (splitDots_noDot xs hxs)

theorem splitDots_append_dot : ∀ (c rest : Name), '.' ∉ c →
    splitDots (c ++ '.' :: rest) = c :: splitDots rest
  | [], rest, _ => by simp [splitDots]
  | x :: xs, rest, h => by
    have hx : x ≠ '.' := fun e => h (by simp [e])
    have hxs : '.' ∉ xs := fun e => h (by simp [e])
    exact splitDots_cons_of_ne x _ xs _ hx (splitDots_append_dot xs rest hxs)

/-- **the text of a key reads back as the key** -/
theorem splitDots_joinDots : ∀ (p : NPath), p ≠ [] → (∀ c ∈ p, '.' ∉ c) → splitDots (joinDots p) = p
  | [], h, _ => absurd rfl h
  | [c], _, h => by simpa [joinDots] using splitDots_noDot c (h c (by simp))
  | c :: d :: rest, _, h => by
    have hc : '.' ∉ c := h c (by simp)
    have ih := splitDots_joinDots (d :: rest) (by simp) (fun x hx => h x (by simp [hx]))
    simp only [joinDots]
    rw [splitDots_append_dot c _ hc, ih]

theorem hasDot_iff (s : Name) : hasDot s = true ↔ '.' ∈ s := by
  simp [hasDot, List.any_eq_true]

theorem hasDot_false_iff (s : Name) : hasDot s = false ↔ '.' ∉ s := by
  rw [← hasDot_iff]; cases hasDot s <;> simp

theorem dot_mem_joinDots (c d : Name) (rest : NPath) : '.' ∈ joinDots (c :: d :: rest) := by
  simp [joinDots]

theorem mem_joinDots {x : Char} : ∀ (p : NPath), x ∈ joinDots p → x = '.' ∨ ∃ c ∈ p, x ∈ c
  | [], h => by simp [joinDots] at h
  | [c], h => Or.inr ⟨c, by simp, by simpa [joinDots] using h⟩
  | c :: d :: rest, h => by
    simp only [joinDots, List.mem_append, List.mem_cons] at h
    rcases h with h | h | h
    · exact Or.inr ⟨c, by simp, h⟩
    · exact Or.inl h
    · rcases mem_joinDots (d :: rest) h with h | ⟨e, he, hx⟩
      · exact Or.inl h
      · exact Or.inr ⟨e, by simp [List.mem_cons] at he ⊢; exact Or.inr he, hx⟩

/-! ## `.strip()` and right alignment -/

theorem dropWhile_blank_of_noBlank (s : Name) (h : ' ' ∉ s) : s.dropWhile (· == ' ') = s := by
  cases s with
  | nil => rfl
  | cons x xs =>
    have hx : x ≠ ' ' := fun e => h (by simp [e])
    rw [List.dropWhile_cons]; simp [hx]

theorem dropWhile_replicate_blank (n : Nat) (s : Name) :
    (List.replicate n ' ' ++ s).dropWhile (· == ' ') = s.dropWhile (· == ' ') := by
  induction n with
  | zero => simp
  | succ n ih => simp [List.replicate_succ, ih]

theorem stripSp_of_noBlank (s : Name) (h : ' ' ∉ s) : stripSp s = s := by
  unfold stripSp
  rw [dropWhile_blank_of_noBlank s h, dropWhile_blank_of_noBlank s.reverse (by simpa using h)]
  simp

/-- reading a right-aligned header cell gives the header -/
theorem stripSp_padLeft (n : Nat) (s : Name) (h : ' ' ∉ s) : stripSp (padLeft n s) = s := by
  unfold stripSp padLeft
  rw [dropWhile_replicate_blank, dropWhile_blank_of_noBlank s h,
    dropWhile_blank_of_noBlank s.reverse (by simpa using h)]
  simp

theorem map_stripSp_padHeaders : ∀ (pads : List Nat) (hs : List Name), (∀ h ∈ hs, ' ' ∉ h) →
    (padHeaders pads hs).map stripSp = hs
  | _, [], _ => by simp [padHeaders]
  | [], h :: hs, hh => by
    simp only [padHeaders, List.map_cons]
    rw [stripSp_of_noBlank h (hh h (by simp)), map_stripSp_padHeaders [] hs (fun x hx => hh x (by simp [hx]))]
  | n :: ns, h :: hs, hh => by
    simp only [padHeaders, List.map_cons]
    rw [stripSp_padLeft n h (hh h (by simp)), map_stripSp_padHeaders ns hs (fun x hx => hh x (by simp [hx]))]

/-! ## dictionaries -/

section Dict
variable {K V : Type} [DecidableEq K]

theorem dictGet_mem : ∀ (d : List (K × V)) (k : K) (v : V), dictGet d k = some v → (k, v) ∈ d
  | [], _, _, h => by simp [dictGet] at h
  | (k', v') :: rest, k, v, h => by
    unfold dictGet at h
    split at h
    · rename_i hk; cases h; simp [hk]
    · exact List.mem_cons_of_mem _ (dictGet_mem rest k v h)

theorem dictGet_isSome_of_mem : ∀ (d : List (K × V)) (k : K), k ∈ d.map (·.1) → (dictGet d k).isSome
  | [], _, h => by simp at h
  | (k', v') :: rest, k, h => by
    unfold dictGet
    split
    · simp
    · rename_i hk
      simp only [List.map_cons, List.mem_cons] at h
      rcases h with h | h
      · exact absurd h.symm hk
      · exact dictGet_isSome_of_mem rest k h

theorem dictGet_none_of_not_mem : ∀ (d : List (K × V)) (k : K), k ∉ d.map (·.1) → dictGet d k = none
  | [], _, _ => rfl
  | (k', v') :: rest, k, h => by
    simp only [List.map_cons, List.mem_cons, not_or] at h
    unfold dictGet
    rw [if_neg (fun e => h.1 e.symm)]
    exact dictGet_none_of_not_mem rest k h.2

theorem dictGet_append (d e : List (K × V)) (k : K) :
    dictGet (d ++ e) k = (dictGet d k).orElse (fun _ => dictGet e k) := by
  induction d with
  | nil => simp [dictGet]
  | cons x rest ih =>
    obtain ⟨k', v'⟩ := x
    simp only [List.cons_append, dictGet]
    split
    · simp
    · exact ih

/-- in a dictionary without duplicate keys every entry is found -/
theorem dictGet_of_mem_nodup : ∀ (d : List (K × V)) (k : K) (v : V), (d.map (·.1)).Nodup →
    (k, v) ∈ d → dictGet d k = some v
  | [], _, _, _, h => by simp at h
  | (k', v') :: rest, k, v, hnd, h => by
    simp only [List.map_cons, List.nodup_cons] at hnd
    simp only [List.mem_cons, Prod.mk.injEq] at h
    unfold dictGet
    rcases h with ⟨hk, hv⟩ | h
    · simp [hk, hv]
    · have : k' ≠ k := fun e => hnd.1 (e ▸ List.mem_map.mpr ⟨(k, v), h, rfl⟩)
      rw [if_neg this]
      exact dictGet_of_mem_nodup rest k v hnd.2 h

theorem dictInsert_of_not_mem : ∀ (d : List (K × V)) (k : K) (v : V), k ∉ d.map (·.1) →
    dictInsert k v d = d ++ [(k, v)]
  | [], _, _, _ => rfl
  | (k', v') :: rest, k, v, h => by
    simp only [List.map_cons, List.mem_cons, not_or] at h
    simp only [dictInsert]
    rw [if_neg (fun e => h.1 e.symm), dictInsert_of_not_mem rest k v h.2]
    rfl

theorem dictFrom_of_nodup : ∀ (l acc : List (K × V)), ((acc ++ l).map (·.1)).Nodup →
    dictFrom acc l = acc ++ l
  | [], acc, _ => by simp [dictFrom]
  | (k, v) :: rest, acc, h => by
    have hk : k ∉ acc.map (·.1) := by
      intro hmem
      rw [List.map_append, List.nodup_append] at h
      exact h.2.2 k hmem k (by simp) rfl
    simp only [dictFrom]
    rw [dictInsert_of_not_mem acc k v hk, dictFrom_of_nodup rest (acc ++ [(k, v)]) (by simpa using h)]
    simp

/-- a comprehension over distinct keys is the list itself -/
theorem dictOf_of_nodup (l : List (K × V)) (h : (l.map (·.1)).Nodup) : dictOf l = l := by
  unfold dictOf
  rw [dictFrom_of_nodup l [] (by simpa using h)]
  simp

end Dict

/-! ## all-or-nothing maps -/

theorem mapOpt_length {α β} (f : α → Option β) : ∀ (l : List α) (r : List β), mapOpt f l = some r →
    r.length = l.length
  | [], r, h => by simp [mapOpt] at h; simp [← h]
  | a :: as, r, h => by
    unfold mapOpt at h
    split at h
    · rename_i b bs hb hbs
      cases h
      simp [mapOpt_length f as bs hbs]
    · cases h

theorem mapOpt_cons_some {α β} (f : α → Option β) (a : α) (as : List α) (b : β) (bs : List β)
    (h1 : f a = some b) (h2 : mapOpt f as = some bs) : mapOpt f (a :: as) = some (b :: bs) := by
  simp [mapOpt, h1, h2]

theorem mapOpt_eq_some_iff_cons {α β} (f : α → Option β) (a : α) (as : List α) (r : List β) :
    mapOpt f (a :: as) = some r ↔ ∃ b bs, f a = some b ∧ mapOpt f as = some bs ∧ r = b :: bs := by
  constructor
  · intro h
    unfold mapOpt at h
    split at h
    · rename_i b bs hb hbs
      cases h
      exact ⟨b, bs, hb, hbs, rfl⟩
    · cases h
  · rintro ⟨b, bs, hb, hbs, rfl⟩
    exact mapOpt_cons_some f a as b bs hb hbs

/-- every element maps to the value zipped with it -/
theorem mapOpt_eq_some_of_zip {α β} (f : α → Option β) : ∀ (l : List α) (r : List β),
    r.length = l.length → (∀ x ∈ l.zip r, f x.1 = some x.2) → mapOpt f l = some r
  | [], [], _, _ => rfl
  | [], _ :: _, h, _ => by simp at h
  | _ :: _, [], h, _ => by simp at h
  | a :: as, b :: bs, h, hf => by
    apply mapOpt_cons_some
    · exact hf (a, b) (by simp)
    · exact mapOpt_eq_some_of_zip f as bs (by simpa using h)
        (fun x hx => hf x (by simp only [List.zip_cons_cons]; exact List.mem_cons_of_mem _ hx))

theorem mapOpt_map {α β γ} (f : β → Option γ) (g : α → β) : ∀ (l : List α),
    mapOpt f (l.map g) = mapOpt (fun a => f (g a)) l
  | [] => rfl
  | a :: as => by simp [mapOpt, mapOpt_map f g as]

theorem mapOpt_congr {α β} (f g : α → Option β) : ∀ (l : List α), (∀ a ∈ l, f a = g a) →
    mapOpt f l = mapOpt g l
  | [], _ => rfl
  | a :: as, h => by
    simp only [mapOpt]
    rw [h a (by simp), mapOpt_congr f g as (fun x hx => h x (by simp [hx]))]

theorem mapOpt_some {α} : ∀ (l : List α), mapOpt (fun a => some a) l = some l
  | [] => rfl
  | a :: as => by simp [mapOpt, mapOpt_some as]

/-! ## keys -/

/-- the key under which a column of the table (or an entry of the summary) comes back from text:
a one-entry path becomes a plain string -/
def canonPathKey : NPath → Key
  | [c] => .str c
  | p => .path p

theorem normKey_str_joinDots (u : NPath) (hne : u ≠ []) (hclean : ∀ c ∈ u, '.' ∉ c) :
    normKey (.str (joinDots u)) = canonPathKey u := by
  match u, hne, hclean with
  | [c], _, h =>
    have : hasDot c = false := (hasDot_false_iff c).mpr (h c (by simp))
    simp [normKey, joinDots, canonPathKey, this]
  | c :: d :: rest, _, h =>
    have hd : hasDot (joinDots (c :: d :: rest)) = true := (hasDot_iff _).mpr (dot_mem_joinDots c d rest)
    simp only [normKey, hd, if_true, canonPathKey]
    rw [splitDots_joinDots _ (by simp) h]

theorem canonPathKey_inj (u u' : NPath) (h : canonPathKey u = canonPathKey u') : u = u' := by
  match u, u' with
  | [c], [c'] => simp [canonPathKey] at h; simp [h]
  | [c], [] => simp [canonPathKey] at h
  | [c], _ :: _ :: _ => simp [canonPathKey] at h
  | [], [c'] => simp [canonPathKey] at h
  | _ :: _ :: _, [c'] => simp [canonPathKey] at h
  | [], [] => rfl
  | [], _ :: _ :: _ => simp [canonPathKey] at h
  | _ :: _ :: _, [] => simp [canonPathKey] at h
  | a :: b :: r, a' :: b' :: r' => simpa [canonPathKey] using h

/-- a key is stored either as the tuple path (`Sample.from_lists`) or as it comes back from text -/
def KeyForm (sh : Shape) (kf : Param → Key) : Prop :=
  ∀ P ∈ sh, kf P = .path P.uniq ∨ kf P = canonPathKey P.uniq

theorem keyForm_path_eq {sh kf} (hkf : KeyForm sh kf) {Q : Param} (hQ : Q ∈ sh) {q : NPath}
    (h : kf Q = .path q) : q = Q.uniq := by
  rcases hkf Q hQ with e | e
  · rw [e] at h; cases h; rfl
  · rw [e] at h
    match hu : Q.uniq, h with
    | [c], h => simp [canonPathKey] at h
    | [], h => simp [canonPathKey] at h; exact h
    | a :: b :: r, h => simp [canonPathKey] at h; simp [h]

theorem keyForm_str_eq {sh kf} (hkf : KeyForm sh kf) {Q : Param} (hQ : Q ∈ sh) {c : Name}
    (h : kf Q = .str c) : Q.uniq = [c] := by
  rcases hkf Q hQ with e | e
  · rw [e] at h; cases h
  · rw [e] at h
    match hu : Q.uniq, h with
    | [c'], h => simp [canonPathKey] at h; simp [h]
    | [], h => simp [canonPathKey] at h
    | a :: b :: r, h => simp [canonPathKey] at h

/-! ## pairs of a zipped list -/

theorem pairwise_zip_mem {α β} {R : α → α → Prop} : ∀ (l : List α) (r : List β), l.Pairwise R →
    ∀ x ∈ l.zip r, ∀ y ∈ l.zip r, x = y ∨ R x.1 y.1 ∨ R y.1 x.1
  | [], _, _, x, hx, _, _ => by simp at hx
  | _ :: _, [], _, x, hx, _, _ => by simp at hx
  | a :: as, b :: bs, hp, x, hx, y, hy => by
    rw [List.pairwise_cons] at hp
    simp only [List.zip_cons_cons, List.mem_cons] at hx hy
    rcases hx with hx | hx <;> rcases hy with hy | hy
    · exact Or.inl (hx.trans hy.symm)
    · exact Or.inr (Or.inl (by rw [hx]; exact hp.1 y.1 (List.of_mem_zip (a := y.1) (b := y.2) hy).1))
    · exact Or.inr (Or.inr (by rw [hy]; exact hp.1 x.1 (List.of_mem_zip (a := x.1) (b := x.2) hx).1))
    · exact pairwise_zip_mem as bs hp.2 x hx y hy

/-! ## looking values up -/

section Lookup
variable {V : Type}

/-- the keyword dictionary holding value `ps[i]` under the key of parameter `sh[i]` -/
def kwOf (sh : Shape) (ps : List V) (kf : Param → Key) : List (Key × V) :=
  (sh.zip ps).map fun x => (kf x.1, x.2)

theorem mem_kwOf {sh : Shape} {ps : List V} {kf : Param → Key} {k : Key} {v : V}
    (h : (k, v) ∈ kwOf sh ps kf) : ∃ Q, (Q, v) ∈ sh.zip ps ∧ kf Q = k := by
  simp only [kwOf, List.mem_map, Prod.mk.injEq] at h
  obtain ⟨x, hx, hk, hv⟩ := h
  exact ⟨x.1, by rw [← hv]; exact hx, hk⟩

theorem firstFound_eq_some (cfg : Cfg) (kw : List (Key × V)) (v : V) : ∀ (ks : List Key),
    (∀ k ∈ ks, ∀ v', valueForKey cfg kw k = some v' → v' = v) →
    (∃ k ∈ ks, (valueForKey cfg kw k).isSome) → firstFound cfg kw ks = some v
  | [], _, he => by obtain ⟨k, hk, _⟩ := he; simp at hk
  | k :: ks, hs, he => by
    unfold firstFound
    cases hv : valueForKey cfg kw k with
    | some v' => simp [hs k (by simp) v' hv]
    | none =>
      simp only
      apply firstFound_eq_some cfg kw v ks (fun k' hk' => hs k' (by simp [hk']))
      obtain ⟨k0, hk0, hsome⟩ := he
      simp only [List.mem_cons] at hk0
      rcases hk0 with rfl | hk0
      · rw [hv] at hsome; cases hsome
      · exact ⟨k0, hk0, hsome⟩

/-- two parameters of a well-formed shape that share a path are the same entry -/
theorem same_entry_of_shared_path {sh : Shape} (wf : WF sh) {ps : List V} {P Q : Param} {v v' : V}
    (hP : (P, v) ∈ sh.zip ps) (hQ : (Q, v') ∈ sh.zip ps) {q : NPath} (hqP : q ∈ P.paths)
    (hqQ : q ∈ Q.paths) : v' = v := by
  rcases pairwise_zip_mem sh ps wf.disjoint (P, v) hP (Q, v') hQ with h | h | h
  · cases h; rfl
  · exact absurd hqQ (h q hqP)
  · exact absurd hqP (h q hqQ)

theorem same_entry_of_name {sh : Shape} (wf : WF sh) {ps : List V} {P Q : Param} {v v' : V}
    (hP : (P, v) ∈ sh.zip ps) (hQ : (Q, v') ∈ sh.zip ps) {n : Name} (hn : n ∈ P.names)
    (hu : Q.uniq = [n]) : v' = v := by
  rcases pairwise_zip_mem sh ps wf.names_sound (P, v) hP (Q, v') hQ with h | h | h
  · cases h; rfl
  · exact absurd hu.symm (h.1 n hn)
  · exact absurd hu.symm (h.2 n hn)

/-- a value found under one of the paths of a parameter is that parameter's value -/
theorem path_hit_sound (cfg : Cfg) {sh : Shape} (wf : WF sh) {kf : Param → Key} (hkf : KeyForm sh kf)
    {ps : List V} {P : Param} {v : V} (hP : (P, v) ∈ sh.zip ps) {q : NPath} (hq : q ∈ P.paths)
    {v' : V} (h : valueForKey cfg (kwOf sh ps kf) (.path q) = some v') : v' = v := by
  unfold valueForKey at h
  cases hg : dictGet (kwOf sh ps kf) (.path q) with
  | some v'' =>
    rw [hg] at h
    cases h
    obtain ⟨Q, hQ, hk⟩ := mem_kwOf (dictGet_mem _ _ _ hg)
    have hQs : Q ∈ sh := (List.of_mem_zip hQ).1
    have : q = Q.uniq := keyForm_path_eq hkf hQs hk
    exact same_entry_of_shared_path wf hP hQ hq (this ▸ wf.uniq_mem Q hQs)
  | none =>
    rw [hg] at h
    simp only at h
    split at h
    · match q, hq, h with
      | [c], hq, h =>
        simp only at h
        obtain ⟨Q, hQ, hk⟩ := mem_kwOf (dictGet_mem _ _ _ h)
        have hQs : Q ∈ sh := (List.of_mem_zip hQ).1
        have hu : Q.uniq = [c] := keyForm_str_eq hkf hQs hk
        exact same_entry_of_shared_path wf hP hQ hq (hu ▸ wf.uniq_mem Q hQs)
      | [], _, h => simp at h
      | _ :: _ :: _, _, h => simp at h
    · cases h

/-- a value found under one of the names of a parameter, when no key is a tuple, is its value -/
theorem name_hit_sound (cfg : Cfg) {sh : Shape} (wf : WF sh) {kf : Param → Key} (hkf : KeyForm sh kf)
    {ps : List V} {P : Param} {v : V} (hP : (P, v) ∈ sh.zip ps) {n : Name} (hn : n ∈ P.names)
    (hnp : ∀ x ∈ kwOf sh ps kf, isPathKey x.1 = false)
    {v' : V} (h : valueForKey cfg (kwOf sh ps kf) (.str n) = some v') : v' = v := by
  unfold valueForKey at h
  cases hg : dictGet (kwOf sh ps kf) (.str n) with
  | some v'' =>
    rw [hg] at h
    cases h
    obtain ⟨Q, hQ, hk⟩ := mem_kwOf (dictGet_mem _ _ _ hg)
    have hQs : Q ∈ sh := (List.of_mem_zip hQ).1
    exact same_entry_of_name wf hP hQ hn (keyForm_str_eq hkf hQs hk)
  | none =>
    rw [hg] at h
    simp only at h
    split at h
    · have := hnp _ (dictGet_mem _ _ _ h)
      simp [isPathKey] at this
    · cases h

/-- **Looking up a dictionary that holds each parameter's value under its key returns the values in
parameter order**, on either route, given that the route finds something for every parameter. -/
theorem paramList_kwOf (cfg : Cfg) {sh : Shape} (wf : WF sh) {kf : Param → Key} (hkf : KeyForm sh kf)
    (ps : List V) (hlen : ps.length = sh.length) (ll lp w : V)
    (hex : isPathKwargs cfg (kwOf sh ps kf) = true →
      ∀ P ∈ sh, (valueForKey cfg (kwOf sh ps kf) (.path P.uniq)).isSome)
    (hnm : isPathKwargs cfg (kwOf sh ps kf) = false →
      (∀ x ∈ kwOf sh ps kf, isPathKey x.1 = false) ∧
      ∀ P ∈ sh, ∃ n ∈ P.names, (valueForKey cfg (kwOf sh ps kf) (.str n)).isSome) :
    paramList cfg sh ⟨ll, lp, w, kwOf sh ps kf⟩ = some ps := by
  unfold paramList
  apply mapOpt_eq_some_of_zip _ sh ps hlen
  rintro ⟨P, v⟩ hP
  have hPs : P ∈ sh := (List.of_mem_zip hP).1
  simp only [keysFor]
  cases hb : isPathKwargs cfg (kwOf sh ps kf) with
  | true =>
    simp only [if_true]
    apply firstFound_eq_some
    · intro k hk v' hv
      obtain ⟨q, hq, rfl⟩ := List.mem_map.mp hk
      exact path_hit_sound cfg wf hkf hP hq hv
    · exact ⟨.path P.uniq, List.mem_map.mpr ⟨P.uniq, wf.uniq_mem P hPs, rfl⟩, hex hb P hPs⟩
  | false =>
    simp only [Bool.false_eq_true, if_false]
    obtain ⟨hnp, hn⟩ := hnm hb
    apply firstFound_eq_some
    · intro k hk v' hv
      obtain ⟨n, hn', rfl⟩ := List.mem_map.mp hk
      exact name_hit_sound cfg wf hkf hP hn' hnp hv
    · obtain ⟨n, hn', hs⟩ := hn P hPs
      exact ⟨.str n, List.mem_map.mpr ⟨n, hn', rfl⟩, hs⟩

end Lookup

/-! ## facts about well-formed shapes -/

theorem uniq_nodup {sh : Shape} (wf : WF sh) : (sh.map (·.uniq)).Nodup := by
  rw [List.Nodup, List.pairwise_map]
  refine List.Pairwise.imp_of_mem ?_ wf.disjoint
  intro P Q hP hQ hR he
  exact hR P.uniq (wf.uniq_mem P hP) (he ▸ wf.uniq_mem Q hQ)

theorem nodup_map_of_inj {α β} [DecidableEq β] (f : α → β) : ∀ (l : List α), l.Nodup →
    (∀ a ∈ l, ∀ b ∈ l, f a = f b → a = b) → (l.map f).Nodup
  | [], _, _ => by simp
  | a :: as, hnd, hinj => by
    rw [List.nodup_cons] at hnd
    simp only [List.map_cons, List.nodup_cons]
    refine ⟨?_, nodup_map_of_inj f as hnd.2 (fun x hx y hy => hinj x (by simp [hx]) y (by simp [hy]))⟩
    intro hmem
    obtain ⟨b, hb, hfb⟩ := List.mem_map.mp hmem
    have : b = a := hinj b (by simp [hb]) a (by simp) hfb
    exact hnd.1 (this ▸ hb)

theorem joinDots_inj_clean (u u' : NPath) (hu : u ≠ [] ∧ ∀ c ∈ u, CleanName c)
    (hu' : u' ≠ [] ∧ ∀ c ∈ u', CleanName c) (h : joinDots u = joinDots u') : u = u' := by
  rw [← splitDots_joinDots u hu.1 (fun c hc => (hu.2 c hc).2.1),
    ← splitDots_joinDots u' hu'.1 (fun c hc => (hu'.2 c hc).2.1), h]

/-- distinct parameters have distinct columns, distinct keys of either form -/
theorem keys_nodup_of_inj {sh : Shape} (wf : WF sh) {β} [DecidableEq β] (g : NPath → β)
    (hg : ∀ P ∈ sh, ∀ Q ∈ sh, g P.uniq = g Q.uniq → P.uniq = Q.uniq) :
    (sh.map fun P => g P.uniq).Nodup := by
  have := nodup_map_of_inj g (sh.map (·.uniq)) (uniq_nodup wf) (by
    intro a ha b hb hab
    obtain ⟨P, hP, rfl⟩ := List.mem_map.mp ha
    obtain ⟨Q, hQ, rfl⟩ := List.mem_map.mp hb
    exact hg P hP Q hQ hab)
  rw [List.map_map] at this
  exact this

theorem headers_nodup {sh : Shape} (wf : WF sh) : (sh.map fun P => joinDots P.uniq).Nodup :=
  keys_nodup_of_inj wf joinDots (fun P hP Q hQ h => joinDots_inj_clean _ _ (wf.clean P hP) (wf.clean Q hQ) h)

theorem noBlank_header {sh : Shape} (wf : WF sh) {P : Param} (hP : P ∈ sh) : ' ' ∉ joinDots P.uniq := by
  intro h
  rcases mem_joinDots _ h with h | ⟨c, hc, hx⟩
  · exact absurd h (by decide)
  · exact ((wf.clean P hP).2 c hc).2.2 hx

section Kw
variable {V : Type}

theorem kwOf_keys (sh : Shape) (ps : List V) (kf : Param → Key) (hlen : ps.length = sh.length) :
    (kwOf sh ps kf).map (·.1) = sh.map kf := by
  simp only [kwOf, List.map_map]
  have : (sh.zip ps).map ((fun x : Key × V => x.1) ∘ fun x => (kf x.1, x.2)) = ((sh.zip ps).map (·.1)).map kf := by
    rw [List.map_map]; rfl
  rw [this, List.map_fst_zip (by omega)]

theorem valueForKey_isSome_of_dictGet (cfg : Cfg) (kw : List (Key × V)) (k : Key)
    (h : (dictGet kw k).isSome) : (valueForKey cfg kw k).isSome := by
  unfold valueForKey
  cases hg : dictGet kw k with
  | some v => simp
  | none => rw [hg] at h; cases h

theorem valueForKey_isSome_of_mem (cfg : Cfg) (kw : List (Key × V)) (k : Key)
    (h : k ∈ kw.map (·.1)) : (valueForKey cfg kw k).isSome :=
  valueForKey_isSome_of_dictGet cfg kw k (dictGet_isSome_of_mem kw k h)

/-- with the repaired look-up a one-entry path is found under the plain string -/
theorem valueForKey_singleton_of_str (cfg : Cfg) (hc : cfg.keysNormalised = true) (kw : List (Key × V))
    (c : Name) (h : Key.str c ∈ kw.map (·.1)) : (valueForKey cfg kw (.path [c])).isSome := by
  unfold valueForKey
  cases hg : dictGet kw (.path [c]) with
  | some v => simp
  | none => simp only [hc, if_true]; exact dictGet_isSome_of_mem kw _ h

theorem isPathKwargs_false_of_all (cfg : Cfg) (kw : List (Key × V))
    (h : ∀ x ∈ kw, isPathKey x.1 = false) : isPathKwargs cfg kw = false := by
  unfold isPathKwargs
  split
  · rw [List.any_eq_false]; intro x hx; simp [h x hx]
  · cases kw with
    | nil => rfl
    | cons x rest => simpa using h x (by simp)

theorem all_of_isPathKwargs_false (cfg : Cfg) (hc : cfg.keysNormalised = true) (kw : List (Key × V))
    (h : isPathKwargs cfg kw = false) : ∀ x ∈ kw, isPathKey x.1 = false := by
  unfold isPathKwargs at h
  rw [if_pos hc, List.any_eq_false] at h
  intro x hx
  simpa using h x hx

theorem isPathKwargs_true_of_head (cfg : Cfg) (x : Key × V) (rest : List (Key × V))
    (h : isPathKey x.1 = true) : isPathKwargs cfg (x :: rest) = true := by
  unfold isPathKwargs
  split
  · simp [h]
  · simpa using h

end Kw

theorem canonPathKey_isPath_false {u : NPath} (h : isPathKey (canonPathKey u) = false) : ∃ c, u = [c] := by
  match u, h with
  | [c], _ => exact ⟨c, rfl⟩
  | [], h => simp [canonPathKey, isPathKey] at h
  | _ :: _ :: _, h => simp [canonPathKey, isPathKey] at h

theorem canonPathKey_of_two_le {u : NPath} (h : 2 ≤ u.length) : canonPathKey u = .path u := by
  match u, h with
  | _ :: _ :: _, _ => rfl

theorem canonPathKey_of_not_singleton {u : NPath} (h : ∀ c, u ≠ [c]) : canonPathKey u = .path u := by
  match u, h with
  | [], _ => rfl
  | [c], h => exact absurd rfl (h c)
  | _ :: _ :: _, _ => rfl

/-! ## the two kinds of samples the theorems speak about -/

section Samples
variable {V : Type}

/-- a sample as `Sample.from_lists` builds it -/
theorem fromVector_eq {sh : Shape} (wf : WF sh) (ll lp w : V) (ps : List V) (hlen : ps.length = sh.length) :
    fromVector sh ll lp w ps = ⟨ll, lp, w, kwOf sh ps fun P => .path P.uniq⟩ := by
  unfold fromVector mkSample
  have h1 : (((sh.map (·.uniq)).zip ps).map fun pv => (Key.path pv.1, pv.2)).map
      (fun kv => (normKey kv.1, kv.2)) = kwOf sh ps fun P => .path P.uniq := by
    rw [List.zip_map_left]
    simp [kwOf, List.map_map, Function.comp_def, normKey]
  rw [h1, dictOf_of_nodup]
  rw [kwOf_keys sh ps _ hlen]
  exact keys_nodup_of_inj wf Key.path (fun _ _ _ _ h => Key.path.inj h)

/-- a sample as it comes back from the table or from the summary -/
def tableSample (sh : Shape) (ll lp w : V) (ps : List V) : Sample V :=
  ⟨ll, lp, w, kwOf sh ps fun P => canonPathKey P.uniq⟩

theorem tableKeys_nodup {sh : Shape} (wf : WF sh) : (sh.map fun P => canonPathKey P.uniq).Nodup :=
  keys_nodup_of_inj wf canonPathKey (fun _ _ _ _ h => canonPathKey_inj _ _ h)

/-- **values built by `Sample.from_lists` are looked up in parameter order** (both behaviours) -/
theorem paramList_fromVector (cfg : Cfg) {sh : Shape} (wf : WF sh) (ll lp w : V) (ps : List V)
    (hlen : ps.length = sh.length) : paramList cfg sh (fromVector sh ll lp w ps) = some ps := by
  rw [fromVector_eq wf ll lp w ps hlen]
  have hkeys := kwOf_keys sh ps (fun P => Key.path P.uniq) hlen
  apply paramList_kwOf cfg wf (fun P _ => Or.inl rfl) ps hlen
  · intro _ P hP
    apply valueForKey_isSome_of_mem
    rw [hkeys]
    exact List.mem_map.mpr ⟨P, hP, rfl⟩
  · intro hb
    match sh, ps, hlen, hb with
    | [], _, _, _ => exact ⟨by simp [kwOf], by simp⟩
    | P :: rest, v :: vs, _, hb =>
      simp only [kwOf, List.zip_cons_cons, List.map_cons] at hb
      rw [isPathKwargs_true_of_head cfg _ _ (by simp [isPathKey])] at hb
      cases hb

/-- which compositions the pinned look-up (`keysNormalised = false`) can read back: every column at
the top level, or none -/
def Route (cfg : Cfg) (sh : Shape) : Prop :=
  cfg.keysNormalised = true ∨ (∀ P ∈ sh, 2 ≤ P.uniq.length) ∨ (∀ P ∈ sh, P.uniq.length = 1)

instance (cfg : Cfg) (sh : Shape) : Decidable (Route cfg sh) := by unfold Route; exact inferInstance

/-- **values that came back from text are looked up in parameter order** -/
theorem paramList_tableSample (cfg : Cfg) {sh : Shape} (wf : WF sh) (hr : Route cfg sh) (ll lp w : V)
    (ps : List V) (hlen : ps.length = sh.length) :
    paramList cfg sh (tableSample sh ll lp w ps) = some ps := by
  unfold tableSample
  have hkeys := kwOf_keys sh ps (fun P => canonPathKey P.uniq) hlen
  have hmemkey : ∀ P ∈ sh, canonPathKey P.uniq ∈ (kwOf sh ps fun P => canonPathKey P.uniq).map (·.1) := by
    intro P hP; rw [hkeys]; exact List.mem_map.mpr ⟨P, hP, rfl⟩
  have hallflat : (∀ P ∈ sh, P.uniq.length = 1) →
      ∀ x ∈ kwOf sh ps fun P => canonPathKey P.uniq, isPathKey x.1 = false := by
    intro hf x hx
    have : x.1 ∈ sh.map fun P => canonPathKey P.uniq := hkeys ▸ List.mem_map.mpr ⟨x, hx, rfl⟩
    obtain ⟨P, hP, he⟩ := List.mem_map.mp this
    have h1 := hf P hP
    match hu : P.uniq, h1 with
    | [c], _ => rw [← he, hu]; rfl
  apply paramList_kwOf cfg wf (fun P _ => Or.inr rfl) ps hlen
  · intro hb P hP
    by_cases hs : ∃ c, P.uniq = [c]
    · obtain ⟨c, hc⟩ := hs
      have hk : Key.str c ∈ (kwOf sh ps fun P => canonPathKey P.uniq).map (·.1) := by
        have := hmemkey P hP; rwa [hc] at this
      rcases hr with hr | hr | hr
      · rw [hc]; exact valueForKey_singleton_of_str cfg hr _ c hk
      · have := hr P hP; rw [hc] at this; simp at this
      · rw [isPathKwargs_false_of_all cfg _ (hallflat hr)] at hb; cases hb
    · have hk := hmemkey P hP
      rw [canonPathKey_of_not_singleton (fun c hc => hs ⟨c, hc⟩)] at hk
      exact valueForKey_isSome_of_mem cfg _ _ hk
  · intro hb
    have hall : ∀ x ∈ kwOf sh ps fun P => canonPathKey P.uniq, isPathKey x.1 = false := by
      rcases hr with hr | hr | hr
      · exact all_of_isPathKwargs_false cfg hr _ hb
      · match sh, ps, hlen, hb, hr with
        | [], _, _, _, _ => simp [kwOf]
        | P :: rest, v :: vs, _, hb, hr =>
          simp only [kwOf, List.zip_cons_cons, List.map_cons] at hb
          rw [isPathKwargs_true_of_head cfg _ _ (by
            rw [canonPathKey_of_two_le (hr P (by simp))]; rfl)] at hb
          cases hb
      · exact hallflat hr
    refine ⟨hall, ?_⟩
    intro P hP
    have hk := hmemkey P hP
    obtain ⟨x, hx, hxe⟩ := List.mem_map.mp hk
    have hnp : isPathKey (canonPathKey P.uniq) = false := by rw [← hxe]; exact hall x hx
    obtain ⟨c, hc⟩ := canonPathKey_isPath_false hnp
    have hnamed := wf.names_complete P hP
    unfold UniqNamed at hnamed
    rw [hc] at hnamed hk
    exact ⟨c, hnamed, valueForKey_isSome_of_mem cfg _ _ hk⟩

end Samples

/-! ## one row of the table, written and read back -/

theorem tailHeaders_nodup : tailHeaders.Nodup := by decide
theorem tailHeaders_notParam : ∀ h ∈ tailHeaders, h ∈ notParam := by decide
theorem clash_notParam : ∀ h ∈ clash, h ∈ notParam := by decide
theorem tailHeaders_noBlank : ∀ h ∈ tailHeaders, ' ' ∉ h := by decide
theorem nLL_mem : nLL ∈ notParam := by decide
theorem nLP_mem : nLP ∈ notParam := by decide
theorem nW_mem : nW ∈ notParam := by decide
theorem nLL_ne_nLP : nLL ≠ nLP := by decide
theorem nLL_ne_nW : nLL ≠ nW := by decide
theorem nLP_ne_nW : nLP ≠ nW := by decide
theorem nLPost_ne_nW : nLPost ≠ nW := by decide
theorem nLPost_mem : nLPost ∈ notParam := by decide
theorem nLL_not_clash : nLL ∉ clash := by decide
theorem nLP_not_clash : nLP ∉ clash := by decide
theorem nLPost_not_clash : nLPost ∉ clash := by decide
theorem nW_not_clash : nW ∉ clash := by decide

section Row
variable {V : Type}

/-- the parameter columns of a row: header text and value -/
def colsOf (sh : Shape) (ps : List V) : List (Name × V) :=
  (sh.zip ps).map fun x => (joinDots x.1.uniq, x.2)

/-- the four columns after the parameters -/
def tailOf (ll lp a w : V) : List (Name × V) := [(nLL, ll), (nLP, lp), (nLPost, a), (nW, w)]

theorem colsOf_keys (sh : Shape) (ps : List V) (hlen : ps.length = sh.length) :
    (colsOf sh ps).map (·.1) = sh.map fun P => joinDots P.uniq := by
  simp only [colsOf, List.map_map]
  have : (sh.zip ps).map ((fun x : Name × V => x.1) ∘ fun x => (joinDots x.1.uniq, x.2)) =
      ((sh.zip ps).map (·.1)).map fun P => joinDots P.uniq := by
    rw [List.map_map]; rfl
  rw [this, List.map_fst_zip (by omega)]

theorem zip_headers (sh : Shape) (ps : List V) (hlen : ps.length = sh.length) (ll lp a w : V) :
    (headers sh).zip (ps ++ [ll, lp, a, w]) = colsOf sh ps ++ tailOf ll lp a w := by
  unfold headers
  rw [List.zip_append (by simp [hlen]), List.zip_map_left]
  simp [colsOf, tailOf, tailHeaders, Prod.map]

theorem col_not_notParam {sh : Shape} (wf : WF sh) (ps : List V) (hlen : ps.length = sh.length) :
    ∀ x ∈ colsOf sh ps, x.1 ∉ notParam := by
  intro x hx
  have : x.1 ∈ (colsOf sh ps).map (·.1) := List.mem_map.mpr ⟨x, hx, rfl⟩
  rw [colsOf_keys sh ps hlen] at this
  obtain ⟨P, hP, he⟩ := List.mem_map.mp this
  rw [← he]
  exact wf.free P hP

theorem row_keys_nodup {sh : Shape} (wf : WF sh) (ps : List V) (hlen : ps.length = sh.length)
    (ll lp a w : V) : ((colsOf sh ps ++ tailOf ll lp a w).map (·.1)).Nodup := by
  rw [List.map_append, List.nodup_append]
  refine ⟨?_, tailHeaders_nodup, ?_⟩
  · rw [colsOf_keys sh ps hlen]; exact headers_nodup wf
  · intro a ha b hb hab
    obtain ⟨x, hx, rfl⟩ := List.mem_map.mp ha
    exact col_not_notParam wf ps hlen x hx (hab ▸ tailHeaders_notParam b hb)

theorem dictGet_cols_none {sh : Shape} (wf : WF sh) (ps : List V) (hlen : ps.length = sh.length)
    (k : Name) (hk : k ∈ notParam) : dictGet (colsOf sh ps) k = none := by
  apply dictGet_none_of_not_mem
  intro hmem
  obtain ⟨x, hx, rfl⟩ := List.mem_map.mp hmem
  exact col_not_notParam wf ps hlen x hx hk

theorem filter_row {sh : Shape} (wf : WF sh) (ps : List V) (hlen : ps.length = sh.length)
    (ll lp a w : V) :
    (colsOf sh ps ++ tailOf ll lp a w).filter (fun kv => !(notParam.contains kv.1)) = colsOf sh ps := by
  rw [List.filter_append]
  have h1 : (colsOf sh ps).filter (fun kv => !(notParam.contains kv.1)) = colsOf sh ps := by
    rw [List.filter_eq_self]
    intro x hx
    have := col_not_notParam wf ps hlen x hx
    simpa using this
  have h2 : (tailOf ll lp a w).filter (fun kv => !(notParam.contains kv.1)) = [] := by
    simp [tailOf, List.filter, nLL_mem, nLP_mem, nLPost_mem, nW_mem]
  rw [h1, h2, List.append_nil]

theorem any_clash_row {sh : Shape} (wf : WF sh) (ps : List V) (hlen : ps.length = sh.length)
    (ll lp a w : V) :
    (colsOf sh ps ++ tailOf ll lp a w).any (fun kv => clash.contains kv.1) = false := by
  rw [List.any_eq_false]
  intro x hx
  rw [List.mem_append] at hx
  rcases hx with hx | hx
  · have := col_not_notParam wf ps hlen x hx
    intro hc
    exact this (clash_notParam x.1 (by simpa using hc))
  · simp only [tailOf, List.mem_cons, List.not_mem_nil, or_false] at hx
    rcases hx with rfl | rfl | rfl | rfl
    · simp [nLL_not_clash]
    · simp [nLP_not_clash]
    · simp [nLPost_not_clash]
    · simp [nW_not_clash]

/-- text of the parameter columns read back as keys -/
theorem keys_of_cols {sh : Shape} (wf : WF sh) (ps : List V) :
    ((colsOf sh ps).map fun kv => (Key.str kv.1, kv.2)).map (fun kv => (normKey kv.1, kv.2)) =
      kwOf sh ps fun P => canonPathKey P.uniq := by
  simp only [colsOf, kwOf, List.map_map]
  apply List.map_congr_left
  intro x hx
  have hP : x.1 ∈ sh := (List.of_mem_zip (a := x.1) (b := x.2) hx).1
  have hc := wf.clean x.1 hP
  simp only [Function.comp]
  rw [normKey_str_joinDots x.1.uniq hc.1 (fun c hcm => (hc.2 c hcm).2.1)]

/-- **one row written by `write_table` and read by `samples_from_iterator`** -/
theorem loadRow_saved (ops : VOps V) {T : Type} {sh : Shape} (wf : WF sh) (shw : V → T) (rd : T → V)
    (hrd : ∀ x, rd (shw x) = x) (ll lp w : V) (ps : List V) (hlen : ps.length = sh.length) :
    loadRow rd (headers sh) ((ps ++ [ll, lp, ops.add ll lp, w]).map shw) =
      some (tableSample sh ll lp w ps) := by
  have hmap : ((ps ++ [ll, lp, ops.add ll lp, w]).map shw).map rd = ps ++ [ll, lp, ops.add ll lp, w] := by
    rw [List.map_map]
    conv => rhs; rw [← List.map_id (ps ++ [ll, lp, ops.add ll lp, w])]
    apply List.map_congr_left
    intro x _
    exact hrd x
  have hd : dictOf ((headers sh).zip (((ps ++ [ll, lp, ops.add ll lp, w]).map shw).map rd)) =
      colsOf sh ps ++ tailOf ll lp (ops.add ll lp) w := by
    rw [hmap, zip_headers sh ps hlen]
    exact dictOf_of_nodup _ (row_keys_nodup wf ps hlen _ _ _ _)
  have hLL : dictGet (colsOf sh ps ++ tailOf ll lp (ops.add ll lp) w) nLL = some ll := by
    rw [dictGet_append, dictGet_cols_none wf ps hlen nLL nLL_mem]
    simp [tailOf, dictGet]
  have hLP : dictGet (colsOf sh ps ++ tailOf ll lp (ops.add ll lp) w) nLP = some lp := by
    rw [dictGet_append, dictGet_cols_none wf ps hlen nLP nLP_mem]
    simp [tailOf, dictGet, nLL_ne_nLP]
  have hW : dictGet (colsOf sh ps ++ tailOf ll lp (ops.add ll lp) w) nW = some w := by
    rw [dictGet_append, dictGet_cols_none wf ps hlen nW nW_mem]
    simp [tailOf, dictGet, nLL_ne_nW, nLP_ne_nW, nLPost_ne_nW]
  simp only [loadRow]
  rw [hd, any_clash_row wf ps hlen, hLL, hLP, hW]
  simp only [Bool.false_eq_true, if_false]
  rw [filter_row wf ps hlen]
  congr 1
  unfold mkSample tableSample
  rw [keys_of_cols wf ps, dictOf_of_nodup]
  rw [kwOf_keys sh ps _ hlen]
  exact tableKeys_nodup wf

end Row

/-! ## the whole table -/

section Table
variable {V T : Type}

theorem rowOf_eq_some {cfg : Cfg} {ops : VOps V} {sh : Shape} {s : Sample V} {row : List V}
    (h : rowOf cfg ops sh s = some row) :
    ∃ ps, paramList cfg sh s = some ps ∧ ps.length = sh.length ∧
      row = ps ++ [s.ll, s.lp, ops.add s.ll s.lp, s.w] := by
  unfold rowOf at h
  cases hp : paramList cfg sh s with
  | none => rw [hp] at h; cases h
  | some ps =>
    rw [hp] at h
    cases h
    exact ⟨ps, rfl, mapOpt_length _ _ _ hp, rfl⟩

/-- every row written is read back as the sample holding the same numbers under the column keys -/
theorem csv_rows (cfg : Cfg) (ops : VOps V) {sh : Shape} (wf : WF sh) (hr : Route cfg sh)
    (shw : V → T) (rd : T → V) (hrd : ∀ x, rd (shw x) = x) :
    ∀ (ss : List (Sample V)) (rows : List (List V)), mapOpt (rowOf cfg ops sh) ss = some rows →
    ∃ ss' pss, mapOpt (loadRow rd (headers sh)) (rows.map (·.map shw)) = some ss' ∧
      ss'.map (·.ll) = ss.map (·.ll) ∧ ss'.map (·.lp) = ss.map (·.lp) ∧ ss'.map (·.w) = ss.map (·.w) ∧
      mapOpt (paramList cfg sh) ss' = some pss ∧ mapOpt (paramList cfg sh) ss = some pss
  | [], rows, h => by
    simp [mapOpt] at h
    subst h
    exact ⟨[], [], rfl, rfl, rfl, rfl, rfl, rfl⟩
  | s :: rest, rows, h => by
    obtain ⟨row, rows', hrow, hrows, rfl⟩ := (mapOpt_eq_some_iff_cons _ _ _ _).mp h
    obtain ⟨ps, hps, hlen, rfl⟩ := rowOf_eq_some hrow
    obtain ⟨ss', pss, h1, h2, h3, h4, h5, h6⟩ := csv_rows cfg ops wf hr shw rd hrd rest rows' hrows
    refine ⟨tableSample sh s.ll s.lp s.w ps :: ss', ps :: pss, ?_, ?_, ?_, ?_, ?_, ?_⟩
    · simp only [List.map_cons]
      exact mapOpt_cons_some _ _ _ _ _ (loadRow_saved ops wf shw rd hrd s.ll s.lp s.w ps hlen) h1
    · simp [tableSample, h2]
    · simp [tableSample, h3]
    · simp [tableSample, h4]
    · exact mapOpt_cons_some _ _ _ _ _ (paramList_tableSample cfg wf hr _ _ _ ps hlen) h5
    · exact mapOpt_cons_some _ _ _ _ _ hps h6

theorem headers_noBlank {sh : Shape} (wf : WF sh) : ∀ h ∈ headers sh, ' ' ∉ h := by
  intro h hh
  unfold headers at hh
  rw [List.mem_append] at hh
  rcases hh with hh | hh
  · obtain ⟨P, hP, rfl⟩ := List.mem_map.mp hh
    exact noBlank_header wf hP
  · exact tailHeaders_noBlank h hh

end Table

/-! ## the summary -/

section Summary
variable {V : Type}

theorem mem_colsOf_snd {sh : Shape} {ps : List V} {x : Name × V} (h : x ∈ colsOf sh ps) : x.2 ∈ ps := by
  simp only [colsOf, List.mem_map] at h
  obtain ⟨y, hy, rfl⟩ := h
  exact (List.of_mem_zip (a := y.1) (b := y.2) hy).2

theorem sampleDict_fromVector {sh : Shape} (wf : WF sh) (ll lp w : V) (ps : List V)
    (hlen : ps.length = sh.length) : sampleDict (fromVector sh ll lp w ps) = colsOf sh ps := by
  rw [fromVector_eq wf ll lp w ps hlen]
  unfold sampleDict
  have : (kwOf sh ps fun P => Key.path P.uniq).map (fun kv => (keyText kv.1, kv.2)) = colsOf sh ps := by
    simp [kwOf, colsOf, List.map_map, Function.comp_def, keyText]
  simp only [this]
  apply dictOf_of_nodup
  rw [colsOf_keys sh ps hlen]
  exact headers_nodup wf

/-- the best-fit sample written to the summary and read back -/
theorem summaryRoundtrip_fromVector (cfg : Cfg) (ops : VOps V) {sh : Shape} (wf : WF sh) (ll lp w : V)
    (ps : List V) (hlen : ps.length = sh.length)
    (hz : cfg.dictKeepsFalsy = true ∨ ∀ v ∈ ps, ops.isZero v = false) :
    summaryRoundtrip cfg ops (fromVector sh ll lp w ps) = tableSample sh ll lp w ps := by
  unfold summaryRoundtrip
  rw [sampleDict_fromVector wf ll lp w ps hlen]
  have hll : (fromVector sh ll lp w ps).ll = ll := rfl
  have hlp : (fromVector sh ll lp w ps).lp = lp := rfl
  have hw : (fromVector sh ll lp w ps).w = w := rfl
  rw [hll, hlp, hw]
  unfold loadSampleDict
  have hf : (colsOf sh ps).filter (fun kv => cfg.dictKeepsFalsy || !ops.isZero kv.2) = colsOf sh ps := by
    rw [List.filter_eq_self]
    intro x hx
    rcases hz with hz | hz
    · simp [hz]
    · simp [hz x.2 (mem_colsOf_snd hx)]
  rw [hf]
  unfold mkSample tableSample
  rw [keys_of_cols wf ps, dictOf_of_nodup]
  rw [kwOf_keys sh ps _ hlen]
  exact tableKeys_nodup wf

end Summary

/-! ## database rows -/

section Eff
variable {V : Type}

/-- keys as the `Sample` constructor leaves them: distinct, and already converted -/
def NormalKeys (s : Sample V) : Prop :=
  (s.kwargs.map (·.1)).Nodup ∧ ∀ k ∈ s.kwargs.map (·.1), normKey k = k

theorem zip_map_fst_snd {α β} : ∀ (l : List (α × β)), (l.map (·.1)).zip (l.map (·.2)) = l
  | [] => rfl
  | x :: xs => by simp [zip_map_fst_snd xs]

theorem mapOpt_dictGet_keys {K} [DecidableEq K] : ∀ (d : List (K × V)), (d.map (·.1)).Nodup →
    mapOpt (dictGet d) (d.map (·.1)) = some (d.map (·.2))
  | [], _ => rfl
  | (k, v) :: rest, h => by
    simp only [List.map_cons, List.nodup_cons] at h
    simp only [List.map_cons]
    apply mapOpt_cons_some
    · simp [dictGet]
    · rw [← mapOpt_dictGet_keys rest h.2]
      apply mapOpt_congr
      intro k' hk'
      have : k ≠ k' := fun e => h.1 (e ▸ hk')
      simp [dictGet, this]

theorem mkSample_of_normal (s : Sample V) (hn : NormalKeys s) :
    mkSample s.ll s.lp s.w ((s.kwargs.map (·.1)).zip (s.kwargs.map (·.2))) = s := by
  rw [zip_map_fst_snd]
  unfold mkSample
  have : s.kwargs.map (fun kv => (normKey kv.1, kv.2)) = s.kwargs := by
    conv => rhs; rw [← List.map_id s.kwargs]
    apply List.map_congr_left
    intro x hx
    have := hn.2 x.1 (List.mem_map.mpr ⟨x, hx, rfl⟩)
    simp [this]
  rw [this, dictOf_of_nodup _ hn.1]

theorem zipSamples_same_keys (keys : List Key) : ∀ (ss : List (Sample V)),
    (∀ s ∈ ss, s.kwargs.map (·.1) = keys ∧ NormalKeys s) →
    zipSamples keys (ss.map (·.ll)) (ss.map (·.lp)) (ss.map (·.w)) (ss.map fun s => s.kwargs.map (·.2)) = ss
  | [], _ => rfl
  | s :: rest, h => by
    simp only [List.map_cons, zipSamples]
    have hs := h s (by simp)
    rw [← hs.1, mkSample_of_normal s hs.2,
      zipSamples_same_keys (s.kwargs.map (·.1)) rest (fun x hx => by rw [hs.1]; exact h x (by simp [hx]))]

theorem mapOpt_values (keys : List Key) : ∀ (ss : List (Sample V)),
    (∀ s ∈ ss, s.kwargs.map (·.1) = keys ∧ NormalKeys s) →
    mapOpt (fun s : Sample V => mapOpt (dictGet s.kwargs) keys) ss = some (ss.map fun s => s.kwargs.map (·.2))
  | [], _ => rfl
  | s :: rest, h => by
    simp only [List.map_cons]
    apply mapOpt_cons_some
    · have hs := h s (by simp)
      rw [← hs.1]
      exact mapOpt_dictGet_keys s.kwargs hs.2.1
    · exact mapOpt_values keys rest (fun x hx => h x (by simp [hx]))

end Eff

/-! ## derived quantities -/

theorem mapOpt_drop_head {α β} (f : α → Option β) : ∀ (l : List α) (r : List β) (i : Nat),
    mapOpt f l = some r → ((l.drop i).head?).bind f = (r.drop i).head?
  | [], r, i, h => by simp [mapOpt] at h; subst h; simp
  | a :: as, r, i, h => by
    obtain ⟨b, bs, hb, hbs, rfl⟩ := (mapOpt_eq_some_iff_cons f a as r).mp h
    cases i with
    | zero => simp [hb]
    | succ i => simpa using mapOpt_drop_head f as bs i hbs

/-! ## what the `Sample` constructor guarantees about keys -/

section Ctor
variable {K V : Type} [DecidableEq K]

theorem dictInsert_keys (k : K) (v : V) : ∀ (d : List (K × V)),
    (dictInsert k v d).map (·.1) = if k ∈ d.map (·.1) then d.map (·.1) else d.map (·.1) ++ [k]
  | [] => by simp [dictInsert]
  | (k', v') :: rest => by
    simp only [dictInsert]
    by_cases h : k' = k
    · simp [h]
    · rw [if_neg h]
      simp only [List.map_cons, List.mem_cons]
      rw [dictInsert_keys k v rest]
      have hk : ¬ k = k' := fun e => h e.symm
      by_cases hm : k ∈ rest.map (·.1)
      · simp [hm]
      · simp [hm, hk]

theorem dictInsert_nodup (k : K) (v : V) (d : List (K × V)) (h : (d.map (·.1)).Nodup) :
    ((dictInsert k v d).map (·.1)).Nodup := by
  rw [dictInsert_keys]
  split
  · exact h
  · rename_i hk
    rw [List.nodup_append]
    exact ⟨h, by simp, fun a ha b hb => by simp at hb; subst hb; exact fun e => hk (e ▸ ha)⟩

theorem mem_dictInsert_keys (k : K) (v : V) (d : List (K × V)) (k' : K) :
    k' ∈ (dictInsert k v d).map (·.1) → k' = k ∨ k' ∈ d.map (·.1) := by
  rw [dictInsert_keys]
  split
  · exact Or.inr
  · intro h
    rw [List.mem_append] at h
    rcases h with h | h
    · exact Or.inr h
    · simp at h; exact Or.inl h

theorem dictFrom_nodup : ∀ (l acc : List (K × V)), (acc.map (·.1)).Nodup →
    ((dictFrom acc l).map (·.1)).Nodup
  | [], _, h => h
  | (k, v) :: rest, acc, h => dictFrom_nodup rest _ (dictInsert_nodup k v acc h)

theorem mem_dictFrom_keys : ∀ (l acc : List (K × V)) (k' : K), k' ∈ (dictFrom acc l).map (·.1) →
    k' ∈ acc.map (·.1) ∨ k' ∈ l.map (·.1)
  | [], _, _, h => Or.inl h
  | (k, v) :: rest, acc, k', h => by
    rcases mem_dictFrom_keys rest _ k' h with h | h
    · rcases mem_dictInsert_keys k v acc k' h with h | h
      · exact Or.inr (by simp [h])
      · exact Or.inl h
    · exact Or.inr (by simp only [List.map_cons, List.mem_cons]; exact Or.inr h)

end Ctor

theorem normKey_idem (k : Key) : normKey (normKey k) = normKey k := by
  cases k with
  | path p => rfl
  | str s =>
    by_cases h : hasDot s = true
    · simp [normKey, h]
    · simp [normKey, h]

/-- every sample built by the constructor has distinct, converted keys -/
theorem mkSample_normal {V : Type} (ll lp w : V) (kw : List (Key × V)) : NormalKeys (mkSample ll lp w kw) := by
  unfold mkSample NormalKeys dictOf
  refine ⟨dictFrom_nodup _ [] (by simp), ?_⟩
  intro k hk
  rcases mem_dictFrom_keys _ [] k hk with h | h
  · simp at h
  · simp only [List.map_map, List.mem_map, Function.comp] at h
    obtain ⟨x, _, rfl⟩ := h
    exact normKey_idem x.1

/-! ## look-ups depend on a dictionary only through what it returns -/

section Congr
variable {V : Type}

/-- two dictionaries that answer every key alike -/
def SameDict (kw kw' : List (Key × V)) : Prop := ∀ k, dictGet kw k = dictGet kw' k

theorem any_isPathKey_iff (kw : List (Key × V)) :
    kw.any (fun kv => isPathKey kv.1) = true ↔ ∃ k, isPathKey k = true ∧ (dictGet kw k).isSome := by
  rw [List.any_eq_true]
  constructor
  · rintro ⟨x, hx, hp⟩
    exact ⟨x.1, hp, dictGet_isSome_of_mem kw x.1 (List.mem_map.mpr ⟨x, hx, rfl⟩)⟩
  · rintro ⟨k, hp, hs⟩
    cases hg : dictGet kw k with
    | none => rw [hg] at hs; cases hs
    | some v => exact ⟨(k, v), dictGet_mem kw k v hg, hp⟩

theorem isPathKwargs_congr (cfg : Cfg) (hc : cfg.keysNormalised = true) {kw kw' : List (Key × V)}
    (h : SameDict kw kw') : isPathKwargs cfg kw = isPathKwargs cfg kw' := by
  unfold isPathKwargs
  rw [if_pos hc, if_pos hc]
  have : kw.any (fun kv => isPathKey kv.1) = true ↔ kw'.any (fun kv => isPathKey kv.1) = true := by
    rw [any_isPathKey_iff, any_isPathKey_iff]
    constructor <;> rintro ⟨k, hp, hs⟩
    · exact ⟨k, hp, by rw [← h k]; exact hs⟩
    · exact ⟨k, hp, by rw [h k]; exact hs⟩
  cases ha : kw.any (fun kv => isPathKey kv.1) <;> cases hb : kw'.any (fun kv => isPathKey kv.1) <;> simp_all

theorem valueForKey_congr (cfg : Cfg) {kw kw' : List (Key × V)} (h : SameDict kw kw') (k : Key) :
    valueForKey cfg kw k = valueForKey cfg kw' k := by
  unfold valueForKey
  rw [h k]
  cases dictGet kw' k with
  | some v => rfl
  | none =>
    simp only
    split
    · split
      · exact h _
      · rfl
      · exact h _
    · rfl

theorem firstFound_congr (cfg : Cfg) {kw kw' : List (Key × V)} (h : SameDict kw kw') :
    ∀ (ks : List Key), firstFound cfg kw ks = firstFound cfg kw' ks
  | [] => rfl
  | k :: ks => by
    unfold firstFound
    rw [valueForKey_congr cfg h k, firstFound_congr cfg h ks]

/-- **the order in which a sample holds its keys does not matter** (repaired look-up) -/
theorem paramList_congr (cfg : Cfg) (hc : cfg.keysNormalised = true) (sh : Shape) (s s' : Sample V)
    (h : SameDict s.kwargs s'.kwargs) : paramList cfg sh s = paramList cfg sh s' := by
  unfold paramList
  apply mapOpt_congr
  intro P _
  unfold keysFor
  rw [isPathKwargs_congr cfg hc h, firstFound_congr cfg h]

/-- reading the values of a key list out of a dictionary and zipping them back -/
theorem dictGet_zip_of_mapOpt (d : List (Key × V)) : ∀ (keys : List Key) (vals : List V),
    mapOpt (dictGet d) keys = some vals →
    ∀ k, dictGet (keys.zip vals) k = if k ∈ keys then dictGet d k else none
  | [], vals, h, k => by simp [mapOpt] at h; subst h; simp [dictGet]
  | k0 :: ks, vals, h, k => by
    obtain ⟨v0, vs, hv0, hvs, rfl⟩ := (mapOpt_eq_some_iff_cons _ _ _ _).mp h
    simp only [List.zip_cons_cons, dictGet]
    by_cases hk : k0 = k
    · subst hk; simp [hv0]
    · rw [if_neg hk, dictGet_zip_of_mapOpt d ks vs hvs k]
      have : ¬ k = k0 := fun e => hk e.symm
      simp [this]

theorem mapOpt_dictGet_of_subset (d : List (Key × V)) : ∀ (keys : List Key),
    (∀ k ∈ keys, k ∈ d.map (·.1)) → ∃ vals, mapOpt (dictGet d) keys = some vals
  | [], _ => ⟨[], rfl⟩
  | k0 :: ks, h => by
    obtain ⟨vs, hvs⟩ := mapOpt_dictGet_of_subset d ks (fun k hk => h k (by simp [hk]))
    have := dictGet_isSome_of_mem d k0 (h k0 (by simp))
    cases hg : dictGet d k0 with
    | none => rw [hg] at this; cases this
    | some v0 => exact ⟨v0 :: vs, mapOpt_cons_some _ _ _ _ _ hg hvs⟩

/-- one sample through the database rows when its key set is that of the first sample -/
theorem efficient_one (keys : List Key) (hnd : keys.Nodup) (hnorm : ∀ k ∈ keys, normKey k = k)
    (s : Sample V) (hsub : ∀ k, k ∈ keys ↔ k ∈ s.kwargs.map (·.1)) :
    ∃ vals, mapOpt (dictGet s.kwargs) keys = some vals ∧
      SameDict (mkSample s.ll s.lp s.w (keys.zip vals)).kwargs s.kwargs := by
  obtain ⟨vals, hvals⟩ := mapOpt_dictGet_of_subset s.kwargs keys (fun k hk => (hsub k).mp hk)
  refine ⟨vals, hvals, ?_⟩
  have hlen := mapOpt_length _ _ _ hvals
  have hmap : (keys.zip vals).map (fun kv => (normKey kv.1, kv.2)) = keys.zip vals := by
    conv => rhs; rw [← List.map_id (keys.zip vals)]
    apply List.map_congr_left
    intro x hx
    have := hnorm x.1 (List.of_mem_zip (a := x.1) (b := x.2) hx).1
    simp [this]
  unfold mkSample
  simp only [hmap]
  rw [dictOf_of_nodup _ (by rw [List.map_fst_zip (by omega)]; exact hnd)]
  intro k
  rw [dictGet_zip_of_mapOpt s.kwargs keys vals hvals k]
  split
  · rfl
  · rename_i hk
    exact (dictGet_none_of_not_mem s.kwargs k (fun hm => hk ((hsub k).mpr hm))).symm

end Congr

theorem efficient_rows {V : Type} (cfg : Cfg) (hc : cfg.keysNormalised = true) (sh : Shape)
    (keys : List Key) (hnd : keys.Nodup) (hnorm : ∀ k ∈ keys, normKey k = k) :
    ∀ (ss : List (Sample V)), (∀ s ∈ ss, ∀ k, k ∈ keys ↔ k ∈ s.kwargs.map (·.1)) →
    ∃ vals, mapOpt (fun s : Sample V => mapOpt (dictGet s.kwargs) keys) ss = some vals ∧
      (zipSamples keys (ss.map (·.ll)) (ss.map (·.lp)) (ss.map (·.w)) vals).map (·.ll) = ss.map (·.ll) ∧
      (zipSamples keys (ss.map (·.ll)) (ss.map (·.lp)) (ss.map (·.w)) vals).map (·.lp) = ss.map (·.lp) ∧
      (zipSamples keys (ss.map (·.ll)) (ss.map (·.lp)) (ss.map (·.w)) vals).map (·.w) = ss.map (·.w) ∧
      mapOpt (paramList cfg sh) (zipSamples keys (ss.map (·.ll)) (ss.map (·.lp)) (ss.map (·.w)) vals) =
        mapOpt (paramList cfg sh) ss
  | [], _ => ⟨[], rfl, rfl, rfl, rfl, rfl⟩
  | s :: rest, h => by
    obtain ⟨vs, hvs, hsame⟩ := efficient_one keys hnd hnorm s (h s (by simp))
    obtain ⟨vals, hvals, h1, h2, h3, h4⟩ :=
      efficient_rows cfg hc sh keys hnd hnorm rest (fun x hx => h x (by simp [hx]))
    refine ⟨vs :: vals, mapOpt_cons_some _ _ _ _ _ hvs hvals, ?_, ?_, ?_, ?_⟩
    · simp [zipSamples, mkSample, h1]
    · simp [zipSamples, mkSample, h2]
    · simp [zipSamples, mkSample, h3]
    · simp only [List.map_cons, zipSamples, mapOpt]
      rw [paramList_congr cfg hc sh _ s hsame, h4]

end AF.SamplesIO
