import AFModel.ParEval

/-!
Helper lemmas for C14: the inductive invariants of the two pool state machines of `AFModel/ParEval.lean`.
-/

namespace AF.ParEval
variable {α : Type}

/-! ## generic list facts -/

theorem getElem?_set_cases {β : Type} {ws : List β} {c k : Nat} {x w : β}
    (h : (ws.set c x)[k]? = some w) :
    (k = c ∧ w = x ∧ c < ws.length) ∨ (k ≠ c ∧ ws[k]? = some w) := by
  rw [List.getElem?_set] at h
  by_cases hck : c = k
  · subst hck
    simp only [if_true] at h
    by_cases hl : c < ws.length
    · simp only [hl, if_true, Option.some.injEq] at h
      exact Or.inl ⟨rfl, h.symm, hl⟩
    · simp [hl] at h
  · simp only [hck, if_false] at h
    exact Or.inr ⟨fun e => hck e.symm, h⟩

theorem getElem?_set_self' {β : Type} {ws : List β} {c : Nat} {x w : β} (h : ws[c]? = some w) :
    (ws.set c x)[c]? = some x := by
  have hl : c < ws.length := by
    rcases Nat.lt_or_ge c ws.length with hl | hl
    · exact hl
    · rw [List.getElem?_eq_none hl] at h; cases h
  rw [List.getElem?_set]; simp [hl]

theorem getElem?_set_ne' {β : Type} {ws : List β} {c k : Nat} {x : β} (h : k ≠ c) :
    (ws.set c x)[k]? = ws[k]? := by
  rw [List.getElem?_set]
  have : ¬ c = k := fun e => h e.symm
  simp [this]

theorem lt_of_getElem?_some {β : Type} {l : List β} {i : Nat} {x : β} (h : l[i]? = some x) : i < l.length := by
  rcases Nat.lt_or_ge i l.length with hl | hl
  · exact hl
  · rw [List.getElem?_eq_none hl] at h; cases h

theorem drop_cons_getElem? {β : Type} {l : List β} {n : Nat} {r : β} {rest : List β}
    (h : l.drop n = r :: rest) : l[n]? = some r ∧ l.drop (n + 1) = rest ∧ n < l.length := by
  have h1 : (l.drop n).head? = some r := by rw [h]; rfl
  rw [List.head?_drop] at h1
  have h2 : (l.drop n).tail = rest := by rw [h]; rfl
  rw [List.tail_drop] at h2
  exact ⟨h1, h2, lt_of_getElem?_some h1⟩

/-! ## SneakyPool.map: the invariant -/

/-- positions handed out and not yet answered -/
def outstanding (ws : List (Worker α)) : Nat := (ws.map (fun w => w.pending.length)).sum

theorem outstanding_set (ws : List (Worker α)) (k : Nat) (w x : Worker α) (h : ws[k]? = some w) :
    outstanding (ws.set k x) + w.pending.length = outstanding ws + x.pending.length := by
  induction ws generalizing k with
  | nil => simp at h
  | cons a t ih =>
    cases k with
    | zero =>
      simp only [List.getElem?_cons_zero, Option.some.injEq] at h
      subst h
      simp only [outstanding, List.set_cons_zero, List.map_cons, List.sum_cons]
      omega
    | succ k =>
      simp only [List.getElem?_cons_succ] at h
      have := ih k h
      simp only [outstanding, List.set_cons_succ, List.map_cons, List.sum_cons] at this ⊢
      omega

theorem leftover_set (ws : List (Worker α)) (k : Nat) (w x : Worker α) (h : ws[k]? = some w) :
    leftover (ws.set k x) + w.pipe.length = leftover ws + x.pipe.length := by
  induction ws generalizing k with
  | nil => simp at h
  | cons a t ih =>
    cases k with
    | zero =>
      simp only [List.getElem?_cons_zero, Option.some.injEq] at h
      subst h
      simp only [leftover, List.set_cons_zero, List.map_cons, List.sum_cons]
      omega
    | succ k =>
      simp only [List.getElem?_cons_succ] at h
      have := ih k h
      simp only [leftover, List.set_cons_succ, List.map_cons, List.sum_cons] at this ⊢
      omega

theorem Worker.step_pipe (w : Worker α) : w.step.pipe = w.pipe := by
  unfold Worker.step Worker.pipe
  cases hh : w.hold with
  | some r => simp [List.append_assoc]
  | none =>
    cases hj : w.jobQ with
    | nil => simp [hh, hj]
    | cons j rest => simp

theorem Worker.step_pending (w : Worker α) : w.step.pending = w.pending := by
  unfold Worker.step
  cases hh : w.hold with
  | some r => rfl
  | none =>
    cases hj : w.jobQ with
    | nil => rfl
    | cons j rest => rfl

theorem Worker.step_performed (w : Worker α) :
    w.step.performed ++ w.step.jobQ.map (·.id) = w.performed ++ w.jobQ.map (·.id) := by
  unfold Worker.step
  cases hh : w.hold with
  | some r => rfl
  | none =>
    cases hj : w.jobQ with
    | nil => simp [hj]
    | cons j rest => simp

/-- The inductive invariant of one `map` call on the batch `js` (outcomes of the inputs in input order). -/
structure MapInv (js : List (Res α)) (s : MapSt α) : Prop where
  pos : 0 < s.ws.length
  todo : s.todo = js.drop s.next
  next_le : s.next ≤ js.length
  target : s.target = js.length
  slen : s.slots.length = js.length
  /-- FIFO pipeline of every worker = outcomes of the positions the caller noted for it, in order -/
  pipe : ∀ (k : Nat) (w : Worker α), s.ws[k]? = some w → w.pipe.map some = w.pending.map (fun i => js[i]?)
  /-- worker `k` has performed / still has queued exactly the submitted positions `≡ k (mod P)`, in order -/
  perf : ∀ (k : Nat) (w : Worker α), s.ws[k]? = some w →
    w.performed ++ w.jobQ.map (·.id) = (List.range s.next).filter (fun i => i % s.ws.length == k)
  count : s.count + outstanding s.ws = s.next
  slots : ∀ i, i < js.length →
    s.slots[i]? = some (js[i]?) ∨
      (s.slots[i]? = some none ∧ (s.next ≤ i ∨ ∃ k : Nat, ∃ w : Worker α, s.ws[k]? = some w ∧ i ∈ w.pending))

def Quiescent (ws : List (Worker α)) : Prop := ∀ w ∈ ws, w.jobQ = [] ∧ w.hold = none ∧ w.resQ = []

theorem outstanding_clear (ws : List (Worker α)) :
    outstanding (ws.map (fun w => { w with pending := [], performed := [] })) = 0 := by
  induction ws with
  | nil => rfl
  | cons a t ih =>
    simp only [outstanding, List.map_cons, List.sum_cons, List.map_map] at ih ⊢
    simpa using ih

theorem mapInv_init (ws : List (Worker α)) (js : List (Res α)) (hq : Quiescent ws) (hp : ws ≠ []) :
    MapInv js (initMap ws js) := by
  refine ⟨?_, ?_, ?_, ?_, ?_, ?_, ?_, ?_, ?_⟩
  · simp only [initMap, List.length_map]
    exact List.length_pos_iff.mpr hp
  · simp [initMap]
  · simp [initMap]
  · simp [initMap]
  · simp [initMap]
  · intro k w h
    simp only [initMap, List.getElem?_map, Option.map_eq_some_iff] at h
    obtain ⟨w0, h0, rfl⟩ := h
    have hm : w0 ∈ ws := List.mem_of_getElem? h0
    obtain ⟨h1, h2, h3⟩ := hq w0 hm
    simp [Worker.pipe, h1, h2, h3]
  · intro k w h
    simp only [initMap, List.getElem?_map, Option.map_eq_some_iff] at h
    obtain ⟨w0, h0, rfl⟩ := h
    have hm : w0 ∈ ws := List.mem_of_getElem? h0
    obtain ⟨h1, h2, h3⟩ := hq w0 hm
    simp [initMap, h1]
  · simp only [initMap, outstanding_clear]
  · intro i hi
    right
    simp [initMap, hi]

theorem mapInv_workerStep {js : List (Res α)} {s : MapSt α} (h : MapInv js s) (k : Nat) :
    MapInv js (s.workerStep k) := by
  unfold MapSt.workerStep
  cases hk : s.ws[k]? with
  | none => exact h
  | some w =>
    simp only
    refine ⟨?_, h.todo, h.next_le, h.target, h.slen, ?_, ?_, ?_, ?_⟩
    · simp only [List.length_set]; exact h.pos
    · intro k' w' hw'
      rcases getElem?_set_cases hw' with ⟨rfl, rfl, _⟩ | ⟨_, h'⟩
      · rw [Worker.step_pipe, Worker.step_pending]; exact h.pipe _ _ hk
      · exact h.pipe _ _ h'
    · intro k' w' hw'
      simp only [List.length_set]
      rcases getElem?_set_cases hw' with ⟨rfl, rfl, _⟩ | ⟨_, h'⟩
      · rw [Worker.step_performed]; exact h.perf _ _ hk
      · exact h.perf _ _ h'
    · have := outstanding_set s.ws k w w.step hk
      rw [Worker.step_pending] at this
      have hc := h.count
      simp only at hc ⊢
      omega
    · intro i hi
      rcases h.slots i hi with h1 | ⟨h1, h2⟩
      · exact Or.inl h1
      · refine Or.inr ⟨h1, ?_⟩
        rcases h2 with h2 | ⟨k', w', hw', hm⟩
        · exact Or.inl h2
        · right
          by_cases hkk : k' = k
          · subst hkk
            rw [hk] at hw'; cases hw'
            exact ⟨k', w.step, getElem?_set_self' hk, by rw [Worker.step_pending]; exact hm⟩
          · exact ⟨k', w', by rw [getElem?_set_ne' hkk]; exact hw', hm⟩

theorem mapInv_submit {js : List (Res α)} {s : MapSt α} (h : MapInv js s) (r : Res α) (rest : List (Res α))
    (ht : s.todo = r :: rest) : MapInv js (s.submit r rest) := by
  have hd : js.drop s.next = r :: rest := by rw [← h.todo]; exact ht
  obtain ⟨hjs, hrest, hlt⟩ := drop_cons_getElem? hd
  have hk : s.next % s.ws.length < s.ws.length := Nat.mod_lt _ h.pos
  have hw : s.ws[s.next % s.ws.length]? = some (s.ws[s.next % s.ws.length]) := List.getElem?_eq_getElem hk
  generalize hwd : s.ws[s.next % s.ws.length] = w at hw
  unfold MapSt.submit
  simp only [hw]
  refine ⟨?_, ?_, ?_, h.target, h.slen, ?_, ?_, ?_, ?_⟩
  · simp only [List.length_set]; exact h.pos
  · exact hrest.symm
  · exact hlt
  · intro k' w' hw'
    rcases getElem?_set_cases hw' with ⟨rfl, rfl, _⟩ | ⟨_, h'⟩
    · have := h.pipe _ _ hw
      simp only [Worker.pipe, List.map_append] at this ⊢
      simp only [← List.append_assoc] at this ⊢
      rw [this]
      simp [hjs]
    · exact h.pipe _ _ h'
  · intro k' w' hw'
    simp only [List.length_set, List.range_succ, List.filter_append]
    rcases getElem?_set_cases hw' with ⟨rfl, rfl, _⟩ | ⟨hne, h'⟩
    · have := h.perf _ _ hw
      simp only [List.map_append, ← List.append_assoc, this]
      simp
    · have := h.perf _ _ h'
      rw [this]
      have hne' : ¬ s.next % s.ws.length = k' := fun e => hne e.symm
      simp [hne']
  · have := outstanding_set s.ws _ w
      { w with jobQ := w.jobQ ++ [⟨s.next, r⟩], pending := w.pending ++ [s.next] } hw
    have hc := h.count
    simp only [List.length_append, List.length_singleton] at this
    simp only at hc ⊢
    omega
  · intro i hi
    rcases h.slots i hi with h1 | ⟨h1, h2⟩
    · exact Or.inl h1
    · refine Or.inr ⟨h1, ?_⟩
      rcases h2 with h2 | ⟨k', w', hw', hm⟩
      · by_cases hin : i = s.next
        · right
          refine ⟨_, _, getElem?_set_self' hw, ?_⟩
          simp [hin]
        · left
          show s.next + 1 ≤ i
          omega
      · right
        by_cases hkk : k' = s.next % s.ws.length
        · subst hkk
          rw [hw] at hw'; cases hw'
          refine ⟨_, _, getElem?_set_self' hw, ?_⟩
          simp [hm]
        · exact ⟨k', w', by rw [getElem?_set_ne' hkk]; exact hw', hm⟩

theorem mapInv_poll {js : List (Res α)} {s : MapSt α} (h : MapInv js s) : MapInv js s.poll := by
  unfold MapSt.poll
  simp only
  have hcur : ∀ c, MapInv js { s with cursor := c } := fun c =>
    ⟨h.pos, h.todo, h.next_le, h.target, h.slen, h.pipe, h.perf, h.count, h.slots⟩
  cases hc : s.ws[s.cursor]? with
  | none => exact hcur _
  | some w =>
    simp only
    cases hr : w.resQ with
    | nil => exact hcur _
    | cons r rq =>
      cases hp : w.pending with
      | nil => exact hcur _
      | cons i pd =>
        simp only
        have hpipe := h.pipe _ _ hc
        simp only [Worker.pipe, hr, hp, List.cons_append, List.map_cons, List.cons.injEq] at hpipe
        obtain ⟨hri, htl⟩ := hpipe
        have hin : i < js.length := lt_of_getElem?_some hri.symm
        refine ⟨?_, h.todo, h.next_le, h.target, ?_, ?_, ?_, ?_, ?_⟩
        · simp only [List.length_set]; exact h.pos
        · simp only [List.length_set]; exact h.slen
        · intro k' w' hw'
          rcases getElem?_set_cases hw' with ⟨rfl, rfl, _⟩ | ⟨_, h'⟩
          · simpa [Worker.pipe] using htl
          · exact h.pipe _ _ h'
        · intro k' w' hw'
          simp only [List.length_set]
          rcases getElem?_set_cases hw' with ⟨rfl, rfl, _⟩ | ⟨_, h'⟩
          · exact h.perf _ w hc
          · exact h.perf _ _ h'
        · have := outstanding_set s.ws _ w { w with resQ := rq, pending := pd } hc
          have hcn := h.count
          simp only [hp, List.length_cons] at this
          simp only at hcn ⊢
          omega
        · intro j hj
          by_cases hji : j = i
          · subst hji
            left
            have : j < s.slots.length := by rw [h.slen]; exact hj
            rw [List.getElem?_set]
            simp [this, hri]
          · have hne : ¬ i = j := fun e => hji e.symm
            rw [List.getElem?_set]
            simp only [hne, if_false]
            rcases h.slots j hj with h1 | ⟨h1, h2⟩
            · exact Or.inl h1
            · refine Or.inr ⟨h1, ?_⟩
              rcases h2 with h2 | ⟨k', w', hw', hm⟩
              · exact Or.inl h2
              · right
                by_cases hkk : k' = s.cursor
                · subst hkk
                  rw [hc] at hw'; cases hw'
                  refine ⟨_, _, getElem?_set_self' hc, ?_⟩
                  rw [hp] at hm
                  simp only [List.mem_cons] at hm
                  rcases hm with hm | hm
                  · exact absurd hm hji
                  · exact hm
                · exact ⟨k', w', by rw [getElem?_set_ne' hkk]; exact hw', hm⟩

theorem mapInv_step {js : List (Res α)} {s : MapSt α} (h : MapInv js s) (e : Nat) : MapInv js (s.step e) := by
  cases e with
  | zero =>
    show MapInv js s.mainStep
    unfold MapSt.mainStep
    cases ht : s.todo with
    | cons r rest => exact mapInv_submit h r rest ht
    | nil =>
      simp only
      split
      · exact mapInv_poll h
      · exact h
  | succ k => exact mapInv_workerStep h k

theorem mapInv_run {js : List (Res α)} {s : MapSt α} (h : MapInv js s) (evs : List Nat) : MapInv js (s.run evs) := by
  induction evs generalizing s with
  | nil => exact h
  | cons e t ih => exact ih (mapInv_step h e)

/-! ### what the invariant gives when the caller has finished -/

theorem emit_map_some (js : List (Res α)) : emit (js.map some) = serial js := by
  induction js with
  | nil => rfl
  | cons r t ih =>
    cases r with
    | ok v => simp [emit, serial, ih]
    | err e => simp [emit, serial]

theorem pending_nil_of_outstanding (ws : List (Worker α)) (h : outstanding ws = 0) :
    ∀ (k : Nat) (w : Worker α), ws[k]? = some w → w.pending = [] := by
  intro k w hk
  have := outstanding_set ws k w { w with pending := [] } hk
  simp only [List.length_nil] at this
  have : w.pending.length = 0 := by omega
  exact List.eq_nil_of_length_eq_zero this

structure MapDone (js : List (Res α)) (s : MapSt α) : Prop where
  slots : s.slots = js.map some
  next : s.next = js.length
  count : s.count = js.length
  idle : ∀ (k : Nat) (w : Worker α), s.ws[k]? = some w →
    w.jobQ = [] ∧ w.hold = none ∧ w.resQ = [] ∧ w.pending = []
  perf : ∀ (k : Nat) (w : Worker α), s.ws[k]? = some w →
    w.performed = (List.range js.length).filter (fun i => i % s.ws.length == k)

theorem mapInv_finished {js : List (Res α)} {s : MapSt α} (h : MapInv js s) (hf : s.finished = true) :
    MapDone js s := by
  simp only [MapSt.finished, Bool.and_eq_true, List.isEmpty_iff, decide_eq_true_eq] at hf
  obtain ⟨ht, hc⟩ := hf
  have hn : js.length ≤ s.next := by
    have := h.todo
    rw [ht] at this
    exact List.drop_eq_nil_iff.mp this.symm
  have hnext : s.next = js.length := Nat.le_antisymm h.next_le hn
  have hcount := h.count
  have htar := h.target
  have ho : outstanding s.ws = 0 := by omega
  have hcnt : s.count = js.length := by omega
  have hpend := pending_nil_of_outstanding s.ws ho
  have hidle : ∀ (k : Nat) (w : Worker α), s.ws[k]? = some w →
      w.jobQ = [] ∧ w.hold = none ∧ w.resQ = [] ∧ w.pending = [] := by
    intro k w hk
    have hp := hpend k w hk
    have := h.pipe k w hk
    rw [hp] at this
    simp only [List.map_nil, List.map_eq_nil_iff, Worker.pipe, List.append_eq_nil_iff] at this
    obtain ⟨h1, h2, h3⟩ := this
    refine ⟨h3, ?_, h1, hp⟩
    cases hh : w.hold with
    | none => rfl
    | some r => rw [hh] at h2; simp at h2
  refine ⟨?_, hnext, hcnt, hidle, ?_⟩
  · apply List.ext_getElem?
    intro i
    by_cases hi : i < js.length
    · rcases h.slots i hi with h1 | ⟨_, h2⟩
      · rw [h1]; simp [hi]
      · exfalso
        rcases h2 with h2 | ⟨k, w, hk, hm⟩
        · omega
        · rw [hpend k w hk] at hm; cases hm
    · have h1 : s.slots.length ≤ i := by rw [h.slen]; omega
      have h2 : (js.map some).length ≤ i := by simp; omega
      rw [List.getElem?_eq_none h1, List.getElem?_eq_none h2]
  · intro k w hk
    have := h.perf k w hk
    rw [(hidle k w hk).1, hnext] at this
    simpa using this

theorem quiescent_of_idle {ws : List (Worker α)}
    (h : ∀ (k : Nat) (w : Worker α), ws[k]? = some w → w.jobQ = [] ∧ w.hold = none ∧ w.resQ = [] ∧ w.pending = []) :
    Quiescent ws := by
  intro w hw
  obtain ⟨k, hk⟩ := List.getElem?_of_mem hw
  obtain ⟨h1, h2, h3, _⟩ := h k w hk
  exact ⟨h1, h2, h3⟩

theorem leftover_zero_of_quiescent {ws : List (Worker α)} (h : Quiescent ws) : leftover ws = 0 := by
  induction ws with
  | nil => rfl
  | cons a t ih =>
    have ha := h a (List.mem_cons_self)
    have ht : Quiescent t := fun w hw => h w (List.mem_cons_of_mem _ hw)
    have := ih ht
    simp only [leftover, List.map_cons, List.sum_cons] at this ⊢
    rw [this]
    simp [Worker.pipe, ha.1, ha.2.1, ha.2.2]

/-! ### length of the pool never changes; `runToEnd` is a run -/

theorem MapSt.step_length (s : MapSt α) (e : Nat) : (s.step e).ws.length = s.ws.length := by
  cases e with
  | zero =>
    show s.mainStep.ws.length = _
    unfold MapSt.mainStep
    cases ht : s.todo with
    | cons r rest =>
      simp only [MapSt.submit]
      split <;> simp
    | nil =>
      simp only
      split
      · unfold MapSt.poll
        simp only
        split
        · split <;> simp
        · rfl
      · rfl
  | succ k =>
    show (s.workerStep k).ws.length = _
    unfold MapSt.workerStep
    split <;> simp

theorem MapSt.run_length (s : MapSt α) (evs : List Nat) : (s.run evs).ws.length = s.ws.length := by
  induction evs generalizing s with
  | nil => rfl
  | cons e t ih =>
    show ((s.step e).run t).ws.length = _
    rw [ih, MapSt.step_length]

theorem MapSt.run_append (s : MapSt α) (a b : List Nat) : s.run (a ++ b) = (s.run a).run b := by
  simp [MapSt.run, List.foldl_append]

theorem MapSt.runToEnd_eq_run (fuel : Nat) (s : MapSt α) : ∃ evs, s.runToEnd fuel = s.run evs := by
  induction fuel generalizing s with
  | zero => exact ⟨[], rfl⟩
  | succ f ih =>
    unfold MapSt.runToEnd
    split
    · exact ⟨[], rfl⟩
    · obtain ⟨evs, he⟩ := ih (s.run (rrRound s.ws.length))
      exact ⟨rrRound s.ws.length ++ evs, by rw [he, MapSt.run_append]⟩

theorem mapBatch_eq_run (ws : List (Worker α)) (js : List (Res α)) (sched : List Nat) (fuel : Nat) :
    ∃ evs, mapBatch ws js sched fuel = (initMap ws js).run evs := by
  obtain ⟨evs, he⟩ := MapSt.runToEnd_eq_run fuel ((initMap ws js).run sched)
  exact ⟨sched ++ evs, by rw [mapBatch, he, MapSt.run_append]⟩

/-! ## Process.run_jobs: the invariant -/

/-- decomposition of the in-flight items around worker `k` -/
theorem rpipes_split (ws : List (RWorker α)) (k : Nat) (w : RWorker α) (h : ws[k]? = some w) :
    ∃ A B, rpipes ws = A ++ (w.pipe ++ B) ∧ ∀ x : RWorker α, rpipes (ws.set k x) = A ++ (x.pipe ++ B) := by
  induction ws generalizing k with
  | nil => simp at h
  | cons a t ih =>
    cases k with
    | zero =>
      simp only [List.getElem?_cons_zero, Option.some.injEq] at h
      subst h
      exact ⟨[], rpipes t, by simp [rpipes], fun x => by simp [rpipes]⟩
    | succ k =>
      simp only [List.getElem?_cons_succ] at h
      obtain ⟨A, B, h1, h2⟩ := ih k h
      refine ⟨a.pipe ++ A, B, ?_, fun x => ?_⟩
      · simp [rpipes, h1]
      · simp [rpipes, h2 x]

theorem jobsOf_append (a b : List (QItem α)) : jobsOf (a ++ b) = jobsOf a ++ jobsOf b := by
  induction a with
  | nil => rfl
  | cons x t ih => cases x <;> simp [jobsOf, ih]

theorem jobsOf_map_job (l : List (Job α)) : jobsOf (l.map QItem.job) = l := by
  induction l with
  | nil => rfl
  | cons x t ih => simp [jobsOf, ih]

theorem jobsOf_replicate_stop (n : Nat) : jobsOf (List.replicate n (QItem.stop : QItem α)) = [] := by
  induction n with
  | zero => rfl
  | succ n ih => simp [List.replicate_succ, jobsOf, ih]

theorem enumFrom_res (n : Nat) (js : List (Res α)) : (enumFrom n js).map (·.res) = js := by
  induction js generalizing n with
  | nil => rfl
  | cons r t ih => simp [enumFrom, ih]

theorem enumFrom_id (n : Nat) (js : List (Res α)) : (enumFrom n js).map (·.id) = List.range' n js.length := by
  induction js generalizing n with
  | nil => rfl
  | cons r t ih => simp [enumFrom, ih, List.range'_succ]

theorem rpipes_replicate (n : Nat) : rpipes (List.replicate n ({} : RWorker α)) = [] := by
  induction n with
  | zero => rfl
  | succ n ih => simp [List.replicate_succ, rpipes, RWorker.pipe, ih]

structure RunInv (js : List (Res α)) (s : RunSt α) : Prop where
  /-- nothing is lost or duplicated: yielded + in flight + still queued = the batch -/
  bag : (s.yielded ++ (rpipes s.ws ++ (jobsOf s.jobQ).map (·.res))).Perm js
  /-- jobs leave the shared queue in order, each once -/
  perf : s.performed ++ (jobsOf s.jobQ).map (·.id) = List.range js.length
  total : s.total = js.length
  count : s.cfg.countTwice = false → s.count = s.yielded.length
  done : s.done = true → s.total ≤ s.count

theorem runInv_init (cfg : Cfg) (P : Nat) (js : List (Res α)) : RunInv js (initRun cfg P js) := by
  have hj : jobsOf ((enumFrom 0 js).map QItem.job ++ (if cfg.pollEmpty then [] else List.replicate P QItem.stop))
      = enumFrom 0 js := by
    rw [jobsOf_append, jobsOf_map_job]
    split
    · simp [jobsOf]
    · simp [jobsOf_replicate_stop]
  refine ⟨?_, ?_, rfl, fun _ => rfl, ?_⟩
  · simp only [initRun, hj, rpipes_replicate, enumFrom_res, List.nil_append]
    exact List.Perm.refl _
  · simp only [initRun, hj, enumFrom_id, List.nil_append, List.range_eq_range']
  · intro h
    simp only [initRun, List.isEmpty_iff] at h
    simp [initRun, h]

theorem perm_take_job (Y A p B R : List (Res α)) (x : Res α) :
    (Y ++ (A ++ ((p ++ [x]) ++ B) ++ R)).Perm (Y ++ (A ++ (p ++ B) ++ x :: R)) := by
  apply List.Perm.append_left
  have e1 : A ++ ((p ++ [x]) ++ B) ++ R = (A ++ p) ++ x :: (B ++ R) := by simp [List.append_assoc]
  have e2 : A ++ (p ++ B) ++ x :: R = (A ++ p ++ B) ++ x :: R := by simp [List.append_assoc]
  rw [e1, e2]
  refine (List.perm_middle).trans ?_
  refine List.Perm.trans ?_ (List.perm_middle).symm
  simp [List.append_assoc]

theorem perm_collect (Y A p B R : List (Res α)) (x : Res α) :
    ((Y ++ [x]) ++ (A ++ (p ++ B) ++ R)).Perm (Y ++ (A ++ ((x :: p) ++ B) ++ R)) := by
  have e1 : (Y ++ [x]) ++ (A ++ (p ++ B) ++ R) = Y ++ x :: (A ++ (p ++ B) ++ R) := by simp [List.append_assoc]
  rw [e1]
  apply List.Perm.append_left
  have e2 : A ++ ((x :: p) ++ B) ++ R = A ++ x :: (p ++ B ++ R) := by simp [List.append_assoc]
  rw [e2]
  refine List.Perm.trans ?_ (List.perm_middle).symm
  simp [List.append_assoc]

theorem runInv_setPipeEq {js : List (Res α)} {s : RunSt α} (h : RunInv js s) (k : Nat) (w x : RWorker α)
    (hk : s.ws[k]? = some w) (hp : x.pipe = w.pipe) : RunInv js { s with ws := s.ws.set k x } := by
  obtain ⟨A, B, h1, h2⟩ := rpipes_split s.ws k w hk
  refine ⟨?_, h.perf, h.total, h.count, h.done⟩
  have hb := h.bag
  simp only [h2 x, hp]
  rw [h1] at hb
  exact hb

theorem runInv_take {js : List (Res α)} {s : RunSt α} (h : RunInv js s) (k : Nat) (w : RWorker α)
    (hk : s.ws[k]? = some w) (hh : w.hold = none) : RunInv js (s.take k w) := by
  unfold RunSt.take
  cases hq : s.jobQ with
  | nil => simp only; exact h
  | cons q rest =>
    cases q with
    | stop =>
      simp only
      have := runInv_setPipeEq h k w { w with phase := .dead } hk rfl
      refine ⟨?_, ?_, this.total, this.count, this.done⟩
      · have hb := this.bag
        simp only [hq, jobsOf] at hb
        exact hb
      · have hb := this.perf
        simp only [hq, jobsOf] at hb
        exact hb
    | job j =>
      simp only
      obtain ⟨A, B, h1, h2⟩ := rpipes_split s.ws k w hk
      refine ⟨?_, ?_, h.total, h.count, h.done⟩
      · have hb := h.bag
        simp only [hq, jobsOf, List.map_cons, h1] at hb
        simp only [h2]
        have hx : ({ w with phase := Phase.idle, hold := some j.res } : RWorker α).pipe = w.pipe ++ [j.res] := by
          simp [RWorker.pipe, hh]
        rw [hx]
        have := perm_take_job s.yielded A w.pipe B ((jobsOf rest).map (·.res)) j.res
        simp only [List.append_assoc] at this hb ⊢
        exact this.trans hb
      · have hb := h.perf
        simp only [hq, jobsOf, List.map_cons] at hb
        simp only [List.append_assoc, List.singleton_append]
        exact hb

theorem runInv_workerStep {js : List (Res α)} {s : RunSt α} (h : RunInv js s) (k : Nat) (stale : Bool) :
    RunInv js (s.workerStep k stale) := by
  unfold RunSt.workerStep
  cases hk : s.ws[k]? with
  | none => exact h
  | some w =>
    simp only
    cases hh : w.hold with
    | some r =>
      simp only
      exact runInv_setPipeEq h k w _ hk (by simp [RWorker.pipe, hh])
    | none =>
      simp only
      cases hp : w.phase with
      | dead => exact h
      | committed => exact runInv_take h k w hk hh
      | idle =>
        simp only
        split
        · split
          · exact runInv_setPipeEq h k w _ hk (by simp [RWorker.pipe, hh])
          · exact runInv_setPipeEq h k w _ hk (by simp [RWorker.pipe, hh])
        · exact runInv_take h k w hk hh

theorem runInv_advance {js : List (Res α)} {s : RunSt α} (h : RunInv js s) (_hnd : ¬ s.done = true) :
    RunInv js s.advance := by
  unfold RunSt.advance RunSt.endOfPass
  split
  · exact ⟨h.bag, h.perf, h.total, h.count, h.done⟩
  · split
    · exact ⟨h.bag, h.perf, h.total, h.count, h.done⟩
    · refine ⟨h.bag, h.perf, h.total, h.count, fun _ => ?_⟩
      simp only
      omega

theorem runInv_mainStep {js : List (Res α)} {s : RunSt α} (h : RunInv js s) (stale : Bool) :
    RunInv js (s.mainStep stale) := by
  unfold RunSt.mainStep
  split
  · exact h
  · rename_i hnd
    cases hk : s.ws[s.cursor]? with
    | none => exact runInv_advance h hnd
    | some w =>
      simp only
      cases hr : w.resQ with
      | nil => exact runInv_advance h hnd
      | cons r rq =>
        simp only
        split
        · exact runInv_advance h hnd
        · obtain ⟨A, B, h1, h2⟩ := rpipes_split s.ws s.cursor w hk
          refine ⟨?_, h.perf, h.total, ?_, ?_⟩
          · have hb := h.bag
            simp only [h1] at hb
            simp only [h2]
            have hx : w.pipe = r :: ({ w with resQ := rq } : RWorker α).pipe := by
              simp [RWorker.pipe, hr]
            rw [hx] at hb
            have := perm_collect s.yielded A ({ w with resQ := rq } : RWorker α).pipe B
              ((jobsOf s.jobQ).map (·.res)) r
            simp only [List.append_assoc] at this hb ⊢
            exact this.trans hb
          · intro hc
            have hc' : s.cfg.countTwice = false := hc
            have := h.count hc'
            simp [hc', this]
          · intro hd
            simp only at hd
            exact absurd hd hnd

theorem runInv_step {js : List (Res α)} {s : RunSt α} (h : RunInv js s) (e : Ev) : RunInv js (s.step e) := by
  unfold RunSt.step
  split
  · exact runInv_mainStep h _
  · exact runInv_workerStep h _ _

theorem runInv_run {js : List (Res α)} {s : RunSt α} (h : RunInv js s) (evs : List Ev) : RunInv js (s.run evs) := by
  induction evs generalizing s with
  | nil => exact h
  | cons e t ih => exact ih (runInv_step h e)

structure RunDone (js : List (Res α)) (s : RunSt α) : Prop where
  yielded : s.yielded.Perm js
  performed : s.performed = List.range js.length
  no_jobs : jobsOf s.jobQ = []
  no_flight : rpipes s.ws = []

theorem runInv_done {js : List (Res α)} {s : RunSt α} (h : RunInv js s) (hc : s.cfg.countTwice = false)
    (hd : s.done = true) : RunDone js s := by
  have h1 := h.done hd
  have h2 := h.count hc
  have h3 := h.total
  have hl := h.bag.length_eq
  simp only [List.length_append, List.length_map] at hl
  have hr : (rpipes s.ws).length = 0 := by omega
  have hj : (jobsOf s.jobQ).length = 0 := by omega
  have hr' := List.eq_nil_of_length_eq_zero hr
  have hj' := List.eq_nil_of_length_eq_zero hj
  refine ⟨?_, ?_, hj', hr'⟩
  · have hb := h.bag
    simpa [hr', hj'] using hb
  · have hp := h.perf
    simpa [hj'] using hp

theorem RunSt.run_append (s : RunSt α) (a b : List Ev) : s.run (a ++ b) = (s.run a).run b := by
  simp [RunSt.run, List.foldl_append]

theorem RunSt.runToEnd_eq_run (fuel : Nat) (s : RunSt α) : ∃ evs, s.runToEnd fuel = s.run evs := by
  induction fuel generalizing s with
  | zero => exact ⟨[], rfl⟩
  | succ f ih =>
    unfold RunSt.runToEnd
    split
    · exact ⟨[], rfl⟩
    · obtain ⟨evs, he⟩ := ih (s.run (rrEvents s.ws.length))
      exact ⟨rrEvents s.ws.length ++ evs, by rw [he, RunSt.run_append]⟩

theorem RunSt.advance_cfg (s : RunSt α) : s.advance.cfg = s.cfg := by
  unfold RunSt.advance RunSt.endOfPass
  repeat' split
  all_goals rfl

theorem RunSt.step_cfg (s : RunSt α) (e : Ev) : (s.step e).cfg = s.cfg := by
  unfold RunSt.step
  split
  · unfold RunSt.mainStep
    repeat' split
    all_goals first | rfl | exact RunSt.advance_cfg s
  · unfold RunSt.workerStep RunSt.take
    repeat' split
    all_goals rfl

theorem RunSt.run_cfg (s : RunSt α) (evs : List Ev) : (s.run evs).cfg = s.cfg := by
  induction evs generalizing s with
  | nil => rfl
  | cons e t ih =>
    show ((s.step e).run t).cfg = _
    rw [ih, RunSt.step_cfg]

/-! ### pinned behaviour: once every worker has left with jobs outstanding, the caller never returns -/

def Stuck (s : RunSt α) : Prop :=
  s.done = false ∧ s.count < s.total ∧
    ∀ (k : Nat) (w : RWorker α), s.ws[k]? = some w → w.phase = .dead ∧ w.hold = none ∧ w.resQ = []

theorem stuck_advance {s : RunSt α} (h : Stuck s) : Stuck s.advance := by
  obtain ⟨hd, hc, hw⟩ := h
  unfold RunSt.advance RunSt.endOfPass
  split
  · exact ⟨hd, hc, hw⟩
  · first
      | exact ⟨hd, hc, hw⟩
      | (split
         · exact ⟨hd, hc, hw⟩
         · rename_i h1; exact absurd hc h1)

theorem stuck_step {s : RunSt α} (h : Stuck s) (e : Ev) : Stuck (s.step e) := by
  have h0 := h
  obtain ⟨hd, hc, hw⟩ := h
  unfold RunSt.step
  split
  · unfold RunSt.mainStep
    split
    · rename_i h1; rw [hd] at h1; cases h1
    · cases hk : s.ws[s.cursor]? with
      | none => exact stuck_advance h0
      | some w =>
        have := (hw _ _ hk).2.2
        simp only [this]
        exact stuck_advance h0
  · rename_i k _
    unfold RunSt.workerStep
    cases hk : s.ws[k]? with
    | none => exact ⟨hd, hc, hw⟩
    | some w =>
      obtain ⟨h1, h2, _⟩ := hw _ _ hk
      simp only [h2, h1]
      exact ⟨hd, hc, hw⟩

theorem stuck_run {s : RunSt α} (h : Stuck s) (evs : List Ev) : Stuck (s.run evs) := by
  induction evs generalizing s with
  | nil => exact h
  | cons e t ih => exact ih (stuck_step h e)

end AF.ParEval
