import AFModel.DblArith
import AFProofs.Lemmas.PriorDbl

/-!
Lemmas about IEEE arithmetic on doubles as data (`AFModel/DblArith.lean`) for `AFProofs/C02.lean`:
`signed_mono` (an odd, magnitude-monotone map is monotone in the order of `Dbl`), multiplication by a
positive finite double and addition of a finite double are non-decreasing, negation is order reversing.
-/

namespace AF.Prior

namespace Dbl

theorem key_bounds (x : Dbl) (h : x.isNaN = false) : -(infMag : Int) ≤ x.key ∧ x.key ≤ infMag := by
  rw [isNaN_false_iff] at h
  unfold key
  split <;> omega

/-- `x ↦ (sign x, g |x|)` is non-decreasing when `g` is non-decreasing on magnitudes and fixes 0 -/
theorem signed_mono (g : Nat → Nat) (hg : ∀ m m', m ≤ m' → m' ≤ infMag → g m ≤ g m') (hg0 : g 0 = 0)
    (hgi : ∀ m, m ≤ infMag → g m ≤ infMag) (a b : Dbl) (h : a ≤ b) :
    (⟨a.neg, g a.mag⟩ : Dbl) ≤ ⟨b.neg, g b.mag⟩ := by
  rw [le_def] at h
  obtain ⟨ha, hb, hk⟩ := h
  obtain ⟨na, ma⟩ := a
  obtain ⟨nb, mb⟩ := b
  rw [isNaN_false_iff] at ha hb
  simp only at ha hb
  rw [le_def]
  refine ⟨(isNaN_false_iff _).mpr (hgi ma ha), (isNaN_false_iff _).mpr (hgi mb hb), ?_⟩
  have m1 := hg ma mb
  have m2 := hg mb ma
  have m5 := hg ma 0
  have m6 := hg mb 0
  rw [hg0] at m5 m6
  have hinf : (0 : Nat) ≤ infMag := Nat.zero_le _
  simp only [key] at hk ⊢
  cases na <;> cases nb <;> simp only [if_true, if_false, Bool.false_eq_true] at hk ⊢
  · have := m1 (by omega) hb; omega
  · have := m5 (by omega) hinf
    have := m6 (by omega) hinf
    omega
  · omega
  · have := m2 (by omega) ha; omega

/-! ### rounding a signed fraction -/

theorem ofRat_notNaN (n : Int) (den : Nat) : (ofRat n den).isNaN = false := by
  rw [isNaN_false_iff]
  exact nearestBits_le_inf _ _

theorem ofRat_key (n : Int) (den : Nat) :
    (ofRat n den).key = if n < 0 then -(nearestBits n.natAbs den : Int) else (nearestBits n.natAbs den : Int) := by
  unfold ofRat key
  by_cases h : n < 0 <;> simp [h]

theorem ofRat_key_mono (n n' : Int) (den : Nat) (hden : den ≠ 0) (h : n ≤ n') :
    (ofRat n den).key ≤ (ofRat n' den).key := by
  rw [ofRat_key, ofRat_key]
  have z := nearestBits_zero den
  by_cases h1 : n < 0 <;> by_cases h2 : n' < 0 <;> simp only [h1, h2, if_true, if_false]
  · have := nearestBits_mono n'.natAbs n.natAbs den hden (by omega)
    omega
  · omega
  · omega
  · have := nearestBits_mono n.natAbs n'.natAbs den hden (by omega)
    omega

/-! ### negation -/

theorem neg_key (a : Dbl) : (neg' a).key = -a.key := by
  unfold neg' key
  cases a.neg <;> simp

theorem neg_isNaN (a : Dbl) : (neg' a).isNaN = a.isNaN := rfl

theorem neg_exact (a : Dbl) : (neg' a).exact = -a.exact := by
  unfold neg' exact
  cases a.neg <;> simp

theorem neg_anti (a b : Dbl) (h : a ≤ b) : neg' b ≤ neg' a := by
  rw [le_def] at *
  rw [neg_key, neg_key, neg_isNaN, neg_isNaN]
  exact ⟨h.2.1, h.1, by omega⟩

/-! ### addition of a finite double -/

theorem finite_iff (a : Dbl) : a.isFinite = true ↔ a.mag < infMag := by
  unfold isFinite; simp

theorem isInf_iff (a : Dbl) : a.isInf = true ↔ a.mag = infMag := by
  unfold isInf; simp

/-- key of a finite sum: the rounded exact sum -/
theorem add_finite_key (a b : Dbl) (ha : a.mag < infMag) (hb : b.mag < infMag) :
    (add a b).isNaN = false ∧ (add a b).key = (ofRat (a.exact + b.exact) (2 ^ 1074)).key := by
  have na : a.isNaN = false := (isNaN_false_iff a).mpr (by omega)
  have nb : b.isNaN = false := (isNaN_false_iff b).mpr (by omega)
  have ia : a.isInf = false := by
    cases h : a.isInf
    · rfl
    · have := (isInf_iff a).mp h; omega
  have ib : b.isInf = false := by
    cases h : b.isInf
    · rfl
    · have := (isInf_iff b).mp h; omega
  unfold add
  simp only [na, nb, ia, ib, Bool.or_self, Bool.false_eq_true, if_false]
  by_cases hn : a.exact + b.exact = 0
  · simp only [hn, if_true]
    refine ⟨by simp [isNaN, infMag], ?_⟩
    rw [ofRat_key]
    simp [key, nearestBits_zero]
  · simp only [hn, if_false]
    exact ⟨ofRat_notNaN _ _, trivial⟩

/-- `x ↦ x + b` is non-decreasing for a finite `b` (infinite `x` included) -/
theorem add_mono_left (a a' b : Dbl) (hb : b.isFinite = true) (h : a ≤ a') : add a b ≤ add a' b := by
  rw [finite_iff] at hb
  obtain ⟨ha, ha', hk⟩ := (le_def a a').mp h
  have nb : b.isNaN = false := (isNaN_false_iff b).mpr (by omega)
  have ib : b.isInf = false := by
    cases h : b.isInf
    · rfl
    · have := (isInf_iff b).mp h; omega
  have hma := (isNaN_false_iff a).mp ha
  have hma' := (isNaN_false_iff a').mp ha'
  have hpos : (0 : Nat) < infMag := by decide +kernel
  -- infinite operands are returned unchanged
  have infcase : ∀ x : Dbl, x.isNaN = false → x.mag = infMag → add x b = x := by
    intro x hx hxm
    have ix : x.isInf = true := (isInf_iff x).mpr hxm
    unfold add
    simp [hx, nb, ix, ib]
  by_cases fa : a.mag < infMag <;> by_cases fa' : a'.mag < infMag
  · -- both finite
    obtain ⟨n1, k1⟩ := add_finite_key a b fa hb
    obtain ⟨n2, k2⟩ := add_finite_key a' b fa' hb
    rw [le_def]
    refine ⟨n1, n2, ?_⟩
    rw [k1, k2]
    apply ofRat_key_mono _ _ _ (by have := Nat.two_pow_pos 1074; omega)
    have := (le_iff_exact a a' ((finite_iff a).mpr fa) ((finite_iff a').mpr fa')).mp h
    omega
  · -- a finite, a' infinite
    have e' := infcase a' ha' (by omega)
    obtain ⟨n1, _⟩ := add_finite_key a b fa hb
    rw [e', le_def]
    refine ⟨n1, ha', ?_⟩
    have kb := key_bounds _ n1
    have : a'.key = infMag ∨ a'.key = -(infMag : Int) := by
      unfold key; split <;> omega
    have ka : -(infMag : Int) < a.key := by unfold key; split <;> omega
    omega
  · -- a infinite, a' finite
    have e := infcase a ha (by omega)
    obtain ⟨n2, _⟩ := add_finite_key a' b fa' hb
    rw [e, le_def]
    refine ⟨ha, n2, ?_⟩
    have kb := key_bounds _ n2
    have : a.key = infMag ∨ a.key = -(infMag : Int) := by
      unfold key; split <;> omega
    have ka : a'.key < (infMag : Int) := by unfold key; split <;> omega
    omega
  · rw [infcase a ha (by omega), infcase a' ha' (by omega)]
    exact h

/-! ### addition is commutative; monotone in the second argument -/

theorem add_comm (a b : Dbl) : add a b = add b a := by
  obtain ⟨sa, ma⟩ := a
  obtain ⟨sb, mb⟩ := b
  unfold add
  simp only [isNaN, isInf, exact]
  by_cases na : infMag < ma <;> by_cases nb : infMag < mb <;>
    simp only [na, nb, decide_true, decide_false, Bool.or_true, Bool.true_or, Bool.or_self, if_true,
      Bool.false_eq_true, if_false]
  by_cases ia : ma = infMag <;> by_cases ib : mb = infMag <;>
    simp only [ia, ib, decide_true, decide_false, Bool.true_and, Bool.false_and, if_true,
      Bool.false_eq_true, if_false]
  · cases sa <;> cases sb <;> simp
  · rw [Int.add_comm, Bool.and_comm]

theorem add_mono_right (a b b' : Dbl) (ha : a.isFinite = true) (h : b ≤ b') : add a b ≤ add a b' := by
  rw [add_comm a b, add_comm a b']
  exact add_mono_left b b' a ha h

/-! ### bounds give finiteness -/

theorem finite_of_between (x lo hi : Dbl) (hlo : lo ≤ x) (hhi : x ≤ hi) (flo : lo.isFinite = true)
    (fhi : hi.isFinite = true) : x.isFinite = true := by
  rw [finite_iff] at *
  have h1 := hlo.2.2
  have h2 := hhi.2.2
  unfold key at h1 h2
  cases hx : x.neg <;> cases hl : lo.neg <;> cases hh : hi.neg <;>
    simp only [hx, hl, hh, if_true, if_false, Bool.false_eq_true] at h1 h2 <;> omega

/-! ### the difference of two distinct finite doubles is not zero -/

theorem nearestBits_pos (num den : Nat) (hden : 0 < den) (h : den ≤ num * 2 ^ 1074) :
    0 < nearestBits num den := by
  rw [nearestBits_eq _ _ (by omega)]
  have hpos : (0 : Nat) < infMag := by decide +kernel
  have : 0 < nbRaw (num * 2 ^ 1074) den := by
    unfold nbRaw
    generalize num * 2 ^ 1074 = N at *
    by_cases hs : (N / den).log2 - 52 = 0
    · rw [hs, Nat.pow_zero, Nat.mul_one]
      have : 1 ≤ divRoundHalfEven N den := rhe_ge_of_mul_le N 1 den hden (by omega)
      omega
    · have : 0 < ((N / den).log2 - 52) * 2 ^ 52 := Nat.mul_pos (by omega) (Nat.two_pow_pos 52)
      exact Nat.lt_of_lt_of_le this (Nat.le_add_right _ _)
  split <;> omega

theorem lt_iff_exact (a b : Dbl) (ha : a.isFinite = true) (hb : b.isFinite = true) :
    a < b ↔ a.exact < b.exact := by
  have h := le_iff_exact b a hb ha
  have ha' := (finite_iff a).mp ha
  have hb' := (finite_iff b).mp hb
  have na : a.isNaN = false := (isNaN_false_iff a).mpr (by omega)
  have nb : b.isNaN = false := (isNaN_false_iff b).mpr (by omega)
  rw [lt_def]
  rw [le_def] at h
  simp only [na, nb, true_and] at h ⊢
  omega

/-- `U - L` for finite `L < U` is a positive double (it may be `+inf`) -/
theorem sub_pos (L U : Dbl) (hL : L.isFinite = true) (hU : U.isFinite = true) (h : L < U) :
    (sub U L).neg = false ∧ 0 < (sub U L).mag := by
  have hx := (lt_iff_exact L U hL hU).mp h
  have hL' := (finite_iff L).mp hL
  have hU' := (finite_iff U).mp hU
  have nL : L.isNaN = false := (isNaN_false_iff L).mpr (by omega)
  have nU : U.isNaN = false := (isNaN_false_iff U).mpr (by omega)
  have iL : (neg' L).isInf = false := by
    cases h : (neg' L).isInf
    · rfl
    · have := (isInf_iff _).mp h; simp only [neg'] at this; omega
  have iU : U.isInf = false := by
    cases h : U.isInf
    · rfl
    · have := (isInf_iff _).mp h; omega
  unfold sub add
  rw [neg_isNaN, neg_exact]
  have hn : ¬ (U.exact + -L.exact = 0) := by omega
  simp only [nL, nU, iL, iU, Bool.or_self, Bool.false_eq_true, if_false, hn]
  unfold ofRat
  refine ⟨by simp; omega, ?_⟩
  simp only
  apply nearestBits_pos _ _ (Nat.two_pow_pos 1074)
  apply Nat.le_mul_of_pos_left
  omega

/-! ### multiplication by a positive finite double -/

/-- magnitude of `c * x` for a finite `c` -/
def mulMag (cm : Nat) (m : Nat) : Nat :=
  if m = infMag then infMag else nearestBits (magVal cm * magVal m) (2 ^ 1074 * 2 ^ 1074)

theorem mulMag_spec (cm : Nat) :
    (∀ m m', m ≤ m' → m' ≤ infMag → mulMag cm m ≤ mulMag cm m') ∧ mulMag cm 0 = 0 ∧
    (∀ m, m ≤ infMag → mulMag cm m ≤ infMag) := by
  have hpos : (0 : Nat) < infMag := by decide +kernel
  refine ⟨?_, ?_, ?_⟩
  · intro m m' h hm'
    unfold mulMag
    split <;> split
    · omega
    · omega
    · exact nearestBits_le_inf _ _
    · apply nearestBits_mono _ _ _ (by have := Nat.two_pow_pos 1074; have := Nat.mul_pos this this; omega)
      exact Nat.mul_le_mul_left _ (magVal_mono m m' h)
  · unfold mulMag
    rw [if_neg (by omega), magVal_zero, Nat.mul_zero, nearestBits_zero]
  · intro m _
    unfold mulMag
    split
    · omega
    · exact nearestBits_le_inf _ _

/-- `c * x` for a positive finite `c` and a non-NaN `x`: the sign of `x`, the magnitude `mulMag` -/
theorem mul_pos_left_form (c x : Dbl) (hc : c.mag < infMag) (hc0 : 0 < c.mag) (hcn : c.neg = false)
    (hx : x.isNaN = false) : mul c x = ⟨x.neg, mulMag c.mag x.mag⟩ := by
  have nc : c.isNaN = false := (isNaN_false_iff c).mpr (by omega)
  have ic : c.isInf = false := by
    cases h : c.isInf
    · rfl
    · have := (isInf_iff c).mp h; omega
  have c0 : decide (c.mag = 0) = false := by simp; omega
  unfold mul mulMag
  simp only [nc, hx, ic, c0, hcn, Bool.or_self, Bool.false_eq_true, if_false, Bool.false_and, Bool.and_false,
    Bool.false_or, Bool.false_bne]
  by_cases hi : x.mag = infMag
  · have : x.isInf = true := (isInf_iff x).mpr hi
    simp [this, hi]
  · have : x.isInf = false := by
      cases h : x.isInf
      · rfl
      · exact absurd ((isInf_iff x).mp h) hi
    simp [this, hi]

/-- `x * c` for a positive finite `c` -/
theorem mul_pos_right_form (c x : Dbl) (hc : c.mag < infMag) (hc0 : 0 < c.mag) (hcn : c.neg = false)
    (hx : x.isNaN = false) : mul x c = ⟨x.neg, mulMag c.mag x.mag⟩ := by
  have nc : c.isNaN = false := (isNaN_false_iff c).mpr (by omega)
  have ic : c.isInf = false := by
    cases h : c.isInf
    · rfl
    · have := (isInf_iff c).mp h; omega
  have c0 : decide (c.mag = 0) = false := by simp; omega
  unfold mul mulMag
  simp only [nc, hx, ic, c0, hcn, Bool.or_self, Bool.false_eq_true, if_false, Bool.false_and, Bool.and_false,
    Bool.or_false, Bool.bne_false]
  by_cases hi : x.mag = infMag
  · have : x.isInf = true := (isInf_iff x).mpr hi
    simp [this, hi]
  · have : x.isInf = false := by
      cases h : x.isInf
      · rfl
      · exact absurd ((isInf_iff x).mp h) hi
    simp [this, hi, Nat.mul_comm]

theorem mul_pos_left_mono (c x x' : Dbl) (hc : c.mag < infMag) (hc0 : 0 < c.mag) (hcn : c.neg = false)
    (h : x ≤ x') : mul c x ≤ mul c x' := by
  rw [mul_pos_left_form c x hc hc0 hcn h.1, mul_pos_left_form c x' hc hc0 hcn h.2.1]
  obtain ⟨g1, g2, g3⟩ := mulMag_spec c.mag
  exact signed_mono (mulMag c.mag) g1 g2 g3 x x' h

theorem mul_pos_right_mono (c x x' : Dbl) (hc : c.mag < infMag) (hc0 : 0 < c.mag) (hcn : c.neg = false)
    (h : x ≤ x') : mul x c ≤ mul x' c := by
  rw [mul_pos_right_form c x hc hc0 hcn h.1, mul_pos_right_form c x' hc hc0 hcn h.2.1]
  obtain ⟨g1, g2, g3⟩ := mulMag_spec c.mag
  exact signed_mono (mulMag c.mag) g1 g2 g3 x x' h

end Dbl

end AF.Prior
