import AFModel.DblArith
import AFProofs.Lemmas.PriorDbl

/-!
Lemmas about IEEE arithmetic on doubles as data (`AFModel/DblArith.lean`) for `AFProofs/C02.lean`:
`signed_mono` (an odd, magnitude-monotone map is monotone in the order of `Dbl`), multiplication by a
positive finite double and addition of a finite double are non-decreasing, negation is order reversing.
-/

namespace AF.Prior

namespace Dbl

theorem key_bounds (x : Dbl) (h : x.isNaN = false) : -(infMag : Int) ≤ x.key ∧ x.key ≤ infMag := by
  rw [isNaN_false_iff] at h
  unfold key
  split <;> omega

/-- `x ↦ (sign x, g |x|)` is non-decreasing when `g` is non-decreasing on magnitudes and fixes 0 -/
theorem signed_mono (g : Nat → Nat) (hg : ∀ m m', m ≤ m' → m' ≤ infMag → g m ≤ g m') (hg0 : g 0 = 0)
    (hgi : ∀ m, m ≤ infMag → g m ≤ infMag) (a b : Dbl) (h : a ≤ b) :
    (⟨a.neg, g a.mag⟩ : Dbl) ≤ ⟨b.neg, g b.mag⟩ := by
  rw [le_def] at h
  obtain ⟨ha, hb, hk⟩ := h
  obtain ⟨na, ma⟩ := a
  obtain ⟨nb, mb⟩ := b
  rw [isNaN_false_iff] at ha hb
  simp only at ha hb
  rw [le_def]
  refine ⟨(isNaN_false_iff _).mpr (hgi ma ha), (isNaN_false_iff _).mpr (hgi mb hb), ?_⟩
  have m1 := hg ma mb
  have m2 := hg mb ma
  have m5 := hg ma 0
  have m6 := hg mb 0
  rw [hg0] at m5 m6
  have hinf : (0 : Nat) ≤ infMag := Nat.zero_le _
  simp only [key] at hk ⊢
  cases na <;> cases nb <;> simp only [if_true, if_false, Bool.false_eq_true] at hk ⊢
  · have := m1 (by omega) hb; omega
  · have := m5 (by omega) hinf
    have := m6 (by omega) hinf
    omega
  · omega
  · have := m2 (by omega) ha; omega

/-! ### rounding a signed fraction -/

theorem ofRat_notNaN (n : Int) (den : Nat) : (ofRat n den).isNaN = false := by
  rw [isNaN_false_iff]
  exact nearestBits_le_inf _ _

theorem ofRat_key (n : Int) (den : Nat) :
    (ofRat n den).key = if n < 0 then -(nearestBits n.natAbs den : Int) else (nearestBits n.natAbs den : Int) := by
  unfold ofRat key
  by_cases h : n < 0 <;> simp [h]

theorem ofRat_key_mono (n n' : Int) (den : Nat) (hden : den ≠ 0) (h : n ≤ n') :
    (ofRat n den).key ≤ (ofRat n' den).key := by
  rw [ofRat_key, ofRat_key]
  have z := nearestBits_zero den
  by_cases h1 : n < 0 <;> by_cases h2 : n' < 0 <;> simp only [h1, h2, if_true, if_false]
  · have := nearestBits_mono n'.natAbs n.natAbs den hden (by omega)
    omega
  · omega
  · omega
  · have := nearestBits_mono n.natAbs n'.natAbs den hden (by omega)
    omega

/-! ### negation -/

theorem neg_key (a : Dbl) : (neg' a).key = -a.key := by
  unfold neg' key
  cases a.neg <;> simp

theorem neg_isNaN (a : Dbl) : (neg' a).isNaN = a.isNaN := rfl

theorem neg_exact (a : Dbl) : (neg' a).exact = -a.exact := by
  unfold neg' exact
  cases a.neg <;> simp

theorem neg_anti (a b : Dbl) (h : a ≤ b) : neg' b ≤ neg' a := by
  rw [le_def] at *
  rw [neg_key, neg_key, neg_isNaN, neg_isNaN]
  exact ⟨h.2.1, h.1, by omega⟩

/-! ### addition of a finite double -/

theorem finite_iff (a : Dbl) : a.isFinite = true ↔ a.mag < infMag := by
  unfold isFinite; simp

theorem isInf_iff (a : Dbl) : a.isInf = true ↔ a.mag = infMag := by
  unfold isInf; simp

/-- key of a finite sum: the rounded exact sum -/
theorem add_finite_key (a b : Dbl) (ha : a.mag < infMag) (hb : b.mag < infMag) :
    (add a b).isNaN = false ∧ (add a b).key = (ofRat (a.exact + b.exact) (2 ^ 1074)).key := by
  have na : a.isNaN = false := (isNaN_false_iff a).mpr (by omega)
  have nb : b.isNaN = false := (isNaN_false_iff b).mpr (by omega)
  have ia : a.isInf = false := by
    cases h : a.isInf
    · rfl
    · have := (isInf_iff a).mp h; omega
  have ib : b.isInf = false := by
    cases h : b.isInf
    · rfl
    · have := (isInf_iff b).mp h; omega
  unfold add
  simp only [na, nb, ia, ib, Bool.or_self, Bool.false_eq_true, if_false]
  by_cases hn : a.exact + b.exact = 0
  · simp only [hn, if_true]
    refine ⟨by simp [isNaN, infMag], ?_⟩
    rw [ofRat_key]
    simp [key, nearestBits_zero]
  · simp only [hn, if_false]
    exact ⟨ofRat_notNaN _ _, trivial⟩

/-- `x ↦ x + b` is non-decreasing for a finite `b` (infinite `x` included) -/
theorem add_mono_left (a a' b : Dbl) (hb : b.isFinite = true) (h : a ≤ a') : add a b ≤ add a' b := by
  rw [finite_iff] at hb
  obtain ⟨ha, ha', hk⟩ := (le_def a a').mp h
  have nb : b.isNaN = false := (isNaN_false_iff b).mpr (by omega)
  have ib : b.isInf = false := by
    cases h : b.isInf
    · rfl
    · have := (isInf_iff b).mp h; omega
  have hma := (isNaN_false_iff a).mp ha
  have hma' := (isNaN_false_iff a').mp ha'
  have hpos : (0 : Nat) < infMag := by decide +kernel
  -- infinite operands are returned unchanged
  have infcase : ∀ x : Dbl, x.isNaN = false → x.mag = infMag → add x b = x := by
    intro x hx hxm
    have ix : x.isInf = true := (isInf_iff x).mpr hxm
    unfold add
    simp [hx, nb, ix, ib]
  by_cases fa : a.mag < infMag <;> by_cases fa' : a'.mag < infMag
  · -- both finite
    obtain ⟨n1, k1⟩ := add_finite_key a b fa hb
    obtain ⟨n2, k2⟩ := add_finite_key a' b fa' hb
    rw [le_def]
    refine ⟨n1, n2, ?_⟩
    rw [k1, k2]
    apply ofRat_key_mono _ _ _ (by have := Nat.two_pow_pos 1074; omega)
    have := (le_iff_exact a a' ((finite_iff a).mpr fa) ((finite_iff a').mpr fa')).mp h
    omega
  · -- a finite, a' infinite
    have e' := infcase a' ha' (by omega)
    obtain ⟨n1, _⟩ := add_finite_key a b fa hb
    rw [e', le_def]
    refine ⟨n1, ha', ?_⟩
    have kb := key_bounds _ n1
    have : a'.key = infMag ∨ a'.key = -(infMag : Int) := by
      unfold key; split <;> omega
    have ka : -(infMag : Int) < a.key := by unfold key; split <;> omega
    omega
  · -- a infinite, a' finite
    have e := infcase a ha (by omega)
    obtain ⟨n2, _⟩ := add_finite_key a' b fa' hb
    rw [e, le_def]
    refine ⟨ha, n2, ?_⟩
    have kb := key_bounds _ n2
    have : a.key = infMag ∨ a.key = -(infMag : Int) := by
      unfold key; split <;> omega
    have ka : a'.key < (infMag : Int) := by unfold key; split <;> omega
    omega
  · rw [infcase a ha (by omega), infcase a' ha' (by omega)]
    exact h

/-! ### addition is commutative; monotone in the second argument -/

theorem add_comm (a b : Dbl) : add a b = add b a := by
  obtain ⟨sa, ma⟩ := a
  obtain ⟨sb, mb⟩ := b
  unfold add
  simp only [isNaN, isInf, exact]
  by_cases na : infMag < ma <;> by_cases nb : infMag < mb <;>
    simp only [na, nb, decide_true, decide_false, Bool.or_true, Bool.true_or, Bool.or_self, if_true,
      Bool.false_eq_true, if_false]
  by_cases ia : ma = infMag <;> by_cases ib : mb = infMag <;>
    simp only [ia, ib, decide_true, decide_false, Bool.true_and, Bool.false_and, if_true,
      Bool.false_eq_true, if_false]
  · cases sa <;> cases sb <;> simp
  · rw [Int.add_comm, Bool.and_comm]

theorem add_mono_right (a b b' : Dbl) (ha : a.isFinite = true) (h : b ≤ b') : add a b ≤ add a b' := by
  rw [add_comm a b, add_comm a b']
  exact add_mono_left b b' a ha h

/-! ### bounds give finiteness -/

theorem finite_of_between (x lo hi : Dbl) (hlo : lo ≤ x) (hhi : x ≤ hi) (flo : lo.isFinite = true)
    (fhi : hi.isFinite = true) : x.isFinite = true := by
  rw [finite_iff] at *
  have h1 := hlo.2.2
  have h2 := hhi.2.2
  unfold key at h1 h2
  cases hx : x.neg <;> cases hl : lo.neg <;> cases hh : hi.neg <;>
    simp only [hx, hl, hh, if_true, if_false, Bool.false_eq_true] at h1 h2 <;> omega

/-! ### the difference of two distinct finite doubles is not zero -/

theorem nearestBits_pos (num den : Nat) (hden : 0 < den) (h : den ≤ num * 2 ^ 1074) :
    0 < nearestBits num den := by
  rw [nearestBits_eq _ _ (by omega)]
  have hpos : (0 : Nat) < infMag := by decide +kernel
  have : 0 < nbRaw (num * 2 ^ 1074) den := by
    unfold nbRaw
    generalize num * 2 ^ 1074 = N at *
    by_cases hs : (N / den).log2 - 52 = 0
    · rw [hs, Nat.pow_zero, Nat.mul_one]
      have : 1 ≤ divRoundHalfEven N den := rhe_ge_of_mul_le N 1 den hden (by omega)
      omega
    · have : 0 < ((N / den).log2 - 52) * 2 ^ 52 := Nat.mul_pos (by omega) (Nat.two_pow_pos 52)
      exact Nat.lt_of_lt_of_le this (Nat.le_add_right _ _)
  split <;> omega

theorem lt_iff_exact (a b : Dbl) (ha : a.isFinite = true) (hb : b.isFinite = true) :
    a < b ↔ a.exact < b.exact := by
  have h := le_iff_exact b a hb ha
  have ha' := (finite_iff a).mp ha
  have hb' := (finite_iff b).mp hb
  have na : a.isNaN = false := (isNaN_false_iff a).mpr (by omega)
  have nb : b.isNaN = false := (isNaN_false_iff b).mpr (by omega)
  rw [lt_def]
  rw [le_def] at h
  simp only [na, nb, true_and] at h ⊢
  omega

/-- `U - L` for finite `L < U` is a positive double (it may be `+inf`) -/
theorem sub_pos (L U : Dbl) (hL : L.isFinite = true) (hU : U.isFinite = true) (h : L < U) :
    (sub U L).neg = false ∧ 0 < (sub U L).mag := by
  have hx := (lt_iff_exact L U hL hU).mp h
  have hL' := (finite_iff L).mp hL
  have hU' := (finite_iff U).mp hU
  have nL : L.isNaN = false := (isNaN_false_iff L).mpr (by omega)
  have nU : U.isNaN = false := (isNaN_false_iff U).mpr (by omega)
  have iL : (neg' L).isInf = false := by
    cases h : (neg' L).isInf
    · rfl
    · have := (isInf_iff _).mp h; simp only [neg'] at this; omega
  have iU : U.isInf = false := by
    cases h : U.isInf
    · rfl
    · have := (isInf_iff _).mp h; omega
  unfold sub add
  rw [neg_isNaN, neg_exact]
  have hn : ¬ (U.exact + -L.exact = 0) := by omega
  simp only [nL, nU, iL, iU, Bool.or_self, Bool.false_eq_true, if_false, hn]
  unfold ofRat
  refine ⟨by simp; omega, ?_⟩
  simp only
  apply nearestBits_pos _ _ (Nat.two_pow_pos 1074)
  apply Nat.le_mul_of_pos_left
  omega

/-! ### multiplication by a positive finite double -/

/-- magnitude of `c * x` for a finite `c` -/
def mulMag (cm : Nat) (m : Nat) : Nat :=
  if m = infMag then infMag else nearestBits (magVal cm * magVal m) (2 ^ 1074 * 2 ^ 1074)

theorem mulMag_spec (cm : Nat) :
    (∀ m m', m ≤ m' → m' ≤ infMag → mulMag cm m ≤ mulMag cm m') ∧ mulMag cm 0 = 0 ∧
    (∀ m, m ≤ infMag → mulMag cm m ≤ infMag) := by
  have hpos : (0 : Nat) < infMag := by decide +kernel
  refine ⟨?_, ?_, ?_⟩
  · intro m m' h hm'
    unfold mulMag
    split <;> split
    · omega
    · omega
    · exact nearestBits_le_inf _ _
    · apply nearestBits_mono _ _ _ (by have := Nat.two_pow_pos 1074; have := Nat.mul_pos this this; omega)
      exact Nat.mul_le_mul_left _ (magVal_mono m m' h)
  · unfold mulMag
    rw [if_neg (by omega), magVal_zero, Nat.mul_zero, nearestBits_zero]
  · intro m _
    unfold mulMag
    split
    · omega
    · exact nearestBits_le_inf _ _

/-- `c * x` for a positive finite `c` and a non-NaN `x`: the sign of `x`, the magnitude `mulMag` -/
theorem mul_pos_left_form (c x : Dbl) (hc : c.mag < infMag) (hc0 : 0 < c.mag) (hcn : c.neg = false)
    (hx : x.isNaN = false) : mul c x = ⟨x.neg, mulMag c.mag x.mag⟩ := by
  have nc : c.isNaN = false := (isNaN_false_iff c).mpr (by omega)
  have ic : c.isInf = false := by
    cases h : c.isInf
    · rfl
    · have := (isInf_iff c).mp h; omega
  have c0 : decide (c.mag = 0) = false := by simp; omega
  unfold mul mulMag
  simp only [nc, hx, ic, c0, hcn, Bool.or_self, Bool.false_eq_true, if_false, Bool.false_and, Bool.and_false,
    Bool.false_or, Bool.false_bne]
  by_cases hi : x.mag = infMag
  · have : x.isInf = true := (isInf_iff x).mpr hi
    simp [this, hi]
  · have : x.isInf = false := by
      cases h : x.isInf
      · rfl
      · exact absurd ((isInf_iff x).mp h) hi
    simp [this, hi]

/-- `x * c` for a positive finite `c` -/
theorem mul_pos_right_form (c x : Dbl) (hc : c.mag < infMag) (hc0 : 0 < c.mag) (hcn : c.neg = false)
    (hx : x.isNaN = false) : mul x c = ⟨x.neg, mulMag c.mag x.mag⟩ := by
  have nc : c.isNaN = false := (isNaN_false_iff c).mpr (by omega)
  have ic : c.isInf = false := by
    cases h : c.isInf
    · rfl
    · have := (isInf_iff c).mp h; omega
  have c0 : decide (c.mag = 0) = false := by simp; omega
  unfold mul mulMag
  simp only [nc, hx, ic, c0, hcn, Bool.or_self, Bool.false_eq_true, if_false, Bool.false_and, Bool.and_false,
    Bool.or_false, Bool.bne_false]
  by_cases hi : x.mag = infMag
  · have : x.isInf = true := (isInf_iff x).mpr hi
    simp [this, hi]
  · have : x.isInf = false := by
      cases h : x.isInf
      · rfl
      · exact absurd ((isInf_iff x).mp h) hi
    simp [this, hi, Nat.mul_comm]

theorem mul_pos_left_mono (c x x' : Dbl) (hc : c.mag < infMag) (hc0 : 0 < c.mag) (hcn : c.neg = false)
    (h : x ≤ x') : mul c x ≤ mul c x' := by
  rw [mul_pos_left_form c x hc hc0 hcn h.1, mul_pos_left_form c x' hc hc0 hcn h.2.1]
  obtain ⟨g1, g2, g3⟩ := mulMag_spec c.mag
  exact signed_mono (mulMag c.mag) g1 g2 g3 x x' h

theorem mul_pos_right_mono (c x x' : Dbl) (hc : c.mag < infMag) (hc0 : 0 < c.mag) (hcn : c.neg = false)
    (h : x ≤ x') : mul x c ≤ mul x' c := by
  rw [mul_pos_right_form c x hc hc0 hcn h.1, mul_pos_right_form c x' hc hc0 hcn h.2.1]
  obtain ⟨g1, g2, g3⟩ := mulMag_spec c.mag
  exact signed_mono (mulMag c.mag) g1 g2 g3 x x' h

/-! ### conversion to the nearest double fixes the doubles -/

/-- value of a normal significand times a power of two has the expected binary logarithm -/
theorem log2_shift (a k : Nat) (h1 : 2 ^ 52 ≤ a) (h2 : a < 2 ^ 53) : (a * 2 ^ k).log2 = 52 + k := by
  have hne : a * 2 ^ k ≠ 0 := by
    have := Nat.two_pow_pos k
    have : 0 < a * 2 ^ k := Nat.mul_pos (by omega) this
    omega
  have lo : 52 + k ≤ (a * 2 ^ k).log2 := by
    rw [Nat.le_log2 hne, Nat.pow_add]
    exact Nat.mul_le_mul_right _ h1
  have hi : (a * 2 ^ k).log2 < 53 + k := by
    rw [Nat.log2_lt hne, Nat.pow_add]
    exact (Nat.mul_lt_mul_right (Nat.two_pow_pos k)).mpr h2
  omega

/-- conversion to the nearest double fixes the doubles: the exact value of a finite double converts back to
its own bits -/
theorem nearestBits_magVal (m : Nat) (h : m < infMag) : nearestBits (magVal m) (2 ^ 1074) = m := by
  have hden : (2 : Nat) ^ 1074 ≠ 0 := by have := Nat.two_pow_pos 1074; omega
  rw [nearestBits_eq _ _ hden]
  have hm : m = (m / 2 ^ 52) * 2 ^ 52 + m % 2 ^ 52 := by
    have := Nat.div_add_mod m (2 ^ 52); omega
  have r1 : m % 2 ^ 52 < 2 ^ 52 := Nat.mod_lt _ (Nat.two_pow_pos 52)
  have hex : m / 2 ^ 52 < 2047 := by unfold infMag at h; omega
  generalize m / 2 ^ 52 = ex at *
  generalize m % 2 ^ 52 = fr at *
  have key : nbRaw (magVal m * 2 ^ 1074) (2 ^ 1074) = m := by
    unfold nbRaw
    rw [Nat.mul_div_cancel _ (Nat.two_pow_pos 1074)]
    rw [hm, magVal_eq ex fr r1]
    by_cases h0 : ex = 0
    · subst h0
      simp only [if_true, Nat.zero_mul, Nat.zero_add]
      have hl : fr.log2 - 52 = 0 := by
        by_cases hf : fr = 0
        · subst hf; simp
        · have := (Nat.log2_lt hf).mpr r1; omega
      rw [hl, Nat.pow_zero, Nat.mul_one, divRoundHalfEven_exact _ _ (Nat.two_pow_pos 1074)]
      omega
    · rw [if_neg h0]
      have hl := log2_shift (fr + 2 ^ 52) (ex - 1) (by omega) (by omega)
      rw [hl]
      have e : 52 + (ex - 1) - 52 = ex - 1 := by omega
      rw [e]
      have e2 : (fr + 2 ^ 52) * 2 ^ (ex - 1) * 2 ^ 1074 = (fr + 2 ^ 52) * (2 ^ 1074 * 2 ^ (ex - 1)) := by
        generalize 2 ^ 1074 = A
        generalize 2 ^ (ex - 1) = B
        ac_rfl
      rw [e2, divRoundHalfEven_exact _ _ (Nat.mul_pos (Nat.two_pow_pos 1074) (Nat.two_pow_pos _))]
      clear e2 hl e hden h hm hex
      obtain ⟨j, rfl⟩ : ∃ j, ex = j + 1 := ⟨ex - 1, by omega⟩
      simp only [Nat.add_sub_cancel]
      omega
  rw [key]
  simp [h]

/-- `x + 0` is `x` (up to the sign of a zero) for a finite `x` -/
theorem add_zero_key (x : Dbl) (hx : x.isFinite = true) : (add x zero).key = x.key := by
  have hm := (finite_iff x).mp hx
  obtain ⟨_, k⟩ := add_finite_key x zero hm (by decide +kernel)
  rw [k]
  have ez : zero.exact = 0 := by decide +kernel
  rw [ez, Int.add_zero, ofRat_key]
  unfold exact key
  cases hn : x.neg
  · simp only [Bool.false_eq_true, if_false]
    have : ¬ ((magVal x.mag : Int) < 0) := by omega
    simp only [this, if_false, Int.natAbs_natCast, nearestBits_magVal x.mag hm]
  · simp only [if_true]
    by_cases h0 : x.mag = 0
    · simp [h0, magVal_zero, nearestBits_zero]
    · have hp : 0 < magVal x.mag := by
        have := magVal_strictMono 0 x.mag (by omega)
        rw [magVal_zero] at this; exact this
      have : (-(magVal x.mag : Int)) < 0 := by omega
      simp only [this, if_true, Int.natAbs_neg, Int.natAbs_natCast, nearestBits_magVal x.mag hm]

/-! ### `random.uniform` on doubles -/

theorem notNaN_of_finite (x : Dbl) (h : x.isFinite = true) : x.isNaN = false :=
  (isNaN_false_iff x).mpr (by have := (finite_iff x).mp h; omega)

theorem zero_key : zero.key = 0 := by decide +kernel

theorem zero_le_of_key (x : Dbl) (hn : x.isNaN = false) (hk : 0 ≤ x.key) : zero ≤ x := by
  refine ⟨by decide +kernel, hn, ?_⟩
  rw [zero_key]
  exact hk

/-- `x - x` is a zero -/
theorem sub_self_key (x : Dbl) (hx : x.isFinite = true) : (sub x x).isNaN = false ∧ (sub x x).key = 0 := by
  have hm := (finite_iff x).mp hx
  obtain ⟨n, k⟩ := add_finite_key x (neg' x) hm hm
  unfold sub
  refine ⟨n, ?_⟩
  rw [k, neg_exact, ofRat_key]
  have : x.exact + -x.exact = 0 := by omega
  rw [this]
  simp [nearestBits_zero]

/-- `y - x ≥ 0` for finite `x ≤ y` -/
theorem sub_nonneg (x y : Dbl) (hx : x.isFinite = true) (hxy : x ≤ y) : zero ≤ sub y x := by
  have h1 := add_mono_left x y (neg' x) hx hxy
  obtain ⟨n, k⟩ := sub_self_key x hx
  have h0 : zero ≤ sub x x := zero_le_of_key _ n (by omega)
  exact le_trans _ _ _ h0 h1

/-- `d * r ≥ 0` for finite `d ≥ 0`, `r ≥ 0` -/
theorem mul_nonneg (d r : Dbl) (hd : d.isFinite = true) (hd0 : zero ≤ d) (hr : r.isFinite = true)
    (hr0 : zero ≤ r) : zero ≤ mul d r := by
  have hdm := (finite_iff d).mp hd
  have hrm := (finite_iff r).mp hr
  have nd := notNaN_of_finite d hd
  have nr := notNaN_of_finite r hr
  have kd : (0 : Int) ≤ d.key := by
    have := hd0.2.2
    rw [zero_key] at this
    exact this
  by_cases hz : d.mag = 0
  · -- a zero times a finite number is a zero
    have id : d.isInf = false := by
      cases h : d.isInf
      · rfl
      · have := (isInf_iff d).mp h; omega
    have ir : r.isInf = false := by
      cases h : r.isInf
      · rfl
      · have := (isInf_iff r).mp h; omega
    have e : mul d r = ⟨d.neg != r.neg, 0⟩ := by
      unfold mul
      simp only [nd, nr, id, ir, Bool.or_self, Bool.false_eq_true, if_false, Bool.false_and, hz, magVal_zero,
        Nat.zero_mul, nearestBits_zero]
    rw [e]
    exact zero_le_of_key _ (by simp [isNaN, infMag]) (by unfold key; split <;> simp)
  · have hdn : d.neg = false := by
      cases h : d.neg
      · rfl
      · unfold key at kd; rw [h] at kd; simp only [if_true] at kd; omega
    have h1 := mul_pos_left_mono d zero r hdm (by omega) hdn hr0
    have e : mul d zero = zero := by
      rw [mul_pos_left_form d zero hdm (by omega) hdn (by decide +kernel)]
      have := (mulMag_spec d.mag).2.1
      show (⟨false, mulMag d.mag 0⟩ : Dbl) = ⟨false, 0⟩
      rw [this]
    rw [e] at h1
    exact h1

/-- Python's `random.uniform(x, y) = x + (y - x) * r` never falls below `x` on doubles (`x ≤ y` finite with a
finite difference, `0 ≤ r` finite) -/
theorem uniform_ge_lower (x y r : Dbl) (hx : x.isFinite = true) (hxy : x ≤ y)
    (hd : (sub y x).isFinite = true) (hr : r.isFinite = true) (hr0 : zero ≤ r) :
    x ≤ add x (mul (sub y x) r) := by
  have h1 := mul_nonneg (sub y x) r hd (sub_nonneg x y hx hxy) hr hr0
  have h2 := add_mono_right x _ _ hx h1
  have k := add_zero_key x hx
  have nx := notNaN_of_finite x hx
  have h3 : x ≤ add x zero := ⟨nx, h2.1, by rw [k]; exact Int.le_refl _⟩
  exact le_trans _ _ _ h3 h2

end Dbl

end AF.Prior
