import AFProofs.Lemmas.Combined

namespace AF.Combined
open AF

/-! ### free parameters: the number of parameters of the fitted model -/

/-- the copies of the parameters `Fr` made for analyses `0 … n-1`, analysis by analysis -/
def freeBlocks (F : List Nat) (base : Nat) (Fr : List Nat) (n : Nat) : List Nat :=
  ((List.range n).map (fun k => Fr.map (freeRename F base k))).flatten

theorem freeBlocks_succ (F : List Nat) (base : Nat) (Fr : List Nat) (n : Nat) :
    freeBlocks F base Fr (n + 1) = freeBlocks F base Fr n ++ Fr.map (freeRename F base n) := by
  simp [freeBlocks, List.range_succ, List.map_append, List.flatten_append]

theorem mem_freeBlocks {F : List Nat} {base : Nat} {Fr : List Nat} {n x : Nat} :
    x ∈ freeBlocks F base Fr n ↔ ∃ k, k < n ∧ ∃ id, id ∈ Fr ∧ freeRename F base k id = x := by
  unfold freeBlocks
  simp only [List.mem_flatten, List.mem_map, List.mem_range]
  constructor
  · rintro ⟨l, ⟨k, hk, rfl⟩, hx⟩
    rw [List.mem_map] at hx
    obtain ⟨id, hid, he⟩ := hx
    exact ⟨k, hk, id, hid, he⟩
  · rintro ⟨k, hk, id, hid, he⟩
    exact ⟨_, ⟨k, hk, rfl⟩, List.mem_map.mpr ⟨id, hid, he⟩⟩

theorem length_freeBlocks (F : List Nat) (base : Nat) (Fr : List Nat) : ∀ (n : Nat),
    (freeBlocks F base Fr n).length = n * Fr.length
  | 0 => by simp [freeBlocks]
  | n + 1 => by
    rw [freeBlocks_succ, List.length_append, List.length_map, length_freeBlocks F base Fr n,
      Nat.succ_mul]

theorem nodup_freeBlock {F : List Nat} (base : Nat) {Fr : List Nat} (k : Nat) (hnd : Fr.Nodup)
    (hF : ∀ id ∈ Fr, id ∈ F) : (Fr.map (freeRename F base k)).Nodup := by
  unfold List.Nodup
  rw [List.pairwise_map]
  refine List.Pairwise.imp_of_mem ?_ hnd
  intro a b ha hb hab he
  exact hab (freeRename_inj base k k a b (hF a ha) (hF b hb) he).2

theorem nodup_freeBlocks {F : List Nat} (base : Nat) {Fr : List Nat} (hnd : Fr.Nodup)
    (hF : ∀ id ∈ Fr, id ∈ F) : ∀ (n : Nat), (freeBlocks F base Fr n).Nodup
  | 0 => by simp [freeBlocks]
  | n + 1 => by
    rw [freeBlocks_succ, List.nodup_append]
    refine ⟨nodup_freeBlocks base hnd hF n, nodup_freeBlock base n hnd hF, ?_⟩
    intro a ha b hb hab
    obtain ⟨k, hk, id, hid, he⟩ := mem_freeBlocks.mp ha
    obtain ⟨id', hid', he'⟩ := List.mem_map.mp hb
    have := (freeRename_inj base k n id id' (hF id hid) (hF id' hid')
      (by rw [he, he', hab])).1
    omega

theorem mem_uniqueIds {V : Type} {t : Node V} {id : Nat} :
    id ∈ uniqueIds t ↔ id ∈ (walk t).map (·.2) := by
  unfold uniqueIds
  exact mem_sortDedup

/-- the parameters of the fitted model: the copies of the model's parameters for each analysis -/
theorem mem_ids_freeModel {V : Type} (t : Node V) (F : List Nat) (base n x : Nat) :
    x ∈ (walk (freeModel t F base n)).map (·.2) ↔
      ∃ k, k < n ∧ ∃ id, id ∈ uniqueIds t ∧ freeRename F base k id = x := by
  rw [walk_freeModel]
  simp only [List.mem_map, List.mem_flatten, List.mem_range]
  constructor
  · rintro ⟨y, ⟨l, ⟨k, hk, rfl⟩, hy⟩, rfl⟩
    rw [List.mem_map] at hy
    obtain ⟨z, hz, rfl⟩ := hy
    exact ⟨k, hk, z.2, mem_uniqueIds.mpr (List.mem_map.mpr ⟨z, hz, rfl⟩), rfl⟩
  · rintro ⟨k, hk, id, hid, rfl⟩
    obtain ⟨z, hz, rfl⟩ := List.mem_map.mp (mem_uniqueIds.mp hid)
    exact ⟨(toString k :: z.1, freeRename F base k z.2),
      ⟨_, ⟨k, hk, rfl⟩, List.mem_map.mpr ⟨z, hz, rfl⟩⟩, rfl⟩

theorem nodup_uniqueIds {V : Type} (t : Node V) : (uniqueIds t).Nodup :=
  nodup_of_sorted (sorted_sortDedup _)

/-- the parameters of the fitted model, listed without repetition: the shared parameters, then
the copies of the free parameters analysis by analysis -/
theorem mem_freeModel_iff {V : Type} (t : Node V) (F : List Nat) (base n : Nat) (hn : 1 ≤ n)
    (x : Nat) :
    x ∈ uniqueIds (freeModel t F base n) ↔
      x ∈ (uniqueIds t).filter (fun id => !F.contains id) ++
        freeBlocks F base ((uniqueIds t).filter (fun id => F.contains id)) n := by
  rw [mem_uniqueIds, mem_ids_freeModel, List.mem_append, mem_freeBlocks, List.mem_filter]
  constructor
  · rintro ⟨k, hk, id, hid, he⟩
    by_cases hF : id ∈ F
    · exact Or.inr ⟨k, hk, id, List.mem_filter.mpr ⟨hid, List.contains_iff_mem.mpr hF⟩, he⟩
    · rw [freeRename_shared base k id hF] at he
      subst he
      exact Or.inl ⟨hid, by simpa using hF⟩
  · rintro (⟨hx, hc⟩ | ⟨k, hk, id, hid, he⟩)
    · have hF : x ∉ F := by simpa using hc
      exact ⟨0, by omega, x, hx, freeRename_shared base 0 x hF⟩
    · exact ⟨k, hk, id, (List.mem_filter.mp hid).1, he⟩

theorem nodup_freeList {V : Type} (t : Node V) (F : List Nat) (base n : Nat)
    (hbase : ∀ id ∈ uniqueIds t, id < base) :
    ((uniqueIds t).filter (fun id => !F.contains id) ++
        freeBlocks F base ((uniqueIds t).filter (fun id => F.contains id)) n).Nodup := by
  have hU := nodup_uniqueIds t
  have hFr : ∀ id ∈ (uniqueIds t).filter (fun id => F.contains id), id ∈ F := by
    intro id hid
    exact List.contains_iff_mem.mp (List.mem_filter.mp hid).2
  rw [List.nodup_append]
  refine ⟨List.Nodup.sublist List.filter_sublist hU,
    nodup_freeBlocks base (List.Nodup.sublist List.filter_sublist hU) hFr n, ?_⟩
  intro a ha b hb hab
  obtain ⟨k, _, id, hid, he⟩ := mem_freeBlocks.mp hb
  have h1 := hbase a (List.mem_filter.mp ha).1
  have h2 := freeRename_fresh base k id (hFr id hid)
  omega

/-- the number of parameters of the fitted model: every free parameter of the model once per
analysis, every other parameter once -/
theorem count_freeModel {V : Type} (t : Node V) (F : List Nat) (base n : Nat) (hn : 1 ≤ n)
    (hbase : ∀ id ∈ uniqueIds t, id < base) :
    count (freeModel t F base n) + ((uniqueIds t).filter (fun id => F.contains id)).length =
      count t + n * ((uniqueIds t).filter (fun id => F.contains id)).length := by
  have hperm := (List.perm_ext_iff_of_nodup (nodup_uniqueIds (freeModel t F base n))
    (nodup_freeList t F base n hbase)).mpr (mem_freeModel_iff t F base n hn)
  have hlen := hperm.length_eq
  rw [List.length_append, length_freeBlocks] at hlen
  have hsplit := (List.filter_append_perm (fun id => F.contains id) (uniqueIds t)).length_eq
  rw [List.length_append] at hsplit
  unfold count
  generalize n * ((uniqueIds t).filter (fun id => F.contains id)).length = m at hlen ⊢
  omega

example : count (freeModel (Node.model "G" ["a","b","c"] [("a", .prior 5), ("b", .prior 6), ("c", .prior 7)] : Node Nat) [5] 8 3) = 5 := by decide

end AF.Combined
