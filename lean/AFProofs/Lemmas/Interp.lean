import AFModel.Interp

/-! Helper lemmas for C20 (`AF.Interp`): functional updates along paths, the walk, the value map,
sorted keys, least squares. Core Lean only. -/

namespace AF.Interp

/-! ## attribute lists -/

theorem lookupAttr_setAttr_same : ∀ (attrs : List (String × Val)) (k : String) (c : Val),
    (lookupAttr attrs k).isSome → lookupAttr (setAttr attrs k c) k = some c
  | [], k, c, h => by simp [lookupAttr] at h
  | (k', x) :: rest, k, c, h => by
    by_cases hk : k' = k
    · simp [setAttr, lookupAttr, hk]
    · simp only [lookupAttr, hk, if_false] at h
      simp [setAttr, lookupAttr, hk, lookupAttr_setAttr_same rest k c h]

theorem lookupAttr_setAttr_other : ∀ (attrs : List (String × Val)) (k k' : String) (c : Val),
    k ≠ k' → lookupAttr (setAttr attrs k c) k' = lookupAttr attrs k'
  | [], _, _, _, _ => by simp [setAttr]
  | (k0, x) :: rest, k, k', c, h => by
    by_cases hk : k0 = k
    · subst hk
      simp [setAttr, lookupAttr, h]
    · simp [setAttr, lookupAttr, hk, lookupAttr_setAttr_other rest k k' c h]

/-! ## one step -/

theorem setChild_of_child {x : Val} {k : Key} {ch : Val} (c : Val) (h : child x k = some ch) :
    ∃ x', setChild x k c = some x' := by
  cases x <;> cases k <;> simp [child] at h
  case obj.s cls attrs name => simp [setChild, h]
  case list.i items n =>
    obtain ⟨hn, _⟩ := List.getElem?_eq_some_iff.mp h
    simp [setChild, hn]

theorem child_setChild_same {x x' : Val} {k : Key} {c : Val} (h : setChild x k c = some x') :
    child x' k = some c := by
  cases x <;> cases k <;> simp [setChild] at h
  case obj.s cls attrs name =>
    obtain ⟨hs, rfl⟩ := h
    simp [child, lookupAttr_setAttr_same attrs name c hs]
  case list.i items n =>
    obtain ⟨hn, rfl⟩ := h
    simp [child, hn]

theorem child_setChild_other {x x' : Val} {k k' : Key} {c : Val} (h : setChild x k c = some x')
    (hk : k ≠ k') : child x' k' = child x k' := by
  cases x <;> cases k <;> simp [setChild] at h
  case obj.s cls attrs name =>
    obtain ⟨_, rfl⟩ := h
    cases k' with
    | s name' =>
      have : name ≠ name' := fun e => hk (by rw [e])
      simp [child, lookupAttr_setAttr_other attrs name name' c this]
    | i n => simp [child]
  case list.i items n =>
    obtain ⟨_, rfl⟩ := h
    cases k' with
    | s name' => simp [child]
    | i m =>
      have : n ≠ m := fun e => hk (by rw [e])
      simp [child, List.getElem?_set_ne this]

/-! ## paths -/

theorem get_set_same : ∀ (p : IPath) (x y c : Val), getPath x p = some y →
    ∃ x', setPath x p c = some x' ∧ getPath x' p = some c
  | [], x, y, c, _ => ⟨c, by simp [setPath, getPath]⟩
  | k :: ks, x, y, c, h => by
    simp only [getPath] at h
    cases hc : child x k with
    | none => simp [hc] at h
    | some ch =>
      simp only [hc] at h
      obtain ⟨ch', hs, hg⟩ := get_set_same ks ch y c h
      obtain ⟨x', hx'⟩ := setChild_of_child ch' hc
      refine ⟨x', by simp [setPath, hc, hs, hx'], ?_⟩
      simp [getPath, child_setChild_same hx', hg]

/-- a value that paths cannot enter (number, opaque, tuple, dict, list-built instance) -/
def Atomic (y : Val) : Prop := ∀ k, child y k = none

theorem atomic_num (a : Rat) : Atomic (.num a) := fun k => by simp [child]
theorem atomic_int (n : Int) : Atomic (.int n) := fun k => by simp [child]

theorem get_of_set : ∀ (p : IPath) (x x' c : Val), setPath x p c = some x' → getPath x' p = some c
  | [], x, x', c, h => by
    simp only [setPath, Option.some.injEq] at h
    subst h
    rfl
  | k :: ks, x, x', c, h => by
    simp only [setPath] at h
    cases hc : child x k with
    | none => simp [hc] at h
    | some ch =>
      simp only [hc] at h
      cases hs : setPath ch ks c with
      | none => simp [hs] at h
      | some ch' =>
        simp only [hs] at h
        simp [getPath, child_setChild_same h, get_of_set ks ch ch' c hs]

/-- updating one place leaves every other place that holds an atomic value as it was -/
theorem get_set_other' : ∀ (p q : IPath) (x x' c yp yq : Val),
    getPath x p = some yp → Atomic yp → getPath x q = some yq → Atomic yq → p ≠ q →
    setPath x p c = some x' → getPath x' q = some yq
  | [], q, x, x', c, yp, yq, hp, hap, hq, _, hne, _ => by
    simp only [getPath, Option.some.injEq] at hp
    subst hp
    cases q with
    | nil => exact absurd rfl hne
    | cons k ks => simp [getPath, hap k] at hq
  | k :: ks, [], x, x', c, yp, yq, hp, _, hq, haq, _, _ => by
    simp only [getPath, Option.some.injEq] at hq
    subst hq
    simp [getPath, haq k] at hp
  | k :: ks, k' :: ks', x, x', c, yp, yq, hp, hap, hq, haq, hne, hs => by
    simp only [getPath] at hp hq
    simp only [setPath] at hs
    cases hc : child x k with
    | none => simp [hc] at hp
    | some ch =>
      simp only [hc] at hp hs
      cases hs' : setPath ch ks c with
      | none => simp [hs'] at hs
      | some ch' =>
        simp only [hs'] at hs
        by_cases hk : k = k'
        · subst hk
          simp only [hc] at hq
          have hne' : ks ≠ ks' := fun e => hne (by rw [e])
          have := get_set_other' ks ks' ch ch' c yp yq hp hap hq haq hne' hs'
          simp [getPath, child_setChild_same hs, this]
        · simp only [getPath, child_setChild_other hs hk]
          exact hq

/-- updating one float leaf leaves every other float leaf as it was -/
theorem get_set_other (p q : IPath) (x x' c : Val) (a b : Rat)
    (hp : getPath x p = some (.num a)) (hq : getPath x q = some (.num b)) (hne : p ≠ q)
    (hs : setPath x p c = some x') : getPath x' q = some (.num b) :=
  get_set_other' p q x x' c _ _ hp (atomic_num a) hq (atomic_num b) hne hs

/-! ## `applyAll` -/

/-- `p` addresses a float in `x` -/
def IsLeaf (x : Val) (p : IPath) : Prop := ∃ a, getPath x p = some (.num a)

theorem isLeaf_set {x x' : Val} {p q : IPath} {r : Rat} (hp : IsLeaf x p) (hq : IsLeaf x q)
    (hs : setPath x p (.num r) = some x') : IsLeaf x' q := by
  obtain ⟨a, ha⟩ := hp
  obtain ⟨b, hb⟩ := hq
  by_cases h : p = q
  · subst h
    obtain ⟨x'', hs', hg⟩ := get_set_same p x _ (.num r) ha
    rw [hs] at hs'
    cases hs'
    exact ⟨r, hg⟩
  · exact ⟨b, get_set_other p q x x' _ a b ha hb h hs⟩

theorem applyAll_spec : ∀ (vals : List (IPath × Rat)) (x : Val),
    (∀ e ∈ vals, IsLeaf x e.1) →
    (∀ e ∈ vals, ∀ e' ∈ vals, e.1 = e'.1 → e.2 = e'.2) →
    ∃ x', applyAll x vals = .ok x' ∧
      (∀ q, IsLeaf x q → IsLeaf x' q) ∧
      (∀ e ∈ vals, getPath x' e.1 = some (.num e.2)) ∧
      (∀ q y, getPath x q = some y → Atomic y → (∀ e ∈ vals, e.1 ≠ q) → getPath x' q = some y)
  | [], x, _, _ => ⟨x, rfl, fun _ h => h, by simp, fun _ _ h _ _ => h⟩
  | (p, r) :: rest, x, hleaf, hfun => by
    have hp : IsLeaf x p := hleaf (p, r) (by simp)
    obtain ⟨a, ha⟩ := hp
    obtain ⟨x1, hs, hg⟩ := get_set_same p x _ (.num r) ha
    have hleaf1 : ∀ e ∈ rest, IsLeaf x1 e.1 := fun e he =>
      isLeaf_set ⟨a, ha⟩ (hleaf e (by simp [he])) hs
    have hfun1 : ∀ e ∈ rest, ∀ e' ∈ rest, e.1 = e'.1 → e.2 = e'.2 := fun e he e' he' =>
      hfun e (by simp [he]) e' (by simp [he'])
    obtain ⟨x', hx', hl, hin, hout⟩ := applyAll_spec rest x1 hleaf1 hfun1
    refine ⟨x', by simp [applyAll, hs, hx'], ?_, ?_, ?_⟩
    · intro q hq
      exact hl q (isLeaf_set ⟨a, ha⟩ hq hs)
    · intro e he
      rcases List.mem_cons.mp he with rfl | he
      · -- the head entry: later entries with the same path carry the same value
        by_cases hex : ∃ e' ∈ rest, e'.1 = p
        · obtain ⟨e', he', hp'⟩ := hex
          have hv : r = e'.2 := hfun (p, r) (by simp) e' (by simp [he']) hp'.symm
          have := hin e' he'
          simpa [hp', ← hv] using this
        · have hno : ∀ e' ∈ rest, e'.1 ≠ p := fun e' he' h => hex ⟨e', he', h⟩
          exact hout p _ hg (atomic_num r) hno
      · exact hin e he
    · intro q y hq hay hno
      have hpq : p ≠ q := hno (p, r) (by simp)
      have h1 : getPath x1 q = some y := get_set_other' p q x x1 _ _ y ha (atomic_num a) hq hay hpq hs
      exact hout q y h1 hay (fun e he => hno e (by simp [he]))

/-! ## the walk reaches every addressable float -/

theorem mem_floatPathsAttrs_of_lookup : ∀ (attrs : List (String × Val)) (k : String) (x : Val) (p : IPath),
    lookupAttr attrs k = some x → p ∈ floatPaths x → (Key.s k :: p) ∈ floatPathsAttrs attrs
  | [], _, _, _, h, _ => by simp [lookupAttr] at h
  | (k', y) :: rest, k, x, p, h, hp => by
    simp only [floatPathsAttrs, List.mem_append, List.mem_map]
    by_cases hk : k' = k
    · simp only [lookupAttr, hk, if_true, Option.some.injEq] at h
      subst h
      exact Or.inl ⟨p, hp, by rw [hk]⟩
    · simp only [lookupAttr, hk, if_false] at h
      exact Or.inr (mem_floatPathsAttrs_of_lookup rest k x p h hp)

theorem mem_floatPathsItems_of_get : ∀ (items : List Val) (i n : Nat) (x : Val) (p : IPath),
    items[n]? = some x → p ∈ floatPaths x → (Key.i (i + n) :: p) ∈ floatPathsItems i items
  | [], _, _, _, _, h, _ => by simp at h
  | y :: rest, i, 0, x, p, h, hp => by
    simp only [List.getElem?_cons_zero, Option.some.injEq] at h
    subst h
    simp only [floatPathsItems, List.mem_append, List.mem_map]
    exact Or.inl ⟨p, hp, by simp⟩
  | y :: rest, i, n + 1, x, p, h, hp => by
    simp only [List.getElem?_cons_succ] at h
    simp only [floatPathsItems, List.mem_append]
    refine Or.inr ?_
    have := mem_floatPathsItems_of_get rest (i + 1) n x p h hp
    have e : i + 1 + n = i + (n + 1) := by omega
    rwa [e] at this

/-- every float that `getattr`/indexing can address is visited by the walk -/
theorem walk_complete : ∀ (p : IPath) (x : Val) (a : Rat),
    getPath x p = some (.num a) → p ∈ floatPaths x
  | [], x, a, h => by
    simp only [getPath, Option.some.injEq] at h
    subst h
    simp [floatPaths]
  | k :: ks, x, a, h => by
    simp only [getPath] at h
    cases hc : child x k with
    | none => simp [hc] at h
    | some ch =>
      simp only [hc] at h
      have ih := walk_complete ks ch a h
      cases x <;> cases k <;> simp [child] at hc
      case obj.s cls attrs name =>
        simp only [floatPaths]
        exact mem_floatPathsAttrs_of_lookup attrs name ch ks hc ih
      case list.i items n =>
        simp only [floatPaths]
        have := mem_floatPathsItems_of_get items 0 n ch ks hc ih
        simpa using this

/-! ## `interpValues` -/

theorem interpValues_spec (f : List Rat → List Rat → Rat → Except Err Rat) (ps : List (Rat × Val))
    (xs : List Rat) (v : Rat) : ∀ (paths : List IPath) (vals : List (IPath × Rat)),
    interpValues f ps xs v paths = .ok vals →
    vals.map (·.1) = paths ∧
      ∀ e ∈ vals, ∃ ys, seriesAt ps e.1 xs = .ok ys ∧ f xs ys v = .ok e.2
  | [], vals, h => by
    simp only [interpValues, Except.ok.injEq] at h
    subst h
    simp
  | p :: rest, vals, h => by
    simp only [interpValues] at h
    cases hs : seriesAt ps p xs with
    | error e => simp [hs] at h
    | ok ys =>
      simp only [hs] at h
      cases hf : f xs ys v with
      | error e => simp [hf] at h
      | ok r =>
        cases hr : interpValues f ps xs v rest with
        | error e => simp [hf, hr] at h
        | ok out =>
          simp only [hf, hr, Except.ok.injEq] at h
          subst h
          obtain ⟨hm, hall⟩ := interpValues_spec f ps xs v rest out hr
          refine ⟨by simp [hm], ?_⟩
          intro e he
          rcases List.mem_cons.mp he with rfl | he
          · exact ⟨ys, hs, hf⟩
          · exact hall e he

theorem interpValues_functional (f : List Rat → List Rat → Rat → Except Err Rat) (ps : List (Rat × Val))
    (xs : List Rat) (v : Rat) (paths : List IPath) (vals : List (IPath × Rat))
    (h : interpValues f ps xs v paths = .ok vals) :
    ∀ e ∈ vals, ∀ e' ∈ vals, e.1 = e'.1 → e.2 = e'.2 := by
  intro e he e' he' hp
  obtain ⟨_, hall⟩ := interpValues_spec f ps xs v paths vals h
  obtain ⟨ys, hs, hf⟩ := hall e he
  obtain ⟨ys', hs', hf'⟩ := hall e' he'
  rw [hp, hs'] at hs
  cases hs
  rw [hf'] at hf
  exact (Except.ok.inj hf).symm

/-! ## the value map -/

theorem pairs_spec (tp : IPath) : ∀ (insts : List Val) (ps : List (Rat × Val)),
    pairs tp insts = .ok ps → ps.map (·.2) = insts ∧ ∀ e ∈ ps, tOf tp e.2 = .ok e.1
  | [], ps, h => by
    simp only [pairs, Except.ok.injEq] at h
    subst h
    simp
  | i :: rest, ps, h => by
    simp only [pairs] at h
    cases ht : tOf tp i with
    | error e => simp [ht] at h
    | ok t =>
      cases hr : pairs tp rest with
      | error e => simp [ht, hr] at h
      | ok ps' =>
        simp only [ht, hr, Except.ok.injEq] at h
        subst h
        obtain ⟨hm, hall⟩ := pairs_spec tp rest ps' hr
        refine ⟨by simp [hm], ?_⟩
        intro e he
        rcases List.mem_cons.mp he with rfl | he
        · exact ht
        · exact hall e he

theorem pairs_eq_map (tp : IPath) : ∀ (insts : List Val) (ps : List (Rat × Val)),
    pairs tp insts = .ok ps → ∀ i ∈ insts, ∃ t, tOf tp i = .ok t ∧ (t, i) ∈ ps
  | [], _, _, i, hi => by simp at hi
  | j :: rest, ps, h, i, hi => by
    simp only [pairs] at h
    cases ht : tOf tp j with
    | error e => simp [ht] at h
    | ok t =>
      cases hr : pairs tp rest with
      | error e => simp [ht, hr] at h
      | ok ps' =>
        simp only [ht, hr, Except.ok.injEq] at h
        subst h
        rcases List.mem_cons.mp hi with rfl | hi
        · exact ⟨t, ht, by simp⟩
        · obtain ⟨t', ht', hm⟩ := pairs_eq_map tp rest ps' hr i hi
          exact ⟨t', ht', by simp [hm]⟩

theorem lookupLast_mem : ∀ (ps : List (Rat × Val)) (k : Rat) (i : Val),
    lookupLast k ps = some i → (k, i) ∈ ps
  | [], _, _, h => by simp [lookupLast] at h
  | (k', j) :: rest, k, i, h => by
    simp only [lookupLast] at h
    cases hr : lookupLast k rest with
    | some j' =>
      simp only [hr, Option.some.injEq] at h
      subst h
      exact List.mem_cons_of_mem _ (lookupLast_mem rest k j' hr)
    | none =>
      simp only [hr] at h
      by_cases hk : k' = k
      · simp only [hk, if_true, Option.some.injEq] at h
        subst h
        simp [hk]
      · simp [hk] at h

theorem lookupLast_none : ∀ (ps : List (Rat × Val)) (k : Rat),
    lookupLast k ps = none → ∀ e ∈ ps, e.1 ≠ k
  | [], _, _, e, he => by simp at he
  | (k', j) :: rest, k, h, e, he => by
    simp only [lookupLast] at h
    cases hr : lookupLast k rest with
    | some j' => simp [hr] at h
    | none =>
      simp only [hr] at h
      rcases List.mem_cons.mp he with rfl | he
      · intro hk
        exact absurd hk (by simpa using h)
      · exact lookupLast_none rest k hr e he

/-- with pairwise distinct abscissae the value map returns *the* instance with that abscissa -/
theorem lookupLast_of_mem_nodup : ∀ (ps : List (Rat × Val)) (k : Rat) (i : Val),
    (ps.map (·.1)).Nodup → (k, i) ∈ ps → lookupLast k ps = some i
  | [], _, _, _, h => by simp at h
  | (k', j) :: rest, k, i, hnd, h => by
    simp only [List.map_cons, List.nodup_cons] at hnd
    rcases List.mem_cons.mp h with heq | h
    · simp only [Prod.mk.injEq] at heq
      obtain ⟨rfl, rfl⟩ := heq
      have : lookupLast k rest = none := by
        cases hr : lookupLast k rest with
        | none => rfl
        | some j' =>
          exact absurd (List.mem_map.mpr ⟨(k, j'), lookupLast_mem rest k j' hr, rfl⟩) hnd.1
      simp [lookupLast, this]
    · simp [lookupLast, lookupLast_of_mem_nodup rest k i hnd.2 h]

theorem lookupLast_perm {ps ps' : List (Rat × Val)} (hp : ps.Perm ps')
    (hnd : (ps.map (·.1)).Nodup) (k : Rat) : lookupLast k ps = lookupLast k ps' := by
  have hnd' : (ps'.map (·.1)).Nodup := (hp.map _).nodup_iff.mp hnd
  cases h : lookupLast k ps with
  | some i =>
    have := hp.subset (lookupLast_mem ps k i h)
    exact (lookupLast_of_mem_nodup ps' k i hnd' this).symm
  | none =>
    cases h' : lookupLast k ps' with
    | none => rfl
    | some i =>
      have := hp.symm.subset (lookupLast_mem ps' k i h')
      rw [lookupLast_of_mem_nodup ps k i hnd this] at h
      cases h

theorem pairs_perm (tp : IPath) {insts insts' : List Val} (hp : insts.Perm insts') :
    ∀ ps, pairs tp insts = .ok ps → ∃ ps', pairs tp insts' = .ok ps' ∧ ps.Perm ps' := by
  induction hp with
  | nil => intro ps h; exact ⟨ps, h, List.Perm.refl _⟩
  | cons x _ ih =>
    intro ps h
    simp only [pairs] at h
    cases ht : tOf tp x with
    | error e => simp [ht] at h
    | ok t =>
      rename_i l₁ l₂ _
      cases hr : pairs tp l₁ with
      | error e => simp [ht, hr] at h
      | ok ps1 =>
        simp only [ht, hr, Except.ok.injEq] at h
        subst h
        obtain ⟨ps2, h2, hperm⟩ := ih ps1 hr
        exact ⟨(t, x) :: ps2, by simp [pairs, ht, h2], hperm.cons _⟩
  | swap x y l =>
    intro ps h
    simp only [pairs] at h
    cases hx : tOf tp x with
    | error e => cases hy : tOf tp y <;> cases hr : pairs tp l <;> simp [hx, hy, hr] at h
    | ok tx =>
      cases hy : tOf tp y with
      | error e => cases hr : pairs tp l <;> simp [hx, hy, hr] at h
      | ok ty =>
        cases hr : pairs tp l with
        | error e => simp [hx, hy, hr] at h
        | ok ps0 =>
          simp only [hx, hy, hr, Except.ok.injEq] at h
          subst h
          exact ⟨(tx, x) :: (ty, y) :: ps0, by simp [pairs, hx, hy, hr], List.Perm.swap _ _ _⟩
  | trans _ _ ih1 ih2 =>
    intro ps h
    obtain ⟨ps1, h1, hp1⟩ := ih1 ps h
    obtain ⟨ps2, h2, hp2⟩ := ih2 ps1 h1
    exact ⟨ps2, h2, hp1.trans hp2⟩

/-! ## sorted keys -/

theorem mem_insertKey {a x : Rat} : ∀ {l : List Rat}, x ∈ insertKey a l ↔ x = a ∨ x ∈ l
  | [] => by simp [insertKey]
  | b :: bs => by
    simp only [insertKey]
    split
    · simp
    · split
      · rename_i h; subst h; simp
      · simp only [List.mem_cons, mem_insertKey (l := bs)]
        grind

theorem sorted_insertKey {a : Rat} : ∀ {l : List Rat}, l.Pairwise (· < ·) → (insertKey a l).Pairwise (· < ·)
  | [], _ => by simp [insertKey]
  | b :: bs, h => by
    simp only [insertKey]
    have hb := List.pairwise_cons.mp h
    split
    · rename_i hab
      refine List.pairwise_cons.mpr ⟨?_, h⟩
      intro c hc
      rcases List.mem_cons.mp hc with rfl | hc
      · exact hab
      · have := hb.1 c hc
        grind
    · split
      · exact h
      · rename_i h1 h2
        refine List.pairwise_cons.mpr ⟨?_, sorted_insertKey hb.2⟩
        intro c hc
        rcases mem_insertKey.mp hc with rfl | hc
        · grind
        · exact hb.1 c hc

theorem sorted_sortedKeys : ∀ (l : List Rat), (sortedKeys l).Pairwise (· < ·)
  | [] => by simp [sortedKeys]
  | a :: l => by
    have := sorted_sortedKeys l
    simpa [sortedKeys] using sorted_insertKey (a := a) this

theorem mem_sortedKeys {x : Rat} : ∀ {l : List Rat}, x ∈ sortedKeys l ↔ x ∈ l
  | [] => by simp [sortedKeys]
  | a :: l => by
    have ih := mem_sortedKeys (x := x) (l := l)
    simp only [sortedKeys, List.foldr_cons, List.mem_cons] at ih ⊢
    rw [mem_insertKey, ih]

theorem insertKey_comm (a b : Rat) : ∀ l, insertKey a (insertKey b l) = insertKey b (insertKey a l)
  | [] => by
    simp only [insertKey]
    grind
  | c :: l => by
    have ih := insertKey_comm a b l
    simp only [insertKey]
    grind [insertKey]

/-- `sorted(...)` does not depend on the order in which the abscissae arrive -/
theorem sortedKeys_perm {l l' : List Rat} (hp : l.Perm l') : sortedKeys l = sortedKeys l' := by
  induction hp with
  | nil => rfl
  | cons x _ ih => simp only [sortedKeys, List.foldr_cons] at ih ⊢; rw [ih]
  | swap x y l => simp only [sortedKeys, List.foldr_cons]; exact insertKey_comm y x _
  | trans _ _ ih1 ih2 => exact ih1.trans ih2

/-- a strictly increasing list with at least … elements: length of the sorted keys when the
abscissae are pairwise distinct -/
theorem length_sortedKeys_of_nodup : ∀ (l : List Rat), l.Nodup → (sortedKeys l).length = l.length
  | [], _ => by simp [sortedKeys]
  | a :: l, h => by
    have hnd := List.nodup_cons.mp h
    have ih := length_sortedKeys_of_nodup l hnd.2
    have hn : a ∉ sortedKeys l := fun hm => hnd.1 (mem_sortedKeys.mp hm)
    have key : ∀ (m : List Rat), a ∉ m → (insertKey a m).length = m.length + 1 := by
      intro m
      induction m with
      | nil => simp [insertKey]
      | cons b bs ihm =>
        intro hnm
        simp only [List.mem_cons, not_or] at hnm
        simp only [insertKey]
        split
        · simp
        · split
          · exact absurd ‹a = b› hnm.1
          · simp [ihm hnm.2]
    have e : sortedKeys (a :: l) = insertKey a (sortedKeys l) := rfl
    rw [e, key _ hn, ih]
    simp

/-! ## least squares -/

theorem sq_nonneg (a : Rat) : 0 ≤ a * a := by
  rcases @Rat.le_total 0 a with h | h
  · exact Rat.mul_nonneg h h
  · have h' : 0 ≤ -a := by grind
    have := Rat.mul_nonneg h' h'
    grind

theorem sq_pos {a : Rat} (h : a ≠ 0) : 0 < a * a := by
  have h1 := sq_nonneg a
  have h2 : a * a ≠ 0 := by grind
  grind

/-- `Σ_j (x − x_j)²` -/
def sumSq (x : Rat) : List Rat → Rat
  | [] => 0
  | y :: ys => (x - y) * (x - y) + sumSq x ys

theorem sumSq_nonneg (x : Rat) : ∀ ys, 0 ≤ sumSq x ys
  | [] => by simp [sumSq]
  | y :: ys => by
    have := sumSq_nonneg x ys
    have := sq_nonneg (x - y)
    simp only [sumSq]
    grind

theorem sumSq_pos (x : Rat) : ∀ ys, (∃ y ∈ ys, y ≠ x) → 0 < sumSq x ys
  | [], h => by simp at h
  | y :: ys, h => by
    simp only [sumSq]
    have h0 := sumSq_nonneg x ys
    have h1 := sq_nonneg (x - y)
    obtain ⟨z, hz, hne⟩ := h
    rcases List.mem_cons.mp hz with rfl | hz
    · have : x - z ≠ 0 := by grind
      have := sq_pos this
      grind
    · have := sumSq_pos x ys ⟨z, hz, hne⟩
      grind

theorem natCast_succ (n : Nat) : ((n + 1 : Nat) : Rat) = (n : Rat) + 1 := by simp

/-- `n·Σx² − (Σx)² = Σ_{i<j} (x_i − x_j)²`, one element at a time -/
theorem denom_cons (x : Rat) (xs : List Rat) : denom (x :: xs) = denom xs + sumSq x xs := by
  have key : ∀ (l : List Rat), sumSq x l = (l.length : Rat) * (x * x) - 2 * x * sum l + dot l l := by
    intro l
    induction l with
    | nil => simp only [sumSq, sum, dot, List.length_nil]; grind
    | cons y ys ih =>
      simp only [sumSq, sum, dot, List.length_cons, natCast_succ, ih]
      grind
  simp only [denom, sum, dot, List.length_cons, natCast_succ, key]
  grind

theorem denom_nonneg : ∀ xs, 0 ≤ denom xs
  | [] => by simp only [denom, sum, dot, List.length_nil]; grind
  | x :: xs => by
    rw [denom_cons]
    have := denom_nonneg xs
    have := sumSq_nonneg x xs
    grind

/-- at least two distinct abscissae: the regression is defined -/
theorem denom_pos_of_sorted : ∀ (xs : List Rat), xs.Pairwise (· < ·) → 2 ≤ xs.length → 0 < denom xs
  | [], _, h => by simp at h
  | [_], _, h => by simp at h
  | x :: y :: rest, hs, _ => by
    rw [denom_cons]
    have h0 := denom_nonneg (y :: rest)
    have hxy : x < y := (List.pairwise_cons.mp hs).1 y (by simp)
    have := sumSq_pos x (y :: rest) ⟨y, by simp, by grind⟩
    grind

/-- two different abscissae anywhere in the list (any order, duplicates allowed) -/
theorem denom_pos_of_two_distinct : ∀ (xs : List Rat), (∃ x ∈ xs, ∃ y ∈ xs, x ≠ y) → 0 < denom xs
  | [], h => by
    obtain ⟨x, hx, _⟩ := h
    simp at hx
  | z :: rest, h => by
    rw [denom_cons]
    have h0 := denom_nonneg rest
    have h1 := sumSq_nonneg z rest
    obtain ⟨x, hx, y, hy, hne⟩ := h
    by_cases hz : ∃ w ∈ rest, w ≠ z
    · have := sumSq_pos z rest hz
      grind
    · have hall : ∀ w ∈ rest, w = z := fun w hw =>
        Classical.byContradiction (fun hn => hz ⟨w, hw, hn⟩)
      have hxz : x = z := by
        rcases List.mem_cons.mp hx with h | h
        · exact h
        · exact hall x h
      have hyz : y = z := by
        rcases List.mem_cons.mp hy with h | h
        · exact h
        · exact hall y h
      exact absurd (hxz.trans hyz.symm) hne

theorem sum_linear (a b : Rat) : ∀ xs : List Rat,
    sum (xs.map (fun x => a * x + b)) = a * sum xs + (xs.length : Rat) * b
  | [] => by simp only [sum, List.map_nil, List.length_nil]; grind
  | x :: xs => by
    simp only [List.map_cons, sum, List.length_cons, natCast_succ, sum_linear a b xs]
    grind

theorem dot_linear (a b : Rat) : ∀ xs : List Rat,
    dot xs (xs.map (fun x => a * x + b)) = a * dot xs xs + b * sum xs
  | [] => by simp only [sum, dot]; grind
  | x :: xs => by
    simp only [List.map_cons, sum, dot, dot_linear a b xs]
    grind

theorem natCast_ne_zero_of_ne_nil (xs : List Rat) (h : xs ≠ []) : (xs.length : Rat) ≠ 0 := by
  cases xs with
  | nil => exact absurd rfl h
  | cons x xs =>
    have : (0 : Rat) ≤ (xs.length : Rat) := Rat.natCast_nonneg
    simp only [List.length_cons, natCast_succ]
    grind

/-- **Least squares is exact on linear data**: if `y_k = a·x_k + b` for every `k` and the abscissae
are not all equal, the fitted line is `a·v + b` at every `v` (inside or outside the sampled range). -/
theorem lsq_linear (a b v : Rat) (xs : List Rat) (hd : denom xs ≠ 0) :
    lsq xs (xs.map (fun x => a * x + b)) v = .ok (a * v + b) := by
  have hn : (xs.length : Rat) ≠ 0 := by
    apply natCast_ne_zero_of_ne_nil
    intro h
    subst h
    simp only [denom, sum, dot, List.length_nil] at hd
    grind
  have hslope : slope xs (xs.map (fun x => a * x + b)) = a := by
    simp only [slope, sum_linear, dot_linear]
    have : (xs.length : Rat) * (a * dot xs xs + b * sum xs) - sum xs * (a * sum xs + (xs.length : Rat) * b)
        = a * denom xs := by
      simp only [denom]; grind
    rw [this]
    grind
  simp only [lsq, hd, if_false, intercept, hslope, sum_linear]
  congr 1
  grind

/-! ## series -/

theorem seriesAt_congr {ps ps' : List (Rat × Val)} (h : ∀ k, lookupLast k ps = lookupLast k ps')
    (p : IPath) : ∀ xs, seriesAt ps p xs = seriesAt ps' p xs
  | [] => rfl
  | x :: xs => by
    simp only [seriesAt, h x, seriesAt_congr h p xs]

theorem lookupLast_isSome_of_key (ps : List (Rat × Val)) (k : Rat) (h : ∃ e ∈ ps, e.1 = k) :
    ∃ i, lookupLast k ps = some i := by
  cases hl : lookupLast k ps with
  | some i => exact ⟨i, rfl⟩
  | none =>
    obtain ⟨e, he, hk⟩ := h
    exact absurd hk (lookupLast_none ps k hl e he)

/-- if every instance holds `a·t + b` at `p`, the ordinates handed to `_interpolate` are `a·x + b` -/
theorem seriesAt_linear (ps : List (Rat × Val)) (p : IPath) (a b : Rat)
    (hlin : ∀ e ∈ ps, numOf (getPath e.2 p) = .ok (a * e.1 + b)) :
    ∀ xs, (∀ x ∈ xs, ∃ e ∈ ps, e.1 = x) → seriesAt ps p xs = .ok (xs.map (fun x => a * x + b))
  | [], _ => rfl
  | x :: xs, hk => by
    obtain ⟨i, hi⟩ := lookupLast_isSome_of_key ps x (hk x (by simp))
    have hm := lookupLast_mem ps x i hi
    have hv := hlin (x, i) hm
    have ih := seriesAt_linear ps p a b hlin xs (fun y hy => hk y (by simp [hy]))
    simp only at hv
    simp [seriesAt, hi, hv, ih]

/-! ## unfolding `getitem` -/

theorem getitem_hit (cfg : Cfg) (f) (insts : List Val) (tp : IPath) (v : Rat) (ps) (i : Val)
    (hps : pairs tp insts = .ok ps) (hl : lookupLast v ps = some i) :
    getitem cfg f insts tp v = .ok i := by
  simp [getitem, hps, hl]

theorem getitem_miss (cfg : Cfg) (f) (tmpl : Val) (rest : List Val) (tp : IPath) (v : Rat) (ps) (r : Val)
    (hps : pairs tp (tmpl :: rest) = .ok ps) (hl : lookupLast v ps = none)
    (h : getitem cfg f (tmpl :: rest) tp v = .ok r) :
    ∃ vals new, interpValues f ps (sortedKeys (ps.map (·.1))) v (floatPaths tmpl) = .ok vals ∧
      applyAll tmpl vals = .ok new ∧
      ((cfg.setsVariable = true ∧ setPath new tp (.num v) = some r) ∨
       (cfg.setsVariable = false ∧ r = new)) := by
  simp only [getitem, hps, hl] at h
  cases hv : interpValues f ps (sortedKeys (ps.map (·.1))) v (floatPaths tmpl) with
  | error e => simp [hv] at h
  | ok vals =>
    simp only [hv] at h
    cases ha : applyAll tmpl vals with
    | error e => simp [ha] at h
    | ok new =>
      simp only [ha] at h
      refine ⟨vals, new, rfl, ha, ?_⟩
      cases hc : cfg.setsVariable with
      | true =>
        simp only [hc, if_true] at h
        cases hs : setPath new tp (.num v) with
        | none => simp [hs] at h
        | some r' =>
          simp only [hs, Except.ok.injEq] at h
          subst h
          exact Or.inl ⟨rfl, rfl⟩
      | false =>
        simp only [hc] at h
        simp only [Bool.false_eq_true, if_false, Except.ok.injEq] at h
        exact Or.inr ⟨rfl, h.symm⟩

/-! ## structure of a non-hit answer -/

def isNumAt (x : Val) (p : IPath) : Bool :=
  match getPath x p with
  | some (.num _) => true
  | _ => false

theorem isLeaf_of_isNumAt {x : Val} {p : IPath} (h : isNumAt x p = true) : IsLeaf x p := by
  unfold isNumAt at h
  split at h
  · rename_i a ha; exact ⟨a, ha⟩
  · cases h

/-- every float the walk yields can be addressed by `getattr`/indexing: no float below a `dict`,
no attribute shadowed by an earlier one of the same name (decidable) -/
def Addressable (x : Val) : Prop := (floatPaths x).all (isNumAt x) = true

instance (x : Val) : Decidable (Addressable x) := by unfold Addressable; infer_instance

theorem Addressable.leaf {x : Val} (h : Addressable x) {p : IPath} (hp : p ∈ floatPaths x) : IsLeaf x p :=
  isLeaf_of_isNumAt (List.all_eq_true.mp h p hp)

theorem numOf_ok {o : Option Val} {t : Rat} (h : numOf o = .ok t) :
    (∃ a, o = some (.num a)) ∨ (∃ n, o = some (.int n)) := by
  unfold numOf at h
  split at h
  · exact Or.inl ⟨_, rfl⟩
  · exact Or.inr ⟨_, rfl⟩
  · cases h
  · cases h

theorem miss_structure (cfg : Cfg) (f) (tmpl : Val) (rest : List Val) (tp : IPath) (v : Rat) (ps) (r : Val)
    (hps : pairs tp (tmpl :: rest) = .ok ps) (hl : lookupLast v ps = none) (hA : Addressable tmpl)
    (h : getitem cfg f (tmpl :: rest) tp v = .ok r) :
    ∃ vals new, interpValues f ps (sortedKeys (ps.map (·.1))) v (floatPaths tmpl) = .ok vals ∧
      (∀ p a, getPath tmpl p = some (.num a) → ∃ e ∈ vals, e.1 = p ∧ getPath new p = some (.num e.2)) ∧
      (∃ y, getPath new tp = some y ∧ Atomic y) ∧
      (∀ q y, getPath tmpl q = some y → Atomic y → (∀ a, y ≠ .num a) → getPath new q = some y) ∧
      ((cfg.setsVariable = true ∧ setPath new tp (.num v) = some r) ∨
       (cfg.setsVariable = false ∧ r = new)) := by
  obtain ⟨vals, new, hv, ha, hfin⟩ := getitem_miss cfg f tmpl rest tp v ps r hps hl h
  obtain ⟨hmap, _⟩ := interpValues_spec f ps _ v _ vals hv
  have hleaf : ∀ e ∈ vals, IsLeaf tmpl e.1 := by
    intro e he
    apply hA.leaf
    rw [← hmap]
    exact List.mem_map.mpr ⟨e, he, rfl⟩
  obtain ⟨x', hx', hkeep, hin, hout⟩ :=
    applyAll_spec vals tmpl hleaf (interpValues_functional f ps _ v _ vals hv)
  rw [ha] at hx'
  cases hx'
  refine ⟨vals, new, hv, ?_, ?_, ?_, hfin⟩
  · intro p a hp
    have hm : p ∈ vals.map (·.1) := by rw [hmap]; exact walk_complete p tmpl a hp
    obtain ⟨e, he, hep⟩ := List.mem_map.mp hm
    refine ⟨e, he, hep, ?_⟩
    have := hin e he
    rwa [hep] at this
  · obtain ⟨t, ht, _⟩ := pairs_eq_map tp (tmpl :: rest) ps hps tmpl (by simp)
    rcases numOf_ok ht with ⟨a, ha'⟩ | ⟨n, hn⟩
    · obtain ⟨b, hb⟩ := hkeep tp ⟨a, ha'⟩
      exact ⟨_, hb, atomic_num b⟩
    · refine ⟨_, hout tp (.int n) hn (atomic_int n) ?_, atomic_int n⟩
      intro e he hep
      obtain ⟨b, hb⟩ := hleaf e he
      rw [hep, hn] at hb
      cases hb
  · intro q y hq hay hnn
    refine hout q y hq hay ?_
    intro e he hep
    obtain ⟨b, hb⟩ := hleaf e he
    rw [hep, hq] at hb
    exact hnn b (Option.some.inj hb)

end AF.Interp
